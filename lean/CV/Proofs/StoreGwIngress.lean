/-
Stage 2 of C07, mesh-topology on the gateway side: in every reachable state every ingress link of gateway-services
(a row of an ingress gateway for a named service) has its (service <- gateway) pair in mesh-topology — or the key is
listed in the ghost record `lostIngress`, written only right after a command that runs `cleanupGatewayWildcards`.
-/
import CV.Proofs.StoreGwTopo
namespace CV.Store
open CV

/-- every ingress link has its pair, or its key is in `L` -/
def ICt (L : List String) (T : GTabs) : Prop :=
  ∀ m ∈ T.gw, m.kind = .ingressGateway → m.service ≠ "*" → hasTopo T.topo (pk2 m.service m.gateway) = true ∨ pk2 m.service m.gateway ∈ L

theorem hasTopo_tupsert_mono {t : List TopoRow} {new : TopoRow} {k : String} (h : hasTopo t k = true) :
    hasTopo (tupsert TopoRow.pk strLt new t) k = true := by
  rw [hasTopo_iff] at h ⊢
  obtain ⟨r, hr, hk⟩ := h
  rcases mem_tupsert_of_mem (lt := strLt) (r := new) hr with h1 | h1
  · exact ⟨r, h1, hk⟩
  · exact ⟨new, self_mem_tupsert _ _, h1.symm.trans hk⟩

theorem ict_gwUpdate {L : List String} {T : GTabs} (h : ICt L T) (idx : Nat) (m : GwRow) : ICt L (gwUpdate T idx m) := by
  unfold gwUpdate
  extract_lets m1
  cases hm1 : m1 with
  | none => exact h
  | some m' =>
    simp only
    intro y hy hk hs
    simp only at hy
    unfold topoIngressInsert
    rcases mem_tupsert hy with rfl | hy
    · left
      rw [if_neg (by intro hh; rcases hh with hh | hh; exact hh hk; exact hs hh)]
      exact hasTopo_iff.mpr ⟨_, self_mem_tupsert _ _, rfl⟩
    · rcases h y hy hk hs with h1 | h1
      · left
        split
        · exact h1
        · exact hasTopo_tupsert_mono h1
      · exact Or.inr h1

theorem ict_foldl {β : Type} {L : List String} (f : GTabs → β → GTabs) (hf : ∀ T b, ICt L T → ICt L (f T b)) :
    ∀ (l : List β) (T : GTabs), ICt L T → ICt L (l.foldl f T) := by
  intro l
  induction l with
  | nil => intro T h; exact h
  | cons b bs ih => intro T h; simp only [List.foldl_cons]; exact ih _ (hf T b h)

theorem ict_gwNamespace {L : List String} {T : GTabs} (h : ICt L T) (x : XState) (idx : Nat) (w : GwRow) : ICt L (gwNamespace T x idx w) := by
  unfold gwNamespace
  extract_lets T1 T2
  have h1 : ICt L T1 := by
    unfold T1
    refine ict_foldl _ ?_ _ T h
    intro T' r hT'
    simp only
    repeat' split
    all_goals first | exact hT' | exact ict_gwUpdate hT' idx _
  have h2 : ICt L T2 := by
    unfold T2
    refine ict_foldl _ ?_ _ T1 h1
    intro T' c hT'
    repeat' split
    all_goals first | exact hT' | exact ict_gwUpdate hT' idx _
  exact ict_gwUpdate h2 idx w

theorem ict_gwCheckWildcards {L : List String} {T : GTabs} (h : ICt L T) (x : XState) (idx : Nat) (name : String) (ns : Option Bool)
    (kind : GsKind) : ICt L (gwCheckWildcards T x idx name ns kind) := by
  unfold gwCheckWildcards
  refine ict_foldl _ ?_ _ T h
  intro T' w hT'
  repeat' split
  all_goals first | exact hT' | exact ict_gwUpdate hT' idx _

theorem ict_gwCheck {L : List String} {T : GTabs} (h : ICt L T) (idx : Nat) (name : String) (kind : GsKind) : ICt L (gwCheck T idx name kind) := by
  unfold gwCheck
  split
  · exact ict_gwUpdate h idx _
  · exact h

section
variable {Gn : List String}

theorem ict_gwConfigSet (hGn : ∀ n ∈ Gn, NF n) {L : List String} {T : GTabs} (hok : TOk Gn T) (h : ICt L T) (x : XState) (idx : Nat)
    (kind name tok : String) : ICt L (gwConfigSet T x idx kind name tok) := by
  unfold gwConfigSet
  split
  · exact h
  · extract_lets noChange T0
    split
    · exact h
    · have h0 : ICt L T0 := by
        unfold T0
        intro m hm hk hs
        simp only at hm ⊢
        obtain ⟨m1, m2⟩ := List.mem_filter.mp hm
        rcases h m m1 hk hs with h1 | h1
        · left
          split
          · rw [hasTopo_iff] at h1 ⊢
            obtain ⟨r, hr, hkr⟩ := h1
            refine ⟨r, List.mem_filter.mpr ⟨hr, ?_⟩, hkr⟩
            have e := (pk2_inj_right (hok.nf r hr) (nf_of_mem hGn (hok.names m m1)) hkr).2
            simp only [bne_iff_ne, ne_eq] at m2 ⊢
            rw [e]; exact m2
          · exact h1
        · exact Or.inr h1
      refine ict_foldl _ ?_ _ T0 h0
      intro T' m hT'
      split
      · exact ict_gwNamespace hT' x idx m
      · exact ict_gwUpdate hT' idx m

/-- `updateMeshTopology` for a destination that is not a gateway name keeps the pairs of the ingress links -/
theorem ict_topoEnsure (hGn : ∀ n ∈ Gn, NF n) {L : List String} {T : GTabs} (hok : TOk Gn T) (h : ICt L T) (idx : Nat) (node : String)
    (q : SvcReq) (ex : Option (Svc × SvcX)) (hq : NF q.dest) (hout : lc q.dest ∉ Gn) :
    ICt L { T with topo := topoEnsure T.topo idx node q ex } := by
  intro m hm hk hs
  rcases h m hm hk hs with h1 | h1
  · left
    unfold topoEnsure
    split
    · simp only
      rw [hasTopo_iff] at h1 ⊢
      obtain ⟨a1, a2, a3⟩ := addLoop idx q.dest (uidOf node q.id) q.ups T.topo
      obtain ⟨r, hr, hkr⟩ := a2 _ h1
      refine ⟨r, (dropLoop q.ups q.dest _ _ r).mpr ⟨hr, ?_⟩, hkr⟩
      intro hmem
      obtain ⟨u, _, hu⟩ := List.mem_map.mp hmem
      rw [hkr] at hu
      have := (pk2_inj_right hq (nf_of_mem hGn (hok.names m hm)) hu).2
      exact hout (this ▸ hok.names m hm)
    · exact h1
  · exact Or.inr h1

theorem ict_ensureHooks (hGn : ∀ n ∈ Gn, NF n) {L : List String} {T : GTabs} (hok : TOk Gn T) (h : ICt L T) (x : XState) (p : String)
    (idx : Nat) (node : String) (q : SvcReq) (hq : NF q.dest) (hout : lc q.dest ∉ Gn) : ICt L (ensureHooks T x p idx node q) := by
  unfold ensureHooks
  simp only
  have s1 : TOk Gn (if p = "" ∧ q.kind = .typical ∧ q.name ≠ "consul" then
        gwCheck (gwCheckWildcards T x idx q.name (some (decide (q.kind = .connectProxy ∨ q.native = true))) .service) idx q.name .service
      else T) ∧ ICt L (if p = "" ∧ q.kind = .typical ∧ q.name ≠ "consul" then
        gwCheck (gwCheckWildcards T x idx q.name (some (decide (q.kind = .connectProxy ∨ q.native = true))) .service) idx q.name .service
      else T) := by
    split
    · have a := tstep_gwCheckWildcards hGn hok x idx q.name (some (decide (q.kind = .connectProxy ∨ q.native = true))) .service
      exact ⟨(tstep_gwCheck hGn a.ok idx q.name .service).ok, ict_gwCheck (ict_gwCheckWildcards h x idx _ _ _) idx _ _⟩
    · exact ⟨hok, h⟩
  generalize (if p = "" ∧ q.kind = .typical ∧ q.name ≠ "consul" then
        gwCheck (gwCheckWildcards T x idx q.name (some (decide (q.kind = .connectProxy ∨ q.native = true))) .service) idx q.name .service
      else T) = T1 at s1
  split
  · exact ict_gwCheckWildcards (ict_topoEnsure hGn s1.1 s1.2 idx node q _ hq hout) x idx _ _ _
  · exact s1.2

/-- the invariant: every ingress link has its pair, or was found without it after a cleanup -/
def GIC (g : GState) : Prop := ICt g.gh.lostIngress g.t

theorem ict_missing (T : GTabs) (L : List String) : ICt (L ++ ingressMissing T) T := by
  intro m hm hk hs
  cases hT : hasTopo T.topo (pk2 m.service m.gateway) with
  | true => exact Or.inl rfl
  | false =>
    right
    apply List.mem_append_right
    unfold ingressMissing
    rw [List.mem_filter]
    refine ⟨List.mem_map.mpr ⟨m, List.mem_filter.mpr ⟨hm, ?_⟩, rfl⟩, by rw [hT]; rfl⟩
    simp [hk, hs]

/-- the two invariants together are closed under every G-level function -/
theorem gic_closed (hGn : ∀ n ∈ Gn, NF n) (hnil : "" ∉ Gn) : GClosed (WG Gn) (WcG Gn) (fun g => GI Gn g ∧ GIC g) where
  aux := fun g x' hv h => ⟨(gi_closed hGn hnil).aux g x' hv h.1, h.2⟩
  setSt := fun g p st' hs h => ⟨(gi_closed hGn hnil).setSt g p st' hs h.1, h.2⟩
  ensureService := by
    intro g g' p node idx q hw he h
    refine ⟨(gi_closed hGn hnil).ensureService hw he h.1, ?_⟩
    unfold ensureServiceG at he
    cases hx : ensureServiceX g.x p idx node q with
    | error e => rw [hx] at he; simp at he
    | ok x' =>
      rw [hx] at he; simp only at he; injection he with he; subst he
      exact ict_ensureHooks hGn h.1.tok h.2 g.x p idx node q hw.2.1 hw.2.2
  deleteService := by
    intro g g' p node id idx he h
    refine ⟨(gi_closed hGn hnil).deleteService he h.1, ?_⟩
    unfold deleteServiceG at he
    cases hx : deleteServiceX g.x p idx node id with
    | error e => rw [hx] at he; simp at he
    | ok x' =>
      rw [hx] at he
      simp only at he
      split at he
      · injection he with he; subst he
        exact ict_missing _ _
      · injection he with he; subst he
        exact h.2
  configUpsert := by
    intro g g' idx kind name tok dest hw hc h
    refine ⟨(gi_closed hGn hnil).configUpsert hw hc h.1, ?_⟩
    unfold configUpsertG at hc
    cases hx : configUpsert g.x idx kind name dest tok with
    | error e => rw [hx] at hc; simp at hc
    | ok x' =>
      rw [hx] at hc; simp only at hc; injection hc with hc; subst hc
      show ICt g.gh.lostIngress (configSetHooks g.t g.x idx kind name dest tok)
      unfold configSetHooks
      simp only
      have a := ict_gwConfigSet hGn h.1.tok h.2 g.x idx kind name tok
      split
      · exact ict_gwCheck (ict_gwCheckWildcards a g.x idx _ _ _) idx _ _
      · exact a
  configDelete := by
    intro g idx kind name hw h
    exact ⟨(gi_closed hGn hnil).configDelete g idx kind name hw h.1, ict_missing _ _⟩
  typical := (gi_closed hGn hnil).typical

theorem gic_replayG (hGn : ∀ n ∈ Gn, NF n) (hnil : "" ∉ Gn) (log : XLog) (hw : XLog.gOk (WG Gn) (WcG Gn) log) :
    GIC (replayG GState.empty log) :=
  (gc_replayG (gic_closed hGn hnil) log _ hw ⟨GI.empty, by intro m hm; simp [GState.empty] at hm⟩).2

end

end CV.Store
