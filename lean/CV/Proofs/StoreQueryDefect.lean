/-
C06: helpers for stating two of the recorded findings on the model as general facts about the write paths
(which index rows `ensureCheckTxn` / `deleteCheckTxn` touch).
-/
import CV.Proofs.StoreQueryTbl
namespace CV.Store
open CV

theorem svcKey_ne {a b : String} (h : lc a ≠ lc b) : lc (svcKey a) ≠ lc (svcKey b) := by
  unfold svcKey; rw [Ne, lc_prefix_cancel]; exact h

/-- the check as `ensureCheckTxn` completes it before looking at node and service -/
def normChk (s : State) (i : Nat) (p : Bool) (hc : Chk) : Chk :=
  let existing := chkFind s hc.node hc.id
  let hc := match existing with
    | some x => { hc with create := x.create, modify := x.modify }
    | none => if p then hc else { hc with create := i }
  if hc.status == "" then { hc with status := critical } else hc

theorem normChk_node (s : State) (i : Nat) (p : Bool) (hc : Chk) :
    (normChk s i p hc).node = hc.node ∧ (normChk s i p hc).svcId = hc.svcId ∧ (normChk s i p hc).id = hc.id := by
  unfold normChk
  simp only
  repeat' split
  all_goals exact ⟨rfl, rfl, rfl⟩

theorem checkPrep_eq (s : State) (i : Nat) (p : Bool) (hc : Chk) :
    checkPrep s i p hc =
      (let existing := chkFind s hc.node hc.id
       let hc := normChk s i p hc
       match nodeFind s hc.node with
       | none => .error .missingNode
       | some _ =>
         if hc.svcId ≠ "" then
           match svcFind s hc.node hc.svcId with
           | none => .error .missingService
           | some v =>
             let hc := { hc with svcName := v.name }
             match existing with
             | some x => if chkSame x hc then .ok (s, hc, false) else .ok (bumpServiceIdx s i v.name, hc, true)
             | none => .ok (bumpServiceIdx s i v.name, hc, true)
         else
           match existing with
           | some x => if chkSame x hc then .ok (s, hc, false) else .ok (updateAllServiceIndexesOfNode s i hc.node, hc, true)
           | none => .ok (updateAllServiceIndexesOfNode s i hc.node, hc, true)) := rfl

end CV.Store
