/-
C06, the naming discipline under which the per-service read paths (ServiceNodes, CheckServiceNodes) keep the
blocking-query contract. A `Disc` fixes, for every instance key (node, id), the service name it is
registered under, and for every check key (node, id) the service id it is bound to: no instance is
renamed in place (finding `catalog:service-renamed-in-place`), no check is rebound to another service
(finding `catalog:check-rebound`). Node names are NUL-free when lower-cased, so that the composite keys
`node NUL id` are injective.

`CatDisc D s`: the stored rows follow the discipline, and a service-bound check carries the name of its
instance (what `deleteCheckTxn` bumps). The predicate is closed under every primitive write of a command
that follows the discipline (`D.guard`), hence under `apply` (`disc_apply`).
-/
import CV.Proofs.StoreQueryNode
namespace CV.Store
open CV

structure Disc where
  /-- instance key ↦ lower-cased service name -/
  nmf : String → String
  /-- check key ↦ lower-cased service id -/
  svf : String → String

def Disc.guard (D : Disc) : Guard where
  Sp node id name := lc name = D.nmf (pk2 node id)
  Np := NF
  Cp node id svcId := NF node ∧ lc svcId = D.svf (pk2 node id)

structure CatDisc (D : Disc) (s : State) : Prop where
  nf_svc : ∀ v ∈ s.svcs, NF v.node
  nf_node : ∀ nd ∈ s.nodes, NF nd.name
  nf_chk : ∀ c ∈ s.chks, NF c.node
  dsvc : ∀ v ∈ s.svcs, lc v.name = D.nmf (Svc.pk v)
  dchk : ∀ c ∈ s.chks, lc c.svcId = D.svf (Chk.pk c)
  cname : ∀ c ∈ s.chks, c.svcId ≠ "" → ∃ v, svcFind s c.node c.svcId = some v ∧ lc c.svcName = lc v.name

variable {D : Disc} {i : Nat}

theorem CatDisc.congr {s s' : State} (h : CatDisc D s) (h1 : s'.nodes = s.nodes) (h2 : s'.svcs = s.svcs)
    (h3 : s'.chks = s.chks) : CatDisc D s' := by
  refine ⟨by rw [h2]; exact h.nf_svc, by rw [h1]; exact h.nf_node, by rw [h3]; exact h.nf_chk,
    by rw [h2]; exact h.dsvc, by rw [h3]; exact h.dchk, ?_⟩
  intro c hc hne
  rw [h3] at hc
  rw [svcFind_congr h2]
  exact h.cname c hc hne

theorem CatDisc.ofView {s s' : State} (h : CatDisc D s) (hv : catView s' = catView s) : CatDisc D s' :=
  h.congr (catView_nodes hv) (catView_svcs hv) (catView_chks hv)

theorem cat3 {s' : State} {a : List Node} {b : List Svc} {c : List Chk} {d : List Sess}
    (h : catView s' = (a, b, c, d)) : s'.nodes = a ∧ s'.svcs = b ∧ s'.chks = c := by
  simp only [catView, Prod.mk.injEq] at h
  exact ⟨h.1, h.2.1, h.2.2.1⟩

/-- two instance rows with the same key carry the same name -/
theorem CatDisc.name_eq {s : State} (h : CatDisc D s) {v w : Svc} (hv : v ∈ s.svcs) (hw : w ∈ s.svcs)
    (hk : Svc.pk v = Svc.pk w) : lc v.name = lc w.name := by
  rw [h.dsvc v hv, h.dsvc w hw, hk]

/-! ### what `checkPrep` returns -/

theorem checkPrep_spec {s s1 : State} {idx : Nat} {p : Bool} {hc hc1 : Chk} {md : Bool}
    (hr : checkPrep s idx p hc = .ok (s1, hc1, md)) :
    hc1.node = hc.node ∧ hc1.id = hc.id ∧ hc1.svcId = hc.svcId ∧ (md = false → s1 = s) ∧
    (hc.svcId ≠ "" → ∃ v, svcFind s hc.node hc.svcId = some v ∧ hc1.svcName = v.name ∧
      (md = true → s1 = bumpServiceIdx s idx v.name)) ∧
    (hc.svcId = "" → md = true → s1 = updateAllServiceIndexesOfNode s idx hc.node) := by
  unfold checkPrep at hr
  extract_lets ex hcA hcB at hr
  have hA : ChkSame hcA hc := by
    unfold hcA
    cases ex with
    | some x => exact ⟨rfl, rfl, rfl⟩
    | none => dsimp only; split <;> exact ⟨rfl, rfl, rfl⟩
  have hB : ChkSame hcB hc := by
    unfold hcB
    split
    · exact ⟨hA.1, hA.2.1, hA.2.2⟩
    · exact hA
  clear_value hcB
  clear hA hcA
  clear_value ex
  obtain ⟨hn, hi, hs⟩ := hB
  rw [hn, hs] at hr
  split at hr
  · simp at hr
  · next hnode =>
    split at hr
    · next hsv =>
      split at hr
      · simp at hr
      · next v hsvc =>
        dsimp only at hr
        repeat' (split at hr)
        all_goals (simp only [Except.ok.injEq, Prod.mk.injEq] at hr)
        all_goals (obtain ⟨rfl, rfl, rfl⟩ := hr)
        all_goals (refine ⟨rfl, hi, rfl, by first | (intro _; rfl) | (intro h; simp at h), fun _ => ⟨v, hsvc, rfl, ?_⟩,
          fun he => absurd he hsv⟩)
        all_goals (first | (intro _; rfl) | (intro h; simp at h))
    · next hsv =>
      have hemp : hc.svcId = "" := by simpa using hsv
      repeat' (split at hr)
      all_goals (simp only [Except.ok.injEq, Prod.mk.injEq] at hr)
      all_goals (obtain ⟨rfl, rfl, rfl⟩ := hr)
      all_goals (refine ⟨hn, hi, hs, by first | (intro _; rfl) | (intro h; simp at h), fun h => absurd hemp h, fun _ => ?_⟩)
      all_goals (first | (intro _; rfl) | (intro h; simp at h))

/-- the rows of the checks table after `checkFinish` -/
theorem mem_checkFinish {s : State} {idx : Nat} {p : Bool} {hc : Chk} {md : Bool} {c : Chk}
    (h : c ∈ (checkFinish s idx p hc md).chks) :
    c ∈ s.chks ∨ (c.node = hc.node ∧ c.id = hc.id ∧ c.svcId = hc.svcId ∧ c.svcName = hc.svcName) := by
  unfold checkFinish at h
  split at h
  · exact Or.inl h
  · unfold chkInsert at h
    simp only [maxIdx2_chks] at h
    rcases mem_tupsert h with rfl | h1
    · right; cases p <;> simp
    · exact Or.inl h1

theorem checkFinish_tables (s : State) (idx : Nat) (p : Bool) (hc : Chk) (md : Bool) :
    (checkFinish s idx p hc md).nodes = s.nodes ∧ (checkFinish s idx p hc md).svcs = s.svcs :=
  ⟨(checkFinish_cat s idx p hc md).1, (checkFinish_cat s idx p hc md).2.1⟩

/-! ### closure -/

theorem disc_checkFinish {sA s1 s : State} {p : Bool} {hc hc1 : Chk} {md : Bool}
    (hr : checkPrep sA i p hc = .ok (s1, hc1, md)) (hC : D.guard.Cp hc.node hc.id hc.svcId)
    (hcas : CasRel s1 s) (h : CatDisc D s) : CatDisc D (checkFinish s i p hc1 md) := by
  obtain ⟨e1, e2, e3, -, hsv, -⟩ := checkPrep_spec hr
  obtain ⟨hn, hs⟩ := checkFinish_tables s i p hc1 md
  have hsA : s.svcs = sA.svcs := hcas.svcs.trans (catView_svcs (checkPrep_cat hr).1)
  refine ⟨by rw [hs]; exact h.nf_svc, by rw [hn]; exact h.nf_node, ?_, by rw [hs]; exact h.dsvc, ?_, ?_⟩
  · intro c hc'
    rcases mem_checkFinish hc' with h1 | ⟨a, -, -, -⟩
    · exact h.nf_chk c h1
    · rw [a, e1]; exact hC.1
  · intro c hc'
    rcases mem_checkFinish hc' with h1 | ⟨a, b, c', -⟩
    · exact h.dchk c h1
    · have : Chk.pk c = pk2 hc.node hc.id := by unfold Chk.pk; rw [a, b, e1, e2]
      rw [this, c', e3]; exact hC.2
  · intro c hc' hne
    rw [svcFind_congr hs]
    rcases mem_checkFinish hc' with h1 | ⟨a, -, c', d⟩
    · exact h.cname c h1 hne
    · rw [c', e3] at hne
      obtain ⟨v, hv, hnm, -⟩ := hsv hne
      refine ⟨v, ?_, ?_⟩
      · rw [a, c', e1, e3, svcFind_congr hsA]; exact hv
      · rw [d, hnm]

theorem disc_svcInsert {s : State} (v : Svc) (hS : D.guard.Sp v.node v.id v.name) (hN : NF v.node)
    (h : CatDisc D s) : CatDisc D (svcInsert s v) := by
  obtain ⟨hn, hs, hc⟩ := cat3 (catView_svcInsert s v)
  refine ⟨?_, by rw [hn]; exact h.nf_node, by rw [hc]; exact h.nf_chk, ?_, by rw [hc]; exact h.dchk, ?_⟩
  · intro x hx; rw [hs] at hx
    rcases mem_tupsert hx with rfl | h1
    · exact hN
    · exact h.nf_svc x h1
  · intro x hx; rw [hs] at hx
    rcases mem_tupsert hx with rfl | h1
    · exact hS
    · exact h.dsvc x h1
  · intro c hc' hne
    rw [hc] at hc'
    obtain ⟨x, hx, hnm⟩ := h.cname c hc' hne
    unfold svcFind at hx ⊢
    rw [hs]
    by_cases hk : pk2 c.node c.svcId = Svc.pk v
    · refine ⟨v, by rw [hk]; exact tfind_tupsert_self v s.svcs, ?_⟩
      obtain ⟨hxm, hxk⟩ := tfind_some hx
      rw [hnm, h.dsvc x hxm, hxk, hk]; exact hS.symm
    · exact ⟨x, by rw [tfind_tupsert_ne v s.svcs hk]; exact hx, hnm⟩

theorem disc_deleteServicePost {s : State} (node id : String) (v : Svc) (hN : NF node)
    (hno : ∀ c ∈ s.chks, ¬ (lc c.node = lc node ∧ lc c.svcId = lc id))
    (h : CatDisc D s) : CatDisc D (deleteServicePost s i node id v) := by
  obtain ⟨hn, hs, hc⟩ := cat3 (catView_deleteServicePost s i node id v)
  refine ⟨?_, by rw [hn]; exact h.nf_node, by rw [hc]; exact h.nf_chk, ?_, by rw [hc]; exact h.dchk, ?_⟩
  · intro x hx; rw [hs] at hx; exact h.nf_svc x (mem_terase.mp hx).1
  · intro x hx; rw [hs] at hx; exact h.dsvc x (mem_terase.mp hx).1
  · intro c hc' hne
    rw [hc] at hc'
    obtain ⟨x, hx, hnm⟩ := h.cname c hc' hne
    refine ⟨x, ?_, hnm⟩
    unfold svcFind at hx ⊢
    rw [hs, tfind_terase_ne _ _ _ (fun e => hno c hc' (pk2_inj (h.nf_chk c hc') hN e))]
    exact hx

theorem disc_closed (D : Disc) (i : Nat) : PrimClosed i D.guard (CatDisc D) where
  kvInsert s e _ h := h.congr rfl rfl rfl
  kvDelete s s' k hr h := h.ofView (catView_kvDeleteTxn hr)
  kvDeleteTree s p _ h := h.ofView (catView_kvDeleteTreeTxn s i p)
  removeSessionRow s id h := h.congr rfl rfl rfl
  invalidateKeys s sess h := h.ofView (catView_invalidateKeys s i sess)
  dropSessionRefs s id h := h.ofView (catView_dropSessionRefs s i id)
  checkPrep s s1 p hc hc1 md hr _ h := h.ofView (checkPrep_cat hr).1
  checkFinish sA s1 s p hc hc1 md hr hC hcas _ _ h := disc_checkFinish hr hC hcas h
  chkRows s h c hc := ⟨h.nf_chk c hc, h.dchk c hc⟩
  insertSession s x h := h.congr rfl rfl rfl
  pqSet s s' id sess hr h := h.ofView (catView_pqSet hr)
  pqDelete s id h := h.ofView (catView_pqDelete s i id)
  nodeInsert s nd _ hN h := by
    obtain ⟨hn, hs, hc⟩ := cat3 (catView_nodeInsert s nd)
    refine ⟨by rw [hs]; exact h.nf_svc, ?_, by rw [hc]; exact h.nf_chk, by rw [hs]; exact h.dsvc,
      by rw [hc]; exact h.dchk, ?_⟩
    · intro x hx; rw [hn] at hx
      rcases mem_tupsert hx with rfl | h1
      · exact hN
      · exact h.nf_node x h1
    · intro c hc' hne
      rw [hc] at hc'
      rw [svcFind_congr hs]; exact h.cname c hc' hne
  nodeNames s h := h.nf_node
  deleteCheckPre s node id x _ h := by
    obtain ⟨hn, hs, hc⟩ := cat3 (catView_deleteCheckPre s i node id x)
    refine ⟨by rw [hs]; exact h.nf_svc, by rw [hn]; exact h.nf_node, ?_, by rw [hs]; exact h.dsvc, ?_, ?_⟩
    · intro c hc'; rw [hc] at hc'; exact h.nf_chk c (mem_terase.mp hc').1
    · intro c hc'; rw [hc] at hc'; exact h.dchk c (mem_terase.mp hc').1
    · intro c hc' hne
      rw [hc] at hc'
      rw [svcFind_congr hs]; exact h.cname c (mem_terase.mp hc').1 hne
  deleteServicePost s node id v hN _ hno h := disc_deleteServicePost node id v hN hno h
  deleteNodePost s name _ _ _ h := by
    obtain ⟨hn, hs, hc⟩ := cat3 (catView_deleteNodePost s i name)
    refine ⟨by rw [hs]; exact h.nf_svc, ?_, by rw [hc]; exact h.nf_chk, by rw [hs]; exact h.dsvc,
      by rw [hc]; exact h.dchk, ?_⟩
    · intro x hx; rw [hn] at hx; exact h.nf_node x (mem_terase.mp hx).1
    · intro c hc' hne
      rw [hc] at hc'
      rw [svcFind_congr hs]; exact h.cname c hc' hne
  bumpServiceIdx s name _ h := h.congr rfl rfl rfl
  svcInsert s v _ hS hN _ h := disc_svcInsert v hS hN h

/-- the discipline is kept by every command that follows it -/
theorem disc_apply {s : State} (c : Cmd) (hG : c.ok D.guard) (h : CatDisc D s) : CatDisc D (apply s i c).1 := by
  by_cases hc : ∀ u, c ≠ .reap u
  · exact pc_apply (disc_closed D i) c hc hG h
  · have : ∃ u, c = .reap u := by
      cases c <;> simp at hc ⊢
    obtain ⟨u, rfl⟩ := this
    exact h.congr rfl rfl rfl

theorem catDisc_empty (D : Disc) : CatDisc D State.empty := by
  constructor <;> intro x hx <;> simp [State.empty] at hx

end CV.Store
