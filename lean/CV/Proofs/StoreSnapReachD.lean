/-
C02 round 4, part D: the catalog writes keep `W`.
-/
import CV.Proofs.StoreSnapReachC
set_option linter.unusedSectionVars false
set_option linter.unusedSimpArgs false
set_option linter.unusedVariables false
namespace CV.Store
open CV

variable {N : Names} {C : List String} {L : List SessCheck → List Sess → Prop}

/-- a write that leaves everything but the catalog tables and the index table alone -/
theorem W.catWrite {s s' : State} (h : W N C L s) (ho : otherView s' = otherView s) (hcat : WCat N s')
    (hi : IdxNF s'.index) (hcov : Cov s') : W N C L s' := by
  simp only [otherView, Prod.mk.injEq] at ho
  obtain ⟨o1, o2, o3, o4, o5, -⟩ := ho
  exact ⟨h.kv.congr o1 o2, h.sess.congr o3 o4, hcat, by rw [o5]; exact h.pqS, hi, hcov⟩

theorem other_tabs {s s' : State} (ho : otherView s' = otherView s) :
    s'.kvs = s.kvs ∧ s'.tombs = s.tombs ∧ s'.sessions = s.sessions ∧ s'.queries = s.queries := by
  simp only [otherView, Prod.mk.injEq] at ho
  exact ⟨ho.1, ho.2.1, ho.2.2.1, ho.2.2.2.2.1⟩

/-! ### row-name disequalities -/

theorem key_node_ne_lit (a q : String) (h : (ikey q).take (ikey "peer.~:node.").length ≠ ikey "peer.~:node." := by decide) :
    lc q ≠ lc ("peer.~:node." ++ a) := fun e => lc_prefix_ne "peer.~:node." a q h e.symm

theorem key_svc_ne_lit (a q : String) (h : (ikey q).take (ikey "peer.~:service.").length ≠ ikey "peer.~:service." := by decide) :
    lc q ≠ lc ("peer.~:service." ++ a) := fun e => lc_prefix_ne "peer.~:service." a q h e.symm

theorem key_node_ne_svc (a b : String) : lc ("peer.~:node." ++ a) ≠ lc ("peer.~:service." ++ b) :=
  lc_prefixes_ne "peer.~:node." a "peer.~:service." b 12 (by decide) (by decide) (by decide)

/-! ### nodes -/

theorem idxNF_nodeInsert {s : State} (h : IdxNF s.index) (n : Node) : IdxNF (nodeInsert s n).index := by
  unfold nodeInsert
  simp only
  apply idxNF_updateAll
  apply idxNF_maxIdx
  exact idxNF_maxIdx2 (s := { s with nodes := tupsert Node.pk strLt n s.nodes }) h _ _

theorem rows_nodeInsert (s : State) (n : Node) (j : String)
    (hj : Rows s.index j ∨ NeedN n j) : Rows (nodeInsert s n).index j := by
  unfold nodeInsert
  simp only
  apply rows_updateAll_mono
  rw [rows_maxIdx, rows_maxIdx2]
  rcases hj with h | h | h | h
  · exact Or.inr (Or.inr (Or.inr h))
  · exact Or.inr (Or.inr (Or.inl h))
  · exact Or.inr (Or.inl h)
  · exact Or.inl h

theorem W.nodeInsert {s : State} (h : W N C L s) (n : Node) (hN : N.guard.Np n.name) (hcr : n.create ≠ 0)
    (hctx : ∀ m ∈ s.nodes, m.id ≠ "" → n.id ≠ "" → lc m.id = lc n.id → lc m.name = lc n.name) :
    W N C L (Store.nodeInsert s n) := by
  have hv := catView_nodeInsert s n
  have ho := otherView_nodeInsert s n
  have hidx := idxNF_nodeInsert h.idx n
  have hrows := rows_nodeInsert s n
  generalize Store.nodeInsert s n = s' at hv ho hidx hrows
  simp only [catView, Prod.mk.injEq] at hv
  obtain ⟨e1, e2, e3, e4⟩ := hv
  obtain ⟨o1, o2, o3, o5⟩ := other_tabs ho
  have w := h.cat
  have hmem : ∀ x, x ∈ s'.nodes ↔ x = n ∨ (x ∈ s.nodes ∧ Node.pk x ≠ Node.pk n) := by
    intro x; rw [e1]; exact mem_tupsert_iff strLt_ord w.ns x
  have nf : ∀ m, (nodeFind s m).isSome = true → (nodeFind s' m).isSome = true := by
    intro m hm
    unfold nodeFind at hm ⊢
    rw [e1]
    exact tfind_tupsert_mono n s.nodes (lc m) hm
  refine h.catWrite ho ?_ hidx ?_
  · refine ⟨by rw [e1]; exact tsorted_tupsert strLt_ord _ _ w.ns, by rw [e2]; exact w.vs, by rw [e3]; exact w.cs,
      ?_, ?_, ?_, by rw [e2]; exact w.svcN, by rw [e2]; exact w.svcNm, ?_, by rw [e3]; exact w.chkN, ?_,
      by rw [e3]; exact w.chkStatus, ?_⟩
    · intro x hx
      rcases (hmem x).mp hx with rfl | ⟨h1, -⟩
      · exact hN
      · exact w.nodeN x h1
    · intro x hx
      rcases (hmem x).mp hx with rfl | ⟨h1, -⟩
      · exact hcr
      · exact w.nodeCreate x h1
    · intro a ha b hb ha1 hb1 hlc
      rcases (hmem a).mp ha with rfl | ⟨a1, a2⟩ <;> rcases (hmem b).mp hb with rfl | ⟨b1, b2⟩
      · rfl
      · exact absurd (hctx b b1 hb1 ha1 hlc.symm) b2
      · exact absurd (hctx a a1 ha1 hb1 hlc) a2
      · exact w.nodeIds a a1 b b1 ha1 hb1 hlc
    · intro v hv; exact nf _ (w.svcNode v (e2 ▸ hv))
    · intro c hc; exact nf _ (w.chkNode c (e3 ▸ hc))
    · intro c hc hne; rw [svcFind_congr e2]; exact w.chkSvc c (e3 ▸ hc) hne
  · refine h.cov.grow (fun j hj => hrows j (Or.inl hj)) ?_ ?_ ?_ ?_ ?_ ?_ ?_
    · intro x hx
      rcases (hmem x).mp hx with rfl | ⟨h1, -⟩
      · exact Or.inr (fun j hj => hrows j (Or.inr hj))
      · exact Or.inl h1
    · intro x hx; exact Or.inl (e2 ▸ hx)
    · intro x hx; exact Or.inl ⟨x, e3 ▸ hx⟩
    · intro x hx; exact Or.inl ⟨x, o3 ▸ hx⟩
    · intro x hx; exact Or.inl ⟨x, o1 ▸ hx⟩
    · intro x hx; exact Or.inl ⟨x, o2 ▸ hx⟩
    · intro x hx; exact Or.inl ⟨x, o5 ▸ hx⟩

theorem otherView_deleteNodePost (s : State) (i : Nat) (name : String) : otherView (deleteNodePost s i name) = otherView s := by
  unfold deleteNodePost
  simp [otherView, State.maxIdx2, State.maxIdx, State.delIdx]

theorem idxNF_deleteNodePost {s : State} (h : IdxNF s.index) (i : Nat) (name : String) :
    IdxNF (deleteNodePost s i name).index := by
  unfold deleteNodePost
  simp only
  apply idxNF_maxIdx
  apply idxNF_delIdx
  exact idxNF_maxIdx2 (s := { s with nodes := terase Node.pk (lc name) s.nodes }) h _ _

theorem rows_deleteNodePost (s : State) (i : Nat) (name : String) (j : String)
    (hD : j ≠ lc ("peer.~:node." ++ name)) (hj : Rows s.index j) : Rows (deleteNodePost s i name).index j := by
  unfold deleteNodePost
  simp only
  rw [rows_maxIdx, rows_delIdx, rows_maxIdx2]
  exact Or.inr ⟨hD, Or.inr (Or.inr hj)⟩

theorem W.deleteNodePost {s : State} (h : W N C L s) (i : Nat) (name : String)
    (nosvc : ∀ v ∈ s.svcs, lc v.node ≠ lc name) (nochk : ∀ c ∈ s.chks, lc c.node ≠ lc name) :
    W N C L (Store.deleteNodePost s i name) := by
  have hv := catView_deleteNodePost s i name
  have ho := otherView_deleteNodePost s i name
  have hidx := idxNF_deleteNodePost h.idx i name
  have hrows := rows_deleteNodePost s i name
  generalize Store.deleteNodePost s i name = s' at hv ho hidx hrows
  simp only [catView, Prod.mk.injEq] at hv
  obtain ⟨e1, e2, e3, e4⟩ := hv
  obtain ⟨o1, o2, o3, o5⟩ := other_tabs ho
  have w := h.cat
  have nf : ∀ m, lc m ≠ lc name → nodeFind s' m = nodeFind s m := by
    intro m hm
    unfold nodeFind
    rw [e1]
    exact tfind_terase_ne _ _ _ hm
  refine h.catWrite ho ?_ hidx ?_
  · refine ⟨by rw [e1]; exact tsorted_terase w.ns _, by rw [e2]; exact w.vs, by rw [e3]; exact w.cs,
      ?_, ?_, ?_, by rw [e2]; exact w.svcN, by rw [e2]; exact w.svcNm, ?_, by rw [e3]; exact w.chkN, ?_,
      by rw [e3]; exact w.chkStatus, ?_⟩
    · intro x hx; rw [e1] at hx; exact w.nodeN x (mem_terase.mp hx).1
    · intro x hx; rw [e1] at hx; exact w.nodeCreate x (mem_terase.mp hx).1
    · intro a ha b hb; rw [e1] at ha hb; exact w.nodeIds a (mem_terase.mp ha).1 b (mem_terase.mp hb).1
    · intro v hv; rw [e2] at hv; rw [nf _ (nosvc v hv)]; exact w.svcNode v hv
    · intro c hc; rw [e3] at hc; rw [nf _ (nochk c hc)]; exact w.chkNode c hc
    · intro c hc hne; rw [svcFind_congr e2]; exact w.chkSvc c (e3 ▸ hc) hne
  · refine h.cov.step (fun j => j = lc ("peer.~:node." ++ name)) (fun j hD hj => hrows j hD hj) ?_ ?_ ?_ ?_ ?_ ?_ ?_
    · intro x hx
      rw [e1] at hx
      obtain ⟨h1, h2⟩ := mem_terase.mp hx
      refine Or.inl ⟨h1, ?_⟩
      rintro j (rfl | rfl | rfl)
      · exact key_node_ne_lit name "nodes"
      · exact key_node_ne_lit name ("peer.~:" ++ "nodes")
      · intro e; exact h2 ((lc_prefix_cancel _ _ _).mp e)
    · intro x hx
      rw [e2] at hx
      refine Or.inl ⟨hx, ?_⟩
      rintro j (rfl | rfl | rfl | rfl | rfl | rfl | rfl | rfl)
      · exact key_node_ne_lit name "services"
      · exact key_node_ne_lit name ("peer.~:" ++ "services")
      · exact key_node_ne_lit name "nodes"
      · exact key_node_ne_lit name ("peer.~:" ++ "nodes")
      · exact (key_node_ne_svc name x.name).symm
      · exact key_node_ne_lit name "service_kind.typical"
      · exact key_node_ne_lit name ("peer.~:" ++ "service_kind.typical")
      · intro e; exact nosvc x hx ((lc_prefix_cancel _ _ _).mp e)
    · intro x hx
      refine Or.inl ⟨⟨x, e3 ▸ hx⟩, ?_⟩
      rintro j (rfl | rfl)
      · exact key_node_ne_lit name "checks"
      · exact key_node_ne_lit name ("peer.~:" ++ "checks")
    · intro x hx; exact Or.inl ⟨⟨x, o3 ▸ hx⟩, key_node_ne_lit name "sessions"⟩
    · intro x hx; exact Or.inl ⟨⟨x, o1 ▸ hx⟩, key_node_ne_lit name "kvs"⟩
    · intro x hx; exact Or.inl ⟨⟨x, o2 ▸ hx⟩, key_node_ne_lit name "tombstones"⟩
    · intro x hx; exact Or.inl ⟨⟨x, o5 ▸ hx⟩, key_node_ne_lit name "prepared-queries"⟩

/-! ### services -/

theorem idxNF_svcInsert {s : State} (h : IdxNF s.index) (v : Svc) : IdxNF (svcInsert s v).index := by
  unfold svcInsert
  simp only
  apply idxNF_maxIdx
  apply idxNF_maxIdx2
  apply idxNF_maxIdx2
  apply idxNF_maxIdx
  exact idxNF_maxIdx2 (s := { s with svcs := tupsert Svc.pk strLt v s.svcs }) h _ _

theorem rows_svcInsert (s : State) (v : Svc) (j : String)
    (hj : Rows s.index j ∨ NeedV v j) : Rows (svcInsert s v).index j := by
  unfold svcInsert
  simp only
  rw [rows_maxIdx, rows_maxIdx2, rows_maxIdx2, rows_maxIdx, rows_maxIdx2]
  rcases hj with h | h | h | h | h | h | h | h | h
  · simp [h]
  · simp [h]
  · simp [h]
  · simp [h]
  · simp [h]
  · simp [h]
  · simp [h]
  · simp [h]
  · simp [h]

theorem W.svcInsert {s : State} (h : W N C L s) (v : Svc) (hS : N.guard.Sp v.node v.id v.name) (hN : N.guard.Np v.node)
    (hnode : (nodeFind s v.node).isSome = true) : W N C L (Store.svcInsert s v) := by
  have hv := catView_svcInsert s v
  have ho := otherView_svcInsert s v
  have hidx := idxNF_svcInsert h.idx v
  have hrows := rows_svcInsert s v
  generalize Store.svcInsert s v = s' at hv ho hidx hrows
  simp only [catView, Prod.mk.injEq] at hv
  obtain ⟨e1, e2, e3, e4⟩ := hv
  obtain ⟨o1, o2, o3, o5⟩ := other_tabs ho
  have w := h.cat
  have hmem : ∀ x, x ∈ s'.svcs ↔ x = v ∨ (x ∈ s.svcs ∧ Svc.pk x ≠ Svc.pk v) := by
    intro x; rw [e2]; exact mem_tupsert_iff strLt_ord w.vs x
  refine h.catWrite ho ?_ hidx ?_
  · refine ⟨by rw [e1]; exact w.ns, by rw [e2]; exact tsorted_tupsert strLt_ord _ _ w.vs, by rw [e3]; exact w.cs,
      by rw [e1]; exact w.nodeN, by rw [e1]; exact w.nodeCreate, by rw [e1]; exact w.nodeIds, ?_, ?_, ?_,
      by rw [e3]; exact w.chkN, ?_, by rw [e3]; exact w.chkStatus, ?_⟩
    · intro x hx
      rcases (hmem x).mp hx with rfl | ⟨h1, -⟩
      · exact hN
      · exact w.svcN x h1
    · intro x hx
      rcases (hmem x).mp hx with rfl | ⟨h1, -⟩
      · exact hS
      · exact w.svcNm x h1
    · intro x hx
      rw [nodeFind_congr e1]
      rcases (hmem x).mp hx with rfl | ⟨h1, -⟩
      · exact hnode
      · exact w.svcNode x h1
    · intro c hc; rw [nodeFind_congr e1]; exact w.chkNode c (e3 ▸ hc)
    · intro c hc hne
      rw [e3] at hc
      obtain ⟨x, hx, hnm⟩ := w.chkSvc c hc hne
      unfold svcFind at hx ⊢
      rw [e2]
      by_cases hk : pk2 c.node c.svcId = Svc.pk v
      · refine ⟨v, by rw [hk]; exact tfind_tupsert_self v s.svcs, ?_⟩
        obtain ⟨hxm, hxk⟩ := tfind_some hx
        rw [hnm, w.svcNm x hxm, hxk, hk]; exact hS.symm
      · exact ⟨x, by rw [tfind_tupsert_ne v s.svcs hk]; exact hx, hnm⟩
  · refine h.cov.grow (fun j hj => hrows j (Or.inl hj)) ?_ ?_ ?_ ?_ ?_ ?_ ?_
    · intro x hx; exact Or.inl (e1 ▸ hx)
    · intro x hx
      rcases (hmem x).mp hx with rfl | ⟨h1, -⟩
      · exact Or.inr (fun j hj => hrows j (Or.inr hj))
      · exact Or.inl h1
    · intro x hx; exact Or.inl ⟨x, e3 ▸ hx⟩
    · intro x hx; exact Or.inl ⟨x, o3 ▸ hx⟩
    · intro x hx; exact Or.inl ⟨x, o1 ▸ hx⟩
    · intro x hx; exact Or.inl ⟨x, o2 ▸ hx⟩
    · intro x hx; exact Or.inl ⟨x, o5 ▸ hx⟩

theorem otherView_deleteServicePost (s : State) (i : Nat) (node id : String) (v : Svc) :
    otherView (deleteServicePost s i node id v) = otherView s := by
  unfold deleteServicePost
  simp only
  split <;> simp [otherView, State.maxIdx2, State.maxIdx, State.delIdx]

theorem idxNF_deleteServicePost {s : State} (h : IdxNF s.index) (i : Nat) (node id : String) (v : Svc) :
    IdxNF (deleteServicePost s i node id v).index := by
  have h4 : IdxNF (((({ (s.maxIdx2 "checks" i) with svcs := terase Svc.pk (pk2 node id) (s.maxIdx2 "checks" i).svcs }.maxIdx2
      "services" i).maxIdx2 "service_kind.typical" i).maxIdx2 "nodes" i).maxIdx ("peer.~:node." ++ node) i).index := by
    apply idxNF_maxIdx
    apply idxNF_maxIdx2
    apply idxNF_maxIdx2
    apply idxNF_maxIdx2
    exact idxNF_maxIdx2 h _ _
  unfold deleteServicePost
  simp only
  split
  · exact idxNF_maxIdx h4 _ _
  · exact idxNF_maxIdx (idxNF_delIdx h4 _) _ _

/-- the instances left after `deleteServicePost` -/
theorem svcs_deleteServicePost (s : State) (i : Nat) (node id : String) (v : Svc) :
    (deleteServicePost s i node id v).svcs = terase Svc.pk (pk2 node id) s.svcs :=
  catView_svcs_eq (catView_deleteServicePost s i node id v)

theorem rows_deleteServicePost (s : State) (i : Nat) (node id : String) (v : Svc) (j : String)
    (hD : (∀ w ∈ terase Svc.pk (pk2 node id) s.svcs, lc w.name ≠ lc v.name) → j ≠ lc ("peer.~:service." ++ v.name))
    (hj : Rows s.index j) : Rows (deleteServicePost s i node id v).index j := by
  have h4 : Rows (((({ (s.maxIdx2 "checks" i) with svcs := terase Svc.pk (pk2 node id) (s.maxIdx2 "checks" i).svcs }.maxIdx2
      "services" i).maxIdx2 "service_kind.typical" i).maxIdx2 "nodes" i).maxIdx ("peer.~:node." ++ node) i).index j := by
    rw [rows_maxIdx, rows_maxIdx2, rows_maxIdx2, rows_maxIdx2]
    have : Rows (s.maxIdx2 "checks" i).index j := (rows_maxIdx2 _ _ _ _).mpr (Or.inr (Or.inr hj))
    simp [this]
  unfold deleteServicePost
  simp only
  split
  · exact (rows_maxIdx _ _ _ _).mpr (Or.inr h4)
  · next hany =>
    rw [rows_maxIdx, rows_delIdx]
    refine Or.inr ⟨hD ?_, h4⟩
    intro w hw hlc
    apply hany
    simp only [List.any_eq_true]
    exact ⟨w, hw, by simp [hlc]⟩

theorem W.deleteServicePost {s : State} (h : W N C L s) (i : Nat) (node id : String) (v : Svc) (hN : N.guard.Np node)
    (hno : ∀ c ∈ s.chks, ¬ (lc c.node = lc node ∧ lc c.svcId = lc id)) :
    W N C L (Store.deleteServicePost s i node id v) := by
  have hv := catView_deleteServicePost s i node id v
  have ho := otherView_deleteServicePost s i node id v
  have hidx := idxNF_deleteServicePost h.idx i node id v
  have hrows := rows_deleteServicePost s i node id v
  generalize Store.deleteServicePost s i node id v = s' at hv ho hidx hrows
  simp only [catView, Prod.mk.injEq] at hv
  obtain ⟨e1, e2, e3, e4⟩ := hv
  obtain ⟨o1, o2, o3, o5⟩ := other_tabs ho
  have w := h.cat
  refine h.catWrite ho ?_ hidx ?_
  · refine ⟨by rw [e1]; exact w.ns, by rw [e2]; exact tsorted_terase w.vs _, by rw [e3]; exact w.cs,
      by rw [e1]; exact w.nodeN, by rw [e1]; exact w.nodeCreate, by rw [e1]; exact w.nodeIds, ?_, ?_, ?_,
      by rw [e3]; exact w.chkN, ?_, by rw [e3]; exact w.chkStatus, ?_⟩
    · intro x hx; rw [e2] at hx; exact w.svcN x (mem_terase.mp hx).1
    · intro x hx; rw [e2] at hx; exact w.svcNm x (mem_terase.mp hx).1
    · intro x hx; rw [e2] at hx; rw [nodeFind_congr e1]; exact w.svcNode x (mem_terase.mp hx).1
    · intro c hc; rw [nodeFind_congr e1]; exact w.chkNode c (e3 ▸ hc)
    · intro c hc hne
      rw [e3] at hc
      obtain ⟨x, hx, hnm⟩ := w.chkSvc c hc hne
      refine ⟨x, ?_, hnm⟩
      unfold svcFind at hx ⊢
      rw [e2, tfind_terase_ne _ _ _ (fun e => hno c hc (pk2_inj (w.chkN c hc) hN.1 e))]
      exact hx
  · by_cases hlast : ∀ w' ∈ terase Svc.pk (pk2 node id) s.svcs, lc w'.name ≠ lc v.name
    · -- the name's row may be deleted: nobody left needs it
      refine h.cov.step (fun j => j = lc ("peer.~:service." ++ v.name)) (fun j hD hj => hrows j (fun _ => hD) hj) ?_ ?_ ?_ ?_ ?_ ?_ ?_
      · intro x hx
        refine Or.inl ⟨e1 ▸ hx, ?_⟩
        rintro j (rfl | rfl | rfl)
        · exact key_svc_ne_lit v.name "nodes"
        · exact key_svc_ne_lit v.name ("peer.~:" ++ "nodes")
        · exact key_node_ne_svc x.name v.name
      · intro x hx
        rw [e2] at hx
        refine Or.inl ⟨(mem_terase.mp hx).1, ?_⟩
        rintro j (rfl | rfl | rfl | rfl | rfl | rfl | rfl | rfl)
        · exact key_svc_ne_lit v.name "services"
        · exact key_svc_ne_lit v.name ("peer.~:" ++ "services")
        · exact key_svc_ne_lit v.name "nodes"
        · exact key_svc_ne_lit v.name ("peer.~:" ++ "nodes")
        · intro e; exact hlast x hx ((lc_prefix_cancel _ _ _).mp e)
        · exact key_svc_ne_lit v.name "service_kind.typical"
        · exact key_svc_ne_lit v.name ("peer.~:" ++ "service_kind.typical")
        · exact key_node_ne_svc x.node v.name
      · intro x hx
        refine Or.inl ⟨⟨x, e3 ▸ hx⟩, ?_⟩
        rintro j (rfl | rfl)
        · exact key_svc_ne_lit v.name "checks"
        · exact key_svc_ne_lit v.name ("peer.~:" ++ "checks")
      · intro x hx; exact Or.inl ⟨⟨x, o3 ▸ hx⟩, key_svc_ne_lit v.name "sessions"⟩
      · intro x hx; exact Or.inl ⟨⟨x, o1 ▸ hx⟩, key_svc_ne_lit v.name "kvs"⟩
      · intro x hx; exact Or.inl ⟨⟨x, o2 ▸ hx⟩, key_svc_ne_lit v.name "tombstones"⟩
      · intro x hx; exact Or.inl ⟨⟨x, o5 ▸ hx⟩, key_svc_ne_lit v.name "prepared-queries"⟩
    · refine h.cov.grow (fun j hj => hrows j (fun hl => absurd hl hlast) hj) ?_ ?_ ?_ ?_ ?_ ?_ ?_
      · intro x hx; exact Or.inl (e1 ▸ hx)
      · intro x hx; rw [e2] at hx; exact Or.inl (mem_terase.mp hx).1
      · intro x hx; exact Or.inl ⟨x, e3 ▸ hx⟩
      · intro x hx; exact Or.inl ⟨x, o3 ▸ hx⟩
      · intro x hx; exact Or.inl ⟨x, o1 ▸ hx⟩
      · intro x hx; exact Or.inl ⟨x, o2 ▸ hx⟩
      · intro x hx; exact Or.inl ⟨x, o5 ▸ hx⟩

/-! ### checks -/

theorem idxNF_chkInsert {s : State} (h : IdxNF s.index) (c : Chk) (i : Nat) : IdxNF (chkInsert s c i).index := by
  unfold chkInsert
  exact idxNF_maxIdx2 (s := { s with chks := tupsert Chk.pk strLt c s.chks }) h _ _

theorem rows_chkInsert (s : State) (c : Chk) (i : Nat) (j : String) (hj : Rows s.index j ∨ NeedC j) :
    Rows (chkInsert s c i).index j := by
  unfold chkInsert
  rw [rows_maxIdx2]
  rcases hj with h | h | h
  · exact Or.inr (Or.inr h)
  · exact Or.inr (Or.inl h)
  · exact Or.inl h

theorem W.chkInsert {s : State} (h : W N C L s) (c : Chk) (i : Nat) (hnf : NF c.node)
    (hnode : (nodeFind s c.node).isSome = true) (hst : c.status ≠ "")
    (hsvc : c.svcId ≠ "" → ∃ v, svcFind s c.node c.svcId = some v ∧ c.svcName = v.name) :
    W N C L (Store.chkInsert s c i) := by
  have hv := catView_chkInsert s c i
  have ho := otherView_chkInsert s c i
  have hidx := idxNF_chkInsert h.idx c i
  have hrows := rows_chkInsert s c i
  generalize Store.chkInsert s c i = s' at hv ho hidx hrows
  simp only [catView, Prod.mk.injEq] at hv
  obtain ⟨e1, e2, e3, e4⟩ := hv
  obtain ⟨o1, o2, o3, o5⟩ := other_tabs ho
  have w := h.cat
  have hmem : ∀ x, x ∈ s'.chks → x = c ∨ x ∈ s.chks := by
    intro x hx; rw [e3] at hx; exact mem_tupsert hx
  refine h.catWrite ho ?_ hidx ?_
  · refine ⟨by rw [e1]; exact w.ns, by rw [e2]; exact w.vs, by rw [e3]; exact tsorted_tupsert strLt_ord _ _ w.cs,
      by rw [e1]; exact w.nodeN, by rw [e1]; exact w.nodeCreate, by rw [e1]; exact w.nodeIds, by rw [e2]; exact w.svcN,
      by rw [e2]; exact w.svcNm, ?_, ?_, ?_, ?_, ?_⟩
    · intro v hv; rw [nodeFind_congr e1]; exact w.svcNode v (e2 ▸ hv)
    · intro x hx
      rcases hmem x hx with rfl | h1
      · exact hnf
      · exact w.chkN x h1
    · intro x hx
      rw [nodeFind_congr e1]
      rcases hmem x hx with rfl | h1
      · exact hnode
      · exact w.chkNode x h1
    · intro x hx
      rcases hmem x hx with rfl | h1
      · exact hst
      · exact w.chkStatus x h1
    · intro x hx hne
      rw [svcFind_congr e2]
      rcases hmem x hx with rfl | h1
      · exact hsvc hne
      · exact w.chkSvc x h1 hne
  · refine h.cov.grow (fun j hj => hrows j (Or.inl hj)) ?_ ?_ ?_ ?_ ?_ ?_ ?_
    · intro x hx; exact Or.inl (e1 ▸ hx)
    · intro x hx; exact Or.inl (e2 ▸ hx)
    · intro x hx; exact Or.inr (fun j hj => hrows j (Or.inr hj))
    · intro x hx; exact Or.inl ⟨x, o3 ▸ hx⟩
    · intro x hx; exact Or.inl ⟨x, o1 ▸ hx⟩
    · intro x hx; exact Or.inl ⟨x, o2 ▸ hx⟩
    · intro x hx; exact Or.inl ⟨x, o5 ▸ hx⟩

theorem checkPrep_status {s s1 : State} {idx : Nat} {p : Bool} {hc hc1 : Chk} {md : Bool}
    (hr : checkPrep s idx p hc = .ok (s1, hc1, md)) : hc1.status ≠ "" := by
  unfold checkPrep at hr
  extract_lets ex hcA hcB at hr
  have hB : hcB.status ≠ "" := by
    unfold hcB
    split
    · simp [critical]
    · next h => simpa using h
  clear_value hcB
  clear hcA
  clear_value ex
  split at hr
  · simp at hr
  · split at hr
    · split at hr
      · simp at hr
      · dsimp only at hr
        repeat' (split at hr)
        all_goals (simp only [Except.ok.injEq, Prod.mk.injEq] at hr)
        all_goals (obtain ⟨-, rfl, -⟩ := hr)
        all_goals (exact hB)
    · repeat' (split at hr)
      all_goals (simp only [Except.ok.injEq, Prod.mk.injEq] at hr)
      all_goals (obtain ⟨-, rfl, -⟩ := hr)
      all_goals (exact hB)

theorem W.checkPrep {s s1 : State} {i : Nat} {p : Bool} {hc hc1 : Chk} {md : Bool}
    (hr : checkPrep s i p hc = .ok (s1, hc1, md)) (h : W N C L s) : W N C L s1 := by
  obtain ⟨-, -, -, h0, hsv, hno⟩ := checkPrep_spec hr
  cases md with
  | false => rw [h0 rfl]; exact h
  | true =>
    by_cases he : hc.svcId = ""
    · rw [hno he rfl]; exact h.updateAll _ _
    · obtain ⟨v, -, -, hb⟩ := hsv he
      rw [hb rfl]; exact h.bump _ _

theorem W.checkFinish {sA s1 s : State} {i : Nat} {p : Bool} {hc hc1 : Chk} {md : Bool}
    (hr : Store.checkPrep sA i p hc = .ok (s1, hc1, md)) (hC : NF hc.node) (hcas : CasRel s1 s)
    (hA : W N C L sA) (h : W N C L s) : W N C L (Store.checkFinish s i p hc1 md) := by
  obtain ⟨e1, e2, e3, -, hsv, -⟩ := checkPrep_spec hr
  obtain ⟨hcat, -, hnode, -⟩ := checkPrep_cat hr
  have hst := checkPrep_status hr
  have hnodes : s.nodes = sA.nodes := hcas.nodes.trans (catView_nodes hcat)
  have hsvcs : s.svcs = sA.svcs := hcas.svcs.trans (catView_svcs hcat)
  unfold Store.checkFinish
  split
  · exact h
  · have key : ∀ c : Chk, c.node = hc1.node → c.status = hc1.status → c.svcId = hc1.svcId → c.svcName = hc1.svcName →
        W N C L (Store.chkInsert s c i) := by
      intro c c1 c2 c3 c4
      refine h.chkInsert c i (by rw [c1, e1]; exact hC) ?_ (by rw [c2]; exact hst) ?_
      · rw [c1, e1, nodeFind_congr hnodes]; exact hnode
      · intro hne
        rw [c3, e3] at hne
        obtain ⟨v, hv, hnm, -⟩ := hsv hne
        exact ⟨v, by rw [c1, c3, e1, e3, svcFind_congr hsvcs]; exact hv, by rw [c4, hnm]⟩
    split
    · exact key _ rfl rfl rfl rfl
    · exact key _ rfl rfl rfl rfl

theorem otherView_deleteCheckPre (s : State) (i : Nat) (node id : String) (x : Chk) :
    otherView (deleteCheckPre s i node id x) = otherView s := by
  unfold deleteCheckPre
  simp only
  split
  · simp [otherView, State.maxIdx2, State.maxIdx]
  · have := otherView_updateAll s i x.node
    simp only [otherView, Prod.mk.injEq] at this ⊢
    simpa [State.maxIdx2, State.maxIdx] using this

theorem idxNF_deleteCheckPre {s : State} (h : IdxNF s.index) (i : Nat) (node id : String) (x : Chk) :
    IdxNF (deleteCheckPre s i node id x).index := by
  unfold deleteCheckPre
  simp only
  split
  · exact idxNF_maxIdx2 (s := { ((s.maxIdx ("peer.~:service." ++ x.svcName) i).maxIdx2 "service_kind.typical" i) with
      chks := terase Chk.pk (pk2 node id) s.chks }) (idxNF_maxIdx2 (idxNF_maxIdx h _ _) _ _) _ _
  · exact idxNF_maxIdx2 (s := { ((updateAllServiceIndexesOfNode s i x.node).maxIdx2 "services" i) with
      chks := terase Chk.pk (pk2 node id) ((updateAllServiceIndexesOfNode s i x.node).maxIdx2 "services" i).chks })
      (idxNF_maxIdx2 (idxNF_updateAll h _ _) _ _) _ _

theorem rows_deleteCheckPre (s : State) (i : Nat) (node id : String) (x : Chk) (j : String) (hj : Rows s.index j) :
    Rows (deleteCheckPre s i node id x).index j := by
  unfold deleteCheckPre
  simp only
  split
  · refine (rows_maxIdx2 (s := { ((s.maxIdx ("peer.~:service." ++ x.svcName) i).maxIdx2 "service_kind.typical" i) with
      chks := terase Chk.pk (pk2 node id) s.chks }) _ _ _).mpr (Or.inr (Or.inr ?_))
    exact (rows_maxIdx2 _ _ _ _).mpr (Or.inr (Or.inr ((rows_maxIdx _ _ _ _).mpr (Or.inr hj))))
  · refine (rows_maxIdx2 (s := { ((updateAllServiceIndexesOfNode s i x.node).maxIdx2 "services" i) with
      chks := terase Chk.pk (pk2 node id) ((updateAllServiceIndexesOfNode s i x.node).maxIdx2 "services" i).chks }) _ _ _).mpr
      (Or.inr (Or.inr ?_))
    exact (rows_maxIdx2 _ _ _ _).mpr (Or.inr (Or.inr (rows_updateAll_mono s i x.node j hj)))

theorem W.deleteCheckPre {s : State} (h : W N C L s) (i : Nat) (node id : String) (x : Chk) :
    W N C L (Store.deleteCheckPre s i node id x) := by
  have hv := catView_deleteCheckPre s i node id x
  have ho := otherView_deleteCheckPre s i node id x
  have hidx := idxNF_deleteCheckPre h.idx i node id x
  have hrows := rows_deleteCheckPre s i node id x
  generalize Store.deleteCheckPre s i node id x = s' at hv ho hidx hrows
  simp only [catView, Prod.mk.injEq] at hv
  obtain ⟨e1, e2, e3, e4⟩ := hv
  obtain ⟨o1, o2, o3, o5⟩ := other_tabs ho
  have w := h.cat
  refine h.catWrite ho ?_ hidx ?_
  · refine ⟨by rw [e1]; exact w.ns, by rw [e2]; exact w.vs, by rw [e3]; exact tsorted_terase w.cs _,
      by rw [e1]; exact w.nodeN, by rw [e1]; exact w.nodeCreate, by rw [e1]; exact w.nodeIds, by rw [e2]; exact w.svcN,
      by rw [e2]; exact w.svcNm, ?_, ?_, ?_, ?_, ?_⟩
    · intro v hv; rw [nodeFind_congr e1]; exact w.svcNode v (e2 ▸ hv)
    · intro c hc; rw [e3] at hc; exact w.chkN c (mem_terase.mp hc).1
    · intro c hc; rw [e3] at hc; rw [nodeFind_congr e1]; exact w.chkNode c (mem_terase.mp hc).1
    · intro c hc; rw [e3] at hc; exact w.chkStatus c (mem_terase.mp hc).1
    · intro c hc hne; rw [e3] at hc; rw [svcFind_congr e2]; exact w.chkSvc c (mem_terase.mp hc).1 hne
  · refine h.cov.grow hrows ?_ ?_ ?_ ?_ ?_ ?_ ?_
    · intro x hx; exact Or.inl (e1 ▸ hx)
    · intro x hx; exact Or.inl (e2 ▸ hx)
    · intro c hc; rw [e3] at hc; exact Or.inl ⟨c, (mem_terase.mp hc).1⟩
    · intro x hx; exact Or.inl ⟨x, o3 ▸ hx⟩
    · intro x hx; exact Or.inl ⟨x, o1 ▸ hx⟩
    · intro x hx; exact Or.inl ⟨x, o2 ▸ hx⟩
    · intro x hx; exact Or.inl ⟨x, o5 ▸ hx⟩

end CV.Store
