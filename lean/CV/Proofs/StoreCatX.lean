/-
The C07 wrapper (`CV.Store.CatX`) is conservative over the shared store model: every wrapper function
changes the base `State` of ONE catalog exactly as the corresponding base function does, leaves the other
catalogs alone, and otherwise only touches the derived tables. From that, the catalog invariant `CatOK`
(no orphans in any catalog, every coordinate has its node) is preserved by every command.
-/
import CV.Store.CatX
import CV.Proofs.StoreCatApply
namespace CV.Store
open CV

/-! ### which catalog a peer name denotes -/

def samePeer (p q : String) : Prop := (p = "" ∧ q = "") ∨ (p ≠ "" ∧ q ≠ "" ∧ lc p = lc q)

instance (p q : String) : Decidable (samePeer p q) := by unfold samePeer; infer_instance

theorem samePeer_refl (p : String) : samePeer p p := by
  unfold samePeer
  by_cases h : p = ""
  · exact Or.inl ⟨h, h⟩
  · exact Or.inr ⟨h, h, rfl⟩

theorem cat_setCat (s : XState) (p : String) (c : Cat) (q : String) :
    (s.setCat p c).cat q = if samePeer p q then c else s.cat q := by
  unfold XState.setCat XState.cat samePeer
  by_cases hp : p = "" <;> by_cases hq : q = ""
  · simp [hp, hq]
  · simp [hp, hq]
  · simp [hp, hq]
  · simp only [hp, hq, if_false, false_and, false_or, ne_eq, not_false_eq_true, true_and]
    by_cases hk : lc p = lc q
    · rw [if_pos hk, ← hk, tfind_tupsert_self (key := fun (x : String × Cat) => x.1) (lc p, c)]
    · rw [if_neg hk, tfind_tupsert_ne (key := fun (x : String × Cat) => x.1) (lc p, c) s.peers (fun h => hk h.symm)]

theorem cat_setCat_self (s : XState) (p : String) (c : Cat) : (s.setCat p c).cat p = c := by
  rw [cat_setCat, if_pos (samePeer_refl p)]

theorem cat_setCat_other (s : XState) {p q : String} (c : Cat) (h : ¬ samePeer p q) : (s.setCat p c).cat q = s.cat q := by
  rw [cat_setCat, if_neg h]

@[simp] theorem setCat_coords (s : XState) (p : String) (c : Cat) : (s.setCat p c).coords = s.coords := by
  unfold XState.setCat; split <;> rfl
@[simp] theorem setCat_kindNames (s : XState) (p : String) (c : Cat) : (s.setCat p c).kindNames = s.kindNames := by
  unfold XState.setCat; split <;> rfl
@[simp] theorem setCat_vips (s : XState) (p : String) (c : Cat) : (s.setCat p c).vips = s.vips := by
  unfold XState.setCat; split <;> rfl
@[simp] theorem setCat_freeIP (s : XState) (p : String) (c : Cat) : (s.setCat p c).freeIP = s.freeIP := by
  unfold XState.setCat; split <;> rfl
@[simp] theorem setCat_counter (s : XState) (p : String) (c : Cat) : (s.setCat p c).counter = s.counter := by
  unfold XState.setCat; split <;> rfl
@[simp] theorem setCat_cfg (s : XState) (p : String) (c : Cat) : (s.setCat p c).cfg = s.cfg := by
  unfold XState.setCat; split <;> rfl
@[simp] theorem setCat_sysMeta (s : XState) (p : String) (c : Cat) : (s.setCat p c).sysMeta = s.sysMeta := by
  unfold XState.setCat; split <;> rfl
@[simp] theorem setCat_usage (s : XState) (p : String) (c : Cat) : (s.setCat p c).usage = s.usage := by
  unfold XState.setCat; split <;> rfl

theorem loc_eq_cat (s : XState) : s.loc = s.cat "" := by unfold XState.cat; simp

/-- only derived tables differ -/
structure XFrame (s s' : XState) : Prop where
  loc : s'.loc = s.loc
  peers : s'.peers = s.peers
  coords : s'.coords = s.coords

theorem XFrame.refl (s : XState) : XFrame s s := ⟨rfl, rfl, rfl⟩
theorem XFrame.trans {a b c : XState} (h1 : XFrame a b) (h2 : XFrame b c) : XFrame a c :=
  ⟨h2.loc.trans h1.loc, h2.peers.trans h1.peers, h2.coords.trans h1.coords⟩

theorem XFrame.cat {s s' : XState} (h : XFrame s s') (q : String) : s'.cat q = s.cat q := by
  unfold XState.cat; rw [h.loc, h.peers]

theorem xframe_assignVip {s s' : XState} {idx ip : Nat} {p n : String}
    (h : assignVip s idx p n = .ok (s', ip)) : XFrame s s' := by
  simp only [assignVip] at h
  repeat' (split at h)
  all_goals (try simp at h)
  all_goals (obtain ⟨rfl, -⟩ := h)
  all_goals exact ⟨rfl, rfl, rfl⟩

theorem cat_withVips (s : XState) (v : List VipRow) (f : Option Nat) (q : String) :
    ({ s with vips := v, freeIP := f } : XState).cat q = s.cat q := rfl

theorem xframe_freeVip (s : XState) (p n : String) : XFrame s (freeVip s p n) := by
  unfold freeVip
  repeat' split
  all_goals exact ⟨rfl, rfl, rfl⟩

/-- the catalog invariant: no orphans in any catalog; every coordinate belongs to a registered (local) node -/
structure CatOK (s : XState) : Prop where
  orphan : ∀ q, NoOrphan (s.cat q).st
  coords : ∀ co ∈ s.coords, (nodeFind s.loc.st co.node).isSome = true

theorem CatOK.empty : CatOK XState.empty := by
  refine ⟨?_, by simp [XState.empty]⟩
  intro q
  have : (XState.empty.cat q) = {} := by
    unfold XState.cat XState.empty
    split
    · rfl
    · simp [tfind]
  rw [this]; exact NoOrphan.empty

theorem CatOK.of_frame {s s' : XState} (h : XFrame s s') (hs : CatOK s) : CatOK s' :=
  ⟨fun q => by rw [h.cat q]; exact hs.orphan q, fun co hco => by rw [h.loc]; exact hs.coords co (h.coords ▸ hco)⟩

/-- `s'` is `s` with the base state of catalog `p` replaced by `st'`; the other catalogs are untouched -/
structure CatStep (p : String) (s s' : XState) (st' : State) : Prop where
  st : (s'.cat p).st = st'
  other : ∀ q, ¬ samePeer p q → s'.cat q = s.cat q

theorem CatStep.of_frame {p : String} {s s' : XState} (h : XFrame s s') : CatStep p s s' (s.cat p).st :=
  ⟨by rw [h.cat], fun q _ => h.cat q⟩

theorem CatStep.setCat {p : String} (s : XState) (c : Cat) : CatStep p s (s.setCat p c) c.st :=
  ⟨by rw [cat_setCat_self], fun q hq => cat_setCat_other s c hq⟩

theorem CatStep.frame_then {p : String} {s s1 s' : XState} {st' : State} (h1 : XFrame s s1) (h2 : CatStep p s1 s' st') :
    CatStep p s s' st' :=
  ⟨h2.st, fun q hq => (h2.other q hq).trans (h1.cat q)⟩

theorem CatStep.then_frame {p : String} {s s1 s' : XState} {st' : State} (h1 : CatStep p s s1 st') (h2 : XFrame s1 s') :
    CatStep p s s' st' :=
  ⟨by rw [h2.cat]; exact h1.st, fun q hq => (h2.cat q).trans (h1.other q hq)⟩

theorem CatStep.trans {p : String} {s s1 s' : XState} {st1 st' : State} (h1 : CatStep p s s1 st1) (h2 : CatStep p s1 s' st') :
    CatStep p s s' st' :=
  ⟨h2.st, fun q hq => (h2.other q hq).trans (h1.other q hq)⟩

/-- orphan-freedom of every catalog after a step that only replaced the base state of catalog `p` -/
theorem orphan_of_step {p : String} {s s' : XState} {st' : State} (h : CatStep p s s' st')
    (hs : ∀ q, NoOrphan (s.cat q).st) (hst : NoOrphan st') : ∀ q, NoOrphan (s'.cat q).st := by
  intro q
  by_cases hq : samePeer p q
  · -- the same catalog under another spelling of the peer name
    have : s'.cat q = s'.cat p := by
      unfold samePeer at hq
      rcases hq with ⟨rfl, rfl⟩ | ⟨hp, hq, hk⟩
      · rfl
      · unfold XState.cat; simp [hp, hq, hk]
    rw [this, h.st]; exact hst
  · rw [h.other q hq]; exact hs q

theorem cat_of_samePeer (s : XState) {p q : String} (h : samePeer p q) : s.cat q = s.cat p := by
  unfold samePeer at h
  rcases h with ⟨rfl, rfl⟩ | ⟨hp, hq, hk⟩
  · rfl
  · unfold XState.cat; simp [hp, hq, hk]


/-! ### what each wrapper function does to the base state of its catalog -/

theorem putSvc_eq (s : XState) (p : String) (v : Svc) (e : SvcX) :
    s.putSvc p v e = s.setCat p { st := svcInsert (s.cat p).st v, ext := tupsert SvcX.pk strLt e (s.cat p).ext } := rfl

theorem ensureServiceX_step {s s' : XState} {p node : String} {idx : Nat} {q : SvcReq}
    (h : ensureServiceX s p idx node q = .ok s') :
    ∃ st', CatStep p s s' st' ∧ s'.coords = s.coords ∧
      (st' = (s.cat p).st ∨ ∃ v : Svc, st' = svcInsert (s.cat p).st v ∧ v.node = node) ∧
      (nodeFind (s.cat p).st node).isSome = true := by
  unfold ensureServiceX at h
  extract_lets c s1 sn s2 r2 v at h
  have hs1 : XFrame s s1 := by
    unfold s1; split <;> exact ⟨rfl, rfl, rfl⟩
  have hs2 : XFrame s1 s2 := by unfold s2; split <;> exact ⟨rfl, rfl, rfl⟩
  have hr2 : ∀ s3 vip, r2 = Except.ok (s3, vip) → XFrame s s3 := by
    intro s3 vip hr
    unfold r2 at hr
    split at hr
    · split at hr
      · split at hr
        · next s3' ip ha =>
          simp at hr; obtain ⟨rfl, -⟩ := hr
          exact hs1.trans (hs2.trans (xframe_assignVip ha))
        · simp at hr
      · simp at hr; obtain ⟨rfl, -⟩ := hr; exact hs1.trans hs2
    · simp at hr; obtain ⟨rfl, -⟩ := hr; exact hs1
  clear_value r2
  split at h
  · simp at h
  · next _ s3 vip =>
    have hf := hr2 s3 vip rfl
    have hc3 : s3.cat p = s.cat p := hf.cat p
    split at h
    · simp at h
    · next n hn =>
      have hnode : (nodeFind (s.cat p).st node).isSome = true := by
        show (nodeFind c.st node).isSome = true
        rw [hn]; rfl
      have ins : ∀ (w : Svc) (e : SvcX), w.node = node →
          ∃ st', CatStep p s (s3.putSvc p w e) st' ∧ (s3.putSvc p w e).coords = s.coords ∧
            (st' = (s.cat p).st ∨ ∃ v : Svc, st' = svcInsert (s.cat p).st v ∧ v.node = node) ∧
            (nodeFind (s.cat p).st node).isSome = true := by
        intro w e hw
        refine ⟨svcInsert (s.cat p).st w, ?_, ?_, Or.inr ⟨w, rfl, hw⟩, hnode⟩
        · rw [putSvc_eq, hc3]
          exact CatStep.frame_then hf (CatStep.setCat s3 _)
        · rw [putSvc_eq, setCat_coords]; exact hf.coords
      dsimp only at h
      split at h
      · split at h
        · simp at h; subst h
          exact ⟨(s.cat p).st, CatStep.of_frame hf, hf.coords, Or.inl rfl, hnode⟩
        · simp at h; subst h; exact ins _ _ (by rfl)
      · simp at h
      · simp at h; subst h; exact ins _ _ (by rfl)

theorem xframe_afterServiceDelete (s : XState) (p : String) (v : Svc) (e : SvcX) : XFrame s (afterServiceDelete s p v e) := by
  unfold afterServiceDelete
  extract_lets s0 s1 sn
  have h0 : XFrame s s0 := xframe_freeVip s p v.name
  have h1 : XFrame s s1 := by
    unfold s1
    split
    · exact ⟨rfl, rfl, rfl⟩
    · split
      · exact ⟨h0.loc, h0.peers, h0.coords⟩
      · exact h0
  split
  · split
    · exact h1
    · exact ⟨h1.loc, h1.peers, h1.coords⟩
  · exact h1

/-- `deleteServiceX` runs the base `deleteService` on the catalog's state -/
theorem deleteServiceX_step {s s' : XState} {p node id : String} {idx : Nat}
    (h : deleteServiceX s p idx node id = .ok s') :
    ∃ st', deleteService (s.cat p).st idx node id = .ok st' ∧ CatStep p s s' st' ∧ s'.coords = s.coords := by
  unfold deleteServiceX at h
  extract_lets c at h
  split at h
  · next hnone =>
    simp at h; subst h
    refine ⟨(s.cat p).st, ?_, CatStep.of_frame (XFrame.refl s), rfl⟩
    unfold deleteService
    have : svcFind (s.cat p).st node id = none := hnone
    rw [this]
  · simp at h
  · next v e hv he =>
    split at h
    · simp at h
    · next st' hd =>
      simp at h; subst h
      refine ⟨st', hd, ?_, ?_⟩
      · exact CatStep.then_frame (CatStep.setCat s _) (xframe_afterServiceDelete _ p v e)
      · rw [(xframe_afterServiceDelete _ p v e).coords, setCat_coords]

theorem foldX_deleteServiceX_step {p node : String} {idx : Nat} : ∀ (l : List Svc) (s s' : XState),
    foldX (fun x (v : Svc) => deleteServiceX x p idx node v.id) l s = .ok s' →
    ∃ st', foldE (fun st (v : Svc) => deleteService st idx node v.id) l (s.cat p).st = .ok st' ∧
      CatStep p s s' st' ∧ s'.coords = s.coords := by
  intro l
  induction l with
  | nil =>
    intro s s' h
    simp [foldX] at h; subst h
    exact ⟨(s.cat p).st, rfl, CatStep.of_frame (XFrame.refl s), rfl⟩
  | cons b bs ih =>
    intro s s' h
    simp only [foldX] at h
    split at h
    · next s1 h1 =>
      obtain ⟨st1, d1, c1, k1⟩ := deleteServiceX_step h1
      obtain ⟨st', d2, c2, k2⟩ := ih s1 s' h
      refine ⟨st', ?_, c1.trans c2, k2.trans k1⟩
      simp only [foldE, d1]
      rw [← c1.st]; exact d2
    · simp at h

/-- `deleteNodeX` runs the base `deleteNode` on the catalog's state; for the local catalog the coordinates of the
    node go with it -/
theorem deleteNodeX_step {s s' : XState} {p name : String} {idx : Nat}
    (h : deleteNodeX s p idx name = .ok s') :
    ∃ st', deleteNode (s.cat p).st idx name = .ok st' ∧ CatStep p s s' st' ∧
      s'.coords = (if p = "" ∧ (nodeFind (s.cat p).st name).isSome = true
        then s.coords.filter (fun co => lc co.node != lc name) else s.coords) := by
  unfold deleteNodeX at h
  extract_lets c svcs st1 at h
  split at h
  · next hnone =>
    simp at h; subst h
    have hnone' : nodeFind (s.cat p).st name = none := hnone
    refine ⟨(s.cat p).st, ?_, CatStep.of_frame (XFrame.refl s), by rw [hnone']; simp⟩
    unfold deleteNode
    rw [hnone']
  · next n hn =>
    split at h
    · simp at h
    · next s2 hf2 =>
      extract_lets c2 cs s3 at h
      split at h
      · simp at h
      · next st3 hf3 =>
        extract_lets st5 ids at h
        split at h
        · simp at h
        · next st6 hf6 =>
          simp at h; subst h
          obtain ⟨st2, d2, k2, co2⟩ := foldX_deleteServiceX_step _ _ _ hf2
          have hst1 : ((s.setCat p { c with st := st1 }).cat p).st = st1 := by rw [cat_setCat_self]
          rw [hst1] at d2
          have hc2 : c2.st = st2 := k2.st
          refine ⟨st6, ?_, ?_, ?_⟩
          · unfold deleteNode
            have hn' : nodeFind (s.cat p).st name = some n := hn
            rw [hn']
            simp only
            have : (List.foldl (fun st (v : Svc) => bumpServiceIdx st idx v.name) (s.cat p).st
                (List.filter (fun v => lc v.node == lc name) (s.cat p).st.svcs)) = st1 := rfl
            rw [this, d2]
            simp only
            have : foldE (fun st (ch : Chk) => deleteCheck st idx name ch.id)
                (List.filter (fun ch => lc ch.node == lc name) st2.chks) st2 = .ok st3 := by
              rw [← hc2]; exact hf3
            rw [this]
            simp only
            exact hf6
          · refine ⟨by rw [cat_setCat_self], ?_⟩
            intro q hq
            rw [cat_setCat_other _ _ hq]
            have h3 : s3.cat q = s2.cat q := by
              unfold s3; split <;> rfl
            rw [h3, k2.other q hq, cat_setCat_other _ _ hq]
          · rw [setCat_coords]
            have hfound : (nodeFind (s.cat p).st name).isSome = true := by
              show (nodeFind c.st name).isSome = true
              rw [hn]; rfl
            by_cases hp : p = ""
            · rw [if_pos ⟨hp, hfound⟩]
              unfold s3
              rw [if_pos hp]
              show List.filter _ s2.coords = _
              rw [co2, setCat_coords]
            · rw [if_neg (fun hh => hp hh.1)]
              unfold s3
              rw [if_neg hp, co2, setCat_coords]


/-- the by-ID part of the base `ensureNode` -/
def ensureNodeById (st : State) (idx : Nat) (node : Node) : Except Err (State × Option Node) :=
  if node.id ≠ "" then
    match nodeFindByID st node.id with
    | some n =>
      if lc n.name ≠ lc node.name then
        if nameClash st node false then .error .nodeNameReserved
        else match deleteNode st idx n.name with
          | .ok s' => .ok (s', some n)
          | .error e => .error e
      else .ok (st, some n)
    | none => if nameClash st node true then .error .nodeNameReserved else .ok (st, none)
  else .ok (st, none)

/-- the upsert part of the base `ensureNode` -/
def ensureNodeFinish (s1 : State) (byId : Option Node) (idx : Nat) (node : Node) : State :=
  let n? := match byId with
    | some n => some n
    | none => nodeFind s1 node.name
  match n? with
  | some n =>
    let node := { node with create := n.create, modify := n.modify }
    if nodeSame node n then s1
    else nodeInsert s1 { node with modify := idx }
  | none => nodeInsert s1 { node with create := idx, modify := idx }

theorem ensureNode_eq (st : State) (idx : Nat) (node : Node) :
    ensureNode st idx node = match ensureNodeById st idx node with
      | .error e => .error e
      | .ok (s1, byId) => .ok (ensureNodeFinish s1 byId idx node) := by
  have key : ∀ r : Except Err (State × Option Node),
      (match r with
        | .error e => (Except.error e : Except Err State)
        | .ok (s1, byId) =>
          let n? := match byId with
            | some n => some n
            | none => nodeFind s1 node.name
          match n? with
          | some n =>
            let node := { node with create := n.create, modify := n.modify }
            if nodeSame node n then .ok s1
            else .ok (nodeInsert s1 { node with modify := idx })
          | none => .ok (nodeInsert s1 { node with create := idx, modify := idx })) =
      (match r with
        | .error e => .error e
        | .ok (s1, byId) => .ok (ensureNodeFinish s1 byId idx node)) := by
    intro r
    cases r with
    | error e => rfl
    | ok pr =>
      obtain ⟨s1, byId⟩ := pr
      unfold ensureNodeFinish
      simp only
      split
      · split <;> rfl
      · rfl
  exact key (ensureNodeById st idx node)

def ensureNodeByIdX (s : XState) (p : String) (idx : Nat) (node : Node) : Except XErr (XState × Option Node) :=
  let st := (s.cat p).st
  if node.id ≠ "" then
    match nodeFindByID st node.id with
    | some n =>
      if lc n.name ≠ lc node.name then
        if nameClash st node false then .error (.store .nodeNameReserved)
        else match deleteNodeX s p idx n.name with
          | .ok s' => .ok (s', some n)
          | .error e => .error e
      else .ok (s, some n)
    | none => if nameClash st node true then .error (.store .nodeNameReserved) else .ok (s, none)
  else .ok (s, none)

def ensureNodeFinishX (s1 : XState) (p : String) (byId : Option Node) (idx : Nat) (node : Node) : XState :=
  let c1 := s1.cat p
  let n? := match byId with
    | some n => some n
    | none => nodeFind c1.st node.name
  match n? with
  | some n =>
    let node := { node with create := n.create, modify := n.modify }
    if nodeSame node n then s1
    else s1.setCat p { c1 with st := nodeInsert c1.st { node with modify := idx } }
  | none => s1.setCat p { c1 with st := nodeInsert c1.st { node with create := idx, modify := idx } }

theorem ensureNodeX_eq (s : XState) (p : String) (idx : Nat) (node : Node) :
    ensureNodeX s p idx node = match ensureNodeByIdX s p idx node with
      | .error e => .error e
      | .ok (s1, byId) => .ok (ensureNodeFinishX s1 p byId idx node) := by
  have key : ∀ r : Except XErr (XState × Option Node),
      (match r with
        | .error e => (Except.error e : Except XErr XState)
        | .ok (s1, byId) =>
          let c1 := s1.cat p
          let n? := match byId with
            | some n => some n
            | none => nodeFind c1.st node.name
          match n? with
          | some n =>
            let node := { node with create := n.create, modify := n.modify }
            if nodeSame node n then .ok s1
            else .ok (s1.setCat p { c1 with st := nodeInsert c1.st { node with modify := idx } })
          | none => .ok (s1.setCat p { c1 with st := nodeInsert c1.st { node with create := idx, modify := idx } })) =
      (match r with
        | .error e => .error e
        | .ok (s1, byId) => .ok (ensureNodeFinishX s1 p byId idx node)) := by
    intro r
    cases r with
    | error e => rfl
    | ok pr =>
      obtain ⟨s1, byId⟩ := pr
      unfold ensureNodeFinishX
      simp only
      split
      · split <;> rfl
      · rfl
  exact key (ensureNodeByIdX s p idx node)

/-- how a node step of catalog `p` may change the coordinate table: not at all, or (local catalog) the
    coordinates of one other node name are dropped -/
def CoordStep (p : String) (newName : String) (s s' : XState) : Prop :=
  s'.coords = s.coords ∨
    ∃ name, p = "" ∧ lc name ≠ lc newName ∧ s'.coords = s.coords.filter (fun co => lc co.node != lc name)

theorem ensureNodeByIdX_step {s s1 : XState} {p : String} {idx : Nat} {node : Node} {byId : Option Node}
    (h : ensureNodeByIdX s p idx node = .ok (s1, byId)) :
    ∃ st1, ensureNodeById (s.cat p).st idx node = .ok (st1, byId) ∧ CatStep p s s1 st1 ∧ CoordStep p node.name s s1 := by
  unfold ensureNodeByIdX at h
  unfold ensureNodeById
  simp only at h
  split at h
  · next hid =>
    rw [if_pos hid]
    split at h
    · next n0 hn0 =>
      split at h
      · next hne =>
        rw [if_pos hne]
        split at h
        · simp at h
        · next hcl =>
          rw [if_neg hcl]
          split at h
          · next sd hd =>
            simp at h; obtain ⟨rfl, rfl⟩ := h
            obtain ⟨st1, d1, k1, c1⟩ := deleteNodeX_step hd
            refine ⟨st1, by rw [d1], k1, ?_⟩
            split at c1
            · next hc => exact Or.inr ⟨n0.name, hc.1, hne, c1⟩
            · exact Or.inl c1
          · simp at h
      · next hne =>
        rw [if_neg hne]
        simp at h; obtain ⟨rfl, rfl⟩ := h
        exact ⟨_, rfl, CatStep.of_frame (XFrame.refl s), Or.inl rfl⟩
    · next hnone =>
      split at h
      · simp at h
      · next hcl =>
        rw [if_neg hcl]
        simp at h; obtain ⟨rfl, rfl⟩ := h
        exact ⟨_, rfl, CatStep.of_frame (XFrame.refl s), Or.inl rfl⟩
  · next hid =>
    rw [if_neg hid]
    simp at h; obtain ⟨rfl, rfl⟩ := h
    exact ⟨_, rfl, CatStep.of_frame (XFrame.refl s), Or.inl rfl⟩

theorem ensureNodeFinishX_step (s1 : XState) (p : String) (byId : Option Node) (idx : Nat) (node : Node) :
    CatStep p s1 (ensureNodeFinishX s1 p byId idx node) (ensureNodeFinish (s1.cat p).st byId idx node) ∧
    (ensureNodeFinishX s1 p byId idx node).coords = s1.coords := by
  unfold ensureNodeFinishX ensureNodeFinish
  simp only
  split
  · split
    · exact ⟨CatStep.of_frame (XFrame.refl s1), rfl⟩
    · exact ⟨CatStep.setCat s1 _, setCat_coords _ _ _⟩
  · exact ⟨CatStep.setCat s1 _, setCat_coords _ _ _⟩

/-- `ensureNodeX` runs the base `ensureNode` on the catalog's state -/
theorem ensureNodeX_step {s s' : XState} {p : String} {idx : Nat} {node : Node}
    (h : ensureNodeX s p idx node = .ok s') :
    ∃ st', ensureNode (s.cat p).st idx node = .ok st' ∧ CatStep p s s' st' ∧ CoordStep p node.name s s' := by
  rw [ensureNodeX_eq] at h
  split at h
  · simp at h
  · next s1 byId hb =>
    simp at h; subst h
    obtain ⟨st1, e1, k1, c1⟩ := ensureNodeByIdX_step hb
    obtain ⟨k2, c2⟩ := ensureNodeFinishX_step s1 p byId idx node
    refine ⟨ensureNodeFinish st1 byId idx node, ?_, ?_, ?_⟩
    · rw [ensureNode_eq, e1]
    · rw [← k1.st]; exact k1.trans k2
    · unfold CoordStep at c1 ⊢
      rw [c2]; exact c1

/-! ### the catalog invariant through the wrapper functions -/

theorem nodeFind_of_view {s s' : State} (h : catView s' = catView s) (m : String) : nodeFind s' m = nodeFind s m :=
  nodeFind_congr (catView_nodes h) m

theorem catOK_deleteNodeX {s s' : XState} {p name : String} {idx : Nat}
    (h : deleteNodeX s p idx name = .ok s') (hnf : NF name) (hs : CatOK s) : CatOK s' := by
  obtain ⟨st', d, k, c⟩ := deleteNodeX_step h
  refine ⟨orphan_of_step k hs.orphan (noOrphan_deleteNode d hnf (hs.orphan p)), ?_⟩
  intro co hco
  by_cases hp : p = ""
  · subst hp
    have hloc : s'.loc.st = st' := by rw [loc_eq_cat]; exact k.st
    rw [hloc]
    rcases deleteNode_spec d with ⟨hnone, rfl⟩ | hspec
    · rw [hnone] at c
      simp at c
      have := hs.coords co (c ▸ hco)
      rw [loc_eq_cat] at this; exact this
    · by_cases hfound : (nodeFind (s.cat "").st name).isSome = true
      · rw [if_pos ⟨rfl, hfound⟩] at c
        rw [c] at hco
        obtain ⟨m1, m2⟩ := List.mem_filter.mp hco
        have hne : lc co.node ≠ lc name := by simpa using m2
        have h0 := hs.coords co m1
        rw [loc_eq_cat] at h0
        unfold nodeFind
        rw [hspec.nodes, tfind_terase_ne _ _ _ hne]
        exact h0
      · -- the node was absent: erasing its key changes nothing
        rw [if_neg (fun hh => hfound hh.2)] at c
        have h0 := hs.coords co (c ▸ hco)
        rw [loc_eq_cat] at h0
        have hnone : nodeFind (s.cat "").st name = none := by
          cases hq : nodeFind (s.cat "").st name with
          | none => rfl
          | some _ => rw [hq] at hfound; simp at hfound
        unfold nodeFind at hnone ⊢
        rw [hspec.nodes, terase_of_tfind_none hnone]
        exact h0
  · have hnot : ¬ samePeer p "" := by
      unfold samePeer; simp [hp]
    have hloc : s'.loc = s.loc := by rw [loc_eq_cat, loc_eq_cat]; exact k.other "" hnot
    rw [hloc, if_neg (fun hh => hp hh.1)] at *
    exact hs.coords co (c ▸ hco)


theorem catOK_ensureNodeByIdX {s s1 : XState} {p : String} {idx : Nat} {node : Node} {byId : Option Node}
    (h : ensureNodeByIdX s p idx node = .ok (s1, byId)) (hs : CatOK s) : CatOK s1 := by
  unfold ensureNodeByIdX at h
  simp only at h
  split at h
  · split at h
    · next n0 hn0 =>
      split at h
      · split at h
        · simp at h
        · split at h
          · next sd hd =>
            simp at h; obtain ⟨rfl, -⟩ := h
            refine catOK_deleteNodeX hd ?_ hs
            unfold nodeFindByID at hn0
            exact (hs.orphan p).nf_node n0 (List.mem_of_find?_eq_some hn0)
          · simp at h
      · simp at h; obtain ⟨rfl, -⟩ := h; exact hs
    · split at h
      · simp at h
      · simp at h; obtain ⟨rfl, -⟩ := h; exact hs
  · simp at h; obtain ⟨rfl, -⟩ := h; exact hs

theorem nodeFind_nodeInsert_mono (st : State) (n : Node) (m : String) (h : (nodeFind st m).isSome = true) :
    (nodeFind (nodeInsert st n) m).isSome = true := by
  have hv := catView_nodeInsert st n
  generalize nodeInsert st n = st' at hv
  simp only [catView, Prod.mk.injEq] at hv
  unfold nodeFind at h ⊢
  rw [hv.1]; exact tfind_tupsert_mono _ _ _ h

theorem catOK_ensureNodeFinishX {s1 : XState} (p : String) (byId : Option Node) (idx : Nat) (node : Node)
    (hnf : NF node.name) (hs : CatOK s1) : CatOK (ensureNodeFinishX s1 p byId idx node) := by
  obtain ⟨k, c⟩ := ensureNodeFinishX_step s1 p byId idx node
  have hst : NoOrphan (ensureNodeFinish (s1.cat p).st byId idx node) := by
    unfold ensureNodeFinish
    simp only
    split
    · split
      · exact hs.orphan p
      · exact noOrphan_nodeInsert _ hnf (hs.orphan p)
    · exact noOrphan_nodeInsert _ hnf (hs.orphan p)
  refine ⟨orphan_of_step k hs.orphan hst, ?_⟩
  intro co hco
  rw [c] at hco
  have h0 := hs.coords co hco
  by_cases hp : p = ""
  · subst hp
    have hloc : (ensureNodeFinishX s1 "" byId idx node).loc.st = ensureNodeFinish (s1.cat "").st byId idx node := by
      rw [loc_eq_cat]; exact k.st
    rw [hloc]
    rw [loc_eq_cat] at h0
    unfold ensureNodeFinish
    simp only
    split
    · split
      · exact h0
      · exact nodeFind_nodeInsert_mono _ _ _ h0
    · exact nodeFind_nodeInsert_mono _ _ _ h0
  · have hnot : ¬ samePeer p "" := by unfold samePeer; simp [hp]
    have hloc : (ensureNodeFinishX s1 p byId idx node).loc = s1.loc := by
      rw [loc_eq_cat, loc_eq_cat]; exact k.other "" hnot
    rw [hloc]; exact h0

theorem catOK_ensureNodeX {s s' : XState} {p : String} {idx : Nat} {node : Node}
    (h : ensureNodeX s p idx node = .ok s') (hnf : NF node.name) (hs : CatOK s) : CatOK s' := by
  rw [ensureNodeX_eq] at h
  split at h
  · simp at h
  · next s1 byId hb =>
    simp at h; subst h
    exact catOK_ensureNodeFinishX p byId idx node hnf (catOK_ensureNodeByIdX hb hs)

theorem nodeFind_svcInsert (st : State) (v : Svc) (m : String) : nodeFind (svcInsert st v) m = nodeFind st m := by
  have hv := catView_svcInsert st v
  generalize svcInsert st v = st' at hv
  simp only [catView, Prod.mk.injEq] at hv
  exact nodeFind_congr hv.1 m

/-- the coordinate clause after a step of catalog `p` that kept the coordinate table and did not lose a node -/
theorem coords_of_step {p : String} {s s' : XState} {st' : State} (k : CatStep p s s' st') (hc : s'.coords = s.coords)
    (hmono : ∀ m, (nodeFind (s.cat p).st m).isSome = true → (nodeFind st' m).isSome = true) (hs : CatOK s) :
    ∀ co ∈ s'.coords, (nodeFind s'.loc.st co.node).isSome = true := by
  intro co hco
  rw [hc] at hco
  have h0 := hs.coords co hco
  by_cases hp : p = ""
  · subst hp
    have hloc : s'.loc.st = st' := by rw [loc_eq_cat]; exact k.st
    rw [hloc]
    rw [loc_eq_cat] at h0
    exact hmono _ h0
  · have hnot : ¬ samePeer p "" := by unfold samePeer; simp [hp]
    have hloc : s'.loc = s.loc := by rw [loc_eq_cat, loc_eq_cat]; exact k.other "" hnot
    rw [hloc]; exact h0

theorem catOK_ensureServiceX {s s' : XState} {p node : String} {idx : Nat} {q : SvcReq}
    (h : ensureServiceX s p idx node q = .ok s') (hnf : NF node) (hs : CatOK s) : CatOK s' := by
  obtain ⟨st', k, c, hst, hnode⟩ := ensureServiceX_step h
  rcases hst with rfl | ⟨v, rfl, hv⟩
  · exact ⟨orphan_of_step k hs.orphan (hs.orphan p), coords_of_step k c (fun _ h => h) hs⟩
  · refine ⟨orphan_of_step k hs.orphan (noOrphan_svcInsert v (hv ▸ hnode) (hv ▸ hnf) (hs.orphan p)), ?_⟩
    exact coords_of_step k c (fun m hm => by rw [nodeFind_svcInsert]; exact hm) hs

theorem catOK_deleteServiceX {s s' : XState} {p node id : String} {idx : Nat}
    (h : deleteServiceX s p idx node id = .ok s') (hnf : NF node) (hs : CatOK s) : CatOK s' := by
  obtain ⟨st', d, k, c⟩ := deleteServiceX_step h
  refine ⟨orphan_of_step k hs.orphan (noOrphan_deleteService d hnf (hs.orphan p)), ?_⟩
  exact coords_of_step k c (fun m hm => by rw [nodeFind_congr (deleteService_spec d).1]; exact hm) hs

/-- a base function run on catalog `p` through `onSt` -/
theorem catOK_onSt {s s' : XState} {p : String} {f : State → Except Err State}
    (h : s.onSt p f = .ok s')
    (hf : ∀ st st', f st = .ok st' → NoOrphan st → NoOrphan st' ∧ st'.nodes = st.nodes) (hs : CatOK s) : CatOK s' := by
  unfold XState.onSt at h
  simp only at h
  split at h
  · next st' hst =>
    simp at h; subst h
    obtain ⟨h1, h2⟩ := hf _ _ hst (hs.orphan p)
    have k : CatStep p s (s.setCat p { s.cat p with st := st' }) st' := CatStep.setCat s _
    exact ⟨orphan_of_step k hs.orphan h1,
      coords_of_step k (setCat_coords _ _ _) (fun m hm => by rw [nodeFind_congr h2]; exact hm) hs⟩
  · simp at h

theorem foldE_ensureCheck_ok {idx : Nat} {node : String} (hnf : NF node) : ∀ (l : List Chk) (st st' : State),
    foldE (fun st c => ensureCheckIfNodeMatches st idx node c) l st = .ok st' →
    NoOrphan st → NoOrphan st' ∧ st'.nodes = st.nodes := by
  intro l
  induction l with
  | nil => intro st st' h hs; simp [foldE] at h; subst h; exact ⟨hs, rfl⟩
  | cons b bs ih =>
    intro st st' h hs
    simp only [foldE] at h
    split at h
    · next st1 h1 =>
      unfold ensureCheckIfNodeMatches at h1
      split at h1
      · simp at h1
      · next hm =>
        have hnfb : NF b.node := (NF_congr (by simpa using hm)).mpr hnf
        have hsp := ensSpec_ensureCheck h1
        obtain ⟨a1, a2⟩ := ih st1 st' h (NoOrphan.of_ensSpec hsp hnfb hs)
        exact ⟨a1, a2.trans hsp.nodes⟩
    · simp at h

theorem catOK_registerX {s s' : XState} {idx : Nat} {r : XRegReq}
    (h : registerX s idx r = .ok s') (hnf : NF r.node.name) (hs : CatOK s) : CatOK s' := by
  unfold registerX at h
  extract_lets p r1 at h
  have h1 : ∀ s1, r1 = Except.ok s1 → CatOK s1 := by
    intro s1 hr
    unfold r1 at hr
    split at hr
    · split at hr
      · simp at hr; exact hr ▸ hs
      · exact catOK_ensureNodeX hr hnf hs
    · exact catOK_ensureNodeX hr hnf hs
  clear_value r1
  split at h
  · simp at h
  · next _ s1 =>
    have hs1 := h1 s1 rfl
    extract_lets c1 r2 at h
    have h2 : ∀ s2, r2 = Except.ok s2 → CatOK s2 := by
      intro s2 hr
      unfold r2 at hr
      split at hr
      · simp at hr; exact hr ▸ hs1
      · split at hr
        · split at hr
          · simp at hr; exact hr ▸ hs1
          · exact catOK_ensureServiceX hr hnf hs1
        · simp at hr
        · exact catOK_ensureServiceX hr hnf hs1
    clear_value r2
    split at h
    · simp at h
    · next _ s2 =>
      exact catOK_onSt h (fun st st' hst hno => foldE_ensureCheck_ok hnf _ _ _ hst hno) (h2 s2 rfl)

theorem catOK_deregisterX {s s' : XState} {idx : Nat} {p node svcId chkId : String}
    (h : deregisterX s idx p node svcId chkId = .ok s') (hnf : NF node) (hs : CatOK s) : CatOK s' := by
  unfold deregisterX at h
  split at h
  · exact catOK_deleteServiceX h hnf hs
  · split at h
    · refine catOK_onSt h ?_ hs
      intro st st' hst hno
      exact ⟨noOrphan_deleteCheck hst hno, (deleteCheck_spec hst).1⟩
    · exact catOK_deleteNodeX h hnf hs


/-! ### the remaining commands -/

theorem catOK_coordUpdate (s : XState) (us : List CoordRow) (hs : CatOK s) : CatOK (coordUpdate s us) := by
  unfold coordUpdate
  induction us generalizing s with
  | nil => exact hs
  | cons u rest ih =>
    simp only [List.foldl_cons]
    apply ih
    split
    · next hfound =>
      refine ⟨hs.orphan, ?_⟩
      intro co hco
      have hco' : co ∈ tupsert CoordRow.pk strLt u s.coords := hco
      rcases mem_tupsert hco' with rfl | hco'
      · exact hfound
      · exact hs.coords co hco'
    · exact hs

theorem xframe_sysMetaSet (s : XState) (k : String) (v : Option String) : XFrame s (sysMetaSet s k v) := by
  unfold sysMetaSet
  cases v <;> exact ⟨rfl, rfl, rfl⟩

theorem xframe_configUpsert {s s' : XState} {idx : Nat} {kind name tok : String} {dest : Bool}
    (h : configUpsert s idx kind name dest tok = .ok s') : XFrame s s' := by
  unfold configUpsert at h
  extract_lets s1 r2 at h
  have h1 : XFrame s s1 := by unfold s1; split <;> exact ⟨rfl, rfl, rfl⟩
  have h2 : ∀ s2, r2 = Except.ok s2 → XFrame s s2 := by
    intro s2 hr
    unfold r2 at hr
    split at hr
    · split at hr
      · next s2' ip ha => simp at hr; subst hr; exact h1.trans (xframe_assignVip ha)
      · simp at hr
    · simp at hr; subst hr; exact h1
  clear_value r2
  split at h
  · simp at h
  · next _ s2 =>
    simp at h; subst h
    have := h2 s2 rfl
    exact ⟨this.loc, this.peers, this.coords⟩

theorem xframe_configDelete (s : XState) (kind name : String) : XFrame s (configDelete s kind name) := by
  unfold configDelete
  split
  · exact XFrame.refl s
  · extract_lets s1 s2
    have h1 : XFrame s s1 := by unfold s1; split <;> exact ⟨rfl, rfl, rfl⟩
    have h2 : XFrame s s2 := ⟨h1.loc, h1.peers, h1.coords⟩
    split
    · exact h2.trans (xframe_freeVip s2 "" name)
    · exact h2

/-- node names a transaction operation hands to the catalog are NUL-free -/
def XTxnOp.wf : XTxnOp → Prop
  | .base (.node _ n) => NF n.name
  | .base (.service _ x) => NF x.node
  | .base (.check _ c) => NF c.node
  | .base _ => True
  | .service _ node _ => NF node

/-- well-formed command: every node name it hands to the catalog is NUL-free (lower-cased spelling) -/
def XCmd.wf : XCmd → Prop
  | .store (.register r) => NF r.node.name
  | .store (.deregister node _ _) => NF node
  | .store (.txn ops) => ∀ op ∈ ops, (XTxnOp.base op).wf
  | .store _ => True
  | .register r => NF r.node.name
  | .deregister _ node _ _ => NF node
  | .txn ops => ∀ op ∈ ops, op.wf
  | _ => True

theorem catOK_txnNodeX {s s' : XState} {idx : Nat} {v : CatVerb} {n : Node} {rs : List TxnRes}
    (h : txnNodeX s idx v n = .ok (s', rs)) (hnf : NF n.name) (hs : CatOK s) : CatOK s' := by
  unfold txnNodeX at h
  cases v <;> simp only at h
  · -- get
    split at h
    · simp [okResX] at h; exact h.1 ▸ hs
    · simp at h
  · -- set
    split at h
    · next s1 h1 => simp [okResX] at h; exact h.1 ▸ catOK_ensureNodeX h1 hnf hs
    · simp at h
  · -- cas
    split at h
    · next s1 h1 =>
      simp [okResX] at h
      unfold ensureNodeCasX at h1
      split at h1
      · simp at h1
      · split at h1
        · next s2 h2 => simp at h1; exact h.1 ▸ h1 ▸ catOK_ensureNodeX h2 hnf hs
        · simp at h1
    · simp at h
    · simp at h
  · -- delete
    split at h
    · next s1 h1 => simp [okResX] at h; exact h.1 ▸ catOK_deleteNodeX h1 hnf hs
    · simp at h
  · -- delete-cas
    split at h
    · next s1 h1 =>
      simp [okResX] at h
      unfold deleteNodeCasX at h1
      split at h1
      · simp at h1
      · split at h1
        · simp at h1
        · split at h1
          · next s2 h2 => simp at h1; exact h.1 ▸ h1 ▸ catOK_deleteNodeX h2 hnf hs
          · simp at h1
    · simp at h
    · simp at h

theorem catOK_txnServiceX {s s' : XState} {idx : Nat} {v : CatVerb} {node : String} {q : SvcReq} {rs : List TxnRes}
    (h : txnServiceX s idx v node q = .ok (s', rs)) (hnf : NF node) (hs : CatOK s) : CatOK s' := by
  unfold txnServiceX at h
  cases v <;> simp only at h
  · split at h
    · simp [okResX] at h; exact h.1 ▸ hs
    · simp at h
  · split at h
    · next s1 h1 => simp [okResX] at h; exact h.1 ▸ catOK_ensureServiceX h1 hnf hs
    · simp at h
  · split at h
    · next s1 h1 =>
      simp [okResX] at h
      unfold ensureServiceCasX at h1
      split at h1
      · simp at h1
      · split at h1
        · next s2 h2 => simp at h1; exact h.1 ▸ h1 ▸ catOK_ensureServiceX h2 hnf hs
        · simp at h1
    · simp at h
    · simp at h
  · split at h
    · next s1 h1 => simp [okResX] at h; exact h.1 ▸ catOK_deleteServiceX h1 hnf hs
    · simp at h
  · split at h
    · next s1 h1 =>
      simp [okResX] at h
      unfold deleteServiceCasX at h1
      split at h1
      · simp at h1
      · split at h1
        · simp at h1
        · split at h1
          · next s2 h2 => simp at h1; exact h.1 ▸ h1 ▸ catOK_deleteServiceX h2 hnf hs
          · simp at h1
    · simp at h
    · simp at h


theorem catView_txnKV {s s' : State} {idx : Nat} {v : KvVerb} {e : KV} {rs : List TxnRes}
    (h : txnKV s idx v e = .ok (s', rs)) : catView s' = catView s := by
  unfold txnKV at h
  cases v <;> simp only [okRes] at h
  all_goals (repeat' (split at h))
  all_goals (try simp at h)
  all_goals (try (obtain ⟨rfl, -⟩ := h))
  all_goals (first
    | rfl
    | (next hd => exact catView_kvSetTxn hd)
    | (next hd => exact catView_kvDeleteTxn hd)
    | (next hd => exact catView_kvDeleteCasTxn hd)
    | exact catView_kvDeleteTreeTxn _ _ _
    | (next hd => exact catView_kvSetCasTxn hd)
    | (next hd => exact catView_kvLockTxn hd)
    | (next hd => exact catView_kvUnlockTxn hd)
    | skip)

theorem noOrphan_txnCheck {s s' : State} {idx : Nat} {v : CatVerb} {c : Chk} {rs : List TxnRes}
    (h : txnCheck s idx v c = .ok (s', rs)) (hnf : NF c.node) (hs : NoOrphan s) :
    NoOrphan s' ∧ s'.nodes = s.nodes := by
  unfold txnCheck at h
  cases v <;> simp only [okRes] at h
  · split at h
    · simp at h; exact h.1 ▸ ⟨hs, rfl⟩
    · simp at h
  · split at h
    · next s1 h1 =>
      simp at h; rw [← h.1]
      exact ⟨noOrphan_ensureCheck h1 hnf hs, (ensSpec_ensureCheck h1).nodes⟩
    · simp at h
  · split at h
    · next s1 h1 =>
      simp at h; rw [← h.1]
      unfold ensureCheckCas at h1
      split at h1
      · simp at h1
      · split at h1
        · next s2 h2 => simp at h1; rw [← h1]; exact ⟨noOrphan_ensureCheck h2 hnf hs, (ensSpec_ensureCheck h2).nodes⟩
        · simp at h1
    · simp at h
    · simp at h
  · split at h
    · next s1 h1 => simp at h; rw [← h.1]; exact ⟨noOrphan_deleteCheck h1 hs, (deleteCheck_spec h1).1⟩
    · simp at h
  · split at h
    · next s1 h1 =>
      simp at h; rw [← h.1]
      unfold deleteCheckCas at h1
      split at h1
      · simp at h1
      · split at h1
        · simp at h1
        · split at h1
          · next s2 h2 => simp at h1; rw [← h1]; exact ⟨noOrphan_deleteCheck h2 hs, (deleteCheck_spec h2).1⟩
          · simp at h1
    · simp at h
    · simp at h

theorem catOK_txnStepX {s s' : XState} {idx : Nat} {op : XTxnOp} {rs : List TxnRes}
    (h : txnStepX s idx op = .ok (s', rs)) (hwf : op.wf) (hs : CatOK s) : CatOK s' := by
  have base_ok : ∀ (bop : TxnOp) (st' : State), txnStep s.loc.st idx bop = .ok (st', rs) →
      (NoOrphan st' ∧ st'.nodes = s.loc.st.nodes) → CatOK { s with loc := { s.loc with st := st' } } := by
    intro bop st' _ hno
    have heq : ({ s with loc := { s.loc with st := st' } } : XState) = s.setCat "" { s.loc with st := st' } := by
      unfold XState.setCat; simp
    rw [heq]
    have k : CatStep "" s (s.setCat "" { s.loc with st := st' }) st' := CatStep.setCat s _
    exact ⟨orphan_of_step k hs.orphan hno.1,
      coords_of_step k (setCat_coords _ _ _) (fun m hm => by
        rw [nodeFind_congr hno.2]; rw [← loc_eq_cat] at hm; exact hm) hs⟩
  cases op with
  | service v node q => exact catOK_txnServiceX h hwf hs
  | base bop =>
    cases bop with
    | node v n => exact catOK_txnNodeX h hwf hs
    | service v x => exact catOK_txnServiceX h hwf hs
    | kv v e =>
      simp only [txnStepX] at h
      split at h
      · next st' rs' hst =>
        simp [okResX] at h; obtain ⟨rfl, rfl⟩ := h
        refine base_ok _ st' hst ?_
        have hv : catView st' = catView s.loc.st := catView_txnKV hst
        exact ⟨NoOrphan.of_view hv (by rw [loc_eq_cat]; exact hs.orphan ""), catView_nodes hv⟩
      · simp at h
    | check v c =>
      simp only [txnStepX] at h
      split at h
      · next st' rs' hst =>
        simp [okResX] at h; obtain ⟨rfl, rfl⟩ := h
        exact base_ok _ st' hst (noOrphan_txnCheck hst hwf (by rw [loc_eq_cat]; exact hs.orphan ""))
      · simp at h
    | sessionDelete id =>
      simp only [txnStepX] at h
      split at h
      · next st' rs' hst =>
        simp [okResX] at h; obtain ⟨rfl, rfl⟩ := h
        refine base_ok _ st' hst ?_
        simp only [txnStep] at hst
        split at hst
        · next s1 h1 =>
          simp [okRes] at hst; rw [← hst.1]
          exact ⟨noOrphan_deleteSession h1 (by rw [loc_eq_cat]; exact hs.orphan ""), (casRel_deleteSession h1).nodes⟩
        · simp at hst
      · simp at h

theorem catOK_txnLoopX (idx : Nat) : ∀ (ops : List XTxnOp) (i : Nat) (s : XState) (rs : List TxnRes) (es : List (Nat × XErr)),
    (∀ op ∈ ops, op.wf) → CatOK s → CatOK (txnLoopX idx ops i s rs es).1 := by
  intro ops
  induction ops with
  | nil => intro i s rs es _ hs; exact hs
  | cons op rest ih =>
    intro i s rs es hwf hs
    simp only [txnLoopX]
    split
    · next s' r hstep =>
      exact ih _ _ _ _ (fun o ho => hwf o (List.mem_cons_of_mem _ ho))
        (catOK_txnStepX hstep (hwf op List.mem_cons_self) hs)
    · exact ih _ _ _ _ (fun o ho => hwf o (List.mem_cons_of_mem _ ho)) hs

theorem catOK_txnRWX {s : XState} (idx : Nat) (ops : List XTxnOp) (hwf : ∀ op ∈ ops, op.wf) (hs : CatOK s) :
    CatOK (txnRWX s idx ops).1 := by
  unfold txnRWX
  have := catOK_txnLoopX idx ops 0 s [] [] hwf hs
  generalize txnLoopX idx ops 0 s [] [] = r at this
  obtain ⟨s', rs, es⟩ := r
  simp only
  split
  · exact this
  · exact hs

theorem catOK_liftSX {s : XState} {r : Except XErr XState} (hs : CatOK s) (hr : ∀ s', r = .ok s' → CatOK s') :
    CatOK (liftSX s r).1 := by
  cases r with
  | ok s' => exact hr s' rfl
  | error e => exact hs

theorem catOK_commitUsage (pre post : XState) (idx : Nat) (h : CatOK post) : CatOK (commitUsage pre post idx) :=
  ⟨h.orphan, h.coords⟩

/-- a command handed to the base `apply` unchanged -/
theorem catOK_store_plain {s : XState} (idx : Nat) (c : Cmd) (hc : c.isPlain = true) (hs : CatOK s) :
    CatOK (stepX s idx (.store c)).1 := by
  have hstep : (stepX s idx (.store c)).1 = s.setCat "" { s.loc with st := (apply s.loc.st idx c).1 } := by
    cases c <;> first | (simp [Cmd.isPlain] at hc; done) | (simp only [stepX]; unfold XState.setCat; simp)
  rw [hstep]
  have k : CatStep "" s (s.setCat "" { s.loc with st := (apply s.loc.st idx c).1 }) (apply s.loc.st idx c).1 :=
    CatStep.setCat (p := "") s { s.loc with st := (apply s.loc.st idx c).1 }
  have hloc : NoOrphan s.loc.st := by have := hs.orphan ""; rw [← loc_eq_cat] at this; exact this
  have hno := noOrphan_apply_plain idx c hc hloc
  exact ⟨orphan_of_step k hs.orphan hno,
    coords_of_step k (setCat_coords _ _ _) (fun m hm => by
      rw [nodeFind_congr (nodes_apply_plain idx c hc)]; rw [← loc_eq_cat] at hm; exact hm) hs⟩

/-- one inner `…Txn` function preserves the catalog invariant -/
theorem catOK_stepX {s : XState} (idx : Nat) (c : XCmd) (hwf : c.wf) (hs : CatOK s) : CatOK (stepX s idx c).1 := by
  cases c with
  | register r => exact catOK_liftSX hs (fun s' h => catOK_registerX h hwf hs)
  | deregister p node svcId chkId => exact catOK_liftSX hs (fun s' h => catOK_deregisterX h hwf hs)
  | coords us => exact catOK_coordUpdate s us hs
  | sysmeta k v => exact CatOK.of_frame (xframe_sysMetaSet s k v) hs
  | configSet kind name dest tok => exact catOK_liftSX hs (fun s' h => CatOK.of_frame (xframe_configUpsert h) hs)
  | configDelete kind name => exact CatOK.of_frame (xframe_configDelete s kind name) hs
  | txn ops =>
    simp only [stepX]
    exact catOK_txnRWX idx ops hwf hs
  | store c =>
    cases c with
    | register r => exact catOK_liftSX hs (fun s' h => catOK_registerX h hwf hs)
    | deregister node svcId chkId => exact catOK_liftSX hs (fun s' h => catOK_deregisterX h hwf hs)
    | txn ops =>
      simp only [stepX]
      refine catOK_txnRWX idx _ ?_ hs
      intro op hop
      obtain ⟨bop, hb, rfl⟩ := List.mem_map.mp hop
      exact hwf bop hb
    | kvSet e => exact catOK_store_plain idx _ rfl hs
    | kvCas e => exact catOK_store_plain idx _ rfl hs
    | kvDelete k => exact catOK_store_plain idx _ rfl hs
    | kvDeleteCas k ci => exact catOK_store_plain idx _ rfl hs
    | kvDeleteTree p => exact catOK_store_plain idx _ rfl hs
    | kvLock e => exact catOK_store_plain idx _ rfl hs
    | kvUnlock e => exact catOK_store_plain idx _ rfl hs
    | sessionCreate r => exact catOK_store_plain idx _ rfl hs
    | sessionDestroy id => exact catOK_store_plain idx _ rfl hs
    | reap u => exact catOK_store_plain idx _ rfl hs
    | pqSet id sess => exact catOK_store_plain idx _ rfl hs
    | pqDelete id => exact catOK_store_plain idx _ rfl hs

/-- well-formed log: every command is -/
def XLog.wf (log : XLog) : Prop := ∀ ic ∈ log, ic.2.wf

theorem catOK_applyX {s : XState} (idx : Nat) (c : XCmd) (hwf : c.wf) (hs : CatOK s) : CatOK (applyX s idx c).1 := by
  unfold applyX
  exact catOK_commitUsage _ _ _ (catOK_stepX idx c hwf hs)

theorem catOK_replayX : ∀ (log : XLog) (s : XState), XLog.wf log → CatOK s → CatOK (replayX s log) := by
  intro log
  induction log with
  | nil => intro s _ hs; exact hs
  | cons ic rest ih =>
    intro s hwf hs
    unfold replayX
    simp only [List.foldl_cons]
    exact ih _ (fun x hx => hwf x (List.mem_cons_of_mem _ hx)) (catOK_applyX ic.1 ic.2 (hwf ic List.mem_cons_self) hs)

end CV.Store
