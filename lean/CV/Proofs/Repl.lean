import CV.Repl
set_option linter.unusedSectionVars false
namespace CV.Repl
variable {κ η : Type} [DecidableEq κ]

structure Lawful (c : Cfg κ η) : Prop where
  irrefl : ∀ a, c.lt a a = false
  trans : ∀ a b d, c.lt a b = true → c.lt b d = true → c.lt a d = true
  tri : ∀ a b, c.lt a b = false → c.lt b a = false → a = b
  skip_min : ∀ a b, c.skip a = true → c.skip b = false → c.lt a b = true

/-- key-sorted; skipped keys (which may repeat) come first -/
def Sorted (c : Cfg κ η) (xs : List (Item κ η)) : Prop :=
  xs.Pairwise fun a b => c.lt a.id b.id = true ∨ c.skip a.id = true

theorem sorted_cons {c : Cfg κ η} {x : Item κ η} {xs} :
    Sorted c (x :: xs) ↔ (∀ y ∈ xs, c.lt x.id y.id = true ∨ c.skip x.id = true) ∧ Sorted c xs :=
  List.pairwise_cons

theorem sorted_nil {c : Cfg κ η} : Sorted c ([] : List (Item κ η)) := List.Pairwise.nil

theorem mem_dels (c : Cfg κ η) (hc : Lawful c) (last : Nat) (l r : List (Item κ η))
    (hl : Sorted c l) (hr : Sorted c r) (k : κ) :
    k ∈ (diff c last l r).1 ↔ (c.skip k = false ∧ (∃ y ∈ l, y.id = k) ∧ ¬ ∃ x ∈ r, x.id = k) := by
  have ⟨h1, h2, h3, h4⟩ := hc
  fun_induction diff c last l r <;> simp_all [sorted_cons, sorted_nil] <;> grind

theorem mem_ups (c : Cfg κ η) (hc : Lawful c) (last : Nat) (l r : List (Item κ η))
    (hl : Sorted c l) (hr : Sorted c r) (k : κ) :
    k ∈ (diff c last l r).2 ↔
      (c.skip k = false ∧ ∃ x ∈ r, x.id = k ∧
        ((¬ ∃ y ∈ l, y.id = k) ∨ ∃ y ∈ l, y.id = k ∧ last < x.mod ∧ c.same x.hash y.hash = false)) := by
  have ⟨h1, h2, h3, h4⟩ := hc
  fun_induction diff c last l r
  all_goals (simp only [sorted_cons, sorted_nil, List.mem_cons, List.not_mem_nil] at *)
  all_goals grind

/-! ### sorting -/

theorem mem_insertBy (lt : κ → κ → Bool) (x : Item κ η) (ys : List (Item κ η)) (z : Item κ η) :
    z ∈ insertBy lt x ys ↔ z = x ∨ z ∈ ys := by
  induction ys with
  | nil => simp [insertBy]
  | cons y ys ih => unfold insertBy; split <;> simp_all <;> grind

theorem mem_sortBy (lt : κ → κ → Bool) (xs : List (Item κ η)) (z : Item κ η) :
    z ∈ sortBy lt xs ↔ z ∈ xs := by
  induction xs with
  | nil => simp [sortBy]
  | cons x xs ih => simp [sortBy, mem_insertBy, ih]

/-- non-skipped keys are pairwise distinct (skipped ones — legacy, unmigrated tokens — may repeat) -/
def UniqueKeys (c : Cfg κ η) (xs : List (Item κ η)) : Prop :=
  xs.Pairwise fun a b => a.id ≠ b.id ∨ (c.skip a.id = true ∧ c.skip b.id = true)

theorem insertBy_sorted (c : Cfg κ η) (hc : Lawful c) (x : Item κ η) (ys : List (Item κ η))
    (hy : Sorted c ys) (hx : ∀ y ∈ ys, x.id ≠ y.id ∨ (c.skip x.id = true ∧ c.skip y.id = true)) :
    Sorted c (insertBy c.lt x ys) := by
  have ⟨h1, h2, h3, h4⟩ := hc
  induction ys with
  | nil => simp [insertBy, Sorted]
  | cons y ys ih =>
    unfold insertBy
    split
    · simp only [sorted_cons, List.mem_cons] at *
      grind
    · simp only [sorted_cons, List.mem_cons, mem_insertBy] at *
      grind

theorem sortBy_sorted (c : Cfg κ η) (hc : Lawful c) (xs : List (Item κ η)) (hu : UniqueKeys c xs) :
    Sorted c (sortBy c.lt xs) := by
  induction xs with
  | nil => simp [sortBy, Sorted]
  | cons x xs ih =>
    simp only [sortBy]
    have hu' := List.pairwise_cons.mp hu
    apply insertBy_sorted c hc x _ (ih hu'.2)
    intro y hy
    exact hu'.1 y ((mem_sortBy _ _ _).mp hy)

/-! ### applying the diff -/

theorem valOf_eq_some {xs : List (Item κ η)} {k : κ} {v : Nat} :
    valOf xs k = some v ↔ ∃ x, xs.find? (fun x => x.id = k) = some x ∧ x.val = v := by
  simp [valOf]

theorem find_unique (c : Cfg κ η) (xs : List (Item κ η)) (hu : UniqueKeys c xs) (x : Item κ η)
    (hx : x ∈ xs) (hk : c.skip x.id = false) : xs.find? (fun y => y.id = x.id) = some x := by
  induction xs with
  | nil => simp at hx
  | cons y ys ih =>
    have hu' := List.pairwise_cons.mp hu
    simp only [List.find?_cons]
    by_cases hyx : y.id = x.id
    · simp only [hyx, decide_true]
      rcases List.mem_cons.mp hx with h | h
      · rw [h]
      · have := hu'.1 x h
        grind
    · simp only [hyx, decide_false]
      rcases List.mem_cons.mp hx with h | h
      · grind
      · exact ih hu'.2 h

theorem find_none_iff (xs : List (Item κ η)) (k : κ) :
    xs.find? (fun y => y.id = k) = none ↔ ¬ ∃ x ∈ xs, x.id = k := by
  simp

theorem find_congr_pred {α} (xs : List α) (p q : α → Bool) (h : ∀ x ∈ xs, p x = q x) :
    xs.find? p = xs.find? q := by
  induction xs with
  | nil => rfl
  | cons x xs ih =>
    simp only [List.find?_cons, h x (List.mem_cons_self)]
    rw [ih (fun y hy => h y (List.mem_cons_of_mem _ hy))]

theorem find_filter_none {α} (xs : List α) (p q : α → Bool)
    (h : ∀ x ∈ xs, q x = true → p x = false) : (xs.filter q).find? p = none := by
  simp only [List.find?_eq_none, List.mem_filter]; intro x hx; simp [h x hx.1 hx.2]

theorem find_filter_same {α} (xs : List α) (p q : α → Bool)
    (h : ∀ x ∈ xs, p x = true → q x = true) : (xs.filter q).find? p = xs.find? p := by
  induction xs with
  | nil => rfl
  | cons x xs ih =>
    have ih' := ih (fun y hy => h y (List.mem_cons_of_mem _ hy))
    have hx := h x List.mem_cons_self
    by_cases hq : q x = true
    · rw [List.filter_cons_of_pos hq]; simp only [List.find?_cons]; rw [ih']
    · have hp : p x = false := by
        cases hpx : p x with
        | false => rfl
        | true => exact absurd (hx hpx) hq
      rw [List.filter_cons_of_neg hq, ih']; simp only [List.find?_cons, hp]

theorem valOf_mem (c : Cfg κ η) (xs : List (Item κ η)) (hu : UniqueKeys c xs) (x : Item κ η)
    (hx : x ∈ xs) (hk : c.skip x.id = false) : valOf xs x.id = some x.val := by
  unfold valOf; rw [find_unique c xs hu x hx hk]; rfl

theorem valOf_absent (xs : List (Item κ η)) (k : κ) (h : ¬ ∃ x ∈ xs, x.id = k) : valOf xs k = none := by
  unfold valOf; rw [(find_none_iff xs k).mpr h]; rfl


/-! ### batching -/

theorem batchesGo_flatten {α : Type} (lim : Nat) (size : α → Nat) (cur : List α) (acc : Nat) (xs : List α) :
    (batchesGo lim size cur acc xs).flatten = cur.reverse ++ xs := by
  induction xs generalizing cur acc with
  | nil =>
    unfold batchesGo
    cases cur <;> simp
  | cons x xs ih =>
    unfold batchesGo
    split
    · rw [ih]; simp
    · simp [ih]

/-- batching neither drops, duplicates nor reorders anything -/
theorem batches_flatten {α : Type} (lim : Nat) (size : α → Nat) (xs : List α) :
    (batches lim size xs).flatten = xs := by
  unfold batches; rw [batchesGo_flatten]; simp

theorem batchesGo_nonempty {α : Type} (lim : Nat) (size : α → Nat) (hlim : 0 < lim) (cur : List α) (acc : Nat)
    (xs : List α) (hc : cur = [] → acc = 0) : ∀ b ∈ batchesGo lim size cur acc xs, b ≠ [] := by
  induction xs generalizing cur acc with
  | nil =>
    unfold batchesGo
    cases cur <;> simp
  | cons x xs ih =>
    unfold batchesGo
    split
    · exact ih (x :: cur) _ (by simp)
    · intro b hb
      rcases List.mem_cons.mp hb with h | h
      · subst h
        cases cur with
        | nil => have := hc rfl; omega
        | cons c cs => simp
      · exact ih [x] _ (by simp) b h

theorem batches_nil {α : Type} (lim : Nat) (size : α → Nat) : batches lim size ([] : List α) = [] := by
  simp [batches, batchesGo]

/-! ### executing the writes on the fold-keyed store -/

theorem foldl_execOp_del (fold : κ → κ) (bs : List (List κ)) (s : List (Item κ η)) :
    (bs.map Op.del).foldl (execOp fold) s = bs.flatten.foldl (sdel fold) s := by
  induction bs generalizing s with
  | nil => rfl
  | cons b bs ih => simp [execOp, List.foldl_append, ih]

theorem foldl_execOp_ups (fold : κ → κ) (bs : List (List (Item κ η))) (s : List (Item κ η)) :
    (bs.map Op.ups).foldl (execOp fold) s = bs.flatten.foldl (sups fold) s := by
  induction bs generalizing s with
  | nil => rfl
  | cons b bs ih => simp [execOp, List.foldl_append, ih]

theorem foldl_sdel (fold : κ → κ) (ks : List κ) (s : List (Item κ η)) :
    ks.foldl (sdel fold) s = s.filter (fun x => !(ks.map fold).contains (fold x.id)) := by
  induction ks generalizing s with
  | nil => simp; exact (List.filter_eq_self.mpr (fun _ _ => rfl)).symm
  | cons k ks ih =>
    simp only [List.foldl_cons, ih, sdel, List.filter_filter, List.map_cons]
    apply List.filter_congr
    intro x _
    simp only [List.contains_cons, Bool.not_or]
    cases h1 : (fold x.id == fold k) <;> cases h2 : (List.map fold ks).contains (fold x.id) <;> simp_all [bne]

theorem foldl_sups (fold : κ → κ) (us : List (Item κ η)) (s : List (Item κ η))
    (hU : us.Pairwise fun a b => fold a.id ≠ fold b.id) :
    us.foldl (sups fold) s = s.filter (fun x => !(us.map fun y => fold y.id).contains (fold x.id)) ++ us := by
  induction us generalizing s with
  | nil => simp; exact (List.filter_eq_self.mpr (fun _ _ => rfl)).symm
  | cons u us ih =>
    have hU' := List.pairwise_cons.mp hU
    simp only [List.foldl_cons]
    rw [ih _ hU'.2]
    simp only [sups, List.filter_append, List.filter_filter, List.map_cons, List.append_assoc]
    have hu : ([u].filter fun x => !(us.map fun y => fold y.id).contains (fold x.id)) = [u] := by
      have hc : (us.map fun y => fold y.id).contains (fold u.id) = false := by
        simp only [List.contains_eq_mem, List.mem_map, decide_eq_false_iff_not]
        intro ⟨y, hy, e⟩
        exact hU'.1 y hy e.symm
      simp only [List.filter_cons, List.filter_nil, hc, Bool.not_false, if_true]
    rw [hu]
    simp only [List.cons_append, List.nil_append]
    congr 1
    apply List.filter_congr
    intro x _
    simp only [List.contains_cons, Bool.not_or]
    cases h1 : (fold x.id == fold u.id) <;> cases h2 : (us.map fun y => fold y.id).contains (fold x.id) <;> simp_all [bne]

theorem roundFinal_eq (R : Rnd κ η) (last ridx : Nat) (l r : List (Item κ η)) :
    roundFinal R last ridx l r =
      (roundUps R last ridx l r).foldl (sups R.fold) ((roundDels R last ridx l r).foldl (sdel R.fold) l) := by
  unfold roundFinal roundOps
  rw [List.foldl_append, foldl_execOp_del, foldl_execOp_ups, batches_flatten, batches_flatten]

theorem roundFinalSwapped_eq (R : Rnd κ η) (last ridx : Nat) (l r : List (Item κ η)) :
    roundFinalSwapped R last ridx l r =
      (roundDels R last ridx l r).foldl (sdel R.fold) ((roundUps R last ridx l r).foldl (sups R.fold) l) := by
  unfold roundFinalSwapped
  rw [List.foldl_append, foldl_execOp_del, foldl_execOp_ups, batches_flatten, batches_flatten]

/-! ### fold-unique stores -/

/-- a store table: non-skipped rows have pairwise distinct FOLDED keys (the memdb primary index);
    skipped keys (legacy tokens with an empty accessor) may repeat -/
def FoldUnique (R : Rnd κ η) (xs : List (Item κ η)) : Prop :=
  xs.Pairwise fun a b => R.fold a.id ≠ R.fold b.id ∨ (R.cfg.skip a.id = true ∧ R.cfg.skip b.id = true)

theorem FoldUnique.unique {R : Rnd κ η} {xs : List (Item κ η)} (h : FoldUnique R xs) : UniqueKeys R.cfg xs := by
  unfold FoldUnique at h; unfold UniqueKeys
  apply List.Pairwise.imp _ h
  intro a b hab
  rcases hab with h1 | h2
  · left; intro e; exact h1 (by rw [e])
  · right; exact h2

theorem FoldUnique.inj {R : Rnd κ η} {xs : List (Item κ η)} (h : FoldUnique R xs) :
    ∀ a ∈ xs, ∀ b ∈ xs, R.fold a.id = R.fold b.id → R.cfg.skip a.id = false → a = b := by
  induction xs with
  | nil => intro a ha; simp at ha
  | cons z zs ih =>
    have hz := List.pairwise_cons.mp h
    intro a ha b hb e hs
    rcases List.mem_cons.mp ha with ha | ha <;> rcases List.mem_cons.mp hb with hb | hb
    · rw [ha, hb]
    · rw [ha] at e hs
      rcases hz.1 b hb with h1 | h2
      · exact absurd e h1
      · rw [h2.1] at hs; cases hs
    · rw [hb] at e
      rcases hz.1 a ha with h1 | h2
      · exact absurd e.symm h1
      · rw [h2.2] at hs; cases hs
    · exact ih hz.2 a ha b hb e hs

theorem pairwise_insertBy {Rel : Item κ η → Item κ η → Prop} (hs : ∀ a b, Rel a b → Rel b a)
    (lt : κ → κ → Bool) (x : Item κ η) (ys : List (Item κ η)) (hx : ∀ y ∈ ys, Rel x y)
    (hy : ys.Pairwise Rel) : (insertBy lt x ys).Pairwise Rel := by
  induction ys with
  | nil => simp [insertBy]
  | cons y ys ih =>
    have hy' := List.pairwise_cons.mp hy
    unfold insertBy
    split
    · exact List.pairwise_cons.mpr ⟨hx, hy⟩
    · apply List.pairwise_cons.mpr
      refine ⟨?_, ih (fun z hz => hx z (List.mem_cons_of_mem _ hz)) hy'.2⟩
      intro z hz
      rcases (mem_insertBy lt x ys z).mp hz with h | h
      · subst h; exact hs _ _ (hx y List.mem_cons_self)
      · exact hy'.1 z h

theorem pairwise_sortBy {Rel : Item κ η → Item κ η → Prop} (hs : ∀ a b, Rel a b → Rel b a)
    (lt : κ → κ → Bool) (xs : List (Item κ η)) (h : xs.Pairwise Rel) : (sortBy lt xs).Pairwise Rel := by
  induction xs with
  | nil => simp [sortBy]
  | cons x xs ih =>
    have h' := List.pairwise_cons.mp h
    simp only [sortBy]
    exact pairwise_insertBy hs lt x _ (fun y hy => h'.1 y ((mem_sortBy lt xs y).mp hy)) (ih h'.2)

theorem foldUnique_sortBy {R : Rnd κ η} {xs : List (Item κ η)} (h : FoldUnique R xs) :
    FoldUnique R (sortBy R.cfg.lt xs) := by
  apply pairwise_sortBy _ _ _ h
  intro a b hab
  rcases hab with h1 | h2
  · left; exact fun e => h1 e.symm
  · right; exact ⟨h2.2, h2.1⟩


/-! ### reading the store after the writes -/

theorem valOf_append_left_none (a b : List (Item κ η)) (k : κ) (h : ¬ ∃ x ∈ a, x.id = k) :
    valOf (a ++ b) k = valOf b k := by
  unfold valOf; rw [List.find?_append, (find_none_iff a k).mpr h]; simp

theorem valOf_append_right_none (a b : List (Item κ η)) (k : κ) (h : ¬ ∃ x ∈ b, x.id = k) :
    valOf (a ++ b) k = valOf a k := by
  unfold valOf; rw [List.find?_append, (find_none_iff b k).mpr h]; simp

/-- the store after deleting the keys `d` and then upserting the items `us` -/
def afterWrites (fold : κ → κ) (l : List (Item κ η)) (d : List κ) (us : List (Item κ η)) : List (Item κ η) :=
  us.foldl (sups fold) (d.foldl (sdel fold) l)

theorem afterWrites_form (fold : κ → κ) (l : List (Item κ η)) (d : List κ) (us : List (Item κ η))
    (hU : us.Pairwise fun a b => fold a.id ≠ fold b.id) :
    afterWrites fold l d us =
      ((l.filter fun x => !(d.map fold).contains (fold x.id)).filter
          fun x => !(us.map fun y => fold y.id).contains (fold x.id)) ++ us := by
  unfold afterWrites; rw [foldl_sups _ _ _ hU, foldl_sdel]

theorem mem_afterWrites (fold : κ → κ) (l : List (Item κ η)) (d : List κ) (us : List (Item κ η))
    (hU : us.Pairwise fun a b => fold a.id ≠ fold b.id) (z : Item κ η) :
    z ∈ afterWrites fold l d us ↔
      (z ∈ l ∧ (∀ k ∈ d, fold z.id ≠ fold k) ∧ (∀ u ∈ us, fold z.id ≠ fold u.id)) ∨ z ∈ us := by
  rw [afterWrites_form _ _ _ _ hU]
  simp only [List.mem_append, List.mem_filter, Bool.not_eq_true', List.contains_eq_mem, List.mem_map,
    decide_eq_false_iff_not, not_exists, not_and]
  constructor
  · rintro (⟨⟨h1, h2⟩, h3⟩ | h)
    · left; exact ⟨h1, fun k hk e => h2 k hk e.symm, fun u hu e => h3 u hu e.symm⟩
    · right; exact h
  · rintro (⟨h1, h2, h3⟩ | h)
    · left; exact ⟨⟨h1, fun k hk e => h2 k hk e.symm⟩, fun u hu e => h3 u hu e.symm⟩
    · right; exact h

theorem find_of_foldPairwise (fold : κ → κ) (us : List (Item κ η))
    (hU : us.Pairwise fun a b => fold a.id ≠ fold b.id) (x : Item κ η) (hx : x ∈ us) :
    us.find? (fun y => y.id = x.id) = some x := by
  induction us with
  | nil => simp at hx
  | cons y ys ih =>
    have hU' := List.pairwise_cons.mp hU
    simp only [List.find?_cons]
    by_cases hyx : y.id = x.id
    · simp only [hyx, decide_true]
      rcases List.mem_cons.mp hx with h | h
      · rw [h]
      · exact absurd (by rw [hyx]) (hU'.1 x h)
    · simp only [hyx, decide_false]
      rcases List.mem_cons.mp hx with h | h
      · exact absurd (by rw [h]) hyx
      · exact ih hU'.2 h

/-- an upserted object is what the store then holds under its exact key -/
theorem valOf_afterWrites_ups (fold : κ → κ) (l : List (Item κ η)) (d : List κ) (us : List (Item κ η))
    (hU : us.Pairwise fun a b => fold a.id ≠ fold b.id) (x : Item κ η) (hx : x ∈ us) :
    valOf (afterWrites fold l d us) x.id = some x.val := by
  rw [afterWrites_form _ _ _ _ hU, valOf_append_left_none]
  · unfold valOf; rw [find_of_foldPairwise fold us hU x hx]; rfl
  · rintro ⟨y, hy, e⟩
    simp only [List.mem_filter, Bool.not_eq_true', List.contains_eq_mem, List.mem_map,
      decide_eq_false_iff_not, not_exists, not_and] at hy
    exact hy.2 x hx (by rw [e])

/-- a key that folds onto a deleted key or an upserted one, but is not itself upserted, is gone -/
theorem valOf_afterWrites_gone (fold : κ → κ) (l : List (Item κ η)) (d : List κ) (us : List (Item κ η))
    (hU : us.Pairwise fun a b => fold a.id ≠ fold b.id) (k : κ) (hk : ¬ ∃ u ∈ us, u.id = k)
    (hg : (∃ k' ∈ d, fold k = fold k') ∨ ∃ u ∈ us, fold k = fold u.id) :
    valOf (afterWrites fold l d us) k = none := by
  rw [afterWrites_form _ _ _ _ hU, valOf_append_right_none _ _ _ hk]
  apply valOf_absent
  rintro ⟨y, hy, e⟩
  simp only [List.mem_filter, Bool.not_eq_true', List.contains_eq_mem, List.mem_map,
    decide_eq_false_iff_not, not_exists, not_and] at hy
  rcases hg with ⟨k', hk', e'⟩ | ⟨u, hu, e'⟩
  · exact hy.1.2 k' hk' (by rw [e, e'])
  · exact hy.2 u hu (by rw [e, e'])

/-- any other key keeps its row -/
theorem valOf_afterWrites_kept (fold : κ → κ) (l : List (Item κ η)) (d : List κ) (us : List (Item κ η))
    (hU : us.Pairwise fun a b => fold a.id ≠ fold b.id) (k : κ)
    (hd : ∀ k' ∈ d, fold k ≠ fold k') (hu : ∀ u ∈ us, fold k ≠ fold u.id) :
    valOf (afterWrites fold l d us) k = valOf l k := by
  have hk : ¬ ∃ u ∈ us, u.id = k := by
    rintro ⟨u, hu', e⟩; exact hu u hu' (by rw [e])
  rw [afterWrites_form _ _ _ _ hU, valOf_append_right_none _ _ _ hk]
  unfold valOf
  rw [find_filter_same, find_filter_same]
  · intro x _ hx
    have e : x.id = k := by simpa using hx
    simp only [Bool.not_eq_true', List.contains_eq_mem, List.mem_map, decide_eq_false_iff_not, not_exists, not_and]
    intro k' hk' e'
    exact hd k' hk' (by rw [← e, e'])
  · intro x _ hx
    have e : x.id = k := by simpa using hx
    simp only [Bool.not_eq_true', List.contains_eq_mem, List.mem_map, decide_eq_false_iff_not, not_exists, not_and]
    intro u hu' e'
    exact hu u hu' (by rw [← e, e'])

/-! ### what the round deletes and upserts -/

theorem roundFinal_afterWrites (R : Rnd κ η) (last ridx : Nat) (l r : List (Item κ η)) :
    roundFinal R last ridx l r = afterWrites R.fold l (roundDels R last ridx l r) (roundUps R last ridx l r) :=
  roundFinal_eq R last ridx l r

theorem mem_roundDels (R : Rnd κ η) (hc : Lawful R.cfg) (last ridx : Nat) (l r : List (Item κ η))
    (hl : FoldUnique R l) (hr : FoldUnique R r) (k : κ) :
    k ∈ roundDels R last ridx l r ↔
      (R.cfg.skip k = false ∧ R.noRepl k = false ∧ (∃ y ∈ l, y.id = k) ∧ ¬ ∃ x ∈ r, x.id = k) := by
  have hd := mem_dels R.cfg hc (effLast last ridx) _ _ (sortBy_sorted R.cfg hc l hl.unique)
    (sortBy_sorted R.cfg hc r hr.unique) k
  simp only [mem_sortBy] at hd
  unfold roundDels
  simp only [List.mem_filter, hd, Bool.not_eq_true']
  constructor
  · rintro ⟨⟨a, b, c⟩, d⟩; exact ⟨a, d, b, c⟩
  · rintro ⟨a, d, b, c⟩; exact ⟨⟨a, b, c⟩, d⟩

theorem mem_roundUps (R : Rnd κ η) (last ridx : Nat) (l r : List (Item κ η)) (x : Item κ η) :
    x ∈ roundUps R last ridx l r ↔
      (x ∈ r ∧ R.noRepl x.id = false ∧
        x.id ∈ (diff R.cfg (effLast last ridx) (sortBy R.cfg.lt l) (sortBy R.cfg.lt r)).2) := by
  unfold roundUps
  simp only [List.mem_filter, mem_sortBy, Bool.and_eq_true, List.contains_eq_mem, decide_eq_true_eq,
    Bool.not_eq_true']
  constructor
  · rintro ⟨a, b, c⟩; exact ⟨a, c, b⟩
  · rintro ⟨a, c, b⟩; exact ⟨a, b, c⟩

theorem roundUps_pairwise (R : Rnd κ η) (hc : Lawful R.cfg) (last ridx : Nat) (l r : List (Item κ η))
    (hl : FoldUnique R l) (hr : FoldUnique R r) :
    (roundUps R last ridx l r).Pairwise fun a b => R.fold a.id ≠ R.fold b.id := by
  have hu := fun k => mem_ups R.cfg hc (effLast last ridx) _ _ (sortBy_sorted R.cfg hc l hl.unique)
    (sortBy_sorted R.cfg hc r hr.unique) k
  have hp : (roundUps R last ridx l r).Pairwise
      fun a b => R.fold a.id ≠ R.fold b.id ∨ (R.cfg.skip a.id = true ∧ R.cfg.skip b.id = true) := by
    unfold roundUps
    exact List.Pairwise.filter _ (foldUnique_sortBy hr)
  apply List.Pairwise.imp_of_mem _ hp
  intro a b ha _ hab
  rcases hab with h | h
  · exact h
  · have := ((hu a.id).mp ((mem_roundUps R last ridx l r a).mp ha).2.2).1
    rw [h.1] at this; cases this


/-! ### stale batch reads -/

theorem roundFinalStale_eq (R : Rnd κ η) (guard : Bool) (ov : List (κ × Option (Item κ η))) (cre : κ → Nat)
    (last ridx : Nat) (l r : List (Item κ η)) (hnd : staleDetected R guard ov cre last ridx l r = false) :
    roundFinalStale R guard ov cre last ridx l r =
      afterWrites R.fold l (roundDels R last ridx l r) (roundUpsStale R ov last ridx l r) := by
  unfold roundFinalStale roundOpsStale afterWrites
  simp only [hnd, Bool.false_eq_true, if_false]
  rw [List.foldl_append, foldl_execOp_del, foldl_execOp_ups, batches_flatten, batches_flatten]

theorem roundFinalStale_detected (R : Rnd κ η) (guard : Bool) (ov : List (κ × Option (Item κ η))) (cre : κ → Nat)
    (last ridx : Nat) (l r : List (Item κ η)) (hd : staleDetected R guard ov cre last ridx l r = true) :
    roundOpsStale R guard ov cre last ridx l r = [] ∧ roundFinalStale R guard ov cre last ridx l r = l ∧
      roundRetStale R guard ov cre last ridx l r = none := by
  unfold roundFinalStale roundOpsStale roundRetStale
  simp [hd]

/-! ### rounds under faults -/

theorem sdel_foldUnique (R : Rnd κ η) (s : List (Item κ η)) (k : κ) (h : FoldUnique R s) :
    FoldUnique R (sdel R.fold s k) := List.Pairwise.filter _ h

theorem sups_foldUnique (R : Rnd κ η) (s : List (Item κ η)) (x : Item κ η) (h : FoldUnique R s) :
    FoldUnique R (sups R.fold s x) := by
  unfold sups FoldUnique
  apply List.pairwise_append.mpr
  refine ⟨List.Pairwise.filter _ h, List.pairwise_singleton _ _, ?_⟩
  intro a ha b hb
  simp only [List.mem_singleton] at hb
  subst hb
  simp only [List.mem_filter, bne_iff_ne, ne_eq] at ha
  exact Or.inl ha.2

/-- whatever is applied, the table stays a legal store table -/
theorem execOp_foldUnique (R : Rnd κ η) (s : List (Item κ η)) (o : Op κ η) (h : FoldUnique R s) :
    FoldUnique R (execOp R.fold s o) := by
  cases o with
  | del ks =>
    simp only [execOp]
    induction ks generalizing s with
    | nil => exact h
    | cons k ks ih => exact ih _ (sdel_foldUnique R s k h)
  | ups xs =>
    simp only [execOp]
    induction xs generalizing s with
    | nil => exact h
    | cons x xs ih => exact ih _ (sups_foldUnique R s x h)

/-- the objects an apply may write come from the remote list `r` -/
def OpFrom (r : List (Item κ η)) : Op κ η → Prop
  | .del _ => True
  | .ups xs => ∀ x ∈ xs, x ∈ r

theorem foldl_sdel_rows (fold : κ → κ) (P : Item κ η → Prop) (ks : List κ) (s : List (Item κ η))
    (h : ∀ y ∈ s, P y) : ∀ y ∈ ks.foldl (sdel fold) s, P y := by
  induction ks generalizing s with
  | nil => exact h
  | cons k ks ih =>
    apply ih
    intro y hy
    exact h y (List.mem_filter.mp hy).1

theorem foldl_sups_rows (fold : κ → κ) (P : Item κ η → Prop) (xs : List (Item κ η)) (hx : ∀ x ∈ xs, P x)
    (s : List (Item κ η)) (h : ∀ y ∈ s, P y) : ∀ y ∈ xs.foldl (sups fold) s, P y := by
  induction xs generalizing s with
  | nil => exact h
  | cons x xs ih =>
    apply ih (fun z hz => hx z (List.mem_cons_of_mem _ hz))
    intro y hy
    simp only [sups, List.mem_append, List.mem_filter, List.mem_singleton] at hy
    rcases hy with hy | hy
    · exact h y hy.1
    · rw [hy]; exact hx x List.mem_cons_self

theorem execOp_rows (fold : κ → κ) (P : Item κ η → Prop) (r : List (Item κ η)) (hr : ∀ x ∈ r, P x)
    (s : List (Item κ η)) (o : Op κ η) (ho : OpFrom r o) (h : ∀ y ∈ s, P y) : ∀ y ∈ execOp fold s o, P y := by
  cases o with
  | del ks => exact foldl_sdel_rows fold P ks s h
  | ups xs => exact foldl_sups_rows fold P xs (fun x hx => hr x (ho x hx)) s h

theorem stepOp_store (fold : κ → κ) (F : Fault κ η) (st : St κ η) (o : Op κ η) :
    (stepOp fold F st o).store = st.store ∨ (stepOp fold F st o).store = execOp fold st.store o := by
  unfold stepOp; split
  · left; rfl
  · right; rfl

/-- any property of stores that every apply of the phase preserves survives the phase, whatever is
    rejected and wherever the context is cancelled -/
theorem runPhase_inv (fold : κ → κ) (F : Fault κ η) (ff : Bool) (P : List (Item κ η) → Prop)
    (es : List (Option (Op κ η))) (hP : ∀ s o, some o ∈ es → P s → P (execOp fold s o))
    (st : St κ η) (h : P st.store) : P (runPhase fold F ff es st).store := by
  induction es generalizing st with
  | nil => exact h
  | cons e rest ih =>
    have ihr := ih (fun s o ho => hP s o (List.mem_cons_of_mem _ ho))
    cases e with
    | none => exact ihr st h
    | some o =>
      have h1 : P (stepOp fold F st o).store := by
        rcases stepOp_store fold F st o with e | e <;> rw [e]
        · exact h
        · exact hP _ _ List.mem_cons_self h
      simp only [runPhase]
      split
      · exact h1
      · split
        · exact h1
        · exact ihr _ h1

theorem stepOp_failed_mono (fold : κ → κ) (F : Fault κ η) (st : St κ η) (o : Op κ η) (h : st.failed = true) :
    (stepOp fold F st o).failed = true := by
  unfold stepOp; split <;> simp [h]

theorem stepOp_exited (fold : κ → κ) (F : Fault κ η) (st : St κ η) (o : Op κ η) :
    (stepOp fold F st o).exited = st.exited := by
  unfold stepOp; split <;> rfl

theorem runPhase_mono (fold : κ → κ) (F : Fault κ η) (ff : Bool) (es : List (Option (Op κ η))) (st : St κ η) :
    (st.failed = true → (runPhase fold F ff es st).failed = true) ∧
    (st.exited = true → (runPhase fold F ff es st).exited = true) := by
  induction es generalizing st with
  | nil => exact ⟨id, id⟩
  | cons e rest ih =>
    cases e with
    | none => exact ih st
    | some o =>
      simp only [runPhase]
      have hf := stepOp_failed_mono fold F st o
      have he := stepOp_exited fold F st o
      split
      · exact ⟨hf, fun h => by rw [he]; exact h⟩
      · split
        · exact ⟨fun h => by simp [poll, hf h], fun h => by simp [poll, he, h]⟩
        · have := ih (poll F (stepOp fold F st o))
          exact ⟨fun h => this.1 (by simp [poll, hf h]), fun h => this.2 (by simp [poll, he, h])⟩

/-- a phase that ends neither failed nor exited has applied every one of its writes -/
theorem runPhase_clean (fold : κ → κ) (F : Fault κ η) (ff : Bool) (es : List (Option (Op κ η))) (st : St κ η)
    (hf : (runPhase fold F ff es st).failed = false) (he : (runPhase fold F ff es st).exited = false) :
    (runPhase fold F ff es st).store = (es.filterMap id).foldl (execOp fold) st.store := by
  induction es generalizing st with
  | nil => rfl
  | cons e rest ih =>
    cases e with
    | none => simpa [runPhase] using ih st (by simpa [runPhase] using hf) (by simpa [runPhase] using he)
    | some o =>
      simp only [runPhase] at hf he ⊢
      simp only [List.filterMap_cons, id, List.foldl_cons]
      have hacc : F.rej st.store o = false := by
        cases hr : F.rej st.store o with
        | false => rfl
        | true =>
          have h1 : (stepOp fold F st o).failed = true := by simp [stepOp, hr]
          have h2 : (poll F (stepOp fold F st o)).failed = true := by simp [poll, h1]
          exfalso
          by_cases hc : ((stepOp fold F st o).failed && ff || rest.isEmpty) = true
          · rw [if_pos hc, h1] at hf; cases hf
          · rw [if_neg hc] at hf
            by_cases hx : (poll F (stepOp fold F st o)).exited = true
            · rw [if_pos hx, h2] at hf; cases hf
            · rw [if_neg hx, (runPhase_mono fold F ff rest _).1 h2] at hf; cases hf
      have hs : (stepOp fold F st o).store = execOp fold st.store o := by simp [stepOp, hacc]
      by_cases hc : ((stepOp fold F st o).failed && ff || rest.isEmpty) = true
      · rw [if_pos hc] at hf ⊢
        simp only [Bool.or_eq_true, Bool.and_eq_true, List.isEmpty_iff] at hc
        rcases hc with hc | hc
        · rw [hc.1] at hf; cases hf
        · subst hc; simp [hs]
      · rw [if_neg hc] at hf he ⊢
        by_cases hx : (poll F (stepOp fold F st o)).exited = true
        · rw [if_pos hx, hx] at he; cases he
        · rw [if_neg hx] at hf he ⊢
          rw [ih _ hf he]
          simp [poll, hs]

theorem runPhase_noFault_flags (fold : κ → κ) (ff : Bool) (es : List (Option (Op κ η))) (st : St κ η)
    (hf : st.failed = false) (he : st.exited = false) :
    (runPhase fold noFault ff es st).failed = false ∧ (runPhase fold noFault ff es st).exited = false := by
  induction es generalizing st with
  | nil => exact ⟨hf, he⟩
  | cons e rest ih =>
    cases e with
    | none => simpa [runPhase] using ih st hf he
    | some o =>
      have h1 : stepOp fold (noFault : Fault κ η) st o = { st with store := execOp fold st.store o, tried := st.tried ++ [o] } := by
        simp [stepOp, noFault]
      simp only [runPhase, h1]
      split
      · exact ⟨hf, he⟩
      · split
        · rename_i hx; simp [poll, noFault, he] at hx
        · exact ih _ (by simp [poll, hf]) (by simp [poll, noFault, he])

theorem runPhase_noFault (fold : κ → κ) (ff : Bool) (es : List (Option (Op κ η))) (st : St κ η)
    (hf : st.failed = false) (he : st.exited = false) :
    (runPhase fold noFault ff es st).store = (es.filterMap id).foldl (execOp fold) st.store :=
  runPhase_clean fold noFault ff es st (runPhase_noFault_flags fold ff es st hf he).1
    (runPhase_noFault_flags fold ff es st hf he).2

/-! ### the phases of a round -/

theorem foldl_perItem_dels (fold : κ → κ) (noRepl : κ → Bool) (d : List κ) (s : List (Item κ η)) :
    ((d.map fun k => if noRepl k then none else some (Op.del [k] : Op κ η)).filterMap id).foldl (execOp fold) s =
      (d.filter fun k => !noRepl k).foldl (sdel fold) s := by
  induction d generalizing s with
  | nil => rfl
  | cons k d ih =>
    cases hk : noRepl k <;> simp [hk, execOp] <;> simpa using ih _

theorem foldl_perItem_ups (fold : κ → κ) (noRepl : κ → Bool) (ys : List (Item κ η)) (s : List (Item κ η)) :
    ((ys.map fun x => if noRepl x.id then none else some (Op.ups [x] : Op κ η)).filterMap id).foldl (execOp fold) s =
      (ys.filter fun x => !noRepl x.id).foldl (sups fold) s := by
  induction ys generalizing s with
  | nil => rfl
  | cons y ys ih =>
    cases hk : noRepl y.id <;> simp [hk, execOp] <;> simpa using ih _

theorem filterMap_some_map {α β : Type} (f : α → β) (xs : List α) :
    (xs.map fun b => some (f b)).filterMap id = xs.map f := by
  induction xs with
  | nil => rfl
  | cons x xs ih => simp [ih]

theorem phaseDels_fold (X : RndX κ η) (last ridx : Nat) (l r s : List (Item κ η)) :
    ((phaseDels X last ridx l r).filterMap id).foldl (execOp X.fold) s =
      (roundDels X.toRnd last ridx l r).foldl (sdel X.fold) s := by
  unfold phaseDels
  split
  · rw [foldl_perItem_dels]; rfl
  · rw [filterMap_some_map, foldl_execOp_del, batches_flatten]

theorem phaseUps_fold (X : RndX κ η) (last ridx : Nat) (l r s : List (Item κ η)) :
    ((phaseUps X last ridx l r).filterMap id).foldl (execOp X.fold) s =
      (roundUps X.toRnd last ridx l r).foldl (sups X.fold) s := by
  unfold phaseUps
  split
  · simp only [foldl_perItem_ups, List.filter_filter]
    unfold roundUps
    congr 1
    apply List.filter_congr
    intro x _
    simp [Bool.and_comm]
  · rw [filterMap_some_map, foldl_execOp_ups, batches_flatten]

theorem mem_of_mem_batches {α : Type} (lim : Nat) (size : α → Nat) (xs b : List α) (x : α)
    (hb : b ∈ batches lim size xs) (hx : x ∈ b) : x ∈ xs := by
  rw [← batches_flatten lim size xs]
  exact List.mem_flatten.mpr ⟨b, hb, hx⟩

theorem phaseDels_from (X : RndX κ η) (last ridx : Nat) (l r : List (Item κ η)) (o : Op κ η)
    (h : some o ∈ phaseDels X last ridx l r) : OpFrom r o := by
  unfold phaseDels at h
  split at h
  · simp only [List.mem_map] at h
    obtain ⟨k, _, hk⟩ := h
    split at hk
    · cases hk
    · cases hk; trivial
  · simp only [List.mem_map] at h
    obtain ⟨b, _, hb⟩ := h
    cases hb; trivial

theorem phaseUps_from (X : RndX κ η) (last ridx : Nat) (l r : List (Item κ η)) (o : Op κ η)
    (h : some o ∈ phaseUps X last ridx l r) : OpFrom r o := by
  unfold phaseUps at h
  split at h
  · simp only [List.mem_map, List.mem_filter, mem_sortBy] at h
    obtain ⟨x, ⟨hx, _⟩, hk⟩ := h
    split at hk
    · cases hk
    · cases hk
      intro z hz
      simp only [List.mem_singleton] at hz
      rw [hz]; exact hx
  · simp only [List.mem_map] at h
    obtain ⟨b, hb, e⟩ := h
    cases e
    intro z hz
    exact ((mem_roundUps X.toRnd last ridx l r z).mp (mem_of_mem_batches _ _ _ b z hb hz)).1

/-- a store property that deletions and upserts of remote objects preserve holds after the round,
    whatever was rejected and wherever it was cancelled -/
theorem roundRun_inv (X : RndX κ η) (F : Fault κ η) (last ridx : Nat) (l r : List (Item κ η))
    (P : List (Item κ η) → Prop) (hP : ∀ s o, OpFrom r o → P s → P (execOp X.fold s o)) (h : P l) :
    P (roundRun X F last ridx l r).store := by
  unfold roundRun
  split
  · exact h
  · have h1 := runPhase_inv X.fold F X.failFast P (phaseDels X last ridx l r)
      (fun s o ho => hP s o (phaseDels_from X last ridx l r o ho))
      { store := l, tried := [], nchk := 0, failed := false, exited := false } h
    simp only
    split
    · exact h1
    · exact runPhase_inv X.fold F X.failFast P (phaseUps X last ridx l r)
        (fun s o ho => hP s o (phaseUps_from X last ridx l r o ho)) _ h1

end CV.Repl
