import CV.Repl
set_option linter.unusedSectionVars false
namespace CV.Repl
variable {κ η : Type} [DecidableEq κ]

structure Lawful (c : Cfg κ η) : Prop where
  irrefl : ∀ a, c.lt a a = false
  trans : ∀ a b d, c.lt a b = true → c.lt b d = true → c.lt a d = true
  tri : ∀ a b, c.lt a b = false → c.lt b a = false → a = b
  skip_min : ∀ a b, c.skip a = true → c.skip b = false → c.lt a b = true

/-- key-sorted; skipped keys (which may repeat) come first -/
def Sorted (c : Cfg κ η) (xs : List (Item κ η)) : Prop :=
  xs.Pairwise fun a b => c.lt a.id b.id = true ∨ c.skip a.id = true

theorem sorted_cons {c : Cfg κ η} {x : Item κ η} {xs} :
    Sorted c (x :: xs) ↔ (∀ y ∈ xs, c.lt x.id y.id = true ∨ c.skip x.id = true) ∧ Sorted c xs :=
  List.pairwise_cons

theorem sorted_nil {c : Cfg κ η} : Sorted c ([] : List (Item κ η)) := List.Pairwise.nil

theorem mem_dels (c : Cfg κ η) (hc : Lawful c) (last : Nat) (l r : List (Item κ η))
    (hl : Sorted c l) (hr : Sorted c r) (k : κ) :
    k ∈ (diff c last l r).1 ↔ (c.skip k = false ∧ (∃ y ∈ l, y.id = k) ∧ ¬ ∃ x ∈ r, x.id = k) := by
  have ⟨h1, h2, h3, h4⟩ := hc
  fun_induction diff c last l r <;> simp_all [sorted_cons, sorted_nil] <;> grind

theorem mem_ups (c : Cfg κ η) (hc : Lawful c) (last : Nat) (l r : List (Item κ η))
    (hl : Sorted c l) (hr : Sorted c r) (k : κ) :
    k ∈ (diff c last l r).2 ↔
      (c.skip k = false ∧ ∃ x ∈ r, x.id = k ∧
        ((¬ ∃ y ∈ l, y.id = k) ∨ ∃ y ∈ l, y.id = k ∧ last < x.mod ∧ c.same x.hash y.hash = false)) := by
  have ⟨h1, h2, h3, h4⟩ := hc
  fun_induction diff c last l r
  all_goals (simp only [sorted_cons, sorted_nil, List.mem_cons, List.not_mem_nil] at *)
  all_goals grind

/-! ### sorting -/

theorem mem_insertBy (lt : κ → κ → Bool) (x : Item κ η) (ys : List (Item κ η)) (z : Item κ η) :
    z ∈ insertBy lt x ys ↔ z = x ∨ z ∈ ys := by
  induction ys with
  | nil => simp [insertBy]
  | cons y ys ih => unfold insertBy; split <;> simp_all <;> grind

theorem mem_sortBy (lt : κ → κ → Bool) (xs : List (Item κ η)) (z : Item κ η) :
    z ∈ sortBy lt xs ↔ z ∈ xs := by
  induction xs with
  | nil => simp [sortBy]
  | cons x xs ih => simp [sortBy, mem_insertBy, ih]

/-- non-skipped keys are pairwise distinct (skipped ones — legacy, unmigrated tokens — may repeat) -/
def UniqueKeys (c : Cfg κ η) (xs : List (Item κ η)) : Prop :=
  xs.Pairwise fun a b => a.id ≠ b.id ∨ (c.skip a.id = true ∧ c.skip b.id = true)

theorem insertBy_sorted (c : Cfg κ η) (hc : Lawful c) (x : Item κ η) (ys : List (Item κ η))
    (hy : Sorted c ys) (hx : ∀ y ∈ ys, x.id ≠ y.id ∨ (c.skip x.id = true ∧ c.skip y.id = true)) :
    Sorted c (insertBy c.lt x ys) := by
  have ⟨h1, h2, h3, h4⟩ := hc
  induction ys with
  | nil => simp [insertBy, Sorted]
  | cons y ys ih =>
    unfold insertBy
    split
    · simp only [sorted_cons, List.mem_cons] at *
      grind
    · simp only [sorted_cons, List.mem_cons, mem_insertBy] at *
      grind

theorem sortBy_sorted (c : Cfg κ η) (hc : Lawful c) (xs : List (Item κ η)) (hu : UniqueKeys c xs) :
    Sorted c (sortBy c.lt xs) := by
  induction xs with
  | nil => simp [sortBy, Sorted]
  | cons x xs ih =>
    simp only [sortBy]
    have hu' := List.pairwise_cons.mp hu
    apply insertBy_sorted c hc x _ (ih hu'.2)
    intro y hy
    exact hu'.1 y ((mem_sortBy _ _ _).mp hy)

/-! ### applying the diff -/

theorem valOf_eq_some {xs : List (Item κ η)} {k : κ} {v : Nat} :
    valOf xs k = some v ↔ ∃ x, xs.find? (fun x => x.id = k) = some x ∧ x.val = v := by
  simp [valOf]

theorem find_unique (c : Cfg κ η) (xs : List (Item κ η)) (hu : UniqueKeys c xs) (x : Item κ η)
    (hx : x ∈ xs) (hk : c.skip x.id = false) : xs.find? (fun y => y.id = x.id) = some x := by
  induction xs with
  | nil => simp at hx
  | cons y ys ih =>
    have hu' := List.pairwise_cons.mp hu
    simp only [List.find?_cons]
    by_cases hyx : y.id = x.id
    · simp only [hyx, decide_true]
      rcases List.mem_cons.mp hx with h | h
      · rw [h]
      · have := hu'.1 x h
        grind
    · simp only [hyx, decide_false]
      rcases List.mem_cons.mp hx with h | h
      · grind
      · exact ih hu'.2 h

theorem find_none_iff (xs : List (Item κ η)) (k : κ) :
    xs.find? (fun y => y.id = k) = none ↔ ¬ ∃ x ∈ xs, x.id = k := by
  simp

theorem find_congr_pred {α} (xs : List α) (p q : α → Bool) (h : ∀ x ∈ xs, p x = q x) :
    xs.find? p = xs.find? q := by
  induction xs with
  | nil => rfl
  | cons x xs ih =>
    simp only [List.find?_cons, h x (List.mem_cons_self)]
    rw [ih (fun y hy => h y (List.mem_cons_of_mem _ hy))]

theorem find_filter_none {α} (xs : List α) (p q : α → Bool)
    (h : ∀ x ∈ xs, q x = true → p x = false) : (xs.filter q).find? p = none := by
  simp only [List.find?_eq_none, List.mem_filter]; intro x hx; simp [h x hx.1 hx.2]

theorem find_filter_same {α} (xs : List α) (p q : α → Bool)
    (h : ∀ x ∈ xs, p x = true → q x = true) : (xs.filter q).find? p = xs.find? p := by
  induction xs with
  | nil => rfl
  | cons x xs ih =>
    have ih' := ih (fun y hy => h y (List.mem_cons_of_mem _ hy))
    have hx := h x List.mem_cons_self
    by_cases hq : q x = true
    · rw [List.filter_cons_of_pos hq]; simp only [List.find?_cons]; rw [ih']
    · have hp : p x = false := by
        cases hpx : p x with
        | false => rfl
        | true => exact absurd (hx hpx) hq
      rw [List.filter_cons_of_neg hq, ih']; simp only [List.find?_cons, hp]

theorem valOf_applyDiff (l r : List (Item κ η)) (d u : List κ) (k : κ) :
    valOf (applyDiff l d u r) k =
      if k ∈ u then valOf r k else if k ∈ d then none else valOf l k := by
  unfold valOf applyDiff
  rw [List.find?_append]
  by_cases hu : k ∈ u
  · simp only [hu, if_true]
    rw [find_filter_none l _ _ (by intro x _; grind), find_filter_same r _ _ (by intro x _; grind)]
    simp
  · simp only [hu, if_false]
    rw [find_filter_none r _ _ (by intro x _; grind)]
    by_cases hd : k ∈ d
    · simp only [hd, if_true]
      rw [find_filter_none l _ _ (by intro x _; grind)]; rfl
    · simp only [hd, if_false]
      rw [find_filter_same l _ _ (by intro x _; grind)]; simp

theorem valOf_mem (c : Cfg κ η) (xs : List (Item κ η)) (hu : UniqueKeys c xs) (x : Item κ η)
    (hx : x ∈ xs) (hk : c.skip x.id = false) : valOf xs x.id = some x.val := by
  unfold valOf; rw [find_unique c xs hu x hx hk]; rfl

theorem valOf_absent (xs : List (Item κ η)) (k : κ) (h : ¬ ∃ x ∈ xs, x.id = k) : valOf xs k = none := by
  unfold valOf; rw [(find_none_iff xs k).mpr h]; rfl

end CV.Repl
