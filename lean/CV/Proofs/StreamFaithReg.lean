/-
Helper lemmas for C11, catalog side: a service registration on an unchanged node is `Faithful`
unless it makes a connect-native instance non-native under the same name.
-/
import CV.Proofs.StreamFaithSvc
namespace CV.Stream

/-- the unfaithful shape D1: a connect-native instance is re-registered, under the same name, as a
    non-native one (no deregistration is published on the Connect topic) -/
def LeavesNative (c : Cat) (node : String) (s : Svc) : Prop :=
  ∃ b, findSvc c node s.sid = some b ∧ b.kind = .native ∧ b.name = s.name ∧ s.kind ≠ .native

theorem find?_map_replace (l : List Svc) (s : Svc) (i : Id) :
    (l.map fun t => if t.node = s.node ∧ t.sid = s.sid then s else t).find? (fun t => t.node = i.1 ∧ t.sid = i.2) =
      (l.find? (fun t => t.node = i.1 ∧ t.sid = i.2)).map (fun t => if t.node = s.node ∧ t.sid = s.sid then s else t) := by
  induction l with
  | nil => rfl
  | cons a r ih =>
    rw [List.map_cons, List.find?_cons, List.find?_cons, ih]
    by_cases ha : a.node = s.node ∧ a.sid = s.sid
    · rw [if_pos ha]
      by_cases hi : a.node = i.1 ∧ a.sid = i.2
      · have h1 : decide (s.node = i.1 ∧ s.sid = i.2) = true := by
          rw [decide_eq_true_iff]; exact ⟨ha.1.symm.trans hi.1, ha.2.symm.trans hi.2⟩
        have h2 : decide (a.node = i.1 ∧ a.sid = i.2) = true := by rw [decide_eq_true_iff]; exact hi
        rw [h1, h2]
        simp only [Option.map, if_pos ha]
      · have h1 : decide (s.node = i.1 ∧ s.sid = i.2) = false := by
          rw [decide_eq_false_iff_not]; exact fun e => hi ⟨ha.1.trans e.1, ha.2.trans e.2⟩
        have h2 : decide (a.node = i.1 ∧ a.sid = i.2) = false := by rw [decide_eq_false_iff_not]; exact hi
        rw [h1, h2]
    · rw [if_neg ha]
      cases hd : decide (a.node = i.1 ∧ a.sid = i.2) with
      | true => simp only [Option.map, if_neg ha]
      | false => rfl

theorem find?_putSvc (l : List Svc) (s : Svc) (i : Id) :
    (putSvc l s).find? (fun t => t.node = i.1 ∧ t.sid = i.2) =
      if i = s.key then some s else l.find? (fun t => t.node = i.1 ∧ t.sid = i.2) := by
  unfold putSvc
  cases hf : l.find? (fun t => t.node = s.node ∧ t.sid = s.sid) with
  | some b =>
    simp only
    rw [find?_map_replace]
    have hb := List.find?_some hf
    simp only [decide_eq_true_eq] at hb
    by_cases hi : i = s.key
    · rw [if_pos hi]
      have hi1 : i.1 = s.node := by rw [hi]; rfl
      have hi2 : i.2 = s.sid := by rw [hi]; rfl
      simp only [hi1, hi2]
      rw [hf]
      simp only [Option.map, if_pos hb]
    · rw [if_neg hi]
      cases hg : l.find? (fun t => t.node = i.1 ∧ t.sid = i.2) with
      | none => rfl
      | some t =>
        have ht := List.find?_some hg
        simp only [decide_eq_true_eq] at ht
        have hne : ¬ (t.node = s.node ∧ t.sid = s.sid) := by
          intro e; apply hi
          obtain ⟨i1, i2⟩ := i
          simp only [Svc.key, Prod.mk.injEq]
          exact ⟨ht.1.symm.trans e.1, ht.2.symm.trans e.2⟩
        simp only [Option.map, if_neg hne]
  | none =>
    simp only
    rw [List.find?_append]
    by_cases hi : i = s.key
    · rw [if_pos hi]
      have hi1 : i.1 = s.node := by rw [hi]; rfl
      have hi2 : i.2 = s.sid := by rw [hi]; rfl
      simp only [hi1, hi2]
      rw [hf]
      simp
    · rw [if_neg hi]
      have : decide (s.node = i.1 ∧ s.sid = i.2) = false := by
        rw [decide_eq_false_iff_not]
        intro e; apply hi
        obtain ⟨i1, i2⟩ := i
        simp only [Svc.key, Prod.mk.injEq]
        exact ⟨e.1.symm, e.2.symm⟩
      simp only [List.find?_cons, this, List.find?_nil]
      cases l.find? (fun t => t.node = i.1 ∧ t.sid = i.2) <;> rfl

theorem connectCopy_topic {l : List Ev} {x : Ev} (h : x ∈ l.flatMap connectCopy) : x.key.topic = .connect := by
  obtain ⟨e, -, hx⟩ := List.mem_flatMap.mp h
  unfold connectCopy at hx
  split at hx <;> simp_all [ckey]

/-- the events of a changed service registration on an unchanged node -/
def regPre (c : Cat) (s : Svc) : Option Svc → List Ev
  | none => []
  | some b =>
      (if b.name ≠ s.name then [deregEv c b] else []) ++
      (match b.kind with
       | .proxy d => if d ≠ destOf s.kind then [(⟨ckey d, true, b.key, (render c b).2⟩ : Ev)] else []
       | _ => [])

theorem applyWrite_reg_same_node (idx : Nat) (c : Cat) (node : String) (addr : Nat) (s : Svc)
    (hnode : lookup? node c.nodes = some addr) (hch : findSvc c node s.sid ≠ some s) :
    applyWrite idx c (.reg node addr (some s)) =
      (regCat idx c s,
       (regPre c s (findSvc c node s.sid) ++ [regEv (regCat idx c s) s]) ++
         (regPre c s (findSvc c node s.sid) ++ [regEv (regCat idx c s) s]).flatMap connectCopy, []) := by
  simp only [applyWrite, hnode, ne_eq, not_true_eq_false, ↓reduceIte, Option.bind_some, hch, not_false_eq_true,
    List.nil_append, regCat]
  cases hf : findSvc c node s.sid with
  | none => simp [regPre]
  | some b => cases hk : b.kind <;> simp [regPre, hk, List.flatMap_append, List.append_assoc]

theorem applyWrite_reg_nochange (idx : Nat) (c : Cat) (node : String) (addr : Nat) (s : Svc)
    (hnode : lookup? node c.nodes = some addr) (hch : findSvc c node s.sid = some s) :
    applyWrite idx c (.reg node addr (some s)) = (c, [], []) := by
  simp [applyWrite, hnode, hch]

theorem deregEv_eq (c : Cat) (b : Svc) : deregEv c b = ⟨hkey b.name, true, b.key, val c b⟩ := rfl
theorem regEv_eq (c : Cat) (b : Svc) : regEv c b = ⟨hkey b.name, false, b.key, val c b⟩ := rfl

theorem mem_regPre {c : Cat} {s b : Svc} {x : Ev} :
    x ∈ regPre c s (some b) ↔
      (b.name ≠ s.name ∧ x = ⟨hkey b.name, true, b.key, val c b⟩) ∨
      (∃ d, b.kind = .proxy d ∧ d ≠ destOf s.kind ∧ x = ⟨ckey d, true, b.key, val c b⟩) := by
  unfold regPre
  rw [List.mem_append]
  constructor
  · rintro (h | h)
    · by_cases hn : b.name = s.name
      · simp [hn] at h
      · simp only [ne_eq, hn, not_false_eq_true, ↓reduceIte, List.mem_singleton] at h
        exact Or.inl ⟨hn, h⟩
    · cases hk : b.kind with
      | proxy d =>
        rw [hk] at h
        simp only at h
        by_cases hd : d = destOf s.kind
        · simp [hd] at h
        · simp only [ne_eq, hd, not_false_eq_true, ↓reduceIte, List.mem_singleton] at h
          exact Or.inr ⟨d, rfl, hd, h⟩
      | typical => rw [hk] at h; simp at h
      | native => rw [hk] at h; simp at h
  · rintro (⟨hn, rfl⟩ | ⟨d, hk, hd, rfl⟩)
    · left; simp [hn, deregEv_eq]
    · right; rw [hk]; simp [hd, val]

theorem mem_copies_regPre {c : Cat} {s b : Svc} {x : Ev} :
    x ∈ (regPre c s (some b)).flatMap connectCopy ↔
      b.name ≠ s.name ∧ ∃ n, connSubj b = some n ∧ x = ⟨ckey n, true, b.key, val c b⟩ := by
  rw [List.mem_flatMap]
  constructor
  · rintro ⟨e, he, hx⟩
    rcases mem_regPre.mp he with ⟨hn, rfl⟩ | ⟨d, hk, hd, rfl⟩
    · rw [connectCopy_of] at hx
      cases hcs : connSubj b with
      | none => rw [hcs] at hx; cases hx
      | some n =>
        rw [hcs] at hx
        simp only [List.mem_singleton] at hx
        exact ⟨hn, n, rfl, hx⟩
    · simp [connectCopy, ckey] at hx
  · rintro ⟨hn, n, hcs, rfl⟩
    refine ⟨⟨hkey b.name, true, b.key, val c b⟩, mem_regPre.mpr (Or.inl ⟨hn, rfl⟩), ?_⟩
    rw [connectCopy_of, hcs]
    simp

theorem regCat_val (idx : Nat) (c : Cat) (s t : Svc) : val (regCat idx c s) t = val c t := rfl

theorem cell_regCat (k : Key) (idx : Nat) (c : Cat) (s : Svc) (i : Id) :
    cell k (regCat idx c s) i = if i = s.key then (if belongs k s then some (val c s) else none) else cell k c i := by
  unfold cell findSvc
  show Option.map (val (regCat idx c s)) (Option.filter (belongs k) ((putSvc c.svcs s).find? _)) = _
  rw [find?_putSvc]
  by_cases hi : i = s.key
  · simp only [hi, ↓reduceIte, Option.filter]
    split <;> rfl
  · simp only [hi, ↓reduceIte]
    rfl

theorem faithful_reg_svc {c : Cat} (h : WF c) (idx : Nat) (node : String) (addr : Nat) (s : Svc)
    (hn : s.node = node) (hnode : lookup? node c.nodes = some addr) (hd1 : ¬ LeavesNative c node s)
    (hdest : ∀ b d, findSvc c node s.sid = some b → b.kind = .proxy d → d ≠ "") :
    Faithful c idx (.reg node addr (some s)) := by
  by_cases hch : findSvc c node s.sid = some s
  · intro k
    rw [applyWrite_reg_nochange idx c node addr s hnode hch]
    exact ViewEq.refl _
  · have hbkey : ∀ b, findSvc c node s.sid = some b → b.key = s.key := by
      intro b hb
      obtain ⟨-, h1, h2⟩ := findSvc_some hb
      simp only [Svc.key, Prod.mk.injEq]
      exact ⟨h1.trans hn.symm, h2⟩
    -- description of the event list
    have hid : ∀ x ∈ regPre c s (findSvc c node s.sid), x.id = s.key ∧ x.del = true ∧ x.key.topic ≠ .cfg := by
      intro x hx
      cases hb : findSvc c node s.sid with
      | none => rw [hb] at hx; cases hx
      | some b =>
        rw [hb] at hx
        rcases mem_regPre.mp hx with ⟨-, rfl⟩ | ⟨d, -, -, rfl⟩
        · exact ⟨hbkey b hb, rfl, by simp [hkey]⟩
        · exact ⟨hbkey b hb, rfl, by simp [ckey]⟩
    have hcid : ∀ x ∈ (regPre c s (findSvc c node s.sid)).flatMap connectCopy, x.id = s.key ∧ x.del = true := by
      intro x hx
      cases hb : findSvc c node s.sid with
      | none => rw [hb] at hx; cases hx
      | some b =>
        rw [hb] at hx
        obtain ⟨-, n, -, rfl⟩ := mem_copies_regPre.mp hx
        exact ⟨hbkey b hb, rfl⟩
    apply faithful_of_cells h
    · rw [applyWrite_reg_same_node idx c node addr s hnode hch]; rfl
    · rw [applyWrite_reg_same_node idx c node addr s hnode hch]
      intro e he
      simp only at he
      rcases List.mem_append.mp he with he | he
      · rcases List.mem_append.mp he with he | he
        · exact (hid e he).2.2
        · simp only [List.mem_singleton] at he; subst he; simp [regEv_eq, hkey]
      · rw [connectCopy_topic he]; simp
    · intro k hk i
      rw [applyWrite_reg_same_node idx c node addr s hnode hch]
      simp only
      rw [cell_regCat, regEv_eq, regCat_val]
      change _ = effK k i _ _
      by_cases hi : i = s.key
      · subst hi
        simp only [↓reduceIte]
        have hb := belongs_iff k hk s
        by_cases hbel : belongs k s = true
        · simp only [hbel, ↓reduceIte]
          rcases hb.mp hbel with rfl | ⟨n, hcs, rfl⟩
          · -- health topic of the new name: the registration is the last event with that key
            rw [List.append_assoc, List.singleton_append]
            rw [effK_last (e := ⟨hkey s.name, false, s.key, val c s⟩) rfl rfl]
            · rfl
            · intro x hx hxk
              have := connectCopy_topic hx
              rw [hxk.1] at this
              simp [hkey] at this
          · -- connect topic of the new subject: the copy of the registration is the very last event
            rw [List.flatMap_append, List.flatMap_singleton, connectCopy_of, hcs, ← List.append_assoc]
            rw [effK_last (e := ⟨ckey n, false, s.key, val c s⟩) (b := []) rfl rfl (by intro x hx; cases hx)]
            rfl
        · have hbf : belongs k s = false := by simpa using hbel
          simp only [hbf, Bool.false_eq_true, ↓reduceIte]
          symm
          apply effK_deleted
          · intro x hx hxk _
            rcases List.mem_append.mp hx with hx | hx
            · rcases List.mem_append.mp hx with hx | hx
              · exact (hid x hx).2.1
              · simp only [List.mem_singleton] at hx
                subst hx
                exact absurd (hb.mpr (Or.inl hxk.symm)) hbel
            · rw [List.flatMap_append, List.flatMap_singleton, connectCopy_of] at hx
              rcases List.mem_append.mp hx with hx | hx
              · exact (hcid x hx).2
              · cases hcs : connSubj s with
                | none => rw [hcs] at hx; cases hx
                | some n =>
                  rw [hcs] at hx
                  simp only [List.mem_singleton] at hx
                  subst hx
                  exact absurd (hb.mpr (Or.inr ⟨n, hcs, hxk.symm⟩)) hbel
          · -- either the cell was empty before, or an event for it exists
            have hcell : cell k c s.key = ((findSvc c node s.sid).filter (belongs k)).map (val c) := by
              unfold cell; simp only [Svc.key]; rw [hn]
            rw [hcell]
            cases hbf' : findSvc c node s.sid with
            | none => left; rfl
            | some b =>
              by_cases hbb : belongs k b = true
              · right
                have hbk := hbkey b hbf'
                rcases (belongs_iff k hk b).mp hbb with rfl | ⟨n, hcs, rfl⟩
                · have hne : b.name ≠ s.name := by
                    intro e; apply hbel; exact hb.mpr (Or.inl (by rw [e]))
                  refine ⟨⟨hkey b.name, true, b.key, val c b⟩, ?_, rfl, hbk⟩
                  apply List.mem_append_left; apply List.mem_append_left
                  exact mem_regPre.mpr (Or.inl ⟨hne, rfl⟩)
                · cases hkind : b.kind with
                  | typical => simp [connSubj, hkind] at hcs
                  | native =>
                    have hnn : n = b.name := by simp [connSubj, hkind] at hcs; exact hcs.symm
                    subst hnn
                    by_cases hne : b.name = s.name
                    · exfalso
                      have hsn : s.kind = .native := by
                        apply Classical.byContradiction
                        intro hs
                        exact hd1 ⟨b, hbf', hkind, hne, hs⟩
                      apply hbel
                      exact hb.mpr (Or.inr ⟨b.name, by simp [connSubj, hsn, hne], rfl⟩)
                    · refine ⟨⟨ckey b.name, true, b.key, val c b⟩, ?_, rfl, hbk⟩
                      apply List.mem_append_right
                      rw [List.flatMap_append]
                      apply List.mem_append_left
                      exact mem_copies_regPre.mpr ⟨hne, b.name, hcs, rfl⟩
                  | proxy d =>
                    have hnn : n = d := by simp [connSubj, hkind] at hcs; exact hcs.symm
                    subst hnn
                    have hdd : n ≠ destOf s.kind := by
                      intro e
                      apply hbel
                      cases hsk : s.kind with
                      | typical => rw [hsk] at e; simp only [destOf] at e; exact absurd e (hdest b n hbf' hkind)
                      | native => rw [hsk] at e; simp only [destOf] at e; exact absurd e (hdest b n hbf' hkind)
                      | proxy d' =>
                        rw [hsk] at e; simp only [destOf] at e
                        exact hb.mpr (Or.inr ⟨n, by simp [connSubj, hsk, e], rfl⟩)
                    refine ⟨⟨ckey n, true, b.key, val c b⟩, ?_, rfl, hbk⟩
                    apply List.mem_append_left; apply List.mem_append_left
                    exact mem_regPre.mpr (Or.inr ⟨n, hkind, hdd, rfl⟩)
              · left
                have : belongs k b = false := by simpa using hbb
                simp [Option.filter, this]
      · simp only [hi, ↓reduceIte]
        symm
        apply effK_none
        intro x hx hxk
        apply hi
        rw [← hxk.2]
        rcases List.mem_append.mp hx with hx | hx
        · rcases List.mem_append.mp hx with hx | hx
          · exact (hid x hx).1
          · simp only [List.mem_singleton] at hx; subst hx; rfl
        · rw [List.flatMap_append, List.flatMap_singleton, connectCopy_of] at hx
          rcases List.mem_append.mp hx with hx | hx
          · exact (hcid x hx).1
          · cases hcs : connSubj s with
            | none => rw [hcs] at hx; cases hx
            | some n =>
              rw [hcs] at hx
              simp only [List.mem_singleton] at hx
              subst hx; rfl

/-! ### first registration of a node (with or without a service) -/

theorem nodeAddr_upsert_ne {c : Cat} {node n : String} {addr : Nat} (h : n ≠ node) (nodes' : List (String × Nat))
    (hn : nodes' = upsert node addr c.nodes) {c' : Cat} (hc : c'.nodes = nodes') : nodeAddr c' n = nodeAddr c n := by
  unfold nodeAddr
  rw [hc, hn, lookup?_upsert]
  simp [h]

theorem svcsOnNode_nil_iff {c : Cat} {node : String} (h : svcsOnNode c node = []) : ∀ t ∈ c.svcs, t.node ≠ node := by
  intro t ht e
  have : t ∈ svcsOnNode c node := List.mem_filter.mpr ⟨ht, by simpa using e⟩
  rw [h] at this
  cases this

theorem faithful_reg_node_fresh {c : Cat} (idx : Nat) (node : String) (addr : Nat)
    (hfresh : svcsOnNode c node = []) : Faithful c idx (.reg node addr none) := by
  intro k
  have hno := svcsOnNode_nil_iff hfresh
  by_cases hch : lookup? node c.nodes = some addr
  · have : applyWrite idx c (.reg node addr none) = (c, [], []) := by simp [applyWrite, hch]
    rw [this]; exact ViewEq.refl _
  · have hon : svcsOnNode (setNode idx c node addr) node = [] := hfresh
    have hall : applyWrite idx c (.reg node addr none) = (setNode idx c node addr, [], []) := by
      simp [applyWrite, hch, hon]
    rw [hall]
    simp only [evsFor, List.filter_nil, applyEvs_nil]
    obtain ⟨t, sj⟩ := k
    have hsvc : ∀ kk : Key, (c.svcs.filter (belongs kk)).map (render (setNode idx c node addr)) =
        (c.svcs.filter (belongs kk)).map (render c) := by
      intro kk
      apply List.map_congr_left
      intro x hx
      have hxn := hno x (List.mem_filter.mp hx).1
      simp only [render, Prod.mk.injEq, Val.mk.injEq, true_and, and_true]
      exact nodeAddr_upsert_ne hxn _ rfl rfl
    cases t <;> cases sj <;> simp only [query, setNode] <;> first | (rw [← hsvc]; exact ViewEq.refl _) | exact ViewEq.refl _

theorem findSvc_none_of_fresh {c : Cat} {node : String} (hfresh : svcsOnNode c node = []) (sid : String) :
    findSvc c node sid = none := by
  unfold findSvc
  rw [List.find?_eq_none]
  intro t ht hp
  simp only [decide_eq_true_eq] at hp
  exact svcsOnNode_nil_iff hfresh t ht hp.1

theorem applyWrite_reg_fresh (idx : Nat) (c : Cat) (node : String) (addr : Nat) (s : Svc) (hn : s.node = node)
    (hfresh : svcsOnNode c node = []) (hch : lookup? node c.nodes ≠ some addr) :
    applyWrite idx c (.reg node addr (some s)) =
      (regCat idx (setNode idx c node addr) s,
       [regEv (regCat idx (setNode idx c node addr) s) s] ++
         [regEv (regCat idx (setNode idx c node addr) s) s].flatMap connectCopy, []) := by
  have hb : findSvc c node s.sid = none := findSvc_none_of_fresh hfresh s.sid
  have hput : putSvc c.svcs s = c.svcs ++ [s] := by
    unfold putSvc
    have : c.svcs.find? (fun t => t.node = s.node ∧ t.sid = s.sid) = none := by
      rw [hn]; exact hb
    rw [this]
  have hon : svcsOnNode (regCat idx (setNode idx c node addr) s) node = [s] := by
    show (putSvc c.svcs s).filter (fun t => t.node = node) = [s]
    rw [hput, List.filter_append]
    have : c.svcs.filter (fun t => t.node = node) = [] := hfresh
    rw [this]
    simp [hn]
  simp only [applyWrite, ne_eq, hch, not_false_eq_true, ↓reduceIte, Option.bind_some, hb, reduceCtorEq]
  simp [hon]

theorem effK_cons_last {k : Key} {i : Id} {b : List Ev} {e : Ev} {d : Option Val}
    (hk : e.key = k) (hi : e.id = i) (hb : ∀ x ∈ b, ¬ (x.key = k ∧ x.id = i)) :
    effK k i (e :: b) d = if e.del then none else some e.val :=
  effK_last (a := []) hk hi hb

theorem effK_pair_last {k : Key} {i : Id} {e0 e : Ev} {d : Option Val} (hk : e.key = k) (hi : e.id = i) :
    effK k i ([e0] ++ [e]) d = if e.del then none else some e.val :=
  effK_last (a := [e0]) (b := []) hk hi (by intro x hx; cases hx)

theorem faithful_reg_fresh {c : Cat} (h : WF c) (idx : Nat) (node : String) (addr : Nat) (s : Svc) (hn : s.node = node)
    (hfresh : svcsOnNode c node = []) (hch : lookup? node c.nodes ≠ some addr) :
    Faithful c idx (.reg node addr (some s)) := by
  have hno := svcsOnNode_nil_iff hfresh
  have hb : findSvc c node s.sid = none := findSvc_none_of_fresh hfresh s.sid
  have hall := applyWrite_reg_fresh idx c node addr s hn hfresh hch
  apply faithful_of_cells h
  · rw [hall]; rfl
  · rw [hall]
    intro e he
    simp only at he
    rcases List.mem_append.mp he with he | he
    · simp only [List.mem_singleton] at he; subst he; simp [regEv_eq, hkey]
    · rw [connectCopy_topic he]; simp
  · intro k hk i
    rw [hall]
    simp only
    have hcell2 : cell k (regCat idx (setNode idx c node addr) s) i =
        if i = s.key then (if belongs k s then some (val (regCat idx (setNode idx c node addr) s) s) else none)
        else cell k c i := by
      unfold cell findSvc
      show Option.map (val (regCat idx (setNode idx c node addr) s)) (Option.filter (belongs k) ((putSvc c.svcs s).find? _)) = _
      rw [find?_putSvc]
      by_cases hi : i = s.key
      · simp only [hi, ↓reduceIte, Option.filter]
        split <;> rfl
      · simp only [hi, ↓reduceIte]
        cases hf : c.svcs.find? (fun t => t.node = i.1 ∧ t.sid = i.2) with
        | none => rfl
        | some t =>
          have htm := List.mem_of_find?_eq_some hf
          have htn := hno t htm
          simp only [Option.filter]
          split
          · simp only [Option.map, val, render, Option.some.injEq, Val.mk.injEq, true_and, and_true]
            exact nodeAddr_upsert_ne htn _ rfl rfl
          · rfl
    rw [hcell2, regEv_eq]
    change _ = effK k i _ _
    rw [List.flatMap_singleton, connectCopy_of]
    by_cases hi : i = s.key
    · subst hi
      simp only [↓reduceIte]
      have hbi := belongs_iff k hk s
      by_cases hbel : belongs k s = true
      · simp only [hbel, ↓reduceIte]
        rcases hbi.mp hbel with rfl | ⟨n, hcs, rfl⟩
        · rw [List.singleton_append,
            effK_cons_last (e := ⟨hkey s.name, false, s.key, val (regCat idx (setNode idx c node addr) s) s⟩) rfl rfl]
          · rfl
          · intro x hx hxk
            cases hcs : connSubj s with
            | none => rw [hcs] at hx; cases hx
            | some n =>
              rw [hcs] at hx
              simp only [List.mem_singleton] at hx
              subst hx
              simp [hkey, ckey] at hxk
        · rw [hcs]
          dsimp only
          rw [effK_pair_last (e := ⟨ckey n, false, s.key, val (regCat idx (setNode idx c node addr) s) s⟩) rfl rfl]
          rfl
      · have hbf : belongs k s = false := by simpa using hbel
        simp only [hbf, Bool.false_eq_true, ↓reduceIte]
        symm
        apply effK_deleted
        · intro x hx hxk _
          exfalso
          rcases List.mem_append.mp hx with hx | hx
          · simp only [List.mem_singleton] at hx
            subst hx
            exact hbel (hbi.mpr (Or.inl hxk.symm))
          · cases hcs : connSubj s with
            | none => rw [hcs] at hx; cases hx
            | some n =>
              rw [hcs] at hx
              simp only [List.mem_singleton] at hx
              subst hx
              exact hbel (hbi.mpr (Or.inr ⟨n, hcs, hxk.symm⟩))
        · left
          unfold cell
          simp only [Svc.key]
          rw [hn, hb]
          rfl
    · simp only [hi, ↓reduceIte]
      symm
      apply effK_none
      intro x hx hxk
      apply hi
      rw [← hxk.2]
      rcases List.mem_append.mp hx with hx | hx
      · simp only [List.mem_singleton] at hx; subst hx; rfl
      · cases hcs : connSubj s with
        | none => rw [hcs] at hx; cases hx
        | some n =>
          rw [hcs] at hx
          simp only [List.mem_singleton] at hx
          subst hx; rfl

end CV.Stream
