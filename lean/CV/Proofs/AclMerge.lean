/-
Helper lemmas for C08, part 1: `takesPrecedenceOver` as an order on ranks, and what the merge
context holds for a slot after any number of policies have been merged into it.
-/
import CV.Acl
namespace CV.Acl

/-! ### ranks -/

/-- deny > write > list > read -/
def Access.rank : Access → Nat
  | .deny => 4 | .write => 3 | .list => 2 | .read => 1

/-- the rank of a policy string; strings that are not a level rank lowest -/
def PStr.rank : PStr → Nat
  | .lvl a => a.rank
  | _ => 0

theorem Access.rank_inj {a b : Access} (h : a.rank = b.rank) : a = b := by
  cases a <;> cases b <;> simp [Access.rank] at h <;> rfl

theorem Access.rank_pos (a : Access) : 0 < a.rank := by cases a <;> simp [Access.rank]

theorem takesPrecedenceOver_iff (a b : PStr) :
    takesPrecedenceOver a b = true ↔ a.rank ≠ 0 ∧ b.rank ≤ a.rank := by
  cases a with
  | empty => cases b with
    | lvl y => cases y <;> simp [takesPrecedenceOver, PStr.rank]
    | _ => simp [takesPrecedenceOver, PStr.rank]
  | bad => cases b with
    | lvl y => cases y <;> simp [takesPrecedenceOver, PStr.rank]
    | _ => simp [takesPrecedenceOver, PStr.rank]
  | lvl x => cases b with
    | lvl y => cases x <;> cases y <;> simp [takesPrecedenceOver, PStr.rank, Access.rank]
    | _ => cases x <;> simp [takesPrecedenceOver, PStr.rank, Access.rank]

theorem mergeScalar_cases (c n : PStr) : mergeScalar c n = c ∨ mergeScalar c n = n := by
  unfold mergeScalar; split <;> simp

theorem mergeScalar_rank (c n : PStr) : (mergeScalar c n).rank = max c.rank n.rank := by
  unfold mergeScalar
  by_cases h : takesPrecedenceOver n c = true
  · rw [if_pos h]; have := (takesPrecedenceOver_iff n c).mp h; omega
  · rw [if_neg h]
    have : ¬ (n.rank ≠ 0 ∧ c.rank ≤ n.rank) := fun hh => h ((takesPrecedenceOver_iff n c).mpr hh)
    omega

/-- a policy string is *clean* when it is a level or empty — everything `Validate` lets through -/
def PStr.clean (p : PStr) : Prop := p ≠ .bad

theorem PStr.eq_of_rank {a b : PStr} (ha : a.clean) (hb : b.clean) (h : a.rank = b.rank) : a = b := by
  cases a with
  | bad => exact absurd rfl ha
  | empty => cases b with
    | bad => exact absurd rfl hb
    | empty => rfl
    | lvl y => have := y.rank_pos; simp [PStr.rank] at h; omega
  | lvl x => cases b with
    | bad => exact absurd rfl hb
    | empty => have := x.rank_pos; simp [PStr.rank] at h; omega
    | lvl y => simp [PStr.rank] at h; rw [Access.rank_inj h]

theorem PStr.level_eq_some {p : PStr} {a : Access} : p.level = some a ↔ p = .lvl a := by
  cases p <;> simp [PStr.level]

/-! ### slots of the merge context -/

/-- rule `r` belongs to the slot (kind, exact/prefix, name) -/
def inSlot (k : Kind) (pfx : Bool) (n : Bytes) (r : Rule) : Bool := r.kind = k && r.pfx = pfx && r.name = n

theorem inSlot_iff {k pfx n} {r : Rule} : inSlot k pfx n r = true ↔ r.kind = k ∧ r.pfx = pfx ∧ r.name = n := by
  simp [inSlot, and_assoc]

theorem sameSlot_iff {a b : Rule} : sameSlot a b = true ↔ a.kind = b.kind ∧ a.pfx = b.pfx ∧ a.name = b.name := by
  simp [sameSlot, and_assoc]

theorem inSlot_of_sameSlot {k pfx n} {a b : Rule} (h : sameSlot a b = true) : inSlot k pfx n a = inSlot k pfx n b := by
  have := sameSlot_iff.mp h
  simp [inSlot, this.1, this.2.1, this.2.2]

def findSlot (ctx : List Rule) (k : Kind) (pfx : Bool) (n : Bytes) : Option Rule := ctx.find? (inSlot k pfx n)

/-- the context never holds two rules for the same slot -/
def NodupSlots (ctx : List Rule) : Prop := ctx.Pairwise fun a b => sameSlot a b = false

theorem combine_sameSlot {e r : Rule} (h : sameSlot e r = true) : sameSlot (combine e r) e = true := by
  have := sameSlot_iff.mp h
  unfold combine
  split
  · exact sameSlot_iff.mpr ⟨rfl, rfl, rfl⟩
  · split
    · exact sameSlot_iff.mpr ⟨this.1.symm, this.2.1.symm, this.2.2.symm⟩
    · exact sameSlot_iff.mpr ⟨rfl, rfl, rfl⟩

theorem sameSlot_trans_false {a b c : Rule} (hab : sameSlot a b = true) (hbc : sameSlot b c = false) :
    sameSlot a c = false := by
  have h1 := sameSlot_iff.mp hab
  cases h : sameSlot a c with
  | false => rfl
  | true =>
    have h2 := sameSlot_iff.mp h
    have : sameSlot b c = true := sameSlot_iff.mpr ⟨h1.1 ▸ h2.1, h1.2.1 ▸ h2.2.1, h1.2.2 ▸ h2.2.2⟩
    rw [this] at hbc; cases hbc

theorem mergeRule_slots (r : Rule) (ctx : List Rule) (x : Rule) (hx : x ∈ mergeRule r ctx) :
    sameSlot x r = true ∨ ∃ e ∈ ctx, sameSlot x e = true := by
  induction ctx with
  | nil =>
    simp only [mergeRule, List.mem_singleton] at hx
    subst hx; left; exact sameSlot_iff.mpr ⟨rfl, rfl, rfl⟩
  | cons e es ih =>
    simp only [mergeRule] at hx
    split at hx
    · rename_i hs
      rcases List.mem_cons.mp hx with rfl | hx
      · right; exact ⟨e, List.mem_cons_self, combine_sameSlot hs⟩
      · right; exact ⟨x, List.mem_cons_of_mem _ hx, sameSlot_iff.mpr ⟨rfl, rfl, rfl⟩⟩
    · rcases List.mem_cons.mp hx with rfl | hx
      · right; exact ⟨x, List.mem_cons_self, sameSlot_iff.mpr ⟨rfl, rfl, rfl⟩⟩
      · rcases ih hx with h | ⟨e', he', h⟩
        · left; exact h
        · right; exact ⟨e', List.mem_cons_of_mem _ he', h⟩

theorem sameSlot_symm {a b : Rule} : sameSlot a b = sameSlot b a := by
  cases h : sameSlot b a with
  | true => have := sameSlot_iff.mp h; exact sameSlot_iff.mpr ⟨this.1.symm, this.2.1.symm, this.2.2.symm⟩
  | false =>
    cases h' : sameSlot a b with
    | false => rfl
    | true =>
      have := sameSlot_iff.mp h'
      rw [sameSlot_iff.mpr ⟨this.1.symm, this.2.1.symm, this.2.2.symm⟩] at h; cases h

theorem mergeRule_nodup (r : Rule) (ctx : List Rule) (h : NodupSlots ctx) : NodupSlots (mergeRule r ctx) := by
  induction ctx with
  | nil => simp [mergeRule, NodupSlots]
  | cons e es ih =>
    have ⟨he, hes⟩ := List.pairwise_cons.mp h
    simp only [mergeRule]
    split
    · rename_i hs
      apply List.pairwise_cons.mpr ⟨?_, hes⟩
      intro b hb
      exact sameSlot_trans_false (combine_sameSlot hs) (he b hb)
    · rename_i hs
      apply List.pairwise_cons.mpr ⟨?_, ih hes⟩
      intro b hb
      rcases mergeRule_slots r es b hb with hb | ⟨e', he', hb⟩
      · cases hh : sameSlot e b with
        | false => rfl
        | true =>
          have h1 := sameSlot_iff.mp hh
          have h2 := sameSlot_iff.mp hb
          exact absurd (sameSlot_iff.mpr ⟨h1.1.trans h2.1, h1.2.1.trans h2.2.1, h1.2.2.trans h2.2.2⟩) hs
      · have := he e' he'
        rw [sameSlot_symm] at hb
        cases hh : sameSlot e b with
        | false => rfl
        | true =>
          have h1 := sameSlot_iff.mp hh
          have h2 := sameSlot_iff.mp hb
          rw [sameSlot_iff.mpr ⟨h1.1.trans h2.1.symm, h1.2.1.trans h2.2.1.symm, h1.2.2.trans h2.2.2.symm⟩] at this
          cases this

theorem fold_mergeRule_nodup (rs ctx : List Rule) (h : NodupSlots ctx) :
    NodupSlots (rs.foldl (fun c r => mergeRule r c) ctx) := by
  induction rs generalizing ctx with
  | nil => exact h
  | cons r rs ih => exact ih _ (mergeRule_nodup r ctx h)

/-- what one `mergeRule` does to the slot (k, pfx, n) -/
theorem findSlot_mergeRule (r : Rule) (ctx : List Rule) (k : Kind) (pfx : Bool) (n : Bytes) :
    findSlot (mergeRule r ctx) k pfx n =
      if inSlot k pfx n r then
        some (match findSlot ctx k pfx n with | none => r | some e => combine e r)
      else findSlot ctx k pfx n := by
  induction ctx with
  | nil =>
    simp only [mergeRule, findSlot, List.find?_cons, List.find?_nil]
    cases inSlot k pfx n r <;> simp
  | cons e es ih =>
    simp only [mergeRule]
    by_cases hs : sameSlot e r = true
    · rw [if_pos hs]
      have hc : inSlot k pfx n (combine e r) = inSlot k pfx n e := inSlot_of_sameSlot (combine_sameSlot hs)
      have he : inSlot k pfx n e = inSlot k pfx n r := inSlot_of_sameSlot hs
      simp only [findSlot, List.find?_cons, hc, he]
      cases inSlot k pfx n r <;> simp
    · rw [if_neg hs]
      simp only [findSlot, List.find?_cons] at ih ⊢
      cases hie : inSlot k pfx n e with
      | false => simp only [ih]
      | true =>
        have hir : inSlot k pfx n r = false := by
          cases hir : inSlot k pfx n r with
          | false => rfl
          | true =>
            have h1 := inSlot_iff.mp hie
            have h2 := inSlot_iff.mp hir
            exact absurd (sameSlot_iff.mpr ⟨h1.1.trans h2.1.symm, h1.2.1.trans h2.2.1.symm, h1.2.2.trans h2.2.2.symm⟩) hs
        simp [hir]

/-- the slot (k, pfx, n) after merging the rules `rs` one after the other -/
def accRule (k : Kind) (pfx : Bool) (n : Bytes) : Option Rule → List Rule → Option Rule
  | acc, [] => acc
  | acc, r :: rs =>
    accRule k pfx n
      (if inSlot k pfx n r then some (match acc with | none => r | some e => combine e r) else acc) rs

theorem findSlot_fold (rs ctx : List Rule) (k : Kind) (pfx : Bool) (n : Bytes) :
    findSlot (rs.foldl (fun c r => mergeRule r c) ctx) k pfx n = accRule k pfx n (findSlot ctx k pfx n) rs := by
  induction rs generalizing ctx with
  | nil => rfl
  | cons r rs ih =>
    simp only [List.foldl_cons, accRule]
    rw [ih, findSlot_mergeRule]

theorem combine_pol (e r : Rule) : (combine e r).pol = mergeScalar e.pol r.pol := by
  unfold combine mergeScalar
  split
  · rfl
  · split <;> simp_all

theorem combine_intent_service (e r : Rule) (h : r.kind = .service) :
    (combine e r).intent = mergeScalar e.intent r.intent := by
  unfold combine mergeScalar; simp [h]

theorem combine_cases_of_not_service (e r : Rule) (h : r.kind ≠ .service) : combine e r = e ∨ combine e r = r := by
  unfold combine; simp only [h, if_false]; split <;> simp

theorem combine_inSlot {k pfx n} {e r : Rule} (he : inSlot k pfx n e = true) (hr : inSlot k pfx n r = true) :
    inSlot k pfx n (combine e r) = true := by
  have h1 := inSlot_iff.mp he
  have h2 := inSlot_iff.mp hr
  rw [inSlot_of_sameSlot (combine_sameSlot (sameSlot_iff.mpr ⟨h1.1.trans h2.1.symm, h1.2.1.trans h2.2.1.symm, h1.2.2.trans h2.2.2.symm⟩))]
  exact he

/-- Everything the fold guarantees about a slot, relative to a starting accumulator. -/
structure SlotOut (k : Kind) (pfx : Bool) (n : Bytes) (acc : Option Rule) (rs : List Rule) (m : Rule) : Prop where
  slot : inSlot k pfx n m = true
  polFrom : (∃ e, acc = some e ∧ m.pol = e.pol) ∨ ∃ r ∈ rs, inSlot k pfx n r = true ∧ m.pol = r.pol
  polAcc : ∀ e, acc = some e → e.pol.rank ≤ m.pol.rank
  polMax : ∀ r ∈ rs, inSlot k pfx n r = true → r.pol.rank ≤ m.pol.rank
  intFrom : (∃ e, acc = some e ∧ m.intent = e.intent) ∨ ∃ r ∈ rs, inSlot k pfx n r = true ∧ m.intent = r.intent
  intAcc : k = .service → ∀ e, acc = some e → e.intent.rank ≤ m.intent.rank
  intMax : k = .service → ∀ r ∈ rs, inSlot k pfx n r = true → r.intent.rank ≤ m.intent.rank

theorem accRule_none {k pfx n} (rs : List Rule) :
    accRule k pfx n none rs = none ↔ ∀ r ∈ rs, inSlot k pfx n r = false := by
  have gen : ∀ (rs : List Rule) (acc : Option Rule),
      accRule k pfx n acc rs = none ↔ acc = none ∧ ∀ r ∈ rs, inSlot k pfx n r = false := by
    intro rs
    induction rs with
    | nil => intro acc; simp [accRule]
    | cons r rs ih =>
      intro acc
      simp only [accRule, ih, List.mem_cons, forall_eq_or_imp]
      cases hr : inSlot k pfx n r <;> simp
  simpa using gen rs none

theorem accRule_spec {k pfx n} (rs : List Rule) (acc : Option Rule)
    (hacc : ∀ e, acc = some e → inSlot k pfx n e = true) (m : Rule)
    (h : accRule k pfx n acc rs = some m) : SlotOut k pfx n acc rs m := by
  induction rs generalizing acc with
  | nil =>
    simp only [accRule] at h
    subst h
    exact ⟨hacc m rfl, .inl ⟨m, rfl, rfl⟩, fun e he => (by cases he; exact Nat.le_refl _),
      fun r hr => (by cases hr), .inl ⟨m, rfl, rfl⟩, fun _ e he => (by cases he; exact Nat.le_refl _),
      fun _ r hr => (by cases hr)⟩
  | cons r rs ih =>
    simp only [accRule] at h
    by_cases hr : inSlot k pfx n r = true
    · rw [if_pos hr] at h
      have hk : r.kind = k := (inSlot_iff.mp hr).1
      cases acc with
      | none =>
        have o := ih (some r) (fun e he => by cases he; exact hr) h
        refine ⟨o.slot, ?_, fun e he => (by cases he), ?_, ?_, fun _ e he => (by cases he), ?_⟩
        · rcases o.polFrom with ⟨e, he, hp⟩ | ⟨r', hr', hs, hp⟩
          · cases he; exact .inr ⟨r, List.mem_cons_self, hr, hp⟩
          · exact .inr ⟨r', List.mem_cons_of_mem _ hr', hs, hp⟩
        · intro r' hr' hs
          rcases List.mem_cons.mp hr' with rfl | hr'
          · exact o.polAcc _ rfl
          · exact o.polMax r' hr' hs
        · rcases o.intFrom with ⟨e, he, hp⟩ | ⟨r', hr', hs, hp⟩
          · cases he; exact .inr ⟨r, List.mem_cons_self, hr, hp⟩
          · exact .inr ⟨r', List.mem_cons_of_mem _ hr', hs, hp⟩
        · intro hsv r' hr' hs
          rcases List.mem_cons.mp hr' with rfl | hr'
          · exact o.intAcc hsv _ rfl
          · exact o.intMax hsv r' hr' hs
      | some e =>
        have hes := hacc e rfl
        have o := ih (some (combine e r)) (fun x hx => by cases hx; exact combine_inSlot hes hr) h
        have hp := combine_pol e r
        have hrk := mergeScalar_rank e.pol r.pol
        refine ⟨o.slot, ?_, ?_, ?_, ?_, ?_, ?_⟩
        · rcases o.polFrom with ⟨x, hx, hxp⟩ | ⟨r', hr', hs, hxp⟩
          · cases hx
            rcases mergeScalar_cases e.pol r.pol with hc | hc
            · exact .inl ⟨e, rfl, by rw [hxp, hp, hc]⟩
            · exact .inr ⟨r, List.mem_cons_self, hr, by rw [hxp, hp, hc]⟩
          · exact .inr ⟨r', List.mem_cons_of_mem _ hr', hs, hxp⟩
        · intro x hx; cases hx
          have := o.polAcc _ rfl
          rw [hp, hrk] at this; omega
        · intro r' hr' hs
          rcases List.mem_cons.mp hr' with rfl | hr'
          · have := o.polAcc _ rfl
            rw [hp, hrk] at this; omega
          · exact o.polMax r' hr' hs
        · by_cases hsv : r.kind = .service
          · have hi := combine_intent_service e r hsv
            rcases o.intFrom with ⟨x, hx, hxp⟩ | ⟨r', hr', hs, hxp⟩
            · cases hx
              rcases mergeScalar_cases e.intent r.intent with hc | hc
              · exact .inl ⟨e, rfl, by rw [hxp, hi, hc]⟩
              · exact .inr ⟨r, List.mem_cons_self, hr, by rw [hxp, hi, hc]⟩
            · exact .inr ⟨r', List.mem_cons_of_mem _ hr', hs, hxp⟩
          · rcases o.intFrom with ⟨x, hx, hxp⟩ | ⟨r', hr', hs, hxp⟩
            · cases hx
              rcases combine_cases_of_not_service e r hsv with hc | hc
              · exact .inl ⟨e, rfl, by rw [hxp, hc]⟩
              · exact .inr ⟨r, List.mem_cons_self, hr, by rw [hxp, hc]⟩
            · exact .inr ⟨r', List.mem_cons_of_mem _ hr', hs, hxp⟩
        · intro hsv x hx; cases hx
          have hi := combine_intent_service e r (hk.trans hsv)
          have := o.intAcc hsv _ rfl
          rw [hi, mergeScalar_rank] at this; omega
        · intro hsv r' hr' hs
          have hi := combine_intent_service e r (hk.trans hsv)
          rcases List.mem_cons.mp hr' with rfl | hr'
          · have := o.intAcc hsv _ rfl
            rw [hi, mergeScalar_rank] at this; omega
          · exact o.intMax hsv r' hr' hs
    · have hr' : inSlot k pfx n r = false := by cases h' : inSlot k pfx n r <;> simp_all
      rw [if_neg hr] at h
      have o := ih acc hacc h
      refine ⟨o.slot, ?_, o.polAcc, ?_, ?_, o.intAcc, ?_⟩
      · rcases o.polFrom with h1 | ⟨x, hx, hs, hp⟩
        · exact .inl h1
        · exact .inr ⟨x, List.mem_cons_of_mem _ hx, hs, hp⟩
      · intro x hx hs
        rcases List.mem_cons.mp hx with rfl | hx
        · rw [hr'] at hs; cases hs
        · exact o.polMax x hx hs
      · rcases o.intFrom with h1 | ⟨x, hx, hs, hp⟩
        · exact .inl h1
        · exact .inr ⟨x, List.mem_cons_of_mem _ hx, hs, hp⟩
      · intro hsv x hx hs
        rcases List.mem_cons.mp hx with rfl | hx
        · rw [hr'] at hs; cases hs
        · exact o.intMax hsv x hx hs

/-! ### `MergePolicies` as one fold over all rules -/

/-- every rule of every policy, in merge order -/
def allRules (ps : List Policy) : List Rule := ps.flatMap (·.rules)

theorem foldl_mergePolicy_rules (ps : List Policy) (ctx : Policy) :
    (ps.foldl mergePolicy ctx).rules = (allRules ps).foldl (fun c r => mergeRule r c) ctx.rules := by
  induction ps generalizing ctx with
  | nil => rfl
  | cons p ps ih =>
    simp only [List.foldl_cons, allRules, List.flatMap_cons, List.foldl_append]
    rw [ih]; rfl

theorem mergePolicies_rules (ps : List Policy) :
    (mergePolicies ps).rules = (allRules ps).foldl (fun c r => mergeRule r c) [] :=
  foldl_mergePolicy_rules ps Policy.nil

theorem mergePolicies_nodup (ps : List Policy) : NodupSlots (mergePolicies ps).rules := by
  rw [mergePolicies_rules]; exact fold_mergeRule_nodup _ _ List.Pairwise.nil

/-- a scalar rule after merging: the fold of `mergeScalar` over the policies -/
theorem foldl_mergePolicy_scalar (g : Policy → PStr)
    (hg : ∀ c p, g (mergePolicy c p) = mergeScalar (g c) (g p)) (ps : List Policy) (ctx : Policy) :
    g (ps.foldl mergePolicy ctx) = ps.foldl (fun c p => mergeScalar c (g p)) (g ctx) := by
  induction ps generalizing ctx with
  | nil => rfl
  | cons p ps ih => simp only [List.foldl_cons]; rw [ih, hg]

theorem foldl_mergeScalar_spec (g : Policy → PStr) (ps : List Policy) (c : PStr) :
    let m := ps.foldl (fun c p => mergeScalar c (g p)) c
    (m = c ∨ ∃ p ∈ ps, m = g p) ∧ c.rank ≤ m.rank ∧ ∀ p ∈ ps, (g p).rank ≤ m.rank := by
  induction ps generalizing c with
  | nil => simp
  | cons p ps ih =>
    simp only [List.foldl_cons]
    have ⟨h1, h2, h3⟩ := ih (mergeScalar c (g p))
    have hr := mergeScalar_rank c (g p)
    refine ⟨?_, by omega, ?_⟩
    · rcases h1 with h1 | ⟨q, hq, h1⟩
      · rcases mergeScalar_cases c (g p) with hc | hc
        · left; rw [h1, hc]
        · right; exact ⟨p, List.mem_cons_self, by rw [h1, hc]⟩
      · right; exact ⟨q, List.mem_cons_of_mem _ hq, h1⟩
    · intro q hq
      rcases List.mem_cons.mp hq with rfl | hq
      · omega
      · exact h3 q hq

end CV.Acl
