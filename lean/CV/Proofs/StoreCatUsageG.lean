/-
Usage counters, generic part (round 2): the weighted change-set lemma (for a table with one row per key, the sum
over the commit hook's change set of weight(after) − weight(before) is the growth of the table's total weight),
the value a transaction's delta map holds for one target id, and `writeUsageDeltas` for a target id none of the
other ids collides with after lower-casing.
-/
import CV.Proofs.StoreCatUsage
namespace CV.Store
open CV

/-! ### weighted change sets -/

section Weighted
variable {α κ : Type} [DecidableEq α] [DecidableEq κ]

def optW (w : α → Int) : Option α → Int
  | some x => w x
  | none => 0

/-- Σ over the change set of weight(after) − weight(before) -/
def wSum (w : α → Int) : List (Option α × Option α) → Int
  | [] => 0
  | ch :: rest => optW w ch.2 - optW w ch.1 + wSum w rest

def listSum (w : α → Int) : List α → Int
  | [] => 0
  | x :: xs => w x + listSum w xs

theorem wSum_append (w : α → Int) (a b : List (Option α × Option α)) : wSum w (a ++ b) = wSum w a + wSum w b := by
  induction a with
  | nil => simp [wSum]
  | cons x xs ih => simp only [List.cons_append, wSum, ih]; omega

/-- the change of one row of the old table -/
def delG (key : α → κ) (post : List α) (a : α) : Option (Option α × Option α) :=
  match tfind key (key a) post with
  | none => some (some a, none)
  | some b => if a = b then none else some (some a, some b)

def creG (key : α → κ) (pre : List α) (b : α) : Option (Option α × Option α) :=
  match tfind key (key b) pre with
  | none => some (none, some b)
  | some _ => none

theorem changesOf_eqG (key : α → κ) (pre post : List α) :
    changesOf key pre post = pre.filterMap (delG key post) ++ post.filterMap (creG key pre) := rfl

theorem tfind_cons_ne {key : α → κ} {k : κ} {a : α} {l : List α} (h : key a ≠ k) : tfind key k (a :: l) = tfind key k l := by
  unfold tfind
  rw [List.find?_cons_of_neg (by simpa using h)]

theorem tfind_cons_eq {key : α → κ} {a : α} {l : List α} : tfind key (key a) (a :: l) = some a := by
  unfold tfind; simp

theorem filterMap_congr' {β γ : Type} {f g : β → Option γ} : ∀ {l : List β}, (∀ x ∈ l, f x = g x) → l.filterMap f = l.filterMap g := by
  intro l
  induction l with
  | nil => intro _; rfl
  | cons x xs ih =>
    intro h
    simp only [List.filterMap_cons, h x List.mem_cons_self, ih (fun y hy => h y (List.mem_cons_of_mem _ hy))]

/-- created rows: erasing the key of an old row from the new table changes nothing once that old row is dropped -/
theorem creG_erase (key : α → κ) (a : α) (pre' : List α) : ∀ (post : List α),
    post.filterMap (creG key (a :: pre')) = (terase key (key a) post).filterMap (creG key pre') := by
  intro post
  induction post with
  | nil => rfl
  | cons b rest ih =>
    unfold terase at ih ⊢
    simp only [List.filterMap_cons, List.filter_cons]
    by_cases hk : key b = key a
    · have : creG key (a :: pre') b = none := by
        unfold creG; rw [hk, tfind_cons_eq]
      simp only [this, hk, bne_self_eq_false, Bool.false_eq_true, if_false]
      exact ih
    · have hne : (key b != key a) = true := by simpa using hk
      have : creG key (a :: pre') b = creG key pre' b := by
        unfold creG; rw [tfind_cons_ne (fun h => hk h.symm)]
      simp only [this, hne, if_true, List.filterMap_cons]
      rw [ih]

theorem listSum_erase (key : α → κ) (w : α → Int) (k : κ) : ∀ (post : List α), (post.map key).Nodup →
    listSum w post = optW w (tfind key k post) + listSum w (terase key k post) := by
  intro post
  induction post with
  | nil => intro _; simp [listSum, tfind, terase, optW]
  | cons b rest ih =>
    intro hn
    simp only [List.map_cons, List.nodup_cons] at hn
    by_cases hk : key b = k
    · subst hk
      have hnone : tfind key (key b) rest = none := by
        unfold tfind; rw [List.find?_eq_none]
        intro x hx; simp only [beq_iff_eq]; intro hxe
        exact hn.1 (List.mem_map.mpr ⟨x, hx, hxe⟩)
      rw [tfind_cons_eq]
      have : terase key (key b) (b :: rest) = terase key (key b) rest := by
        unfold terase; simp
      rw [this, terase_of_tfind_none hnone]
      simp [listSum, optW]
    · rw [tfind_cons_ne hk]
      have : terase key k (b :: rest) = b :: terase key k rest := by
        unfold terase; simp [hk]
      rw [this]
      simp only [listSum]
      rw [ih hn.2]; omega

/-- **weighted creations minus deletions = growth of the total weight**, for tables with one row per key -/
theorem wSum_changesOf (key : α → κ) (w : α → Int) : ∀ (pre post : List α), (pre.map key).Nodup → (post.map key).Nodup →
    wSum w (changesOf key pre post) = listSum w post - listSum w pre := by
  intro pre
  induction pre with
  | nil =>
    intro post _ _
    rw [changesOf_eqG]
    simp only [List.filterMap_nil, List.nil_append, listSum]
    have key' : ∀ (l : List α), wSum w (l.filterMap (creG key [])) = listSum w l - 0 := by
      intro l
      induction l with
      | nil => simp [wSum, listSum]
      | cons b rest ih =>
        have : creG key ([] : List α) b = some (none, some b) := by unfold creG; simp [tfind]
        simp only [List.filterMap_cons, this, wSum, optW, listSum]
        rw [ih]; omega
    exact key' post
  | cons a pre' ih =>
    intro post hpre hpost
    simp only [List.map_cons, List.nodup_cons] at hpre
    have hpost' : ((terase key (key a) post).map key).Nodup :=
      List.Nodup.sublist (List.Sublist.map _ (by unfold terase; exact List.filter_sublist)) hpost
    have hih := ih (terase key (key a) post) hpre.2 hpost'
    rw [changesOf_eqG] at hih ⊢
    rw [wSum_append] at hih ⊢
    rw [creG_erase]
    -- the rest of the old table sees the same new rows with or without the erased key
    have hdel : pre'.filterMap (delG key post) = pre'.filterMap (delG key (terase key (key a) post)) := by
      apply filterMap_congr'
      intro a' ha'
      have hne : key a' ≠ key a := fun h => hpre.1 (List.mem_map.mpr ⟨a', ha', h⟩)
      unfold delG
      rw [tfind_terase_ne _ _ _ hne]
    simp only [List.filterMap_cons]
    rw [listSum_erase key w (key a) post hpost]
    simp only [listSum]
    cases hf : delG key post a with
    | none =>
      -- found an identical row
      unfold delG at hf
      cases hq : tfind key (key a) post with
      | none => rw [hq] at hf; simp at hf
      | some b =>
        rw [hq] at hf
        simp only at hf
        have hab : a = b := by
          by_cases h : a = b
          · exact h
          · simp [h] at hf
        rw [hdel]
        simp only [optW, ← hab]
        omega
    | some ch =>
      unfold delG at hf
      cases hq : tfind key (key a) post with
      | none =>
        rw [hq] at hf
        simp only [Option.some.injEq] at hf
        subst hf
        rw [hdel]
        simp only [wSum, optW]
        omega
      | some b =>
        rw [hq] at hf
        simp only at hf
        by_cases h : a = b
        · simp [h] at hf
        · simp only [h, if_false, Option.some.injEq] at hf
          subst hf
          rw [hdel]
          simp only [wSum, optW]
          omega

end Weighted

/-! ### the value of the delta map at one id -/

def dval (d : Deltas) (c : String) : Int := (deltaGet d c).getD 0

theorem dval_nil (c : String) : dval [] c = 0 := rfl

theorem dval_addDelta (d : Deltas) (id c : String) (n : Int) :
    dval (addDelta d id n) c = dval d c + (if id = c then n else 0) := by
  unfold dval
  by_cases h : id = c
  · subst h; rw [deltaGet_addDelta_self]; simp
  · rw [deltaGet_addDelta_ne _ _ h]; simp [h]


/-- a delta-map transformer that only adds to entries: its effect on one id is independent of the input map -/
def Additive (f : Deltas → Deltas) : Prop := ∀ d c, dval (f d) c = dval d c + dval (f []) c

theorem additive_id : Additive id := fun d c => by simp [dval_nil]

theorem additive_add (id : String) (n : Int) : Additive (fun d => addDelta d id n) := by
  intro d c
  simp only [dval_addDelta, dval_nil]; omega

theorem Additive.comp {f g : Deltas → Deltas} (hf : Additive f) (hg : Additive g) : Additive (fun d => g (f d)) := by
  intro d c
  rw [hg (f d) c, hf d c, hg (f []) c]; omega

theorem Additive.ite {p : Prop} [Decidable p] {f g : Deltas → Deltas} (hf : Additive f) (hg : Additive g) :
    Additive (fun d => if p then f d else g d) := by
  intro d c
  split
  · exact hf d c
  · exact hg d c

theorem additive_countDeltas {α : Type} (idf : α → String) : ∀ (chs : List (Option α × Option α)),
    Additive (fun d => countDeltas idf d chs) := by
  intro chs
  induction chs with
  | nil => exact additive_id
  | cons ch rest ih =>
    obtain ⟨b, a⟩ := ch
    cases a with
    | some a' => simp only [countDeltas]; exact (additive_add _ _).comp ih
    | none =>
      cases b with
      | some b' => simp only [countDeltas]; exact (additive_add _ _).comp ih
      | none => simp only [countDeltas]; exact ih

theorem additive_connectDeltas (ch : Option (Svc × SvcX) × Option (Svc × SvcX)) : Additive (fun d => connectDeltas d ch) := by
  obtain ⟨b, a⟩ := ch
  cases b <;> cases a <;> simp only [connectDeltas]
  · exact additive_id
  · exact ((additive_add _ _).ite additive_id).comp ((additive_add _ _).ite additive_id)
  · exact ((additive_add _ _).ite additive_id).comp ((additive_add _ _).ite additive_id)
  · exact (((additive_add _ _).ite additive_id).comp ((additive_add _ _).ite additive_id)).comp
      ((additive_add _ _).ite additive_id)

theorem additive_billableDeltas (ch : Option (Svc × SvcX) × Option (Svc × SvcX)) : Additive (fun d => billableDeltas d ch) := by
  obtain ⟨b, a⟩ := ch
  cases b <;> cases a <;> simp only [billableDeltas]
  · exact additive_id
  · exact (additive_add _ _).ite additive_id
  · exact (additive_add _ _).ite additive_id
  · exact (((additive_add _ _).ite additive_id).comp ((additive_add _ _).ite additive_id)).comp
      ((additive_add _ _).ite ((additive_add _ _).ite additive_id))

/-- the per-change part of `serviceDeltas` on the delta map -/
def svcStep (ch : Option (Svc × SvcX) × Option (Svc × SvcX)) (d : Deltas) : Deltas :=
  billableDeltas (connectDeltas (addDelta d "services" (changeDelta ch)) ch) ch

theorem additive_svcStep (ch : Option (Svc × SvcX) × Option (Svc × SvcX)) : Additive (svcStep ch) :=
  ((additive_add _ _).comp (additive_connectDeltas ch)).comp (additive_billableDeltas ch)

theorem serviceDeltas_fst : ∀ (chs : List (Option (Svc × SvcX) × Option (Svc × SvcX))) (d m : Deltas) (c : String),
    dval (serviceDeltas (d, m) chs).1 c = dval d c + (chs.map fun ch => dval (svcStep ch []) c).sum := by
  intro chs
  induction chs with
  | nil => intro d m c; simp [serviceDeltas]
  | cons ch rest ih =>
    intro d m c
    simp only [serviceDeltas, List.map_cons, List.sum_cons]
    rw [ih]
    have := additive_svcStep ch d c
    unfold svcStep at this ⊢
    rw [this]; omega

theorem additive_serviceNameDeltas (post : Cat) : ∀ (m : Deltas), Additive (fun d => serviceNameDeltas post d m) := by
  intro m
  induction m with
  | nil => exact additive_id
  | cons e rest ih =>
    obtain ⟨name, delta⟩ := e
    simp only [serviceNameDeltas]
    exact ((additive_add _ _).ite ((additive_add _ _).ite additive_id)).comp ih

/-- the delta of a transaction at one id, split by the table the changes come from -/
theorem usageDeltas_dval (pre post : XState) (c : String) :
    dval (usageDeltas pre post) c =
      dval (countDeltas (fun (_ : Node) => "nodes") [] (changesOf Node.pk pre.loc.st.nodes post.loc.st.nodes)) c +
      ((changesOf (fun r => Svc.pk r.1) pre.loc.rows post.loc.rows).map fun ch => dval (svcStep ch []) c).sum +
      dval (countDeltas (fun (_ : KV) => "kvs") [] (changesOf KV.pk pre.loc.st.kvs post.loc.st.kvs)) c +
      dval (countDeltas (fun (r : CfgRow) => "config-entries-" ++ r.kind) [] (changesOf CfgRow.pk pre.cfg post.cfg)) c +
      dval (serviceNameDeltas post.loc []
        (serviceDeltas (countDeltas (fun (_ : Node) => "nodes") [] (changesOf Node.pk pre.loc.st.nodes post.loc.st.nodes), [])
          (changesOf (fun r => Svc.pk r.1) pre.loc.rows post.loc.rows)).2) c := by
  unfold usageDeltas
  simp only
  generalize hsd : serviceDeltas (countDeltas (fun (_ : Node) => "nodes") [] (changesOf Node.pk pre.loc.st.nodes post.loc.st.nodes), [])
    (changesOf (fun r => Svc.pk r.1) pre.loc.rows post.loc.rows) = sd
  have h1 := serviceDeltas_fst (changesOf (fun r => Svc.pk r.1) pre.loc.rows post.loc.rows)
    (countDeltas (fun (_ : Node) => "nodes") [] (changesOf Node.pk pre.loc.st.nodes post.loc.st.nodes)) [] c
  rw [hsd] at h1
  obtain ⟨d1, m⟩ := sd
  simp only at h1 ⊢
  rw [additive_serviceNameDeltas post.loc m _ c,
    additive_countDeltas (fun (r : CfgRow) => "config-entries-" ++ r.kind) _ _ c,
    additive_countDeltas (fun (_ : KV) => "kvs") _ _ c, h1]

/-- a counted table: the delta filed under `k` -/
theorem countDeltas_const_dval {α : Type} (k c : String) : ∀ (chs : List (Option α × Option α)),
    dval (countDeltas (fun _ => k) [] chs) c = if k = c then wSum (fun _ => 1) chs else 0 := by
  intro chs
  induction chs with
  | nil => simp [countDeltas, dval_nil, wSum]
  | cons ch rest ih =>
    obtain ⟨b, a⟩ := ch
    have hadd := additive_countDeltas (fun (_ : α) => k) rest
    cases a with
    | some a' =>
      simp only [countDeltas]
      rw [hadd _ c, ih, dval_addDelta, dval_nil]
      cases b <;> simp only [changeDelta, wSum, optW] <;> split <;> omega
    | none =>
      cases b with
      | some b' =>
        simp only [countDeltas]
        rw [hadd _ c, ih, dval_addDelta, dval_nil]
        simp only [changeDelta, wSum, optW]; split <;> omega
      | none =>
        simp only [countDeltas, wSum, optW]
        rw [ih]; split <;> omega

/-- a table counted per class (`config-entries-<kind>`): the delta filed under `c`, when an updated row keeps its class -/
theorem countDeltas_class_dval {α : Type} (idf : α → String) (c : String) : ∀ (chs : List (Option α × Option α)),
    (∀ b a, (some b, some a) ∈ chs → idf b = idf a) →
    dval (countDeltas idf [] chs) c = wSum (fun r => if idf r = c then 1 else 0) chs := by
  intro chs
  induction chs with
  | nil => intro _; simp [countDeltas, dval_nil, wSum]
  | cons ch rest ih =>
    intro hupd
    have hrest := ih (fun b a h => hupd b a (List.mem_cons_of_mem _ h))
    obtain ⟨b, a⟩ := ch
    have hadd := additive_countDeltas idf rest
    cases a with
    | some a' =>
      simp only [countDeltas]
      rw [hadd _ c, hrest, dval_addDelta, dval_nil]
      cases b with
      | none => simp only [changeDelta, wSum, optW]; split <;> omega
      | some b' =>
        have := hupd b' a' List.mem_cons_self
        simp only [changeDelta, wSum, optW, this]; split <;> omega
    | none =>
      cases b with
      | some b' =>
        simp only [countDeltas]
        rw [hadd _ c, hrest, dval_addDelta, dval_nil]
        simp only [changeDelta, wSum, optW]; split <;> omega
      | none =>
        simp only [countDeltas, wSum, optW]
        rw [hrest]; omega

/-! ### `writeUsageDeltas` for one target id -/

structure GoodFor (c : String) (d : Deltas) : Prop where
  nodup : (d.map (·.1)).Nodup
  ids : ∀ e ∈ d, e.1 = c ∨ lc e.1 ≠ lc c

theorem GoodFor.nil (c : String) : GoodFor c [] := ⟨by simp, by simp⟩

theorem GoodFor.add {c : String} {d : Deltas} (h : GoodFor c d) {id : String} (hid : id = c ∨ lc id ≠ lc c) (n : Int) :
    GoodFor c (addDelta d id n) := by
  refine ⟨?_, ?_⟩
  · rw [addDelta_ids]
    split
    · exact h.nodup
    · next hn =>
      rw [List.nodup_append]
      exact ⟨h.nodup, by simp, by intro a ha b hb; simp at hb; subst hb; exact fun hh => hn (hh ▸ ha)⟩
  · intro e he
    have : e.1 ∈ (addDelta d id n).map (·.1) := List.mem_map.mpr ⟨e, he, rfl⟩
    rw [addDelta_ids] at this
    split at this
    · obtain ⟨e', he', hk⟩ := List.mem_map.mp this
      rw [← hk]; exact h.ids e' he'
    · rcases List.mem_append.mp this with h1 | h1
      · obtain ⟨e', he', hk⟩ := List.mem_map.mp h1
        rw [← hk]; exact h.ids e' he'
      · simp at h1; rw [h1]; exact hid

theorem usageCount_tupsert_selfG (u : List UsageRow) (c : String) (n idx : Nat) :
    usageCount (tupsert UsageRow.pk strLt ⟨c, n, idx⟩ u) c = n := by
  unfold usageCount
  have : lc c = UsageRow.pk ⟨c, n, idx⟩ := rfl
  rw [this, tfind_tupsert_self]

theorem usageCount_tupsert_otherG (u : List UsageRow) (id c : String) (n idx : Nat) (h : lc id ≠ lc c) :
    usageCount (tupsert UsageRow.pk strLt ⟨id, n, idx⟩ u) c = usageCount u c := by
  unfold usageCount
  rw [tfind_tupsert_ne (key := UsageRow.pk)]
  unfold UsageRow.pk
  exact fun hh => h hh.symm

theorem writeUsage_otherG (idx : Nat) (c : String) : ∀ (d : Deltas) (u : List UsageRow), (∀ e ∈ d, lc e.1 ≠ lc c) →
    usageCount (writeUsage idx u d) c = usageCount u c := by
  intro d
  induction d with
  | nil => intro u _; rfl
  | cons e rest ih =>
    intro u h
    obtain ⟨id, delta⟩ := e
    simp only [writeUsage]
    rw [ih _ (fun x hx => h x (List.mem_cons_of_mem _ hx))]
    exact usageCount_tupsert_otherG _ _ _ _ _ (h (id, delta) List.mem_cons_self)

theorem writeUsage_getG (idx : Nat) (c : String) : ∀ (d : Deltas) (u : List UsageRow), GoodFor c d →
    usageCount (writeUsage idx u d) c = (((usageCount u c : Nat) : Int) + dval d c).toNat := by
  intro d
  induction d with
  | nil => intro u _; simp [writeUsage, dval_nil]
  | cons e rest ih =>
    intro u h
    obtain ⟨id, delta⟩ := e
    have hrest : GoodFor c rest := by
      refine ⟨?_, fun x hx => h.ids x (List.mem_cons_of_mem _ hx)⟩
      have := h.nodup
      simp only [List.map_cons, List.nodup_cons] at this
      exact this.2
    by_cases hid : id = c
    · subst hid
      have htail : ∀ x ∈ rest, lc x.1 ≠ lc id := by
        intro x hx
        have hne : x.1 ≠ id := by
          have := h.nodup
          simp only [List.map_cons, List.nodup_cons, List.mem_map, not_exists, not_and] at this
          exact fun hh => this.1 x hx hh
        rcases h.ids x (List.mem_cons_of_mem _ hx) with h1 | h1
        · exact absurd h1 hne
        · exact h1
      simp only [writeUsage]
      rw [writeUsage_otherG idx id rest _ htail, usageCount_tupsert_selfG]
      have hdv : dval ((id, delta) :: rest) id = delta := by simp [dval, deltaGet]
      rw [hdv]
      unfold usageCount
      cases tfind UsageRow.pk (lc id) u <;> rfl
    · have hlc : lc id ≠ lc c := by
        rcases h.ids (id, delta) List.mem_cons_self with h1 | h1
        · exact absurd h1 hid
        · exact h1
      simp only [writeUsage]
      rw [ih _ hrest, usageCount_tupsert_otherG _ _ _ _ _ hlc]
      have hdv : dval ((id, delta) :: rest) c = dval rest c := by
        have : (id == c) = false := by simpa using hid
        simp [dval, deltaGet, List.find?_cons, this]
      rw [hdv]

end CV.Store
