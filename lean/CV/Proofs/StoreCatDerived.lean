/-
The derived tables of the C07 wrapper against their recomputation, for every reachable state:
  * `VipI`     — an advertised virtual IP is the service's current assignment, or the assignment's key is one the
                 ghost record lists as freed while advertised;
  * `KsnComplete` — every local instance, every Connect name and every service-defaults Destination has its
                 kind-service-names row;
  * `KsnSound` — every kind-service-names row is justified by an instance / Connect name / Destination, or its key
                 is one the ghost record lists as left behind.
`SideOk` collects the structural facts they need (attribute table in step, one row per key, config kinds, real kinds).
-/
import CV.Proofs.StoreCatSpecX
namespace CV.Store
open CV

/-- a kind a service instance can have (the two others are names of derived rows only) -/
def Kind.real (k : Kind) : Prop := k ≠ .connectEnabled ∧ k ≠ .destination

def SvcReq.real (q : SvcReq) : Prop := q.kind.real

structure SideOk (s : XState) : Prop where
  sync : SyncAll s
  srt : ∀ q, SortedBy Svc.pk (s.cat q).st.svcs
  cfg : CfgOk s
  real : ∀ r ∈ s.loc.rows, r.2.kind.real

def VipI (s : XState) : Prop :=
  ∀ q, ∀ r ∈ (s.cat q).rows, ∀ ip sn, r.2.vip = some ip → connectName r = some sn →
    (∃ a ∈ s.vips, a.pk = vipKey q sn ∧ a.ip = ip) ∨ vipKey q sn ∈ s.ghost.freedAdvertised

/-- the row is justified by the registrations and config entries -/
def KsnJust (s : XState) (x : KsnRow) : Prop :=
  (∃ r ∈ s.loc.rows, r.2.kind = x.kind ∧ lc r.1.name = lc x.name) ∨
  (x.kind = .connectEnabled ∧ ∃ r ∈ s.loc.rows, ∃ n, connectName r = some n ∧ n ≠ "" ∧ lc n = lc x.name) ∨
  (x.kind = .destination ∧ ∃ c ∈ s.cfg, c.kind = "service-defaults" ∧ c.dest = true ∧ lc c.name = lc x.name)

def KsnSound (s : XState) : Prop := ∀ x ∈ s.kindNames, KsnJust s x ∨ x.pk ∈ s.ghost.staleKsn

structure KsnComplete (s : XState) : Prop where
  inst : ∀ r ∈ s.loc.rows, ∃ x ∈ s.kindNames, x.kind = r.2.kind ∧ lc x.name = lc r.1.name
  conn : ∀ r ∈ s.loc.rows, ∀ n, connectName r = some n → n ≠ "" →
    ∃ x ∈ s.kindNames, x.kind = .connectEnabled ∧ lc x.name = lc n
  dest : ∀ c ∈ s.cfg, c.kind = "service-defaults" → c.dest = true →
    ∃ x ∈ s.kindNames, x.kind = .destination ∧ lc x.name = lc c.name

structure DInv (s : XState) : Prop where
  side : SideOk s
  vip : VipI s
  complete : KsnComplete s
  sound : KsnSound s

/-! ### states with the same rows -/

structure SameRows (s s' : XState) : Prop where
  svcs : ∀ q, (s'.cat q).st.svcs = (s.cat q).st.svcs
  ext : ∀ q, (s'.cat q).ext = (s.cat q).ext
  ksn : s'.kindNames = s.kindNames
  vips : s'.vips = s.vips
  cfg : s'.cfg = s.cfg
  ghost : s'.ghost = s.ghost

theorem SameRows.rows {s s' : XState} (h : SameRows s s') (q : String) : (s'.cat q).rows = (s.cat q).rows :=
  rows_congr (h.svcs q) (h.ext q)

theorem SameRows.loc_rows {s s' : XState} (h : SameRows s s') : s'.loc.rows = s.loc.rows := by
  rw [loc_eq_cat, loc_eq_cat]; exact h.rows ""

theorem SameRows.of_aux {s s' : XState} (h : auxView s' = auxView s) : SameRows s s' := by
  simp only [auxView, Prod.mk.injEq] at h
  obtain ⟨h1, h2, h3, h4, h5, h6⟩ := h
  have hc : ∀ q, s'.cat q = s.cat q := fun q => by unfold XState.cat; rw [h1, h2]
  exact ⟨fun q => by rw [hc], fun q => by rw [hc], h3, h4, h5, h6⟩

theorem SameRows.of_setSt (s : XState) (p : String) (st' : State) (h : st'.svcs = (s.cat p).st.svcs) :
    SameRows s (s.setCat p { s.cat p with st := st' }) := by
  have hc : ∀ q, ((s.setCat p { s.cat p with st := st' }).cat q).st.svcs = (s.cat q).st.svcs ∧
      ((s.setCat p { s.cat p with st := st' }).cat q).ext = (s.cat q).ext := by
    intro q
    rw [cat_setCat]
    split
    · next hsp => rw [cat_of_samePeer s hsp]; exact ⟨h, rfl⟩
    · exact ⟨rfl, rfl⟩
  exact ⟨fun q => (hc q).1, fun q => (hc q).2, setCat_kindNames _ _ _, setCat_vips _ _ _, setCat_cfg _ _ _, setCat_ghost _ _ _⟩

theorem sideOk_same {s s' : XState} (h : SameRows s s') (hs : SideOk s) : SideOk s' := by
  refine ⟨?_, ?_, cfgOk_of_eq h.cfg hs.cfg, ?_⟩
  · intro q; unfold Sync; rw [h.svcs, h.ext]; exact hs.sync q
  · intro q; rw [h.svcs]; exact hs.srt q
  · rw [h.loc_rows]; exact hs.real

/-- `VipI` only gains from more assignments and more listed keys -/
theorem vipI_mono {s s' : XState} (hr : ∀ q, ∀ r ∈ (s'.cat q).rows, r ∈ (s.cat q).rows)
    (hv : ∀ a ∈ s.vips, a ∈ s'.vips) (hg : ∀ k ∈ s.ghost.freedAdvertised, k ∈ s'.ghost.freedAdvertised)
    (h : VipI s) : VipI s' := by
  intro q r hr' ip sn h1 h2
  rcases h q r (hr q r hr') ip sn h1 h2 with ⟨a, ha, hk⟩ | hk
  · exact Or.inl ⟨a, hv a ha, hk⟩
  · exact Or.inr (hg _ hk)

theorem dinv_same {s s' : XState} (h : SameRows s s') (hs : DInv s) : DInv s' := by
  refine ⟨sideOk_same h hs.side, ?_, ?_, ?_⟩
  · exact vipI_mono (fun q r hr => by rw [← h.rows q]; exact hr) (fun a ha => by rw [h.vips]; exact ha)
      (fun k hk => by rw [h.ghost]; exact hk) hs.vip
  · refine ⟨?_, ?_, ?_⟩
    · rw [h.loc_rows, h.ksn]; exact hs.complete.inst
    · rw [h.loc_rows, h.ksn]; exact hs.complete.conn
    · rw [h.cfg, h.ksn]; exact hs.complete.dest
  · intro x hx
    rw [h.ksn] at hx
    unfold KsnJust
    rw [h.loc_rows, h.cfg, h.ghost]
    exact hs.sound x hx

/-! ### `ensureServiceX` -/

theorem ensKsn_mono {s : XState} {p : String} {idx : Nat} {q : SvcReq} {x : KsnRow} (h : x ∈ s.kindNames) :
    x ∈ ensKsn s p idx q := by
  unfold ensKsn
  split
  · split
    · split
      · exact mem_ksnUpsert_of_mem (mem_ksnUpsert_of_mem h)
      · exact mem_ksnUpsert_of_mem h
    · exact mem_ksnUpsert_of_mem h
  · exact h

theorem ensKsn_inst (s : XState) (idx : Nat) (q : SvcReq) :
    ∃ x ∈ ensKsn s "" idx q, x.kind = q.kind ∧ lc x.name = lc q.name := by
  obtain ⟨x, hx, h1⟩ := ksnUpsert_has s.kindNames idx q.kind q.name
  refine ⟨x, ?_, h1⟩
  unfold ensKsn
  rw [if_pos rfl]
  split
  · split
    · exact mem_ksnUpsert_of_mem hx
    · exact hx
  · exact hx

theorem ensKsn_conn (s : XState) (idx : Nat) (q : SvcReq) {n : String} (h : q.connectName = some n) (hn : n ≠ "") :
    ∃ x ∈ ensKsn s "" idx q, x.kind = .connectEnabled ∧ lc x.name = lc n := by
  unfold ensKsn
  rw [if_pos rfl, h]
  simp only [hn, ne_eq, not_false_eq_true, if_true]
  exact ksnUpsert_has _ idx .connectEnabled n

theorem mem_ensKsn {s : XState} {idx : Nat} {q : SvcReq} {x : KsnRow} (h : x ∈ ensKsn s "" idx q) :
    x ∈ s.kindNames ∨ (x.kind = q.kind ∧ x.name = q.name) ∨
      (x.kind = .connectEnabled ∧ ∃ n, q.connectName = some n ∧ n ≠ "" ∧ x.name = n) := by
  unfold ensKsn at h
  rw [if_pos rfl] at h
  split at h
  · next n hn =>
    split at h
    · next hne =>
      rcases mem_ksnUpsert h with h1 | ⟨h1, h2⟩
      · rcases mem_ksnUpsert h1 with h3 | h3
        · exact Or.inl h3
        · exact Or.inr (Or.inl h3)
      · exact Or.inr (Or.inr ⟨h1, n, hn, hne, h2⟩)
    · rcases mem_ksnUpsert h with h3 | h3
      · exact Or.inl h3
      · exact Or.inr (Or.inl h3)
  · rcases mem_ksnUpsert h with h3 | h3
    · exact Or.inl h3
    · exact Or.inr (Or.inl h3)

theorem ensKsn_peer {s : XState} {p : String} (hp : p ≠ "") (idx : Nat) (q : SvcReq) : ensKsn s p idx q = s.kindNames := by
  unfold ensKsn; rw [if_neg hp]

theorem ensGhost_freed (s : XState) (p node : String) (q : SvcReq) :
    (ensGhost s p node q).freedAdvertised = s.ghost.freedAdvertised := by
  unfold ensGhost; split <;> rfl

theorem not_samePeer_empty {p : String} (hp : p ≠ "") : ¬ samePeer p "" := by
  unfold samePeer; simp [hp]

theorem dinv_ensureService {s s' : XState} {p node : String} {idx : Nat} {q : SvcReq} (hw : q.real)
    (h : ensureServiceX s p idx node q = .ok s') (hs : DInv s) : DInv s' := by
  have spec := ensureServiceX_spec h (hs.side.srt p)
  obtain ⟨v, e, hn, hk, hkind, hcn, hvip, hmem, hrows, hkeep, hfind⟩ := spec.row
  have hfreed : s'.ghost.freedAdvertised = s.ghost.freedAdvertised := by rw [spec.ghost]; exact ensGhost_freed s p node q
  have holdvip : ∀ q', ∀ r ∈ (s.cat q').rows, ∀ ip sn, r.2.vip = some ip → connectName r = some sn →
      (∃ a ∈ s'.vips, a.pk = vipKey q' sn ∧ a.ip = ip) ∨ vipKey q' sn ∈ s'.ghost.freedAdvertised := by
    intro q' r hr ip sn h1 h2
    rcases hs.vip q' r hr ip sn h1 h2 with ⟨a, ha, hk'⟩ | hk'
    · exact Or.inl ⟨a, spec.vips a ha, hk'⟩
    · exact Or.inr (by rw [hfreed]; exact hk')
  refine ⟨⟨syncAll_ensureServiceX h hs.side.sync, ?_, cfgOk_of_eq spec.cfg hs.side.cfg, ?_⟩, ?_, ?_, ?_⟩
  · -- one row per key
    intro q'
    by_cases hsp : samePeer p q'
    · rw [cat_of_samePeer s' hsp]
      obtain ⟨st', k, -, hst, -⟩ := ensureServiceX_step h
      rw [k.st]
      rcases hst with rfl | ⟨w, rfl, -⟩
      · exact hs.side.srt p
      · rw [svcs_svcInsert]; exact sortedBy_tupsert _ _ (hs.side.srt p)
    · rw [spec.other q' hsp]; exact hs.side.srt q'
  · -- real kinds
    intro r hr
    rw [loc_eq_cat] at hr
    by_cases hp : p = ""
    · subst hp
      rcases hrows r hr with rfl | ⟨h1, -⟩
      · show e.kind.real
        rw [hkind]; exact hw
      · exact hs.side.real r (by rw [loc_eq_cat]; exact h1)
    · rw [spec.other "" (not_samePeer_empty hp)] at hr
      exact hs.side.real r (by rw [loc_eq_cat]; exact hr)
  · -- virtual IPs
    intro q' r hr ip sn h1 h2
    by_cases hsp : samePeer p q'
    · rw [cat_of_samePeer s' hsp] at hr
      rw [vipKey_samePeer hsp]
      rcases hrows r hr with rfl | ⟨hold, -⟩
      · obtain ⟨sn', hc', a, ha, hk'⟩ := hvip ip h1
        rw [hcn, hc'] at h2
        simp at h2; subst h2
        exact Or.inl ⟨a, ha, hk'⟩
      · exact holdvip p r hold ip sn h1 h2
    · rw [spec.other q' hsp] at hr
      exact holdvip q' r hr ip sn h1 h2
  · -- completeness
    by_cases hp : p = ""
    · subst hp
      refine ⟨?_, ?_, ?_⟩
      · intro r hr
        rw [loc_eq_cat] at hr
        rw [spec.ksn]
        rcases hrows r hr with rfl | ⟨hold, -⟩
        · obtain ⟨x, hx, h1, h2⟩ := ensKsn_inst s idx q
          exact ⟨x, hx, by rw [h1]; exact hkind.symm, by rw [h2]; show lc q.name = lc v.name; rw [hn]⟩
        · obtain ⟨x, hx, h1⟩ := hs.complete.inst r (by rw [loc_eq_cat]; exact hold)
          exact ⟨x, ensKsn_mono hx, h1⟩
      · intro r hr n hc hne
        rw [loc_eq_cat] at hr
        rw [spec.ksn]
        rcases hrows r hr with rfl | ⟨hold, -⟩
        · rw [hcn] at hc
          exact ensKsn_conn s idx q hc hne
        · obtain ⟨x, hx, h1⟩ := hs.complete.conn r (by rw [loc_eq_cat]; exact hold) n hc hne
          exact ⟨x, ensKsn_mono hx, h1⟩
      · intro c hc h1 h2
        rw [spec.cfg] at hc
        rw [spec.ksn]
        obtain ⟨x, hx, h3⟩ := hs.complete.dest c hc h1 h2
        exact ⟨x, ensKsn_mono hx, h3⟩
    · have hl : s'.loc.rows = s.loc.rows := by
        rw [loc_eq_cat, loc_eq_cat, spec.other "" (not_samePeer_empty hp)]
      refine ⟨?_, ?_, ?_⟩
      · rw [hl, spec.ksn, ensKsn_peer hp]; exact hs.complete.inst
      · rw [hl, spec.ksn, ensKsn_peer hp]; exact hs.complete.conn
      · rw [spec.cfg, spec.ksn, ensKsn_peer hp]; exact hs.complete.dest
  · -- soundness or known
    by_cases hp : p = ""
    · subst hp
      have hmem' : (v, e) ∈ s'.loc.rows := by rw [loc_eq_cat]; exact hmem
      have hstale : ∀ k, k ∈ s.ghost.staleKsn ++ svcStaleKeys (s.cat "") node q → k ∈ s'.ghost.staleKsn := by
        intro k hk'
        rw [spec.ghost]; unfold ensGhost; rw [if_pos rfl]; exact hk'
      intro x0 hx0
      rw [spec.ksn] at hx0
      rcases mem_ensKsn hx0 with hold | ⟨h1, h2⟩ | ⟨h1, n, h2, h3, h4⟩
      · rcases hs.sound x0 hold with hj | hst
        · rcases hj with ⟨r, hr, hk1, hn1⟩ | ⟨hk0, r, hr, n, hc, hne, hn1⟩ | ⟨hk0, c, hc, hcd⟩
          · have hr' : r ∈ (s.cat "").rows := by rw [← loc_eq_cat]; exact hr
            by_cases hkey : r.1.pk = pk2 node q.id
            · obtain ⟨hsf, hef⟩ := hfind r hr' hkey
              by_cases hch : r.2.kind ≠ q.kind ∨ lc r.1.name ≠ lc q.name
              · right
                apply hstale
                apply List.mem_append_right
                unfold svcStaleKeys
                rw [hsf, hef]
                simp only
                apply List.mem_append_left
                rw [if_pos hch]
                simp only [List.mem_singleton]
                show ksnKey x0.kind x0.name = _
                rw [← hk1]; exact ksnKey_congr hn1.symm
              · left; left
                have hch' : r.2.kind = q.kind ∧ lc r.1.name = lc q.name := by
                  constructor
                  · exact Classical.byContradiction (fun hh => hch (Or.inl hh))
                  · exact Classical.byContradiction (fun hh => hch (Or.inr hh))
                exact ⟨(v, e), hmem', by show e.kind = x0.kind; rw [hkind, ← hch'.1]; exact hk1,
                  by show lc v.name = lc x0.name; rw [hn, ← hch'.2]; exact hn1⟩
            · exact Or.inl (Or.inl ⟨r, by rw [loc_eq_cat]; exact hkeep r hr' hkey, hk1, hn1⟩)
          · have hr' : r ∈ (s.cat "").rows := by rw [← loc_eq_cat]; exact hr
            by_cases hkey : r.1.pk = pk2 node q.id
            · obtain ⟨hsf, hef⟩ := hfind r hr' hkey
              by_cases hsame : q.connectName.map lc = some (lc n)
              · left; right; left
                cases hq : q.connectName with
                | none => rw [hq] at hsame; simp at hsame
                | some n' =>
                  rw [hq] at hsame
                  simp at hsame
                  have hne' : n' ≠ "" := by
                    intro hh; subst hh
                    exact hne (lc_eq_empty.mp (by rw [← hsame]; exact lc_eq_empty.mpr rfl))
                  exact ⟨hk0, (v, e), hmem', n', by rw [hcn, hq], hne', by rw [hsame]; exact hn1⟩
              · right
                apply hstale
                apply List.mem_append_right
                unfold svcStaleKeys
                rw [hsf, hef]
                simp only
                apply List.mem_append_right
                have : connectName (r.1, r.2) = some n := hc
                rw [this]
                simp only
                rw [if_neg hsame]
                simp only [List.mem_singleton]
                show ksnKey x0.kind x0.name = _
                rw [hk0]; exact ksnKey_congr hn1.symm
            · exact Or.inl (Or.inr (Or.inl ⟨hk0, r, by rw [loc_eq_cat]; exact hkeep r hr' hkey, n, hc, hne, hn1⟩))
          · exact Or.inl (Or.inr (Or.inr ⟨hk0, c, by rw [spec.cfg]; exact hc, hcd⟩))
        · exact Or.inr (hstale _ (List.mem_append_left _ hst))
      · left; left
        exact ⟨(v, e), hmem', by show e.kind = x0.kind; rw [hkind, h1], by show lc v.name = lc x0.name; rw [hn, h2]⟩
      · left; right; left
        exact ⟨h1, (v, e), hmem', n, by rw [hcn, h2], h3, by rw [h4]⟩
    · have hl : s'.loc.rows = s.loc.rows := by
        rw [loc_eq_cat, loc_eq_cat, spec.other "" (not_samePeer_empty hp)]
      intro x0 hx0
      rw [spec.ksn, ensKsn_peer hp] at hx0
      have hg : s'.ghost = s.ghost := by rw [spec.ghost]; unfold ensGhost; rw [if_neg hp]
      unfold KsnJust
      rw [hl, spec.cfg, hg]
      exact hs.sound x0 hx0

/-! ### `freeVip` -/

/-- erasing the assignment with key `K`, listing `K` when a row advertised it -/
theorem vipI_erase {s s' : XState} (hcat : ∀ q, s'.cat q = s.cat q) (K : String)
    (hv : s'.vips = terase VipRow.pk K s.vips)
    (hg : s'.ghost.freedAdvertised = if advertisedKey s K = true then K :: s.ghost.freedAdvertised else s.ghost.freedAdvertised)
    (h : VipI s) : VipI s' := by
  intro q r hr ip sn h1 h2
  rw [hcat q] at hr
  rcases h q r hr ip sn h1 h2 with ⟨a, ha, hk, hip⟩ | hk
  · by_cases hK : a.pk = K
    · right
      rw [hg, if_pos (by rw [← hK, hk]; exact advertisedKey_of_row hr h1 h2), ← hk, hK]
      exact List.mem_cons_self
    · left; exact ⟨a, by rw [hv]; exact mem_terase.mpr ⟨ha, hK⟩, hk, hip⟩
  · right
    rw [hg]
    split
    · exact List.mem_cons_of_mem _ hk
    · exact hk

theorem vipI_freeVip (s : XState) (p n : String) (h : VipI s) : VipI (freeVip s p n) := by
  obtain ⟨f0, -, -, -, f4⟩ := freeVip_spec s p n
  rcases f4 with ⟨e1, e2⟩ | ⟨e1, e2⟩
  · exact vipI_mono (fun q r hr => by rw [← f0.cat q]; exact hr) (fun a ha => by rw [e1]; exact ha)
      (fun k hk => by rw [e2]; exact hk) h
  · exact vipI_erase f0.cat _ e1 e2 h

/-! ### `deleteServiceX` -/

theorem connectName_some {v : Svc} {e : SvcX} {sn : String} :
    connectName (v, e) = some sn ↔ (e.kind = .connectProxy ∨ e.native = true) ∧ sn = connSn v e := by
  unfold connectName connSn
  simp only
  by_cases h1 : e.kind = .connectProxy
  · rw [if_pos h1, if_pos h1]
    constructor
    · intro h; injection h with h; exact ⟨Or.inl h1, h.symm⟩
    · rintro ⟨-, rfl⟩; rfl
  · rw [if_neg h1, if_neg h1]
    by_cases h2 : e.native = true
    · rw [if_pos h2]
      constructor
      · intro h; injection h with h; exact ⟨Or.inr h2, h.symm⟩
      · rintro ⟨-, rfl⟩; rfl
    · rw [if_neg h2]
      constructor
      · intro h; cases h
      · rintro ⟨h | h, -⟩
        · exact absurd h h1
        · exact absurd h h2

theorem mem_afterKsn1 {s : XState} {v : Svc} {e : SvcX} {y : KsnRow} (hy : y ∈ afterKsn1 s "" v e) :
    y ∈ s.kindNames ∧ (hasInstanceNamed (s.cat "") v.name = false → y.pk ≠ ksnKey e.kind v.name) := by
  unfold afterKsn1 at hy
  split at hy
  · next hh => exact ⟨hy, fun hf => by rw [hh] at hf; cases hf⟩
  · rw [if_pos rfl] at hy
    exact ⟨(mem_terase.mp hy).1, fun _ => (mem_terase.mp hy).2⟩

theorem mem_afterKsn {s : XState} {v : Svc} {e : SvcX} {x : KsnRow} (hx : x ∈ afterKsn s "" v e) :
    x ∈ s.kindNames ∧ (hasInstanceNamed (s.cat "") v.name = false → x.pk ≠ ksnKey e.kind v.name) ∧
    (∀ sn, connectName (v, e) = some sn → hasConnectInstance (s.cat "") sn = false → x.pk ≠ ksnKey .connectEnabled sn) := by
  unfold afterKsn at hx
  by_cases hc : e.kind = .connectProxy ∨ e.native = true
  · rw [if_pos ⟨rfl, hc⟩] at hx
    cases hh : hasConnectInstance (s.cat "") (connSn v e) with
    | true =>
      rw [hh] at hx
      simp only [if_true] at hx
      obtain ⟨a, b⟩ := mem_afterKsn1 hx
      refine ⟨a, b, ?_⟩
      intro sn hsn hf
      rw [(connectName_some.mp hsn).2, hh] at hf; cases hf
    | false =>
      rw [hh] at hx
      simp only [Bool.false_eq_true, if_false] at hx
      obtain ⟨m1, m2⟩ := mem_terase.mp hx
      obtain ⟨a, b⟩ := mem_afterKsn1 m1
      refine ⟨a, b, ?_⟩
      intro sn hsn _
      rw [(connectName_some.mp hsn).2]; exact m2
  · rw [if_neg (fun hh => hc hh.2)] at hx
    obtain ⟨a, b⟩ := mem_afterKsn1 hx
    exact ⟨a, b, fun sn hsn _ => absurd (connectName_some.mp hsn).1 hc⟩

theorem mem_afterKsn_of {s : XState} {v : Svc} {e : SvcX} {x : KsnRow} (hx : x ∈ s.kindNames)
    (h1 : hasInstanceNamed (s.cat "") v.name = false → x.pk ≠ ksnKey e.kind v.name)
    (h2 : ∀ sn, connectName (v, e) = some sn → hasConnectInstance (s.cat "") sn = false → x.pk ≠ ksnKey .connectEnabled sn) :
    x ∈ afterKsn s "" v e := by
  have k1 : x ∈ afterKsn1 s "" v e := by
    unfold afterKsn1
    split
    · exact hx
    · next hh => rw [if_pos rfl]; exact mem_terase.mpr ⟨hx, h1 (by simpa using hh)⟩
  unfold afterKsn
  by_cases hc : e.kind = .connectProxy ∨ e.native = true
  · rw [if_pos ⟨rfl, hc⟩]
    cases hh : hasConnectInstance (s.cat "") (connSn v e) with
    | true => simp only [if_true]; exact k1
    | false =>
      simp only [Bool.false_eq_true, if_false]
      exact mem_terase.mpr ⟨k1, h2 _ (connectName_some.mpr ⟨hc, rfl⟩) hh⟩
  · rw [if_neg (fun hh => hc hh.2)]; exact k1

theorem afterKsn_peer {s : XState} {p : String} (hp : p ≠ "") (v : Svc) (e : SvcX) : afterKsn s p v e = s.kindNames := by
  unfold afterKsn afterKsn1
  simp [hp]

theorem dinv_deleteService {s s' : XState} {p node id : String} {idx : Nat}
    (h : deleteServiceX s p idx node id = .ok s') (hs : DInv s) : DInv s' := by
  have hsync' := syncAll_deleteServiceX h hs.side.sync
  rcases deleteServiceX_spec h with rfl | ⟨v, e, st', hv, he, hsv, rfl⟩
  · exact hs
  generalize hs0 : s.setCat p ⟨st', terase SvcX.pk (pk2 node id) (s.cat p).ext⟩ = s0 at *
  have hcat0 : s0.cat p = ⟨st', terase SvcX.pk (pk2 node id) (s.cat p).ext⟩ := by rw [← hs0]; exact cat_setCat_self _ _ _
  have hrows0 : ∀ r, r ∈ (s0.cat p).rows ↔ r ∈ (s.cat p).rows ∧ r.1.pk ≠ pk2 node id := by
    intro r; rw [hcat0]; exact rows_del st' _ hsv r
  have hother0 : ∀ q', ¬ samePeer p q' → s0.cat q' = s.cat q' := fun q' hq' => by rw [← hs0]; exact cat_setCat_other _ _ hq'
  have hk0 : s0.kindNames = s.kindNames := by rw [← hs0]; exact setCat_kindNames _ _ _
  have hv0 : s0.vips = s.vips := by rw [← hs0]; exact setCat_vips _ _ _
  have hc0 : s0.cfg = s.cfg := by rw [← hs0]; exact setCat_cfg _ _ _
  have hg0 : s0.ghost = s.ghost := by rw [← hs0]; exact setCat_ghost _ _ _
  have hsync0 : Sync (s0.cat p) := by
    rw [hcat0]; unfold Sync; simp only; rw [hsv]; exact map_key_terase _ _ _ (hs.side.sync p)
  obtain ⟨hrow, huniq⟩ := rows_find (hs.side.srt p) hv he
  have hsub0 : ∀ q, ∀ r ∈ (s0.cat q).rows, r ∈ (s.cat q).rows := by
    intro q r hr
    by_cases hsp : samePeer p q
    · rw [cat_of_samePeer s0 hsp] at hr; rw [cat_of_samePeer s hsp]; exact ((hrows0 r).mp hr).1
    · rw [hother0 q hsp] at hr; exact hr
  have spec := afterServiceDelete_spec s0 p v e
  generalize afterServiceDelete s0 p v e = s' at *
  have hcat' : ∀ q, s'.cat q = s0.cat q := spec.frame.cat
  have hstale : ∀ k ∈ s.ghost.staleKsn, k ∈ s'.ghost.staleKsn := by
    intro k hk; rw [spec.stale, hg0]; exact List.mem_append_left _ hk
  refine ⟨⟨hsync', ?_, cfgOk_of_eq (spec.cfg.trans hc0) hs.side.cfg, ?_⟩, ?_, ?_, ?_⟩
  · intro q'
    rw [hcat' q']
    by_cases hsp : samePeer p q'
    · rw [cat_of_samePeer s0 hsp, hcat0]; simp only; rw [hsv]; exact sortedBy_terase _ _ (hs.side.srt p)
    · rw [hother0 q' hsp]; exact hs.side.srt q'
  · intro r hr
    rw [loc_eq_cat, hcat' ""] at hr
    exact hs.side.real r (by rw [loc_eq_cat]; exact hsub0 "" r hr)
  · -- virtual IPs
    have hvi0 : VipI s0 := vipI_mono hsub0 (fun a ha => by rw [hv0]; exact ha) (fun k hk => by rw [hg0]; exact hk) hs.vip
    rcases spec.vip with ⟨e1, e2⟩ | ⟨e1, e2⟩
    · exact vipI_mono (fun q r hr => by rw [← hcat' q]; exact hr) (fun a ha => by rw [e1]; exact ha)
        (fun k hk => by rw [e2]; exact hk) hvi0
    · exact vipI_mono (fun q r hr => by rw [(xframe_freeVip s0 p v.name).cat q, ← hcat' q]; exact hr)
        (fun a ha => by rw [e1]; exact ha) (fun k hk => by rw [e2]; exact hk) (vipI_freeVip s0 p v.name hvi0)
  · -- completeness
    by_cases hp : p = ""
    · subst hp
      have hrow' : (v, e) ∈ s.loc.rows := by rw [loc_eq_cat]; exact hrow
      have hereal := hs.side.real (v, e) hrow'
      have keep : ∀ x ∈ s.kindNames,
          (x.kind = e.kind → lc x.name = lc v.name → ∃ r ∈ (s0.cat "").rows, lc r.1.name = lc v.name) →
          (x.kind = .connectEnabled → ∀ sn, connectName (v, e) = some sn → lc x.name = lc sn →
            ∃ r ∈ (s0.cat "").rows, ∃ n, connectName r = some n ∧ lc n = lc sn) →
          x ∈ s'.kindNames := by
        intro x hx c1 c2
        rw [spec.ksn]
        refine mem_afterKsn_of (by rw [hk0]; exact hx) ?_ ?_
        · intro hf hk
          obtain ⟨a, b⟩ := ksnRow_pk hk
          have := (hasInstanceNamed_iff hsync0 v.name).mpr (c1 a b)
          rw [hf] at this; cases this
        · intro sn hsn hf hk
          obtain ⟨a, b⟩ := ksnRow_pk hk
          have := (hasConnectInstance_iff (s0.cat "") sn).mpr (c2 a sn hsn b)
          rw [hf] at this; cases this
      refine ⟨?_, ?_, ?_⟩
      · intro r hr
        rw [loc_eq_cat, hcat' ""] at hr
        have hr0 := ((hrows0 r).mp hr).1
        obtain ⟨x, hx, h1, h2⟩ := hs.complete.inst r (by rw [loc_eq_cat]; exact hr0)
        refine ⟨x, keep x hx (fun _ hn => ⟨r, hr, by rw [← h2]; exact hn⟩) ?_, h1, h2⟩
        intro hk
        exact absurd (h1.symm.trans hk) (hs.side.real r (by rw [loc_eq_cat]; exact hr0)).1
      · intro r hr n hc hne
        rw [loc_eq_cat, hcat' ""] at hr
        have hr0 := ((hrows0 r).mp hr).1
        obtain ⟨x, hx, h1, h2⟩ := hs.complete.conn r (by rw [loc_eq_cat]; exact hr0) n hc hne
        refine ⟨x, keep x hx (fun hk _ => absurd (hk.symm.trans h1) hereal.1) ?_, h1, h2⟩
        intro _ sn _ hn
        exact ⟨r, hr, n, hc, by rw [← h2]; exact hn⟩
      · intro c hc h1 h2
        rw [spec.cfg, hc0] at hc
        obtain ⟨x, hx, h3, h4⟩ := hs.complete.dest c hc h1 h2
        refine ⟨x, keep x hx (fun hk _ => absurd (hk.symm.trans h3) hereal.2) ?_, h3, h4⟩
        intro hk
        rw [h3] at hk; cases hk
    · have hl : s'.loc.rows = s.loc.rows := by
        rw [loc_eq_cat, loc_eq_cat, hcat' "", hother0 "" (not_samePeer_empty hp)]
      have hk : s'.kindNames = s.kindNames := by rw [spec.ksn, afterKsn_peer hp, hk0]
      refine ⟨?_, ?_, ?_⟩
      · rw [hl, hk]; exact hs.complete.inst
      · rw [hl, hk]; exact hs.complete.conn
      · rw [spec.cfg, hc0, hk]; exact hs.complete.dest
  · -- soundness or known
    by_cases hp : p = ""
    · subst hp
      have hloc' : ∀ r, r ∈ s'.loc.rows ↔ r ∈ (s0.cat "").rows := fun r => by rw [loc_eq_cat, hcat' ""]
      intro x0 hx0
      rw [spec.ksn] at hx0
      obtain ⟨m0, c1, c2⟩ := mem_afterKsn hx0
      rw [hk0] at m0
      rcases hs.sound x0 m0 with hj | hst
      · rcases hj with ⟨r, hr, hk1, hn1⟩ | ⟨hkc, r, hr, n, hc, hne, hn1⟩ | ⟨hkd, c, hc, hcd⟩
        · have hr' : r ∈ (s.cat "").rows := by rw [← loc_eq_cat]; exact hr
          by_cases hkey : r.1.pk = pk2 node id
          · have hre := huniq r hr' hkey
            subst hre
            have hpk : x0.pk = ksnKey e.kind v.name := by
              show ksnKey x0.kind x0.name = _
              rw [← hk1]; exact ksnKey_congr hn1.symm
            cases hin : hasInstanceNamed (s0.cat "") v.name with
            | false => exact absurd hpk (c1 hin)
            | true =>
              by_cases hex : ∃ r' ∈ (s0.cat "").rows, r'.2.kind = e.kind ∧ lc r'.1.name = lc v.name
              · left; left
                obtain ⟨r', hr'm, hr'c⟩ := hex
                exact ⟨r', (hloc' r').mpr hr'm, hr'c.1.trans hk1, hr'c.2.trans hn1⟩
              · right
                have hall : (s0.cat "").rows.all (fun r => !(r.2.kind == e.kind && lc r.1.name == lc v.name)) = true := by
                  rw [List.all_eq_true]
                  intro r' hr'm
                  cases hb : (r'.2.kind == e.kind && lc r'.1.name == lc v.name) with
                  | false => rfl
                  | true =>
                    simp only [Bool.and_eq_true, beq_iff_eq] at hb
                    exact absurd ⟨r', hr'm, hb⟩ hex
                rw [spec.stale, hin]
                apply List.mem_append_right
                simp only [leftStaleKeys, hall, and_self, if_true, List.mem_singleton]
                exact hpk
          · exact Or.inl (Or.inl ⟨r, (hloc' r).mpr ((hrows0 r).mpr ⟨hr', hkey⟩), hk1, hn1⟩)
        · have hr' : r ∈ (s.cat "").rows := by rw [← loc_eq_cat]; exact hr
          by_cases hkey : r.1.pk = pk2 node id
          · have hre := huniq r hr' hkey
            subst hre
            have hpk : x0.pk = ksnKey .connectEnabled n := by
              show ksnKey x0.kind x0.name = _
              rw [hkc]; exact ksnKey_congr hn1.symm
            cases hin : hasConnectInstance (s0.cat "") n with
            | false => exact absurd hpk (c2 n hc hin)
            | true =>
              obtain ⟨r', hr'm, n', hc', hn'⟩ := (hasConnectInstance_iff (s0.cat "") n).mp hin
              have hne' : n' ≠ "" := by
                intro hh; subst hh
                exact hne (lc_eq_empty.mp (by rw [← hn']; exact lc_eq_empty.mpr rfl))
              exact Or.inl (Or.inr (Or.inl ⟨hkc, r', (hloc' r').mpr hr'm, n', hc', hne', hn'.trans hn1⟩))
          · exact Or.inl (Or.inr (Or.inl ⟨hkc, r, (hloc' r).mpr ((hrows0 r).mpr ⟨hr', hkey⟩), n, hc, hne, hn1⟩))
        · exact Or.inl (Or.inr (Or.inr ⟨hkd, c, by rw [spec.cfg, hc0]; exact hc, hcd⟩))
      · exact Or.inr (hstale _ hst)
    · have hl : s'.loc.rows = s.loc.rows := by
        rw [loc_eq_cat, loc_eq_cat, hcat' "", hother0 "" (not_samePeer_empty hp)]
      have hk : s'.kindNames = s.kindNames := by rw [spec.ksn, afterKsn_peer hp, hk0]
      intro x0 hx0
      rw [hk] at hx0
      rcases hs.sound x0 hx0 with hj | hst
      · left
        unfold KsnJust at hj ⊢
        rw [hl, spec.cfg, hc0]; exact hj
      · exact Or.inr (hstale _ hst)

/-! ### config entries -/

theorem lc_sd : lc "service-defaults" = "service-defaults" := lc_of_toList _ _ (by decide)
theorem NF_sd : NF "service-defaults" := by unfold NF lc; rw [String.toList_map]; decide

/-- the config entry with a given key, in a table with one row per key -/
theorem cfgFind_of_mem {s : XState} (hs : CfgOk s) {c : CfgRow} (hc : c ∈ s.cfg) {kind name : String}
    (hk : c.pk = pk2 kind name) : cfgFind s kind name = some c := by
  unfold cfgFind
  cases hq : tfind CfgRow.pk (pk2 kind name) s.cfg with
  | none => exact absurd hk (tfind_none hq c hc)
  | some y =>
    obtain ⟨my, ky⟩ := tfind_some hq
    rw [sortedBy_unique hs.srt my hc (ky.trans hk.symm)]

theorem dinv_configUpsert {s s' : XState} {idx : Nat} {kind name tok : String} {dest : Bool}
    (hk : lc kind = kind ∧ NF kind) (h : configUpsert s idx kind name dest tok = .ok s') (hs : DInv s) : DInv s' := by
  obtain ⟨f, ⟨create, hcfg⟩, hksn, hvips, hfreed, hstale⟩ := configUpsert_spec h
  have hcat : ∀ q, s'.cat q = s.cat q := f.cat
  have hl : s'.loc.rows = s.loc.rows := by rw [loc_eq_cat, loc_eq_cat, hcat]
  have hmono : ∀ x ∈ s.kindNames, x ∈ s'.kindNames := by
    intro x hx; rw [hksn]; split
    · exact mem_ksnUpsert_of_mem hx
    · exact hx
  refine ⟨⟨fun q => by rw [hcat]; exact hs.side.sync q, fun q => by rw [hcat]; exact hs.side.srt q,
      cfgOk_tupsert _ hk hs.side.cfg hcfg, by rw [hl]; exact hs.side.real⟩, ?_, ?_, ?_⟩
  · exact vipI_mono (fun q r hr => by rw [← hcat q]; exact hr) hvips (fun k hk' => by rw [hfreed]; exact hk') hs.vip
  · refine ⟨?_, ?_, ?_⟩
    · intro r hr
      rw [hl] at hr
      obtain ⟨x, hx, h1⟩ := hs.complete.inst r hr
      exact ⟨x, hmono x hx, h1⟩
    · intro r hr n hc hne
      rw [hl] at hr
      obtain ⟨x, hx, h1⟩ := hs.complete.conn r hr n hc hne
      exact ⟨x, hmono x hx, h1⟩
    · intro c hc h1 h2
      rw [hcfg] at hc
      rcases mem_tupsert hc with rfl | hc
      · rw [hksn, if_pos ⟨h1, h2⟩]
        exact ksnUpsert_has _ idx .destination name
      · obtain ⟨x, hx, h3⟩ := hs.complete.dest c hc h1 h2
        exact ⟨x, hmono x hx, h3⟩
  · intro x0 hx0
    have hnew : ∀ (hcond : kind = "service-defaults" ∧ dest = true), x0.kind = .destination → lc x0.name = lc name → KsnJust s' x0 := by
      intro hcond h1 h2
      right; right
      refine ⟨h1, ⟨kind, name, dest, tok, create, idx⟩, by rw [hcfg]; exact self_mem_tupsert _ _, hcond.1, hcond.2, h2.symm⟩
    have hold : x0 ∈ s.kindNames → KsnJust s' x0 ∨ x0.pk ∈ s'.ghost.staleKsn := by
      intro hx
      rcases hs.sound x0 hx with hj | hst
      · rcases hj with hj | hj | ⟨hkd, c, hc, hcs, hcd, hcn⟩
        · exact Or.inl (Or.inl (by rw [hl]; exact hj))
        · exact Or.inl (Or.inr (Or.inl (by rw [hl]; exact hj)))
        · by_cases hpk : c.pk = pk2 kind name
          · have hfind := cfgFind_of_mem hs.side.cfg hc hpk
            obtain ⟨e1, e2⟩ := pk2_inj (hs.side.cfg.kinds c hc).2 hk.2 hpk
            have hkind : kind = "service-defaults" := by rw [← hk.1, ← e1, hcs, lc_sd]
            cases hd : dest with
            | true => exact Or.inl (hnew ⟨hkind, hd⟩ hkd (hcn.symm.trans e2))
            | false =>
              right
              rw [hstale]
              apply List.mem_append_right
              unfold cfgOver
              rw [hfind]
              simp only
              rw [if_pos ⟨hkind, hcd, hd⟩]
              simp only [List.mem_singleton]
              show ksnKey x0.kind x0.name = _
              rw [hkd]; exact ksnKey_congr (hcn.symm.trans e2)
          · left; right; right
            refine ⟨hkd, c, ?_, hcs, hcd, hcn⟩
            rw [hcfg]
            rcases mem_tupsert_of_mem (lt := strLt) (r := (⟨kind, name, dest, tok, create, idx⟩ : CfgRow)) hc with h1 | h1
            · exact h1
            · exact absurd h1 hpk
      · exact Or.inr (by rw [hstale]; exact List.mem_append_left _ hst)
    rw [hksn] at hx0
    split at hx0
    · next hcond =>
      rcases mem_ksnUpsert hx0 with h1 | ⟨h1, h2⟩
      · exact hold h1
      · exact Or.inl (hnew hcond h1 (by rw [h2]))
    · exact hold hx0

theorem dinv_configDelete (s : XState) (kind name : String) (hk : NF kind) (hs : DInv s) : DInv (configDelete s kind name) := by
  rcases configDelete_spec s kind name with he | ⟨x, hx, hcfg, hksn, hstale, hvip⟩
  · rw [he]; exact hs
  have f := xframe_configDelete s kind name
  generalize configDelete s kind name = s' at *
  have hcat : ∀ q, s'.cat q = s.cat q := f.cat
  have hl : s'.loc.rows = s.loc.rows := by rw [loc_eq_cat, loc_eq_cat, hcat]
  obtain ⟨mx, kx⟩ := tfind_some (show tfind CfgRow.pk (pk2 kind name) s.cfg = some x from hx)
  have hxn : lc x.name = lc name := (pk2_inj (hs.side.cfg.kinds x mx).2 hk kx).2
  have hkeep : ∀ y ∈ s.kindNames, (x.kind = "service-defaults" → x.dest = true → y.kind = .destination → lc y.name ≠ lc name) →
      y ∈ s'.kindNames := by
    intro y hy hc
    rw [hksn]
    split
    · next hcond =>
      refine mem_terase.mpr ⟨hy, fun hpk => ?_⟩
      obtain ⟨a, b⟩ := ksnRow_pk hpk
      exact hc hcond.1 hcond.2 a b
    · exact hy
  refine ⟨⟨fun q => by rw [hcat]; exact hs.side.sync q, fun q => by rw [hcat]; exact hs.side.srt q,
      ⟨hcfg ▸ sortedBy_terase _ _ hs.side.cfg.srt, fun c hc => by rw [hcfg] at hc; exact hs.side.cfg.kinds c (mem_terase.mp hc).1⟩,
      by rw [hl]; exact hs.side.real⟩, ?_, ?_, ?_⟩
  · rcases hvip with ⟨e1, e2⟩ | ⟨e1, e2⟩
    · exact vipI_mono (fun q r hr => by rw [← hcat q]; exact hr) (fun a ha => by rw [e1]; exact ha)
        (fun k hk' => by rw [e2]; exact hk') hs.vip
    · exact vipI_erase hcat _ e1 e2 hs.vip
  · refine ⟨?_, ?_, ?_⟩
    · intro r hr
      rw [hl] at hr
      obtain ⟨y, hy, h1, h2⟩ := hs.complete.inst r hr
      exact ⟨y, hkeep y hy (fun _ _ hd _ => absurd (h1.symm.trans hd) (hs.side.real r hr).2), h1, h2⟩
    · intro r hr n hc hne
      rw [hl] at hr
      obtain ⟨y, hy, h1, h2⟩ := hs.complete.conn r hr n hc hne
      exact ⟨y, hkeep y hy (fun _ _ hd _ => by rw [h1] at hd; cases hd), h1, h2⟩
    · intro c hc h1 h2
      rw [hcfg] at hc
      obtain ⟨mc, kc⟩ := mem_terase.mp hc
      obtain ⟨y, hy, h3, h4⟩ := hs.complete.dest c mc h1 h2
      refine ⟨y, hkeep y hy (fun hxs _ _ hn => kc ?_), h3, h4⟩
      rw [← kx]
      show pk2 c.kind c.name = pk2 x.kind x.name
      rw [h1, hxs]
      exact pk2_congr rfl (h4.symm.trans (hn.trans hxn.symm))
  · intro x0 hx0
    have hm : x0 ∈ s.kindNames ∧ (x.kind = "service-defaults" ∧ x.dest = true → x0.pk ≠ ksnKey .destination name) := by
      rw [hksn] at hx0
      split at hx0
      · exact ⟨(mem_terase.mp hx0).1, fun _ => (mem_terase.mp hx0).2⟩
      · next hcond => exact ⟨hx0, fun hh => absurd hh hcond⟩
    rcases hs.sound x0 hm.1 with hj | hst
    · rcases hj with hj | hj | ⟨hkd, c, hc, hcs, hcd, hcn⟩
      · exact Or.inl (Or.inl (by rw [hl]; exact hj))
      · exact Or.inl (Or.inr (Or.inl (by rw [hl]; exact hj)))
      · by_cases hpk : c.pk = pk2 kind name
        · have hcx : c = x := sortedBy_unique hs.side.cfg.srt hc mx (hpk.trans kx.symm)
          subst hcx
          exfalso
          refine hm.2 ⟨hcs, hcd⟩ ?_
          show ksnKey x0.kind x0.name = _
          rw [hkd]; exact ksnKey_congr (hcn.symm.trans hxn)
        · exact Or.inl (Or.inr (Or.inr ⟨hkd, c, by rw [hcfg]; exact mem_terase.mpr ⟨hc, hpk⟩, hcs, hcd, hcn⟩))
    · exact Or.inr (by rw [hstale]; exact hst)

/-! ### every reachable state -/

theorem DInv.empty : DInv XState.empty := by
  refine ⟨⟨SyncAll.empty, ?_, CfgOk.empty, ?_⟩, ?_, ⟨?_, ?_, ?_⟩, ?_⟩
  · intro q
    have : (XState.empty.cat q) = {} := by
      unfold XState.cat XState.empty
      split
      · rfl
      · simp [tfind]
    rw [this]; exact sortedBy_nil _
  · intro r hr; simp [XState.empty, Cat.rows] at hr
  · intro q r hr
    have : (XState.empty.cat q) = {} := by
      unfold XState.cat XState.empty
      split
      · rfl
      · simp [tfind]
    rw [this] at hr; simp [Cat.rows] at hr
  · intro r hr; simp [XState.empty, Cat.rows] at hr
  · intro r hr; simp [XState.empty, Cat.rows] at hr
  · intro c hc; simp [XState.empty] at hc
  · intro x hx; simp [XState.empty] at hx

theorem dinv_closed : SvcClosed SvcReq.real DInv where
  aux := fun s s' h hs => dinv_same (SameRows.of_aux h) hs
  setSt := fun s p st' h hs => dinv_same (SameRows.of_setSt s p st' h) hs
  ensureService := fun hw h hs => dinv_ensureService hw h hs
  deleteService := fun h hs => dinv_deleteService h hs
  configUpsert := fun hk h hs => dinv_configUpsert hk h hs
  configDelete := fun s kind name hk hs => dinv_configDelete s kind name hk hs
  typical := fun x => ⟨by simp [typicalReq], by simp [typicalReq]⟩

theorem dinv_replayX (log : XLog) (hw : XLog.reqOk SvcReq.real log) : DInv (replayX XState.empty log) :=
  sc_replayX dinv_closed log _ hw DInv.empty

end CV.Store
