/-
Helper lemmas for C11: the invariant that makes the RESUME path of `Subscribe` correct in clean
schedules: a materializer whose index equals the index of the newest item of the live topic
buffer holds exactly the query result of that item's commit, and nothing that touches the key
has been published since.
-/
import CV.Proofs.StreamGuard
namespace CV.Stream

/-- the queued batches are a chain of faithful steps from the catalog as of the last published
    batch (`pc`) to the current catalog -/
def QChain (pc : Cat) : List Batch → Cat → Prop
  | [], cat => pc = cat
  | b :: r, cat => (∀ k, ViewEq (query k b.cat) (applyEvs (query k pc) (evsFor k b.evs))) ∧ QChain b.cat r cat

theorem QChain.snoc {pc cat : Cat} {q : List Batch} (h : QChain pc q cat) (b : Batch)
    (hf : ∀ k, ViewEq (query k b.cat) (applyEvs (query k cat) (evsFor k b.evs))) :
    QChain pc (q ++ [b]) b.cat := by
  induction q generalizing pc with
  | nil => cases h; exact ⟨hf, rfl⟩
  | cons a r ih => exact ⟨h.1, ih h.2⟩

/-- what is known about one pending step of a subscriber of `k` -/
def StepOk (y : Sys) (k : Key) : Step → Prop
  | .nstf => True
  | .eos si post =>
      (∀ b ∈ y.queue, si < b.idx) ∧ si ≤ y.lastIdx ∧
      (∀ it, lookup? k y.lasts = some it → it.idx = si → ViewEq post it.post)
  | .item x =>
      (∀ b ∈ y.queue, x.idx < b.idx) ∧ x.idx ≤ y.lastIdx ∧
      (∀ it, lookup? k y.lasts = some it → it.idx = x.idx → ViewEq x.post it.post)

structure RInv (y : Sys) (pc : Cat) : Prop where
  chain : QChain pc y.queue y.cat
  qsort : y.queue.Pairwise (fun a b => a.idx < b.idx)
  qle   : ∀ b ∈ y.queue, b.idx ≤ y.lastIdx
  qpos  : ∀ b ∈ y.queue, 0 < b.idx
  lbuf  : ∀ k it, lookup? k y.lasts = some it → hasBuf y k = true
  lpost : ∀ k it, lookup? k y.lasts = some it → ViewEq it.post (query k pc)
  lq    : ∀ k it, lookup? k y.lasts = some it → it.idx ≤ y.lastIdx ∧ ∀ b ∈ y.queue, it.idx < b.idx
  cidx  : ∀ c ∈ y.clients, c.m.index ≤ y.lastIdx ∧ ∀ b ∈ y.queue, c.m.index < b.idx
  p2    : ∀ c ∈ y.clients, c.m.index ≠ 0 → ∀ it, lookup? c.key y.lasts = some it → it.idx = c.m.index →
            IsFilterOf c.authz c.key c.m.view it.post
  pend  : ∀ c ∈ y.clients, c.sub = .opened → ∀ st ∈ c.inbox, StepOk y c.key st
  cpend : ∀ e ∈ y.cache, ∀ st ∈ e.steps, StepOk y e.key st

theorem RInv.init (ttl : Bool) : RInv (Sys.init ttl) Cat.empty := by
  refine ⟨rfl, ?_, ?_, ?_, ?_, ?_, ?_, ?_, ?_, ?_, ?_⟩ <;> simp [Sys.init, lookup?]

/-! ### commit -/

theorem StepOk.commit {y : Sys} {k : Key} {st : Step} (idx : Nat) (w : Write) (hi : y.lastIdx < idx)
    (h : StepOk y k st) : StepOk (commit y idx w) k st := by
  unfold CV.Stream.commit
  cases st with
  | nstf => trivial
  | eos si post =>
    obtain ⟨h1, h2, h3⟩ := h
    refine ⟨?_, by simp only; omega, h3⟩
    intro b hb
    rcases List.mem_append.mp hb with hb | hb
    · exact h1 b hb
    · simp only [List.mem_singleton] at hb; subst hb; simp only; omega
  | item x =>
    obtain ⟨h1, h2, h3⟩ := h
    refine ⟨?_, by simp only; omega, h3⟩
    intro b hb
    rcases List.mem_append.mp hb with hb | hb
    · exact h1 b hb
    · simp only [List.mem_singleton] at hb; subst hb; simp only; omega

theorem RInv.commit {y : Sys} {pc : Cat} (h : RInv y pc) (idx : Nat) (w : Write) (hi : y.lastIdx < idx)
    (hf : Faithful y.cat idx w) : RInv (commit y idx w) pc := by
  have hle := Nat.le_of_lt hi
  refine ⟨?_, ?_, ?_, ?_, ?_, h.lpost, ?_, ?_, h.p2, ?_, ?_⟩
  · exact h.chain.snoc ⟨idx, (applyWrite idx y.cat w).2.1, (applyWrite idx y.cat w).2.2, (applyWrite idx y.cat w).1⟩ hf
  · show (y.queue ++ [_]).Pairwise _
    rw [List.pairwise_append]
    refine ⟨h.qsort, by simp, ?_⟩
    intro a ha b hb
    simp only [List.mem_singleton] at hb; subst hb
    have := h.qle a ha
    simp only; omega
  · intro b hb
    show b.idx ≤ idx
    rcases List.mem_append.mp hb with hb | hb
    · exact Nat.le_trans (h.qle b hb) hle
    · simp only [List.mem_singleton] at hb; subst hb; exact Nat.le_refl _
  · intro b hb
    rcases List.mem_append.mp hb with hb | hb
    · exact h.qpos b hb
    · simp only [List.mem_singleton] at hb; subst hb; show 0 < idx; omega
  · exact h.lbuf
  · intro k it hl
    obtain ⟨h1, h2⟩ := h.lq k it hl
    refine ⟨Nat.le_trans h1 hle, ?_⟩
    intro b hb
    rcases List.mem_append.mp hb with hb | hb
    · exact h2 b hb
    · simp only [List.mem_singleton] at hb; subst hb; simp only; omega
  · intro c hc
    obtain ⟨h1, h2⟩ := h.cidx c hc
    refine ⟨Nat.le_trans h1 hle, ?_⟩
    intro b hb
    rcases List.mem_append.mp hb with hb | hb
    · exact h2 b hb
    · simp only [List.mem_singleton] at hb; subst hb; simp only; omega
  · intro c hc ho st hst
    exact (h.pend c hc ho st hst).commit idx w hi
  · intro e he st hst
    exact (h.cpend e he st hst).commit idx w hi

/-! ### publishOne -/

theorem foldl_publishKey_lasts_eq (b : Batch) (keys : List Key) (y : Sys) (k : Key) :
    lookup? k (keys.foldl (publishKey b) y).lasts =
      if k ∈ keys ∧ hasBuf y k = true then some (mkItem k b) else lookup? k y.lasts := by
  induction keys generalizing y with
  | nil => simp
  | cons a r ih =>
    rw [List.foldl_cons, ih]
    have hb : hasBuf (publishKey b y a) k = hasBuf y k := hasBuf_congr (publishKey_shape b y a) k
    rw [hb, publishKey_lasts]
    by_cases hr : k ∈ r
    · by_cases hk : hasBuf y k = true
      · simp [hr, hk]
      · simp only [hr, hk, and_false, ↓reduceIte, List.mem_cons, or_true]
        by_cases ha : hasBuf y a = true
        · simp only [ha, ↓reduceIte, lookup?_upsert]
          have : k ≠ a := by intro e; rw [e] at hk; exact hk ha
          simp [this]
        · simp [ha]
    · simp only [hr, false_and, ↓reduceIte, List.mem_cons, or_false]
      by_cases hka : k = a
      · subst hka
        by_cases ha : hasBuf y k = true
        · simp [ha, lookup?_upsert]
        · simp [ha]
      · by_cases ha : hasBuf y a = true
        · simp [ha, lookup?_upsert, hka]
        · simp [ha, hka]

theorem publishOne_lasts {y : Sys} {b : Batch} {rest : List Batch} (hq : y.queue = b :: rest) (k : Key) :
    lookup? k (publishOne y).lasts =
      if k ∈ keysOf b.evs ∧ hasBuf y k = true then some (mkItem k b) else lookup? k y.lasts := by
  rw [publishOne_eq y b rest hq, foldl_publishKey_lasts_eq, hasBuf_closeAcl]

theorem publishOne_hasBuf {y : Sys} {b : Batch} {rest : List Batch} (hq : y.queue = b :: rest) (k : Key) :
    hasBuf (publishOne y) k = hasBuf y k := by
  rw [publishOne_eq y b rest hq, hasBuf_congr (foldl_publishKey_shape b _ _), hasBuf_closeAcl]

theorem publishOne_cache {y : Sys} {b : Batch} {rest : List Batch} (hq : y.queue = b :: rest) :
    (publishOne y).cache = y.cache.map fun e =>
      if e.key ∈ keysOf b.evs ∧ hasBuf y e.key = true then { e with tail := e.tail ++ [mkItem e.key b] } else e := by
  have hn : (keysOf b.evs).Nodup := nodup_dedupKeys _
  rw [publishOne_eq y b rest hq, foldl_publishKey_cache b (keysOf b.evs) hn]
  apply List.map_congr_left
  intro e _
  rw [hasBuf_closeAcl]

/-- a pending step stays fine when the head batch is published -/
theorem StepOk.publish {y : Sys} {pc : Cat} (h : RInv y pc) {b : Batch} {rest : List Batch} (hq : y.queue = b :: rest)
    {k : Key} {st : Step} (hs : StepOk y k st) : StepOk (publishOne y) k st := by
  obtain ⟨-, hqu, hli⟩ := publishOne_cat_queue hq
  have hbq : b ∈ y.queue := by rw [hq]; exact List.mem_cons_self
  have hsub : ∀ x ∈ rest, x ∈ y.queue := fun x hx => by rw [hq]; exact List.mem_cons_of_mem _ hx
  cases st with
  | nstf => trivial
  | eos si post =>
    obtain ⟨h1, h2, h3⟩ := hs
    refine ⟨fun x hx => h1 x (hsub x (hqu ▸ hx)), hli ▸ h2, ?_⟩
    intro it hl hidx
    rw [publishOne_lasts hq] at hl
    split at hl
    · simp only [Option.some.injEq] at hl
      subst hl
      have := h1 b hbq
      simp only [mkItem] at hidx
      omega
    · exact h3 it hl hidx
  | item x =>
    obtain ⟨h1, h2, h3⟩ := hs
    refine ⟨fun z hz => h1 z (hsub z (hqu ▸ hz)), hli ▸ h2, ?_⟩
    intro it hl hidx
    rw [publishOne_lasts hq] at hl
    split at hl
    · simp only [Option.some.injEq] at hl
      subst hl
      have := h1 b hbq
      simp only [mkItem] at hidx
      omega
    · exact h3 it hl hidx

theorem RInv.publishOne {y : Sys} {pc : Cat} (h : RInv y pc) :
    ∃ pc', RInv (publishOne y) pc' := by
  cases hq : y.queue with
  | nil => exact ⟨pc, by unfold CV.Stream.publishOne; rw [hq]; exact h⟩
  | cons b rest =>
    refine ⟨b.cat, ?_⟩
    obtain ⟨hcat, hqu, hli⟩ := publishOne_cat_queue hq
    have hbq : b ∈ y.queue := by rw [hq]; exact List.mem_cons_self
    have hsub : ∀ x ∈ rest, x ∈ y.queue := fun x hx => by rw [hq]; exact List.mem_cons_of_mem _ hx
    have hch := h.chain
    rw [hq] at hch
    have hso := h.qsort
    rw [hq, List.pairwise_cons] at hso
    refine ⟨by rw [hqu, hcat]; exact hch.2, by rw [hqu]; exact hso.2,
      by rw [hqu, hli]; exact fun x hx => h.qle x (hsub x hx),
      by rw [hqu]; exact fun x hx => h.qpos x (hsub x hx), ?_, ?_, ?_, ?_, ?_, ?_, ?_⟩
    · -- lbuf
      intro k it hl
      rw [publishOne_hasBuf hq]
      rw [publishOne_lasts hq] at hl
      split at hl
      · rename_i hk; exact hk.2
      · exact h.lbuf k it hl
    · -- lpost
      intro k it hl
      rw [publishOne_lasts hq] at hl
      split at hl
      · simp only [Option.some.injEq] at hl
        subst hl
        exact ViewEq.refl _
      · rename_i hk
        have hold := h.lpost k it hl
        have hbuf := h.lbuf k it hl
        have hnk : k ∉ keysOf b.evs := fun hm => hk ⟨hm, hbuf⟩
        have he : evsFor k b.evs = [] :=
          Classical.byContradiction fun hc => hnk ((mem_keysOf k b.evs).mpr hc)
        have := hch.1 k
        rw [he, applyEvs_nil] at this
        exact hold.trans this.symm
    · -- lq
      intro k it hl
      rw [hli, hqu]
      rw [publishOne_lasts hq] at hl
      split at hl
      · simp only [Option.some.injEq] at hl
        subst hl
        exact ⟨h.qle b hbq, fun x hx => hso.1 x hx⟩
      · obtain ⟨h1, h2⟩ := h.lq k it hl
        exact ⟨h1, fun x hx => h2 x (hsub x hx)⟩
    · -- cidx
      intro c' hc'
      obtain ⟨c, hc, hm, -⟩ := publishOne_mem hq c' hc'
      rw [hm, hli, hqu]
      obtain ⟨h1, h2⟩ := h.cidx c hc
      exact ⟨h1, fun x hx => h2 x (hsub x hx)⟩
    · -- p2
      intro c' hc' hi it hl hidx
      obtain ⟨c, hc, hm, hk, -, -, -, -, -, haz⟩ := publishOne_mem hq c' hc'
      rw [hm] at hi hidx ⊢
      rw [haz]
      rw [hk, publishOne_lasts hq] at hl
      rw [hk]
      split at hl
      · simp only [Option.some.injEq] at hl
        subst hl
        have := (h.cidx c hc).2 b hbq
        simp only [mkItem] at hidx
        omega
      · exact h.p2 c hc hi it hl hidx
    · -- pend
      intro c' hc' ho st hst
      obtain ⟨c, hc, -, hk, -, -, -, hs, hin, -⟩ := publishOne_mem hq c' hc'
      have hop := hs ho
      have hat : attached c = true := by simp [attached, hop]
      rw [hk]
      rw [hin] at hst
      simp only [hat, and_true] at hst
      by_cases hkk : c.key ∈ keysOf b.evs
      · simp only [hkk, ↓reduceIte] at hst
        rcases List.mem_append.mp hst with hst | hst
        · exact (h.pend c hc hop st hst).publish h hq
        · simp only [List.mem_singleton] at hst
          subst hst
          have hb' : hasBuf y c.key = true := (hasBuf_iff y c.key).mpr ⟨c, hc, rfl, hat⟩
          refine ⟨?_, ?_, ?_⟩
          · rw [hqu]; exact fun x hx => hso.1 x hx
          · rw [hli]; exact h.qle b hbq
          · intro it hl _
            rw [publishOne_lasts hq] at hl
            simp only [hkk, hb', and_self, ↓reduceIte, Option.some.injEq] at hl
            subst hl
            exact ViewEq.refl _
      · simp only [hkk, ↓reduceIte] at hst
        exact (h.pend c hc hop st hst).publish h hq
    · -- cpend
      intro e' he' st hst
      rw [publishOne_cache hq] at he'
      obtain ⟨e, he, rfl⟩ := List.mem_map.mp he'
      by_cases hkk : e.key ∈ keysOf b.evs ∧ hasBuf y e.key = true
      · simp only [hkk, and_self, ↓reduceIte] at hst ⊢
        rw [steps_append_tail] at hst
        rcases List.mem_append.mp hst with hst | hst
        · exact (h.cpend e he st hst).publish h hq
        · simp only [List.mem_singleton] at hst
          subst hst
          refine ⟨?_, ?_, ?_⟩
          · rw [hqu]; exact fun x hx => hso.1 x hx
          · rw [hli]; exact h.qle b hbq
          · intro it hl _
            rw [publishOne_lasts hq] at hl
            simp only [hkk, and_self, ↓reduceIte, Option.some.injEq] at hl
            subst hl
            exact ViewEq.refl _
      · simp only [hkk, ↓reduceIte] at hst ⊢
        exact (h.cpend e he st hst).publish h hq

/-! ### steps that replace one client -/

theorem StepOk.mono_lasts {y y' : Sys} {k : Key} {st : Step} (hq : y'.queue = y.queue) (hi : y'.lastIdx = y.lastIdx)
    (hl : ∀ it, lookup? k y'.lasts = some it → lookup? k y.lasts = some it)
    (h : StepOk y k st) : StepOk y' k st := by
  cases st with
  | nstf => trivial
  | eos si post => exact ⟨hq ▸ h.1, hi ▸ h.2.1, fun it hit => h.2.2 it (hl it hit)⟩
  | item x => exact ⟨hq ▸ h.1, hi ▸ h.2.1, fun it hit => h.2.2 it (hl it hit)⟩

/-- generic step: client `c` is replaced by `c'` (same id and key); lasts may lose entries and the
    cache may be replaced; catalog, queue and last index are unchanged -/
theorem RInv.replace {y : Sys} {pc : Cat} (h : RInv y pc) {c : Client} (c' : Client) (ca : List CacheEnt)
    (la : List (Key × Item)) (hc : c ∈ y.clients) (e : c'.id = c.id) (hk : c'.key = c.key)
    (hla : ∀ k it, lookup? k la = some it → lookup? k y.lasts = some it)
    (hlb : ∀ k it, lookup? k la = some it → hasBuf (setClient y c') k = true)
    (hidx : c'.m.index ≤ y.lastIdx ∧ ∀ b ∈ y.queue, c'.m.index < b.idx)
    (hp2 : c'.m.index ≠ 0 → ∀ it, lookup? c.key y.lasts = some it → it.idx = c'.m.index →
      IsFilterOf c'.authz c'.key c'.m.view it.post)
    (hpend : c'.sub = .opened → ∀ st ∈ c'.inbox, StepOk y c.key st)
    (hca : ∀ en ∈ ca, ∀ st ∈ en.steps, StepOk y en.key st) :
    RInv { setClient { y with cache := ca } c' with lasts := la } pc := by
  have hmono : ∀ k st, StepOk y k st → StepOk { setClient { y with cache := ca } c' with lasts := la } k st :=
    fun k st hs => StepOk.mono_lasts (y := y) (y' := { setClient { y with cache := ca } c' with lasts := la })
      rfl rfl (hla k) hs
  refine ⟨h.chain, h.qsort, h.qle, h.qpos, ?_, ?_, ?_, ?_, ?_, ?_, ?_⟩
  · intro k it hl; exact hlb k it hl
  · intro k it hl; exact h.lpost k it (hla k it hl)
  · intro k it hl; exact h.lq k it (hla k it hl)
  · intro d hd
    rcases mem_setClient (y := { y with cache := ca }) hd with rfl | ⟨hd', -⟩
    · exact hidx
    · exact h.cidx d hd'
  · intro d hd hi it hl hidx'
    rcases mem_setClient (y := { y with cache := ca }) hd with rfl | ⟨hd', -⟩
    · exact hp2 hi it (hk ▸ hla _ it hl) hidx'
    · exact h.p2 d hd' hi it (hla _ it hl) hidx'
  · intro d hd ho st hst
    rcases mem_setClient (y := { y with cache := ca }) hd with rfl | ⟨hd', -⟩
    · rw [hk]; exact hmono _ _ (hpend ho st hst)
    · exact hmono _ _ (h.pend d hd' ho st hst)
  · intro en hen st hst
    exact hmono _ _ (hca en hen st hst)

/-- after one handler step the index is 0, or the step's index with the step's ghost result -/
theorem handle_index {m : Mat} (hk : HOk m) (st : Step) :
    (handle m st).index = 0 ∨
    (∃ si post, st = .eos si post ∧ (handle m st).index = si ∧ (handle m st).expect = post) ∨
    (∃ x, st = .item x ∧ (handle m st).index = x.idx ∧ (handle m st).expect = x.post) := by
  cases st with
  | nstf =>
    left
    unfold handle
    cases m.h <;> simp [Mat.reset]
  | eos si post =>
    unfold handle
    cases hh : m.h with
    | snap acc => right; left; exact ⟨si, post, rfl, rfl, rfl⟩
    | bad => exact absurd hh hk.notBad
    | stream => left; rfl
    | resume => left; rfl
  | item x =>
    unfold handle
    cases hh : m.h with
    | snap acc => left; exact hk.snap acc hh
    | bad => exact absurd hh hk.notBad
    | stream => right; right; exact ⟨x, rfl, rfl, rfl⟩
    | resume => right; right; exact ⟨x, rfl, rfl, rfl⟩

theorem stepOk_visible {y : Sys} {k : Key} {a : Authz} {st0 st : Step} (hv : visible a k.topic st0 = some st)
    (h : StepOk y k st0) : StepOk y k st := by
  cases st0 with
  | nstf => simp only [visible, Option.some.injEq] at hv; subst hv; trivial
  | eos i p => simp only [visible, Option.some.injEq] at hv; subst hv; exact h
  | item it =>
    simp only [visible] at hv
    split at hv
    · cases hv
    · simp only [Option.some.injEq] at hv; subst hv; exact h

theorem RInv.next {y : Sys} {pc : Cat} (h : RInv y pc) (hi : Inv y) (id : Nat) : RInv (next y id).1 pc := by
  unfold CV.Stream.next CV.Stream.nextWith
  cases hg : getClient y id with
  | none => exact h
  | some c =>
    obtain ⟨hc, -⟩ := getClient_mem hg
    simp only
    have hlb : ∀ (c' : Client), c'.id = c.id → c'.key = c.key → c'.sub = c.sub →
        ∀ k it, lookup? k y.lasts = some it → hasBuf (setClient y c') k = true := by
      intro c' e hk hs k it hl
      rw [hasBuf_congr (setClient_shape hi.ids hc e hk hs)]
      exact h.lbuf k it hl
    have hzero : (0 : Nat) ≤ y.lastIdx ∧ ∀ b ∈ y.queue, 0 < b.idx := ⟨Nat.zero_le _, h.qpos⟩
    cases hsub : c.sub with
    | none => exact h
    | force =>
      simp only
      by_cases hr : c.rpc
      · simp only [hr, ↓reduceIte]
        exact h.replace _ y.cache y.lasts hc rfl rfl (fun _ _ x => x) (hlb _ rfl rfl hsub.symm) hzero
          (by intro hx; simp [Mat.reset] at hx) (by intro ho; simp at ho) h.cpend
      · simp only [hr]
        exact h.replace _ y.cache y.lasts hc rfl rfl (fun _ _ x => x) (hlb _ rfl rfl rfl) (h.cidx c hc)
          (h.p2 c hc) (fun ho => h.pend c hc ho) h.cpend
    | acl =>
      simp only
      by_cases hr : c.rpc
      · simp only [hr, ↓reduceIte]
        exact h.replace _ y.cache y.lasts hc rfl rfl (fun _ _ x => x) (hlb _ rfl rfl hsub.symm) hzero
          (by intro hx; simp [Mat.reset] at hx) (by intro ho; simp at ho) h.cpend
      · simp only [hr]
        exact h.replace _ y.cache y.lasts hc rfl rfl (fun _ _ x => x) (hlb _ rfl rfl rfl) (h.cidx c hc)
          (h.p2 c hc) (fun ho => h.pend c hc ho) h.cpend
    | opened =>
      simp only
      cases hin : c.inbox with
      | nil => exact h
      | cons st0 rest =>
        simp only
        have hk0 := hi.hok c hc
        have hcons := hi.consume hc hsub hin
        have hst0 : StepOk y c.key st0 := h.pend c hc hsub st0 (by rw [hin]; exact List.mem_cons_self)
        have hrestok : ∀ s' ∈ rest, StepOk y c.key s' := fun s' hs' =>
          h.pend c hc hsub s' (by rw [hin]; exact List.mem_cons_of_mem _ hs')
        cases hv : visible c.authz c.key.topic st0 with
        | none =>
          simp only
          exact h.replace _ y.cache y.lasts hc rfl rfl (fun _ _ x => x) (hlb _ rfl rfl hsub.symm) (h.cidx c hc)
            (h.p2 c hc) (fun _ => hrestok) h.cpend
        | some st =>
          rw [hv] at hcons
          obtain ⟨-, hex, -⟩ := hcons
          have hst : StepOk y c.key st := stepOk_visible hv hst0
          have hidx : (handle c.m st).index ≤ y.lastIdx ∧ ∀ b ∈ y.queue, (handle c.m st).index < b.idx := by
            rcases handle_index hk0 st with h0 | ⟨si, post, rfl, h1, -⟩ | ⟨x, rfl, h1, -⟩
            · rw [h0]; exact hzero
            · rw [h1]; exact ⟨hst.2.1, hst.1⟩
            · rw [h1]; exact ⟨hst.2.1, hst.1⟩
          have hp2 : (handle c.m st).index ≠ 0 → ∀ it, lookup? c.key y.lasts = some it →
              it.idx = (handle c.m st).index → IsFilterOf c.authz c.key (handle c.m st).view it.post := by
            intro hne it hl hix
            have hv' := hex hne
            rcases handle_index hk0 st with h0 | ⟨si, post, rfl, h1, h2⟩ | ⟨x, rfl, h1, h2⟩
            · exact absurd h0 hne
            · rw [h2] at hv'; rw [h1] at hix
              exact hv'.congr (hst.2.2 it hl hix)
            · rw [h2] at hv'; rw [h1] at hix
              exact hv'.congr (hst.2.2 it hl hix)
          simp only
          cases hsi : stepIdx st with
          | none =>
            simp only
            exact h.replace _ y.cache y.lasts hc rfl rfl (fun _ _ x => x) (hlb _ rfl rfl hsub.symm) hidx hp2
              (fun _ => hrestok) h.cpend
          | some i =>
            simp only
            exact h.replace _ y.cache y.lasts hc rfl rfl (fun _ _ x => x) (hlb _ rfl rfl hsub.symm) hidx hp2
              (fun _ => hrestok) h.cpend

theorem RInv.expire {y : Sys} {pc : Cat} (h : RInv y pc) : RInv (expire y) pc := by
  unfold CV.Stream.expire
  exact ⟨h.chain, h.qsort, h.qle, h.qpos, h.lbuf, h.lpost, h.lq, h.cidx, h.p2, h.pend, (by intro e he; cases he)⟩

theorem RInv.addClient {y : Sys} {pc : Cat} (h : RInv y pc) (id : Nat) (k : Key) (t : String) (r : Bool) (a : Authz) :
    RInv (addClient y id k t r a) pc := by
  unfold CV.Stream.addClient
  cases hg : getClient y id with
  | some c => simpa using h
  | none =>
    simp only [Option.isSome_none, Bool.false_eq_true, ↓reduceIte]
    refine ⟨h.chain, h.qsort, h.qle, h.qpos, ?_, h.lpost, h.lq, ?_, ?_, ?_, h.cpend⟩
    · intro k' it hl
      obtain ⟨c, hc, hk, ha⟩ := (hasBuf_iff y k').mp (h.lbuf k' it hl)
      exact (hasBuf_iff _ k').mpr ⟨c, List.mem_append_left _ hc, hk, ha⟩
    · intro c hc
      rcases List.mem_append.mp hc with hc | hc
      · exact h.cidx c hc
      · simp only [List.mem_singleton] at hc; subst hc
        exact ⟨Nat.zero_le _, h.qpos⟩
    · intro c hc hi it hl hidx
      rcases List.mem_append.mp hc with hc | hc
      · exact h.p2 c hc hi it hl hidx
      · simp only [List.mem_singleton] at hc; subst hc; simp at hi
    · intro c hc ho st hst
      rcases List.mem_append.mp hc with hc | hc
      · exact h.pend c hc ho st hst
      · simp only [List.mem_singleton] at hc; subst hc; simp at ho

theorem RInv.unsub {y : Sys} {pc : Cat} (h : RInv y pc) (hi : Inv y) (id : Nat) : RInv (unsub y id) pc := by
  unfold CV.Stream.unsub
  cases hg : getClient y id with
  | none => exact h
  | some c =>
    obtain ⟨hc, -⟩ := getClient_mem hg
    simp only
    by_cases ha : attached c
    · simp only [ha, not_true_eq_false, ↓reduceIte]
      have hoth : ∀ k, k ≠ c.key → hasBuf (setClient y { c with sub := .none, inbox := [] }) k = hasBuf y k :=
        fun k hk => hasBuf_setClient_other (c := c) (c' := { c with sub := .none, inbox := [] }) hi.ids hc rfl rfl hk
      by_cases hb : hasBuf (setClient y { c with sub := .none, inbox := [] }) c.key
      · simp only [hb, ↓reduceIte]
        refine h.replace { c with sub := .none, inbox := [] } y.cache y.lasts hc rfl rfl (fun _ _ x => x) ?_
          (h.cidx c hc) (h.p2 c hc) (by intro ho; simp at ho) h.cpend
        intro k it hl
        by_cases hk : k = c.key
        · rw [hk]; exact hb
        · rw [hoth k hk]; exact h.lbuf k it hl
      · simp only [hb, Bool.false_eq_true, ↓reduceIte]
        refine h.replace { c with sub := .none, inbox := [] } (y.cache.filter fun e => e.key ≠ c.key) (erase c.key y.lasts)
          hc rfl rfl ?_ ?_ (h.cidx c hc) (h.p2 c hc) (by intro ho; simp at ho)
          (fun en hen => h.cpend en (List.mem_filter.mp hen).1)
        · intro k it hl
          rw [lookup?_erase] at hl
          by_cases hk : k = c.key
          · simp [hk] at hl
          · simpa [hk] using hl
        · intro k it hl
          rw [lookup?_erase] at hl
          by_cases hk : k = c.key
          · simp [hk] at hl
          · simp only [hk, ↓reduceIte] at hl
            rw [hoth k hk]; exact h.lbuf k it hl
    · simp only [ha, not_false_eq_true, ↓reduceIte]
      exact h

theorem lasts_none_of_idle {y : Sys} {pc : Cat} (h : RInv y pc) (hna : ∀ d ∈ y.clients, attached d = false) (k : Key) :
    lookup? k y.lasts = none := by
  cases hl : lookup? k y.lasts with
  | none => rfl
  | some it =>
    obtain ⟨d, hd, -, ha⟩ := (hasBuf_iff y k).mp (h.lbuf k it hl)
    rw [hna d hd] at ha
    cases ha

theorem RInv.restore {y : Sys} {pc : Cat} (h : RInv y pc) (c : Cat) (hq : y.queue = [])
    (hna : ∀ d ∈ y.clients, attached d = false) : RInv (restore y c) c := by
  unfold CV.Stream.restore
  have hsame : (y.clients.map fun d => if d.sub = .opened then { d with sub := .force } else d) = y.clients := by
    calc _ = y.clients.map id := by
          apply List.map_congr_left
          intro d hd
          have := hna d hd
          simp only [attached, ne_eq, decide_not, Bool.not_eq_eq_eq_not, Bool.not_false, decide_eq_true_eq] at this
          simp [this]
      _ = y.clients := by simp
  rw [hsame]
  have hln := lasts_none_of_idle h hna
  refine ⟨(by rw [hq]; rfl), (by rw [hq]; exact List.Pairwise.nil), (by intro b hb; rw [hq] at hb; cases hb),
    (by intro b hb; rw [hq] at hb; cases hb), ?_, ?_, ?_, ?_, ?_, ?_, (by intro e he; cases he)⟩
  · intro k it hl; rw [hln k] at hl; cases hl
  · intro k it hl; rw [hln k] at hl; cases hl
  · intro k it hl; rw [hln k] at hl; cases hl
  · intro d hd
    exact ⟨(h.cidx d hd).1, by intro b hb; rw [hq] at hb; cases hb⟩
  · intro d hd _ it hl; rw [hln d.key] at hl; cases hl
  · intro d hd ho
    have := hna d hd
    simp [attached, ho] at this

/-! ### subscribe, including the resume path -/

/-- a clean subscription: nothing is queued; it may be RESUMED, served from the snapshot cache,
    or take a fresh snapshot that is spliced at the live tail -/
def CleanSubR (y : Sys) (id : Nat) : Prop :=
  y.queue = [] ∧
  match getClient y id with
  | none => True
  | some c => attached c = true ∨ resumes c (lookup? c.key y.lasts) = true ∨
      ((y.cache.find? (fun e => e.key = c.key)).isSome ∨
          (freshEnt c.key y.cat (lookup? c.key y.lasts)).tail = [])

theorem resumes_true {c : Client} {last : Option Item} (h : resumes c last = true) :
    c.m.index ≠ 0 ∧ ∃ it, last = some it ∧ it.idx = c.m.index := by
  unfold resumes at h
  simp only [ne_eq, Bool.and_eq_true, decide_eq_true_eq] at h
  obtain ⟨h1, h2⟩ := h
  cases last with
  | none => simp at h2
  | some it => exact ⟨h1, it, rfl, by simpa using h2⟩

/-- the key fact: a client that is resumed holds (the ACL-filter of) the current query result -/
theorem resume_view_current {y : Sys} {pc : Cat} (h : RInv y pc) (hq : y.queue = []) {c : Client} (hc : c ∈ y.clients)
    (hr : resumes c (lookup? c.key y.lasts) = true) : IsFilterOf c.authz c.key c.m.view (query c.key y.cat) := by
  obtain ⟨hne, it, hl, hidx⟩ := resumes_true hr
  have h1 := h.p2 c hc hne it hl hidx
  have h2 := h.lpost c.key it hl
  have hpc : pc = y.cat := by have := h.chain; rw [hq] at this; exact this
  rw [hpc] at h2
  exact h1.congr h2

theorem cleanSub_of_R {y : Sys} {id : Nat} {c : Client} (hg : getClient y id = some c) (hcl : CleanSubR y id)
    (hr : resumes c (lookup? c.key y.lasts) = false) : CleanSub y id := by
  obtain ⟨hq, hm⟩ := hcl
  refine ⟨hq, ?_⟩
  rw [hg] at hm ⊢
  simp only at hm ⊢
  rcases hm with ha | hres | ht
  · exact Or.inl ha
  · rw [hr] at hres; cases hres
  · exact Or.inr ⟨hr, ht⟩

theorem subscribe_resume_eq {y : Sys} {id : Nat} {c : Client} (hg : getClient y id = some c)
    (ha : attached c = false) (hr : resumes c (lookup? c.key y.lasts) = true) :
    subscribe y id = setClient y (openSub c []) := by
  unfold subscribe
  simp [hg, ha, hr]

theorem Inv.subscribeR {y : Sys} {pc : Cat} (h : Inv y) (hr : RInv y pc) (id : Nat) (hcl : CleanSubR y id) :
    Inv (CV.Stream.subscribe y id) := by
  cases hg : getClient y id with
  | none => unfold CV.Stream.subscribe; rw [hg]; exact h
  | some c =>
    obtain ⟨hc, -⟩ := getClient_mem hg
    by_cases ha : attached c = true
    · unfold CV.Stream.subscribe; simp [hg, ha]; exact h
    · have ha' : attached c = false := by simpa using ha
      by_cases hres : resumes c (lookup? c.key y.lasts) = true
      · rw [subscribe_resume_eq hg ha' hres]
        obtain ⟨hne, -⟩ := resumes_true hres
        have hv := resume_view_current hr hcl.1 hc hres
        have hkc := h.hok c hc
        -- the twin of a resumed subscriber holds the current direct-query result itself
        have htw : ∃ mu, Rel c.authz c.key c.m.start mu ∧
            Sim mu ([] ++ queueItems c.key y.queue) (query c.key y.cat) := by
          refine ⟨⟨.resume, query c.key y.cat, c.m.index, query c.key y.cat⟩, ?_, ?_⟩
          · refine ⟨Or.inl ⟨Or.inr (by simp [Mat.start, hne]), Or.inr rfl, fun _ => by simp [Mat.start, hne]⟩, hv, Iff.rfl⟩
          · rw [hcl.1]
            exact ⟨⟨by simp, fun h0 => absurd h0 hne, fun _ => hne, by intro acc hh; simp at hh⟩,
              fun _ => ViewEq.refl _⟩
        have := h.attach (c' := openSub c []) hc ha' rfl rfl rfl rfl hkc.start (h.exact c hc) htw
          (by intro st hst; cases hst) y.cache (fun e he => Or.inl he)
        exact this
      · exact Inv.subscribe h id (cleanSub_of_R hg hcl (by simpa using hres))

theorem MInv.subscribeR {y : Sys} (h : MInv y) (id : Nat) (hcl : CleanSubR y id) : MInv (CV.Stream.subscribe y id) := by
  cases hg : getClient y id with
  | none => unfold CV.Stream.subscribe; rw [hg]; exact h
  | some c =>
    obtain ⟨hc, -⟩ := getClient_mem hg
    by_cases ha : attached c = true
    · unfold CV.Stream.subscribe; simp [hg, ha]; exact h
    · have ha' : attached c = false := by simpa using ha
      by_cases hres : resumes c (lookup? c.key y.lasts) = true
      · rw [subscribe_resume_eq hg ha' hres]
        have := h.replace (openSub c []) y.cache y.lasts rfl (by
          intro _
          show Asc 0 (stepIdxs ([] ++ queueItems c.key y.queue)) y.lastIdx
          rw [hcl.1]
          exact Nat.zero_le _) h.cord
        exact this
      · exact MInv.subscribe h id (cleanSub_of_R hg hcl (by simpa using hres))

theorem stepOk_fresh {y : Sys} {pc : Cat} (h : RInv y pc) (hm : MInv y) (hq : y.queue = []) (k : Key) (last : Option Item)
    (ht : (freshEnt k y.cat last).tail = []) : ∀ st ∈ (freshEnt k y.cat last).steps, StepOk y k st := by
  have hpc : pc = y.cat := by have := h.chain; rw [hq] at this; exact this
  have hpost : ∀ it, lookup? k y.lasts = some it → ViewEq (query k y.cat) it.post := by
    intro it hl
    have := h.lpost k it hl
    rw [hpc] at this
    exact this.symm
  intro st hst
  unfold CacheEnt.steps at hst
  rw [ht] at hst
  simp only [freshEnt, List.map_nil, List.append_nil, List.map_map] at hst
  rcases List.mem_append.mp hst with hst | hst
  · obtain ⟨evs, -, rfl⟩ := List.mem_map.mp hst
    refine ⟨(by rw [hq]; intro b hb; cases hb), queryIdx_le hm.ib k, fun it hl _ => hpost it hl⟩
  · simp only [List.mem_singleton] at hst
    subst hst
    refine ⟨(by rw [hq]; intro b hb; cases hb), snapIdx_le hm.ib hm.one k, fun it hl _ => hpost it hl⟩

theorem RInv.subscribeR {y : Sys} {pc : Cat} (h : RInv y pc) (hi : Inv y) (hm : MInv y) (id : Nat)
    (hcl : CleanSubR y id) : RInv (subscribe y id) pc := by
  cases hg : getClient y id with
  | none => unfold CV.Stream.subscribe; rw [hg]; exact h
  | some c =>
    obtain ⟨hc, -⟩ := getClient_mem hg
    by_cases ha : attached c = true
    · unfold CV.Stream.subscribe; simp [hg, ha]; exact h
    · have ha' : attached c = false := by simpa using ha
      have hlb : ∀ inbox, ∀ k it, lookup? k y.lasts = some it → hasBuf (setClient y (openSub c inbox)) k = true :=
        fun inbox k it hl => hasBuf_setClient_mono (c' := openSub c inbox) hi.ids hc rfl ha' (h.lbuf k it hl)
      have hpre : ∀ st ∈ preamble c, StepOk y c.key st := by
        intro st hst
        unfold preamble at hst
        split at hst
        · simp only [List.mem_singleton] at hst; subst hst; trivial
        · cases hst
      by_cases hres : resumes c (lookup? c.key y.lasts) = true
      · rw [subscribe_resume_eq hg ha' hres]
        exact h.replace (openSub c []) y.cache y.lasts hc rfl rfl (fun _ _ x => x) (hlb []) (h.cidx c hc)
          (h.p2 c hc) (by intro _ st hst; cases hst) h.cpend
      · have hresf : resumes c (lookup? c.key y.lasts) = false := by simpa using hres
        obtain ⟨hq, hmm⟩ := hcl
        rw [hg] at hmm
        simp only at hmm
        unfold CV.Stream.subscribe
        simp only [hg, ha, Bool.false_eq_true, ↓reduceIte, hresf]
        cases hf : y.cache.find? (fun e => e.key = c.key) with
        | some en =>
          simp only
          have hen : en ∈ y.cache := List.mem_of_find?_eq_some hf
          have hek : en.key = c.key := by simpa using List.find?_some hf
          refine h.replace (openSub c (preamble c ++ en.steps)) y.cache y.lasts hc rfl rfl (fun _ _ x => x) (hlb _)
            (h.cidx c hc) (h.p2 c hc) ?_ h.cpend
          intro _ st hst
          rcases List.mem_append.mp hst with hst | hst
          · exact hpre st hst
          · rw [← hek]; exact h.cpend en hen st hst
        | none =>
          simp only
          have htail : (freshEnt c.key y.cat (lookup? c.key y.lasts)).tail = [] := by
            rcases hmm with hx | hx | hx
            · exact absurd hx ha
            · rw [hresf] at hx; cases hx
            · rw [hf] at hx
              simpa using hx
          have hfresh := stepOk_fresh h hm hq c.key (lookup? c.key y.lasts) htail
          refine h.replace (openSub c (preamble c ++ (freshEnt c.key y.cat (lookup? c.key y.lasts)).steps))
            (if y.ttl then y.cache ++ [freshEnt c.key y.cat (lookup? c.key y.lasts)] else y.cache) y.lasts
            hc rfl rfl (fun _ _ x => x) (hlb _) (h.cidx c hc) (h.p2 c hc) ?_ ?_
          · intro _ st hst
            rcases List.mem_append.mp hst with hst | hst
            · exact hpre st hst
            · exact hfresh st hst
          · intro en hen st hst
            split at hen
            · rcases List.mem_append.mp hen with hen | hen
              · exact h.cpend en hen st hst
              · simp only [List.mem_singleton] at hen
                subst hen
                exact hfresh st hst
            · exact h.cpend en hen st hst

end CV.Stream
