/-
C06, the per-node read paths NodeServices / NodeServiceList: index = the `node.<name>` row while the node
exists, the node extinction index afterwards. For a node name of at least two bytes, NUL-free node names in the
state and in the command: every primitive either leaves (node row, services on the node) alone or leaves
the query's index at the command's index.
-/
import CV.Proofs.StoreQueryKeys
import CV.Proofs.StoreQueryKv
import CV.Proofs.StoreCatApply
namespace CV.Store
open CV

/-- what NodeServices(n) shows: the node row and the service rows on that node (nothing when the node is absent) -/
def nsView (s : State) (n : String) : Option (Node × List Svc) :=
  match nodeFind s n with
  | some nd => some (nd, svcsOnNode s n)
  | none => none

theorem nsView_of {s s' : State} {n : String} (h1 : nodeFind s' n = nodeFind s n)
    (h2 : (nodeFind s n).isSome = true → svcsOnNode s' n = svcsOnNode s n) : nsView s' n = nsView s n := by
  unfold nsView
  rw [h1]
  cases hn : nodeFind s n with
  | none => rfl
  | some nd => simp only; rw [h2 (by rw [hn]; rfl)]

theorem nsView_find {s s' : State} {n : String} (h : nsView s' n = nsView s n) :
    (nodeFind s' n).isSome = (nodeFind s n).isSome := by
  unfold nsView at h
  cases h1 : nodeFind s' n <;> cases h2 : nodeFind s n <;> simp [h1, h2] at h ⊢

/-- the index NodeServices(n) reports -/
def nsIdx (s : State) (n : String) : Nat := (nodeServicesHead s n).1

theorem nodeFind_name {s : State} {n : String} {nd : Node} (h : nodeFind s n = some nd) : lc nd.name = lc n := by
  have := (tfind_some h).2
  exact this

theorem svcsOnNode_congr (s : State) {a b : String} (h : lc a = lc b) : svcsOnNode s a = svcsOnNode s b := by
  unfold svcsOnNode; rw [h]

theorem nodeKey_congr (ix : Ix) {a b : String} (h : lc a = lc b) : idxVal ix (nodeKey a) = idxVal ix (nodeKey b) := by
  apply idxVal_congr
  unfold nodeKey
  rw [lc_prefix_cancel]; exact h

theorem nsIdx_some {s : State} {n : String} {nd : Node} (h : nodeFind s n = some nd) : nsIdx s n = idxVal s.index (nodeKey n) := by
  unfold nsIdx nodeServicesHead
  rw [h]
  exact nodeKey_congr _ (nodeFind_name h)

theorem nsIdx_none {s : State} {n : String} (h : nodeFind s n = none) : nsIdx s n = idxVal s.index kNodeExt := by
  unfold nsIdx nodeServicesHead
  rw [h]

/-- the result of NodeServices(n) is a function of the view -/
theorem nodeServices_res_of_view {s s' : State} {n : String} (h : nsView s' n = nsView s n) :
    ((Query.nodeServices n).run s').2 = ((Query.nodeServices n).run s).2 := by
  unfold nsView at h
  simp only [Query.run, nodeServicesHead]
  cases h1 : nodeFind s' n with
  | none =>
    cases h2 : nodeFind s n with
    | none => simp
    | some nd => simp [h1, h2] at h
  | some nd' =>
    cases h2 : nodeFind s n with
    | none => simp [h1, h2] at h
    | some nd =>
      simp only [h1, h2, Option.some.injEq, Prod.mk.injEq] at h
      simp only
      rw [svcsOnNode_congr s' (nodeFind_name h1), svcsOnNode_congr s (nodeFind_name h2), h.1, h.2]

theorem idxVal_of_get {a b : Ix} {k k' : String} (h : idxGet a k = idxGet b k') : idxVal a k = idxVal b k' := by
  unfold idxVal; rw [h]

variable {n : String} {i : Nat} {s0 : State}

/-- a stable row is either untouched by the writes of a command or holds the command's index -/
theorem IxOps.same_or {a b : Ix} (h : IxOps i a b) (h0 : IdxLe i a) {k : String} (hk : Stable k) :
    idxVal b k = idxVal a k ∨ idxVal b k = i := by
  induction h with
  | refl => exact Or.inl rfl
  | set k' hh ih =>
    rw [idxVal_idxSet]; split
    · exact Or.inr rfl
    · exact ih
  | max k' hh ih =>
    rename_i ix2
    rw [idxVal_idxMax]; split
    · next he =>
      have e := idxVal_congr ix2 he
      have := (hh.le h0).val k
      rcases ih with ih | ih
      · by_cases hlt : idxVal ix2 k' ≤ i
        · by_cases heq : idxVal ix2 k' = i
          · left; rw [← ih, e]; omega
          · right; omega
        · omega
      · right; omega
    · exact ih
  | delSvc n _ ih => unfold idxVal at ih ⊢; rw [idxGet_idxDel, if_neg (hk.1 n)]; exact ih
  | delNode n _ ih => unfold idxVal at ih ⊢; rw [idxGet_idxDel, if_neg (hk.2 n)]; exact ih

structure NodeStep (n : String) (i : Nat) (s0 s : State) : Prop where
  le : IdxLe i s.index
  nf_svc : ∀ v ∈ s.svcs, NF v.node
  nf_node : ∀ nd ∈ s.nodes, NF nd.name
  view : (nsView s n = nsView s0 n ∧ nsIdx s n = nsIdx s0 n) ∨ nsIdx s n = i

/-- the generic step: new bounds, and either view and index are those of `s` or the index is fresh -/
theorem NodeStep.next {s s' : State} (h : NodeStep n i s0 s) (hle : IdxLe i s'.index) (hnf : ∀ v ∈ s'.svcs, NF v.node)
    (hnn : ∀ nd ∈ s'.nodes, NF nd.name)
    (hstep : (nsView s' n = nsView s n ∧ (nsIdx s' n = nsIdx s n ∨ nsIdx s' n = i)) ∨ nsIdx s' n = i) : NodeStep n i s0 s' := by
  refine ⟨hle, hnf, hnn, ?_⟩
  rcases hstep with ⟨hv, hp | hp⟩ | hf
  · rcases h.view with ⟨hvw, hi⟩ | hi
    · exact Or.inl ⟨hv.trans hvw, hp.trans hi⟩
    · exact Or.inr (hp.trans hi)
  · exact Or.inr hp
  · exact Or.inr hf

/-- a step that keeps the node row lookup, the services on the node and the `node.<n>` row -/
theorem NodeStep.same {s s' : State} (h : NodeStep n i s0 s) (t : Tbl1 i s s')
    (hnf : ∀ v ∈ s'.svcs, NF v.node) (hnn : ∀ nd ∈ s'.nodes, NF nd.name)
    (hf : nodeFind s' n = nodeFind s n)
    (hsv : (nodeFind s n).isSome = true → svcsOnNode s' n = svcsOnNode s n)
    (hk : (nodeFind s n).isSome = true → idxVal s'.index (nodeKey n) = idxVal s.index (nodeKey n)) : NodeStep n i s0 s' := by
  refine h.next (t.ops.le h.le) hnf hnn (Or.inl ⟨nsView_of hf hsv, ?_⟩)
  cases hnd : nodeFind s n with
  | some nd =>
    rw [nsIdx_some (hf.trans hnd), nsIdx_some hnd]
    exact Or.inl (hk (by rw [hnd]; rfl))
  | none =>
    rw [nsIdx_none (hf.trans hnd), nsIdx_none hnd]
    exact t.ops.same_or h.le stable_nodeExt

/-- a primitive that changes neither the nodes nor the services table, and no `node.<n>` row -/
theorem NodeStep.frame {s s' : State} (h : NodeStep n i s0 s) (t : Tbl1 i s s')
    (h1 : s'.nodes = s.nodes) (h2 : s'.svcs = s.svcs)
    (hk : idxGet s'.index (nodeKey n) = idxGet s.index (nodeKey n)) : NodeStep n i s0 s' :=
  h.same t (by rw [h2]; exact h.nf_svc) (by rw [h1]; exact h.nf_node) (by unfold nodeFind; rw [h1])
    (fun _ => by unfold svcsOnNode; rw [h2]) (fun _ => idxVal_of_get hk)

theorem lc_nodeKey_iff (a b : String) : lc (nodeKey a) = lc (nodeKey b) ↔ lc a = lc b := by
  unfold nodeKey; exact lc_prefix_cancel _ _ _

/-- `node.<m>` after an upsert of node `nd` -/
theorem nodeInsert_row (s : State) (nd : Node) (m : String) :
    idxVal (nodeInsert s nd).index (nodeKey m) =
      if lc m = lc nd.name then max (idxVal s.index (nodeKey nd.name)) nd.modify else idxVal s.index (nodeKey m) := by
  have h1 : idxGet (nodeInsert s nd).index (nodeKey m) =
      idxGet (idxMax (({ s with nodes := tupsert Node.pk strLt nd s.nodes } : State).maxIdx2 "nodes" nd.modify).index
        ("peer.~:node." ++ nd.name) nd.modify) (nodeKey m) := by
    unfold nodeInsert
    simp only
    rw [get_updateAll (offCat_nodeKey m)]
    rfl
  rw [idxVal_of_get h1, idxVal_idxMax]
  have hg : ∀ m', idxVal (({ s with nodes := tupsert Node.pk strLt nd s.nodes } : State).maxIdx2 "nodes" nd.modify).index (nodeKey m')
      = idxVal s.index (nodeKey m') := fun m' =>
    idxVal_of_get (get_maxIdx2_lit (offCat_nodeKey m') _ _ _ (by decide) (by decide))
  by_cases hm : lc m = lc nd.name
  · have : lc (nodeKey m) = lc ("peer.~:node." ++ nd.name) := (lc_nodeKey_iff m nd.name).mpr hm
    rw [if_pos this, if_pos hm]
    have := hg nd.name
    unfold nodeKey at this
    rw [this]; rfl
  · have : ¬ lc (nodeKey m) = lc ("peer.~:node." ++ nd.name) := fun e => hm ((lc_nodeKey_iff m nd.name).mp e)
    rw [if_neg this, if_neg hm, hg m]

theorem nodeInsert_tables (s : State) (nd : Node) :
    (nodeInsert s nd).nodes = tupsert Node.pk strLt nd s.nodes ∧ (nodeInsert s nd).svcs = s.svcs := by
  have hcv := catView_nodeInsert s nd
  simp only [catView, Prod.mk.injEq] at hcv
  exact ⟨hcv.1, hcv.2.1⟩

theorem node_nodeInsert {s : State} (nd : Node) (hm : nd.modify = i) (hnd : NF nd.name)
    (h : NodeStep n i s0 s) : NodeStep n i s0 (nodeInsert s nd) := by
  have T := tbl_nodeInsert s nd hm
  have hle := T.ops.le h.le
  obtain ⟨hnodes, hsv⟩ := nodeInsert_tables s nd
  have hS : ∀ v ∈ (nodeInsert s nd).svcs, NF v.node := by rw [hsv]; exact h.nf_svc
  have hN : ∀ x ∈ (nodeInsert s nd).nodes, NF x.name := by
    intro x hx; rw [hnodes] at hx
    rcases mem_tupsert hx with rfl | h1
    · exact hnd
    · exact h.nf_node x h1
  have hrow := nodeInsert_row s nd n
  by_cases hnm : lc n = lc nd.name
  · refine h.next hle hS hN (Or.inr ?_)
    have hfind : nodeFind (nodeInsert s nd) n = some nd := by
      unfold nodeFind; rw [hnodes, hnm]; exact tfind_tupsert_self nd s.nodes
    rw [nsIdx_some hfind, hrow, if_pos hnm, hm]
    exact Nat.max_eq_right (h.le.val _)
  · have hfind : nodeFind (nodeInsert s nd) n = nodeFind s n := by
      unfold nodeFind; rw [hnodes]
      exact tfind_tupsert_ne nd s.nodes hnm
    exact h.same T hS hN hfind (fun _ => by unfold svcsOnNode; rw [hsv]) (fun _ => by rw [hrow, if_neg hnm])

/-! ### services -/

section
variable {α κ : Type} [DecidableEq κ]

theorem filter_tupsert_of_not_mem {key : α → κ} {lt : κ → κ → Bool} (f : α → Bool) (r : α) (l : List α)
    (hr : f r = false) (hk : ∀ x ∈ l, key x = key r → f x = false) :
    (tupsert key lt r l).filter f = l.filter f := by
  induction l with
  | nil => simp [tupsert, hr]
  | cons x xs ih =>
    have ih' := ih (fun y hy => hk y (List.mem_cons_of_mem _ hy))
    simp only [tupsert]
    split
    · next he => simp [List.filter_cons, hr, hk x List.mem_cons_self he]
    · split
      · simp [List.filter_cons, hr]
      · simp [List.filter_cons, ih']

theorem filter_terase_of_not_mem {key : α → κ} (f : α → Bool) (k : κ) (l : List α)
    (hk : ∀ x ∈ l, key x = k → f x = false) : (terase key k l).filter f = l.filter f := by
  unfold terase
  rw [List.filter_filter]
  apply List.filter_congr
  intro x hx
  by_cases h : key x = k
  · simp [h, hk x hx h]
  · simp [h]
end

theorem val_maxIdx (s : State) (k' : String) (v : Nat) (k : String) :
    idxVal (s.maxIdx k' v).index k = if lc k = lc k' then max (idxVal s.index k') v else idxVal s.index k :=
  idxVal_idxMax s.index k' v k

/-- a state whose `node.*` rows are those of `s` -/
def NodeRows (s s' : State) : Prop := ∀ m, idxVal s'.index (nodeKey m) = idxVal s.index (nodeKey m)

theorem nodeRows_max2 {s s' : State} (h : NodeRows s s') (l : String) (v : Nat) (h1 : l ∈ litRows) (h2 : "peer.~:" ++ l ∈ litRows) :
    NodeRows s (s'.maxIdx2 l v) := fun m =>
  (idxVal_of_get (get_maxIdx2_lit (offCat_nodeKey m) s' l v h1 h2)).trans (h m)

theorem nodeRows_maxSvc {s s' : State} (h : NodeRows s s') (nm : String) (v : Nat) :
    NodeRows s (s'.maxIdx ("peer.~:service." ++ nm) v) := fun m =>
  (idxVal_of_get (get_maxIdx_ne s' _ v ((offCat_nodeKey m).svc nm))).trans (h m)

theorem nodeRows_maxLit {s s' : State} (h : NodeRows s s') (l : String) (v : Nat) (h1 : l ∈ litRows) :
    NodeRows s (s'.maxIdx l v) := fun m =>
  (idxVal_of_get (get_maxIdx_ne s' _ v ((offCat_nodeKey m).lit l h1))).trans (h m)

theorem nodeRows_delSvc {s s' : State} (h : NodeRows s s') (nm : String) :
    NodeRows s (s'.delIdx ("peer.~:service." ++ nm)) := fun m =>
  (idxVal_of_get (get_delIdx_ne s' _ ((offCat_nodeKey m).svc nm))).trans (h m)

/-- `node.<m>` after the write of `node.<x>` on top of a state with the rows of `s` -/
theorem row_maxNode {s s' : State} (h : NodeRows s s') (x : String) (v : Nat) (m : String) :
    idxVal (s'.maxIdx ("peer.~:node." ++ x) v).index (nodeKey m) =
      if lc m = lc x then max (idxVal s.index (nodeKey x)) v else idxVal s.index (nodeKey m) := by
  rw [val_maxIdx]
  by_cases hm : lc m = lc x
  · have : lc (nodeKey m) = lc ("peer.~:node." ++ x) := (lc_nodeKey_iff m x).mpr hm
    rw [if_pos this, if_pos hm]
    have := h x
    unfold nodeKey at this
    rw [this]; rfl
  · have : ¬ lc (nodeKey m) = lc ("peer.~:node." ++ x) := fun e => hm ((lc_nodeKey_iff m x).mp e)
    rw [if_neg this, if_neg hm, h m]

/-- `node.<m>` after an upsert of a service instance -/
theorem svcInsert_row (s : State) (v : Svc) (m : String) :
    idxVal (svcInsert s v).index (nodeKey m) =
      if lc m = lc v.node then max (idxVal s.index (nodeKey v.node)) v.modify else idxVal s.index (nodeKey m) := by
  unfold svcInsert
  simp only
  have h0 : NodeRows s ({ s with svcs := tupsert Svc.pk strLt v s.svcs } : State) := fun _ => rfl
  exact row_maxNode (nodeRows_max2 (nodeRows_max2 (nodeRows_maxSvc (nodeRows_max2 h0 "services" v.modify (by decide) (by decide)) v.name v.modify)
    "service_kind.typical" v.modify (by decide) (by decide)) "nodes" v.modify (by decide) (by decide)) v.node v.modify m

theorem svc_pk_node {x v : Svc} (hx : NF x.node) (hv : NF v.node) (h : Svc.pk x = Svc.pk v) : lc x.node = lc v.node :=
  (pk2_inj hx hv h).1

theorem node_svcInsert {s : State} (v : Svc) (hm : v.modify = i) (hnf : NF v.node)
    (hnode : (nodeFind s v.node).isSome = true) (h : NodeStep n i s0 s) : NodeStep n i s0 (svcInsert s v) := by
  have T := tbl_svcInsert s v hm
  have hle := T.ops.le h.le
  have hsv : (svcInsert s v).svcs = tupsert Svc.pk strLt v s.svcs := by unfold svcInsert; simp
  have hnodes : (svcInsert s v).nodes = s.nodes := by unfold svcInsert; simp
  have hfind : nodeFind (svcInsert s v) n = nodeFind s n := by unfold nodeFind; rw [hnodes]
  have hS : ∀ x ∈ (svcInsert s v).svcs, NF x.node := by
    intro x hx; rw [hsv] at hx
    rcases mem_tupsert hx with rfl | h1
    · exact hnf
    · exact h.nf_svc x h1
  have hN : ∀ x ∈ (svcInsert s v).nodes, NF x.name := by rw [hnodes]; exact h.nf_node
  have hrow := svcInsert_row s v n
  by_cases hnm : lc n = lc v.node
  · refine h.next hle hS hN (Or.inr ?_)
    have : (nodeFind s n).isSome = true := by
      have e : nodeFind s n = nodeFind s v.node := by unfold nodeFind; rw [hnm]
      rw [e]; exact hnode
    obtain ⟨nd, hnd⟩ := Option.isSome_iff_exists.mp this
    rw [nsIdx_some (hfind.trans hnd), hrow, if_pos hnm, hm]
    exact Nat.max_eq_right (h.le.val _)
  · have hsvc : svcsOnNode (svcInsert s v) n = svcsOnNode s n := by
      unfold svcsOnNode; rw [hsv]
      apply filter_tupsert_of_not_mem
      · simpa using fun e => hnm e.symm
      · intro x hx hpk
        have := svc_pk_node (h.nf_svc x hx) hnf hpk
        simpa [this] using fun e => hnm e.symm
    exact h.same T hS hN hfind (fun _ => hsvc) (fun _ => by rw [hrow, if_neg hnm])

/-- `node.<m>` after `deleteServicePost` -/
theorem deleteServicePost_row (s : State) (node id : String) (v : Svc) (m : String) :
    idxVal (deleteServicePost s i node id v).index (nodeKey m) =
      if lc m = lc node then max (idxVal s.index (nodeKey node)) i else idxVal s.index (nodeKey m) := by
  have h0 : NodeRows s s := fun _ => rfl
  have h1 := nodeRows_max2 h0 "checks" i (by decide) (by decide)
  have h2 : NodeRows s ({ (s.maxIdx2 "checks" i) with svcs := terase Svc.pk (pk2 node id) (s.maxIdx2 "checks" i).svcs } : State) := h1
  have hmid : idxVal (dspMid s i node id).index (nodeKey m) =
      if lc m = lc node then max (idxVal s.index (nodeKey node)) i else idxVal s.index (nodeKey m) := by
    unfold dspMid
    simp only
    exact row_maxNode (nodeRows_max2 (nodeRows_max2 (nodeRows_max2 h2 "services" i (by decide) (by decide))
      "service_kind.typical" i (by decide) (by decide)) "nodes" i (by decide) (by decide)) node i m
  have hk := offCat_nodeKey m
  rw [deleteServicePost_eq]
  split
  · rw [idxVal_of_get (get_maxIdx_ne _ _ _ (hk.svc _))]; exact hmid
  · rw [idxVal_of_get (get_maxIdx_ne _ _ _ (hk.lit _ (by decide))), idxVal_of_get (get_delIdx_ne _ _ (hk.svc _))]
    exact hmid

theorem deleteServicePost_tables (s : State) (node id : String) (v : Svc) :
    (deleteServicePost s i node id v).nodes = s.nodes ∧
    (deleteServicePost s i node id v).svcs = terase Svc.pk (pk2 node id) s.svcs := by
  have hcv := catView_deleteServicePost s i node id v
  simp only [catView, Prod.mk.injEq] at hcv
  exact ⟨hcv.1, hcv.2.1⟩

theorem node_deleteServicePost {s : State} (node id : String) (v : Svc) (hnf : NF node)
    (h : NodeStep n i s0 s) : NodeStep n i s0 (deleteServicePost s i node id v) := by
  have T := tbl_deleteServicePost (i := i) s node id v
  have hle := T.ops.le h.le
  obtain ⟨hnodes, hsv⟩ := deleteServicePost_tables (i := i) s node id v
  have hfind : nodeFind (deleteServicePost s i node id v) n = nodeFind s n := by unfold nodeFind; rw [hnodes]
  have hS : ∀ x ∈ (deleteServicePost s i node id v).svcs, NF x.node := by
    intro x hx; rw [hsv] at hx; exact h.nf_svc x (mem_terase.mp hx).1
  have hN : ∀ x ∈ (deleteServicePost s i node id v).nodes, NF x.name := by rw [hnodes]; exact h.nf_node
  have hrow := deleteServicePost_row (i := i) s node id v n
  by_cases hnm : lc n = lc node
  · cases hnd : nodeFind s n with
    | some x =>
      refine h.next hle hS hN (Or.inr ?_)
      rw [nsIdx_some (hfind.trans hnd), hrow, if_pos hnm]
      exact Nat.max_eq_right (h.le.val _)
    | none =>
      exact h.same T hS hN hfind (fun hs => by rw [hnd] at hs; simp at hs) (fun hs => by rw [hnd] at hs; simp at hs)
  · have hsvc : svcsOnNode (deleteServicePost s i node id v) n = svcsOnNode s n := by
      unfold svcsOnNode; rw [hsv]
      apply filter_terase_of_not_mem
      intro x hx hpk
      have := (pk2_inj (h.nf_svc x hx) hnf hpk).1
      simpa [this] using fun e => hnm e.symm
    exact h.same T hS hN hfind (fun _ => hsvc) (fun _ => by rw [hrow, if_neg hnm])

theorem node_deleteNodePost {s : State} (name : String)
    (h : NodeStep n i s0 s) : NodeStep n i s0 (deleteNodePost s i name) := by
  have T := tbl_deleteNodePost (i := i) s name
  have hle := T.ops.le h.le
  have hcv := catView_deleteNodePost s i name
  simp only [catView, Prod.mk.injEq] at hcv
  obtain ⟨hnodes, hsv, -, -⟩ := hcv
  have hS : ∀ x ∈ (deleteNodePost s i name).svcs, NF x.node := by rw [hsv]; exact h.nf_svc
  have hN : ∀ x ∈ (deleteNodePost s i name).nodes, NF x.name := by
    intro x hx; rw [hnodes] at hx; exact h.nf_node x (mem_terase.mp hx).1
  by_cases hnm : lc n = lc name
  · refine h.next hle hS hN (Or.inr ?_)
    have hext : idxVal (deleteNodePost s i name).index kNodeExt = i := by
      have hb := hle.val kNodeExt
      unfold deleteNodePost at hb ⊢
      simp only at hb ⊢
      rw [val_maxIdx, if_pos (show lc kNodeExt = lc "peer.~:node_last_extinction" from rfl)] at hb ⊢
      omega
    have hfind : nodeFind (deleteNodePost s i name) n = none := by
      unfold nodeFind; rw [hnodes, hnm]; exact tfind_terase_self _ _
    rw [nsIdx_none hfind]; exact hext
  · have hfind : nodeFind (deleteNodePost s i name) n = nodeFind s n := by
      unfold nodeFind; rw [hnodes]; exact tfind_terase_ne _ _ _ hnm
    refine h.same T hS hN hfind (fun _ => by unfold svcsOnNode; rw [hsv]) (fun _ => ?_)
    have hk := offCat_nodeKey n
    apply idxVal_of_get
    unfold deleteNodePost
    simp only
    rw [get_maxIdx_ne _ _ _ (hk.lit _ (by decide)),
      get_delIdx_ne _ ("peer.~:node." ++ name) (fun e => hnm ((lc_nodeKey_iff n name).mp e))]
    exact get_maxIdx2_lit hk _ _ _ (by decide) (by decide)

/-! ### the ladder instance -/

/-- node names are NUL-free (lower-cased) -/
def nodeGuard : Guard := { Np := NF }

theorem node_closed (s0 : State) : PrimClosed i nodeGuard (NodeStep n i s0) where
  kvInsert s e he h := h.frame (tbl_kvInsert s e he) rfl rfl (get_kvInsert (offCat_nodeKey n) s e)
  kvDelete s s' k hr h := by
    have hv := catView_kvDeleteTxn hr
    exact h.frame (tbl_kvDelete hr) (catView_nodes hv) (catView_svcs hv) (get_kvDelete (offCat_nodeKey n) hr)
  kvDeleteTree s p _ h := by
    have hv := catView_kvDeleteTreeTxn s i p
    exact h.frame (tbl_kvDeleteTree s p) (catView_nodes hv) (catView_svcs hv) (get_kvDeleteTree (offCat_nodeKey n) s p)
  removeSessionRow s id h := h.frame (tbl_removeSessionRow s id) rfl rfl (get_removeSessionRow (offCat_nodeKey n) s id)
  invalidateKeys s sess h := by
    have hv := catView_invalidateKeys s i sess
    exact h.frame (tbl_invalidateKeys s sess) (catView_nodes hv) (catView_svcs hv) (get_invalidateKeys (offCat_nodeKey n) s sess)
  dropSessionRefs s id h := by
    have hv := catView_dropSessionRefs s i id
    exact h.frame (tbl_dropSessionRefs s id) (catView_nodes hv) (catView_svcs hv) (get_dropSessionRefs (offCat_nodeKey n) s id)
  checkPrep s s1 p hc hc1 md hr _ h := by
    have hv := (checkPrep_cat hr).1
    exact h.frame (tbl_checkPrep hr) (catView_nodes hv) (catView_svcs hv) (get_checkPrep (offCat_nodeKey n) hr)
  checkFinish _ _ s p _ hc1 md _ _ _ _ _ h := by
    have hv := checkFinish_cat s i p hc1 md
    exact h.frame (tbl_checkFinish s p hc1 md) hv.1 hv.2.1 (get_checkFinish (offCat_nodeKey n) s p hc1 md)
  chkRows _ _ _ _ := trivial
  insertSession s x h := h.frame (tbl_insertSession s x) rfl rfl (get_insertSession (offCat_nodeKey n) s x)
  pqSet s s' id sess hr h := by
    have hv := catView_pqSet hr
    exact h.frame (tbl_pqSet hr) (catView_nodes hv) (catView_svcs hv) (get_pqSet (offCat_nodeKey n) hr)
  pqDelete s id h := by
    have hv := catView_pqDelete s i id
    exact h.frame (tbl_pqDelete s id) (catView_nodes hv) (catView_svcs hv) (get_pqDelete (offCat_nodeKey n) s id)
  nodeInsert s nd hm hN h := node_nodeInsert nd hm hN h
  nodeNames _ h := h.nf_node
  deleteCheckPre s node id x _ h := by
    have hv := catView_deleteCheckPre s i node id x
    simp only [catView, Prod.mk.injEq] at hv
    exact h.frame (tbl_deleteCheckPre s node id x) hv.1 hv.2.1 (get_deleteCheckPre (offCat_nodeKey n) s node id x)
  deleteServicePost s node id v hN _ _ h := node_deleteServicePost node id v hN h
  deleteNodePost s name _ _ _ h := node_deleteNodePost name h
  bumpServiceIdx s name _ h := h.frame (tbl_bump s name) rfl rfl (get_bump (offCat_nodeKey n) s name)
  svcInsert s v hv _ hN hnode h := node_svcInsert v hv hN hnode h


/-! ### what the two queries return, in terms of the view and `nsIdx` -/

theorem nsIdx_le {m : Nat} {s : State} (h : IdxLe m s.index) (n : String) : nsIdx s n ≤ m := by
  unfold nsIdx nodeServicesHead
  split
  · exact h.val _
  · exact h.val _

theorem nodeServices_idx (s : State) (n : String) : ((Query.nodeServices n).run s).1 = nsIdx s n := by
  simp only [Query.run, nsIdx]
  split <;> (rename_i h; rw [h])

theorem nodeServiceList_idx (s : State) (n : String) : ((Query.nodeServiceList n).run s).1 = nsIdx s n := by
  simp only [Query.run, nsIdx]
  split
  · rename_i h; rw [h]
    split
    · next h0 => exact h0.symm
    · rfl
  · rename_i h; rw [h]

/-- the result of NodeServiceList(n) is a function of the view and of the index -/
theorem nodeServiceList_res_of_view {s s' : State} {n : String} (h : nsView s' n = nsView s n)
    (hi : nsIdx s' n = nsIdx s n) :
    ((Query.nodeServiceList n).run s').2 = ((Query.nodeServiceList n).run s).2 := by
  unfold nsView at h
  unfold nsIdx at hi
  simp only [Query.run]
  simp only [nodeServicesHead] at hi ⊢
  cases h1 : nodeFind s' n with
  | none =>
    cases h2 : nodeFind s n with
    | none => simp
    | some nd => simp [h1, h2] at h
  | some nd' =>
    cases h2 : nodeFind s n with
    | none => simp [h1, h2] at h
    | some nd =>
      simp only [h1, h2, Option.some.injEq, Prod.mk.injEq] at h hi
      simp only
      obtain ⟨rfl, hs⟩ := h
      rw [svcsOnNode_congr s' (nodeFind_name h1), svcsOnNode_congr s (nodeFind_name h2), hs, hi]

/-- every command that names only NUL-free node names -/
theorem node_apply {s : State} (c : Cmd) (hG : c.ok nodeGuard) (h : NodeStep n i s0 s) :
    NodeStep n i s0 (apply s i c).1 := by
  by_cases hc : ∀ u, c ≠ .reap u
  · exact pc_apply (node_closed s0) c hc hG h
  · have : ∃ u, c = .reap u := by
      cases c <;> simp at hc ⊢
    obtain ⟨u, rfl⟩ := this
    exact h.frame (tbl_apply s i (.reap u)) rfl rfl rfl

end CV.Store
