/-
C06, the per-node read paths NodeServices / NodeServiceList: index = the `node.<name>` row while the node
exists, the node extinction index afterwards. For a node name of at least two bytes, NUL-free node names in the
state and in the command: every primitive either leaves (node row, services on the node) alone or leaves
the query's index at the command's index.
-/
import CV.Proofs.StoreQueryKeys
namespace CV.Store
open CV

/-- what NodeServices(n) shows: the node row and the service rows on that node -/
def nsView (s : State) (n : String) : Option Node × List Svc := (nodeFind s n, svcsOnNode s n)

/-- the index NodeServices(n) reports -/
def nsIdx (s : State) (n : String) : Nat := (nodeServicesHead s n).1

theorem nodeFind_name {s : State} {n : String} {nd : Node} (h : nodeFind s n = some nd) : lc nd.name = lc n := by
  have := (tfind_some h).2
  exact this

theorem svcsOnNode_congr (s : State) {a b : String} (h : lc a = lc b) : svcsOnNode s a = svcsOnNode s b := by
  unfold svcsOnNode; rw [h]

theorem nodeKey_congr (ix : Ix) {a b : String} (h : lc a = lc b) : idxVal ix (nodeKey a) = idxVal ix (nodeKey b) := by
  apply idxVal_congr
  unfold nodeKey
  rw [lc_prefix_cancel]; exact h

theorem nsIdx_some {s : State} {n : String} {nd : Node} (h : nodeFind s n = some nd) : nsIdx s n = idxVal s.index (nodeKey n) := by
  unfold nsIdx nodeServicesHead
  rw [h]
  exact nodeKey_congr _ (nodeFind_name h)

theorem nsIdx_none {s : State} {n : String} (h : nodeFind s n = none) (hn : 2 ≤ n.length) : nsIdx s n = idxVal s.index kNodeExt := by
  unfold nsIdx nodeServicesHead
  rw [h]
  have : ¬ n.length < 2 := by omega
  simp [this]

/-- the result of NodeServices(n) is a function of the view -/
theorem nodeServices_res_of_view {s s' : State} {n : String} (h : nsView s' n = nsView s n) :
    ((Query.nodeServices n).run s').2 = ((Query.nodeServices n).run s).2 := by
  simp only [nsView, Prod.mk.injEq] at h
  obtain ⟨h1, h2⟩ := h
  simp only [Query.run, nodeServicesHead]
  rw [h1]
  cases hn : nodeFind s n with
  | none => simp only; split <;> rfl
  | some nd =>
    simp only
    rw [svcsOnNode_congr s' (nodeFind_name hn), svcsOnNode_congr s (nodeFind_name hn), h2]

variable {n : String} {i : Nat} {s0 : State}

structure NodeStep (n : String) (i : Nat) (s0 s : State) : Prop where
  le : IdxLe i s.index
  nf_svc : ∀ v ∈ s.svcs, NF v.node
  view : nsView s n = nsView s0 n ∨ nsIdx s n = i

/-- a primitive that changes neither the nodes nor the services table, and no `node.<n>` row -/
theorem NodeStep.frame (hn : 2 ≤ n.length) {s s' : State} (h : NodeStep n i s0 s) (t : Tbl1 i s s')
    (h1 : s'.nodes = s.nodes) (h2 : s'.svcs = s.svcs)
    (hk : idxGet s'.index (nodeKey n) = idxGet s.index (nodeKey n)) : NodeStep n i s0 s' := by
  have hle := t.ops.le h.le
  refine ⟨hle, by rw [h2]; exact h.nf_svc, ?_⟩
  have hv : nsView s' n = nsView s n := by simp [nsView, nodeFind, svcsOnNode, h1, h2]
  rcases h.view with hvw | hi
  · exact Or.inl (hv.trans hvw)
  · right
    have hf : nodeFind s' n = nodeFind s n := congrArg Prod.fst hv
    cases hnd : nodeFind s n with
    | some nd =>
      rw [nsIdx_some (hf.trans hnd)]
      rw [nsIdx_some hnd] at hi
      simp only [idxVal, hk] at hi ⊢
      exact hi
    | none =>
      rw [nsIdx_none (hf.trans hnd) hn]
      rw [nsIdx_none hnd hn] at hi
      have := t.ops.mono h.le stable_nodeExt
      have := hle.val kNodeExt
      omega

theorem nodeKey_ne {a b : String} (h : lc a ≠ lc b) : lc (nodeKey b) ≠ lc (nodeKey a) := by
  unfold nodeKey
  rw [Ne, lc_prefix_cancel]
  exact fun e => h e.symm

/-! ### the four primitives that maintain node rows -/

theorem node_nodeInsert (hn : 2 ≤ n.length) {s : State} (nd : Node) (hm : nd.modify = i) (hnf : NF nd.name)
    (h : NodeStep n i s0 s) : NodeStep n i s0 (nodeInsert s nd) := by
  have T := tbl_nodeInsert s nd hm
  have hle := T.ops.le h.le
  have hsv : (nodeInsert s nd).svcs = s.svcs := by
    have := catView_svcs (catView_nodeInsert s nd); simpa using this
  refine ⟨hle, by rw [hsv]; exact h.nf_svc, ?_⟩
  subst hm
  -- the node.<nd.name> row after the insert
  have hrow : ∀ m, idxGet (nodeInsert s nd).index (nodeKey m) =
      if lc m = lc nd.name then some (max (idxVal s.index (nodeKey nd.name)) nd.modify) else idxGet s.index (nodeKey m) := by
    intro m
    unfold nodeInsert
    simp only
    rw [get_updateAll (offCat_nodeKey m)]
    show idxGet (idxMax _ ("peer.~:node." ++ nd.name) nd.modify) (nodeKey m) = _
    rw [idxGet_idxMax]
    have e : (lc (nodeKey m) = lc ("peer.~:node." ++ nd.name)) = (lc m = lc nd.name) := by
      unfold nodeKey; rw [lc_prefix_cancel]
    rw [e]
    split
    · have : idxVal ({ s with nodes := tupsert Node.pk strLt nd s.nodes } : State).maxIdx2 "nodes" nd.modify |>.index
          |> (idxVal · ("peer.~:node." ++ nd.name)) = idxVal s.index (nodeKey nd.name) := by
        simp only [idxVal]
        rw [get_maxIdx2_lit (offCat_nodeKey nd.name) _ _ _ (by decide) (by decide)]
      simp only at this
      rw [this]
    · rw [get_maxIdx2_lit (offCat_nodeKey m) _ _ _ (by decide) (by decide)]
  by_cases hnm : lc nd.name = lc n
  · right
    have hfind : nodeFind (nodeInsert s nd) n = some nd := by
      have : (nodeInsert s nd).nodes = tupsert Node.pk strLt nd s.nodes := by
        have := catView_nodes (catView_nodeInsert s nd); simpa using this
      unfold nodeFind; rw [this, ← hnm]; exact tfind_tupsert_self nd s.nodes
    rw [nsIdx_some hfind]
    have := hrow n
    rw [if_pos hnm.symm] at this
    simp only [idxVal, this]
    have := h.le.val (nodeKey nd.name)
    omega
  · have hnodes : nodeFind (nodeInsert s nd) n = nodeFind s n := by
      have : (nodeInsert s nd).nodes = tupsert Node.pk strLt nd s.nodes := by
        have := catView_nodes (catView_nodeInsert s nd); simpa using this
      unfold nodeFind; rw [this]
      exact tfind_tupsert_ne nd s.nodes (fun e => hnm e.symm)
    have hv : nsView (nodeInsert s nd) n = nsView s n := by simp [nsView, hnodes, svcsOnNode, hsv]
    rcases h.view with hvw | hi
    · exact Or.inl (hv.trans hvw)
    · right
      cases hnd : nodeFind s n with
      | some x =>
        rw [nsIdx_some (hnodes.trans hnd)]
        rw [nsIdx_some hnd] at hi
        have := hrow n
        rw [if_neg (fun e => hnm e.symm)] at this
        simp only [idxVal, this] at hi ⊢; exact hi
      | none =>
        rw [nsIdx_none (hnodes.trans hnd) hn]
        rw [nsIdx_none hnd hn] at hi
        have := T.ops.mono h.le stable_nodeExt
        have := hle.val kNodeExt
        omega

end CV.Store
