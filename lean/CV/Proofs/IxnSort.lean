/-
Helper lemmas for C13, part 1: the generic stable insertion sort `isort` and the
precedence comparator `less`.
-/
import CV.Ixn
namespace CV.Ixn

/-- strict weak order: asymmetric and negatively transitive -/
structure StrictWeak {α : Type} (lt : α → α → Bool) : Prop where
  asymm : ∀ a b, lt a b = true → lt b a = false
  negTrans : ∀ a b c, lt a c = true → lt a b = true ∨ lt b c = true

/-- sorted: nothing later is strictly smaller than something earlier -/
def Sorted {α : Type} (lt : α → α → Bool) (xs : List α) : Prop :=
  xs.Pairwise fun a b => lt b a = false

variable {α : Type} {lt : α → α → Bool}

theorem ins_perm (x : α) (ys : List α) : (ins lt x ys).Perm (x :: ys) := by
  induction ys with
  | nil => simp [ins]
  | cons y ys ih =>
    unfold ins
    split
    · exact (List.Perm.cons y ih).trans (List.Perm.swap x y ys)
    · exact List.Perm.refl _

theorem isort_perm (xs : List α) : (isort lt xs).Perm xs := by
  induction xs with
  | nil => simp [isort]
  | cons x xs ih => exact (ins_perm x _).trans (List.Perm.cons x ih)

theorem mem_isort {xs : List α} {z : α} : z ∈ isort lt xs ↔ z ∈ xs := (isort_perm xs).mem_iff

theorem ins_sorted (h : StrictWeak lt) (x : α) (ys : List α) (hy : Sorted lt ys) : Sorted lt (ins lt x ys) := by
  induction ys with
  | nil => simp [ins, Sorted]
  | cons y ys ih =>
    unfold Sorted at hy ih ⊢
    rw [List.pairwise_cons] at hy
    unfold ins
    split
    next hlt =>
      rw [List.pairwise_cons]
      refine ⟨?_, ih hy.2⟩
      intro z hz
      rcases List.mem_cons.mp ((ins_perm x ys).mem_iff.mp hz) with hz | hz
      · subst hz; exact h.asymm _ _ hlt
      · exact hy.1 z hz
    next hlt =>
      rw [List.pairwise_cons]
      refine ⟨?_, List.pairwise_cons.mpr hy⟩
      intro z hz
      rcases List.mem_cons.mp hz with hz | hz
      · subst hz; simpa using hlt
      · have h1 := hy.1 z hz
        -- lt z y = false, lt y x = false ⇒ lt z x = false
        cases hzx : lt z x with
        | false => rfl
        | true =>
          rcases h.negTrans z y x hzx with h2 | h2
          · rw [h1] at h2; cases h2
          · simp [h2] at hlt

theorem isort_sorted (h : StrictWeak lt) (xs : List α) : Sorted lt (isort lt xs) := by
  induction xs with
  | nil => simp [isort, Sorted]
  | cons x xs ih => exact ins_sorted h x _ ih

/-- two sorted permutations of each other coincide when incomparable elements are equal -/
theorem sorted_perm_eq {xs ys : List α} (hp : xs.Perm ys) (hx : Sorted lt xs) (hy : Sorted lt ys)
    (tri : ∀ a ∈ xs, ∀ b ∈ xs, lt a b = false → lt b a = false → a = b) : xs = ys := by
  apply List.Perm.eq_of_pairwise (le := fun a b => lt b a = false) _ hx hy hp
  intro a b ha hb h1 h2
  exact tri a ha b (hp.mem_iff.mpr hb) h2 h1

/-- the sort does not depend on the input order -/
theorem isort_perm_invariant (h : StrictWeak lt) {xs ys : List α} (hp : xs.Perm ys)
    (tri : ∀ a ∈ xs, ∀ b ∈ xs, lt a b = false → lt b a = false → a = b) : isort lt xs = isort lt ys := by
  apply sorted_perm_eq ((isort_perm xs).trans (hp.trans (isort_perm ys).symm)) (isort_sorted h xs) (isort_sorted h ys)
  intro a ha b hb
  exact tri a (mem_isort.mp ha) b (mem_isort.mp hb)

/-- in a sorted list `find?` returns the matching element that is strictly before every other match -/
theorem find?_sorted_first {p : α → Bool} {xs : List α} (hs : Sorted lt xs) {i : α} (hi : i ∈ xs) (hp : p i = true)
    (hfirst : ∀ j ∈ xs, p j = true → j = i ∨ lt i j = true) : xs.find? p = some i := by
  induction xs with
  | nil => cases hi
  | cons x xs ih =>
    unfold Sorted at hs ih
    rw [List.pairwise_cons] at hs
    rw [List.find?_cons]
    cases hpx : p x with
    | true =>
      simp only
      rcases hfirst x (List.mem_cons_self) hpx with h | h
      · rw [h]
      · rcases List.mem_cons.mp hi with h' | h'
        · rw [h']
        · rw [hs.1 i h'] at h; cases h
    | false =>
      simp only
      have : i ∈ xs := by
        rcases List.mem_cons.mp hi with h' | h'
        · subst h'; rw [hp] at hpx; cases hpx
        · exact h'
      exact ih hs.2 this (fun j hj => hfirst j (List.mem_cons_of_mem _ hj))

theorem find?_none_of_forall {p : α → Bool} {xs : List α} (h : ∀ j ∈ xs, p j = false) : xs.find? p = none := by
  simp [List.find?_eq_none]; intro j hj; simp [h j hj]

theorem find?_congr_mem {p q : α → Bool} {xs : List α} (h : ∀ j ∈ xs, p j = q j) : xs.find? p = xs.find? q := by
  induction xs with
  | nil => rfl
  | cons x xs ih =>
    rw [List.find?_cons, List.find?_cons, h x List.mem_cons_self, ih (fun j hj => h j (List.mem_cons_of_mem _ hj))]

/-! ### the comparator `less` -/

theorem bytes_irrefl (a : Name) : ¬ a < a := List.lt_irrefl a
theorem bytes_asymm {a b : Name} : a < b → ¬ b < a := List.lt_asymm
theorem bytes_trans {a b c : Name} : a < b → b < c → a < c := List.lt_trans
theorem bytes_tri {a b : Name} (h1 : ¬ a < b) (h2 : ¬ b < a) : a = b :=
  List.le_antisymm (List.not_lt.mp h2) (List.not_lt.mp h1)
theorem bytes_negTrans {a b c : Name} (h : a < c) : a < b ∨ b < c := by
  by_cases h1 : a < b
  · exact Or.inl h1
  · by_cases h2 : b < c
    · exact Or.inr h2
    · exfalso
      by_cases h3 : b < a
      · exact h2 (bytes_trans h3 h)
      · have := bytes_tri h1 h3
        subst this; exact h2 h

theorem less_strictWeak : StrictWeak less := by
  have A := @bytes_asymm
  have N := @bytes_negTrans
  have I := bytes_irrefl
  constructor
  · intro a b h
    simp only [less, bLt] at h ⊢
    grind
  · intro a b c h
    simp only [less, bLt] at h ⊢
    have n1 := @N a.peer b.peer c.peer
    have n2 := @N a.src b.src c.src
    have n3 := @N a.dst b.dst c.dst
    grind

/-- incomparable intentions have the same precedence and the same key -/
theorem less_tri {a b : Ixn} (h1 : less a b = false) (h2 : less b a = false) :
    a.prec = b.prec ∧ a.key = b.key := by
  have T := @bytes_tri
  have I := bytes_irrefl
  simp only [less, bLt, Ixn.key] at *
  have t1 := @T a.peer b.peer
  have t2 := @T a.src b.src
  have t3 := @T a.dst b.dst
  grind

end CV.Ixn
