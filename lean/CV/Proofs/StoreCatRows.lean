/-
The joined service rows (`Cat.rows`) of the C07 wrapper under the two writes of a catalog (`putSvc`, the row
delete of `deleteServiceX`): membership characterisations, for catalogs with one row per key.
-/
import CV.Proofs.StoreCatSync
namespace CV.Store
open CV

theorem mem_rows {c : Cat} {r : Svc × SvcX} : r ∈ c.rows ↔ r.1 ∈ c.st.svcs ∧ tfind SvcX.pk r.1.pk c.ext = some r.2 := by
  unfold Cat.rows
  rw [List.mem_filterMap]
  constructor
  · rintro ⟨v, hv, hf⟩
    cases hq : tfind SvcX.pk v.pk c.ext with
    | none => rw [hq] at hf; simp at hf
    | some e => rw [hq] at hf; simp at hf; subst hf; exact ⟨hv, hq⟩
  · rintro ⟨hv, hf⟩
    exact ⟨r.1, hv, by rw [hf]; rfl⟩

theorem rows_congr {c c' : Cat} (h1 : c'.st.svcs = c.st.svcs) (h2 : c'.ext = c.ext) : c'.rows = c.rows := by
  unfold Cat.rows; rw [h1, h2]

theorem rows_key {c : Cat} {r : Svc × SvcX} (h : r ∈ c.rows) : r.2.pk = r.1.pk :=
  (tfind_some (mem_rows.mp h).2).2

theorem mem_tupsert_sorted {α : Type} {key : α → String} {r x : α} {l : List α} (h : SortedBy key l) :
    x ∈ tupsert key strLt r l ↔ x = r ∨ (x ∈ l ∧ key x ≠ key r) := by
  constructor
  · intro hx
    by_cases e : x = r
    · exact Or.inl e
    · right
      have hs := sortedBy_tupsert r l h
      have hr : r ∈ tupsert key strLt r l := self_mem_tupsert r l
      rcases mem_tupsert hx with h1 | h1
      · exact absurd h1 e
      · exact ⟨h1, fun hk => e (sortedBy_unique hs hx hr hk)⟩
  · rintro (rfl | ⟨h1, h2⟩)
    · exact self_mem_tupsert _ l
    · rcases mem_tupsert_of_mem (lt := strLt) (r := r) h1 with h3 | h3
      · exact h3
      · exact absurd h3 h2

/-- the rows after `putSvc`: the written row, and the others -/
theorem rows_put {c : Cat} (v : Svc) (e : SvcX) (hk : e.pk = v.pk) (hs : SortedBy Svc.pk c.st.svcs) (r : Svc × SvcX) :
    r ∈ (Cat.mk (svcInsert c.st v) (tupsert SvcX.pk strLt e c.ext)).rows ↔ r = (v, e) ∨ (r ∈ c.rows ∧ r.1.pk ≠ v.pk) := by
  rw [mem_rows, mem_rows]
  simp only [svcs_svcInsert]
  rw [mem_tupsert_sorted hs]
  constructor
  · rintro ⟨h1 | ⟨h1, h2⟩, hf⟩
    · left
      rw [h1, ← hk, tfind_tupsert_self] at hf
      simp at hf
      exact Prod.ext h1 hf.symm
    · right
      rw [tfind_tupsert_ne e c.ext (by rw [hk]; exact h2)] at hf
      exact ⟨⟨h1, hf⟩, h2⟩
  · rintro (rfl | ⟨⟨h1, hf⟩, h2⟩)
    · exact ⟨Or.inl rfl, by simp only; rw [← hk, tfind_tupsert_self]⟩
    · exact ⟨Or.inr ⟨h1, h2⟩, by rw [tfind_tupsert_ne e c.ext (by rw [hk]; exact h2)]; exact hf⟩

/-- the rows after the row delete of `deleteServiceX` -/
theorem rows_del {c : Cat} (st' : State) (k : String) (h : st'.svcs = terase Svc.pk k c.st.svcs) (r : Svc × SvcX) :
    r ∈ (Cat.mk st' (terase SvcX.pk k c.ext)).rows ↔ r ∈ c.rows ∧ r.1.pk ≠ k := by
  rw [mem_rows, mem_rows]
  simp only [h, mem_terase]
  constructor
  · rintro ⟨⟨h1, h2⟩, hf⟩
    rw [tfind_terase_ne _ _ _ h2] at hf
    exact ⟨⟨h1, hf⟩, h2⟩
  · rintro ⟨⟨h1, hf⟩, h2⟩
    exact ⟨⟨h1, h2⟩, by rw [tfind_terase_ne _ _ _ h2]; exact hf⟩

/-- the row a lookup finds is a joined row, the only one with that key -/
theorem rows_find {c : Cat} {node id : String} {x : Svc} {ex : SvcX} (hs : SortedBy Svc.pk c.st.svcs)
    (h1 : svcFind c.st node id = some x) (h2 : extFind c node id = some ex) :
    (x, ex) ∈ c.rows ∧ ∀ r ∈ c.rows, r.1.pk = pk2 node id → r = (x, ex) := by
  unfold svcFind at h1
  unfold extFind at h2
  obtain ⟨m1, k1⟩ := tfind_some h1
  refine ⟨mem_rows.mpr ⟨m1, by simp only; rw [k1]; exact h2⟩, ?_⟩
  intro r hr hk
  obtain ⟨m, hf⟩ := mem_rows.mp hr
  have e1 : r.1 = x := sortedBy_unique hs m m1 (hk.trans k1.symm)
  rw [hk, h2] at hf
  simp at hf
  exact Prod.ext e1 hf.symm

theorem rows_none {c : Cat} {node id : String} (h1 : svcFind c.st node id = none) : ∀ r ∈ c.rows, r.1.pk ≠ pk2 node id := by
  intro r hr
  exact tfind_none h1 r.1 (mem_rows.mp hr).1

/-- `hasInstanceNamed` through the joined rows -/
theorem hasInstanceNamed_iff {c : Cat} (hy : Sync c) (name : String) :
    hasInstanceNamed c name = true ↔ ∃ r ∈ c.rows, lc r.1.name = lc name := by
  unfold hasInstanceNamed
  rw [List.any_eq_true]
  constructor
  · rintro ⟨v, hv, hn⟩
    have hk : v.pk ∈ c.ext.map SvcX.pk := by rw [hy]; exact List.mem_map.mpr ⟨v, hv, rfl⟩
    obtain ⟨e, he, hke⟩ := List.mem_map.mp hk
    have hsome := tfind_isSome_of_mem he hke
    cases hf : tfind SvcX.pk v.pk c.ext with
    | none => rw [hf] at hsome; simp at hsome
    | some e' => exact ⟨(v, e'), mem_rows.mpr ⟨hv, hf⟩, by simpa using hn⟩
  · rintro ⟨r, hr, hn⟩
    exact ⟨r.1, (mem_rows.mp hr).1, by simpa using hn⟩

theorem hasConnectInstance_iff (c : Cat) (name : String) :
    hasConnectInstance c name = true ↔ ∃ r ∈ c.rows, ∃ n, connectName r = some n ∧ lc n = lc name := by
  unfold hasConnectInstance
  rw [List.any_eq_true]
  constructor
  · rintro ⟨r, hr, hc⟩
    unfold isConnectFor at hc
    cases hq : connectName r with
    | none => rw [hq] at hc; simp at hc
    | some n => rw [hq] at hc; exact ⟨r, hr, n, hq, by simpa using hc⟩
  · rintro ⟨r, hr, n, hq, hn⟩
    exact ⟨r, hr, by unfold isConnectFor; rw [hq]; simpa using hn⟩

end CV.Store
