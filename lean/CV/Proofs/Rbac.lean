/-
Helper lemmas for C14 (CV.Rbac): evaluation of AND/OR lists, permission precedence,
`convertPermission`, `simplifyNotSourceSlice`, source precedence, policy assembly.
-/
import CV.Rbac
namespace CV.Rbac

/-! ### evaluation of rule lists -/

theorem evalPmAll_eq (r : Req) (l : List Pm) : evalPmAll r l = l.all (evalPm r) := by
  induction l with
  | nil => simp [evalPmAll]
  | cons p ps ih => simp [evalPmAll, ih]

theorem evalPmAny_eq (r : Req) (l : List Pm) : evalPmAny r l = l.any (evalPm r) := by
  induction l with
  | nil => simp [evalPmAny]
  | cons p ps ih => simp [evalPmAny, ih]

theorem evalPrAll_eq {C : Type} (σ : Sem C) (c : C) (l : List Pr) : evalPrAll σ c l = l.all (evalPr σ c) := by
  induction l with
  | nil => simp [evalPrAll]
  | cons p ps ih => simp [evalPrAll, ih]

theorem evalPrAny_eq {C : Type} (σ : Sem C) (c : C) (l : List Pr) : evalPrAny σ c l = l.any (evalPr σ c) := by
  induction l with
  | nil => simp [evalPrAny]
  | cons p ps ih => simp [evalPrAny, ih]

theorem eval_andPermissions (r : Req) (l : List Pm) : evalPm r (andPermissions l) = l.all (evalPm r) := by
  match l with
  | [] => simp [andPermissions, evalPm]
  | [p] => simp [andPermissions]
  | p :: q :: rest => simp [andPermissions, evalPm, evalPmAll_eq]

theorem eval_andPrincipals {C : Type} (σ : Sem C) (c : C) (l : List Pr) :
    evalPr σ c (andPrincipals l) = l.all (evalPr σ c) := by
  match l with
  | [] => simp [andPrincipals, evalPr, evalPrAll]
  | [p] => simp [andPrincipals]
  | p :: q :: rest => simp [andPrincipals, evalPr, evalPrAll_eq]

theorem eval_orPrincipals {C : Type} (σ : Sem C) (c : C) (l : List Pr) :
    evalPr σ c (orPrincipals l) = l.any (evalPr σ c) := by
  match l with
  | [] => simp [orPrincipals, evalPr, evalPrAny]
  | [p] => simp [orPrincipals]
  | p :: q :: rest => simp [orPrincipals, evalPr, evalPrAny_eq]

theorem eval_orPermissions_ne (r : Req) (l : List Pm) (h : l ≠ []) : evalPm r (orPermissions l) = l.any (evalPm r) := by
  match l with
  | [] => exact absurd rfl h
  | [p] => simp [orPermissions]
  | p :: q :: rest => simp [orPermissions, evalPm, evalPmAny_eq]

/-! ### JWT requirements -/

theorem eval_jwtPm (r : Req) (i : JwtInfo) :
    evalPm r (jwtPm i)
      = (reqHas r [payloadKey i.name, cIss] i.issuer
          && i.claims.all fun c => reqHas r (payloadKey i.name :: c.path) c.value) := by
  simp [jwtPm, eval_andPermissions, evalPm, List.all_map, Function.comp_def]

theorem eval_jwtPms (r : Req) (jwt : List JwtInfo) (h : jwt ≠ []) :
    evalPm r (orPermissions (jwt.map jwtPm)) = jwtSat (reqHas r) jwt := by
  rw [eval_orPermissions_ne r _ (by simpa using h)]
  have : jwt.isEmpty = false := by cases jwt <;> simp_all
  simp [jwtSat, this, List.any_map, Function.comp_def, eval_jwtPm]

theorem eval_jwtPr {C : Type} (σ : Sem C) (c : C) (i : JwtInfo) :
    evalPr σ c (jwtPr i)
      = (σ.metaM [payloadKey i.name, cIss] i.issuer c
          && i.claims.all fun cl => σ.metaM (payloadKey i.name :: cl.path) cl.value c) := by
  unfold jwtPr
  simp only
  split
  · next h => simp [h, evalPr]
  · simp [eval_andPrincipals, evalPr, List.all_map, Function.comp_def]

theorem eval_addJWTPrincipal {C : Type} (σ : Sem C) (c : C) (p : Pr) (infos : List JwtInfo) :
    evalPr σ c (addJWTPrincipal p infos) = (evalPr σ c p && jwtSat (fun a b => σ.metaM a b c) infos) := by
  unfold addJWTPrincipal
  split
  · next h => simp [h, jwtSat]
  · next h =>
    have : infos.isEmpty = false := by cases infos <;> simp_all
    rw [eval_andPrincipals]
    simp only [List.all_cons, List.all_nil, Bool.and_true, eval_orPrincipals, List.any_map, Function.comp_def,
      eval_jwtPr, jwtSat, this, Bool.false_or]

/-! ### permission precedence -/

theorem eval_flattenPerm (r : Req) (pm : Pm) (nots : List Pm) (jwt : List JwtInfo) :
    evalPm r (flattenPerm pm nots jwt)
      = (evalPm r pm && nots.all (fun n => !evalPm r n) && jwtSat (reqHas r) jwt) := by
  have hc : evalPm r (if nots = [] then pm else andPermissions (pm :: nots.map Pm.notRule))
      = (evalPm r pm && nots.all (fun n => !evalPm r n)) := by
    split
    · next h => simp [h]
    · simp [eval_andPermissions, List.all_map, evalPm, Function.comp_def]
  unfold flattenPerm
  simp only
  split
  · next h => rw [hc, h]; simp [jwtSat]
  · next h =>
    rw [eval_andPermissions]
    simp only [List.all_cons, List.all_nil, Bool.and_true, hc, eval_jwtPms r jwt h]

/-- what the first matching permission decides, as "differs from the default" -/
def permHit (dflt : Bool) (r : Req) (ps : List RPerm) : Bool :=
  match ps.find? (fun p => evalPm r p.pm) with
  | none => false
  | some p => (p.allow != dflt) && jwtSat (reqHas r) p.jwt

theorem rppGo_blocked (dflt : Bool) (r : Req) (rp rest : List RPerm)
    (h : ∃ q ∈ rp, evalPm r q.pm = true) : (rppGo dflt rp rest).any (evalPm r) = false := by
  induction rest generalizing rp with
  | nil => simp [rppGo]
  | cons p rest ih =>
    obtain ⟨q, hq, hqm⟩ := h
    have ht := ih (p :: rp) ⟨q, List.mem_cons_of_mem _ hq, hqm⟩
    simp only [rppGo]
    split
    · exact ht
    · simp only [List.any_cons, ht, Bool.or_false, eval_flattenPerm, List.all_map]
      have hall : (rp.all ((fun n => !evalPm r n) ∘ fun x => x.pm)) = false := by
        apply Bool.eq_false_iff.mpr
        intro hall
        have := List.all_eq_true.mp hall q hq
        simp [hqm] at this
      simp [hall]

theorem rppGo_first (dflt : Bool) (r : Req) (rp rest : List RPerm)
    (h : ∀ q ∈ rp, evalPm r q.pm = false) : (rppGo dflt rp rest).any (evalPm r) = permHit dflt r rest := by
  induction rest generalizing rp with
  | nil => simp [rppGo, permHit]
  | cons p rest ih =>
    have hall : (rp.map (·.pm)).all (fun n => !evalPm r n) = true := by
      simp only [List.all_map, List.all_eq_true]
      intro q hq; simp [h q hq]
    cases hp : evalPm r p.pm with
    | true =>
      have hb := rppGo_blocked dflt r (p :: rp) rest ⟨p, List.mem_cons_self, hp⟩
      simp only [rppGo, permHit, List.find?_cons, hp]
      split
      · next he => simp [hb, he]
      · next he =>
        simp only [List.any_cons, hb, Bool.or_false, eval_flattenPerm, hp, hall, Bool.and_self, Bool.true_and]
        have : (p.allow != dflt) = true := by cases hpa : p.allow <;> cases dflt <;> simp_all
        simp [this]
    | false =>
      have ht := ih (p :: rp) (by
        intro q hq
        cases List.mem_cons.mp hq with
        | inl e => rw [e]; exact hp
        | inr e => exact h q e)
      simp only [rppGo, permHit, List.find?_cons, hp]
      split
      · simpa [permHit] using ht
      · simp only [List.any_cons, eval_flattenPerm, hp, Bool.false_and, Bool.false_or]
        simpa [permHit] using ht

theorem removePermissionPrecedence_any (dflt : Bool) (r : Req) (ps : List RPerm) :
    (removePermissionPrecedence dflt ps).any (evalPm r) = permHit dflt r ps :=
  rppGo_first dflt r [] ps (by simp)

/-! ### `convertPermission` keeps the meaning of a permission -/

/-- What is assumed of RE2 for the one regular expression consul itself builds from user data
    without quoting, `strings.Join(methods, "|")`: it full-matches exactly the listed methods
    (method names are validated to be the nine standard HTTP methods, no metacharacters). -/
def MethodOracle (r : Req) : Prop :=
  ∀ ms v, ms ≠ [] → hdrVal r methodHdr = some v → rxMatch r (joinBar ms) v = ms.contains v

theorem eval_headers (r : Req) (hs : List HdrPerm) :
    ((hs.filterMap convertHeader).map Pm.header).all (evalPm r) = hs.all (hdrPermMatches r) := by
  induction hs with
  | nil => simp
  | cons h hs ih =>
    simp only [List.filterMap_cons, List.all_cons, hdrPermMatches]
    cases hc : convertHeader h with
    | none => simpa using ih
    | some m => simp only [List.map_cons, List.all_cons, evalPm, ih]

theorem eval_pathPart (r : Req) (h : HttpPerm) : (pathPart h).all (evalPm r) = pathMatches r h := by
  unfold pathPart pathMatches
  split
  · simp [evalPm, strMatch]
  · split
    · simp [evalPm, strMatch]
    · split
      · simp [evalPm, strMatch]
      · simp

theorem eval_methodPart (r : Req) (ho : MethodOracle r) (h : HttpPerm) :
    (methodPart h).all (evalPm r) = methodMatches r h.methods := by
  unfold methodPart methodMatches
  by_cases hm : h.methods = []
  · simp [hm]
  · simp only [hm, if_true, ne_eq, not_false_eq_true, List.all_cons, List.all_nil, Bool.and_true, evalPm, hdrMatch,
      decide_false, Bool.false_or]
    cases hv : hdrVal r methodHdr with
    | none => simp
    | some v => simp [strMatch, ho h.methods v hm hv]

theorem convertPermission_correct (r : Req) (ho : MethodOracle r) (p : Perm) :
    evalPm r (convertPermission p) = permMatches r p := by
  unfold convertPermission permMatches
  cases p.http with
  | none => simp [evalPm]
  | some h =>
    simp only [eval_andPermissions, List.all_append, eval_pathPart, eval_headers, eval_methodPart r ho]

/-! ### `simplifyNotSourceSlice` -/

theorem mem_insBy {α : Type} (key : α → Nat) (x a : α) (l : List α) : a ∈ insBy key x l ↔ a = x ∨ a ∈ l := by
  induction l with
  | nil => simp [insBy]
  | cons y ys ih =>
    simp only [insBy]
    split
    · simp only [List.mem_cons, ih]; grind
    · simp

theorem mem_stableSortBy {α : Type} (key : α → Nat) (a : α) (l : List α) : a ∈ stableSortBy key l ↔ a ∈ l := by
  induction l with
  | nil => simp [stableSortBy]
  | cons y ys ih => simp [stableSortBy, mem_insBy, ih]

theorem keepNotCovered_all (f : Src → Bool) (l : List Src)
    (hcov : ∀ a ∈ l, ∀ b ∈ l, ixnSourceMatches a b = true → f a = true → f b = true) :
    (keepNotCovered l).all (fun n => !f n) = l.all (fun n => !f n) := by
  induction l with
  | nil => simp [keepNotCovered]
  | cons s rest ih =>
    have ih' := ih (fun a ha b hb => hcov a (List.mem_cons_of_mem _ ha) b (List.mem_cons_of_mem _ hb))
    simp only [keepNotCovered]
    split
    · next hany =>
      rw [ih', List.all_cons]
      obtain ⟨b, hb, hab⟩ := List.any_eq_true.mp hany
      cases hr : rest.all (fun n => !f n) with
      | false => simp
      | true =>
        have hfb : f b = false := by simpa using List.all_eq_true.mp hr b hb
        cases hfs : f s with
        | false => simp
        | true =>
          have := hcov s List.mem_cons_self b (List.mem_cons_of_mem _ hb) hab hfs
          simp [hfb] at this
    · simp only [List.all_cons, ih']

theorem simplifyNotSources_all (f : Src → Bool) (l : List Src)
    (hcov : ∀ a ∈ l, ∀ b ∈ l, ixnSourceMatches a b = true → f a = true → f b = true) :
    (simplifyNotSources l).all (fun n => !f n) = l.all (fun n => !f n) := by
  unfold simplifyNotSources
  split
  · rfl
  · rw [keepNotCovered_all f _ (by
      intro a ha b hb
      exact hcov a ((mem_stableSortBy _ _ _).mp ha) b ((mem_stableSortBy _ _ _).mp hb))]
    apply Bool.eq_iff_iff.mpr
    simp only [List.all_eq_true, mem_stableSortBy]

/-! ### principals -/

theorem eval_flattenFromCert {C : Type} (σ : Sem C) (c : C) (s : Src) (nots : List Src)
    (hcov : ∀ a ∈ nots, ∀ b ∈ nots, ixnSourceMatches a b = true → σ.idM a c = true → σ.idM b c = true) :
    evalPr σ c (flattenFromCert s nots) = (σ.idM s c && nots.all (fun n => !σ.idM n c)) := by
  have hs := simplifyNotSources_all (fun n => σ.idM n c) nots hcov
  unfold flattenFromCert
  simp only
  split
  · next h => rw [← hs, h]; simp [evalPr]
  · rw [eval_andPrincipals, ← hs]
    simp [evalPr, List.all_map, Function.comp_def]

theorem eval_flattenFromXFCC {C : Type} (σ : Sem C) (c : C) (s : Src) (nots : List Src)
    (hcov : ∀ a ∈ nots, ∀ b ∈ nots, ixnSourceMatches a b = true → σ.xfccM a c = true → σ.xfccM b c = true) :
    evalPr σ c (flattenFromXFCC s nots) = (σ.xfccM s c && nots.all (fun n => !σ.xfccM n c)) := by
  have hs := simplifyNotSources_all (fun n => σ.xfccM n c) nots hcov
  unfold flattenFromXFCC
  simp only
  split
  · next h => rw [← hs, h]; simp [evalPr]
  · rw [eval_andPrincipals, ← hs]
    simp [evalPr, List.all_map, Function.comp_def]

theorem all_congr_mem {α : Type} (l : List α) (f g : α → Bool) (h : ∀ a ∈ l, f a = g a) : l.all f = l.all g := by
  induction l with
  | nil => rfl
  | cons a l ih =>
    simp only [List.all_cons, h a List.mem_cons_self]
    rw [ih (fun b hb => h b (List.mem_cons_of_mem _ hb))]

theorem eval_flattenSource {C : Type} (σ : Sem C) (env : Env) (xf : Bool) (c : C) (s : Src) (nots : List Src)
    (hpeer : ∀ n ∈ nots, n.peer = s.peer)
    (hcov : ∀ a ∈ nots, ∀ b ∈ nots, ixnSourceMatches a b = true →
      srcM σ env xf a c = true → srcM σ env xf b c = true) :
    evalPr σ c (flattenSource env xf s nots)
      = (srcM σ env xf s c && nots.all (fun n => !srcM σ env xf n c)) := by
  unfold flattenSource
  cases xf with
  | false =>
    simp only [Bool.not_false, if_true]
    have : ∀ n, srcM σ env false n c = σ.idM n c := by intro n; simp [srcM]
    simp only [this] at hcov ⊢
    exact eval_flattenFromCert σ c s nots hcov
  | true =>
    simp only [Bool.not_true, Bool.false_eq_true, if_false]
    by_cases hp : s.peer = []
    · simp only [hp, if_true]
      have hn : ∀ n ∈ nots, srcM σ env true n c = σ.idM n c := by
        intro n hn; simp [srcM, hpeer n hn, hp]
      have hs : srcM σ env true s c = σ.idM s c := by simp [srcM, hp]
      rw [hs, all_congr_mem nots _ (fun n => !σ.idM n c) (fun n h => by rw [hn n h])]
      apply eval_flattenFromCert
      intro a ha b hb hab
      rw [← hn a ha, ← hn b hb]; exact hcov a ha b hb hab
    · simp only [hp, if_false]
      have hn : ∀ n ∈ nots, srcM σ env true n c = (σ.gwM env.localTd c && σ.xfccM n c) := by
        intro n hn; simp [srcM, hpeer n hn, hp]
      have hs : srcM σ env true s c = (σ.gwM env.localTd c && σ.xfccM s c) := by simp [srcM, hp]
      rw [hs, all_congr_mem nots _ (fun n => !(σ.gwM env.localTd c && σ.xfccM n c)) (fun n h => by rw [hn n h])]
      rw [eval_andPrincipals]
      simp only [List.all_cons, List.all_nil, Bool.and_true]
      cases hg : σ.gwM env.localTd c with
      | false => simp [evalPr, hg]
      | true =>
        simp only [evalPr, hg, Bool.true_and]
        apply eval_flattenFromXFCC
        intro a ha b hb hab hx
        have := hcov a ha b hb hab (by rw [hn a ha, hg, hx]; rfl)
        rw [hn b hb, hg] at this
        simpa using this

theorem eval_flattenPrincipal {C : Type} (σ : Sem C) (env : Env) (xf : Bool) (c : C) (s : Src) (nots : List Src)
    (jwt : List JwtInfo) (hpeer : ∀ n ∈ nots, n.peer = s.peer)
    (hcov : ∀ a ∈ nots, ∀ b ∈ nots, ixnSourceMatches a b = true →
      srcM σ env xf a c = true → srcM σ env xf b c = true) :
    evalPr σ c (flattenPrincipal env xf s nots jwt)
      = (srcM σ env xf s c && nots.all (fun n => !srcM σ env xf n c) && jwtSat (fun a b => σ.metaM a b c) jwt) := by
  unfold flattenPrincipal
  rw [eval_addJWTPrincipal, eval_flattenSource σ env xf c s nots hpeer hcov]

/-! ### source precedence -/

/-- the principal of a retained intention: its source, and none of the NOT-sources -/
def hitS (m : Src → Bool) (x : SIxn) : Bool := m x.src && x.nots.all (fun n => !m n)

/-- what the translation needs of the way sources match one caller: a covered source implies
    the covering one, and sources that are neither equal nor nested exclude each other -/
structure SrcRel (m : Src → Bool) (S : Src → Prop) : Prop where
  cover : ∀ a b, S a → S b → ixnSourceMatches a b = true → m a = true → m b = true
  disj : ∀ a b, S a → S b → a.key ≠ b.key → ixnSourceMatches a b = false → ixnSourceMatches b a = false →
    m a = true → m b = true → False

theorem ixnSourceMatches_peer (a b : Src) (h : ixnSourceMatches a b = true) : a.peer = b.peer := by
  unfold ixnSourceMatches at h
  split at h
  · simp at h
  · split at h
    · simp at h
    · simp only [Bool.and_eq_true, decide_eq_true_eq] at h; exact h.1

theorem rspGo_shape (env : Env) (xf dflt : Bool) (S : Src → Prop) (rp rest : List RIxn)
    (hSrp : ∀ y ∈ rp, S y.src) (hSrest : ∀ y ∈ rest, S y.src) :
    ∀ z ∈ rspGo env xf dflt rp rest,
      z.principal = flattenPrincipal env xf z.src z.nots z.jwt ∧ (∀ n ∈ z.nots, n.peer = z.src.peer)
      ∧ S z.src ∧ ∀ n ∈ z.nots, S n := by
  induction rest generalizing rp with
  | nil => simp [rspGo]
  | cons x rest ih =>
    intro z hz
    have hx : S x.src := hSrest x List.mem_cons_self
    have htail := ih (x :: rp) (by
      intro y hy
      cases List.mem_cons.mp hy with
      | inl e => rw [e]; exact hx
      | inr e => exact hSrp y e) (fun y hy => hSrest y (List.mem_cons_of_mem _ hy)) z
    simp only [rspGo] at hz
    split at hz
    · exact htail hz
    · cases List.mem_cons.mp hz with
      | inr h => exact htail h
      | inl h =>
        subst h
        refine ⟨rfl, ?_, hx, ?_⟩
        · intro n hn
          simp only [List.mem_map, List.mem_filter] at hn
          obtain ⟨i, ⟨_, hm⟩, rfl⟩ := hn
          exact ixnSourceMatches_peer _ _ hm
        · intro n hn
          simp only [List.mem_map, List.mem_filter] at hn
          obtain ⟨i, ⟨hi, _⟩, rfl⟩ := hn
          exact hSrp i hi

theorem rspGo_blocked (env : Env) (xf dflt : Bool) (m : Src → Bool) (S : Src → Prop) (hrel : SrcRel m S)
    (rp rest : List RIxn)
    (hSrp : ∀ y ∈ rp, S y.src) (hSrest : ∀ y ∈ rest, S y.src)
    (hfresh : ∀ y ∈ rp, ∀ x ∈ rest, y.src.key ≠ x.src.key)
    (hpw : rest.Pairwise (fun a b => a.src.key ≠ b.src.key))
    (hy : ∃ y ∈ rp, m y.src = true) :
    ∀ z ∈ rspGo env xf dflt rp rest, hitS m z = false := by
  induction rest generalizing rp with
  | nil => simp [rspGo]
  | cons x rest ih =>
    intro z hz
    obtain ⟨y, hyrp, hym⟩ := hy
    have hx : S x.src := hSrest x List.mem_cons_self
    have hpw' := List.pairwise_cons.mp hpw
    have htail := ih (x :: rp) (by
        intro y hy
        cases List.mem_cons.mp hy with
        | inl e => rw [e]; exact hx
        | inr e => exact hSrp y e)
      (fun y hy => hSrest y (List.mem_cons_of_mem _ hy))
      (by
        intro y' hy' x' hx'
        cases List.mem_cons.mp hy' with
        | inl e => rw [e]; exact hpw'.1 x' hx'
        | inr e => exact hfresh y' e x' (List.mem_cons_of_mem _ hx'))
      hpw'.2 ⟨y, List.mem_cons_of_mem _ hyrp, hym⟩ z
    simp only [rspGo] at hz
    split at hz
    · exact htail hz
    · next hskip =>
      cases List.mem_cons.mp hz with
      | inr h => exact htail h
      | inl h =>
        subst h
        simp only [Bool.or_eq_true, List.any_eq_true, decide_eq_true_eq, not_or, not_exists, not_and] at hskip
        have hnsh : ixnSourceMatches x.src y.src = false := by
          cases h : ixnSourceMatches x.src y.src with
          | false => rfl
          | true => exact absurd h (hskip.1 y hyrp)
        simp only [hitS]
        cases hmx : m x.src with
        | false => simp
        | true =>
          simp only [Bool.true_and]
          apply Bool.eq_false_iff.mpr
          intro hall
          cases hyx : ixnSourceMatches y.src x.src with
          | true =>
            have := List.all_eq_true.mp hall y.src (by
              simp only [List.mem_map, List.mem_filter]
              exact ⟨y, ⟨hyrp, hyx⟩, rfl⟩)
            simp [hym] at this
          | false =>
            exact hrel.disj y.src x.src (hSrp y hyrp) hx (hfresh y hyrp x List.mem_cons_self) hyx hnsh hym hmx

theorem rspGo_first (env : Env) (xf dflt : Bool) (m : Src → Bool) (S : Src → Prop) (hrel : SrcRel m S)
    (Q : Act → List RPerm → List JwtInfo → Bool) (rp rest : List RIxn)
    (hSrp : ∀ y ∈ rp, S y.src) (hSrest : ∀ y ∈ rest, S y.src)
    (hfresh : ∀ y ∈ rp, ∀ x ∈ rest, y.src.key ≠ x.src.key)
    (hpw : rest.Pairwise (fun a b => a.src.key ≠ b.src.key))
    (hno : ∀ y ∈ rp, m y.src = false) :
    (rspGo env xf dflt rp rest).any (fun z => hitS m z && Q z.act z.perms z.jwt)
      = match rest.find? (fun x => m x.src) with
        | none => false
        | some x => (x.act != dfltAct dflt) && Q x.act x.perms x.jwt := by
  induction rest generalizing rp with
  | nil => simp [rspGo]
  | cons x rest ih =>
    have hx : S x.src := hSrest x List.mem_cons_self
    have hpw' := List.pairwise_cons.mp hpw
    have hSrp' : ∀ y ∈ x :: rp, S y.src := by
      intro y hy
      cases List.mem_cons.mp hy with
      | inl e => rw [e]; exact hx
      | inr e => exact hSrp y e
    have hSrest' : ∀ y ∈ rest, S y.src := fun y hy => hSrest y (List.mem_cons_of_mem _ hy)
    have hfresh' : ∀ y ∈ x :: rp, ∀ x' ∈ rest, y.src.key ≠ x'.src.key := by
      intro y' hy' x' hx'
      cases List.mem_cons.mp hy' with
      | inl e => rw [e]; exact hpw'.1 x' hx'
      | inr e => exact hfresh y' e x' (List.mem_cons_of_mem _ hx')
    cases hmx : m x.src with
    | true =>
      have hb := rspGo_blocked env xf dflt m S hrel (x :: rp) rest hSrp' hSrest' hfresh' hpw'.2
        ⟨x, List.mem_cons_self, hmx⟩
      have htail : (rspGo env xf dflt (x :: rp) rest).any (fun z => hitS m z && Q z.act z.perms z.jwt) = false := by
        apply Bool.eq_false_iff.mpr
        intro h
        obtain ⟨z, hz, hzq⟩ := List.any_eq_true.mp h
        simp [hb z hz] at hzq
      have hnsh : (rp.any fun i => ixnSourceMatches x.src i.src) = false := by
        apply Bool.eq_false_iff.mpr
        intro h
        obtain ⟨i, hi, him⟩ := List.any_eq_true.mp h
        have := hrel.cover x.src i.src hx (hSrp i hi) him hmx
        simp [hno i hi] at this
      simp only [rspGo, List.find?_cons, hmx, hnsh, Bool.false_or]
      by_cases hact : x.act = dfltAct dflt
      · simp [hact, htail]
      · have hne : (x.act != dfltAct dflt) = true := by simpa using hact
        have : ((rp.filter fun i => ixnSourceMatches i.src x.src).map (·.src)).all (fun n => !m n) = true := by
          simp only [List.all_eq_true, List.mem_map, List.mem_filter]
          rintro n ⟨i, ⟨hi, _⟩, rfl⟩
          simp [hno i hi]
        simp only [hact, decide_false, Bool.false_eq_true, if_false, List.any_cons, htail, Bool.or_false, hne,
          Bool.true_and]
        simp only [hitS, hmx, this, Bool.and_self, Bool.true_and]
    | false =>
      have hno' : ∀ y ∈ x :: rp, m y.src = false := by
        intro y hy
        cases List.mem_cons.mp hy with
        | inl e => rw [e]; exact hmx
        | inr e => exact hno y e
      have ht := ih (x :: rp) hSrp' hSrest' hfresh' hpw'.2 hno'
      simp only [rspGo, List.find?_cons, hmx]
      split
      · exact ht
      · simp only [List.any_cons, hitS, hmx, Bool.false_and, Bool.false_or]
        exact ht

/-! ### policy assembly -/

theorem collectOrIds_any {C : Type} (σ : Sem C) (c : C) (ps ids : List Pr) (h : collectOrIds ps = some ids) :
    ids.any (evalPr σ c) = ps.any (evalPr σ c) := by
  induction ps generalizing ids with
  | nil => simp [collectOrIds] at h; subst h; rfl
  | cons p ps ih =>
    cases p with
    | orIds l =>
      simp only [collectOrIds, Option.map_eq_some_iff] at h
      obtain ⟨ids', h', rfl⟩ := h
      simp [List.any_append, ih ids' h', evalPr, evalPrAny_eq]
    | id _ => simp [collectOrIds] at h
    | gw _ => simp [collectOrIds] at h
    | xfcc _ => simp [collectOrIds] at h
    | mdata _ _ => simp [collectOrIds] at h
    | andIds _ => simp [collectOrIds] at h
    | notId _ => simp [collectOrIds] at h

theorem eval_optimizePrincipals {C : Type} (σ : Sem C) (c : C) (ps : List Pr) :
    (optimizePrincipals ps).any (evalPr σ c) = ps.any (evalPr σ c) := by
  unfold optimizePrincipals
  split
  · next ids h => simp [eval_orPrincipals, collectOrIds_any σ c ps ids h]
  · rfl

/-- does the policy generated for this intention match? -/
def polHit {C : Type} (σ : Sem C) (c : C) (r : Req) (f : FIxn) : Bool :=
  evalPr σ c f.principal && (if f.act = .l7 then f.cperms.any (evalPm r) else true)

theorem l7Policies_any {C : Type} (σ : Sem C) (c : C) (r : Req) (i : Nat) (fs : List FIxn) :
    (l7Policies i fs).any (fun p => evalPolicy σ c r p.2)
      = fs.any (fun f => decide (f.act = .l7) && polHit σ c r f) := by
  induction fs generalizing i with
  | nil => simp [l7Policies]
  | cons f fs ih =>
    simp only [l7Policies]
    split
    · next h =>
      rw [List.any_cons, List.any_cons, ih (i + 1)]
      simp [evalPolicy, eval_optimizePrincipals, polHit, h]
    · next h =>
      rw [List.any_cons, ih (i + 1)]
      simp [h]

theorem l4_any {C : Type} (σ : Sem C) (c : C) (r : Req) (fs : List FIxn) :
    (l4Principals fs).any (evalPr σ c) = fs.any (fun f => !decide (f.act = .l7) && polHit σ c r f) := by
  induction fs with
  | nil => rfl
  | cons f fs ih =>
    have hc : l4Principals (f :: fs) = if f.act ≠ .l7 then f.principal :: l4Principals fs else l4Principals fs := by
      simp only [l4Principals, List.filter_cons]
      split <;> simp_all
    rw [hc, List.any_cons, ← ih]
    by_cases h : f.act = .l7
    · simp [h]
    · simp [h, polHit]

theorem any_split {α : Type} (p q : α → Bool) (l : List α) :
    (l.any (fun f => p f && q f) || l.any (fun f => !p f && q f)) = l.any q := by
  induction l with
  | nil => rfl
  | cons f fs ih =>
    simp only [List.any_cons]
    rw [← ih]
    cases p f <;> cases q f <;> simp

theorem l4_policy_any {C : Type} (σ : Sem C) (c : C) (r : Req) (l4 : List Pr) :
    (if l4.isEmpty then ([] : List (PolName × Policy))
        else [(.l4, ⟨optimizePrincipals l4, [.any]⟩)]).any (fun p => evalPolicy σ c r p.2)
      = l4.any (evalPr σ c) := by
  split
  · next h => simp [List.isEmpty_iff.mp h]
  · simp [evalPolicy, eval_optimizePrincipals, evalPm]

theorem assemble_hit {C : Type} (σ : Sem C) (c : C) (r : Req) (dflt : Bool) (fs : List FIxn) :
    (assemble dflt fs).policies.any (fun p => evalPolicy σ c r p.2) = fs.any (polHit σ c r) := by
  simp only [assemble, List.any_append, l7Policies_any, l4_policy_any, l4_any σ c r]
  exact any_split (fun f => decide (f.act = .l7)) (polHit σ c r) fs

theorem evalRbac_assemble {C : Type} (σ : Sem C) (c : C) (r : Req) (dflt : Bool) (fs : List FIxn) :
    evalRbac σ (assemble dflt fs) c r = (fs.any (polHit σ c r) != dflt) := by
  have := assemble_hit σ c r dflt fs
  simp only [evalRbac, this]
  cases dflt <;> simp [assemble]

/-! ### the translation of an intermediate list is first-match over it -/

def verdictR (dflt : Bool) (has : List Name → Name → Bool) (r : Req) (x : RIxn) : Bool :=
  if !jwtSat has x.jwt then dflt
  else match x.act with
  | .allow => true
  | .deny => false
  | .l7 => match x.perms.find? (fun p => evalPm r p.pm) with
    | none => dflt
    | some p => if jwtSat (reqHas r) p.jwt then p.allow else dflt

def specR (m : Src → Bool) (dflt : Bool) (has : List Name → Name → Bool) (r : Req) (rs : List RIxn) : Bool :=
  match rs.find? (fun x => m x.src) with
  | none => dflt
  | some x => verdictR dflt has r x

/-- the JWT and permission side of a policy, in terms of the intermediate intention -/
def permSide (dflt : Bool) (has : List Name → Name → Bool) (r : Req) (act : Act) (perms : List RPerm)
    (jwt : List JwtInfo) : Bool :=
  jwtSat has jwt && (if act = .l7 then permHit dflt r perms else true)

theorem any_congr_mem {α : Type} (l : List α) (f g : α → Bool) (h : ∀ a ∈ l, f a = g a) : l.any f = l.any g := by
  induction l with
  | nil => rfl
  | cons a l ih =>
    simp only [List.any_cons, h a List.mem_cons_self]
    rw [ih (fun b hb => h b (List.mem_cons_of_mem _ hb))]

theorem any_filterMap' {α β : Type} (l : List α) (f : α → Option β) (p : β → Bool) :
    (l.filterMap f).any p = l.any (fun a => match f a with | some b => p b | none => false) := by
  induction l with
  | nil => rfl
  | cons a l ih =>
    simp only [List.filterMap_cons, List.any_cons]
    cases h : f a with
    | none => simp [ih]
    | some b => simp [ih]

theorem removeIntentionPrecedence_any {C : Type} (σ : Sem C) (env : Env) (xf dflt : Bool) (c : C) (r : Req)
    (rs : List RIxn) :
    (removeIntentionPrecedence env xf dflt rs).any (polHit σ c r)
      = (removeSourcePrecedence env xf dflt rs).any
          (fun z => evalPr σ c z.principal && (if z.act = .l7 then permHit dflt r z.perms else true)) := by
  unfold removeIntentionPrecedence
  rw [any_filterMap']
  apply any_congr_mem
  intro z _
  simp only [← removePermissionPrecedence_any]
  by_cases h7 : z.act = .l7
  · by_cases he : (removePermissionPrecedence dflt z.perms).isEmpty = true
    · simp [h7, he, List.isEmpty_iff.mp he]
    · simp [h7, he, polHit]
  · simp [h7, polHit]

theorem verdict_bool (dflt : Bool) (has : List Name → Name → Bool) (r : Req) (x : RIxn) :
    ((x.act != dfltAct dflt) && permSide dflt has r x.act x.perms x.jwt) = (verdictR dflt has r x != dflt) := by
  unfold verdictR permSide permHit dfltAct
  cases hj : jwtSat has x.jwt
  · simp
  · cases hx : x.act <;> cases dflt <;> simp
    all_goals
      cases hf : List.find? (fun p => evalPm r p.pm) x.perms with
      | none => simp
      | some p => cases hq : jwtSat (reqHas r) p.jwt <;> cases p.allow <;> simp [hq] <;> decide

theorem rixn_correct {C : Type} (σ : Sem C) (env : Env) (xf dflt : Bool) (c : C) (r : Req) (rs : List RIxn)
    (S : Src → Prop) (hrel : SrcRel (fun s => srcM σ env xf s c) S) (hS : ∀ y ∈ rs, S y.src)
    (hpw : rs.Pairwise (fun a b => a.src.key ≠ b.src.key)) :
    evalRbac σ (assemble dflt (removeIntentionPrecedence env xf dflt rs)) c r
      = specR (fun s => srcM σ env xf s c) dflt (fun a b => σ.metaM a b c) r rs := by
  rw [evalRbac_assemble, removeIntentionPrecedence_any]
  have hshape := rspGo_shape env xf dflt S [] rs (by simp) hS
  have hcong : (removeSourcePrecedence env xf dflt rs).any
        (fun z => evalPr σ c z.principal && (if z.act = .l7 then permHit dflt r z.perms else true))
      = (removeSourcePrecedence env xf dflt rs).any
        (fun z => hitS (fun s => srcM σ env xf s c) z
          && permSide dflt (fun a b => σ.metaM a b c) r z.act z.perms z.jwt) := by
    apply any_congr_mem
    intro z hz
    obtain ⟨hp, hpeer, _, hSn⟩ := hshape z hz
    rw [hp, eval_flattenPrincipal σ env xf c z.src z.nots z.jwt hpeer
      (fun a ha b hb hab hma => hrel.cover a b (hSn a ha) (hSn b hb) hab hma)]
    simp only [hitS, permSide, Bool.and_assoc]
  rw [hcong]
  have hf := rspGo_first env xf dflt (fun s => srcM σ env xf s c) S hrel
    (permSide dflt (fun a b => σ.metaM a b c) r) [] rs (by simp) hS (by simp) hpw (by simp)
  unfold removeSourcePrecedence
  rw [hf]
  unfold specR
  cases hfind : rs.find? (fun x => srcM σ env xf x.src c) with
  | none => simp
  | some x =>
    simp only [verdict_bool]
    cases verdictR dflt (fun a b => σ.metaM a b c) r x <;> cases dflt <;> rfl

/-! ### from the intention list to the intermediate list -/

/-- the sources that exist in an environment -/
def EnvSrc (env : Env) (s : Src) : Prop := ∃ peer name, srcOf env peer name = some s

theorem srcOf_key (env : Env) (peer name : Name) (s : Src) (h : srcOf env peer name = some s) :
    s.key = (peer, name) := by
  unfold srcOf at h
  split at h
  · simp at h; subst h; simp [Src.key, *]
  · split at h
    · simp at h
    · simp at h; subst h; rfl

theorem mem_toRIxns (env : Env) (http : Bool) (xs : List Ixn) (x : RIxn) (h : x ∈ toRIxns env http xs) :
    ∃ i ∈ xs, srcOf env i.peer i.name = some x.src := by
  simp only [toRIxns, List.mem_filterMap, Option.map_eq_some_iff] at h
  obtain ⟨i, hi, s, hs, rfl⟩ := h
  refine ⟨i, hi, ?_⟩
  rw [hs]; unfold toRIxn; simp only; split <;> (try split) <;> rfl

theorem toRIxns_pairwise (env : Env) (http : Bool) (xs : List Ixn)
    (h : xs.Pairwise (fun a b => a.key ≠ b.key)) :
    (toRIxns env http xs).Pairwise (fun a b => a.src.key ≠ b.src.key) := by
  induction xs with
  | nil => simp [toRIxns]
  | cons i xs ih =>
    have hp := List.pairwise_cons.mp h
    have ih' := ih hp.2
    simp only [toRIxns, List.filterMap_cons] at ih' ⊢
    cases hs : srcOf env i.peer i.name with
    | none => simpa using ih'
    | some s =>
      simp only [Option.map_some]
      apply List.pairwise_cons.mpr
      refine ⟨?_, ih'⟩
      intro y hy
      obtain ⟨j, hj, hjs⟩ := mem_toRIxns env http xs y hy
      have h1 : (toRIxn env http s i).src = s := by unfold toRIxn; simp only; split <;> (try split) <;> rfl
      rw [h1, srcOf_key env _ _ s hs, srcOf_key env _ _ y.src hjs]
      exact hp.1 j hj

theorem dedupGo_props (seen : List (Name × Name)) (xs : List Ixn) :
    (dedupGo seen xs).Pairwise (fun a b => a.key ≠ b.key) ∧ ∀ i ∈ dedupGo seen xs, i.key ∉ seen := by
  induction xs generalizing seen with
  | nil => simp [dedupGo]
  | cons i xs ih =>
    simp only [dedupGo]
    split
    · exact ih seen
    · next hc =>
      have := ih (i.key :: seen)
      refine ⟨List.pairwise_cons.mpr ⟨?_, this.1⟩, ?_⟩
      · intro j hj hk
        exact this.2 j hj (by rw [← hk]; exact List.mem_cons_self)
      · intro j hj
        cases List.mem_cons.mp hj with
        | inl e => subst e; simpa using hc
        | inr e => exact fun hm => this.2 j e (List.mem_cons_of_mem _ hm)

theorem dedupGo_find (p : Ixn → Bool) (hp : ∀ a b : Ixn, a.key = b.key → p a = p b)
    (seen : List (Name × Name)) (xs : List Ixn)
    (hseen : ∀ i : Ixn, i.key ∈ seen → p i = false) :
    (dedupGo seen xs).find? p = xs.find? p := by
  induction xs generalizing seen with
  | nil => rfl
  | cons i xs ih =>
    simp only [dedupGo]
    split
    · next hc =>
      have : p i = false := hseen i (by simpa using hc)
      simp only [List.find?_cons, this]
      exact ih seen hseen
    · simp only [List.find?_cons]
      cases hpi : p i with
      | true => rfl
      | false =>
        apply ih
        intro j hj
        cases List.mem_cons.mp hj with
        | inl e => rw [hp j i e]; exact hpi
        | inr e => exact hseen j e

theorem toRIxn_src (env : Env) (http : Bool) (s : Src) (i : Ixn) : (toRIxn env http s i).src = s := by
  unfold toRIxn; simp only; split <;> (try split) <;> rfl

theorem verdictR_toRIxn (env : Env) (dflt http : Bool) (has : List Name → Name → Bool) (r : Req)
    (ho : http = true → MethodOracle r) (s : Src) (i : Ixn) :
    verdictR dflt has r (toRIxn env http s i) = verdict env dflt http has r i := by
  have hj : (toRIxn env http s i).jwt = if http then resolveJwt env i.jwt else [] := by
    unfold toRIxn; simp only; split <;> (try split) <;> rfl
  unfold verdictR verdict
  rw [hj]
  cases http with
  | false =>
    simp only [Bool.false_eq_true, if_false, jwtSat, List.isEmpty_nil, Bool.true_or, Bool.not_true, Bool.false_and,
      Bool.not_false, if_true]
    unfold toRIxn
    by_cases hp : i.perms = []
    · simp only [hp, ne_eq, not_true_eq_false, if_false, if_true]
      cases i.allow <;> simp
    · simp [hp]
  | true =>
    simp only [if_true, Bool.true_and]
    cases hs : jwtSat has (resolveJwt env i.jwt) with
    | false => simp
    | true =>
      simp only [Bool.not_true, Bool.false_eq_true, if_false]
      unfold toRIxn
      by_cases hp : i.perms = []
      · simp only [hp, ne_eq, not_true_eq_false, if_false, if_true]
        cases i.allow <;> simp
      · have hf : (fun p : Perm => evalPm r (convertPermission p)) = permMatches r := by
          funext p; exact convertPermission_correct r (ho rfl) p
        simp only [hp, ne_eq, not_false_eq_true, if_true, if_false, List.find?_map, Function.comp_def, hf]
        cases i.perms.find? (permMatches r) <;> simp

theorem specR_toRIxns {C : Type} (σ : Sem C) (env : Env) (xf dflt http : Bool) (c : C) (r : Req)
    (has : List Name → Name → Bool) (ho : http = true → MethodOracle r) (xs : List Ixn) :
    specR (fun s => srcM σ env xf s c) dflt has r (toRIxns env http xs)
      = match xs.find? (fun i => ixnM σ env xf c i.peer i.name) with
        | none => dflt
        | some i => verdict env dflt http has r i := by
  induction xs with
  | nil => simp [toRIxns, specR]
  | cons i xs ih =>
    simp only [toRIxns, List.filterMap_cons, specR] at ih ⊢
    cases hs : srcOf env i.peer i.name with
    | none =>
      have : ixnM σ env xf c i.peer i.name = false := by simp [ixnM, hs]
      simp only [Option.map_none, List.find?_cons, this]
      exact ih
    | some s =>
      have hm : ixnM σ env xf c i.peer i.name = srcM σ env xf s c := by simp [ixnM, hs]
      simp only [Option.map_some, List.find?_cons, toRIxn_src, hm]
      cases srcM σ env xf s c with
      | true => exact verdictR_toRIxn env dflt http has r ho s i
      | false => exact ih

end CV.Rbac
