/-
Soundness of the blocking-query loop (CV.BlockingQuery) under the per-write contract of the query
function: a changed result comes with a strictly larger index and a fired watch; the index never
decreases. Then a request blocked on the index of state `a` that runs into its timeout has not missed
anything: every state it slept through has the result of `a`.
-/
import CV.BlockingQuery
namespace CV.BQ

variable {ρ : Type}

/-- the contract `blockingquery.Query` demands from a query function (rules 2 and 3 of its doc comment),
    from state `a` on -/
structure Contract (t : Trace ρ) (a : Nat) : Prop where
  mono : ∀ k, a ≤ k → k < t.last → t.idx k ≤ t.idx (k + 1)
  strict : ∀ k, a ≤ k → k < t.last → t.res (k + 1) ≠ t.res k → t.idx k < t.idx (k + 1)
  watch : ∀ j k, a ≤ j → j ≤ k → k ≤ t.last → t.res k ≠ t.res j → t.fired j k = true

theorem Contract.idx_le {t : Trace ρ} {a : Nat} (h : Contract t a) :
    ∀ d j, a ≤ j → j + d ≤ t.last → t.idx j ≤ t.idx (j + d) := by
  intro d
  induction d with
  | zero => intro j _ _; exact Nat.le_refl _
  | succ d ih =>
    intro j hj hl
    have h1 := ih j hj (by omega)
    have h2 := h.mono (j + d) (by omega) (by omega)
    exact Nat.le_trans h1 h2

/-- as long as the index has not moved past the one of `a`, the result is the one of `a` -/
theorem Contract.same_result {t : Trace ρ} {a : Nat} (h : Contract t a) :
    ∀ d, a + d ≤ t.last → t.idx (a + d) ≤ t.idx a → t.res (a + d) = t.res a := by
  intro d
  induction d with
  | zero => intro _ _; rfl
  | succ d ih =>
    intro hl hi
    have e : a + (d + 1) = a + d + 1 := by omega
    rw [e] at hl hi ⊢
    have h1 := h.idx_le d a (Nat.le_refl _) (by omega)
    have h2 := h.mono (a + d) (by omega) (by omega)
    have hprev : t.res (a + d) = t.res a := ih (by omega) (by omega)
    by_cases hc : t.res (a + d + 1) = t.res (a + d)
    · rw [hc, hprev]
    · have := h.strict (a + d) (by omega) (by omega) hc
      omega

theorem firstFired_none {t : Trace ρ} {c : Nat} : ∀ n k, firstFired t c k n = none →
    ∀ j, k ≤ j → j < k + n → t.fired c j = false := by
  intro n
  induction n with
  | zero => intro k _ j h1 h2; omega
  | succ n ih =>
    intro k h j h1 h2
    simp only [firstFired] at h
    split at h
    · simp at h
    · next hf =>
      by_cases hj : j = k
      · subst hj; simpa using hf
      · exact ih (k + 1) h j (by omega) (by omega)

theorem firstFired_some {t : Trace ρ} {c : Nat} : ∀ n k r, firstFired t c k n = some r →
    k ≤ r ∧ r < k + n ∧ t.fired c r = true := by
  intro n
  induction n with
  | zero => intro k r h; simp [firstFired] at h
  | succ n ih =>
    intro k r h
    simp only [firstFired] at h
    split at h
    · next hf => simp at h; subst h; exact ⟨Nat.le_refl _, by omega, hf⟩
    · have := ih (k + 1) r h
      refine ⟨by omega, by omega, this.2.2⟩

theorem wakeAt_bounds (t : Trace ρ) {k : Nat} (hk : k ≤ t.last) : k ≤ wakeAt t k ∧ wakeAt t k ≤ t.last := by
  unfold wakeAt; omega

/-- a timed-out request slept through nothing -/
theorem loop_timeout {t : Trace ρ} {a : Nat} (h : Contract t a) :
    ∀ fuel c e, a ≤ c → c ≤ t.last → t.last - c < fuel → loop t (t.idx a) fuel c = .timeout e →
      ∀ k, a ≤ k → k ≤ t.last → t.res k = t.res a := by
  intro fuel
  induction fuel with
  | zero => intro c e _ _ hf; omega
  | succ fuel ih =>
    intro c e hac hcl hf hr k hak hkl
    simp only [loop] at hr
    split at hr
    · simp at hr
    · next hidx =>
      have hidx : t.idx c ≤ t.idx a := by omega
      -- everything up to c has the result of a
      have upto : ∀ j, a ≤ j → j ≤ c → t.res j = t.res a := by
        intro j hj hjc
        obtain ⟨d, rfl⟩ : ∃ d, j = a + d := ⟨j - a, by omega⟩
        apply h.same_result d (by omega)
        have := h.idx_le (c - (a + d)) (a + d) (by omega) (by omega)
        have e : a + d + (c - (a + d)) = c := by omega
        rw [e] at this
        omega
      split at hr
      · next hnone =>
        by_cases hkc : k ≤ c
        · exact upto k hak hkc
        · have hf' := firstFired_none _ _ hnone k (by omega) (by omega)
          have hc := upto c hac (Nat.le_refl _)
          by_cases hne : t.res k = t.res c
          · rw [hne, hc]
          · have := h.watch c k hac (by omega) hkl hne
            rw [this] at hf'; simp at hf'
      · next r hsome =>
        obtain ⟨h1, h2, _⟩ := firstFired_some _ _ _ hsome
        have hb := wakeAt_bounds t (k := r) (by omega)
        exact ih (wakeAt t r) e (by omega) hb.2 (by omega) hr k hak hkl

/-- an answer is always newer than what the client had -/
theorem loop_returned {t : Trace ρ} {m : Nat} :
    ∀ fuel c r, c ≤ t.last → loop t m fuel c = .returned r → m < t.idx r ∧ c ≤ r ∧ r ≤ t.last := by
  intro fuel
  induction fuel with
  | zero => intro c r _ h; simp [loop] at h
  | succ fuel ih =>
    intro c r hcl h
    simp only [loop] at h
    split at h
    · next hi => simp at h; subst h; exact ⟨hi, Nat.le_refl _, hcl⟩
    · split at h
      · simp at h
      · next k hsome =>
        obtain ⟨h1, h2, _⟩ := firstFired_some _ _ _ hsome
        have hb := wakeAt_bounds t (k := k) (by omega)
        have := ih (wakeAt t k) r hb.2 h
        omega


/-! ### with `ErrNotFound` / `ErrNotChanged` -/

/-- what the doc comment of `blockingquery.Query` demands of a query function that uses the sentinels:
    two "not found" answers carry the same (empty) result, and "not changed" is only said when the result
    equals the one of the previous evaluation -/
structure FlagsSound (t : Trace ρ) (f : Flags) (a : Nat) : Prop where
  notFound : ∀ j k, a ≤ j → j ≤ k → k ≤ t.last → f.notFound j = true → f.notFound k = true → t.res k = t.res j
  notChanged : ∀ j k, a ≤ j → j ≤ k → k ≤ t.last → f.notChanged j k = true → t.res k = t.res j

/-- loop invariant before an evaluation in state `c` -/
def LoopInv (t : Trace ρ) (f : Flags) (a : Nat) (st : LoopSt) (c : Nat) : Prop :=
  ∃ b, a ≤ b ∧ b ≤ c ∧ st.min = t.idx b ∧ t.res b = t.res a ∧
    (∀ j, st.prev = some j → a ≤ j ∧ j ≤ c ∧ t.res j = t.res a) ∧
    (st.sawNotFound = true → ∃ j, a ≤ j ∧ j ≤ c ∧ f.notFound j = true ∧ t.res j = t.res a)

theorem Contract.same_from {t : Trace ρ} {a : Nat} (h : Contract t a) {b c : Nat} (hab : a ≤ b) (hbc : b ≤ c)
    (hcl : c ≤ t.last) (hi : t.idx c ≤ t.idx b) : t.res c = t.res b := by
  have hb : Contract t b :=
    ⟨fun k hk => h.mono k (by omega), fun k hk => h.strict k (by omega), fun j k hj => h.watch j k (by omega)⟩
  obtain ⟨d, rfl⟩ : ∃ d, c = b + d := ⟨c - b, by omega⟩
  exact hb.same_result d hcl hi

/-- one evaluation that does not return keeps the invariant, and the evaluated state has the client's result -/
theorem evalStep_inv {t : Trace ρ} {f : Flags} {a : Nat} (h : Contract t a) (hf : FlagsSound t f a)
    {st : LoopSt} {c : Nat} (hac : a ≤ c) (hcl : c ≤ t.last) (inv : LoopInv t f a st c)
    (hno : ¬ t.idx c > (evalStep t f st c).min) :
    t.res c = t.res a ∧ ∀ c', c ≤ c' → LoopInv t f a (evalStep t f st c) c' := by
  obtain ⟨b, hab, hbc, hmin, hres, hprev, hsaw⟩ := inv
  -- the plain case: the index has not moved past the one blocked on
  have plain : t.idx c ≤ st.min → t.res c = t.res a := by
    intro hle
    rw [hmin] at hle
    rw [h.same_from hab hbc hcl hle, hres]
  unfold evalStep at hno ⊢
  by_cases hnf : f.notFound c = true
  · simp only [hnf, if_true] at hno ⊢
    by_cases hs : st.sawNotFound = true
    · simp only [hs, if_true] at hno ⊢
      obtain ⟨j, haj, hjc, hjf, hjr⟩ := hsaw hs
      have hc : t.res c = t.res a := by rw [hf.notFound j c haj hjc hcl hjf hnf, hjr]
      refine ⟨hc, fun c' hcc' => ⟨c, hac, hcc', rfl, hc, ?_, ?_⟩⟩
      · intro j' hj'; simp at hj'; subst hj'; exact ⟨hac, hcc', hc⟩
      · intro _; exact ⟨c, hac, hcc', hnf, hc⟩
    · simp only [hs] at hno ⊢
      have hc := plain (by simpa using hno)
      refine ⟨hc, fun c' hcc' => ⟨b, hab, by omega, hmin, hres, ?_, ?_⟩⟩
      · intro j' hj'; simp at hj'; subst hj'; exact ⟨hac, hcc', hc⟩
      · intro _; exact ⟨c, hac, hcc', hnf, hc⟩
  · simp only [hnf] at hno ⊢
    cases hp : st.prev with
    | none =>
      simp only [hp] at hno ⊢
      have hc := plain (by simpa using hno)
      refine ⟨hc, fun c' hcc' => ⟨b, hab, by omega, hmin, hres, ?_, ?_⟩⟩
      · intro j' hj'; simp at hj'; subst hj'; exact ⟨hac, hcc', hc⟩
      · intro hs'; obtain ⟨j, h1, h2, h3, h4⟩ := hsaw hs'; exact ⟨j, h1, by omega, h3, h4⟩
    | some j =>
      simp only [hp] at hno ⊢
      obtain ⟨haj, hjc, hjr⟩ := hprev j hp
      by_cases hnc : f.notChanged j c = true
      · simp only [hnc, if_true] at hno ⊢
        have hc : t.res c = t.res a := by rw [hf.notChanged j c haj hjc hcl hnc, hjr]
        refine ⟨hc, fun c' hcc' => ⟨c, hac, hcc', rfl, hc, ?_, ?_⟩⟩
        · intro j' hj'; simp at hj'; subst hj'; exact ⟨hac, hcc', hc⟩
        · intro hs'; obtain ⟨j2, h1, h2, h3, h4⟩ := hsaw hs'; exact ⟨j2, h1, by omega, h3, h4⟩
      · simp only [hnc] at hno ⊢
        have hc := plain (by simpa using hno)
        refine ⟨hc, fun c' hcc' => ⟨b, hab, by omega, hmin, hres, ?_, ?_⟩⟩
        · intro j' hj'; simp at hj'; subst hj'; exact ⟨hac, hcc', hc⟩
        · intro hs'; obtain ⟨j2, h1, h2, h3, h4⟩ := hsaw hs'; exact ⟨j2, h1, by omega, h3, h4⟩

/-- the index blocked on never falls below the client's -/
theorem evalStep_min_ge {t : Trace ρ} {f : Flags} {a : Nat} (h : Contract t a) {st : LoopSt} {c : Nat}
    (hcl : c ≤ t.last) (inv : LoopInv t f a st c) : t.idx a ≤ (evalStep t f st c).min := by
  obtain ⟨b, hab, hbc, hmin, -, -, -⟩ := inv
  have e1 : b = a + (b - a) := by omega
  have h1 : t.idx a ≤ t.idx b := by
    have := h.idx_le (b - a) a (Nat.le_refl _) (by omega)
    rwa [← e1] at this
  have e2 : c = a + (c - a) := by omega
  have h2 : t.idx a ≤ t.idx c := by
    have := h.idx_le (c - a) a (Nat.le_refl _) (by omega)
    rwa [← e2] at this
  unfold evalStep
  split
  · simp only; split <;> omega
  · split
    · split <;> simp only <;> omega
    · simp only; omega

/-- With the sentinels: a request that times out holds a result that is CURRENT — the last evaluation gave the
    client's result and nothing changed after it. (A change that was undone again before the loop looked is not
    reported; neither is it by the plain loop, which would return the same result with a larger index.) -/
theorem loopF_timeout {t : Trace ρ} {f : Flags} {a : Nat} (h : Contract t a) (hf : FlagsSound t f a) :
    ∀ fuel st c e, a ≤ c → c ≤ t.last → t.last - c < fuel → LoopInv t f a st c → loopF t f fuel st c = .timeout e →
      t.res e = t.res a ∧ ∀ k, e ≤ k → k ≤ t.last → t.res k = t.res a := by
  intro fuel
  induction fuel with
  | zero => intro st c e _ _ hfu; omega
  | succ fuel ih =>
    intro st c e hac hcl hfu inv hr
    simp only [loopF] at hr
    split at hr
    · simp at hr
    · next hno =>
      obtain ⟨hc, hinv⟩ := evalStep_inv h hf hac hcl inv hno
      split at hr
      · next hnone =>
        simp at hr; subst hr
        refine ⟨hc, fun k hck hkl => ?_⟩
        by_cases hk : k = c
        · subst hk; exact hc
        · have hf' := firstFired_none _ _ hnone k (by omega) (by omega)
          by_cases hne : t.res k = t.res c
          · rw [hne, hc]
          · have := h.watch c k hac (by omega) hkl hne
            rw [this] at hf'; simp at hf'
      · next r hsome =>
        obtain ⟨h1, h2, _⟩ := firstFired_some _ _ _ hsome
        have hb := wakeAt_bounds t (k := r) (by omega)
        exact ih _ (wakeAt t r) e (by omega) hb.2 (by omega) (hinv _ (by omega)) hr

theorem loopF_returned {t : Trace ρ} {f : Flags} {a : Nat} (h : Contract t a) (hf : FlagsSound t f a) :
    ∀ fuel st c r, a ≤ c → c ≤ t.last → LoopInv t f a st c → loopF t f fuel st c = .returned r →
      t.idx a < t.idx r ∧ c ≤ r ∧ r ≤ t.last := by
  intro fuel
  induction fuel with
  | zero => intro st c r _ _ _ hr; simp [loopF] at hr
  | succ fuel ih =>
    intro st c r hac hcl inv hr
    simp only [loopF] at hr
    split at hr
    · next hi =>
      simp at hr; subst hr
      have := evalStep_min_ge h hcl inv
      exact ⟨by omega, Nat.le_refl _, hcl⟩
    · next hno =>
      obtain ⟨-, hinv⟩ := evalStep_inv h hf hac hcl inv hno
      split at hr
      · simp at hr
      · next k hsome =>
        obtain ⟨h1, h2, _⟩ := firstFired_some _ _ _ hsome
        have hb := wakeAt_bounds t (k := k) (by omega)
        have := ih _ (wakeAt t k) r (by omega) hb.2 (hinv _ (by omega)) hr
        omega

end CV.BQ
