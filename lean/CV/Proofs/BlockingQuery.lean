/-
Soundness of the blocking-query loop (CV.BlockingQuery) under the per-write contract of the query
function: a changed result comes with a strictly larger index and a fired watch; the index never
decreases. Then a request blocked on the index of state `a` that runs into its timeout has not missed
anything: every state it slept through has the result of `a`.
-/
import CV.BlockingQuery
namespace CV.BQ

variable {ρ : Type}

/-- the contract `blockingquery.Query` demands from a query function (rules 2 and 3 of its doc comment),
    from state `a` on -/
structure Contract (t : Trace ρ) (a : Nat) : Prop where
  mono : ∀ k, a ≤ k → k < t.last → t.idx k ≤ t.idx (k + 1)
  strict : ∀ k, a ≤ k → k < t.last → t.res (k + 1) ≠ t.res k → t.idx k < t.idx (k + 1)
  watch : ∀ j k, a ≤ j → j ≤ k → k ≤ t.last → t.res k ≠ t.res j → t.fired j k = true

theorem Contract.idx_le {t : Trace ρ} {a : Nat} (h : Contract t a) :
    ∀ d j, a ≤ j → j + d ≤ t.last → t.idx j ≤ t.idx (j + d) := by
  intro d
  induction d with
  | zero => intro j _ _; exact Nat.le_refl _
  | succ d ih =>
    intro j hj hl
    have h1 := ih j hj (by omega)
    have h2 := h.mono (j + d) (by omega) (by omega)
    exact Nat.le_trans h1 h2

/-- as long as the index has not moved past the one of `a`, the result is the one of `a` -/
theorem Contract.same_result {t : Trace ρ} {a : Nat} (h : Contract t a) :
    ∀ d, a + d ≤ t.last → t.idx (a + d) ≤ t.idx a → t.res (a + d) = t.res a := by
  intro d
  induction d with
  | zero => intro _ _; rfl
  | succ d ih =>
    intro hl hi
    have e : a + (d + 1) = a + d + 1 := by omega
    rw [e] at hl hi ⊢
    have h1 := h.idx_le d a (Nat.le_refl _) (by omega)
    have h2 := h.mono (a + d) (by omega) (by omega)
    have hprev : t.res (a + d) = t.res a := ih (by omega) (by omega)
    by_cases hc : t.res (a + d + 1) = t.res (a + d)
    · rw [hc, hprev]
    · have := h.strict (a + d) (by omega) (by omega) hc
      omega

theorem firstFired_none {t : Trace ρ} {c : Nat} : ∀ n k, firstFired t c k n = none →
    ∀ j, k ≤ j → j < k + n → t.fired c j = false := by
  intro n
  induction n with
  | zero => intro k _ j h1 h2; omega
  | succ n ih =>
    intro k h j h1 h2
    simp only [firstFired] at h
    split at h
    · simp at h
    · next hf =>
      by_cases hj : j = k
      · subst hj; simpa using hf
      · exact ih (k + 1) h j (by omega) (by omega)

theorem firstFired_some {t : Trace ρ} {c : Nat} : ∀ n k r, firstFired t c k n = some r →
    k ≤ r ∧ r < k + n ∧ t.fired c r = true := by
  intro n
  induction n with
  | zero => intro k r h; simp [firstFired] at h
  | succ n ih =>
    intro k r h
    simp only [firstFired] at h
    split at h
    · next hf => simp at h; subst h; exact ⟨Nat.le_refl _, by omega, hf⟩
    · have := ih (k + 1) r h
      refine ⟨by omega, by omega, this.2.2⟩

theorem wakeAt_bounds (t : Trace ρ) {k : Nat} (hk : k ≤ t.last) : k ≤ wakeAt t k ∧ wakeAt t k ≤ t.last := by
  unfold wakeAt; omega

/-- a timed-out request slept through nothing -/
theorem loop_timeout {t : Trace ρ} {a : Nat} (h : Contract t a) :
    ∀ fuel c e, a ≤ c → c ≤ t.last → t.last - c < fuel → loop t (t.idx a) fuel c = .timeout e →
      ∀ k, a ≤ k → k ≤ t.last → t.res k = t.res a := by
  intro fuel
  induction fuel with
  | zero => intro c e _ _ hf; omega
  | succ fuel ih =>
    intro c e hac hcl hf hr k hak hkl
    simp only [loop] at hr
    split at hr
    · simp at hr
    · next hidx =>
      have hidx : t.idx c ≤ t.idx a := by omega
      -- everything up to c has the result of a
      have upto : ∀ j, a ≤ j → j ≤ c → t.res j = t.res a := by
        intro j hj hjc
        obtain ⟨d, rfl⟩ : ∃ d, j = a + d := ⟨j - a, by omega⟩
        apply h.same_result d (by omega)
        have := h.idx_le (c - (a + d)) (a + d) (by omega) (by omega)
        have e : a + d + (c - (a + d)) = c := by omega
        rw [e] at this
        omega
      split at hr
      · next hnone =>
        by_cases hkc : k ≤ c
        · exact upto k hak hkc
        · have hf' := firstFired_none _ _ hnone k (by omega) (by omega)
          have hc := upto c hac (Nat.le_refl _)
          by_cases hne : t.res k = t.res c
          · rw [hne, hc]
          · have := h.watch c k hac (by omega) hkl hne
            rw [this] at hf'; simp at hf'
      · next r hsome =>
        obtain ⟨h1, h2, _⟩ := firstFired_some _ _ _ hsome
        have hb := wakeAt_bounds t (k := r) (by omega)
        exact ih (wakeAt t r) e (by omega) hb.2 (by omega) hr k hak hkl

/-- an answer is always newer than what the client had -/
theorem loop_returned {t : Trace ρ} {m : Nat} :
    ∀ fuel c r, c ≤ t.last → loop t m fuel c = .returned r → m < t.idx r ∧ c ≤ r ∧ r ≤ t.last := by
  intro fuel
  induction fuel with
  | zero => intro c r _ h; simp [loop] at h
  | succ fuel ih =>
    intro c r hcl h
    simp only [loop] at h
    split at h
    · next hi => simp at h; subst h; exact ⟨hi, Nat.le_refl _, hcl⟩
    · split at h
      · simp at h
      · next k hsome =>
        obtain ⟨h1, h2, _⟩ := firstFired_some _ _ _ hsome
        have hb := wakeAt_bounds t (k := k) (by omega)
        have := ih (wakeAt t k) r hb.2 h
        omega

end CV.BQ
