/-
Helper lemmas for C08, part 5: the whole-tree and prefix questions (`KeyWritePrefix`,
`ServiceReadPrefix`, `allAllowed`, `anyAllowed`) on a tree that represents (ex, pr).
-/
import CV.Proofs.AclTree
namespace CV.Acl

theorem foldl_pre_eq (ex pr : Bytes → Option Access) (ks : List Bytes) (cur : Option Access) :
    (ks.filterMap (entryOf ex pr)).foldl (fun cur e => if e.2.pre.isSome then e.2.pre else cur) cur =
      ks.foldl (stepPr pr) cur := by
  induction ks generalizing cur with
  | nil => rfl
  | cons k ks ih =>
    have hk : entryOf ex pr k = (mkLeaf (ex k) (pr k)).map fun l => (k, l) := rfl
    simp only [List.filterMap_cons, List.foldl_cons, hk]
    cases he : ex k <;> cases hp : pr k <;> simp [mkLeaf, stepPr, hp, ih]

theorem TreeOf.lastPrefix_eq {t : Tree} {ex pr} (h : TreeOf t ex pr) (seg : Bytes) :
    lastPrefixOnPath t seg = (pathKeys seg).foldl (stepPr pr) none := by
  unfold lastPrefixOnPath
  rw [h.path_eq, foldl_pre_eq]

theorem TreeOf.get_some {t : Tree} {ex pr} (h : TreeOf t ex pr) {k : Bytes} {l : Leaf}
    (hg : t.get k = some l) : l = ⟨ex k, pr k⟩ := by
  rw [h.get] at hg
  cases he : ex k <;> cases hp : pr k <;> simp [mkLeaf, he, hp] at hg ⊢ <;> rw [← hg]

theorem TreeOf.get_of_ex {t : Tree} {ex pr} (h : TreeOf t ex pr) {k : Bytes} {a : Access}
    (he : ex k = some a) : t.get k = some ⟨ex k, pr k⟩ := by
  rw [h.get, he]; cases pr k <;> rfl

theorem TreeOf.get_of_pr {t : Tree} {ex pr} (h : TreeOf t ex pr) {k : Bytes} {a : Access}
    (hp : pr k = some a) : t.get k = some ⟨ex k, pr k⟩ := by
  rw [h.get, hp]; cases ex k <;> rfl

/-- no entry satisfies `q` ⇒ no name's levels satisfy `q` -/
theorem TreeOf.any_false {t : Tree} {ex pr} (h : TreeOf t ex pr) (q : Bytes × Leaf → Bool)
    (hq : t.any q = false) (k : Bytes) (hk : ex k ≠ none ∨ pr k ≠ none) : q (k, ⟨ex k, pr k⟩) = false := by
  cases hh : q (k, ⟨ex k, pr k⟩) with
  | false => rfl
  | true =>
    have hg : t.get k = some ⟨ex k, pr k⟩ := by
      rcases hk with hk | hk
      · obtain ⟨a, ha⟩ := Option.ne_none_iff_exists'.mp hk; exact h.get_of_ex ha
      · obtain ⟨a, ha⟩ := Option.ne_none_iff_exists'.mp hk; exact h.get_of_pr ha
    have : t.any q = true := (Tree.any_iff h.nodup q).mpr ⟨k, _, hg, hh⟩
    rw [this] at hq; cases hq

/-- the path of a longer name starts with the path of its prefix, and continues with names that
    extend the prefix -/
theorem pathKeys_append (p n : Bytes) (hp : p <+: n) :
    ∃ l2, pathKeys n = pathKeys p ++ l2 ∧ ∀ q ∈ l2, p <+: q := by
  induction p generalizing n with
  | nil =>
    cases n with
    | nil => exact ⟨[], rfl, fun q hq => by cases hq⟩
    | cons a l => exact ⟨(pathKeys l).map (a :: ·), rfl, fun q _ => List.nil_prefix⟩
  | cons a p' ih =>
    cases n with
    | nil => simp at hp
    | cons b n' =>
      have ⟨hab, hp'⟩ := List.cons_prefix_cons.mp hp
      subst hab
      obtain ⟨l2, h1, h2⟩ := ih n' hp'
      refine ⟨l2.map (a :: ·), by simp [pathKeys, h1], ?_⟩
      intro q hq
      obtain ⟨x, hx, rfl⟩ := List.mem_map.mp hq
      exact List.cons_prefix_cons.mpr ⟨rfl, h2 x hx⟩

/-- the walk keeps any property that holds of the start value and of every prefix level it meets -/
theorem foldl_stepPr_inv (pr : Bytes → Option Access) (P : Access → Prop) (ks : List Bytes) (a : Access)
    (ha : P a) (hks : ∀ k ∈ ks, ∀ b, pr k = some b → P b) :
    ∃ a', ks.foldl (stepPr pr) (some a) = some a' ∧ P a' := by
  induction ks generalizing a with
  | nil => exact ⟨a, rfl, ha⟩
  | cons k ks ih =>
    simp only [List.foldl_cons]
    cases hp : pr k with
    | none =>
      simp only [stepPr, hp]
      exact ih a ha fun x hx => hks x (List.mem_cons_of_mem _ hx)
    | some b =>
      simp only [stepPr, hp]
      exact ih b (hks k List.mem_cons_self b hp) fun x hx => hks x (List.mem_cons_of_mem _ hx)

/-- generic soundness of the two prefix questions: if the longest prefix rule above `p` satisfies `P`
    and every rule at or below `p` satisfies `P`, the rule that decides any name under `p` satisfies `P` -/
theorem lookup_under_prefix (ex pr : Bytes → Option Access) (P : Access → Prop) (p n : Bytes) (hpn : p <+: n)
    (a : Access) (hbase : (pathKeys p).foldl (stepPr pr) none = some a) (ha : P a)
    (hex : ∀ k b, p <+: k → ex k = some b → P b) (hpr : ∀ k b, p <+: k → pr k = some b → P b) :
    ∃ a', lookupSpec ex pr n = some a' ∧ P a' := by
  unfold lookupSpec
  cases he : ex n with
  | some b => exact ⟨b, rfl, hex n b hpn he⟩
  | none =>
    obtain ⟨l2, h1, h2⟩ := pathKeys_append p n hpn
    simp only
    rw [h1, List.foldl_append, hbase]
    exact foldl_stepPr_inv pr P l2 a ha fun k hk b hb => hpr k b (h2 k hk) hb

theorem enforce_write_allow {a : Access} : enforce a .write = .allow ↔ a = .write := by
  cases a <;> simp [enforce]

theorem enforce_read_allow {a : Access} : enforce a .read = .allow ↔ a ≠ .deny := by
  cases a <;> simp [enforce]

theorem enforce_ne_dflt (a r : Access) : enforce a r ≠ .dflt := by
  cases a <;> cases r <;> simp [enforce]

theorem enforce_read_deny {a : Access} : enforce a .read = .deny ↔ a = .deny := by
  cases a <;> simp [enforce]

/-- `KeyWritePrefix(p) = Allow` ⇒ every key under `p` may be written -/
theorem TreeOf.keyWritePrefix_sound {t : Tree} {ex pr} (h : TreeOf t ex pr) (p n : Bytes) (hpn : p <+: n)
    (hk : keyWritePrefix t p = .allow) : check t n .write = .allow := by
  unfold keyWritePrefix at hk
  rw [h.lastPrefix_eq] at hk
  simp only at hk
  cases hany : t.any (fun e => p.isPrefixOf e.1 && (notWrite e.2.pre || notWrite e.2.exact)) with
  | true => rw [hany] at hk; split at hk <;> simp at hk
  | false =>
    rw [hany] at hk
    cases hb : (pathKeys p).foldl (stepPr pr) none with
    | none => rw [hb] at hk; simp at hk
    | some a =>
      rw [hb] at hk
      by_cases haw : a = .write
      · subst haw
        have hno := h.any_false _ hany
        have hex : ∀ k b, p <+: k → ex k = some b → b = .write := by
          intro k b hpk hb'
          have := hno k (.inl (by rw [hb']; simp))
          simp only [List.isPrefixOf_iff_prefix.mpr hpk, Bool.true_and, Bool.or_eq_false_iff, hb', notWrite] at this
          have := this.2
          cases b <;> simp at this ⊢
        have hpr : ∀ k b, p <+: k → pr k = some b → b = .write := by
          intro k b hpk hb'
          have := hno k (.inr (by rw [hb']; simp))
          simp only [List.isPrefixOf_iff_prefix.mpr hpk, Bool.true_and, Bool.or_eq_false_iff, hb', notWrite] at this
          have := this.1
          cases b <;> simp at this ⊢
        obtain ⟨a', h1, h2⟩ := lookup_under_prefix ex pr (· = .write) p n hpn .write hb rfl hex hpr
        unfold check
        rw [h.getPolicy_eq, h1, h2]
        rfl
      · simp [haw] at hk

/-- `ServiceReadPrefix(p) = Allow` ⇒ every service name under `p` may be read -/
theorem TreeOf.serviceReadPrefix_sound {t : Tree} {ex pr} (h : TreeOf t ex pr) (p n : Bytes) (hpn : p <+: n)
    (hk : serviceReadPrefix t p = .allow) : check t n .read = .allow := by
  unfold serviceReadPrefix at hk
  rw [h.lastPrefix_eq] at hk
  simp only at hk
  cases hany : t.any (fun e => p.isPrefixOf e.1 && (notReadable e.2.pre || notReadable e.2.exact)) with
  | true => rw [hany] at hk; simp at hk
  | false =>
    rw [hany] at hk
    simp only [Bool.false_eq_true, if_false] at hk
    have hno := h.any_false _ hany
    have hex : ∀ k b, p <+: k → ex k = some b → (b = .read ∨ b = .write) := by
      intro k b hpk hb'
      have := hno k (.inl (by rw [hb']; simp))
      simp only [List.isPrefixOf_iff_prefix.mpr hpk, Bool.true_and, Bool.or_eq_false_iff, hb', notReadable] at this
      have := this.2
      cases b <;> simp at this ⊢
    have hpr : ∀ k b, p <+: k → pr k = some b → (b = .read ∨ b = .write) := by
      intro k b hpk hb'
      have := hno k (.inr (by rw [hb']; simp))
      simp only [List.isPrefixOf_iff_prefix.mpr hpk, Bool.true_and, Bool.or_eq_false_iff, hb', notReadable] at this
      have := this.1
      cases b <;> simp at this ⊢
    cases hb : (pathKeys p).foldl (stepPr pr) none with
    | none => rw [hb] at hk; simp at hk
    | some a =>
      rw [hb] at hk
      by_cases har : a = .read ∨ a = .write
      · obtain ⟨a', h1, h2⟩ := lookup_under_prefix ex pr (fun a => a = .read ∨ a = .write) p n hpn a hb har hex hpr
        unfold check
        rw [h.getPolicy_eq, h1]
        rcases h2 with h2 | h2 <;> rw [h2] <;> rfl
      · simp [har] at hk

theorem pathKeys_head (n : Bytes) : ∃ rest, pathKeys n = [] :: rest ∧ ∀ q ∈ rest, ([] : Bytes) <+: q := by
  cases n with
  | nil => exact ⟨[], rfl, fun q hq => by cases hq⟩
  | cons a l => exact ⟨(pathKeys l).map (a :: ·), rfl, fun q _ => List.nil_prefix⟩

/-- `allAllowed(tree, read) = Allow` (NodeReadAll, ServiceReadAll) ⇒ every name may be read -/
theorem TreeOf.allAllowed_read_sound {t : Tree} {ex pr} (h : TreeOf t ex pr) (n : Bytes)
    (hk : allAllowed t .read = .allow) : check t n .read = .allow := by
  unfold allAllowed at hk
  simp only at hk
  cases hg : t.get [] with
  | none =>
    rw [hg] at hk
    cases hany : t.any (fun e => allLeaf e.2 false .read = .deny) <;> simp [hany] at hk
  | some l =>
    rw [hg] at hk
    simp only at hk
    have hl := h.get_some hg
    cases hany : t.any (fun e => allLeaf e.2 false .read = .deny) with
    | true => rw [hany] at hk; split at hk <;> simp at hk
    | false =>
      rw [hany] at hk
      have hd0 : allLeaf l true .read = .allow := by
        split at hk
        · cases hk
        · simpa using hk
      have hno := h.any_false _ hany
      -- the catch-all prefix rule exists and allows read
      have hroot : ∃ a, pr [] = some a ∧ a ≠ .deny := by
        rw [hl] at hd0
        simp only [allLeaf, Bool.true_or, if_true] at hd0
        cases hp : pr [] with
        | none => rw [hp] at hd0; simp [enforceOpt] at hd0
        | some a => rw [hp] at hd0; exact ⟨a, rfl, enforce_read_allow.mp hd0⟩
      have hex : ∀ k b, ex k = some b → b ≠ .deny := by
        intro k b hb' hbd
        have := hno k (.inl (by rw [hb']; simp))
        subst hbd
        simp only [allLeaf, hb', Bool.false_or] at this
        cases hp : pr k with
        | none => simp [hp, enforceOpt, enforce] at this
        | some c => cases c <;> simp [hp, enforceOpt, enforce] at this
      have hpr : ∀ k b, pr k = some b → b ≠ .deny := by
        intro k b hb' hbd
        have := hno k (.inr (by rw [hb']; simp))
        subst hbd
        simp [allLeaf, hb', enforceOpt, enforce] at this
      obtain ⟨a, ha, had⟩ := hroot
      have hbase : (pathKeys []).foldl (stepPr pr) none = some a := by simp [pathKeys, stepPr, ha]
      obtain ⟨a', h1, h2⟩ := lookup_under_prefix ex pr (· ≠ .deny) [] n List.nil_prefix a hbase had
        (fun k b _ hb => hex k b hb) (fun k b _ hb => hpr k b hb)
      unfold check
      rw [h.getPolicy_eq, h1]
      exact enforce_read_allow.mpr h2

/-- `anyAllowed(tree, write) = Allow` (ServiceWriteAny) ⇔ some rule grants write -/
theorem TreeOf.anyAllowed_write_iff {t : Tree} {ex pr} (h : TreeOf t ex pr) :
    anyAllowed t .write = .allow ↔ ∃ k, ex k = some .write ∨ pr k = some .write := by
  have leaf : ∀ l : Leaf, anyLeaf l false .write = .allow ↔ (l.exact = some .write ∨ l.pre = some .write) := by
    intro l
    obtain ⟨e, p⟩ := l
    cases e with
    | none => cases p with
      | none => simp [anyLeaf, enforceOpt]
      | some b => cases b <;> simp [anyLeaf, enforceOpt, enforce]
    | some a => cases p with
      | none => cases a <;> simp [anyLeaf, enforceOpt, enforce]
      | some b => cases a <;> cases b <;> simp [anyLeaf, enforceOpt, enforce]
  unfold anyAllowed
  constructor
  · intro hk
    cases hg : t.get [] with
    | none =>
      rw [hg] at hk
      simp only at hk
      cases hany : t.any (fun e => anyLeaf e.2 false .write = .allow) with
      | false => rw [hany] at hk; simp at hk
      | true =>
        obtain ⟨k, l, hgk, hp⟩ := (Tree.any_iff h.nodup _).mp hany
        have hl := h.get_some hgk
        simp only [decide_eq_true_eq] at hp
        rw [leaf, hl] at hp
        exact ⟨k, hp⟩
    | some l0 =>
      rw [hg] at hk
      simp only at hk
      have hl0 := h.get_some hg
      by_cases hd0 : anyLeaf l0 true .write = .allow
      · rw [hl0] at hd0
        simp only [anyLeaf, Bool.true_or, if_true] at hd0
        cases hp : pr [] with
        | none => rw [hp] at hd0; simp [enforceOpt] at hd0
        | some a =>
          rw [hp] at hd0
          simp only [enforceOpt] at hd0
          exact ⟨[], .inr (by rw [hp, enforce_write_allow.mp hd0])⟩
      · rw [if_neg hd0] at hk
        cases hany : t.any (fun e => anyLeaf e.2 false .write = .allow) with
        | false => rw [hany] at hk; simp at hk; exact absurd hk hd0
        | true =>
          obtain ⟨k, l, hgk, hp⟩ := (Tree.any_iff h.nodup _).mp hany
          have hl := h.get_some hgk
          simp only [decide_eq_true_eq] at hp
          rw [leaf, hl] at hp
          exact ⟨k, hp⟩
  · rintro ⟨k, hk⟩
    have hg : t.get k = some ⟨ex k, pr k⟩ := by
      rcases hk with hk | hk
      · exact h.get_of_ex hk
      · exact h.get_of_pr hk
    have hany : t.any (fun e => anyLeaf e.2 false .write = .allow) = true := by
      apply (Tree.any_iff h.nodup _).mpr
      refine ⟨k, _, hg, ?_⟩
      simp only [decide_eq_true_eq]
      exact (leaf _).mpr hk
    rw [hany]
    split <;> simp

end CV.Acl
