/-
Every step of `SyncChanges` preserves `GInv` under every outcome of its RPC; so do the loops,
`syncChanges` and `syncFull`.
-/
import CV.Proofs.AEPrim
namespace CV.AE
open AMap

variable {T : Prop} {Rs Rc Ps Pc : Id → Prop}

/-! ### dropping local records -/

def dropSvc (l : Local) (id : Id) : Local :=
  { l with svcs := l.svcs.erase id, chks := l.chks.filterVis (pruneKeep id)
           dfr := l.dfr.filter fun k => AMap.visKeep (pruneKeep id) l.chks k }

theorem dropSvc_svcs (l : Local) (id i : Id) :
    (dropSvc l id).svcs.get? i = if id = i then none else l.svcs.get? i := by
  simp [dropSvc, get?_erase]

theorem dropSvc_chks (l : Local) (id k : Id) :
    (dropSvc l id).chks.get? k = match l.chks.get? k with
      | some e => if pruneKeep id k e then some e else none
      | none => none := by
  simp only [dropSvc, get?_filterVis]
  cases l.chks.get? k <;> rfl

theorem pruneKeep_false {id k : Id} {e : Ent ChkDef} (h : pruneKeep id k e = false) :
    ∃ d tok loc b, e = .ent d tok loc b true ∧ d.sid = id := by
  cases e with
  | ghost x => simp [pruneKeep] at h
  | ent d t lo x del =>
    cases del with
    | false => simp [pruneKeep] at h
    | true => simp [pruneKeep] at h; exact ⟨d, t, lo, x, rfl, h⟩

theorem dropSvc_chks_sub (l : Local) (id k : Id) (e : Ent ChkDef) (h : (dropSvc l id).chks.get? k = some e) :
    l.chks.get? k = some e := by
  rw [dropSvc_chks] at h
  cases hk : l.chks.get? k with
  | none => rw [hk] at h; cases h
  | some e' => rw [hk] at h; simp only at h; split at h
               · exact h
               · cases h

theorem GInv_dropSvc {l : Local} {c : Cat} (id : Id) (hid : id ≠ "") (hl : liveSvc l id = none)
    (hc1 : c.svcs.get? id = none) (hc2 : ∀ k rc, c.chks.get? k = some rc → rc.sid ≠ id)
    (g : GInv T Rs Rc Ps Pc l c) : GInv T Rs Rc Ps Pc (dropSvc l id) c := by
  obtain ⟨n1, n2, n3, n4⟩ := g.nek
  have hls : ∀ i, liveSvc (dropSvc l id) i = liveSvc l i := by
    intro i; unfold liveSvc; rw [dropSvc_svcs]; split
    · rename_i e; subst e; simpa [liveSvc] using hl.symm
    · rfl
  have hlc : ∀ k, liveChk (dropSvc l id) k = liveChk l k := by
    intro k; unfold liveChk; rw [dropSvc_chks]
    cases hk : l.chks.get? k with
    | none => rfl
    | some e =>
      simp only
      cases hp : pruneKeep id k e with
      | true => simp
      | false =>
        obtain ⟨d, tok, loc, b, rfl, _⟩ := pruneKeep_false hp
        simp [Ent.live?]
  refine ⟨?_, g.cwf, ⟨?_, ?_, n3, n4⟩, ?_, ⟨?_, ?_⟩, ⟨?_, ?_⟩⟩
  · intro k d h1 h2; rw [hlc] at h1; rw [hls]; exact g.lwf k d h1 h2
  · rw [dropSvc_svcs]; split <;> simp_all
  · rw [dropSvc_chks, n2]
  · intro ht k d tok loc b rc h1 h2 h3
    exact g.nrb ht k d tok loc b rc (dropSvc_chks_sub l id k _ h1) h2 h3
  · intro i d tok loc h1
    rw [dropSvc_svcs] at h1; split at h1
    · cases h1
    · exact g.snd.1 i d tok loc h1
  · intro k d tok loc h1
    exact g.snd.2 k d tok loc (dropSvc_chks_sub l id k _ h1)
  · intro i h1
    rw [dropSvc_svcs] at h1; split at h1
    · rename_i e; subst e; exact Or.inl hc1
    · exact g.tgt.1 i h1
  · intro ht k h1
    rw [dropSvc_chks] at h1
    cases hk : l.chks.get? k with
    | none => exact g.tgt.2 ht k hk
    | some e =>
      rw [hk] at h1; simp only at h1
      cases hp : pruneKeep id k e with
      | true => rw [hp] at h1; simp at h1
      | false =>
        obtain ⟨d, tok, loc, b, rfl, hsid⟩ := pruneKeep_false hp
        left
        cases hck : c.chks.get? k with
        | none => rfl
        | some rc =>
          have := g.nrb ht k d tok loc b rc hk (by rw [hsid]; exact hid) hck
          exact absurd (this.trans hsid) (hc2 k rc hck)

def dropChk (l : Local) (k : Id) : Local := { (l.disarm k) with chks := l.chks.erase k }

theorem GInv_dropChk {l : Local} {c : Cat} (k : Id) (hl : liveChk l k = none)
    (hc : c.chks.get? k = none) (g : GInv T Rs Rc Ps Pc l c) : GInv T Rs Rc Ps Pc (dropChk l k) c := by
  obtain ⟨n1, n2, n3, n4⟩ := g.nek
  have hg : ∀ k', (dropChk l k).chks.get? k' = if k = k' then none else l.chks.get? k' := by
    intro k'; simp [dropChk, get?_erase]
  have hlc : ∀ k', liveChk (dropChk l k) k' = liveChk l k' := by
    intro k'; unfold liveChk; rw [hg]; split
    · rename_i e; subst e; simpa [liveChk] using hl.symm
    · rfl
  refine ⟨?_, g.cwf, ⟨n1, ?_, n3, n4⟩, ?_, ⟨g.snd.1, ?_⟩, ⟨g.tgt.1, ?_⟩⟩
  · intro k' d h1 h2; rw [hlc] at h1; exact g.lwf k' d h1 h2
  · rw [hg]; split <;> simp_all
  · intro ht k' d tok loc b rc h1 h2 h3
    rw [hg] at h1; split at h1
    · cases h1
    · exact g.nrb ht k' d tok loc b rc h1 h2 h3
  · intro k' d tok loc h1
    rw [hg] at h1; split at h1
    · cases h1
    · exact g.snd.2 k' d tok loc h1
  · intro ht k' h1
    rw [hg] at h1; split at h1
    · rename_i e; subst e; exact Or.inl hc
    · exact g.tgt.2 ht k' h1

/-! ### the piggy-back list -/

theorem piggy_mem {cfg : Cfg} {l : Local} {sid : Id} {st : String} {k : Id} {d : ChkDef}
    (h : (k, d) ∈ piggy cfg l sid st) :
    ∃ tok loc, l.chks.get? k = some (.ent d tok loc false false) ∧ d.sid = sid ∧ effTok cfg tok loc = st := by
  unfold piggy at h
  rw [List.mem_filterMap] at h
  obtain ⟨p, _, hp⟩ := h
  cases he : l.chks.get? p.1 with
  | none => rw [he] at hp; simp [piggyOf] at hp
  | some e =>
    rw [he] at hp
    cases e with
    | ghost x => simp [piggyOf] at hp
    | ent d' t lo x del =>
      cases x <;> cases del <;> simp only [piggyOf] at hp <;> try (cases hp)
      split at hp
      · rename_i hc
        simp only [Option.some.injEq, Prod.mk.injEq] at hp
        obtain ⟨rfl, rfl⟩ := hp
        exact ⟨t, lo, he, hc.1, hc.2⟩
      · cases hp

theorem mem_piggy {cfg : Cfg} {l : Local} {sid : Id} {st : String} {k : Id} {d : ChkDef} {tok : String} {loc : Bool}
    (h : l.chks.get? k = some (.ent d tok loc false false)) (h1 : d.sid = sid) (h2 : effTok cfg tok loc = st) :
    (k, d) ∈ piggy cfg l sid st := by
  unfold piggy
  rw [List.mem_filterMap]
  have hk : k ∈ AMap.keys l.chks := mem_keys_of_get? _ _ (by rw [h]; simp)
  simp only [AMap.keys, List.mem_map] at hk
  obtain ⟨p, hp, hpk⟩ := hk
  refine ⟨p, hp, ?_⟩
  rw [hpk, h]
  simp [piggyOf, h1, h2]

/-! ### service steps -/

theorem syncService_GInv (cfg : Cfg) (f : Faults) (id : Id) (d : SvcDef) (tok : String) (loc : Bool) (s : St)
    (he : s.l.svcs.get? id = some (.ent d tok loc false false))
    (hRs : f.svc id = .denied → Rs id)
    (hRc : ∀ k dk, liveChk s.l k = some dk → dk.sid = id → f.svc id = .denied → Rc k)
    (g : GInv T Rs Rc Ps Pc s.l s.c) :
    GInv T Rs Rc Ps Pc (syncService cfg f id d tok loc s).l (syncService cfg f id d tok loc s).c := by
  have hpg : ∀ k dk, (k, dk) ∈ piggy cfg s.l id (effTok cfg tok loc) →
      ∃ t lo, s.l.chks.get? k = some (.ent dk t lo false false) ∧ dk.sid = id := by
    intro k dk h; obtain ⟨t, lo, h1, h2, _⟩ := piggy_mem h; exact ⟨t, lo, h1, h2⟩
  -- the marks, given a catalog `c'` that justifies them (or a refusal)
  have marks : ∀ c', GInv T Rs Rc Ps Pc s.l c' →
      (Rs id ∨ c'.svcs.get? id = some d) →
      (∀ k dk, (k, dk) ∈ piggy cfg s.l id (effTok cfg tok loc) → Rc k ∨ ∃ rc, c'.chks.get? k = some rc ∧ rc.core = dk.core) →
      GInv T Rs Rc Ps Pc (markChks (markSvc s.l id) ((piggy cfg s.l id (effTok cfg tok loc)).map (·.1))) c' := by
    intro c' g' hjs hjc
    apply GInv_flags (l := s.l) _ _ g'
    · intro i
      rw [markChks_svcs, markSvc_svcs]
      split
      · rename_i e; subst e
        right; refine ⟨_, he, by rw [he]; rfl, ?_⟩
        rcases hjs with h | h
        · exact Or.inr (Or.inl h)
        · right; right; intro d' hd'; simp [Ent.live?] at hd'; subst hd'; exact h
      · exact Or.inl rfl
    · intro k
      rw [markChks_chks]
      split
      · rename_i hk
        rw [List.mem_map] at hk
        obtain ⟨⟨k', dk⟩, hm, rfl⟩ := hk
        obtain ⟨t, lo, h1, _⟩ := hpg _ _ hm
        right; refine ⟨_, h1, by rw [markSvc_chks, h1]; rfl, ?_⟩
        rcases hjc _ _ hm with h | h
        · exact Or.inr (Or.inl h)
        · right; right; intro d' hd'; simp [Ent.live?] at hd'; subst hd'; exact h
      · exact Or.inl rfl
  unfold syncService
  simp only
  cases ho : f.svc id with
  | denied =>
    simp only
    apply marks s.c g (Or.inl (hRs ho))
    intro k dk hm
    obtain ⟨t, lo, h1, h2⟩ := hpg k dk hm
    exact Or.inl (hRc k dk (by simp [liveChk, h1, Ent.live?]) h2 ho)
  | fail => exact g
  | ok =>
    simp only
    split
    · exact g
    · rename_i c' hreg
      have g' : GInv T Rs Rc Ps Pc s.l c' := by
        apply GInv_register hreg _ _ g
        · intro id' d' h; simp only [Option.some.injEq, Prod.mk.injEq] at h
          obtain ⟨rfl, rfl⟩ := h; exact ⟨tok, loc, false, he⟩
        · intro k dk hm; obtain ⟨t, lo, h1, _⟩ := hpg k dk hm; exact ⟨t, lo, false, h1⟩
      obtain ⟨s1, _, s3, _⟩ := register_spec hreg
      have := marks c' g' (Or.inr (by rw [s1 id]; simp)) (by
        intro k dk hm
        obtain ⟨dk', rc, m1, m2, m3, _⟩ := s3 k ⟨dk, hm⟩
        obtain ⟨t, lo, h1, _⟩ := hpg k dk hm
        obtain ⟨t', lo', h1', _⟩ := hpg k dk' m1
        rw [h1] at h1'; cases h1'
        exact Or.inr ⟨rc, m2, m3⟩)
      exact ⟨this.lwf, this.cwf, this.nek, this.nrb, this.snd, this.tgt⟩
  | lost =>
    simp only
    split
    · exact g
    · rename_i c' hreg
      apply GInv_register hreg _ _ g
      · intro id' d' h; simp only [Option.some.injEq, Prod.mk.injEq] at h
        obtain ⟨rfl, rfl⟩ := h; exact ⟨tok, loc, false, he⟩
      · intro k dk hm; obtain ⟨t, lo, h1, _⟩ := hpg k dk hm; exact ⟨t, lo, false, h1⟩

theorem cascade_done {c : Cat} (hw : CatWF c) (id : Id) (hid : id ≠ "") :
    ∀ k rc, (c.deregSvc id).chks.get? k = some rc → rc.sid ≠ id := by
  intro k rc h
  rw [deregSvc_chks] at h
  cases hs : c.svcs.get? id with
  | none =>
    rw [hs] at h; simp only at h
    intro e; exact hw k rc h (by rw [e]; exact hid) (by rw [e]; exact hs)
  | some sv =>
    rw [hs] at h; simp only at h
    cases hk : c.chks.get? k with
    | none => rw [hk] at h; cases h
    | some rc' =>
      rw [hk] at h; simp only at h
      split at h
      · cases h
      · cases h; assumption

theorem deleteService_GInv (f : Faults) (id : Id) (s : St) (e : Ent SvcDef)
    (he : s.l.svcs.get? id = some e) (hdel : e.deleted = true)
    (hRs : f.svc id = .denied → Rs id)
    (g : GInv T Rs Rc Ps Pc s.l s.c) :
    GInv T Rs Rc Ps Pc (deleteService f id s).l (deleteService f id s).c := by
  have hlive : liveSvc s.l id = none := by simp [liveSvc, he, live?_deleted e hdel]
  unfold deleteService
  split
  · exact g
  · rename_i hid
    cases ho : f.svc id with
    | denied =>
      simp only
      apply GInv_flags (l := s.l) _ _ g
      · intro i; rw [markSvc_svcs]; split
        · rename_i e'; subst e'
          right; exact ⟨e, he, by rw [he]; rfl, Or.inl hdel⟩
        · exact Or.inl rfl
      · intro k; exact Or.inl rfl
    | fail => exact g
    | ok =>
      simp only
      have g1 := GInv_deregSvc id hlive g
      have := GInv_dropSvc id hid hlive (by rw [deregSvc_svcs]; simp) (cascade_done g.cwf id hid) g1
      exact this
    | lost => exact GInv_deregSvc id hlive g

theorem svcStep_GInv (cfg : Cfg) (f : Faults) (s : St) (id : Id)
    (hRs : f.svc id = .denied → Rs id)
    (hRc : ∀ k dk, liveChk s.l k = some dk → dk.sid = id → f.svc id = .denied → Rc k)
    (g : GInv T Rs Rc Ps Pc s.l s.c) :
    GInv T Rs Rc Ps Pc (svcStep cfg f s id).l (svcStep cfg f s id).c := by
  unfold svcStep
  split
  · exact g
  · rename_i b he; exact deleteService_GInv f id s _ he rfl hRs g
  · rename_i d t lo b he; exact deleteService_GInv f id s _ he rfl hRs g
  · rename_i d tok loc he; exact syncService_GInv cfg f id d tok loc s he hRs hRc g
  · exact g

/-- everything `GInv` looks at -/
theorem GInv_congr {l l' : Local} {c c' : Cat} (h1 : l'.svcs = l.svcs) (h2 : l'.chks = l.chks)
    (h3 : c'.svcs = c.svcs) (h4 : c'.chks = c.chks) (g : GInv T Rs Rc Ps Pc l c) : GInv T Rs Rc Ps Pc l' c' := by
  obtain ⟨a, b, x, y⟩ := l; obtain ⟨a', b', x', y'⟩ := l'
  obtain ⟨n, y, z⟩ := c; obtain ⟨n', y', z'⟩ := c'
  simp only at h1 h2 h3 h4; subst h1 h2 h3 h4
  exact ⟨g.lwf, g.cwf, g.nek, g.nrb, g.snd, g.tgt⟩

/-! ### check steps -/

theorem syncCheck_GInv (cfg : Cfg) (f : Faults) (k : Id) (d : ChkDef) (tok : String) (loc : Bool) (s : St)
    (he : s.l.chks.get? k = some (.ent d tok loc false false))
    (hRc : f.chk k = .denied → Rc k)
    (g : GInv T Rs Rc Ps Pc s.l s.c) :
    GInv T Rs Rc Ps Pc (syncCheck cfg f k d s).l (syncCheck cfg f k d s).c := by
  have mark : ∀ c', GInv T Rs Rc Ps Pc s.l c' → (Rc k ∨ ∃ rc, c'.chks.get? k = some rc ∧ rc.core = d.core) →
      GInv T Rs Rc Ps Pc (markChk s.l k) c' := by
    intro c' g' hj
    apply GInv_flags (l := s.l) _ _ g'
    · intro i; exact Or.inl rfl
    · intro k'
      unfold markChk; rw [markChks_chks]
      split
      · rename_i hk; simp at hk; subst hk
        right; refine ⟨_, he, by rw [he]; rfl, ?_⟩
        rcases hj with h | h
        · exact Or.inr (Or.inl h)
        · right; right; intro d' hd'; simp [Ent.live?] at hd'; subst hd'; exact h
      · exact Or.inl rfl
  have hreg : ∀ c' r, s.c.register r = some c' → r.chks = [(k, d)] →
      (∀ id' d', r.svc = some (id', d') → ∃ tok loc b, s.l.svcs.get? id' = some (.ent d' tok loc b false)) →
      GInv T Rs Rc Ps Pc s.l c' ∧ ∃ rc, c'.chks.get? k = some rc ∧ rc.core = d.core := by
    intro c' r h hr hsv
    refine ⟨GInv_register h hsv ?_ g, ?_⟩
    · intro k' d' hm; rw [hr] at hm; simp at hm; obtain ⟨rfl, rfl⟩ := hm; exact ⟨tok, loc, false, he⟩
    · obtain ⟨_, _, s3, _⟩ := register_spec h
      obtain ⟨d', rc, m1, m2, m3, _⟩ := s3 k ⟨d, by rw [hr]; simp⟩
      rw [hr] at m1; simp at m1; subst m1
      exact ⟨rc, m2, m3⟩
  have hsvc : ∀ id' d', checkSvc s.l d.sid = some (id', d') → ∃ tok loc b, s.l.svcs.get? id' = some (.ent d' tok loc b false) := by
    intro id' d' h
    unfold checkSvc at h
    split at h
    · rename_i sd t lo b hs
      simp only [Option.some.injEq, Prod.mk.injEq] at h
      obtain ⟨rfl, rfl⟩ := h
      exact ⟨t, lo, b, hs⟩
    · cases h
  unfold syncCheck
  simp only
  cases ho : f.chk k with
  | denied => exact mark s.c g (Or.inl (hRc ho))
  | fail => exact g
  | ok =>
    simp only
    split
    · exact g
    · rename_i c' hr
      obtain ⟨g', hheld⟩ := hreg c' _ hr rfl hsvc
      have := mark c' g' (Or.inr hheld)
      exact ⟨this.lwf, this.cwf, this.nek, this.nrb, this.snd, this.tgt⟩
  | lost =>
    simp only
    split
    · exact g
    · rename_i c' hr
      exact (hreg c' _ hr rfl hsvc).1

theorem deleteCheck_GInv (f : Faults) (k : Id) (s : St) (e : Ent ChkDef)
    (he : s.l.chks.get? k = some e) (hdel : e.deleted = true)
    (hRc : f.chk k = .denied → Rc k)
    (g : GInv T Rs Rc Ps Pc s.l s.c) :
    GInv T Rs Rc Ps Pc (deleteCheck f k s).l (deleteCheck f k s).c := by
  have hlive : liveChk s.l k = none := by simp [liveChk, he, live?_deleted e hdel]
  unfold deleteCheck
  split
  · exact g
  · cases ho : f.chk k with
    | denied =>
      simp only
      apply GInv_flags (l := s.l) _ _ g
      · intro i; exact Or.inl rfl
      · intro k'; unfold markChk; rw [markChks_chks]; split
        · rename_i hk; simp at hk; subst hk
          right; exact ⟨e, he, by rw [he]; rfl, Or.inl hdel⟩
        · exact Or.inl rfl
    | fail => exact g
    | ok =>
      simp only
      have g1 := GInv_deregChk k hlive g
      exact GInv_dropChk k hlive (by rw [deregChk_chks]; simp) g1
    | lost => exact GInv_deregChk k hlive g

theorem chkStep_GInv (cfg : Cfg) (f : Faults) (s : St) (k : Id)
    (hRc : f.chk k = .denied → Rc k)
    (g : GInv T Rs Rc Ps Pc s.l s.c) :
    GInv T Rs Rc Ps Pc (chkStep cfg f s k).l (chkStep cfg f s k).c := by
  unfold chkStep
  split
  · exact g
  · rename_i b he; exact deleteCheck_GInv f k s _ he rfl hRc g
  · rename_i d t lo b he; exact deleteCheck_GInv f k s _ he rfl hRc g
  · rename_i d tok loc he
    exact syncCheck_GInv cfg f k d tok loc { s with l := s.l.disarm k } he hRc (GInv_congr (l := s.l) (c := s.c) rfl rfl rfl rfl g)
  · exact g

end CV.AE
