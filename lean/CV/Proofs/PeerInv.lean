/-
Helper lemmas for C17: well-formedness of the catalog is preserved by every message (whatever its outcome),
and a list update leaves the listed services alone.
-/
import CV.Proofs.PeerOther
set_option linter.unusedSectionVars false
set_option linter.unusedSimpArgs false
namespace CV.Peer

theorem WF.putNode {c : Cat} (wf : WF c) (nd : Node) : WF (putNode c nd) :=
  WF.of_nodes wf nd rfl rfl (fun _ => mem_putNode)

theorem WF.finishNode {c : Cat} (wf : WF c) (nd : Node) (f : Option Node) : WF (finishNode c nd f) := by
  unfold Peer.finishNode
  split
  · split
    · exact wf
    · exact wf.putNode nd
  · exact wf.putNode nd

theorem WF.ensureNode {c c' : Cat} (wf : WF c) {nd : Node} (h : ensureNode c nd = .ok c') : WF c' := by
  unfold Peer.ensureNode at h
  split at h
  · cases h; exact wf.finishNode _ _
  · split at h
    · split at h
      · cases h; exact wf.finishNode _ _
      · split at h
        · cases h
        · cases h; exact (WF.of_sub wf (sub_delNode c _ _)).finishNode _ _
    · split at h
      · cases h
      · cases h; exact wf.finishNode _ _

theorem WF.regNode {c c' : Cat} (wf : WF c) {nd : Node} (h : regNode c nd = .ok c') : WF c' := by
  unfold Peer.regNode at h
  split at h
  · split at h
    · exact wf.ensureNode h
    · cases h; exact wf
  · exact wf.ensureNode h

theorem WF.regSvc {c c' : Cat} (wf : WF c) {p n : String} {s : SvcDef} (hs : s.sid ≠ "") (h : regSvc c p n s = .ok c') : WF c' := by
  obtain ⟨a, b, d⟩ := regSvc_spec wf h
  exact WF.of_svcs wf _ hs a b d

theorem WF.regChk {c c' : Cat} (wf : WF c) {p rn : String} {k : ChkDef} (h : regChk c p rn k = .ok c') : WF c' := by
  obtain ⟨sname, _, a, b, d⟩ := regChk_spec wf h
  exact WF.of_chks wf _ a b d

theorem WF.regChks (ks : List ChkDef) {c c' : Cat} (wf : WF c) {p rn : String} (h : regChks c p rn ks = .ok c') : WF c' := by
  induction ks generalizing c with
  | nil => simp [Peer.regChks] at h; subst h; exact wf
  | cons k ks ih =>
    simp only [Peer.regChks] at h
    split at h
    · rename_i c1 h1; exact ih (wf.regChk h1) h
    · cases h

theorem WF.register {c c' : Cat} (wf : WF c) {r : RegReq} (hs : ∀ sd, r.svc = some sd → sd.sid ≠ "")
    (h : register c r = .ok c') : WF c' := by
  unfold Peer.register at h
  split at h
  · cases h
  · rename_i c1 h1
    split at h
    · cases h
    · rename_i c2 h2
      have wf2 : WF c2 := by
        split at h2
        · rename_i sd hsd; exact (wf.regNode h1).regSvc (hs sd hsd) h2
        · cases h2; exact wf.regNode h1
      exact wf2.regChks _ h

theorem WF.runOps (ops : List Op) {c : Cat} (wf : WF c)
    (hs : ∀ r, Op.reg r ∈ ops → ∀ sd, r.svc = some sd → sd.sid ≠ "") : WF (runOps c ops).1 := by
  induction ops generalizing c with
  | nil => exact wf
  | cons o os ih =>
    simp only [Peer.runOps]
    split
    · exact wf
    · rename_i c1 h1
      apply ih _ (fun r hr => hs r (by simp [hr]))
      cases o with
      | reg r => exact wf.register (hs r (by simp)) h1
      | deregSvc p n i => simp only [applyOp, Except.ok.injEq] at h1; subst h1; exact WF.of_sub wf (sub_delSvc c p n i)
      | deregChk p n k => simp only [applyOp, Except.ok.injEq] at h1; subst h1; exact WF.of_sub wf (sub_delChk c p n k)
      | deregNode p n => simp only [applyOp, Except.ok.injEq] at h1; subst h1; exact WF.of_sub wf (sub_delNode c p n)

/-- Whatever is received and whatever happens to it, the catalog keeps unique keys. -/
theorem WF.handleUpdate {c : Cat} (wf : WF c) (p sn : String) (is : List Inst) : WF (handleUpdate c p sn is).cat := by
  unfold Peer.handleUpdate
  split
  · exact wf
  · rename_i st _
    split
    · exact wf
    · rename_i snap hsnap
      have hsid : ∀ r, Op.reg r ∈ snap.flatMap (regOpsNode p st) → ∀ sd, r.svc = some sd → sd.sid ≠ "" := by
        intro r hr sd hsd
        obtain ⟨nd, hnd, _, _, hsv, _⟩ := regOps_shape p st snap r hr
        obtain ⟨ss, hss, e, _⟩ := hsv sd hsd
        obtain ⟨swf, keys⟩ := mkSnap_keys hsnap
        have hk : snapInst snap nd.node.name ss.svc.sid ≠ none := by
          rw [snapInst_isSome_iff swf]; exact ⟨nd, hnd, rfl, ss, hss, rfl⟩
        obtain ⟨x, hx, _, e2⟩ := (keys _ _).mp hk
        have hall : is.all instOK = true := by
          unfold mkSnap at hsnap
          split at hsnap
          · assumption
          · cases hsnap
        have := List.all_eq_true.mp hall x hx
        simp only [instOK, Bool.and_eq_true, decide_eq_true_eq] at this
        rw [← e, ← e2]; exact this.1.2
      have wf1 := WF.runOps _ wf hsid
      split
      · rename_i c1 e l1 hr
        rw [runOps_fst hr] at wf1; exact wf1
      · rename_i c1 l1 hr
        rw [runOps_fst hr] at wf1
        simp only
        refine WF.of_sub wf1 (Sub.trans (sub_dropUnused p _ _) ?_)
        exact (runOps_deregs _ c1 (cleanupCmds_dereg p snap st)).2.2.1

theorem WF.pruneAll (p : String) (keep names : List String) (r : Res) (wf : WF r.cat) : WF (pruneAll p keep names r).cat := by
  induction names generalizing r with
  | nil => exact wf
  | cons sn rest ih =>
    simp only [Peer.pruneAll]
    split
    · exact wf
    · split
      · exact ih r wf
      · exact ih _ (wf.handleUpdate p sn [])

theorem WF.stepMsg {c : Cat} (wf : WF c) (m : Msg) : WF (stepMsg c m) := by
  cases m with
  | upd p sn is => exact wf.handleUpdate p sn is
  | list p names => exact WF.pruneAll p _ _ _ wf

theorem WF.runMsgs (ms : List Msg) {c : Cat} (wf : WF c) : WF (runMsgs c ms) := by
  induction ms generalizing c with
  | nil => exact wf
  | cons m ms ih => simp only [Peer.runMsgs, List.foldl_cons]; exact ih (wf.stepMsg m)

/-! ### a list update leaves the listed services alone -/

theorem snapOK_nil (sn : String) : SnapOK sn [] :=
  ⟨by simp, by simp, by simp, by simp, by simp, List.Pairwise.nil, by simp, by simp⟩

theorem pruneAll_keeps (p : String) (keep names : List String) (r : Res) (wf : WF r.cat)
    (hr : r.err = none ∧ r.panic = false) (hfin : (pruneAll p keep names r).err = none) :
    (∀ s ∈ r.cat.svcs, s.peer = p → s.name ∈ keep → s ∈ (pruneAll p keep names r).cat.svcs) ∧
    (∀ k ∈ r.cat.chks, k.peer = p → (∃ s ∈ r.cat.svcs, s.peer = p ∧ s.name ∈ keep ∧ s.node = k.node ∧ s.sid = k.sid) →
        k ∈ (pruneAll p keep names r).cat.chks) ∧
    (∀ x ∈ r.cat.nodes, x.peer = p → (∃ s ∈ r.cat.svcs, s.peer = p ∧ s.name ∈ keep ∧ s.node = x.name) →
        x ∈ (pruneAll p keep names r).cat.nodes) := by
  induction names generalizing r with
  | nil => exact ⟨fun s hs _ _ => hs, fun k hk _ _ => hk, fun x hx _ _ => hx⟩
  | cons sn rest ih =>
    simp only [Peer.pruneAll] at hfin ⊢
    have h0 : (r.err.isSome || r.panic) = false := by simp [hr.1, hr.2]
    simp only [h0, Bool.false_eq_true, if_false] at hfin ⊢
    split
    · rename_i hk
      simp only [hk, if_true] at hfin
      exact ih r wf hr hfin
    · rename_i hk
      simp only [hk, if_false] at hfin
      have he1 : (Peer.handleUpdate r.cat p sn []).err = none := by
        cases he : (Peer.handleUpdate r.cat p sn []).err with
        | none => rfl
        | some e =>
          rw [pruneAll_stuck p keep rest _ (by simp [he])] at hfin
          simp [he] at hfin
      have hp1 := handleUpdate_nil_panic r.cat p sn
      obtain ⟨o1, o2, o3⟩ := handleUpdate_other wf (snapOK_nil sn) (by intro i hi; cases hi) he1 hp1
      obtain ⟨a, b, d⟩ := ih { Peer.handleUpdate r.cat p sn [] with log := r.log ++ (Peer.handleUpdate r.cat p sn []).log }
        (wf.handleUpdate p sn []) ⟨he1, hp1⟩ hfin
      have hne : ∀ s : Svc, s.name ∈ keep → s.name ≠ sn := fun s h1 h2 => hk (h2 ▸ h1)
      refine ⟨fun s hs hsp hsk => a s (o1 s hs hsp (hne s hsk) (by intro i hi; cases hi)) hsp hsk, ?_, ?_⟩
      · intro k hkc hkp ⟨s, hs, hsp, hsk, e1, e2⟩
        apply b k _ hkp ⟨s, o1 s hs hsp (hne s hsk) (by intro i hi; cases hi), hsp, hsk, e1, e2⟩
        exact o2 k hkc hkp ⟨s, hs, hsp, hne s hsk, e1, e2, by intro i hi; cases hi⟩ (by intro i hi; cases hi)
      · intro x hx hxp ⟨s, hs, hsp, hsk, e1⟩
        have hs1 := o1 s hs hsp (hne s hsk) (by intro i hi; cases hi)
        apply d x _ hxp ⟨s, hs1, hsp, hsk, e1⟩
        exact (o3 x hx hxp (by intro i hi; cases hi)).mpr (Or.inr ⟨s, hs1, hsp, e1⟩)

end CV.Peer
