/- Helper lemmas for the eventLock protocol model (C18). -/
import CV.ResProto
namespace CV.Res.Proto

/-- what `eventLock` buys: threads that do not hold the lock are idle, and the channel lags the
    database by at most the one event of the lock holder that is committed but not yet sent -/
structure PInv (s : PState) : Prop where
  idle   : ∀ t, s.lock ≠ some t → s.pc t = .idle
  shape  : match s.lock with
    | none => s.chan = s.db
    | some t =>
      match s.pc t with
      | .committed e => s.db = s.chan ++ [e]
      | _ => s.chan = s.db
  disp   : s.nDisp ≤ s.chan.length
  seenOk : ∀ x ∈ s.seen, ∀ e ∈ x.2.1, e ∈ x.2.2

theorem pinv_init : PInv PState.init := by
  constructor <;> simp [PState.init]

theorem pinv_prefix {s : PState} (h : PInv s) : s.chan <+: s.db := by
  have := h.shape
  split at this
  · rw [this]; exact List.prefix_refl _
  · split at this
    · rw [this]; exact List.prefix_append _ _
    · rw [this]; exact List.prefix_refl _

theorem pinv_step (s : PState) (a : Act) (h : PInv s) : PInv (step true s a) := by
  have hpre := pinv_prefix h
  obtain ⟨hidle, hshape, hdisp, hseen⟩ := h
  cases a with
  | lock t =>
    simp only [step]
    split
    · next hc =>
      have hl : s.lock = none := by simpa using hc.2
      simp only [hl] at hshape
      refine ⟨?_, ?_, hdisp, hseen⟩
      · intro u hu; simp only [setPc]; split
        · next e => subst e; simp at hu
        · exact hidle u (by simp [hl])
      · simp [setPc, hshape]
    · exact ⟨hidle, hshape, hdisp, hseen⟩
  | commit t =>
    simp only [step]
    split
    · next hc =>
      have hl : s.lock = some t := by
        apply Classical.byContradiction; intro hn
        have := hidle t hn; rw [this] at hc; cases hc
      simp only [hl, hc] at hshape
      refine ⟨?_, ?_, hdisp, hseen⟩
      · intro u hu; simp only [setPc]; split
        · next e => subst e; simp [hl] at hu
        · exact hidle u hu
      · simp [hl, setPc, hshape]
    · exact ⟨hidle, hshape, hdisp, hseen⟩
  | publish t =>
    simp only [step]
    split
    · next e hc =>
      have hl : s.lock = some t := by
        apply Classical.byContradiction; intro hn
        have := hidle t hn; rw [this] at hc; cases hc
      simp only [hl, hc] at hshape
      refine ⟨?_, ?_, ?_, hseen⟩
      · intro u hu; simp only [setPc]; split
        · next e => subst e; simp [hl] at hu
        · exact hidle u hu
      · simp [hl, setPc, hshape]
      · simp; omega
    · exact ⟨hidle, hshape, hdisp, hseen⟩
  | unlock t =>
    simp only [step]
    split
    · next hc =>
      have hl : s.lock = some t := by
        apply Classical.byContradiction; intro hn
        have := hidle t hn; rw [this] at hc; simp at hc
      simp only [hl] at hshape
      refine ⟨?_, ?_, hdisp, hseen⟩
      · intro u _; simp only [setPc]; split
        · rfl
        · next hne => exact hidle u (by simp [hl]; exact fun e => hne e.symm)
      · simp only [hl, if_true]
        rcases hc with hc | hc <;> simp [hc] at hshape <;> exact hshape
    · exact ⟨hidle, hshape, hdisp, hseen⟩
  | dispatch =>
    simp only [step]
    split
    · exact ⟨hidle, hshape, by simp; omega, hseen⟩
    · exact ⟨hidle, hshape, hdisp, hseen⟩
  | readAfterEvent o =>
    simp only [step]
    refine ⟨hidle, hshape, hdisp, ?_⟩
    intro x hx e he
    rcases List.mem_append.mp hx with hx | hx
    · exact hseen x hx e he
    · simp at hx; subst hx
      exact hpre.subset (List.take_subset _ _ he)

theorem pinv_run (acts : List Act) : ∀ s, PInv s → PInv (run true s acts) := by
  induction acts with
  | nil => intro s h; exact h
  | cons a as ih => intro s h; exact ih _ (pinv_step s a h)

/-- the database only grows (with or without the lock) -/
theorem db_grows_step (b : Bool) (s : PState) (a : Act) : s.db <+: (step b s a).db := by
  cases a <;> simp only [step]
  all_goals first
    | (split <;> first | exact List.prefix_refl _ | exact List.prefix_append _ _)
    | exact List.prefix_refl _

theorem db_grows_run (b : Bool) (acts : List Act) : ∀ s, s.db <+: (run b s acts).db := by
  induction acts with
  | nil => intro s; exact List.prefix_refl _
  | cons a as ih => intro s; exact (db_grows_step b s a).trans (ih _)

theorem seen_step (b : Bool) (s : PState) (a : Act) :
    (step b s a).seen = s.seen ∨ ∃ o evs, (step b s a).seen = s.seen ++ [(o, evs, s.db)] := by
  cases a with
  | readAfterEvent o => exact Or.inr ⟨o, _, rfl⟩
  | lock t => left; simp only [step]; split <;> rfl
  | commit t => left; simp only [step]; split <;> rfl
  | publish t => left; simp only [step]; split <;> rfl
  | unlock t => left; simp only [step]; split <;> rfl
  | dispatch => left; simp only [step]; split <;> rfl

/-- every recorded read is a prefix of the current database -/
theorem seen_prefix_step (b : Bool) (s : PState) (a : Act) (h : ∀ x ∈ s.seen, x.2.2 <+: s.db) :
    ∀ x ∈ (step b s a).seen, x.2.2 <+: (step b s a).db := by
  have hg := db_grows_step b s a
  intro x hx
  rcases seen_step b s a with e | ⟨o, evs, e⟩
  · rw [e] at hx; exact (h x hx).trans hg
  · rw [e] at hx
    rcases List.mem_append.mp hx with hx | hx
    · exact (h x hx).trans hg
    · simp at hx; subst hx; exact hg

theorem seen_prefix_run (b : Bool) (acts : List Act) :
    ∀ s, (∀ x ∈ s.seen, x.2.2 <+: s.db) → ∀ x ∈ (run b s acts).seen, x.2.2 <+: (run b s acts).db := by
  induction acts with
  | nil => intro s h; exact h
  | cons a as ih => intro s h; exact ih _ (seen_prefix_step b s a h)

end CV.Res.Proto
