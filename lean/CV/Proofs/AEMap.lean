/-
Lookup lemmas for the association-list maps of CV.AE: every operation the model performs on a
map is characterised through `get?`, with no uniqueness assumption on the keys.
-/
import CV.AE
namespace CV.AE.AMap
variable {V : Type}

@[simp] theorem get?_nil (k : Id) : get? ([] : AMap V) k = none := rfl

theorem get?_cons (k' : Id) (v : V) (m : AMap V) (k : Id) :
    get? ((k', v) :: m) k = if k' = k then some v else get? m k := rfl

theorem get?_set (m : AMap V) (k : Id) (v : V) (k' : Id) :
    get? (set m k v) k' = if k = k' then some v else get? m k' := by
  induction m with
  | nil => simp [set, get?]
  | cons p m ih =>
    obtain ⟨a, b⟩ := p
    simp only [set]
    split
    · simp only [get?]; grind
    · simp only [get?]; grind

theorem get?_filter_key (q : Id → Bool) (m : AMap V) (k : Id) :
    get? (m.filter fun p => q p.1) k = if q k then get? m k else none := by
  induction m with
  | nil => simp [get?]
  | cons p m ih =>
    obtain ⟨a, b⟩ := p
    simp only [List.filter]
    cases hq : q a <;> simp only [get?] <;> grind

theorem get?_erase (m : AMap V) (k k' : Id) :
    get? (erase m k) k' = if k = k' then none else get? m k' := by
  unfold erase
  rw [get?_filter_key (fun a => decide (a ≠ k)) m k']
  grind

theorem get?_filterVis (keep : Id → V → Bool) (m : AMap V) (k : Id) :
    get? (filterVis keep m) k = match get? m k with
      | some v => if keep k v then some v else none
      | none => none := by
  unfold filterVis
  rw [get?_filter_key (visKeep keep m) m k]
  unfold visKeep
  cases h : get? m k <;> simp

theorem get?_mapVals (f : Id → V → V) (m : AMap V) (k : Id) :
    get? (mapVals f m) k = (get? m k).map (f k) := by
  induction m with
  | nil => simp [mapVals, get?]
  | cons p m ih =>
    obtain ⟨a, b⟩ := p
    simp only [mapVals, List.map, get?] at *
    split
    · subst_vars; simp
    · exact ih

theorem get?_append (m₁ m₂ : AMap V) (k : Id) :
    get? (m₁ ++ m₂) k = match get? m₁ k with
      | some v => some v
      | none => get? m₂ k := by
  induction m₁ with
  | nil => simp [get?]
  | cons p m ih =>
    obtain ⟨a, b⟩ := p
    simp only [List.cons_append, get?]
    split <;> simp_all

theorem mem_keys_of_get? (m : AMap V) (k : Id) (h : get? m k ≠ none) : k ∈ keys m := by
  induction m with
  | nil => simp [get?] at h
  | cons p m ih =>
    obtain ⟨a, b⟩ := p
    simp only [get?] at h
    simp only [keys, List.map, List.mem_cons]
    by_cases hk : a = k
    · exact Or.inl hk.symm
    · simp [hk] at h; exact Or.inr (ih h)

theorem get?_of_mem_keys (m : AMap V) (k : Id) (h : k ∈ keys m) : get? m k ≠ none := by
  induction m with
  | nil => simp [keys] at h
  | cons p m ih =>
    obtain ⟨a, b⟩ := p
    simp only [keys, List.map, List.mem_cons] at h
    simp only [get?]
    by_cases hk : a = k
    · simp [hk]
    · simp only [hk, if_false]; rcases h with h | h
      · exact absurd h.symm hk
      · exact ih h

/-- `ghostsFor`-style filterMap keyed by the entry's own key -/
theorem get?_filterMap_key {W : Type} (q : Id → Prop) [DecidablePred q] (w : W) (m : AMap V) (k : Id) :
    get? (m.filterMap fun p => if q p.1 then some (p.1, w) else none) k =
      if q k ∧ get? m k ≠ none then some w else none := by
  induction m with
  | nil => simp [get?]
  | cons p m ih =>
    obtain ⟨a, b⟩ := p
    simp only [List.filterMap_cons]
    by_cases hq : q a
    · rw [if_pos hq]
      simp only [get?]
      by_cases hk : a = k
      · subst hk; simp [hq]
      · simp only [hk, if_false]; exact ih
    · rw [if_neg hq]
      simp only [get?]
      by_cases hk : a = k
      · subst hk; rw [ih]; simp [hq]
      · simp only [hk, if_false]; exact ih

end CV.AE.AMap
