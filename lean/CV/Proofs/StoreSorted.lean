/-
The KV table is strictly sorted by key in every reachable state (so keys are unique and the list
order is the order of memdb's primary index): helper lemmas for C03 / C04.
-/
import CV.Proofs.StoreCascade
import CV.Proofs.StoreKV
namespace CV.Store
open CV

/-- strictly increasing keys -/
def KvSorted (s : State) : Prop := s.kvs.Pairwise (fun a b => a.key < b.key)

theorem key_lt_of_not (a b : Key) (h1 : ¬ a < b) (h2 : b ≠ a) : b < a := by
  apply Classical.byContradiction
  intro h3
  exact h2 (List.le_antisymm (List.not_lt.mp h1) (List.not_lt.mp h3))

theorem pairwise_tupsert (r : KV) (l : List KV) (h : l.Pairwise (fun a b => a.key < b.key)) :
    (tupsert KV.pk keyLt r l).Pairwise (fun a b => a.key < b.key) := by
  induction l with
  | nil => simp [tupsert]
  | cons x xs ih =>
    rw [List.pairwise_cons] at h
    obtain ⟨hx, hxs⟩ := h
    simp only [tupsert, KV.pk]
    by_cases heq : x.key = r.key
    · simp only [heq, if_true]
      rw [List.pairwise_cons]
      exact ⟨fun y hy => heq ▸ hx y hy, hxs⟩
    · simp only [heq, if_false]
      by_cases hlt : keyLt r.key x.key = true
      · simp only [hlt, if_true]
        have hlt' : r.key < x.key := by simpa [keyLt] using hlt
        rw [List.pairwise_cons]
        refine ⟨?_, List.pairwise_cons.mpr ⟨hx, hxs⟩⟩
        intro y hy
        rcases List.mem_cons.mp hy with rfl | hy
        · exact hlt'
        · exact List.lt_trans hlt' (hx y hy)
      · have hlt0 : keyLt r.key x.key = false := by simpa using hlt
        simp only [hlt0, Bool.false_eq_true, if_false]
        have hnlt' : ¬ r.key < x.key := by simpa [keyLt] using hlt
        rw [List.pairwise_cons]
        refine ⟨?_, ih hxs⟩
        intro y hy
        rcases mem_tupsert hy with rfl | hy
        · exact key_lt_of_not _ _ hnlt' heq
        · exact hx y hy

theorem kvSorted_empty : KvSorted State.empty := by simp [KvSorted, State.empty]

theorem kvSorted_kvInsert {s : State} (e : KV) (h : KvSorted s) : KvSorted (kvInsert s e) :=
  pairwise_tupsert e s.kvs h

theorem kvSorted_set {s s' : State} {idx : Nat} {e w : KV} {upd : Bool}
    (hr : kvSetTxn s idx e upd = .ok (s', w)) (h : KvSorted s) : KvSorted s' := by
  cases upd <;> simp only [kvSetTxn] at hr <;> repeat' (split at hr)
  all_goals (try simp at hr)
  all_goals (obtain ⟨rfl, -⟩ := hr)
  all_goals (first | exact h | exact kvSorted_kvInsert _ h)

theorem kvSorted_del {s s' : State} {idx : Nat} {k : Key}
    (hr : kvDeleteTxn s idx k = .ok s') (h : KvSorted s) : KvSorted s' := by
  simp only [kvDeleteTxn] at hr
  repeat' (split at hr)
  all_goals (try simp at hr)
  all_goals (subst hr)
  · exact h
  · exact List.Pairwise.filter _ h

theorem kvSorted_tree (s : State) (idx : Nat) (p : Key) (h : KvSorted s) : KvSorted (kvDeleteTreeTxn s idx p) := by
  unfold kvDeleteTreeTxn
  split
  · have : KvSorted { s with kvs := s.kvs.filter (fun e => !prefixMatch p e.key) } := List.Pairwise.filter _ h
    split <;> exact this
  · exact h

/-- sortedness is a KV-only predicate closed under session invalidation -/
theorem kvSorted_closed (idx : Nat) : KvClosed idx KvSorted where
  kvs_only := by intro s s' h hp; unfold KvSorted; rw [h]; exact hp
  invalidate := by
    intro s sess hp
    unfold invalidateKeys
    simp only
    split
    · exact hp
    · split
      · show List.Pairwise _ (List.map _ s.kvs)
        rw [List.pairwise_map]
        refine List.Pairwise.imp ?_ hp
        intro a b hab
        by_cases ha : heldBy sess.id a = true <;> by_cases hb : heldBy sess.id b = true <;> simp [ha, hb, hab]
      · exact List.Pairwise.filter _ hp

theorem kvSorted_txnKV {s s' : State} {idx : Nat} {v : KvVerb} {e : KV} {rs : List TxnRes}
    (hr : txnKV s idx v e = .ok (s', rs)) (h : KvSorted s) : KvSorted s' := by
  by_cases hc : ∃ c, cmdOfVerb v e = some c
  · obtain ⟨c, hc⟩ := hc
    obtain ⟨hs, -⟩ := (txnKV_same_as_direct s idx v e c hc).1 s' rs hr
    have hop : ∃ op, kvOpOf c = some op := by
      cases v <;> simp only [cmdOfVerb] at hc <;> try (cases hc)
      all_goals exact ⟨_, rfl⟩
    obtain ⟨op, hop⟩ := hop
    rw [hs]
    exact kv_cmd_rel (fun a b => KvSorted a → KvSorted b) (fun _ hh => hh)
      (fun _ _ _ _ _ _ hr hh => kvSorted_set hr hh) (fun _ _ _ _ hr hh => kvSorted_del hr hh)
      (fun a i p hh => kvSorted_tree a i p hh) s idx c op hop h
  · have hn : cmdOfVerb v e = none := by
      cases hcm : cmdOfVerb v e with
      | none => rfl
      | some c => exact absurd ⟨c, hcm⟩ hc
    rw [txnKV_reads_pure s s' idx v e rs hn hr]; exact h

theorem kvSorted_txnStep {s s' : State} {idx : Nat} {op : TxnOp} {rs : List TxnRes}
    (hr : txnStep s idx op = .ok (s', rs)) (h : KvSorted s) : KvSorted s' := by
  cases op with
  | kv v e => exact kvSorted_txnKV hr h
  | node v n => exact kc_txnStep (kvSorted_closed idx) (by intro v e hh; cases hh) hr h
  | service v x => exact kc_txnStep (kvSorted_closed idx) (by intro v e hh; cases hh) hr h
  | check v c => exact kc_txnStep (kvSorted_closed idx) (by intro v e hh; cases hh) hr h
  | sessionDelete id => exact kc_txnStep (kvSorted_closed idx) (by intro v e hh; cases hh) hr h

theorem kvSorted_txnLoop {idx : Nat} (ops : List TxnOp) (i : Nat) (s : State) (rs : List TxnRes) (es : List (Nat × Err))
    (h : KvSorted s) : KvSorted (txnLoop idx ops i s rs es).1 := by
  induction ops generalizing i s rs es with
  | nil => exact h
  | cons op ops ih =>
    simp only [txnLoop]
    split
    · next s' r hstep => exact ih _ _ _ _ (kvSorted_txnStep hstep h)
    · exact ih _ _ _ _ h

theorem kvSorted_apply {s : State} (idx : Nat) (c : Cmd) (h : KvSorted s) : KvSorted (apply s idx c).1 := by
  by_cases hk : ∃ op, kvOpOf c = some op
  · obtain ⟨op, hop⟩ := hk
    exact kv_cmd_rel (fun a b => KvSorted a → KvSorted b) (fun _ hh => hh)
      (fun _ _ _ _ _ _ hr hh => kvSorted_set hr hh) (fun _ _ _ _ hr hh => kvSorted_del hr hh)
      (fun a i p hh => kvSorted_tree a i p hh) s idx c op hop h
  · by_cases hp : c.isPlainNonKv = true
    · exact kc_apply (kvSorted_closed idx) c hp h
    · cases c <;> simp [Cmd.isPlainNonKv, kvOpOf] at hp hk
      rename_i ops
      simp only [apply, txnRW]
      have := kvSorted_txnLoop (idx := idx) ops 0 s [] [] h
      generalize txnLoop idx ops 0 s [] [] = r at this
      obtain ⟨s', rs, es⟩ := r
      simp only
      split
      · exact this
      · exact h

theorem kvSorted_replay (s : State) (log : Log) (h : KvSorted s) : KvSorted (replay s log) := by
  unfold replay
  induction log generalizing s with
  | nil => exact h
  | cons ic rest ih => exact ih _ (kvSorted_apply ic.1 ic.2 h)

theorem pairwise_unique (l : List KV) (h : l.Pairwise (fun a b => a.key < b.key)) {a b : KV}
    (ha : a ∈ l) (hb : b ∈ l) (hk : a.key = b.key) : a = b := by
  induction l with
  | nil => simp at ha
  | cons x xs ih =>
    rw [List.pairwise_cons] at h
    rcases List.mem_cons.mp ha with rfl | ha' <;> rcases List.mem_cons.mp hb with rfl | hb'
    · rfl
    · exact absurd (hk ▸ h.1 b hb') (List.lt_irrefl _)
    · exact absurd (hk ▸ h.1 a ha') (List.lt_irrefl _)
    · exact ih h.2 ha' hb'

/-- in a sorted table a key has exactly one row -/
theorem kvSorted_unique {s : State} (h : KvSorted s) {a b : KV} (ha : a ∈ s.kvs) (hb : b ∈ s.kvs)
    (hk : a.key = b.key) : a = b := pairwise_unique s.kvs h ha hb hk

end CV.Store
