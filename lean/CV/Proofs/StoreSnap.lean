/-
Helper lemmas for CV.Store.Snap (property C02 over the shared store model): tables in primary-key order,
the algebra of `tupsert`-folds, the phases of the restore fold. Part 1: generic tables and the index table.
Core-only.
-/
import CV.Store.Snap
import CV.Proofs.StoreCatFrame
set_option linter.unusedSectionVars false
namespace CV.Store
open CV

/-! ### tables in primary-key order -/

/-- the primary-key comparator of a table is a strict total order -/
structure StrictTotal {κ : Type} (lt : κ → κ → Bool) : Prop where
  irrefl : ∀ a, lt a a = false
  trans : ∀ a b c, lt a b = true → lt b c = true → lt a c = true
  total : ∀ a b, lt a b = false → a ≠ b → lt b a = true

theorem strLt_ord : StrictTotal strLt where
  irrefl a := by simp [strLt, String.lt_irrefl]
  trans a b c h₁ h₂ := by
    simp only [strLt, decide_eq_true_eq] at *
    exact String.lt_trans h₁ h₂
  total a b h hne := by
    simp only [strLt, decide_eq_false_iff_not, decide_eq_true_eq] at *
    apply Classical.byContradiction
    intro h3
    exact hne (String.le_antisymm (String.not_lt.mp h3) (String.not_lt.mp h))

theorem keyLt_ord : StrictTotal keyLt where
  irrefl a := by simp [keyLt, List.lt_irrefl]
  trans a b c h₁ h₂ := by
    simp only [keyLt, decide_eq_true_eq] at *
    exact List.lt_trans h₁ h₂
  total a b h hne := by
    simp only [keyLt, decide_eq_false_iff_not, decide_eq_true_eq] at *
    apply Classical.byContradiction
    intro h3
    exact hne (List.le_antisymm (List.not_lt.mp h3) (List.not_lt.mp h))

section Tbl
variable {α κ : Type} [DecidableEq κ]

/-- rows in strictly increasing primary-key order (so: one row per key) -/
def TSorted (key : α → κ) (lt : κ → κ → Bool) (l : List α) : Prop := l.Pairwise (fun a b => lt (key a) (key b) = true)

theorem tsorted_nil (key : α → κ) (lt : κ → κ → Bool) : TSorted key lt [] := List.Pairwise.nil

theorem lt_ne {lt : κ → κ → Bool} (o : StrictTotal lt) {a b : κ} (h : lt a b = true) : a ≠ b := by
  intro e; subst e; rw [o.irrefl] at h; exact absurd h (by simp)

theorem tsorted_tupsert {key : α → κ} {lt : κ → κ → Bool} (o : StrictTotal lt) (r : α) (l : List α)
    (h : TSorted key lt l) : TSorted key lt (tupsert key lt r l) := by
  unfold TSorted at h ⊢
  induction l with
  | nil => simp [tupsert]
  | cons x xs ih =>
    rw [List.pairwise_cons] at h
    obtain ⟨hx, hxs⟩ := h
    simp only [tupsert]
    by_cases heq : key x = key r
    · simp only [heq, if_true]
      rw [List.pairwise_cons]
      exact ⟨fun y hy => heq ▸ hx y hy, hxs⟩
    · simp only [heq, if_false]
      by_cases hlt : lt (key r) (key x) = true
      · simp only [hlt, if_true]
        rw [List.pairwise_cons]
        refine ⟨?_, List.pairwise_cons.mpr ⟨hx, hxs⟩⟩
        intro y hy
        rcases List.mem_cons.mp hy with rfl | hy
        · exact hlt
        · exact o.trans _ _ _ hlt (hx y hy)
      · have hlt0 : lt (key r) (key x) = false := by simpa using hlt
        simp only [hlt0, Bool.false_eq_true, if_false]
        rw [List.pairwise_cons]
        refine ⟨?_, ih hxs⟩
        intro y hy
        rcases mem_tupsert hy with rfl | hy
        · exact o.total _ _ hlt0 (fun e => heq e.symm)
        · exact hx y hy

theorem tsorted_unique {key : α → κ} {lt : κ → κ → Bool} (o : StrictTotal lt) {l : List α} (h : TSorted key lt l)
    {a b : α} (ha : a ∈ l) (hb : b ∈ l) (hk : key a = key b) : a = b := by
  unfold TSorted at h
  induction l with
  | nil => simp at ha
  | cons x xs ih =>
    rw [List.pairwise_cons] at h
    rcases List.mem_cons.mp ha with ha | ha <;> rcases List.mem_cons.mp hb with hb | hb
    · rw [ha, hb]
    · have := h.1 b hb; rw [← ha, hk] at this; exact absurd rfl (lt_ne o this)
    · have := h.1 a ha; rw [← hb, ← hk] at this; exact absurd rfl (lt_ne o this)
    · exact ih h.2 ha hb

theorem mem_tupsert_iff {key : α → κ} {lt : κ → κ → Bool} (o : StrictTotal lt) {r : α} {l : List α}
    (h : TSorted key lt l) (x : α) : x ∈ tupsert key lt r l ↔ x = r ∨ (x ∈ l ∧ key x ≠ key r) := by
  constructor
  · intro hx
    rcases mem_tupsert hx with rfl | hl
    · exact Or.inl rfl
    · by_cases e : key x = key r
      · exact Or.inl (tsorted_unique o (tsorted_tupsert o r l h) hx (self_mem_tupsert r l) e)
      · exact Or.inr ⟨hl, e⟩
  · rintro (rfl | ⟨hl, hne⟩)
    · exact self_mem_tupsert _ l
    · rcases mem_tupsert_of_mem (key := key) (lt := lt) (r := r) hl with h | h
      · exact h
      · exact absurd h hne

/-- two tables in key order with the same rows are the same list -/
theorem tsorted_ext {key : α → κ} {lt : κ → κ → Bool} (o : StrictTotal lt) {l₁ l₂ : List α}
    (h₁ : TSorted key lt l₁) (h₂ : TSorted key lt l₂) (h : ∀ y, y ∈ l₁ ↔ y ∈ l₂) : l₁ = l₂ := by
  have nd : ∀ l : List α, TSorted key lt l → l.Nodup := fun l hl =>
    List.Pairwise.imp (fun hab => by intro e; subst e; exact absurd rfl (lt_ne o hab)) hl
  have p : l₁.Perm l₂ := (List.perm_ext_iff_of_nodup (nd _ h₁) (nd _ h₂)).mpr h
  exact List.Perm.eq_of_pairwise
    (fun a b _ _ hab hba => absurd rfl (lt_ne o (o.trans _ _ _ hab hba))) h₁ h₂ p

/-- inserting rows one after the other -/
def tInsertAll (key : α → κ) (lt : κ → κ → Bool) (acc l : List α) : List α := l.foldl (fun a x => tupsert key lt x a) acc

theorem tInsertAll_sorted {key : α → κ} {lt : κ → κ → Bool} (o : StrictTotal lt) {acc : List α} (l : List α)
    (ha : TSorted key lt acc) : TSorted key lt (tInsertAll key lt acc l) := by
  induction l generalizing acc with
  | nil => exact ha
  | cons x xs ih => exact ih (tsorted_tupsert o x acc ha)

theorem mem_tInsertAll {key : α → κ} {lt : κ → κ → Bool} (o : StrictTotal lt) {acc : List α} (l : List α)
    (ha : TSorted key lt acc) (hl : l.Pairwise (fun a b => key a ≠ key b)) (y : α) :
    y ∈ tInsertAll key lt acc l ↔ y ∈ l ∨ (y ∈ acc ∧ ∀ x ∈ l, key y ≠ key x) := by
  induction l generalizing acc with
  | nil => simp [tInsertAll]
  | cons x xs ih =>
    obtain ⟨hx, hxs⟩ := List.pairwise_cons.mp hl
    show y ∈ tInsertAll key lt (tupsert key lt x acc) xs ↔ _
    rw [ih (tsorted_tupsert o x acc ha) hxs, mem_tupsert_iff o ha]
    constructor
    · rintro (h | ⟨h | ⟨h, hn⟩, hall⟩)
      · exact Or.inl (List.mem_cons_of_mem _ h)
      · exact Or.inl (h ▸ List.mem_cons_self)
      · refine Or.inr ⟨h, fun x' hx' => ?_⟩
        rcases List.mem_cons.mp hx' with rfl | hx'
        · exact hn
        · exact hall _ hx'
    · rintro (h | ⟨h, hall⟩)
      · rcases List.mem_cons.mp h with rfl | h
        · exact Or.inr ⟨Or.inl rfl, fun x' hx' => hx _ hx'⟩
        · exact Or.inl h
      · exact Or.inr ⟨Or.inr ⟨h, hall _ List.mem_cons_self⟩, fun x' hx' => hall _ (List.mem_cons_of_mem _ hx')⟩

theorem tsorted_keys_ne {key : α → κ} {lt : κ → κ → Bool} (o : StrictTotal lt) {l : List α} (h : TSorted key lt l) :
    l.Pairwise (fun a b => key a ≠ key b) := List.Pairwise.imp (fun hab => lt_ne o hab) h

/-- re-inserting a table row by row into a store all of whose rows get overwritten gives the table back -/
theorem tInsertAll_cover {key : α → κ} {lt : κ → κ → Bool} (o : StrictTotal lt) {acc l : List α}
    (ha : TSorted key lt acc) (hl : TSorted key lt l) (hc : ∀ y ∈ acc, ∃ x ∈ l, key y = key x) :
    tInsertAll key lt acc l = l := by
  apply tsorted_ext o (tInsertAll_sorted o l ha) hl
  intro y
  rw [mem_tInsertAll o l ha (tsorted_keys_ne o hl)]
  constructor
  · rintro (h | ⟨h, hn⟩)
    · exact h
    · obtain ⟨x, hx, e⟩ := hc y h
      exact absurd e (hn x hx)
  · exact Or.inl

theorem tInsertAll_nil {key : α → κ} {lt : κ → κ → Bool} (o : StrictTotal lt) {l : List α} (hl : TSorted key lt l) :
    tInsertAll key lt [] l = l := tInsertAll_cover o (tsorted_nil key lt) hl (fun _ h => by cases h)

theorem tfind_of_mem {key : α → κ} {lt : κ → κ → Bool} (o : StrictTotal lt) {l : List α} (h : TSorted key lt l)
    {x : α} (hx : x ∈ l) : tfind key (key x) l = some x := by
  cases hf : tfind key (key x) l with
  | none => exact absurd rfl (tfind_none hf x hx)
  | some y =>
    have hy := tfind_some hf
    rw [tsorted_unique o h hy.1 hx hy.2]

theorem tfind_none_of_keys {key : α → κ} {k : κ} {l : List α} (h : ∀ x ∈ l, key x ≠ k) : tfind key k l = none := by
  unfold tfind
  rw [List.find?_eq_none]
  intro x hx
  simpa using h x hx

end Tbl

/-! ### the index table -/

/-- index rows in key order -/
def IdxSorted (ix : List (String × Nat)) : Prop := TSorted (·.1) strLt ix

theorem idxSorted_nil : IdxSorted [] := tsorted_nil _ _

theorem idxSorted_set {ix : List (String × Nat)} (h : IdxSorted ix) (k : String) (v : Nat) : IdxSorted (idxSet ix k v) :=
  tsorted_tupsert strLt_ord _ _ h

theorem idxSorted_max {ix : List (String × Nat)} (h : IdxSorted ix) (k : String) (v : Nat) : IdxSorted (idxMax ix k v) := by
  unfold idxMax
  split
  · split
    · exact h
    · exact idxSorted_set h k v
  · exact idxSorted_set h k v

/-- every key of the table lies in the set `K` -/
def KeysIn (K : String → Prop) (ix : List (String × Nat)) : Prop := ∀ y ∈ ix, K y.1

theorem keysIn_nil (K : String → Prop) : KeysIn K [] := fun _ h => by cases h

theorem keysIn_set {K : String → Prop} {ix : List (String × Nat)} (h : KeysIn K ix) {k : String} (hk : K (lc k)) (v : Nat) :
    KeysIn K (idxSet ix k v) := by
  intro y hy
  rcases mem_tupsert hy with rfl | hy
  · exact hk
  · exact h y hy

theorem keysIn_max {K : String → Prop} {ix : List (String × Nat)} (h : KeysIn K ix) {k : String} (hk : K (lc k)) (v : Nat) :
    KeysIn K (idxMax ix k v) := by
  unfold idxMax
  split
  · split
    · exact h
    · exact keysIn_set h hk v
  · exact keysIn_set h hk v

/-- the two properties of the index table that the restore proof carries through every restorer -/
structure IdxOK (K : String → Prop) (ix : List (String × Nat)) : Prop where
  sorted : IdxSorted ix
  keys : KeysIn K ix

theorem idxOK_nil (K : String → Prop) : IdxOK K [] := ⟨idxSorted_nil, keysIn_nil K⟩

theorem idxOK_max {K : String → Prop} {ix : List (String × Nat)} (h : IdxOK K ix) {k : String} (hk : K (lc k)) (v : Nat) :
    IdxOK K (idxMax ix k v) := ⟨idxSorted_max h.sorted k v, keysIn_max h.keys hk v⟩

theorem idxOK_foldl_max {β : Type} {K : String → Prop} (k : String) (hk : K (lc k)) (f : β → Nat) (l : List β)
    {ix : List (String × Nat)} (h : IdxOK K ix) : IdxOK K (l.foldl (fun a x => idxMax a k (f x)) ix) := by
  induction l generalizing ix with
  | nil => exact h
  | cons x xs ih => exact ih (idxOK_max h hk _)

/-- the verbatim index records, re-inserted over whatever the earlier restorers computed -/
theorem index_verbatim {ix early : List (String × Nat)} (hs : IdxSorted ix) (hn : ∀ r ∈ ix, lc r.1 = r.1)
    (he : IdxSorted early) (hc : ∀ y ∈ early, ∃ x ∈ ix, y.1 = x.1) :
    ix.foldl (fun a r => idxSet a r.1 r.2) early = ix := by
  have e : ∀ (l : List (String × Nat)) (acc : List (String × Nat)), (∀ r ∈ l, lc r.1 = r.1) →
      l.foldl (fun a r => idxSet a r.1 r.2) acc = tInsertAll (·.1) strLt acc l := by
    intro l
    induction l with
    | nil => intro acc _; rfl
    | cons r rs ih =>
      intro acc h
      have hr : lc r.1 = r.1 := h r List.mem_cons_self
      simp only [List.foldl_cons, tInsertAll]
      have : idxSet acc r.1 r.2 = tupsert (·.1) strLt r acc := by
        unfold idxSet; rw [hr]
      rw [this]
      exact ih _ (fun x hx => h x (List.mem_cons_of_mem _ hx))
  rw [e ix early hn]
  exact tInsertAll_cover strLt_ord he hs hc

end CV.Store
