/-
Helper lemmas for C17: the Raft index layer (CV.PeerIdx) — rows of other peers and rows that stay in the catalog
throughout keep their CreateIndex / ModifyIndex.
-/
import CV.PeerIdx
import CV.Proofs.PeerGo
set_option linter.unusedSectionVars false
set_option linter.unusedSimpArgs false
namespace CV.Peer

/-- the index entries of all rows that do not belong to peer `p` -/
def ixOthers (p : String) (ix : Ix) : Ix := ix.filter fun e => decide (e.key.peer ≠ p)

/-- the index entries of one key -/
def ixAt (k : IxKey) (ix : Ix) : Ix := ix.filter fun e => decide (e.key = k)

theorem others_mem {p : String} {c c' : Cat} (h : others p c' = others p c) :
    (∀ x : Node, x.peer ≠ p → (x ∈ c'.nodes ↔ x ∈ c.nodes)) ∧
    (∀ x : Svc, x.peer ≠ p → (x ∈ c'.svcs ↔ x ∈ c.svcs)) ∧
    (∀ x : Chk, x.peer ≠ p → (x ∈ c'.chks ↔ x ∈ c.chks)) := by
  have en := congrArg Cat.nodes h
  have es := congrArg Cat.svcs h
  have ek := congrArg Cat.chks h
  simp only [others] at en es ek
  refine ⟨fun x hx => ?_, fun x hx => ?_, fun x hx => ?_⟩
  · have : x ∈ c'.nodes.filter (fun x => decide (x.peer ≠ p)) ↔ x ∈ c.nodes.filter (fun x => decide (x.peer ≠ p)) := by rw [en]
    simpa [List.mem_filter, hx] using this
  · have : x ∈ c'.svcs.filter (fun x => decide (x.peer ≠ p)) ↔ x ∈ c.svcs.filter (fun x => decide (x.peer ≠ p)) := by rw [es]
    simpa [List.mem_filter, hx] using this
  · have : x ∈ c'.chks.filter (fun x => decide (x.peer ≠ p)) ↔ x ∈ c.chks.filter (fun x => decide (x.peer ≠ p)) := by rw [ek]
    simpa [List.mem_filter, hx] using this

theorem touched_iff (c c' : Cat) (k : IxKey) : touched c c' k = true ↔
    (∃ x ∈ c.nodes, nodeKey x = k ∧ x ∉ c'.nodes) ∨ (∃ x ∈ c'.nodes, nodeKey x = k ∧ x ∉ c.nodes) ∨
    (∃ x ∈ c.svcs, svcKey x = k ∧ x ∉ c'.svcs) ∨ (∃ x ∈ c'.svcs, svcKey x = k ∧ x ∉ c.svcs) ∨
    (∃ x ∈ c.chks, chkKey x = k ∧ x ∉ c'.chks) ∨ (∃ x ∈ c'.chks, chkKey x = k ∧ x ∉ c.chks) := by
  simp only [touched, Bool.or_eq_true, List.any_eq_true, Bool.and_eq_true, decide_eq_true_eq, Bool.not_eq_true',
    decide_eq_false_iff_not]
  grind

/-- a transaction that leaves the rows of other peers alone leaves their indexes alone -/
theorem ixOthers_step {p : String} {c c' : Cat} (h : others p c' = others p c) (ix : Ix) (idx : Nat) :
    ixOthers p (ixStep c c' ix idx) = ixOthers p ix := by
  obtain ⟨hn, hs, hk⟩ := others_mem h
  simp only [ixOthers, ixStep, List.filter_append]
  have e1 : List.filter (fun e => decide (e.key.peer ≠ p))
      ((c'.nodes.filter fun x => !decide (x ∈ c.nodes)).map (stampNode c ix idx)) = [] := by
    rw [List.filter_eq_nil_iff]
    intro e he
    simp only [List.mem_map, List.mem_filter, Bool.not_eq_true', decide_eq_false_iff_not] at he
    obtain ⟨x, ⟨hx1, hx2⟩, rfl⟩ := he
    have hkey : (stampNode c ix idx x).key = nodeKey x := by
      unfold stampNode; split <;> rfl
    intro hc
    have hp : x.peer ≠ p := by simpa [hkey, nodeKey] using hc
    exact hx2 ((hn x hp).mp hx1)
  have e2 : List.filter (fun e => decide (e.key.peer ≠ p))
      ((c'.svcs.filter fun x => !decide (x ∈ c.svcs)).map (fun x => (⟨svcKey x, createOf ix (svcKey x) idx, idx⟩ : IxEnt))) = [] := by
    rw [List.filter_eq_nil_iff]
    intro e he
    simp only [List.mem_map, List.mem_filter, Bool.not_eq_true', decide_eq_false_iff_not] at he
    obtain ⟨x, ⟨hx1, hx2⟩, rfl⟩ := he
    intro hc
    have hp : x.peer ≠ p := of_decide_eq_true hc
    exact hx2 ((hs x hp).mp hx1)
  have e3 : List.filter (fun e => decide (e.key.peer ≠ p))
      ((c'.chks.filter fun x => !decide (x ∈ c.chks)).map (fun x => (⟨chkKey x, createOf ix (chkKey x) idx, idx⟩ : IxEnt))) = [] := by
    rw [List.filter_eq_nil_iff]
    intro e he
    simp only [List.mem_map, List.mem_filter, Bool.not_eq_true', decide_eq_false_iff_not] at he
    obtain ⟨x, ⟨hx1, hx2⟩, rfl⟩ := he
    intro hc
    have hp : x.peer ≠ p := of_decide_eq_true hc
    exact hx2 ((hk x hp).mp hx1)
  rw [e1, e2, e3]
  simp only [List.append_nil]
  apply filter_sub
  intro e he
  simp only [ne_eq, decide_eq_true_eq] at he
  simp only [Bool.not_eq_true']
  cases ht : touched c c' e.key with
  | false => rfl
  | true =>
    exfalso
    rcases (touched_iff c c' e.key).mp ht with ⟨x, h1, h2, h3⟩ | ⟨x, h1, h2, h3⟩ | ⟨x, h1, h2, h3⟩ | ⟨x, h1, h2, h3⟩ | ⟨x, h1, h2, h3⟩ | ⟨x, h1, h2, h3⟩
    · exact h3 ((hn x (by rw [← h2] at he; exact he)).mpr h1)
    · exact h3 ((hn x (by rw [← h2] at he; exact he)).mp h1)
    · exact h3 ((hs x (by rw [← h2] at he; exact he)).mpr h1)
    · exact h3 ((hs x (by rw [← h2] at he; exact he)).mp h1)
    · exact h3 ((hk x (by rw [← h2] at he; exact he)).mpr h1)
    · exact h3 ((hk x (by rw [← h2] at he; exact he)).mp h1)

theorem others_applyOr (c : Cat) (o : Op) : others o.peer (applyOr c o) = others o.peer c := by
  unfold applyOr
  split
  · rename_i c' h; exact others_applyOp c c' o h
  · rfl

/-- replaying commands of peer `p` never changes an index of another peer's row or of a local row -/
theorem ixOthers_run (p : String) (ops : List Op) (c : Cat) (ix : Ix) (idx : Nat) (h : ∀ o ∈ ops, o.peer = p) :
    ixOthers p (ixRun c ix idx ops).2.1 = ixOthers p ix := by
  induction ops generalizing c ix idx with
  | nil => rfl
  | cons o os ih =>
    simp only [ixRun]
    rw [ih _ _ _ (fun o' ho' => h o' (by simp [ho']))]
    have hp := h o (by simp)
    have := others_applyOr c o
    rw [hp] at this
    exact ixOthers_step this ix idx

/-! ### replaying a command log reproduces the catalog -/

theorem ixRun_cat (ops : List Op) (c : Cat) (ix : Ix) (idx : Nat) : (ixRun c ix idx ops).1 = ops.foldl applyOr c := by
  induction ops generalizing c ix idx with
  | nil => rfl
  | cons o os ih => simp only [ixRun, List.foldl_cons]; exact ih _ _ _

theorem runOps_replay (ops : List Op) (c : Cat) : (runOps c ops).2.2.foldl applyOr c = (runOps c ops).1 := by
  induction ops generalizing c with
  | nil => rfl
  | cons o os ih =>
    simp only [runOps]
    split
    · rename_i e he
      simp only [List.foldl_cons, List.foldl_nil, applyOr, he]
    · rename_i c1 h1
      simp only [List.foldl_cons, applyOr, h1]
      exact ih c1

theorem runOps_log_sub (ops : List Op) (c : Cat) : ∀ o ∈ (runOps c ops).2.2, o ∈ ops := by
  induction ops generalizing c with
  | nil => simp [runOps]
  | cons o os ih =>
    simp only [runOps]
    split
    · intro o' ho'; simp only [List.mem_singleton] at ho'; simp [ho']
    · rename_i c1 _
      intro o' ho'
      simp only [List.mem_cons] at ho'
      rcases ho' with rfl | ho'
      · simp
      · simp [ih c1 o' ho']

theorem dropUnused_replay (p : String) (ns : List String) (c : Cat) :
    (dropUnused p c ns).2.foldl applyOr c = (dropUnused p c ns).1 ∧ ∀ o ∈ (dropUnused p c ns).2, o.peer = p ∧ o.isDereg = true := by
  induction ns generalizing c with
  | nil => simp [dropUnused]
  | cons n ns ih =>
    simp only [dropUnused]
    split
    · exact ih c
    · obtain ⟨a, b⟩ := ih (delNode c p n)
      refine ⟨?_, ?_⟩
      · simp only [List.foldl_cons, applyOr, applyOp]; exact a
      · intro o ho
        simp only [List.mem_cons] at ho
        rcases ho with rfl | ho
        · exact ⟨rfl, rfl⟩
        · exact b o ho

/-- the command log of an update: replaying it gives the resulting catalog; every command carries the peer -/
theorem handleUpdate_log (c : Cat) (p sn : String) (is : List Inst) :
    (handleUpdate c p sn is).log.foldl applyOr c = (handleUpdate c p sn is).cat ∧
    ∀ o ∈ (handleUpdate c p sn is).log, o.peer = p := by
  unfold handleUpdate
  split
  · simp
  · rename_i st _
    split
    · simp
    · rename_i snap _
      have h1 : ∀ o ∈ snap.flatMap (regOpsNode p st), o.peer = p := by
        intro o ho
        simp only [List.mem_flatMap] at ho
        obtain ⟨nd, _, ho⟩ := ho
        exact regOpsNode_peer p st nd o ho
      have r1 := runOps_replay (snap.flatMap (regOpsNode p st)) c
      have s1 := runOps_log_sub (snap.flatMap (regOpsNode p st)) c
      split
      · rename_i c1 e l1 hr
        rw [hr] at r1 s1
        exact ⟨r1, fun o ho => h1 o (s1 o ho)⟩
      · rename_i c1 l1 hr
        rw [hr] at r1 s1
        simp only at r1 s1 ⊢
        have hd := cleanupCmds_dereg p snap st
        have r2 := runOps_replay (cleanupCmds p (cleanup p snap st)) c1
        have s2 := runOps_log_sub (cleanupCmds p (cleanup p snap st)) c1
        have hpeer2 : ∀ o ∈ cleanupCmds p (cleanup p snap st), o.peer = p := by
          intro o ho
          simp only [cleanupCmds, List.mem_append, List.mem_map] at ho
          rcases ho with ho | ⟨nk, _, rfl⟩
          · exact cleanup_ops p snap st o ho
          · rfl
        obtain ⟨r3, s3⟩ := dropUnused_replay p (cleanup p snap st).unused (runOps c1 (cleanupCmds p (cleanup p snap st))).1
        simp only [cleanupCmds] at r2 s2 hpeer2 r3 s3
        refine ⟨?_, ?_⟩
        · simp only [List.foldl_append]
          rw [r1, r2, r3]
        · intro o ho
          simp only [List.mem_append] at ho
          rcases ho with (ho | ho) | ho
          · exact h1 o (s1 o ho)
          · exact hpeer2 o (s2 o ho)
          · exact (s3 o ho).1

theorem pruneAll_log (p : String) (keep : List String) (names : List String) (c0 : Cat) (r : Res)
    (h : r.log.foldl applyOr c0 = r.cat ∧ ∀ o ∈ r.log, o.peer = p) :
    (pruneAll p keep names r).log.foldl applyOr c0 = (pruneAll p keep names r).cat ∧
    ∀ o ∈ (pruneAll p keep names r).log, o.peer = p := by
  induction names generalizing r with
  | nil => exact h
  | cons sn rest ih =>
    simp only [pruneAll]
    split
    · exact h
    · split
      · exact ih r h
      · apply ih
        obtain ⟨a, b⟩ := handleUpdate_log r.cat p sn []
        refine ⟨?_, ?_⟩
        · simp only [List.foldl_append, h.1]; exact a
        · intro o ho
          simp only [List.mem_append] at ho
          rcases ho with ho | ho
          · exact h.2 o ho
          · exact b o ho

theorem handleList_log (c : Cat) (p : String) (names : List String) :
    (handleList c p names).log.foldl applyOr c = (handleList c p names).cat ∧
    ∀ o ∈ (handleList c p names).log, o.peer = p := by
  unfold handleList
  exact pruneAll_log p _ _ c { cat := c } ⟨rfl, by simp⟩

/-! ### a row that stays keeps its indexes -/

theorem ixAt_step_svc {c c' : Cat} {x : Svc} (hx : x ∈ c.svcs) (hx' : x ∈ c'.svcs)
    (u : ∀ y ∈ c.svcs, svcKey y = svcKey x → y = x) (u' : ∀ y ∈ c'.svcs, svcKey y = svcKey x → y = x)
    (ix : Ix) (idx : Nat) : ixAt (svcKey x) (ixStep c c' ix idx) = ixAt (svcKey x) ix := by
  simp only [ixAt, ixStep, List.filter_append]
  have e1 : List.filter (fun e => decide (e.key = svcKey x))
      ((c'.nodes.filter fun y => !decide (y ∈ c.nodes)).map (stampNode c ix idx)) = [] := by
    rw [List.filter_eq_nil_iff]
    intro e he
    simp only [List.mem_map] at he
    obtain ⟨y, _, rfl⟩ := he
    have hkey : (stampNode c ix idx y).key = nodeKey y := by unfold stampNode; split <;> rfl
    intro hc
    have := of_decide_eq_true hc
    rw [hkey] at this
    simp [nodeKey, svcKey] at this
  have e2 : List.filter (fun e => decide (e.key = svcKey x))
      ((c'.svcs.filter fun y => !decide (y ∈ c.svcs)).map (fun y => (⟨svcKey y, createOf ix (svcKey y) idx, idx⟩ : IxEnt))) = [] := by
    rw [List.filter_eq_nil_iff]
    intro e he
    simp only [List.mem_map, List.mem_filter, Bool.not_eq_true', decide_eq_false_iff_not] at he
    obtain ⟨y, ⟨hy1, hy2⟩, rfl⟩ := he
    intro hc
    have hk : svcKey y = svcKey x := of_decide_eq_true hc
    exact hy2 (u' y hy1 hk ▸ hx)
  have e3 : List.filter (fun e => decide (e.key = svcKey x))
      ((c'.chks.filter fun y => !decide (y ∈ c.chks)).map (fun y => (⟨chkKey y, createOf ix (chkKey y) idx, idx⟩ : IxEnt))) = [] := by
    rw [List.filter_eq_nil_iff]
    intro e he
    simp only [List.mem_map] at he
    obtain ⟨y, _, rfl⟩ := he
    intro hc
    have := of_decide_eq_true hc
    simp [chkKey, svcKey] at this
  rw [e1, e2, e3]
  simp only [List.append_nil]
  apply filter_sub
  intro e he
  have hk : e.key = svcKey x := of_decide_eq_true he
  simp only [Bool.not_eq_true']
  cases ht : touched c c' e.key with
  | false => rfl
  | true =>
    exfalso
    rw [hk] at ht
    rcases (touched_iff c c' (svcKey x)).mp ht with ⟨y, _, h2, _⟩ | ⟨y, _, h2, _⟩ | ⟨y, h1, h2, h3⟩ | ⟨y, h1, h2, h3⟩ | ⟨y, _, h2, _⟩ | ⟨y, _, h2, _⟩
    · simp [nodeKey, svcKey] at h2
    · simp [nodeKey, svcKey] at h2
    · exact h3 (u y h1 h2 ▸ hx')
    · exact h3 (u' y h1 h2 ▸ hx)
    · simp [chkKey, svcKey] at h2
    · simp [chkKey, svcKey] at h2

theorem ixAt_step_chk {c c' : Cat} {x : Chk} (hx : x ∈ c.chks) (hx' : x ∈ c'.chks)
    (u : ∀ y ∈ c.chks, chkKey y = chkKey x → y = x) (u' : ∀ y ∈ c'.chks, chkKey y = chkKey x → y = x)
    (ix : Ix) (idx : Nat) : ixAt (chkKey x) (ixStep c c' ix idx) = ixAt (chkKey x) ix := by
  simp only [ixAt, ixStep, List.filter_append]
  have e1 : List.filter (fun e => decide (e.key = chkKey x))
      ((c'.nodes.filter fun y => !decide (y ∈ c.nodes)).map (stampNode c ix idx)) = [] := by
    rw [List.filter_eq_nil_iff]
    intro e he
    simp only [List.mem_map] at he
    obtain ⟨y, _, rfl⟩ := he
    have hkey : (stampNode c ix idx y).key = nodeKey y := by unfold stampNode; split <;> rfl
    intro hc
    have := of_decide_eq_true hc
    rw [hkey] at this
    simp [nodeKey, chkKey] at this
  have e2 : List.filter (fun e => decide (e.key = chkKey x))
      ((c'.svcs.filter fun y => !decide (y ∈ c.svcs)).map (fun y => (⟨svcKey y, createOf ix (svcKey y) idx, idx⟩ : IxEnt))) = [] := by
    rw [List.filter_eq_nil_iff]
    intro e he
    simp only [List.mem_map] at he
    obtain ⟨y, _, rfl⟩ := he
    intro hc
    have := of_decide_eq_true hc
    simp [chkKey, svcKey] at this
  have e3 : List.filter (fun e => decide (e.key = chkKey x))
      ((c'.chks.filter fun y => !decide (y ∈ c.chks)).map (fun y => (⟨chkKey y, createOf ix (chkKey y) idx, idx⟩ : IxEnt))) = [] := by
    rw [List.filter_eq_nil_iff]
    intro e he
    simp only [List.mem_map, List.mem_filter, Bool.not_eq_true', decide_eq_false_iff_not] at he
    obtain ⟨y, ⟨hy1, hy2⟩, rfl⟩ := he
    intro hc
    have hk : chkKey y = chkKey x := of_decide_eq_true hc
    exact hy2 (u' y hy1 hk ▸ hx)
  rw [e1, e2, e3]
  simp only [List.append_nil]
  apply filter_sub
  intro e he
  have hk : e.key = chkKey x := of_decide_eq_true he
  simp only [Bool.not_eq_true']
  cases ht : touched c c' e.key with
  | false => rfl
  | true =>
    exfalso
    rw [hk] at ht
    rcases (touched_iff c c' (chkKey x)).mp ht with ⟨y, _, h2, _⟩ | ⟨y, _, h2, _⟩ | ⟨y, _, h2, _⟩ | ⟨y, _, h2, _⟩ | ⟨y, h1, h2, h3⟩ | ⟨y, h1, h2, h3⟩
    · simp [nodeKey, chkKey] at h2
    · simp [nodeKey, chkKey] at h2
    · simp [chkKey, svcKey] at h2
    · simp [chkKey, svcKey] at h2
    · exact h3 (u y h1 h2 ▸ hx')
    · exact h3 (u' y h1 h2 ▸ hx)

theorem WF.applyOr {c : Cat} (wf : WF c) (o : Op) (hs : ∀ r, o = .reg r → ∀ sd, r.svc = some sd → sd.sid ≠ "") :
    WF (applyOr c o) := by
  unfold Peer.applyOr
  split
  · rename_i c' h
    cases o with
    | reg r => exact wf.register (hs r rfl) h
    | deregSvc p n i => simp only [applyOp, Except.ok.injEq] at h; subst h; exact WF.of_sub wf (sub_delSvc c p n i)
    | deregChk p n k => simp only [applyOp, Except.ok.injEq] at h; subst h; exact WF.of_sub wf (sub_delChk c p n k)
    | deregNode p n => simp only [applyOp, Except.ok.injEq] at h; subst h; exact WF.of_sub wf (sub_delNode c p n)
  · exact wf

theorem svcKey_eq {x y : Svc} (h : svcKey y = svcKey x) : y.peer = x.peer ∧ y.node = x.node ∧ y.sid = x.sid := by
  simp only [svcKey, IxKey.mk.injEq, true_and] at h; exact h
theorem chkKey_eq {x y : Chk} (h : chkKey y = chkKey x) : y.peer = x.peer ∧ y.node = x.node ∧ y.cid = x.cid := by
  simp only [chkKey, IxKey.mk.injEq, true_and] at h; exact h

/-- a service row that is in the catalog after the replay and that no command of the log registers was there all
    the time: its index entries are untouched -/
theorem ixRun_keep_svc (ops : List Op) (c : Cat) (ix : Ix) (idx : Nat) (wf : WF c) (x : Svc)
    (hs : ∀ r, .reg r ∈ ops → ∀ sd, r.svc = some sd → sd.sid ≠ "")
    (hno : ∀ r sd, .reg r ∈ ops → r.svc = some sd → x ≠ ⟨r.peer, r.node.name, sd.sid, sd.name, sd.port⟩)
    (hx : x ∈ (ops.foldl applyOr c).svcs) :
    x ∈ c.svcs ∧ ixAt (svcKey x) (ixRun c ix idx ops).2.1 = ixAt (svcKey x) ix := by
  induction ops generalizing c ix idx with
  | nil => exact ⟨hx, rfl⟩
  | cons o os ih =>
    simp only [List.foldl_cons] at hx
    have wf1 := wf.applyOr o (fun r e => hs r (by simp [e]))
    obtain ⟨hx1, e1⟩ := ih (applyOr c o) (ixStep c (applyOr c o) ix idx) (idx + 1) wf1
      (fun r hr => hs r (by simp [hr])) (fun r sd hr => hno r sd (by simp [hr])) hx
    have hx0 : x ∈ c.svcs := by
      unfold applyOr at hx1
      split at hx1
      · rename_i c' h
        rcases (applyOp_origin h).2.1 x hx1 with h0 | ⟨r, sd, rfl, hsd, e⟩
        · exact h0
        · exact absurd e (hno r sd (by simp) hsd)
      · exact hx1
    refine ⟨hx0, ?_⟩
    simp only [ixRun]
    rw [e1]
    apply ixAt_step_svc hx0 hx1
    · intro y hy hk
      obtain ⟨a, b, d⟩ := svcKey_eq hk
      exact wf.svcs y hy x hx0 a b d
    · intro y hy hk
      obtain ⟨a, b, d⟩ := svcKey_eq hk
      exact wf1.svcs y hy x hx1 a b d

theorem ixRun_keep_chk (ops : List Op) (c : Cat) (ix : Ix) (idx : Nat) (wf : WF c) (x : Chk)
    (hs : ∀ r, .reg r ∈ ops → ∀ sd, r.svc = some sd → sd.sid ≠ "")
    (hno : ∀ r, .reg r ∈ ops → ∀ k ∈ r.chks, ¬chkFrom r.peer k x)
    (hx : x ∈ (ops.foldl applyOr c).chks) :
    x ∈ c.chks ∧ ixAt (chkKey x) (ixRun c ix idx ops).2.1 = ixAt (chkKey x) ix := by
  induction ops generalizing c ix idx with
  | nil => exact ⟨hx, rfl⟩
  | cons o os ih =>
    simp only [List.foldl_cons] at hx
    have wf1 := wf.applyOr o (fun r e => hs r (by simp [e]))
    obtain ⟨hx1, e1⟩ := ih (applyOr c o) (ixStep c (applyOr c o) ix idx) (idx + 1) wf1
      (fun r hr => hs r (by simp [hr])) (fun r hr => hno r (by simp [hr])) hx
    have hx0 : x ∈ c.chks := by
      unfold applyOr at hx1
      split at hx1
      · rename_i c' h
        rcases (applyOp_origin h).2.2 x hx1 with h0 | ⟨r, rfl, k, hk, e⟩
        · exact h0
        · exact absurd e (hno r (by simp) k hk)
      · exact hx1
    refine ⟨hx0, ?_⟩
    simp only [ixRun]
    rw [e1]
    apply ixAt_step_chk hx0 hx1
    · intro y hy hk
      obtain ⟨a, b, d⟩ := chkKey_eq hk
      exact wf.chks y hy x hx0 a b d
    · intro y hy hk
      obtain ⟨a, b, d⟩ := chkKey_eq hk
      exact wf1.chks y hy x hx1 a b d

/-- the registrations in the log of a processed update are registrations of the snapshot -/
theorem handleUpdate_log_regs {c : Cat} {p sn : String} {is : List Inst} {st : List CSN} {snap : Snap}
    (hst : csn c p sn = .ok st) (hsnap : mkSnap is = some snap) :
    ∀ r, Op.reg r ∈ (handleUpdate c p sn is).log → Op.reg r ∈ snap.flatMap (regOpsNode p st) := by
  intro r hr
  unfold handleUpdate at hr
  simp only [hst, hsnap] at hr
  have s1 := runOps_log_sub (snap.flatMap (regOpsNode p st)) c
  split at hr
  · rename_i c1 e l1 hrr
    rw [hrr] at s1
    exact s1 _ hr
  · rename_i c1 l1 hrr
    rw [hrr] at s1
    simp only [List.mem_append] at hr
    rcases hr with (hr | hr) | hr
    · exact s1 _ hr
    · have s2 := runOps_log_sub (cleanupCmds p (cleanup p snap st)) c1
      simp only [cleanupCmds] at s2
      have := cleanupCmds_dereg p snap st _ (s2 _ hr)
      simp [Op.isDereg] at this
    · have := ((dropUnused_replay p _ _).2 _ hr).2
      simp [Op.isDereg] at this

/-! ### the skip-unchanged path -/

theorem regOps_svc_changed (p : String) (st : List CSN) (snap : Snap) (r : RegReq) (sd : SvcDef)
    (h : Op.reg r ∈ snap.flatMap (regOpsNode p st)) (hsd : r.svc = some sd) : svcUnchanged st r.node.name sd = false := by
  simp only [List.mem_flatMap] at h
  obtain ⟨nd, _, h⟩ := h
  simp only [regOpsNode, List.mem_append, List.mem_map, List.mem_filter] at h
  rcases h with (h | h) | h
  · split at h
    · cases h
    · simp only [List.mem_singleton, Op.reg.injEq] at h; subst h; cases hsd
  · obtain ⟨ss, ⟨_, hf⟩, h⟩ := h
    simp only [Op.reg.injEq] at h; subst h
    simp only [Option.some.injEq] at hsd; subst hsd
    simpa using hf
  · split at h
    · cases h
    · simp only [List.mem_singleton, Op.reg.injEq] at h; subst h; cases hsd

theorem svcUnchanged_of_stored {c : Cat} (wf : WF c) {p sn : String} {st : List CSN} (hst : csn c p sn = .ok st)
    {n : String} {sd : SvcDef} (hname : sd.name = sn) (hx : svcRow p n sd ∈ c.svcs) : svcUnchanged st n sd = true := by
  obtain ⟨y, hy, hys⟩ := (csn_ok hst).2 _ hx rfl (by simp [svcRow, hname])
  obtain ⟨_, _, _, _, _, ynn, _⟩ := (csn_ok hst).1 y hy
  unfold svcUnchanged storedInst
  cases hf : st.find? (fun x => decide (x.node.name = n ∧ x.svc.sid = sd.sid)) with
  | none =>
    have := List.find?_eq_none.mp hf y hy
    simp [ynn, hys, svcRow] at this
  | some z =>
    have hz := List.mem_of_find?_eq_some hf
    have hk := List.find?_some hf
    simp only [decide_eq_true_eq] at hk
    obtain ⟨zs, zp, _, _, _, znn, _⟩ := (csn_ok hst).1 z hz
    have : z.svc = svcRow p n sd := wf.svcs _ zs _ hx (by simp [svcRow, zp]) (by simp [svcRow, ← znn, hk.1]) (by simp [svcRow, hk.2])
    simp [sameSvcDef, this, svcRow]

end CV.Peer
