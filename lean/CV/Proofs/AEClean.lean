/-
A `SyncChanges` whose RPCs all succeed: every step it takes leaves its entry registered and in
sync (or gone), nothing reports an error, and node info stays in sync.
-/
import CV.Proofs.AEFull
namespace CV.AE
open AMap

variable {T : Prop} {Rs Rc Ps Pc : Id → Prop}

def AllOk (f : Faults) : Prop :=
  f.readSvcs = true ∧ f.readChks = true ∧ f.node = .ok ∧ (∀ id, f.svc id = .ok) ∧ (∀ k, f.chk k = .ok)

/-- the record (if still there) is registered and marked in sync -/
def Done {δ : Type} (o : Option (Ent δ)) : Prop := ∀ e, o = some e → e.deleted = false ∧ e.inSync = true

def NodeOk (cfg : Cfg) (s : St) : Prop := s.l.nodeInSync = true ∧ s.c.node = some cfg.nodeVal

/-! ### frames -/

theorem svcStep_svcs_other (cfg : Cfg) (f : Faults) (s : St) (id i : Id) (h : i ≠ id) :
    (svcStep cfg f s id).l.svcs.get? i = s.l.svcs.get? i := by
  have hdel : (deleteService f id s).l.svcs.get? i = s.l.svcs.get? i := by
    unfold deleteService
    split
    · rfl
    · cases f.svc id with
      | denied => simp only [markSvc_svcs, h, if_false]
      | fail => rfl
      | ok => simp only [get?_erase]; rw [if_neg (fun e => h e.symm)]
      | lost => rfl
  unfold svcStep
  split
  · rfl
  · exact hdel
  · exact hdel
  · rename_i d tok loc he
    unfold syncService
    simp only
    cases f.svc id with
    | denied => simp only [markChks_svcs, markSvc_svcs, h, if_false]
    | fail => rfl
    | ok => simp only; split
            · rfl
            · simp only [markChks_svcs, markSvc_svcs, h, if_false]
    | lost => simp only; split <;> rfl
  · rfl

theorem chkStep_svcs (cfg : Cfg) (f : Faults) (s : St) (k : Id) :
    (chkStep cfg f s k).l.svcs = s.l.svcs := by
  have hdel : (deleteCheck f k s).l.svcs = s.l.svcs := by
    unfold deleteCheck
    split
    · rfl
    · cases f.chk k <;> rfl
  unfold chkStep
  split
  · rfl
  · exact hdel
  · exact hdel
  · unfold syncCheck
    simp only
    cases f.chk k with
    | denied => rfl
    | fail => rfl
    | ok => simp only; split <;> rfl
    | lost => simp only; split <;> rfl
  · rfl

theorem chkStep_chks_other (cfg : Cfg) (f : Faults) (s : St) (k k' : Id) (h : k' ≠ k) :
    (chkStep cfg f s k).l.chks.get? k' = s.l.chks.get? k' := by
  have hm : (markChk s.l k).chks.get? k' = s.l.chks.get? k' := by
    unfold markChk; rw [markChks_chks]; simp [h]
  have hdel : (deleteCheck f k s).l.chks.get? k' = s.l.chks.get? k' := by
    unfold deleteCheck
    split
    · rfl
    · cases f.chk k with
      | denied => exact hm
      | fail => rfl
      | ok => simp only [get?_erase]; rw [if_neg (fun e => h e.symm)]
      | lost => rfl
  unfold chkStep
  split
  · rfl
  · exact hdel
  · exact hdel
  · unfold syncCheck
    simp only
    cases f.chk k with
    | denied => exact hm
    | fail => rfl
    | ok => simp only; split
            · rfl
            · exact hm
    | lost => simp only; split <;> rfl
  · rfl

/-! ### one clean step -/

theorem svcStep_clean (cfg : Cfg) (f : Faults) (s : St) (id : Id) (hok : f.svc id = .ok)
    (g : GInv T Rs Rc Ps Pc s.l s.c) (hn : NodeOk cfg s) :
    Done ((svcStep cfg f s id).l.svcs.get? id) ∧ (svcStep cfg f s id).ok = s.ok ∧ NodeOk cfg (svcStep cfg f s id) := by
  have hid : s.l.svcs.get? id ≠ none → id ≠ "" := by
    intro h e; rw [e] at h; exact h g.nek.1
  have hdel : s.l.svcs.get? id ≠ none →
      Done ((deleteService f id s).l.svcs.get? id) ∧ (deleteService f id s).ok = s.ok ∧ NodeOk cfg (deleteService f id s) := by
    intro hne
    unfold deleteService
    rw [if_neg (hid hne), hok]
    refine ⟨?_, rfl, hn.1, ?_⟩
    · intro e he; simp [get?_erase] at he
    · simp only [deregSvc_node]; exact hn.2
  unfold svcStep
  split
  · rename_i he; exact ⟨fun e h => (by rw [he] at h; cases h), rfl, hn⟩
  · rename_i b he; exact hdel (by rw [he]; simp)
  · rename_i d t lo b he; exact hdel (by rw [he]; simp)
  · rename_i d tok loc he
    unfold syncService
    rw [hok]
    obtain ⟨c', hc'⟩ := register_succeeds s.c
      { nodeVal := cfg.nodeVal, skipNode := s.l.nodeInSync, svc := some (id, d), chks := piggy cfg s.l id (effTok cfg tok loc) }
      (by intro p hp
          obtain ⟨t, lo, _, h2, _⟩ := piggy_mem (k := p.1) (d := p.2) hp
          exact Or.inr (Or.inl ⟨d, by rw [h2]⟩))
    simp only
    rw [hc']
    refine ⟨?_, rfl, rfl, ?_⟩
    · intro e h
      simp only at h
      rw [markChks_svcs, markSvc_svcs, if_pos rfl, he] at h
      simp only [Option.map_some, Option.some.injEq] at h
      subst h; exact ⟨rfl, rfl⟩
    · obtain ⟨_, _, _, s4⟩ := register_spec hc'
      rcases s4 with h | ⟨h, _⟩
      · exact h
      · rw [h]; exact hn.2
  · rename_i d t lo he
    exact ⟨fun e h => (by rw [he] at h; cases h; exact ⟨rfl, rfl⟩), rfl, hn⟩

theorem syncCheck_clean (cfg : Cfg) (f : Faults) (s : St) (k : Id) (d : ChkDef) (tok : String) (loc : Bool)
    (hok : f.chk k = .ok) (he : s.l.chks.get? k = some (.ent d tok loc false false))
    (g : GInv T Rs Rc Ps Pc s.l s.c) (hn : NodeOk cfg s) :
    Done ((syncCheck cfg f k d s).l.chks.get? k) ∧ (syncCheck cfg f k d s).ok = s.ok ∧ NodeOk cfg (syncCheck cfg f k d s) := by
  unfold syncCheck
  rw [hok]
  obtain ⟨c', hc'⟩ := register_succeeds s.c
    { nodeVal := cfg.nodeVal, skipNode := s.l.nodeInSync, svc := checkSvc s.l d.sid, chks := [(k, d)] }
    (by intro p hp
        simp only [List.mem_singleton] at hp; subst hp
        simp only
        by_cases hs : d.sid = ""
        · exact Or.inl hs
        · right; left
          have := g.lwf k d (by simp [liveChk, he, Ent.live?]) hs
          unfold liveSvc at this
          unfold checkSvc
          cases hsv : s.l.svcs.get? d.sid with
          | none => rw [hsv] at this; simp at this
          | some e =>
            rw [hsv] at this
            cases e with
            | ghost b => simp [Ent.live?] at this
            | ent sd t lo b del =>
              cases del with
              | true => simp [Ent.live?] at this
              | false => exact ⟨sd, rfl⟩)
  simp only
  rw [hc']
  refine ⟨?_, rfl, rfl, ?_⟩
  · intro e h
    simp only at h
    unfold markChk at h
    rw [markChks_chks, if_pos (by simp), he] at h
    simp only [Option.map_some, Option.some.injEq] at h
    subst h; exact ⟨rfl, rfl⟩
  · obtain ⟨_, _, _, s4⟩ := register_spec hc'
    rcases s4 with h | ⟨h, _⟩
    · exact h
    · rw [h]; exact hn.2

theorem chkStep_clean (cfg : Cfg) (f : Faults) (s : St) (k : Id) (hok : f.chk k = .ok)
    (g : GInv T Rs Rc Ps Pc s.l s.c) (hn : NodeOk cfg s) :
    Done ((chkStep cfg f s k).l.chks.get? k) ∧ (chkStep cfg f s k).ok = s.ok ∧ NodeOk cfg (chkStep cfg f s k) := by
  have hid : s.l.chks.get? k ≠ none → k ≠ "" := by
    intro h e; rw [e] at h; exact h g.nek.2.1
  have hdel : s.l.chks.get? k ≠ none →
      Done ((deleteCheck f k s).l.chks.get? k) ∧ (deleteCheck f k s).ok = s.ok ∧ NodeOk cfg (deleteCheck f k s) := by
    intro hne
    unfold deleteCheck
    rw [if_neg (hid hne), hok]
    refine ⟨?_, rfl, hn.1, hn.2⟩
    intro e he; simp [get?_erase] at he
  unfold chkStep
  split
  · rename_i he; exact ⟨fun e h => (by rw [he] at h; cases h), rfl, hn⟩
  · rename_i b he; exact hdel (by rw [he]; simp)
  · rename_i d t lo b he; exact hdel (by rw [he]; simp)
  · rename_i d tok loc he
    exact syncCheck_clean cfg f { s with l := s.l.disarm k } k d tok loc hok he
      (GInv_congr (l := s.l) (c := s.c) rfl rfl rfl rfl g) hn
  · rename_i d t lo he
    exact ⟨fun e h => (by rw [he] at h; cases h; exact ⟨rfl, rfl⟩), rfl, hn⟩

/-! ### clean loops -/

theorem svcFold_clean (cfg : Cfg) (f : Faults) (hok : ∀ id, f.svc id = .ok) (l0 : Local)
    (hcov : Covers f l0 Rs Rc) (ks : List Id) :
    ∀ s : St, GInv T Rs Rc Ps Pc s.l s.c → NodeOk cfg s →
      (∀ k, liveChk s.l k = liveChk l0 k) → (∀ i, liveSvc s.l i = liveSvc l0 i) →
      (∀ i, (i ∈ ks ∨ Done (s.l.svcs.get? i)) → Done ((ks.foldl (svcStep cfg f) s).l.svcs.get? i)) ∧
      (ks.foldl (svcStep cfg f) s).ok = s.ok ∧ NodeOk cfg (ks.foldl (svcStep cfg f) s) ∧
      (∀ i, (ks.foldl (svcStep cfg f) s).l.svcs.get? i ≠ none → s.l.svcs.get? i ≠ none) := by
  induction ks with
  | nil => intro s g hn _ _; exact ⟨fun i h => by simpa using h, rfl, hn, fun i h => h⟩
  | cons id ks ih =>
    intro s g hn h1 h2
    simp only [List.foldl_cons]
    obtain ⟨d1, d2, d3⟩ := svcStep_clean cfg f s id (hok id) g hn
    obtain ⟨p1, p2⟩ := svcStep_live cfg f s id
    have g' := svcStep_GInv cfg f s id (hcov.svc id)
      (fun k dk hk hsid hden => hcov.rid k dk (by rw [← h1]; exact hk) (by rw [hsid]; exact hden)) g
    obtain ⟨r1, r2, r3, r4⟩ := ih (svcStep cfg f s id) g' d3 (fun k => by rw [p2, h1]) (fun i => by rw [p1, h2])
    refine ⟨?_, by rw [r2, d2], r3, ?_⟩
    · intro i hi
      apply r1
      rcases hi with hi | hi
      · rw [List.mem_cons] at hi
        rcases hi with rfl | hi
        · exact Or.inr d1
        · exact Or.inl hi
      · by_cases e : i = id
        · subst e; exact Or.inr d1
        · right; rw [svcStep_svcs_other cfg f s id i e]; exact hi
    · intro i hi
      have := r4 i hi
      by_cases e : i = id
      · subst e
        intro hnone
        apply this
        unfold svcStep; simp only [hnone]
      · rw [svcStep_svcs_other cfg f s id i e] at this; exact this

theorem chkFold_clean (cfg : Cfg) (f : Faults) (hok : ∀ k, f.chk k = .ok) (l0 : Local)
    (hcov : Covers f l0 Rs Rc) (ks : List Id) :
    ∀ s : St, GInv T Rs Rc Ps Pc s.l s.c → NodeOk cfg s →
      (∀ k, liveChk s.l k = liveChk l0 k) → (∀ i, liveSvc s.l i = liveSvc l0 i) →
      (∀ k, (k ∈ ks ∨ Done (s.l.chks.get? k)) → Done ((ks.foldl (chkStep cfg f) s).l.chks.get? k)) ∧
      (ks.foldl (chkStep cfg f) s).ok = s.ok ∧ NodeOk cfg (ks.foldl (chkStep cfg f) s) ∧
      (∀ k, (ks.foldl (chkStep cfg f) s).l.chks.get? k ≠ none → s.l.chks.get? k ≠ none) ∧
      (ks.foldl (chkStep cfg f) s).l.svcs = s.l.svcs := by
  induction ks with
  | nil => intro s g hn _ _; exact ⟨fun i h => by simpa using h, rfl, hn, fun i h => h, rfl⟩
  | cons k ks ih =>
    intro s g hn h1 h2
    simp only [List.foldl_cons]
    obtain ⟨d1, d2, d3⟩ := chkStep_clean cfg f s k (hok k) g hn
    obtain ⟨p1, p2⟩ := chkStep_live cfg f s k
    have g' := chkStep_GInv cfg f s k (hcov.chk k) g
    obtain ⟨r1, r2, r3, r4, r5⟩ := ih (chkStep cfg f s k) g' d3 (fun k' => by rw [p2, h1]) (fun i => by rw [p1, h2])
    refine ⟨?_, by rw [r2, d2], r3, ?_, by rw [r5, chkStep_svcs]⟩
    · intro i hi
      apply r1
      rcases hi with hi | hi
      · rw [List.mem_cons] at hi
        rcases hi with rfl | hi
        · exact Or.inr d1
        · exact Or.inl hi
      · by_cases e : i = k
        · subst e; exact Or.inr d1
        · right; rw [chkStep_chks_other cfg f s k i e]; exact hi
    · intro i hi
      have := r4 i hi
      by_cases e : i = k
      · subst e
        intro hnone
        apply this
        unfold chkStep; simp only [hnone]
      · rw [chkStep_chks_other cfg f s k i e] at this; exact this

theorem mem_visit (ord keys : List Id) (k : Id) (h : k ∈ keys) : k ∈ visit ord keys := by
  unfold visit
  rw [List.mem_append]
  by_cases ho : k ∈ ord
  · exact Or.inl ho
  · right; rw [List.mem_filter]; exact ⟨h, by simpa using ho⟩

/-- both loops, all RPCs succeeding: everything left is registered and in sync -/
theorem syncRest_clean (cfg : Cfg) (ord : Order) (f : Faults) (hs : ∀ id, f.svc id = .ok) (hc : ∀ k, f.chk k = .ok)
    (s : St) (g : GInv T Rs Rc Ps Pc s.l s.c) (hn : NodeOk cfg s) (hcov : Covers f s.l Rs Rc) :
    (∀ i, Done ((syncRest cfg ord f s).l.svcs.get? i)) ∧ (∀ k, Done ((syncRest cfg ord f s).l.chks.get? k)) ∧
    (syncRest cfg ord f s).ok = s.ok ∧ NodeOk cfg (syncRest cfg ord f s) := by
  unfold syncRest
  obtain ⟨a1, a2, a3, a4⟩ := svcFold_clean (Ps := Ps) (Pc := Pc) cfg f hs s.l hcov (visit ord.svcs s.l.svcs.keys) s g hn (fun _ => rfl) (fun _ => rfl)
  obtain ⟨g2, b1, b2⟩ := svcFold_GInv (Ps := Ps) (Pc := Pc) cfg f s.l hcov (visit ord.svcs s.l.svcs.keys) s g (fun _ => rfl) (fun _ => rfl)
  have hsvcDone : ∀ i, Done ((svcLoop cfg ord f s).l.svcs.get? i) := by
    intro i
    unfold svcLoop
    by_cases hi : (List.foldl (svcStep cfg f) s (visit ord.svcs s.l.svcs.keys)).l.svcs.get? i = none
    · intro e he; rw [hi] at he; cases he
    · exact a1 i (Or.inl (mem_visit _ _ _ (mem_keys_of_get? _ _ (a4 i hi))))
  unfold chkLoop
  obtain ⟨c1, c2, c3, c4, c5⟩ := chkFold_clean (Ps := Ps) (Pc := Pc) cfg f hc s.l hcov
    (visit ord.chks (svcLoop cfg ord f s).l.chks.keys) (svcLoop cfg ord f s) g2 a3 b1 b2
  refine ⟨?_, ?_, by rw [c2]; exact a2, c3⟩
  · intro i; rw [c5]; exact hsvcDone i
  · intro k
    by_cases hk : (List.foldl (chkStep cfg f) (svcLoop cfg ord f s) (visit ord.chks (svcLoop cfg ord f s).l.chks.keys)).l.chks.get? k = none
    · intro e he; rw [hk] at he; cases he
    · exact c1 k (Or.inl (mem_visit _ _ _ (mem_keys_of_get? _ _ (c4 k hk))))

end CV.AE
