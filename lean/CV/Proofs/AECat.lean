/-
Server side of CV.AE: what `Cat.register` / `Cat.deregSvc` / `Cat.deregChk` do, through lookups.
-/
import CV.Proofs.AEMap
namespace CV.AE
open AMap

theorem regChecks_frame (cs : List (Id × ChkDef)) : ∀ (c c' : Cat), Cat.regChecks c cs = some c' →
    c'.svcs = c.svcs ∧ c'.node = c.node := by
  induction cs with
  | nil => intro c c' h; simp [Cat.regChecks] at h; subst h; exact ⟨rfl, rfl⟩
  | cons p cs ih =>
    intro c c' h
    obtain ⟨k, d⟩ := p
    simp only [Cat.regChecks] at h
    split at h
    · obtain ⟨h1, h2⟩ := ih _ _ h; exact ⟨h1, h2⟩
    · split at h
      · cases h
      · obtain ⟨h1, h2⟩ := ih _ _ h; exact ⟨h1, h2⟩

theorem regChecks_succeeds (cs : List (Id × ChkDef)) : ∀ (c : Cat),
    (∀ p ∈ cs, p.2.sid = "" ∨ c.svcs.get? p.2.sid ≠ none) → ∃ c', Cat.regChecks c cs = some c' := by
  induction cs with
  | nil => intro c _; exact ⟨c, rfl⟩
  | cons p cs ih =>
    intro c h
    obtain ⟨k, d⟩ := p
    simp only [Cat.regChecks]
    have hd := h (k, d) (by simp)
    have hrest : ∀ p ∈ cs, p.2.sid = "" ∨ c.svcs.get? p.2.sid ≠ none := fun p hp => h p (by simp [hp])
    split
    · exact ih _ hrest
    · rename_i hne
      rcases hd with hd | hd
      · exact absurd hd hne
      · cases hs : c.svcs.get? d.sid with
        | none => exact absurd hs hd
        | some s => simp only; exact ih _ hrest

theorem regChecks_fails (cs : List (Id × ChkDef)) : ∀ (c : Cat),
    Cat.regChecks c cs = none → ∃ p ∈ cs, p.2.sid ≠ "" ∧ c.svcs.get? p.2.sid = none := by
  intro c h
  apply Classical.byContradiction
  intro hn
  have : ∀ p ∈ cs, p.2.sid = "" ∨ c.svcs.get? p.2.sid ≠ none := by
    intro p hp
    by_cases h1 : p.2.sid = ""
    · exact Or.inl h1
    · right; intro h2; exact hn ⟨p, hp, h1, h2⟩
  obtain ⟨c', hc'⟩ := regChecks_succeeds cs c this
  rw [h] at hc'; cases hc'

theorem regChecks_get?_other (cs : List (Id × ChkDef)) (k : Id) : ∀ (c c' : Cat),
    Cat.regChecks c cs = some c' → (∀ d, (k, d) ∉ cs) → c'.chks.get? k = c.chks.get? k := by
  induction cs with
  | nil => intro c c' h _; simp [Cat.regChecks] at h; subst h; rfl
  | cons p cs ih =>
    intro c c' h hk
    obtain ⟨k0, d0⟩ := p
    have hne : k0 ≠ k := by intro e; subst e; exact hk d0 (by simp)
    have hk' : ∀ d, (k, d) ∉ cs := fun d hd => hk d (by simp [hd])
    simp only [Cat.regChecks] at h
    split at h
    · rw [ih _ _ h hk']; simp [get?_set, hne]
    · split at h
      · cases h
      · rw [ih _ _ h hk']; simp [get?_set, hne]

/-- a key that the request mentions ends up holding (the server-side copy of) one of the
    definitions the request carries for it -/
theorem regChecks_get?_mem (cs : List (Id × ChkDef)) (k : Id) : ∀ (c c' : Cat),
    Cat.regChecks c cs = some c' → (∃ d, (k, d) ∈ cs) →
    ∃ d rc, (k, d) ∈ cs ∧ c'.chks.get? k = some rc ∧ rc.core = d.core ∧
      (d.sid ≠ "" → c.svcs.get? d.sid ≠ none) := by
  induction cs with
  | nil => intro c c' _ ⟨d, hd⟩; simp at hd
  | cons p cs ih =>
    intro c c' h hk
    obtain ⟨k0, d0⟩ := p
    by_cases hlater : ∃ d, (k, d) ∈ cs
    · -- a later entry decides
      simp only [Cat.regChecks] at h
      split at h
      · obtain ⟨d, rc, hm, hg, hc, hs⟩ := ih _ _ h hlater
        exact ⟨d, rc, by simp [hm], hg, hc, hs⟩
      · split at h
        · cases h
        · obtain ⟨d, rc, hm, hg, hc, hs⟩ := ih _ _ h hlater
          exact ⟨d, rc, by simp [hm], hg, hc, hs⟩
    · have hk0 : k0 = k := by
        obtain ⟨d, hd⟩ := hk
        simp only [List.mem_cons, Prod.mk.injEq] at hd
        rcases hd with ⟨e, _⟩ | hd
        · exact e.symm
        · exact absurd ⟨d, hd⟩ hlater
      subst hk0
      have hno : ∀ d, (k0, d) ∉ cs := fun d hd => hlater ⟨d, hd⟩
      simp only [Cat.regChecks] at h
      split at h
      · rename_i he
        refine ⟨d0, d0, by simp, ?_, rfl, fun hne => absurd he hne⟩
        rw [regChecks_get?_other cs k0 _ _ h hno]; simp [get?_set]
      · split at h
        · cases h
        · rename_i s hs
          refine ⟨d0, { d0 with sname := s.name, stags := s.tags }, by simp, ?_, rfl, fun _ => by simp [hs]⟩
          rw [regChecks_get?_other cs k0 _ _ h hno]; simp [get?_set]

theorem regNode_frame (c : Cat) (v : Nat) (skip : Bool) :
    (c.regNode v skip).svcs = c.svcs ∧ (c.regNode v skip).chks = c.chks := by
  unfold Cat.regNode; split
  · exact ⟨rfl, rfl⟩
  · split <;> exact ⟨rfl, rfl⟩

/-- a node write either stores the new value or keeps the stored one -/
theorem nodeWrite_cases (old : Option Nat) (v : Nat) :
    nodeWrite old v = some v ∨ (nodeWrite old v = old ∧ old ≠ none) := by
  unfold nodeWrite
  cases old with
  | none => exact Or.inl rfl
  | some w => simp only; split <;> simp

theorem nodeWrite_same (v : Nat) : nodeWrite (some v) v = some v := by simp [nodeWrite]

theorem regNode_node (c : Cat) (v : Nat) (skip : Bool) :
    (c.regNode v skip).node = some v ∨ ((c.regNode v skip).node = c.node ∧ c.node ≠ none) := by
  unfold Cat.regNode; split
  · exact Or.inl rfl
  · rename_i x hx; split
    · right; simp_all
    · simp only; exact nodeWrite_cases c.node v

theorem regNode_of_some (c : Cat) (v : Nat) (skip : Bool) (h : c.node = some v) : (c.regNode v skip).node = some v := by
  unfold Cat.regNode; rw [h]; simp only; split
  · exact h
  · exact nodeWrite_same v

theorem deregSvc_svcs (c : Cat) (id i : Id) :
    (c.deregSvc id).svcs.get? i = if id = i then none else c.svcs.get? i := by
  unfold Cat.deregSvc
  cases h : c.svcs.get? id with
  | none => simp only; split
            · subst_vars; exact h
            · rfl
  | some s => simp only [get?_erase]

theorem deregSvc_chks (c : Cat) (id k : Id) :
    (c.deregSvc id).chks.get? k =
      match c.svcs.get? id with
      | none => c.chks.get? k
      | some _ => match c.chks.get? k with
        | some rc => if rc.sid = id then none else some rc
        | none => none := by
  unfold Cat.deregSvc
  cases h : c.svcs.get? id with
  | none => rfl
  | some s =>
    simp only [get?_filterVis]
    cases c.chks.get? k <;> simp

theorem deregSvc_node (c : Cat) (id : Id) : (c.deregSvc id).node = c.node := by
  unfold Cat.deregSvc; split <;> rfl

end CV.AE
