/-
Helper lemmas for C17 (CV.Peer): frame lemmas of the catalog transactions, the command runner,
and the peer-isolation invariant.
-/
import CV.PeerSpec
set_option linter.unusedSectionVars false
namespace CV.Peer

/-! ### generic list facts -/

theorem filter_sub {α : Type} (f g : α → Bool) (l : List α) (h : ∀ x, f x = true → g x = true) :
    (l.filter g).filter f = l.filter f := by
  induction l with
  | nil => rfl
  | cons a t ih =>
    simp only [List.filter_cons]
    by_cases hg : g a = true
    · simp [hg, List.filter_cons, ih]
    · have hf : f a = false := by
        cases hfa : f a with
        | false => rfl
        | true => exact absurd (h a hfa) hg
      simp [hg, hf, ih]

/-! ### key predicates as propositions -/

@[simp] theorem nodeAt_iff {p n : String} {x : Node} : nodeAt p n x = true ↔ x.peer = p ∧ x.name = n := by
  simp [nodeAt]
@[simp] theorem svcAt_iff {p n i : String} {x : Svc} : svcAt p n i x = true ↔ x.peer = p ∧ x.node = n ∧ x.sid = i := by
  simp [svcAt]
@[simp] theorem svcOn_iff {p n : String} {x : Svc} : svcOn p n x = true ↔ x.peer = p ∧ x.node = n := by
  simp [svcOn]
@[simp] theorem chkAt_iff {p n k : String} {x : Chk} : chkAt p n k x = true ↔ x.peer = p ∧ x.node = n ∧ x.cid = k := by
  simp [chkAt]
@[simp] theorem chkOn_iff {p n : String} {x : Chk} : chkOn p n x = true ↔ x.peer = p ∧ x.node = n := by
  simp [chkOn]
@[simp] theorem chkOfSvc_iff {p n i : String} {x : Chk} : chkOfSvc p n i x = true ↔ x.peer = p ∧ x.node = n ∧ x.sid = i := by
  simp [chkOfSvc]
@[simp] theorem chkOfNode_iff {p n : String} {x : Chk} : chkOfNode p n x = true ↔ x.peer = p ∧ x.node = n ∧ x.sid = "" := by
  simp [chkOfNode]

theorem filter_other {α : Type} (pe : α → String) (p : String) (g : α → Bool) (l : List α)
    (h : ∀ x, pe x ≠ p → g x = true) :
    (l.filter g).filter (fun x => decide (pe x ≠ p)) = l.filter (fun x => decide (pe x ≠ p)) := by
  apply filter_sub
  intro x hx
  exact h x (by simpa using hx)

theorem filter_other_put {α : Type} (pe : α → String) (p : String) (g : α → Bool) (l : List α) (a : α)
    (ha : pe a = p) (h : ∀ x, pe x ≠ p → g x = true) :
    (l.filter g ++ [a]).filter (fun x => decide (pe x ≠ p)) = l.filter (fun x => decide (pe x ≠ p)) := by
  rw [List.filter_append, filter_other pe p g l h]
  simp [ha]

theorem others_delChk (c : Cat) (p n k : String) : others p (delChk c p n k) = others p c := by
  simp only [others, delChk]
  congr 1
  exact filter_other Chk.peer p _ _ (by intro x hx; simp [chkAt, hx])

theorem others_delSvc (c : Cat) (p n i : String) : others p (delSvc c p n i) = others p c := by
  unfold delSvc
  split
  · simp only [others]
    congr 1
    · exact filter_other Svc.peer p _ _ (by intro x hx; simp [svcAt, hx])
    · exact filter_other Chk.peer p _ _ (by intro x hx; simp [chkOfSvc, hx])
  · rfl

theorem others_delNode (c : Cat) (p n : String) : others p (delNode c p n) = others p c := by
  unfold delNode
  split
  · simp only [others]
    congr 1
    · exact filter_other Node.peer p _ _ (by intro x hx; simp [nodeAt, hx])
    · exact filter_other Svc.peer p _ _ (by intro x hx; simp [svcOn, hx])
    · exact filter_other Chk.peer p _ _ (by intro x hx; simp [chkOn, hx])
  · rfl

theorem others_putNode (c : Cat) (nd : Node) : others nd.peer (putNode c nd) = others nd.peer c := by
  simp only [others, putNode]
  congr 1
  exact filter_other_put Node.peer nd.peer _ _ nd rfl (by intro x hx; simp [nodeAt, hx])

theorem others_putSvc (c : Cat) (s : Svc) : others s.peer (putSvc c s) = others s.peer c := by
  simp only [others, putSvc]
  congr 1
  exact filter_other_put Svc.peer s.peer _ _ s rfl (by intro x hx; simp [svcAt, hx])

theorem others_putChk (c : Cat) (k : Chk) : others k.peer (putChk c k) = others k.peer c := by
  simp only [others, putChk]
  congr 1
  exact filter_other_put Chk.peer k.peer _ _ k rfl (by intro x hx; simp [chkAt, hx])

theorem others_finishNode (c : Cat) (nd : Node) (f : Option Node) :
    others nd.peer (finishNode c nd f) = others nd.peer c := by
  unfold finishNode
  split
  · split
    · rfl
    · exact others_putNode c nd
  · exact others_putNode c nd

theorem others_ensureNode (c c' : Cat) (nd : Node) (h : ensureNode c nd = .ok c') :
    others nd.peer c' = others nd.peer c := by
  unfold ensureNode at h
  split at h
  · cases h; exact others_finishNode _ _ _
  · split at h
    · rename_i n hn
      have hp : n.peer = nd.peer := by
        have := List.find?_some hn; simp at this; exact this.1
      split at h
      · cases h; exact others_finishNode _ _ _
      · split at h
        · cases h
        · cases h
          rw [others_finishNode, hp, others_delNode]
    · split at h
      · cases h
      · cases h; exact others_finishNode _ _ _

theorem others_regNode (c c' : Cat) (nd : Node) (h : regNode c nd = .ok c') :
    others nd.peer c' = others nd.peer c := by
  unfold regNode at h
  split at h
  · split at h
    · exact others_ensureNode _ _ _ h
    · cases h; rfl
  · exact others_ensureNode _ _ _ h

theorem others_regSvc (c c' : Cat) (p n : String) (s : SvcDef) (h : regSvc c p n s = .ok c') :
    others p c' = others p c := by
  unfold regSvc at h
  split at h
  · cases h; rfl
  · split at h
    · cases h; exact others_putSvc c ⟨p, n, s.sid, s.name, s.port⟩
    · cases h

theorem others_upsertChk (c : Cat) (row : Chk) : others row.peer (upsertChk c row) = others row.peer c := by
  unfold upsertChk
  split
  · split
    · rfl
    · exact others_putChk c row
  · exact others_putChk c row

theorem others_regChk (c c' : Cat) (p rn : String) (k : ChkDef) (h : regChk c p rn k = .ok c') :
    others p c' = others p c := by
  unfold regChk at h
  split at h
  · cases h
  · split at h
    · cases h
    · split at h
      · cases h; exact others_upsertChk c ⟨p, k.node, k.cid, k.sid, k.sname, normStatus k.status⟩
      · split at h
        · rename_i s _
          cases h; exact others_upsertChk c ⟨p, k.node, k.cid, k.sid, s.name, normStatus k.status⟩
        · cases h

theorem others_regChks (ks : List ChkDef) (c c' : Cat) (p rn : String) (h : regChks c p rn ks = .ok c') :
    others p c' = others p c := by
  induction ks generalizing c with
  | nil => simp [regChks] at h; cases h; rfl
  | cons k ks ih =>
    simp only [regChks] at h
    split at h
    · rename_i c1 h1
      rw [ih c1 h, others_regChk c c1 p rn k h1]
    · cases h

theorem others_register (c c' : Cat) (r : RegReq) (h : register c r = .ok c') :
    others r.peer c' = others r.peer c := by
  unfold register at h
  split at h
  · cases h
  · rename_i c1 h1
    have e1 := others_regNode c c1 ⟨r.peer, r.node.name, r.node.id, r.node.addr⟩ h1
    simp only at e1
    split at h
    · cases h
    · rename_i c2 h2
      have e2 : others r.peer c2 = others r.peer c1 := by
        split at h2
        · exact others_regSvc _ _ _ _ _ h2
        · cases h2; rfl
      rw [others_regChks _ _ _ _ _ h, e2, e1]

theorem others_applyOp (c c' : Cat) (o : Op) (h : applyOp c o = .ok c') :
    others o.peer c' = others o.peer c := by
  cases o with
  | reg r => exact others_register c c' r h
  | deregSvc p n i => simp [applyOp] at h; subst h; exact others_delSvc c p n i
  | deregChk p n k => simp [applyOp] at h; subst h; exact others_delChk c p n k
  | deregNode p n => simp [applyOp] at h; subst h; exact others_delNode c p n

theorem others_runOps (p : String) (ops : List Op) (c : Cat) (h : ∀ o ∈ ops, o.peer = p) :
    others p (runOps c ops).1 = others p c := by
  induction ops generalizing c with
  | nil => rfl
  | cons o os ih =>
    simp only [runOps]
    split
    · rfl
    · rename_i c1 h1
      have hp : o.peer = p := h o (by simp)
      have := others_applyOp c c1 o h1
      rw [hp] at this
      simp only
      rw [ih c1 (fun o' ho' => h o' (by simp [ho'])), this]

/-! ### every command the importer sends carries the peer of the stream -/

theorem regOpsNode_peer (p : String) (st : List CSN) (sn : SNode) : ∀ o ∈ regOpsNode p st sn, o.peer = p := by
  intro o ho
  simp only [regOpsNode, List.mem_append, List.mem_map, List.mem_filter] at ho
  rcases ho with (ho | ho) | ho
  · split at ho
    · cases ho
    · simp at ho; subst ho; rfl
  · obtain ⟨ss, _, rfl⟩ := ho; rfl
  · split at ho
    · cases ho
    · simp at ho; subst ho; rfl

theorem cleanupChecks_ops (p : String) (ss : SSvc) (ks : List Chk) (acc : Cleanup)
    (h : ∀ o ∈ acc.ops, o.peer = p) : ∀ o ∈ (cleanupChecks p ss ks acc).ops, o.peer = p := by
  induction ks generalizing acc with
  | nil => simpa [cleanupChecks] using h
  | cons k ks ih =>
    simp only [cleanupChecks]
    split
    · exact ih acc h
    · split
      · exact ih _ (by simpa using h)
      · apply ih
        intro o ho
        simp only [List.mem_append, List.mem_singleton] at ho
        rcases ho with ho | ho
        · exact h o ho
        · subst ho; rfl

theorem cleanupOne_ops (p : String) (snap : Snap) (x : CSN) (acc : Cleanup)
    (h : ∀ o ∈ acc.ops, o.peer = p) : ∀ o ∈ (cleanupOne p snap x acc).ops, o.peer = p := by
  unfold cleanupOne
  split
  · intro o ho
    simp only [List.mem_append, List.mem_singleton] at ho
    rcases ho with ho | ho
    · exact h o ho
    · subst ho; rfl
  · split
    · intro o ho
      simp only [List.mem_append, List.mem_singleton] at ho
      rcases ho with ho | ho
      · exact h o ho
      · subst ho; rfl
    · exact cleanupChecks_ops p _ _ acc h

theorem cleanup_fold_ops (p : String) (snap : Snap) (st : List CSN) (acc : Cleanup)
    (h : ∀ o ∈ acc.ops, o.peer = p) :
    ∀ o ∈ (st.foldl (fun acc x => cleanupOne p snap x acc) acc).ops, o.peer = p := by
  induction st generalizing acc with
  | nil => simpa using h
  | cons x xs ih => simp only [List.foldl_cons]; exact ih _ (cleanupOne_ops p snap x acc h)

theorem cleanup_ops (p : String) (snap : Snap) (st : List CSN) : ∀ o ∈ (cleanup p snap st).ops, o.peer = p :=
  cleanup_fold_ops p snap st {} (by intro o ho; cases ho)

theorem others_dropUnused (p : String) (ns : List String) (c : Cat) :
    others p (dropUnused p c ns).1 = others p c := by
  induction ns generalizing c with
  | nil => rfl
  | cons n ns ih =>
    simp only [dropUnused]
    split
    · exact ih c
    · simp only
      rw [ih (delNode c p n), others_delNode]

theorem others_handleUpdate (c : Cat) (p sn : String) (insts : List Inst) :
    others p (handleUpdate c p sn insts).cat = others p c := by
  unfold handleUpdate
  split
  · rfl
  · rename_i st _
    split
    · rfl
    · rename_i snap _
      have h1 : ∀ o ∈ snap.flatMap (regOpsNode p st), o.peer = p := by
        intro o ho
        simp only [List.mem_flatMap] at ho
        obtain ⟨sn, _, ho⟩ := ho
        exact regOpsNode_peer p st sn o ho
      have e1 := others_runOps p _ c h1
      split
      · rename_i c1 e l1 hr
        rw [hr] at e1; exact e1
      · rename_i c1 l1 hr
        rw [hr] at e1
        simp only at e1
        have h2 : ∀ o ∈ (cleanup p snap st).ops ++ (cleanup p snap st).nchks.map (fun (nk : String × String) => Op.deregChk p nk.1 nk.2), o.peer = p := by
          intro o ho
          simp only [List.mem_append, List.mem_map] at ho
          rcases ho with ho | ⟨nk, _, rfl⟩
          · exact cleanup_ops p snap st o ho
          · rfl
        have e2 := others_runOps p _ c1 h2
        simp only
        rw [others_dropUnused, e2, e1]

theorem others_pruneAll (p : String) (keep : List String) (names : List String) (r : Res) :
    others p (pruneAll p keep names r).cat = others p r.cat := by
  induction names generalizing r with
  | nil => rfl
  | cons sn rest ih =>
    simp only [pruneAll]
    split
    · rfl
    · split
      · exact ih r
      · rw [ih]; exact others_handleUpdate r.cat p sn []

theorem others_handleList (c : Cat) (p : String) (names : List String) :
    others p (handleList c p names).cat = others p c := by
  unfold handleList
  exact others_pruneAll p _ _ _

end CV.Peer
