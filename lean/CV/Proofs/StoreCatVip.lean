/-
Virtual IPs of the C07 wrapper: the three tables (`vips`, the single free slot, the counter) are written by
`assignVip` and `freeVip` only. `VipClosed P` — a predicate that looks at those tables only and is
preserved by the two functions — is preserved by every command; `VipWF` (no address assigned twice, the
free address is not assigned, nothing beyond the counter) is such a predicate.
-/
import CV.Proofs.StoreCatX
namespace CV.Store
open CV

/-- the tables no catalog function except `assignVip` / `freeVip` (virtual IPs) and the commit hook (usage) writes -/
def vipView (s : XState) : List VipRow × Option Nat × Option Nat × List UsageRow × List CfgRow :=
  (s.vips, s.freeIP, s.counter, s.usage, s.cfg)

/-- the two commands that write the config-entry table -/
def XCmd.isConfig : XCmd → Bool
  | .configSet .. => true
  | .configDelete .. => true
  | _ => false

structure VipClosed (P : XState → Prop) : Prop where
  view : ∀ s s' : XState, vipView s' = vipView s → P s → P s'
  assign : ∀ (s s' : XState) (idx ip : Nat) (p n : String), assignVip s idx p n = .ok (s', ip) → P s → P s'
  free : ∀ (s : XState) (p n : String), P s → P (freeVip s p n)

variable {P : XState → Prop}

@[simp] theorem vipView_setCat (s : XState) (p : String) (c : Cat) : vipView (s.setCat p c) = vipView s := by
  unfold vipView; simp

theorem vc_ensureServiceX (hP : VipClosed P) {s s' : XState} {p node : String} {idx : Nat} {q : SvcReq}
    (h : ensureServiceX s p idx node q = .ok s') (hs : P s) : P s' := by
  unfold ensureServiceX at h
  extract_lets c s1 sn s2 r2 v at h
  have hs1 : P s1 := by
    unfold s1; split
    · exact hP.view s _ rfl hs
    · exact hs
  have hs2 : P s2 := by
    unfold s2; split
    · exact hP.view s1 _ rfl hs1
    · exact hs1
  have hr2 : ∀ s3 vip, r2 = Except.ok (s3, vip) → P s3 := by
    intro s3 vip hr
    unfold r2 at hr
    split at hr
    · split at hr
      · split at hr
        · next s3' ip ha => simp at hr; obtain ⟨rfl, -⟩ := hr; exact hP.assign _ _ _ _ _ _ ha hs2
        · simp at hr
      · simp at hr; obtain ⟨rfl, -⟩ := hr; exact hs2
    · simp at hr; obtain ⟨rfl, -⟩ := hr; exact hs1
  clear_value r2
  split at h
  · simp at h
  · next _ s3 vip =>
    have h3 := hr2 s3 vip rfl
    split at h
    · simp at h
    · dsimp only at h
      split at h
      · split at h
        · simp at h; subst h; exact h3
        · simp at h; subst h; rw [putSvc_eq]; exact hP.view s3 _ (vipView_setCat _ _ _) h3
      · simp at h
      · simp at h; subst h; rw [putSvc_eq]; exact hP.view s3 _ (vipView_setCat _ _ _) h3

theorem vc_afterServiceDelete (hP : VipClosed P) (s : XState) (p : String) (v : Svc) (e : SvcX) (hs : P s) :
    P (afterServiceDelete s p v e) := by
  unfold afterServiceDelete
  extract_lets s0 s1 sn
  have h0 : P s0 := hP.free s p v.name hs
  have h1 : P s1 := by
    unfold s1
    split
    · exact hP.view s _ rfl hs
    · split
      · exact hP.view s0 _ rfl h0
      · exact h0
  split
  · split
    · exact h1
    · exact hP.view s1 _ rfl h1
  · exact h1

theorem vc_deleteServiceX (hP : VipClosed P) {s s' : XState} {p node id : String} {idx : Nat}
    (h : deleteServiceX s p idx node id = .ok s') (hs : P s) : P s' := by
  unfold deleteServiceX at h
  extract_lets c at h
  split at h
  · simp at h; exact h ▸ hs
  · simp at h
  · next v e _ _ =>
    split at h
    · simp at h
    · simp at h; subst h
      exact vc_afterServiceDelete hP _ p v e (hP.view s _ (vipView_setCat _ _ _) hs)

theorem foldX_ind {β : Type} (Q : XState → Prop) (f : XState → β → Except XErr XState)
    (hf : ∀ st b st', Q st → f st b = .ok st' → Q st') :
    ∀ (l : List β) (s s' : XState), Q s → foldX f l s = .ok s' → Q s' := by
  intro l
  induction l with
  | nil => intro s s' hs h; simp [foldX] at h; exact h ▸ hs
  | cons b bs ih =>
    intro s s' hs h
    simp only [foldX] at h
    split at h
    · next st' heq => exact ih st' s' (hf s b st' hs heq) h
    · simp at h

theorem vc_deleteNodeX (hP : VipClosed P) {s s' : XState} {p name : String} {idx : Nat}
    (h : deleteNodeX s p idx name = .ok s') (hs : P s) : P s' := by
  unfold deleteNodeX at h
  extract_lets c svcs st1 at h
  split at h
  · simp at h; exact h ▸ hs
  · split at h
    · simp at h
    · next s2 hf2 =>
      have h2 : P s2 := foldX_ind P _ (fun st b st' hst hb => vc_deleteServiceX hP hb hst) _ _ _
        (hP.view s _ (vipView_setCat _ _ _) hs) hf2
      extract_lets c2 cs s3 at h
      have h3 : P s3 := by
        unfold s3; split
        · exact hP.view s2 _ rfl h2
        · exact h2
      split at h
      · simp at h
      · extract_lets st5 ids at h
        split at h
        · simp at h
        · simp at h; subst h
          exact hP.view s3 _ (vipView_setCat _ _ _) h3

theorem vc_ensureNodeX (hP : VipClosed P) {s s' : XState} {p : String} {idx : Nat} {node : Node}
    (h : ensureNodeX s p idx node = .ok s') (hs : P s) : P s' := by
  rw [ensureNodeX_eq] at h
  split at h
  · simp at h
  · next s1 byId hb =>
    simp at h; subst h
    have h1 : P s1 := by
      unfold ensureNodeByIdX at hb
      simp only at hb
      repeat' (split at hb)
      all_goals (try simp at hb)
      all_goals (obtain ⟨rfl, -⟩ := hb)
      all_goals (first | exact hs | (next hd => exact vc_deleteNodeX hP hd hs))
    unfold ensureNodeFinishX
    simp only
    split
    · split
      · exact h1
      · exact hP.view s1 _ (vipView_setCat _ _ _) h1
    · exact hP.view s1 _ (vipView_setCat _ _ _) h1

theorem vc_onSt (hP : VipClosed P) {s s' : XState} {p : String} {f : State → Except Err State}
    (h : s.onSt p f = .ok s') (hs : P s) : P s' := by
  unfold XState.onSt at h
  simp only at h
  split at h
  · simp at h; subst h; exact hP.view s _ (vipView_setCat _ _ _) hs
  · simp at h

theorem vc_registerX (hP : VipClosed P) {s s' : XState} {idx : Nat} {r : XRegReq}
    (h : registerX s idx r = .ok s') (hs : P s) : P s' := by
  unfold registerX at h
  extract_lets p r1 at h
  have h1 : ∀ s1, r1 = Except.ok s1 → P s1 := by
    intro s1 hr
    unfold r1 at hr
    split at hr
    · split at hr
      · simp at hr; exact hr ▸ hs
      · exact vc_ensureNodeX hP hr hs
    · exact vc_ensureNodeX hP hr hs
  clear_value r1
  split at h
  · simp at h
  · next _ s1 =>
    have hs1 := h1 s1 rfl
    extract_lets c1 r2 at h
    have h2 : ∀ s2, r2 = Except.ok s2 → P s2 := by
      intro s2 hr
      unfold r2 at hr
      split at hr
      · simp at hr; exact hr ▸ hs1
      · split at hr
        · split at hr
          · simp at hr; exact hr ▸ hs1
          · exact vc_ensureServiceX hP hr hs1
        · simp at hr
        · exact vc_ensureServiceX hP hr hs1
    clear_value r2
    split at h
    · simp at h
    · next _ s2 => exact vc_onSt hP h (h2 s2 rfl)

theorem vc_deregisterX (hP : VipClosed P) {s s' : XState} {idx : Nat} {p node svcId chkId : String}
    (h : deregisterX s idx p node svcId chkId = .ok s') (hs : P s) : P s' := by
  unfold deregisterX at h
  split at h
  · exact vc_deleteServiceX hP h hs
  · split at h
    · exact vc_onSt hP h hs
    · exact vc_deleteNodeX hP h hs

theorem vc_coordUpdate (hP : VipClosed P) (s : XState) (us : List CoordRow) (hs : P s) : P (coordUpdate s us) := by
  unfold coordUpdate
  induction us generalizing s with
  | nil => exact hs
  | cons u rest ih =>
    simp only [List.foldl_cons]
    apply ih
    split
    · exact hP.view s _ rfl hs
    · exact hs

theorem vc_sysMetaSet (hP : VipClosed P) (s : XState) (k : String) (v : Option String) (hs : P s) : P (sysMetaSet s k v) := by
  unfold sysMetaSet
  cases v <;> exact hP.view s _ rfl hs

theorem vc_configUpsert (hP : VipClosed P) (hcfg : ∀ (s : XState) (cfg' : List CfgRow), P s → P { s with cfg := cfg' })
    {s s' : XState} {idx : Nat} {kind name tok : String} {dest : Bool}
    (h : configUpsert s idx kind name dest tok = .ok s') (hs : P s) : P s' := by
  unfold configUpsert at h
  extract_lets s1 r2 at h
  have h1 : P s1 := by
    unfold s1; split
    · exact hP.view s _ rfl hs
    · exact hs
  have h2 : ∀ s2, r2 = Except.ok s2 → P s2 := by
    intro s2 hr
    unfold r2 at hr
    split at hr
    · split at hr
      · next s2' ip ha => simp at hr; subst hr; exact hP.assign _ _ _ _ _ _ ha h1
      · simp at hr
    · simp at hr; subst hr; exact h1
  clear_value r2
  split at h
  · simp at h
  · next _ s2 =>
    simp at h; subst h
    have key : ∀ (cfg' : List CfgRow) (g : Ghost), P { s2 with cfg := cfg', ghost := g } :=
      fun cfg' g => hP.view { s2 with cfg := cfg' } _ rfl (hcfg s2 cfg' (h2 s2 rfl))
    exact key _ _

theorem vc_configDelete (hP : VipClosed P) (hcfg : ∀ (s : XState) (cfg' : List CfgRow), P s → P { s with cfg := cfg' })
    (s : XState) (kind name : String) (hs : P s) : P (configDelete s kind name) := by
  unfold configDelete
  split
  · exact hs
  · extract_lets s1 s2
    have h1 : P s1 := by
      unfold s1; split
      · exact hP.view s _ rfl hs
      · exact hs
    have h2 : P s2 := hcfg s1 _ h1
    split
    · exact hP.free s2 "" name h2
    · exact h2

theorem vc_txnNodeX (hP : VipClosed P) {s s' : XState} {idx : Nat} {v : CatVerb} {n : Node} {rs : List TxnRes}
    (h : txnNodeX s idx v n = .ok (s', rs)) (hs : P s) : P s' := by
  unfold txnNodeX at h
  cases v <;> simp only at h
  · split at h
    · simp [okResX] at h; exact h.1 ▸ hs
    · simp at h
  · split at h
    · next s1 h1 => simp [okResX] at h; exact h.1 ▸ vc_ensureNodeX hP h1 hs
    · simp at h
  · split at h
    · next s1 h1 =>
      simp [okResX] at h
      unfold ensureNodeCasX at h1
      split at h1
      · simp at h1
      · split at h1
        · next s2 h2 => simp at h1; exact h.1 ▸ h1 ▸ vc_ensureNodeX hP h2 hs
        · simp at h1
    · simp at h
    · simp at h
  · split at h
    · next s1 h1 => simp [okResX] at h; exact h.1 ▸ vc_deleteNodeX hP h1 hs
    · simp at h
  · split at h
    · next s1 h1 =>
      simp [okResX] at h
      unfold deleteNodeCasX at h1
      split at h1
      · simp at h1
      · split at h1
        · simp at h1
        · split at h1
          · next s2 h2 => simp at h1; exact h.1 ▸ h1 ▸ vc_deleteNodeX hP h2 hs
          · simp at h1
    · simp at h
    · simp at h

theorem vc_txnServiceX (hP : VipClosed P) {s s' : XState} {idx : Nat} {v : CatVerb} {node : String} {q : SvcReq} {rs : List TxnRes}
    (h : txnServiceX s idx v node q = .ok (s', rs)) (hs : P s) : P s' := by
  unfold txnServiceX at h
  cases v <;> simp only at h
  · split at h
    · simp [okResX] at h; exact h.1 ▸ hs
    · simp at h
  · split at h
    · next s1 h1 => simp [okResX] at h; exact h.1 ▸ vc_ensureServiceX hP h1 hs
    · simp at h
  · split at h
    · next s1 h1 =>
      simp [okResX] at h
      unfold ensureServiceCasX at h1
      split at h1
      · simp at h1
      · split at h1
        · next s2 h2 => simp at h1; exact h.1 ▸ h1 ▸ vc_ensureServiceX hP h2 hs
        · simp at h1
    · simp at h
    · simp at h
  · split at h
    · next s1 h1 => simp [okResX] at h; exact h.1 ▸ vc_deleteServiceX hP h1 hs
    · simp at h
  · split at h
    · next s1 h1 =>
      simp [okResX] at h
      unfold deleteServiceCasX at h1
      split at h1
      · simp at h1
      · split at h1
        · simp at h1
        · split at h1
          · next s2 h2 => simp at h1; exact h.1 ▸ h1 ▸ vc_deleteServiceX hP h2 hs
          · simp at h1
    · simp at h
    · simp at h

theorem vc_txnStepX (hP : VipClosed P) {s s' : XState} {idx : Nat} {op : XTxnOp} {rs : List TxnRes}
    (h : txnStepX s idx op = .ok (s', rs)) (hs : P s) : P s' := by
  cases op with
  | service v node q => exact vc_txnServiceX hP h hs
  | base bop =>
    cases bop with
    | node v n => exact vc_txnNodeX hP h hs
    | service v x => exact vc_txnServiceX hP h hs
    | kv v e =>
      simp only [txnStepX] at h
      split at h
      · simp [okResX] at h; obtain ⟨rfl, -⟩ := h; exact hP.view s _ rfl hs
      · simp at h
    | check v c =>
      simp only [txnStepX] at h
      split at h
      · simp [okResX] at h; obtain ⟨rfl, -⟩ := h; exact hP.view s _ rfl hs
      · simp at h
    | sessionDelete id =>
      simp only [txnStepX] at h
      split at h
      · simp [okResX] at h; obtain ⟨rfl, -⟩ := h; exact hP.view s _ rfl hs
      · simp at h

theorem vc_txnLoopX (hP : VipClosed P) (idx : Nat) : ∀ (ops : List XTxnOp) (i : Nat) (s : XState) (rs : List TxnRes)
    (es : List (Nat × XErr)), P s → P (txnLoopX idx ops i s rs es).1 := by
  intro ops
  induction ops with
  | nil => intro i s rs es hs; exact hs
  | cons op rest ih =>
    intro i s rs es hs
    simp only [txnLoopX]
    split
    · next s' r hstep => exact ih _ _ _ _ (vc_txnStepX hP hstep hs)
    · exact ih _ _ _ _ hs

theorem vc_txnRWX (hP : VipClosed P) {s : XState} (idx : Nat) (ops : List XTxnOp) (hs : P s) : P (txnRWX s idx ops).1 := by
  unfold txnRWX
  have := vc_txnLoopX hP idx ops 0 s [] [] hs
  generalize txnLoopX idx ops 0 s [] [] = r at this
  obtain ⟨s', rs, es⟩ := r
  simp only
  split
  · exact this
  · exact hs

theorem vc_liftSX {s : XState} {r : Except XErr XState} (hs : P s) (hr : ∀ s', r = .ok s' → P s') : P (liftSX s r).1 := by
  cases r with
  | ok s' => exact hr s' rfl
  | error e => exact hs

theorem vc_stepX (hP : VipClosed P)
    {s : XState} (idx : Nat) (c : XCmd) (hcfg : c.isConfig = true → ∀ (s : XState) (cfg' : List CfgRow), P s → P { s with cfg := cfg' })
    (hs : P s) : P (stepX s idx c).1 := by
  cases c with
  | register r => exact vc_liftSX hs (fun s' h => vc_registerX hP h hs)
  | deregister p node svcId chkId => exact vc_liftSX hs (fun s' h => vc_deregisterX hP h hs)
  | coords us => exact vc_coordUpdate hP s us hs
  | sysmeta k v => exact vc_sysMetaSet hP s k v hs
  | configSet kind name dest tok => exact vc_liftSX hs (fun s' h => vc_configUpsert hP (hcfg rfl) h hs)
  | configDelete kind name => exact vc_configDelete hP (hcfg rfl) s kind name hs
  | txn ops => simp only [stepX]; exact vc_txnRWX hP idx ops hs
  | store c =>
    cases c with
    | register r => exact vc_liftSX hs (fun s' h => vc_registerX hP h hs)
    | deregister node svcId chkId => exact vc_liftSX hs (fun s' h => vc_deregisterX hP h hs)
    | txn ops => simp only [stepX]; exact vc_txnRWX hP idx _ hs
    | _ => all_goals (simp only [stepX]; exact hP.view s _ rfl hs)

theorem vc_applyX (hP : VipClosed P) (hu : ∀ (s : XState) (u : List UsageRow), P s → P { s with usage := u })
    (hcfg : ∀ (s : XState) (cfg' : List CfgRow), P s → P { s with cfg := cfg' })
    {s : XState} (idx : Nat) (c : XCmd) (hs : P s) : P (applyX s idx c).1 := by
  have h1 := vc_stepX hP idx c (fun _ => hcfg) hs
  have : (applyX s idx c).1 = commitUsage s (stepX s idx c).1 idx := rfl
  rw [this]
  exact hu _ _ h1

theorem vc_replayX (hP : VipClosed P) (hu : ∀ (s : XState) (u : List UsageRow), P s → P { s with usage := u })
    (hcfg : ∀ (s : XState) (cfg' : List CfgRow), P s → P { s with cfg := cfg' }) :
    ∀ (log : XLog) (s : XState), P s → P (replayX s log) := by
  intro log
  induction log with
  | nil => intro s hs; exact hs
  | cons ic rest ih =>
    intro s hs
    unfold replayX
    simp only [List.foldl_cons]
    exact ih _ (vc_applyX hP hu hcfg ic.1 ic.2 hs)


/-! ### well-formedness of the virtual-IP tables -/

def counterVal (s : XState) : Nat := match s.counter with | some c => c | none => 0

/-- no address is assigned twice; one row per (peer, service); the free address is not an assigned one; every
    address handed out lies in 1..counter -/
structure VipWF (s : XState) : Prop where
  nodup : (s.vips.map (·.ip)).Nodup
  keys : (s.vips.map VipRow.pk).Nodup
  free_not_assigned : ∀ r ∈ s.vips, some r.ip ≠ s.freeIP
  bound : ∀ r ∈ s.vips, 1 ≤ r.ip ∧ r.ip ≤ counterVal s
  free_bound : ∀ ip, s.freeIP = some ip → 1 ≤ ip ∧ ip ≤ counterVal s

theorem VipWF.empty : VipWF XState.empty :=
  ⟨by simp [XState.empty], by simp [XState.empty], by simp [XState.empty], by simp [XState.empty], by simp [XState.empty]⟩

theorem tupsert_perm_of_none {α κ : Type} [DecidableEq κ] {key : α → κ} {lt : κ → κ → Bool} (r : α) :
    ∀ (l : List α), tfind key (key r) l = none → (tupsert key lt r l).Perm (r :: l) := by
  intro l
  induction l with
  | nil => intro _; simp [tupsert]
  | cons x xs ih =>
    intro h
    have hx : key x ≠ key r := tfind_none h x List.mem_cons_self
    have hxs : tfind key (key r) xs = none := by
      unfold tfind at h ⊢
      rw [List.find?_cons_of_neg (by simpa using hx)] at h
      exact h
    simp only [tupsert, if_neg hx]
    split
    · exact List.Perm.refl _
    · exact (List.Perm.cons x (ih hxs)).trans (List.Perm.swap r x xs)

theorem inj_of_nodup_map {α β : Type} {f : α → β} : ∀ {l : List α}, (l.map f).Nodup → ∀ a ∈ l, ∀ b ∈ l, f a = f b → a = b := by
  intro l
  induction l with
  | nil => intro _ a ha; simp at ha
  | cons x xs ih =>
    intro h a ha b hb hab
    rw [List.map_cons, List.nodup_cons] at h
    have hx : ∀ y ∈ xs, f y ≠ f x := fun y hy he => h.1 (List.mem_map.mpr ⟨y, hy, he⟩)
    rcases List.mem_cons.mp ha with ha | ha <;> rcases List.mem_cons.mp hb with hb | hb
    · rw [ha, hb]
    · rw [ha] at hab; exact absurd hab.symm (hx b hb)
    · rw [hb] at hab; exact absurd hab (hx a ha)
    · exact ih h.2 a ha b hb hab

theorem vipWF_closed : VipClosed VipWF where
  view := by
    intro s s' hv hs
    simp only [vipView, Prod.mk.injEq] at hv
    obtain ⟨e1, e2, e3, _⟩ := hv
    have hc : counterVal s' = counterVal s := by unfold counterVal; rw [e3]
    exact ⟨e1 ▸ hs.nodup, e1 ▸ hs.keys, by rw [e1, e2]; exact hs.free_not_assigned, by rw [e1, hc]; exact hs.bound,
      by rw [e2, hc]; exact hs.free_bound⟩
  assign := by
    intro s s' idx ip p n h hs
    unfold assignVip at h
    split at h
    · simp at h; exact h.1 ▸ hs
    · next hnone =>
      split at h
      · next fip hfree =>
        simp at h; obtain ⟨rfl, -⟩ := h
        have hperm := tupsert_perm_of_none (key := VipRow.pk) (lt := strLt) ⟨p, n, fip, idx, idx⟩ s.vips hnone
        refine ⟨?_, ?_, ?_, ?_, ?_⟩
        · refine (hperm.map (·.ip)).nodup_iff.mpr ?_
          simp only [List.map_cons, List.nodup_cons]
          refine ⟨?_, hs.nodup⟩
          intro hmem
          obtain ⟨r, hr, hrip⟩ := List.mem_map.mp hmem
          exact hs.free_not_assigned r hr (by rw [hfree, hrip])
        · refine (hperm.map VipRow.pk).nodup_iff.mpr ?_
          simp only [List.map_cons, List.nodup_cons]
          refine ⟨?_, hs.keys⟩
          intro hmem
          obtain ⟨r, hr, hrk⟩ := List.mem_map.mp hmem
          exact tfind_none hnone r hr hrk
        · intro r _; simp
        · intro r hr
          show 1 ≤ r.ip ∧ r.ip ≤ counterVal s
          rcases mem_tupsert hr with rfl | hr
          · exact hs.free_bound fip hfree
          · exact hs.bound r hr
        · intro ip' hip; simp at hip
      · next hfree =>
        extract_lets cur0 new at h
        have hcv : counterVal s = cur0 := rfl
        have hnew : new = cur0 + 1 := rfl
        clear_value new cur0
        subst hnew
        split at h
        · simp at h
        · simp at h; obtain ⟨rfl, -⟩ := h
          have hperm := tupsert_perm_of_none (key := VipRow.pk) (lt := strLt) ⟨p, n, cur0 + 1, idx, idx⟩ s.vips hnone
          refine ⟨?_, ?_, ?_, ?_, ?_⟩
          · refine (hperm.map (·.ip)).nodup_iff.mpr ?_
            simp only [List.map_cons, List.nodup_cons]
            refine ⟨?_, hs.nodup⟩
            intro hmem
            obtain ⟨r, hr, hrip⟩ := List.mem_map.mp hmem
            have := (hs.bound r hr).2
            rw [hcv] at this
            omega
          · refine (hperm.map VipRow.pk).nodup_iff.mpr ?_
            simp only [List.map_cons, List.nodup_cons]
            refine ⟨?_, hs.keys⟩
            intro hmem
            obtain ⟨r, hr, hrk⟩ := List.mem_map.mp hmem
            exact tfind_none hnone r hr hrk
          · intro r _; show some r.ip ≠ s.freeIP; rw [hfree]; simp
          · intro r hr
            show 1 ≤ r.ip ∧ r.ip ≤ cur0 + 1
            rcases mem_tupsert hr with rfl | hr
            · exact ⟨by simp, Nat.le_refl _⟩
            · have := hs.bound r hr
              rw [hcv] at this
              exact ⟨this.1, by omega⟩
          · intro ip' hip
            have : s.freeIP = some ip' := hip
            rw [hfree] at this; simp at this
  free := by
    intro s p n hs
    unfold freeVip
    repeat' split
    all_goals (first | exact hs | skip)
    next r hr =>
      obtain ⟨hrm, hrk⟩ := tfind_some hr
      have hsub : (terase VipRow.pk (vipKey p n) s.vips).Sublist s.vips := by unfold terase; exact List.filter_sublist
      refine ⟨(hsub.map _).nodup hs.nodup, (hsub.map _).nodup hs.keys, ?_, ?_, ?_⟩
      · intro r' hr' heq
        obtain ⟨m1, m2⟩ := mem_terase.mp hr'
        have hip : r'.ip = r.ip := by simpa using heq
        have := inj_of_nodup_map hs.nodup r' m1 r hrm hip
        exact m2 (this ▸ hrk)
      · intro r' hr'; exact hs.bound r' (mem_terase.mp hr').1
      · intro ip hip
        simp at hip; subst hip
        exact hs.bound r hrm

/-- in every reachable state the virtual-IP tables are well-formed -/
theorem vipWF_usage (s : XState) (u : List UsageRow) (h : VipWF s) : VipWF { s with usage := u } :=
  ⟨h.nodup, h.keys, h.free_not_assigned, h.bound, h.free_bound⟩

theorem vipWF_cfg (s : XState) (cfg' : List CfgRow) (h : VipWF s) : VipWF { s with cfg := cfg' } :=
  ⟨h.nodup, h.keys, h.free_not_assigned, h.bound, h.free_bound⟩

theorem vipWF_replayX (log : XLog) : VipWF (replayX XState.empty log) :=
  vc_replayX vipWF_closed vipWF_usage vipWF_cfg log _ VipWF.empty

/-- no catalog function writes the usage table (only the commit hook does) -/
theorem usage_closed (u0 : List UsageRow) : VipClosed (fun s => s.usage = u0) where
  view := by
    intro s s' hv hs
    simp only [vipView, Prod.mk.injEq] at hv
    rw [hv.2.2.2.1]; exact hs
  assign := by
    intro s s' idx ip p n h hs
    unfold assignVip at h
    split at h
    · simp at h; rw [← h.1]; exact hs
    · split at h
      · simp at h; rw [← h.1]; exact hs
      · extract_lets cur new at h
        split at h
        · simp at h
        · simp at h; rw [← h.1]; exact hs
  free := by
    intro s p n hs
    unfold freeVip
    repeat' split
    all_goals exact hs

theorem usage_stepX (s : XState) (idx : Nat) (c : XCmd) : (stepX s idx c).1.usage = s.usage :=
  vc_stepX (usage_closed s.usage) idx c (fun _ _ _ h => h) rfl

/-- no catalog function except the two config-entry commands writes the config-entry table -/
theorem cfg_closed (c0 : List CfgRow) : VipClosed (fun s => s.cfg = c0) where
  view := by
    intro s s' hv hs
    simp only [vipView, Prod.mk.injEq] at hv
    rw [hv.2.2.2.2]; exact hs
  assign := by
    intro s s' idx ip p n h hs
    unfold assignVip at h
    split at h
    · simp at h; rw [← h.1]; exact hs
    · split at h
      · simp at h; rw [← h.1]; exact hs
      · extract_lets cur new at h
        split at h
        · simp at h
        · simp at h; rw [← h.1]; exact hs
  free := by
    intro s p n hs
    unfold freeVip
    repeat' split
    all_goals exact hs

theorem cfg_stepX (s : XState) (idx : Nat) (c : XCmd) (hc : c.isConfig = false) : (stepX s idx c).1.cfg = s.cfg :=
  vc_stepX (cfg_closed s.cfg) idx c (fun h => by rw [hc] at h; cases h) rfl

theorem cfg_assignVip {s s' : XState} {idx ip : Nat} {p n : String} (h : assignVip s idx p n = .ok (s', ip)) : s'.cfg = s.cfg :=
  (cfg_closed s.cfg).assign s s' idx ip p n h rfl

theorem cfg_freeVip (s : XState) (p n : String) : (freeVip s p n).cfg = s.cfg := (cfg_closed s.cfg).free s p n rfl


/-! ### what a registration advertises is the assignment of that moment -/

theorem assignVip_spec {s s' : XState} {idx ip : Nat} {p n : String} (h : assignVip s idx p n = .ok (s', ip)) :
    ∃ a ∈ s'.vips, a.pk = vipKey p n ∧ a.ip = ip := by
  unfold assignVip at h
  split at h
  · next r hr =>
    simp at h; obtain ⟨rfl, rfl⟩ := h
    obtain ⟨hm, hk⟩ := tfind_some hr
    exact ⟨r, hm, hk, rfl⟩
  · split at h
    · next fip _ =>
      simp at h; obtain ⟨rfl, rfl⟩ := h
      exact ⟨⟨p, n, fip, idx, idx⟩, self_mem_tupsert _ _, rfl, rfl⟩
    · extract_lets cur new at h
      split at h
      · simp at h
      · simp at h; obtain ⟨rfl, rfl⟩ := h
        exact ⟨⟨p, n, new, idx, idx⟩, self_mem_tupsert _ _, rfl, rfl⟩

/-- the connect name `ensureServiceTxn` assigns the virtual IP for -/
def SvcReq.connectTarget (q : SvcReq) : String := if q.kind = .connectProxy then q.dest else q.name

/-- **At registration time the advertised address is the current assignment**: after a successful
    `ensureServiceX`, if the instance's row carries a virtual IP then the virtual-IP table assigns exactly that
    address to the instance's Connect name. -/
theorem ensureServiceX_vip_agrees {s s' : XState} {p node : String} {idx : Nat} {q : SvcReq}
    (h : ensureServiceX s p idx node q = .ok s') :
    ∀ e, extFind (s'.cat p) node q.id = some e → ∀ ip, e.vip = some ip →
      ∃ a ∈ s'.vips, a.pk = vipKey p q.connectTarget ∧ a.ip = ip := by
  unfold ensureServiceX at h
  extract_lets c s1 sn s2 r2 v at h
  have hs1 : XFrame s s1 := by unfold s1; split <;> exact ⟨rfl, rfl, rfl⟩
  have hs2 : XFrame s1 s2 := by unfold s2; split <;> exact ⟨rfl, rfl, rfl⟩
  have hr2 : ∀ s3 vip, r2 = Except.ok (s3, vip) → XFrame s s3 ∧
      ∀ ip, vip = some ip → ∃ a ∈ s3.vips, a.pk = vipKey p q.connectTarget ∧ a.ip = ip := by
    intro s3 vip hr
    unfold r2 at hr
    split at hr
    · split at hr
      · split at hr
        · next s3' ip' ha =>
          simp at hr; obtain ⟨rfl, rfl⟩ := hr
          refine ⟨hs1.trans (hs2.trans (xframe_assignVip ha)), ?_⟩
          intro ip hip
          simp at hip; subst hip
          exact assignVip_spec ha
        · simp at hr
      · simp at hr; obtain ⟨rfl, rfl⟩ := hr; exact ⟨hs1.trans hs2, by simp⟩
    · simp at hr; obtain ⟨rfl, rfl⟩ := hr; exact ⟨hs1, by simp⟩
  clear_value r2
  split at h
  · simp at h
  · next _ s3 vip =>
    obtain ⟨hf, hvip⟩ := hr2 s3 vip rfl
    split at h
    · simp at h
    · dsimp only at h
      have put : ∀ (w : Svc) (e0 : SvcX), e0.node = node → e0.id = q.id → e0.vip = vip →
          ∀ e, extFind ((s3.putSvc p w e0).cat p) node q.id = some e → ∀ ip, e.vip = some ip →
            ∃ a ∈ (s3.putSvc p w e0).vips, a.pk = vipKey p q.connectTarget ∧ a.ip = ip := by
        intro w e0 h1 h2 h3 e he ip hip
        rw [putSvc_eq, cat_setCat_self] at he
        rw [putSvc_eq, setCat_vips]
        unfold extFind at he
        have hk : pk2 node q.id = SvcX.pk e0 := by unfold SvcX.pk; rw [h1, h2]
        simp only at he
        rw [hk, tfind_tupsert_self] at he
        simp at he; subst he
        exact hvip ip (h3 ▸ hip)
      split at h
      · next x ex hx hex =>
        split at h
        · next hsame =>
          simp at h; subst h
          intro e he ip hip
          rw [hf.cat p] at he
          have hex' : extFind (s.cat p) node q.id = some ex := hex
          rw [hex'] at he
          have hee : ex = e := by simpa using he
          have hv : vip = ex.vip := by
            simp only [Bool.and_eq_true, extSame, beq_iff_eq] at hsame
            exact hsame.2.2
          exact hvip ip (by rw [hv, hee]; exact hip)
        · simp at h; subst h; exact put _ _ rfl rfl rfl
      · simp at h
      · simp at h; subst h; exact put _ _ rfl rfl rfl

end CV.Store
