/-
C11: the statements (`ViewOk`, `Mono`, `Quiescent`), the hypothesis of the partial theorems
(`CleanRun`), the run lemmas that lift the per-action invariants to whole schedules, and the
boolean checkers used by the counterexample theorems.
-/
import CV.Proofs.StreamResume
import CV.Proofs.StreamGuardResume
import CV.Proofs.StreamFaithNode
namespace CV.Stream

/-! ## Statements -/

/-- every materializer that has been updated holds exactly the direct-query result that belongs
    to its last update (`expect` is the ghost copy of `query key <catalog right after the commit
    the delivered event belongs to>`, resp. of the query the snapshot was built from) -/
def ViewOk (y : Sys) : Prop :=
  ∀ c ∈ y.clients, c.m.index ≠ 0 → IsFilterOf c.authz c.key c.m.view c.m.expect

/-- the same for subscribers whose token may read everything, as plain view equality (used by the
    index-guard theorems, which are stated for unfiltered consumers) -/
def ViewOkU (y : Sys) : Prop := ∀ c ∈ y.clients, c.m.index ≠ 0 → ViewEq c.m.view c.m.expect

/-- delivered indexes of every subscription never decreased -/
def Mono (y : Sys) : Prop := ∀ c ∈ y.clients, c.mono = true

/-- the consuming subscriber's token may read everything (ACL filtering of events is covered by
    `consume_does_not_interfere` and by the Go monitors, not by the view theorems) -/
def Unfiltered (y : Sys) (id : Nat) : Prop := ∀ c, getClient y id = some c → c.authz = .all

instance (y : Sys) (id : Nat) : Decidable (Unfiltered y id) := by
  unfold Unfiltered
  cases getClient y id with
  | none => exact isTrue (fun c h => by cases h)
  | some c =>
    by_cases h : c.authz = .all
    · exact isTrue (fun d hd => by cases hd; exact h)
    · exact isFalse (fun hh => h (hh c rfl))

/-- the hypothesis of the partial theorems, one decidable-in-context condition per action:
    * commits are well-indexed (Raft) and their events are faithful (see `Faithful`; it fails
      exactly for the two catalog_events.go shapes refuted below),
    * a subscription starts while nothing is queued for publication (it may be resumed, served
      from the snapshot cache, or take a fresh snapshot that splices at the live tail),
    * a restore happens while nothing is queued and no subscription is attached,
    * a subscriber's token is `AuthzOk` for its key (on the Connect topic visibility must not
      depend on the sidecar's own name: no service-subset token there). -/
def CleanAct (y : Sys) : Act → Prop
  | .commit idx w => y.lastIdx < idx ∧ Faithful y.cat idx w
  | .subscribe id => CleanSubR y id
  | .restore c => WF c ∧ IdxBound c y.lastIdx ∧ y.queue = [] ∧ ∀ d ∈ y.clients, attached d = false
  | .client _ k _ _ a => AuthzOk a k
  | _ => True

def CleanRun (y : Sys) : List Act → Prop
  | [] => True
  | a :: r => CleanAct y a ∧ CleanRun (step y a) r

/-- the three invariants of clean schedules, stepped together -/
structure AllInv (y : Sys) : Prop where
  inv  : Inv y
  minv : MInv y
  rinv : ∃ pc, RInv y pc

theorem AllInv.init (ttl : Bool) : AllInv (Sys.init ttl) :=
  ⟨Inv.init ttl, MInv.init ttl, ⟨Cat.empty, RInv.init ttl⟩⟩

theorem AllInv.step {y : Sys} (h : AllInv y) (a : Act) (hc : CleanAct y a) : AllInv (step y a) := by
  obtain ⟨hi, hm, pc, hr⟩ := h
  cases a with
  | client id k t r a => exact ⟨hi.addClient id k t r a hc, hm.addClient id k t r a, pc, hr.addClient id k t r a⟩
  | commit idx w =>
    exact ⟨hi.commit idx w (by have := hc.1; omega) hc.2, hm.commit idx w hc.1, pc, hr.commit idx w hc.1 hc.2⟩
  | publishOne => exact ⟨hi.publishOne, hm.publishOne hi.cbuf, hr.publishOne⟩
  | subscribe id => exact ⟨hi.subscribeR hr id hc, hm.subscribeR id hc, pc, hr.subscribeR hi hm id hc⟩
  | next id => exact ⟨hi.next id, hm.next id, pc, hr.next hi id⟩
  | unsub id => exact ⟨hi.unsub id, hm.unsub id, pc, hr.unsub hi id⟩
  | expire => exact ⟨hi.expire, hm.expire, pc, hr.expire⟩
  | restore c =>
    exact ⟨hi.restore c hc.1 hc.2.2.1 hc.2.2.2, hm.restore c hc.2.1 hc.2.2.2, c, hr.restore c hc.2.2.1 hc.2.2.2⟩

theorem AllInv.run {y : Sys} (h : AllInv y) (acts : List Act) (hc : CleanRun y acts) : AllInv (run y acts) := by
  induction acts generalizing y with
  | nil => exact h
  | cons a r ih => exact ih (h.step a hc.1) hc.2

instance (y : Sys) (id : Nat) : Decidable (CleanSubR y id) := by
  unfold CleanSubR
  cases getClient y id <;> exact inferInstance

instance (y : Sys) (id : Nat) : Decidable (CleanSub y id) := by
  unfold CleanSub
  cases getClient y id <;> exact inferInstance

instance (y : Sys) (id : Nat) : Decidable (NoResume y id) := by
  unfold NoResume
  cases getClient y id <;> exact inferInstance

/-! ## The variant with the index guard in the materializer -/

/-- hypothesis of `view_ok_with_index_guard`: commits are well-indexed, faithful and move the
    query index soundly; subscriptions — fresh, cached or RESUMED — may start at ANY moment (also
    between a commit and its publication); no restore; consumers are unfiltered -/
def GuardAct (y : Sys) : Act → Prop
  | .commit idx w => y.lastIdx < idx ∧ Faithful y.cat idx w ∧ IndexSound y.cat idx w
  | .restore _ => False
  | .next id => Unfiltered y id
  | _ => True

def GuardRun (y : Sys) : List Act → Prop
  | [] => True
  | a :: r => GuardAct y a ∧ GuardRun (stepG y a) r

/-- the two invariants of the index-guard system, stepped together -/
structure AllG (y : Sys) : Prop where
  inv : InvG y
  rg  : ∃ pc, RG y pc

theorem AllG.init (ttl : Bool) : AllG (Sys.init ttl) := ⟨InvG.init ttl, ⟨Cat.empty, RG.init ttl⟩⟩

theorem AllG.stepG {y : Sys} (h : AllG y) (a : Act) (hc : GuardAct y a) : AllG (stepG y a) := by
  obtain ⟨hi, pc, hr⟩ := h
  cases a with
  | client id k t r a => exact ⟨hi.addClient id k t r a, pc, hr.addClient id k t r a⟩
  | commit idx w => exact ⟨hi.commit idx w hc.1 hc.2.1 hc.2.2, pc, hr.commit idx w hc.1 hc.2.1⟩
  | publishOne => exact ⟨hi.publishOne, hr.publishOne⟩
  | subscribe id => exact ⟨hi.subscribeAny hr id, pc, hr.subscribe hi id⟩
  | next id => exact ⟨hi.nextG id hc, pc, hr.nextG hi id hc⟩
  | unsub id => exact ⟨hi.unsub id, pc, hr.unsub hi id⟩
  | expire => exact ⟨hi.expire, pc, hr.expire⟩
  | restore c => exact absurd hc id

theorem AllG.runG {y : Sys} (h : AllG y) (acts : List Act) (hc : GuardRun y acts) : AllG (runG y acts) := by
  induction acts generalizing y with
  | nil => exact h
  | cons a r ih => exact ih (h.stepG a hc.1) hc.2

theorem indexSound_cfgSet (c : Cat) (idx : Nat) (n : String) (v : Nat) (h : c.cfgIdx ≤ idx) :
    IndexSound c idx (.cfgSet n v) := by
  intro k
  obtain ⟨t, sj⟩ := k
  cases t <;> cases sj <;> simp_all [applyWrite, queryIdx, absentIdx, svcIndexOr, evsFor, wildOf]

/-! ## Clean schedules with the syntactic write condition -/

/-- `CleanAct` with the semantic hypothesis `Faithful` replaced by the syntactic `CleanWrite` -/
def CleanActS (y : Sys) : Act → Prop
  | .commit idx w => y.lastIdx < idx ∧ CleanWrite y.cat w
  | a => CleanAct y a

def CleanRunS (y : Sys) : List Act → Prop
  | [] => True
  | a :: r => CleanActS y a ∧ CleanRunS (step y a) r

theorem CleanActS.clean {y : Sys} (h : AllInv y) {a : Act} (hc : CleanActS y a) : CleanAct y a := by
  cases a with
  | commit idx w => exact ⟨hc.1, faithful_of_cleanWrite h.inv.wf idx w hc.2⟩
  | client id k t r a => exact hc
  | publishOne => exact hc
  | subscribe id => exact hc
  | next id => exact hc
  | unsub id => exact hc
  | expire => exact hc
  | restore c => exact hc

theorem CleanRunS.clean {y : Sys} (h : AllInv y) {acts : List Act} (hc : CleanRunS y acts) : CleanRun y acts := by
  induction acts generalizing y with
  | nil => trivial
  | cons a r ih =>
    have ha := hc.1.clean h
    exact ⟨ha, ih (h.step a ha) hc.2⟩

/-! ## Boolean checkers implied by the propositions (used to refute them on concrete runs) -/

def viewEqB (a b : View) : Bool := (a ++ b).all fun p => lookup? p.1 a == lookup? p.1 b

theorem viewEqB_of_viewEq {a b : View} (h : ViewEq a b) : viewEqB a b = true := by
  unfold viewEqB
  rw [List.all_eq_true]
  intro p _
  simp [h p.1]

/-- boolean check of `IsFilterOf` on the ids that occur -/
def filterOfB (a : Authz) (k : Key) (vf vu : View) : Bool :=
  (vf ++ vu).all fun p => lookup? p.1 vf == (if visF a k p.1 then lookup? p.1 vu else none)

theorem filterOfB_of {a : Authz} {k : Key} {vf vu : View} (h : IsFilterOf a k vf vu) : filterOfB a k vf vu = true := by
  unfold filterOfB
  rw [List.all_eq_true]
  intro p _
  simp [h p.1]

def viewOkB (y : Sys) : Bool :=
  y.clients.all fun c => decide (c.m.index = 0) || filterOfB c.authz c.key c.m.view c.m.expect

theorem viewOkB_of_viewOk {y : Sys} (h : ViewOk y) : viewOkB y = true := by
  unfold viewOkB
  rw [List.all_eq_true]
  intro c hc
  by_cases hi : c.m.index = 0
  · simp [hi]
  · simp [hi, filterOfB_of (h c hc hi)]

def monoB (y : Sys) : Bool := y.clients.all (·.mono)

theorem monoB_of_mono {y : Sys} (h : Mono y) : monoB y = true := by
  unfold monoB; rw [List.all_eq_true]; exact h

/-- "no committed change is skipped", observed at quiescence -/
def Quiescent (y : Sys) : Prop :=
  y.queue = [] → ∀ c ∈ y.clients, c.sub = .opened → c.inbox = [] → c.m.index ≠ 0 →
    IsFilterOf c.authz c.key c.m.view (query c.key y.cat)

def quiescentB (y : Sys) : Bool :=
  !y.queue.isEmpty || y.clients.all fun c =>
    !(decide (c.sub = .opened) && c.inbox.isEmpty && decide (c.m.index ≠ 0)) ||
      filterOfB c.authz c.key c.m.view (query c.key y.cat)

theorem quiescentB_of_quiescent {y : Sys} (h : Quiescent y) : quiescentB y = true := by
  unfold quiescentB
  by_cases hq : y.queue = []
  · simp only [hq, List.isEmpty_nil, Bool.not_true, Bool.false_or]
    rw [List.all_eq_true]
    intro c hc
    by_cases hp : c.sub = .opened ∧ c.inbox = [] ∧ c.m.index ≠ 0
    · have := filterOfB_of (h hq c hc hp.1 hp.2.1 hp.2.2)
      simp [this]
    · have : (decide (c.sub = .opened) && c.inbox.isEmpty && decide (c.m.index ≠ 0)) = false := by
        rw [Bool.eq_false_iff]
        intro hh
        apply hp
        simp only [Bool.and_eq_true, decide_eq_true_eq, List.isEmpty_iff] at hh
        exact ⟨hh.1.1, hh.1.2, hh.2⟩
      rw [this]; rfl
  · have : y.queue.isEmpty = false := by simpa using hq
    simp [this]


end CV.Stream
