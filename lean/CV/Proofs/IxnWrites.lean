/-
Helper lemmas for C13, part 4: every write operation preserves the store invariant, and answers
depend only on the set of stored intentions.
-/
import CV.Proofs.IxnStore
set_option linter.unusedSimpArgs false
set_option linter.unusedVariables false
namespace CV.Ixn

/-! ### validation implies distinct sources -/

theorem validateSources_nodup (legacy w : Bool) (srcs : List Src) (seen : List (Name × Name))
    (h : validateSources legacy w srcs seen = none) :
    srcs.Pairwise (fun a b => srcKey a ≠ srcKey b) ∧ ∀ s ∈ srcs, srcKey s ∉ seen := by
  induction srcs generalizing seen with
  | nil => simp
  | cons s rest ih =>
    unfold validateSources at h
    split at h; · cases h
    split at h; · cases h
    split at h; · cases h
    split at h; · cases h
    split at h; · cases h
    split at h; · cases h
    split at h; · cases h
    split at h; · cases h
    split at h; · cases h
    next hseen =>
    obtain ⟨h1, h2⟩ := ih _ h
    rw [List.pairwise_cons]
    refine ⟨⟨?_, h1⟩, ?_⟩
    · intro b hb heq
      have := h2 b hb
      simp only [srcKey] at heq this
      rw [← heq] at this
      exact this List.mem_cons_self
    · intro x hx
      rcases List.mem_cons.mp hx with rfl | hx'
      · simpa [srcKey] using hseen
      · intro hm
        exact h2 x hx' (List.mem_cons_of_mem _ hm)

theorem isort_pairwise_symm {α : Type} {lt : α → α → Bool} {R : α → α → Prop} (hsymm : ∀ {x y}, R x y → R y x)
    {xs : List α} (h : xs.Pairwise R) : (isort lt xs).Pairwise R :=
  h.perm (isort_perm xs).symm hsymm

/-- a normalized entry that passes validation is well formed -/
theorem normalize_wf (legacy : Bool) (e : Entry) (h : validate legacy (normalize legacy e) = none) :
    EntryWF (normalize legacy e) := by
  constructor
  · intro s hs
    simp only [normalize, mem_isort, List.mem_map] at hs
    obtain ⟨s0, _, rfl⟩ := hs
    simp [normSrc, normalize]
  · unfold validate at h
    split at h; · cases h
    split at h; · cases h
    split at h; · cases h
    exact (validateSources_nodup _ _ _ _ h).1

/-! ### writes preserve the invariant -/

theorem putEntryX_names {es : List Entry} (h : es.Pairwise fun a b => a.name ≠ b.name) (e : Entry) :
    (putEntryX es e).Pairwise fun a b => a.name ≠ b.name := by
  unfold putEntryX
  split
  · rw [List.pairwise_map]
    apply h.imp
    intro a b hab
    split <;> split <;> simp_all
  · next hnone =>
    rw [List.pairwise_append]
    refine ⟨h, by simp, ?_⟩
    intro a ha b hb
    simp only [List.mem_singleton] at hb
    subst hb
    simp only [List.any_eq_true, decide_eq_true_eq, not_exists, not_and] at hnone
    exact hnone a ha

theorem mem_putEntryX {es : List Entry} {e x : Entry} (hx : x ∈ putEntryX es e) : x = e ∨ x ∈ es := by
  unfold putEntryX at hx
  split at hx
  · simp only [List.mem_map] at hx
    obtain ⟨y, hy, rfl⟩ := hx
    split
    · exact Or.inl rfl
    · exact Or.inr hy
  · rcases List.mem_append.mp hx with h | h
    · exact Or.inr h
    · exact Or.inl (by simpa using h)

theorem storeWF_putEntry {st : Store} (h : StoreWF st) {e : Entry} (he : EntryWF e) (hle : Lower e.name) :
    StoreWF { st with entries := putEntry st.entries e } := by
  rw [putEntry_lower h.lowerEntries hle]
  exact {
    names := putEntryX_names h.names e
    entries := by
      intro x hx
      rcases mem_putEntryX hx with rfl | hx'
      · exact he
      · exact h.entries x hx'
    rowIds := h.rowIds
    rowKeys := h.rowKeys
    rowLocal := h.rowLocal
    rowNamed := h.rowNamed
    lowerEntries := by
      intro x hx
      rcases mem_putEntryX hx with rfl | hx'
      · exact hle
      · exact h.lowerEntries x hx'
    lowerRows := h.lowerRows }

theorem storeWF_deleteEntry {st : Store} (h : StoreWF st) (n : Name) : StoreWF (deleteEntry st n) where
  names := h.names.filter _
  entries := fun x hx => h.entries x (List.mem_filter.mp hx).1
  rowIds := h.rowIds
  rowKeys := h.rowKeys
  rowLocal := h.rowLocal
  rowNamed := h.rowNamed
  lowerEntries := fun x hx => h.lowerEntries x (List.mem_filter.mp hx).1
  lowerRows := h.lowerRows

theorem getEntry_mem {es : List Entry} {n : Name} {e : Entry} (h : getEntry es n = some e) : e ∈ es :=
  List.mem_of_find?_eq_some h

theorem findByLegacyId_mem {es : List Entry} {id : Name} {e : Entry} (h : findByLegacyId es id = some e) : e ∈ es := by
  exact List.mem_of_find?_eq_some h

/-- the shape shared by all config-entry writes: normalize, validate, then replace the entry -/
theorem storeWF_commit {st : Store} (h : StoreWF st) (legacy : Bool) (e : Entry) (hle : Lower e.name) :
    StoreWF (match validate legacy (normalize legacy e) with
      | some err => (st, some err)
      | none => ({ st with entries := putEntry st.entries (normalize legacy e) }, none)).1 := by
  cases hv : validate legacy (normalize legacy e) with
  | some err => exact h
  | none => exact storeWF_putEntry h (normalize_wf legacy e hv) hle

theorem storeWF_applyEntry {st : Store} (h : StoreWF st) (e : Entry) (hle : Lower e.name) : StoreWF (applyEntry st e).1 :=
  storeWF_commit h false e hle

theorem storeWF_mutUpsert {st : Store} (h : StoreWF st) (dst : Name) (v : Src) (hld : Lower dst) :
    StoreWF (mutUpsert st dst v).1 := by
  unfold mutUpsert
  split
  · exact h
  · apply storeWF_commit h false
    cases hg : getEntry st.entries dst with
    | none => exact hld
    | some prev => exact h.lowerEntries prev (getEntry_mem hg)

theorem storeWF_mutDelete {st : Store} (h : StoreWF st) (dst src : Name) : StoreWF (mutDelete st dst src).1 := by
  unfold mutDelete
  split
  · exact h
  · split
    · exact h
    · next prev hg =>
      split
      · exact h
      · exact storeWF_deleteEntry h _
      · exact storeWF_commit h false _ (h.lowerEntries prev (getEntry_mem hg))

theorem storeWF_mutLegacyCreate {st : Store} (h : StoreWF st) (dst : Name) (v : Src) (hld : Lower dst) :
    StoreWF (mutLegacyCreate st dst v).1 := by
  unfold mutLegacyCreate
  split
  · exact h
  · split
    · exact storeWF_commit h true _ hld
    · next prev hg =>
      split
      · exact h
      · exact storeWF_commit h true _ (h.lowerEntries prev (getEntry_mem hg))

theorem storeWF_mutLegacyUpdate {st : Store} (h : StoreWF st) (id : Name) (v : Src) :
    StoreWF (mutLegacyUpdate st id v).1 := by
  unfold mutLegacyUpdate
  split
  · exact h
  · split
    · exact h
    · next prev hg =>
      split
      · exact h
      · split
        · exact h
        · exact storeWF_commit h true _ (h.lowerEntries prev (findByLegacyId_mem hg))

theorem storeWF_mutLegacyDelete {st : Store} (h : StoreWF st) (id : Name) : StoreWF (mutLegacyDelete st id).1 := by
  unfold mutLegacyDelete
  split
  · exact h
  · split
    · exact h
    · next prev hg =>
      split
      · exact h
      · split
        · exact h
        · exact storeWF_deleteEntry h _
        · exact storeWF_commit h true _ (h.lowerEntries prev (findByLegacyId_mem hg))

theorem storeWF_legacySet {st : Store} (h : StoreWF st) (id : Name) (r : Ixn)
    (hr : r.peer = [] ∧ r.src ≠ [] ∧ r.dst ≠ []) (hlr : Lower r.src ∧ Lower r.dst) :
    StoreWF (legacySet st id r).1 := by
  have hany : (st.rows.any fun x => sameName x.2.src r.src && sameName x.2.dst r.dst && x.1 ≠ id) =
      st.rows.any fun x => x.2.src = r.src && x.2.dst = r.dst && x.1 ≠ id := by
    apply any_congr_mem
    intro x hx
    rw [sameName_lower (h.lowerRows x hx).1 hlr.1, sameName_lower (h.lowerRows x hx).2 hlr.2]
  unfold legacySet
  simp only [hany]
  split
  · exact h
  · split
    · exact h
    · try simp only
      split
      · exact h
      · next hdup =>
        simp only [hr.2.1, hr.2.2, ne_eq, not_false_eq_true, decide_true, Bool.true_and,
          List.any_eq_true, Bool.and_eq_true, decide_eq_true_eq, not_exists, not_and] at hdup
        split
        · -- update of the row with this id
          refine ⟨h.names, h.entries, ?_, ?_, ?_, ?_, h.lowerEntries, ?_⟩
          · simp only
            rw [List.pairwise_map]
            apply h.rowIds.imp
            intro a b hab
            split <;> split <;> simp_all
          · simp only
            rw [List.pairwise_map]
            have hk := h.rowKeys
            have hi := h.rowIds
            -- walk the list keeping the facts about membership
            have key : ∀ (rows : List (Name × Ixn)), (∀ x ∈ rows, x ∈ st.rows) →
                rows.Pairwise (fun a b => ¬ (a.2.src = b.2.src ∧ a.2.dst = b.2.dst)) →
                rows.Pairwise (fun a b => a.1 ≠ b.1) →
                rows.Pairwise (fun a b =>
                  ¬ ((if a.1 = id then (id, { r with prec := precOf r.src r.dst }) else a).2.src =
                      (if b.1 = id then (id, { r with prec := precOf r.src r.dst }) else b).2.src ∧
                     (if a.1 = id then (id, { r with prec := precOf r.src r.dst }) else a).2.dst =
                      (if b.1 = id then (id, { r with prec := precOf r.src r.dst }) else b).2.dst)) := by
              intro rows hsub hk hi
              induction rows with
              | nil => simp
              | cons x xs ih =>
                rw [List.pairwise_cons] at hk hi ⊢
                refine ⟨?_, ih (fun y hy => hsub y (List.mem_cons_of_mem _ hy)) hk.2 hi.2⟩
                intro b hb
                have hx := hdup x (hsub x List.mem_cons_self)
                have hb' := hdup b (hsub b (List.mem_cons_of_mem _ hb))
                have := hk.1 b hb
                have := hi.1 b hb
                split <;> split <;> simp_all <;> grind
            exact key st.rows (fun _ hx => hx) hk hi
          · intro x hx
            simp only [List.mem_map] at hx
            obtain ⟨y, hy, rfl⟩ := hx
            split
            · simp [hr.1]
            · exact h.rowLocal y hy
          · intro x hx
            simp only [List.mem_map] at hx
            obtain ⟨y, hy, rfl⟩ := hx
            split
            · exact ⟨hr.2.1, hr.2.2⟩
            · exact h.rowNamed y hy
          · intro x hx
            simp only [List.mem_map] at hx
            obtain ⟨y, hy, rfl⟩ := hx
            split
            · exact hlr
            · exact h.lowerRows y hy
        · -- a new row
          next hnew =>
          simp only [List.any_eq_true, decide_eq_true_eq, not_exists, not_and] at hnew
          refine ⟨h.names, h.entries, ?_, ?_, ?_, ?_, h.lowerEntries, ?_⟩
          · simp only
            rw [List.pairwise_append]
            refine ⟨h.rowIds, by simp, ?_⟩
            intro a ha b hb
            simp only [List.mem_singleton] at hb
            subst hb
            exact hnew a ha
          · simp only
            rw [List.pairwise_append]
            refine ⟨h.rowKeys, by simp, ?_⟩
            intro a ha b hb
            simp only [List.mem_singleton] at hb
            subst hb
            have := hdup a ha
            have := hnew a ha
            simp only
            grind
          · intro x hx
            rcases List.mem_append.mp hx with hx' | hx'
            · exact h.rowLocal x hx'
            · simp only [List.mem_singleton] at hx'
              subst hx'
              simp [hr.1]
          · intro x hx
            rcases List.mem_append.mp hx with hx' | hx'
            · exact h.rowNamed x hx'
            · simp only [List.mem_singleton] at hx'
              subst hx'
              exact ⟨hr.2.1, hr.2.2⟩
          · intro x hx
            rcases List.mem_append.mp hx with hx' | hx'
            · exact h.lowerRows x hx'
            · simp only [List.mem_singleton] at hx'
              subst hx'
              exact hlr

theorem storeWF_legacyDelete {st : Store} (h : StoreWF st) (id : Name) : StoreWF (legacyDelete st id).1 := by
  unfold legacyDelete
  split
  · exact h
  · exact ⟨h.names, h.entries, h.rowIds.filter _, h.rowKeys.filter _,
      fun x hx => h.rowLocal x (List.mem_filter.mp hx).1, fun x hx => h.rowNamed x (List.mem_filter.mp hx).1,
      h.lowerEntries, fun x hx => h.lowerRows x (List.mem_filter.mp hx).1⟩

theorem storeWF_empty (m : Bool) : StoreWF { cfgMode := m } :=
  ⟨by simp, by simp, by simp, by simp, by simp, by simp, by simp, by simp⟩

/-! ### histories -/

/-- legacy rows never carry a peer (`Intention.Apply` rejects `SourcePeer`; the legacy table predates
    peering) and name both ends (`Intention.Validate`: SourceName / DestinationName must be set); the
    names memdb lower-cases in index keys (entry / destination names, legacy row names) are lower case -/
def Op.local : Op → Prop
  | .lset _ r => (r.peer = [] ∧ r.src ≠ [] ∧ r.dst ≠ []) ∧ Lower r.src ∧ Lower r.dst
  | .ent e => Lower e.name
  | .up dst _ => Lower dst
  | .lcreate dst _ => Lower dst
  | _ => True

theorem storeWF_applyOpE {st : Store} (h : StoreWF st) (o : Op) (ho : o.local) : StoreWF (applyOpE st o).1 := by
  cases o with
  | ent e => exact storeWF_applyEntry h e ho
  | entdel n => exact storeWF_deleteEntry h n
  | up dst v => exact storeWF_mutUpsert h dst v ho
  | del dst src => exact storeWF_mutDelete h dst src
  | lcreate dst v => exact storeWF_mutLegacyCreate h dst v ho
  | lupdate id v => exact storeWF_mutLegacyUpdate h id v
  | ldelid id => exact storeWF_mutLegacyDelete h id
  | lset id r => exact storeWF_legacySet h id r ho.1 ho.2
  | ldel id => exact storeWF_legacyDelete h id

theorem storeWF_run {st : Store} (h : StoreWF st) (ops : List Op) (ho : ∀ o ∈ ops, o.local) : StoreWF (run st ops) := by
  induction ops generalizing st with
  | nil => exact h
  | cons o os ih =>
    simp only [run, List.foldl_cons]
    exact ih (storeWF_applyOpE h o (ho o List.mem_cons_self)) (fun x hx => ho x (List.mem_cons_of_mem _ hx))

theorem storeWF_runE {st st' : Store} (h : StoreWF st) (ops : List Op) (ho : ∀ o ∈ ops, o.local)
    (hr : runE st ops = some st') : StoreWF st' := by
  induction ops generalizing st with
  | nil => simp [runE] at hr; subst hr; exact h
  | cons o os ih =>
    unfold runE at hr
    have hw := storeWF_applyOpE h o (ho o List.mem_cons_self)
    split at hr
    · next st1 heq =>
      rw [heq] at hw
      exact ih hw (fun x hx => ho x (List.mem_cons_of_mem _ hx)) hr
    · cases hr

/-! ### answers depend only on the set of stored intentions -/

/-- the two stores hold the same intentions (in whatever representation, entry order, source order) -/
def SameSet (a b : Store) : Prop := ∀ i, i ∈ flatten a ↔ i ∈ flatten b

/-- the answers a store gives: the full list, every match list, both decisions -/
def SameAnswers (a b : Store) : Prop :=
  listAll a = listAll b ∧
  (∀ side n, Lower n → matchList a side n = matchList b side n) ∧
  (∀ s d da ap, Lower s → checkDecision a s d da ap = checkDecision b s d da ap) ∧
  (∀ peer s d da ap, Lower d → authzDecision a peer s d da ap = authzDecision b peer s d da ap)

theorem sameSet_of_listAll_eq {a b : Store} (h : listAll a = listAll b) : SameSet a b := by
  intro i
  have ha : i ∈ listAll a ↔ i ∈ flatten a := mem_isort
  have hb : i ∈ listAll b ↔ i ∈ flatten b := mem_isort
  rw [← ha, ← hb, h]

theorem inMatch_congr {F G : List Ixn} (h : ∀ i, i ∈ F ↔ i ∈ G) (side : Side) (n : Name) (i : Ixn) :
    inMatch F side n i ↔ inMatch G side n i := by
  unfold inMatch
  cases side <;> simp only [h]

theorem sortIxns_ext {R S : List Ixn} (hR : KeysNodup R) (hS : KeysNodup S) (h : ∀ i, i ∈ R ↔ i ∈ S) :
    sortIxns R = sortIxns S := by
  have hp : R.Perm S := (List.perm_ext_iff_of_nodup hR.nodup hS.nodup).mpr h
  apply isort_perm_invariant less_strictWeak hp
  intro a ha b hb h1 h2
  exact hR.keyInj a ha b hb (less_tri h1 h2).2

theorem matchList_sameSet {a b : Store} (ha : StoreWF a) (hb : StoreWF b) (h : SameSet a b) (side : Side) (n : Name)
    (hn : Lower n) : matchList a side n = matchList b side n := by
  obtain ⟨R, hR, hRk, hRm⟩ := matchList_eq_sort ha side n hn
  obtain ⟨S, hS, hSk, hSm⟩ := matchList_eq_sort hb side n hn
  rw [hR, hS]
  apply sortIxns_ext hRk hSk
  intro i
  rw [hRm, hSm]
  exact inMatch_congr h side n i

theorem listAll_sameSet {a b : Store} (ha : StoreWF a) (hb : StoreWF b) (h : SameSet a b) :
    listAll a = listAll b :=
  sortIxns_ext (flatten_keysNodup ha) (flatten_keysNodup hb) h

end CV.Ixn
