/-
Helper lemmas for C20 (CV.Tar): characterisations of the `read` loop and of
`DecodeAndVerify`, the SHA256SUMS encode/scan round trip, and the ustar layout facts.
-/
import CV.Tar
set_option linter.unusedSectionVars false
set_option linter.unusedVariables false
namespace CV.Tar
open CV

variable {M : Type}

theorem nMeta_ne_nState : nMeta ≠ nState := by decide
theorem nMeta_ne_nSums : nMeta ≠ nSums := by decide
theorem nState_ne_nSums : nState ≠ nSums := by decide

/-! ### the loop of `read` -/

theorem loop_ok_iff (apply : M → Bytes → Option M) (ms : List Member) (e : Ending) (a a' : Acc M) :
    loop apply ms e a = .ok a' ↔
      e = .eof ∧ Clean ms ∧ foldApply apply a.md (metas ms) = some a'.md ∧
      a'.metaB = a.metaB ++ cat nMeta ms ∧ a'.stateB = a.stateB ++ cat nState ms ∧
      a'.sumsB = a.sumsB ++ cat nSums ms ∧
      (a'.sawMeta = true ↔ a.sawMeta = true ∨ Has nMeta ms) ∧
      (a'.sawState = true ↔ a.sawState = true ∨ Has nState ms) := by
  fun_induction loop apply ms e a generalizing a'
  case case1 a =>
    cases a; cases a'
    simp [Clean, cat, metas, foldApply, Has]
    grind
  case case2 => simp
  all_goals
    have h1 := nMeta_ne_nState
    have h2 := nMeta_ne_nSums
    have h3 := nState_ne_nSums
    simp_all [Clean, cat, metas, foldApply, Has]
    try grind

/-! ### `DecodeAndVerify` -/

/-- generalised over the two "seen" flags -/
theorem checkLines_ok_iff (hm hs : Bytes) (ls : List Bytes) (sm ss : Bool) :
    checkLines hm hs ls sm ss = .ok () ↔
      ∃ es, parseLines ls = some es ∧ (∀ e ∈ es, e = (hm, nMeta) ∨ e = (hs, nState)) ∧
        (sm = true ∨ (hm, nMeta) ∈ es) ∧ (ss = true ∨ (hs, nState) ∈ es) := by
  fun_induction checkLines hm hs ls sm ss
  all_goals
    have h1 := nMeta_ne_nState
    simp_all [parseLines]
    try grind

theorem verify_ok_iff (H : Bytes → Bytes) (a : Acc M) :
    verify H a = .ok () ↔ SumsOK (H a.metaB) (H a.stateB) a.sumsB := by
  simp [verify, SumsOK, parseSums, checkLines_ok_iff]

/-- `read` accepts exactly the streams that end cleanly, consist of complete members with the
    three known names, whose meta.json payloads all decode, whose SHA256SUMS text lists
    exactly the digests of the concatenated meta.json and state.bin payloads, and that contain
    at least one meta.json and one state.bin member. -/
theorem readStream_ok_iff (H : Bytes → Bytes) (apply : M → Bytes → Option M) (m0 m : M)
    (s : Stream) (st : Bytes) :
    readStream H apply m0 s = .ok (m, st) ↔
      s.ending = .eof ∧ Clean s.members ∧ foldApply apply m0 (metas s.members) = some m ∧
      st = cat nState s.members ∧
      SumsOK (H (cat nMeta s.members)) (H (cat nState s.members)) (cat nSums s.members) ∧
      Has nMeta s.members ∧ Has nState s.members := by
  unfold readStream
  cases hl : loop apply s.members s.ending ⟨m0, [], [], [], false, false⟩ with
  | error e =>
    simp only [reduceCtorEq, false_iff]
    intro ⟨he, hc, hf, hst, hs, h1, h2⟩
    have := (loop_ok_iff apply s.members s.ending ⟨m0, [], [], [], false, false⟩
      ⟨m, cat nMeta s.members, cat nState s.members, cat nSums s.members, true, true⟩).mpr
      ⟨he, hc, hf, by simp, by simp, by simp, by simp [h1], by simp [h2]⟩
    rw [hl] at this; cases this
  | ok a =>
    obtain ⟨he, hc, hf, hm, hs, hu, hsm, hss⟩ := (loop_ok_iff apply s.members s.ending _ a).mp hl
    simp only [List.nil_append, Bool.false_eq_true, false_or] at hm hs hu hsm hss
    cases hv : verify H a with
    | error e =>
      simp only [hv, reduceCtorEq, false_iff]
      intro ⟨_, _, _, _, hso, _, _⟩
      have := (verify_ok_iff H a).mpr (by rw [hm, hs, hu]; exact hso)
      rw [hv] at this; cases this
    | ok u =>
      have hso := (verify_ok_iff H a).mp (by rw [hv])
      rw [hm, hs, hu] at hso
      simp only [hv]
      by_cases h1 : a.sawMeta = false
      · have : ¬ Has nMeta s.members := by rw [← hsm, h1]; simp
        simp [h1, this]
      by_cases h2 : a.sawState = false
      · have : ¬ Has nState s.members := by rw [← hss, h2]; simp
        simp [h1, h2, this]
      have e1 : a.sawMeta = true := by simpa using h1
      have e2 : a.sawState = true := by simpa using h2
      simp only [e1, e2, Bool.true_eq_false, if_false, Except.ok.injEq, Prod.mk.injEq]
      have g1 : Has nMeta s.members := hsm.mp e1
      have g2 : Has nState s.members := hss.mp e2
      constructor
      · rintro ⟨rfl, rfl⟩
        exact ⟨he, hc, hf, hs, hso, g1, g2⟩
      · rintro ⟨_, _, hf', hst, _⟩
        rw [hf] at hf'
        exact ⟨Option.some.inj hf', by rw [hst, hs]⟩

/-- which error: a stream that passes everything else but lacks a member -/
theorem readStream_missing (H : Bytes → Bytes) (apply : M → Bytes → Option M) (m0 m : M)
    (s : Stream)
    (he : s.ending = .eof) (hc : Clean s.members) (hf : foldApply apply m0 (metas s.members) = some m)
    (hs : SumsOK (H (cat nMeta s.members)) (H (cat nState s.members)) (cat nSums s.members)) :
    (¬ Has nMeta s.members → readStream H apply m0 s = .error .missingMeta) ∧
    (Has nMeta s.members → ¬ Has nState s.members → readStream H apply m0 s = .error .missingState) := by
  have hex : ∃ a, loop apply s.members s.ending ⟨m0, [], [], [], false, false⟩ = .ok a := by
    classical
    exact ⟨_, (loop_ok_iff apply s.members s.ending ⟨m0, [], [], [], false, false⟩
      ⟨m, cat nMeta s.members, cat nState s.members, cat nSums s.members,
        decide (Has nMeta s.members), decide (Has nState s.members)⟩).mpr
      ⟨he, hc, hf, by simp, by simp, by simp, by simp, by simp⟩⟩
  obtain ⟨a, hl⟩ := hex
  unfold readStream
  rw [hl]
  · simp only
    obtain ⟨_, _, _, hm, hst, hu, hsm, hss⟩ := (loop_ok_iff apply s.members s.ending _ a).mp hl
    simp only [List.nil_append, Bool.false_eq_true, false_or] at hm hst hu hsm hss
    have hv : verify H a = .ok () := (verify_ok_iff H a).mpr (by rw [hm, hst, hu]; exact hs)
    simp only [hv]
    constructor
    · intro h1
      have : a.sawMeta = false := by
        cases h : a.sawMeta with
        | false => rfl
        | true => exact absurd (hsm.mp h) h1
      simp [this]
    · intro h1 h2
      have e1 : a.sawMeta = true := hsm.mpr h1
      have e2 : a.sawState = false := by
        cases h : a.sawState with
        | false => rfl
        | true => exact absurd (hss.mp h) h2
      simp [e1, e2]

/-! ### `hashList.Encode` output scans back (`Sscanf` ∘ `Fprintf`) -/

theorem hexVal_hexChar (n : Nat) (h : n < 16) : hexVal (hexChar n) = some n := by
  unfold hexVal hexChar
  by_cases h10 : n < 10
  · have : 48 ≤ 48 + n ∧ 48 + n ≤ 57 := by omega
    simp [h10, this]
  · have a : ¬ (48 ≤ 87 + n ∧ 87 + n ≤ 57) := by omega
    have b : 97 ≤ 87 + n ∧ 87 + n ≤ 102 := by omega
    rw [if_neg h10, if_neg a, if_pos b]
    congr 1; omega

theorem hexChar_range (n : Nat) (h : n < 16) : 48 ≤ hexChar n ∧ hexChar n ≤ 102 := by
  unfold hexChar; split <;> omega

theorem spaceWidth_ascii (b : Nat) (rest : Bytes) (h1 : 33 ≤ b) (h2 : b < 128) :
    spaceWidth (b :: rest) = 0 := by
  unfold spaceWidth
  have : ¬ ((9 ≤ b ∧ b ≤ 13) ∨ b = 32) := by omega
  have a1 : b ≠ 0xC2 := by omega
  have a2 : b ≠ 0xE1 := by omega
  have a3 : b ≠ 0xE2 := by omega
  have a4 : b ≠ 0xE3 := by omega
  simp [this, a1, a2, a3, a4]

theorem skipSpaces_of_width0 (l : Bytes) (h : spaceWidth l = 0) : skipSpaces l = l := by
  cases l with
  | nil => simp [skipSpaces, skipAux]
  | cons b rest => simp [skipSpaces, skipAux, h]

theorem hexPairs_nonhex (c : Nat) (r : Bytes) (h : hexVal c = none) :
    hexPairs (c :: r) = some ([], c :: r) := by
  cases r with
  | nil => simp [hexPairs, h]
  | cons c2 r2 => simp [hexPairs, h]

theorem hexPairs_hexEnc (d : Bytes) (hd : ∀ b ∈ d, b < 256) (c : Nat) (r : Bytes)
    (h : hexVal c = none) : hexPairs (hexEnc d ++ c :: r) = some (d, c :: r) := by
  induction d with
  | nil => simpa [hexEnc] using hexPairs_nonhex c r h
  | cons b bs ih =>
    have hb : b < 256 := hd b (List.mem_cons_self ..)
    have ih' := ih (fun x hx => hd x (List.mem_cons_of_mem _ hx))
    have e1 := hexVal_hexChar (b / 16) (by omega)
    have e2 := hexVal_hexChar (b % 16) (by omega)
    simp only [hexEnc, List.cons_append, hexPairs, e1, e2, ih']
    have : b / 16 * 16 + b % 16 = b := by omega
    simp [this]

theorem hexEnc_length (d : Bytes) : (hexEnc d).length = 2 * d.length := by
  induction d with
  | nil => rfl
  | cons b bs ih => simp [hexEnc, ih]; omega

theorem hexEnc_no_nl (d : Bytes) (hd : ∀ b ∈ d, b < 256) : (10 : Nat) ∉ hexEnc d := by
  induction d with
  | nil => simp [hexEnc]
  | cons b bs ih =>
    have hb : b < 256 := hd b (List.mem_cons_self ..)
    have r1 := hexChar_range (b / 16) (by omega)
    have r2 := hexChar_range (b % 16) (by omega)
    have ih' := ih (fun x hx => hd x (List.mem_cons_of_mem _ hx))
    simp only [hexEnc, List.mem_cons, not_or]
    exact ⟨by omega, by omega, ih'⟩

/-- one encoded line, without its newline, scans back to the digest and the name -/
theorem scanLine_encoded (d nm : Bytes) (hd : DigestOK d) (hn : nm = nMeta ∨ nm = nState) :
    scanLine (hexEnc d ++ ([32, 32] ++ nm)) = some (d, nm) := by
  obtain ⟨hlen, hb⟩ := hd
  have hp := hexPairs_hexEnc d hb 32 (32 :: nm) (by decide)
  have hne : d ≠ [] := by intro h; rw [h] at hlen; simp at hlen
  -- the line starts with a hex digit, so nothing is skipped
  have hskip : skipSpaces (hexEnc d ++ ([32, 32] ++ nm)) = hexEnc d ++ ([32, 32] ++ nm) := by
    apply skipSpaces_of_width0
    cases d with
    | nil => exact absurd rfl hne
    | cons b bs =>
      have hb' : b < 256 := hb b (List.mem_cons_self ..)
      have r1 := hexChar_range (b / 16) (by omega)
      simp only [hexEnc, List.cons_append]
      exact spaceWidth_ascii _ _ (by omega) (by omega)
  have hne2 : hexEnc d ++ ([32, 32] ++ nm) ≠ [] := by simp
  unfold scanLine
  simp only [hskip, hne2, if_false]
  simp only [List.cons_append, List.nil_append] at hp ⊢
  rw [hp]
  simp only [hne, if_false]
  have t1 : skipSpaces (32 :: 32 :: nMeta) = nMeta := by decide
  have t2 : skipSpaces (32 :: 32 :: nState) = nState := by decide
  have u1 : takeToken nMeta = nMeta := by decide
  have u2 : takeToken nState = nState := by decide
  have w1 : spaceWidth (32 :: 32 :: nMeta) = 1 := by decide
  have w2 : spaceWidth (32 :: 32 :: nState) = 1 := by decide
  rcases hn with rfl | rfl
  · simp only [w1, t1, u1]; simp [nMeta]
  · simp only [w2, t2, u2]; simp [nState]

theorem dropCR_encoded (x nm : Bytes) (hn : nm = nMeta ∨ nm = nState) :
    dropCR (x ++ ([32, 32] ++ nm)) = x ++ ([32, 32] ++ nm) := by
  unfold dropCR
  rcases hn with rfl | rfl <;> simp [nMeta, nState, List.getLast?_append]

theorem splitAux_line (l rest cur : Bytes) (h : (10 : Nat) ∉ l) :
    splitAux (l ++ 10 :: rest) cur = (cur.reverse ++ l) :: splitAux rest [] := by
  induction l generalizing cur with
  | nil => simp [splitAux]
  | cons b bs ih =>
    have hb : b ≠ 10 := by intro e; apply h; simp [e]
    have hbs : (10 : Nat) ∉ bs := by intro e; apply h; simp [e]
    simp [splitAux, hb, ih _ hbs]

theorem name_no_nl (nm : Bytes) (hn : nm = nMeta ∨ nm = nState) : (10 : Nat) ∉ ([32, 32] ++ nm) := by
  rcases hn with rfl | rfl <;> decide

theorem parseSums_line (d nm : Bytes) (hd : DigestOK d) (hn : nm = nMeta ∨ nm = nState) (rest : Bytes) :
    parseSums (sumsLine d nm ++ rest) = (parseSums rest).map ((d, nm) :: ·) := by
  have hnl : (10 : Nat) ∉ hexEnc d ++ ([32, 32] ++ nm) := by
    intro h
    rcases List.mem_append.mp h with h | h
    · exact hexEnc_no_nl d hd.2 h
    · exact name_no_nl nm hn h
  have hsplit : splitLines (sumsLine d nm ++ rest) = (hexEnc d ++ ([32, 32] ++ nm)) :: splitLines rest := by
    have := splitAux_line (hexEnc d ++ ([32, 32] ++ nm)) rest [] hnl
    simp only [List.reverse_nil, List.nil_append] at this
    simp only [splitLines, sumsLine]
    rw [← this]
    simp
  have hlen : ¬ 65536 ≤ (hexEnc d ++ ([32, 32] ++ nm)).length := by
    have := hexEnc_length d
    rcases hn with rfl | rfl <;> simp [this, hd.1, nMeta, nState]
  unfold parseSums
  rw [hsplit]
  simp only [parseLines, hlen, if_false, dropCR_encoded _ _ hn, scanLine_encoded d nm hd hn]
  cases parseLines (splitLines rest) <;> simp

theorem parseSums_nil : parseSums [] = some [] := by
  simp [parseSums, splitLines, splitAux, parseLines]

/-- what `write` puts into SHA256SUMS parses to exactly the two entries, in either map order -/
theorem parseSums_encodeSums (swap : Bool) (hm hs : Bytes) (h1 : DigestOK hm) (h2 : DigestOK hs) :
    parseSums (encodeSums swap hm hs) =
      some (if swap then [(hs, nState), (hm, nMeta)] else [(hm, nMeta), (hs, nState)]) := by
  have e : ∀ (d nm : Bytes), sumsLine d nm = sumsLine d nm ++ [] := by simp
  cases swap
  · simp only [encodeSums, Bool.false_eq_true, if_false]
    rw [parseSums_line hm nMeta h1 (Or.inl rfl), e hs nState, parseSums_line hs nState h2 (Or.inr rfl),
      parseSums_nil]
    rfl
  · simp only [encodeSums, if_true]
    rw [parseSums_line hs nState h2 (Or.inr rfl), e hm nMeta, parseSums_line hm nMeta h1 (Or.inl rfl),
      parseSums_nil]
    rfl

theorem sumsOK_encodeSums (swap : Bool) (hm hs : Bytes) (h1 : DigestOK hm) (h2 : DigestOK hs) :
    SumsOK hm hs (encodeSums swap hm hs) := by
  refine ⟨_, parseSums_encodeSums swap hm hs h1 h2, ?_, ?_, ?_⟩ <;> cases swap <;> simp

/-! ### ustar layout -/

theorem layoutFrom_contig (i off : Nat) (sizes : List Nat) :
    Contig off (layoutFrom i off sizes) (off + total sizes) := by
  induction sizes generalizing i off with
  | nil => simp [layoutFrom, Contig, total]
  | cons n ns ih =>
    have := ih (i + 1) (off + slot n)
    simp only [layoutFrom, Contig, total, true_and]
    have e1 : off + 512 + n + padLen n = off + slot n := by simp [slot]; omega
    have e2 : off + (slot n + total ns) = off + slot n + total ns := by omega
    rw [e1, e2]; exact this

theorem contig_bounds {a b : Nat} {rs : List Region} (h : Contig a rs b) :
    a ≤ b ∧ ∀ r ∈ rs, a ≤ r.start ∧ r.start + r.len ≤ b := by
  induction rs generalizing a with
  | nil => simp [Contig] at h; subst h; simp
  | cons r rs ih =>
    obtain ⟨h1, h2⟩ := h
    obtain ⟨i1, i2⟩ := ih h2
    refine ⟨by omega, ?_⟩
    intro x hx
    rcases List.mem_cons.mp hx with rfl | hx
    · omega
    · have := i2 x hx; omega

theorem contains_iff (r : Region) (p : Nat) : r.contains p = true ↔ r.start ≤ p ∧ p < r.start + r.len := by
  simp [Region.contains]

/-- consecutive regions cover every position between their ends exactly once -/
theorem contig_cover {a b : Nat} {rs : List Region} (h : Contig a rs b) (p : Nat) (ha : a ≤ p) (hb : p < b) :
    ∃ r ∈ rs, r.contains p = true ∧ ∀ r' ∈ rs, r'.contains p = true → r' = r := by
  induction rs generalizing a with
  | nil => simp [Contig] at h; omega
  | cons r rs ih =>
    obtain ⟨h1, h2⟩ := h
    by_cases hp : p < a + r.len
    · refine ⟨r, List.mem_cons_self .., (contains_iff r p).mpr (by omega), ?_⟩
      intro r' hr' hc
      rcases List.mem_cons.mp hr' with rfl | hr'
      · rfl
      · have := (contig_bounds h2).2 r' hr'
        have := (contains_iff r' p).mp hc
        omega
    · obtain ⟨x, hx, hxc, hxu⟩ := ih h2 (by omega)
      refine ⟨x, List.mem_cons_of_mem _ hx, hxc, ?_⟩
      intro r' hr' hc
      rcases List.mem_cons.mp hr' with rfl | hr'
      · have := (contains_iff r' p).mp hc; omega
      · exact hxu r' hr' hc

theorem classify_eq_some {sizes : List Nat} {p : Nat} {r : Region} (hr : r ∈ layout sizes)
    (hc : r.contains p = true) (hu : ∀ r' ∈ layout sizes, r'.contains p = true → r' = r) :
    classify sizes p = some r.cls := by
  unfold classify
  cases hf : (layout sizes).find? (·.contains p) with
  | none =>
    have := List.find?_eq_none.mp hf r hr
    simp [hc] at this
  | some x =>
    have hx := List.mem_of_find?_eq_some hf
    have hxc := List.find?_some hf
    simp [hu x hx hxc]

/-! ### truncation -/

theorem lastDataEnd_ge (off n : Nat) (ns : List Nat) : off + 512 ≤ lastDataEnd off (n :: ns) := by
  induction ns generalizing off n with
  | nil => simp [lastDataEnd]
  | cons m ns ih =>
    have := ih (off + slot n) m
    simp only [lastDataEnd]
    have : 0 ≤ slot n := Nat.zero_le _
    omega

theorem truncFrom_nil_members (off cut : Nat) : (truncFrom off [] cut).members = [] := by
  unfold truncFrom
  split; · rfl
  split; · rfl
  split; · rfl
  split <;> rfl

/-- cut before the last member's data is complete: the reader fails, or ends cleanly having
    seen only a strict prefix of the members -/
theorem truncFrom_before_last (off : Nat) (ms : List (Bytes × Bytes)) (cut : Nat)
    (h : cut < lastDataEnd off (sizesOf ms)) :
    (truncFrom off ms cut).ending = .err ∨
      ∃ k, k < ms.length ∧ truncFrom off ms cut = ⟨(ms.take k).map full, .eof⟩ := by
  induction ms generalizing off with
  | nil => simp [sizesOf, lastDataEnd] at h
  | cons x ms ih =>
    unfold truncFrom
    by_cases c1 : cut ≤ off
    · right; exact ⟨0, by simp, by simp [c1]⟩
    by_cases c2 : cut < off + 512
    · left; simp [c1, c2]
    by_cases c3 : cut < off + 512 + x.2.length
    · left; simp [c1, c2, c3]
    cases ms with
    | nil =>
      simp [sizesOf, lastDataEnd] at h
      omega
    | cons y ms' =>
      by_cases c4 : cut < off + slot x.2.length
      · right; exact ⟨1, by simp, by simp [c1, c2, c3, c4]⟩
      · have h' : cut < lastDataEnd (off + slot x.2.length) (sizesOf (y :: ms')) := by
          simpa [sizesOf, lastDataEnd] using h
        simp only [c1, c2, c3, c4, if_false]
        rcases ih (off + slot x.2.length) h' with he | ⟨k, hk, hs⟩
        · left; simpa [consM] using he
        · right
          refine ⟨k + 1, by simpa using hk, ?_⟩
          rw [hs]; simp [consM]

/-- cut at or after the end of the last member's data: every member is seen complete -/
theorem truncFrom_after_last (off : Nat) (ms : List (Bytes × Bytes)) (cut : Nat)
    (h : lastDataEnd off (sizesOf ms) ≤ cut) :
    (truncFrom off ms cut).members = ms.map full := by
  induction ms generalizing off with
  | nil => simpa using truncFrom_nil_members off cut
  | cons x ms ih =>
    cases ms with
    | nil =>
      simp [sizesOf, lastDataEnd] at h
      unfold truncFrom
      have c1 : ¬ cut ≤ off := by omega
      have c2 : ¬ cut < off + 512 := by omega
      have c3 : ¬ cut < off + 512 + x.2.length := by omega
      by_cases c4 : cut < off + slot x.2.length
      · simp [c1, c2, c3, c4]
      · simp [c1, c2, c3, c4, consM, truncFrom_nil_members]
    | cons y ms' =>
      have h' : lastDataEnd (off + slot x.2.length) (sizesOf (y :: ms')) ≤ cut := by
        simpa [sizesOf, lastDataEnd] using h
      have hg := lastDataEnd_ge (off + slot x.2.length) y.2.length (sizesOf ms')
      have hs : slot x.2.length = 512 + x.2.length + padLen x.2.length := rfl
      have hg' : off + slot x.2.length + 512 ≤ cut := by
        have : sizesOf (y :: ms') = y.2.length :: sizesOf ms' := rfl
        rw [this] at h'; omega
      unfold truncFrom
      have c1 : ¬ cut ≤ off := by omega
      have c2 : ¬ cut < off + 512 := by omega
      have c3 : ¬ cut < off + 512 + x.2.length := by omega
      have c4 : ¬ cut < off + slot x.2.length := by omega
      simp only [c1, c2, c3, c4, if_false, consM]
      rw [ih (off + slot x.2.length) h']
      simp

/-! ### single-byte changes -/

theorem setByte_cons_succ (x : Bytes × Bytes) (ms : List (Bytes × Bytes)) (i k val : Nat) :
    setByte (x :: ms) (i + 1) k val = x :: setByte ms i k val := by
  simp only [setByte, List.getElem?_cons_succ]
  cases ms[i]? <;> simp

/-- every view after a single-byte change: the reader fails, or nothing changed for it, or
    exactly one data byte of one member changed -/
theorem flipFrom_shape (val off : Nat) (ms : List (Bytes × Bytes)) (pos : Nat) :
    ∀ v ∈ flipFrom val off ms pos,
      v.ending = .err ∨ v = ⟨ms.map full, .eof⟩ ∨
      ∃ i k, i < ms.length ∧ v = ⟨(setByte ms i k val).map full, .eof⟩ := by
  induction ms generalizing off with
  | nil =>
    intro v hv
    unfold flipFrom at hv
    split at hv <;> simp at hv <;> subst hv <;> simp
  | cons x ms ih =>
    intro v hv
    unfold flipFrom at hv
    split at hv
    · split at hv
      · simp at hv
        rcases hv with rfl | rfl
        · right; left; rfl
        · left; rfl
      · simp at hv; subst hv; left; rfl
    · split at hv
      · simp at hv; subst hv
        right; right
        refine ⟨0, pos - (off + 512), by simp, ?_⟩
        simp [setByte, full]
      · split at hv
        · simp at hv; subst hv; right; left; rfl
        · simp only [List.mem_map] at hv
          obtain ⟨w, hw, rfl⟩ := hv
          rcases ih _ w hw with h | h | ⟨i, k, hi, h⟩
          · left; simpa [consM] using h
          · right; left; subst h; simp [consM]
          · right; right
            refine ⟨i + 1, k, by simpa using hi, ?_⟩
            subst h
            simp [consM, setByte_cons_succ]

theorem cat_map_full_setByte_other (ms : List (Bytes × Bytes)) (i k val : Nat) (nm : Bytes)
    (h : ∀ x, ms[i]? = some x → x.1 ≠ nm) :
    cat nm ((setByte ms i k val).map full) = cat nm (ms.map full) := by
  induction ms generalizing i with
  | nil => simp [setByte]
  | cons y ys ih =>
    cases i with
    | zero =>
      have hy : y.1 ≠ nm := h y (by simp)
      simp [setByte, cat, full, hy]
    | succ j =>
      rw [setByte_cons_succ]
      have := ih j (fun x hx => h x (by simpa using hx))
      simp only [cat, List.map_cons, List.filter_cons] at this ⊢
      split <;> simp_all

theorem metas_map_full_setByte_other (ms : List (Bytes × Bytes)) (i k val : Nat)
    (h : ∀ x, ms[i]? = some x → x.1 ≠ nMeta) :
    metas ((setByte ms i k val).map full) = metas (ms.map full) := by
  induction ms generalizing i with
  | nil => simp [setByte]
  | cons y ys ih =>
    cases i with
    | zero =>
      have hy : y.1 ≠ nMeta := h y (by simp)
      simp [setByte, metas, full, hy]
    | succ j =>
      rw [setByte_cons_succ]
      have := ih j (fun x hx => h x (by simpa using hx))
      simp only [metas, List.map_cons, List.filter_cons] at this ⊢
      split <;> simp_all

theorem clean_map_full_setByte (ms : List (Bytes × Bytes)) (i k val : Nat) :
    Clean ((setByte ms i k val).map full) ↔ Clean (ms.map full) := by
  induction ms generalizing i with
  | nil => simp [setByte]
  | cons y ys ih =>
    cases i with
    | zero => simp [setByte, Clean, full]
    | succ j =>
      rw [setByte_cons_succ]
      have := ih j
      simp only [Clean, List.map_cons, List.forall_mem_cons] at this ⊢
      rw [this]

theorem classify_some_mem {sizes : List Nat} {p : Nat} {c : Cls} (h : classify sizes p = some c) :
    ∃ r ∈ layout sizes, r.contains p = true ∧ r.cls = c := by
  unfold classify at h
  cases hf : (layout sizes).find? (·.contains p) with
  | none => simp [hf] at h
  | some x =>
    simp [hf] at h
    exact ⟨x, List.mem_of_find?_eq_some hf, by simpa using List.find?_some hf, h⟩

theorem layoutFrom_cons (i off n : Nat) (ns : List Nat) :
    layoutFrom i off (n :: ns) =
      ⟨.header i, off, 512⟩ :: ⟨.data i, off + 512, n⟩ :: ⟨.pad i, off + 512 + n, padLen n⟩ ::
        layoutFrom (i + 1) (off + slot n) ns := rfl

/-- a changed padding byte changes nothing for the reader -/
theorem flipFrom_pad (val i off : Nat) (ms : List (Bytes × Bytes)) (pos : Nat) (r : Region)
    (hr : r ∈ layoutFrom i off (sizesOf ms)) (hc : r.contains pos = true) (hcls : ∃ j, r.cls = .pad j) :
    flipFrom val off ms pos = [⟨ms.map full, .eof⟩] := by
  induction ms generalizing i off with
  | nil =>
    simp [sizesOf, layoutFrom] at hr
    subst hr; obtain ⟨j, hj⟩ := hcls; cases hj
  | cons x ms ih =>
    have hsz : sizesOf (x :: ms) = x.2.length :: sizesOf ms := rfl
    rw [hsz, layoutFrom_cons] at hr
    have hcp := (contains_iff r pos).mp hc
    obtain ⟨j, hj⟩ := hcls
    simp only [List.mem_cons] at hr
    rcases hr with rfl | rfl | rfl | hr
    · cases hj
    · cases hj
    · simp only at hcp
      unfold flipFrom
      have c1 : ¬ pos < off + 512 := by omega
      have c2 : ¬ pos < off + 512 + x.2.length := by omega
      have c3 : pos < off + slot x.2.length := by simp only [slot]; omega
      simp [c1, c2, c3]
    · have hb := (contig_bounds (layoutFrom_contig (i + 1) (off + slot x.2.length) (sizesOf ms))).2 r hr
      have hs : slot x.2.length = 512 + x.2.length + padLen x.2.length := rfl
      unfold flipFrom
      have c1 : ¬ pos < off + 512 := by omega
      have c2 : ¬ pos < off + 512 + x.2.length := by omega
      have c3 : ¬ pos < off + slot x.2.length := by omega
      simp only [c1, c2, c3, if_false]
      rw [ih (i + 1) (off + slot x.2.length) hr]
      simp [consM]

/-- a changed data byte of member `j` changes exactly that byte for the reader -/
theorem flipFrom_data (val i off : Nat) (ms : List (Bytes × Bytes)) (pos : Nat) (r : Region) (j : Nat)
    (hr : r ∈ layoutFrom i off (sizesOf ms)) (hc : r.contains pos = true) (hcls : r.cls = .data j) :
    i ≤ j ∧ flipFrom val off ms pos = [⟨(setByte ms (j - i) (pos - r.start) val).map full, .eof⟩] := by
  induction ms generalizing i off with
  | nil =>
    simp [sizesOf, layoutFrom] at hr
    subst hr; cases hcls
  | cons x ms ih =>
    have hsz : sizesOf (x :: ms) = x.2.length :: sizesOf ms := rfl
    rw [hsz, layoutFrom_cons] at hr
    have hcp := (contains_iff r pos).mp hc
    simp only [List.mem_cons] at hr
    rcases hr with rfl | rfl | rfl | hr
    · cases hcls
    · simp only at hcp
      simp only [Cls.data.injEq] at hcls
      subst hcls
      refine ⟨Nat.le_refl _, ?_⟩
      unfold flipFrom
      have c1 : ¬ pos < off + 512 := by omega
      have c2 : pos < off + 512 + x.2.length := by omega
      simp [c1, c2, setByte, full]
    · cases hcls
    · have hb := (contig_bounds (layoutFrom_contig (i + 1) (off + slot x.2.length) (sizesOf ms))).2 r hr
      have hs : slot x.2.length = 512 + x.2.length + padLen x.2.length := rfl
      obtain ⟨hij, hf⟩ := ih (i + 1) (off + slot x.2.length) hr
      refine ⟨by omega, ?_⟩
      unfold flipFrom
      have c1 : ¬ pos < off + 512 := by omega
      have c2 : ¬ pos < off + 512 + x.2.length := by omega
      have c3 : ¬ pos < off + slot x.2.length := by omega
      simp only [c1, c2, c3, if_false]
      rw [hf]
      have : j - i = (j - (i + 1)) + 1 := by omega
      rw [this, setByte_cons_succ]
      simp [consM]

theorem cat_setData_other (ms : List Member) (i : Nat) (b' nm : Bytes) (x : Member)
    (hx : ms[i]? = some x) (hn : x.name ≠ nm) : cat nm (setData ms i b') = cat nm ms := by
  induction ms generalizing i with
  | nil => simp at hx
  | cons y ys ih =>
    cases i with
    | zero =>
      simp at hx; subst hx
      simp [setData, cat, hn]
    | succ j =>
      simp at hx
      have := ih j hx
      simp only [setData, hx, List.getElem?_cons_succ, List.set_cons_succ] at this ⊢
      simp only [cat, List.filter_cons] at this ⊢
      split <;> simp_all

/-! ### header block: checksum arithmetic -/

theorem slice_set_outside (lo hi : Nat) (l : Bytes) (i k v : Nat) (h : ¬ (lo ≤ i + k ∧ i + k < hi)) :
    slice lo hi i (l.set k v) = slice lo hi i l := by
  induction l generalizing i k with
  | nil => simp
  | cons b r ih =>
    cases k with
    | zero =>
      have h' : ¬ (lo ≤ i ∧ i < hi) := by simpa using h
      simp [slice, h']
    | succ k' =>
      have := ih (i + 1) k' (by intro hh; apply h; omega)
      simp only [List.set_cons_succ, slice, this]

theorem sumU_set_inside (l : Bytes) (i k v : Nat) (h : 148 ≤ i + k ∧ i + k < 156) :
    sumU i (l.set k v) = sumU i l := by
  induction l generalizing i k with
  | nil => simp
  | cons b r ih =>
    cases k with
    | zero =>
      have h' : 148 ≤ i ∧ i < 156 := by simpa using h
      simp [sumU, h']
    | succ k' =>
      have := ih (i + 1) k' (by omega)
      simp only [List.set_cons_succ, sumU, this]

theorem sumS_set_inside (l : Bytes) (i k v : Nat) (h : 148 ≤ i + k ∧ i + k < 156) :
    sumS i (l.set k v) = sumS i l := by
  induction l generalizing i k with
  | nil => simp
  | cons b r ih =>
    cases k with
    | zero =>
      have h' : 148 ≤ i ∧ i < 156 := by simpa using h
      simp [sumS, h']
    | succ k' =>
      have := ih (i + 1) k' (by omega)
      simp only [List.set_cons_succ, sumS, this]

theorem sumU_set_outside (l : Bytes) (i k v x : Nat) (hx : l[k]? = some x)
    (h : ¬ (148 ≤ i + k ∧ i + k < 156)) : sumU i (l.set k v) + x = sumU i l + v := by
  induction l generalizing i k with
  | nil => simp at hx
  | cons b r ih =>
    cases k with
    | zero =>
      have h' : ¬ (148 ≤ i ∧ i < 156) := by simpa using h
      simp at hx; subst hx
      simp [sumU, h']; omega
    | succ k' =>
      have := ih (i + 1) k' (by simpa using hx) (by intro hh; apply h; omega)
      simp only [List.set_cons_succ, sumU]; omega

theorem sumS_set_outside (l : Bytes) (i k v x : Nat) (hx : l[k]? = some x)
    (h : ¬ (148 ≤ i + k ∧ i + k < 156)) : sumS i (l.set k v) + sbyte x = sumS i l + sbyte v := by
  induction l generalizing i k with
  | nil => simp at hx
  | cons b r ih =>
    cases k with
    | zero =>
      have h' : ¬ (148 ≤ i ∧ i < 156) := by simpa using h
      simp at hx; subst hx
      simp [sumS, h']; omega
    | succ k' =>
      have := ih (i + 1) k' (by simpa using hx) (by intro hh; apply h; omega)
      simp only [List.set_cons_succ, sumS]; omega

theorem sumS_ascii (l : Bytes) (i : Nat) (h : ∀ b ∈ l, b < 128) : sumS i l = (sumU i l : Int) := by
  induction l generalizing i with
  | nil => simp [sumS, sumU]
  | cons b r ih =>
    have hb : b < 128 := h b (List.mem_cons_self ..)
    have := ih (i + 1) (fun x hx => h x (List.mem_cons_of_mem _ hx))
    simp only [sumS, sumU, this, sbyte, hb, if_true]
    split <;> simp

/-- the stored value of a block that passes the gate, for an ASCII block, is the unsigned sum -/
theorem checksumOK_ascii (blk : Bytes) (hascii : ∀ b ∈ blk, b < 128) :
    checksumOK blk = true ↔ parseOctal (chkField blk) = some (sumU 0 blk) := by
  unfold checksumOK
  have hs := sumS_ascii blk 0 hascii
  cases hp : parseOctal (chkField blk) with
  | none => simp
  | some w =>
    simp only [hs, Bool.or_eq_true, decide_eq_true_eq, Option.some.injEq]
    constructor
    · rintro (h | h)
      · exact h
      · exact Int.ofNat.inj h
    · intro h; left; exact h

/-- a single-byte change outside the checksum field of an ASCII block that passed the gate makes
    both sums differ from the stored value -/
theorem checksum_detects_change (blk : Bytes) (p v x : Nat) (hx : blk[p]? = some x)
    (hascii : ∀ b ∈ blk, b < 128) (hok : checksumOK blk = true)
    (hout : ¬ (148 ≤ p ∧ p < 156)) (hv : v ≠ x) (hv256 : v < 256) :
    checksumOK (blk.set p v) = false := by
  have hw := (checksumOK_ascii blk hascii).mp hok
  have hf : chkField (blk.set p v) = chkField blk := by
    unfold chkField; exact slice_set_outside 148 156 blk 0 p v (by simpa using hout)
  have hU := sumU_set_outside blk 0 p v x hx (by simpa using hout)
  have hS := sumS_set_outside blk 0 p v x hx (by simpa using hout)
  have hx128 : x < 128 := hascii x (List.mem_of_getElem? hx)
  have hSa := sumS_ascii blk 0 hascii
  unfold checksumOK
  rw [hf, hw]
  simp only [Bool.or_eq_false_iff, decide_eq_false_iff_not]
  refine ⟨by omega, ?_⟩
  intro h
  have hsx : sbyte x = (x : Int) := by simp [sbyte, hx128]
  rw [hsx, hSa] at hS
  unfold sbyte at hS
  split at hS <;> omega

/-- a change inside the checksum field leaves both sums alone: the block passes the gate exactly
    when the changed field still parses to the value stored before -/
theorem checksum_field_change (blk : Bytes) (p v : Nat) (hascii : ∀ b ∈ blk, b < 128)
    (hok : checksumOK blk = true) (hin : 148 ≤ p ∧ p < 156) :
    checksumOK (blk.set p v) = true ↔ parseOctal (chkField (blk.set p v)) = parseOctal (chkField blk) := by
  have hw := (checksumOK_ascii blk hascii).mp hok
  have hU := sumU_set_inside blk 0 p v (by simpa using hin)
  have hS := sumS_set_inside blk 0 p v (by simpa using hin)
  have hSa := sumS_ascii blk 0 hascii
  unfold checksumOK
  rw [hU, hS, hSa, hw]
  cases hp : parseOctal (chkField (blk.set p v)) with
  | none => simp
  | some w =>
    simp only [Bool.or_eq_true, decide_eq_true_eq, Option.some.injEq]
    constructor
    · rintro (h | h)
      · exact h
      · exact Int.ofNat.inj h
    · intro h; left; exact h

/-- every view of the header-aware single-byte model has the same three shapes -/
theorem flipFromH_shape (val off : Nat) (hs : List Bytes) (ms : List (Bytes × Bytes)) (pos : Nat) :
    ∀ v ∈ flipFromH val off hs ms pos,
      v.ending = .err ∨ v = ⟨ms.map full, .eof⟩ ∨
      ∃ i k, i < ms.length ∧ v = ⟨(setByte ms i k val).map full, .eof⟩ := by
  induction ms generalizing off hs with
  | nil =>
    intro v hv
    have : flipFromH val off hs [] pos = flipFrom val off [] pos := by
      cases hs <;> simp [flipFromH]
    rw [this] at hv
    exact flipFrom_shape val off [] pos v hv
  | cons x ms ih =>
    intro v hv
    cases hs with
    | nil =>
      have : flipFromH val off [] (x :: ms) pos = flipFrom val off (x :: ms) pos := by simp [flipFromH]
      rw [this] at hv
      exact flipFrom_shape val off (x :: ms) pos v hv
    | cons h hs =>
      unfold flipFromH at hv
      split at hv
      · split at hv
        · simp at hv; subst hv; right; left; rfl
        · simp at hv; subst hv; left; rfl
      · split at hv
        · exact flipFrom_shape val off (x :: ms) pos v hv
        · simp only [List.mem_map] at hv
          obtain ⟨w, hw, rfl⟩ := hv
          rcases ih _ hs w hw with h | h | ⟨i, k, hi, h⟩
          · left; simpa [consM] using h
          · right; left; subst h; simp [consM]
          · right; right
            refine ⟨i + 1, k, by simpa using hi, ?_⟩
            subst h
            simp [consM, setByte_cons_succ]

/-- a changed byte in the header of member `j`: decided by the checksum gate on that block -/
theorem flipFromH_header (val i off : Nat) (hs : List Bytes) (ms : List (Bytes × Bytes)) (pos : Nat)
    (r : Region) (j : Nat) (hlen : hs.length = ms.length)
    (hr : r ∈ layoutFrom i off (sizesOf ms)) (hc : r.contains pos = true) (hcls : r.cls = .header j) :
    i ≤ j ∧ ∃ h, hs[j - i]? = some h ∧
      flipFromH val off hs ms pos =
        if checksumOK (h.set (pos - r.start) val) then [⟨ms.map full, .eof⟩]
        else [⟨(ms.take (j - i)).map full, .err⟩] := by
  induction ms generalizing i off hs with
  | nil =>
    simp [sizesOf, layoutFrom] at hr
    subst hr; cases hcls
  | cons x ms ih =>
    cases hs with
    | nil => simp at hlen
    | cons h hs =>
      have hsz : sizesOf (x :: ms) = x.2.length :: sizesOf ms := rfl
      rw [hsz, layoutFrom_cons] at hr
      have hcp := (contains_iff r pos).mp hc
      simp only [List.mem_cons] at hr
      rcases hr with rfl | rfl | rfl | hr
      · simp only at hcp
        simp only [Cls.header.injEq] at hcls
        subst hcls
        refine ⟨Nat.le_refl _, h, by simp, ?_⟩
        unfold flipFromH
        have c1 : pos < off + 512 := by omega
        simp [c1]
      · cases hcls
      · cases hcls
      · have hb := (contig_bounds (layoutFrom_contig (i + 1) (off + slot x.2.length) (sizesOf ms))).2 r hr
        have hsl : slot x.2.length = 512 + x.2.length + padLen x.2.length := rfl
        obtain ⟨hij, h', hh', hf⟩ := ih (i + 1) (off + slot x.2.length) hs (by simpa using hlen) hr
        refine ⟨by omega, h', ?_, ?_⟩
        · have : j - i = (j - (i + 1)) + 1 := by omega
          rw [this]; simpa using hh'
        · unfold flipFromH
          have c1 : ¬ pos < off + 512 := by omega
          have c3 : ¬ pos < off + slot x.2.length := by omega
          simp only [c1, c3, if_false]
          rw [hf]
          have : j - i = (j - (i + 1)) + 1 := by omega
          rw [this]
          split <;> simp [consM]

end CV.Tar
