/-
Helper lemmas for C20 (CV.Tar): characterisations of the `read` loop and of
`DecodeAndVerify`, the SHA256SUMS encode/scan round trip, and the ustar layout facts.
-/
import CV.Tar
set_option linter.unusedSectionVars false
set_option linter.unusedVariables false
namespace CV.Tar
open CV

variable {M : Type}

theorem nMeta_ne_nState : nMeta ≠ nState := by decide
theorem nMeta_ne_nSums : nMeta ≠ nSums := by decide
theorem nState_ne_nSums : nState ≠ nSums := by decide

/-! ### the loop of `read` -/

theorem loop_ok_iff (apply : M → Bytes → Option M) (ms : List Member) (e : Ending) (a a' : Acc M) :
    loop apply ms e a = .ok a' ↔
      e = .eof ∧ Clean ms ∧ foldApply apply a.md (metas ms) = some a'.md ∧
      a'.metaB = a.metaB ++ cat nMeta ms ∧ a'.stateB = a.stateB ++ cat nState ms ∧
      a'.sumsB = a.sumsB ++ cat nSums ms := by
  fun_induction loop apply ms e a generalizing a'
  case case1 a =>
    cases a; cases a'
    simp [Clean, cat, metas, foldApply]
    grind
  case case2 => simp
  all_goals
    have h1 := nMeta_ne_nState
    have h2 := nMeta_ne_nSums
    have h3 := nState_ne_nSums
    simp_all [Clean, cat, metas, foldApply]
    try grind

/-! ### `DecodeAndVerify` -/

/-- generalised over the two "seen" flags -/
theorem checkLines_ok_iff (hm hs : Bytes) (ls : List Bytes) (sm ss : Bool) :
    checkLines hm hs ls sm ss = .ok () ↔
      ∃ es, parseLines ls = some es ∧ (∀ e ∈ es, e = (hm, nMeta) ∨ e = (hs, nState)) ∧
        (sm = true ∨ (hm, nMeta) ∈ es) ∧ (ss = true ∨ (hs, nState) ∈ es) := by
  fun_induction checkLines hm hs ls sm ss
  all_goals
    have h1 := nMeta_ne_nState
    simp_all [parseLines]
    try grind

theorem verify_ok_iff (H : Bytes → Bytes) (a : Acc M) :
    verify H a = .ok () ↔ SumsOK (H a.metaB) (H a.stateB) a.sumsB := by
  simp [verify, SumsOK, parseSums, checkLines_ok_iff]

/-- `read` accepts exactly the streams that end cleanly, consist of complete members with the
    three known names, whose meta.json payloads all decode, and whose SHA256SUMS text lists
    exactly the digests of the concatenated meta.json and state.bin payloads. -/
theorem readStream_ok_iff (H : Bytes → Bytes) (apply : M → Bytes → Option M) (m0 m : M)
    (s : Stream) (st : Bytes) :
    readStream H apply m0 s = .ok (m, st) ↔
      s.ending = .eof ∧ Clean s.members ∧ foldApply apply m0 (metas s.members) = some m ∧
      st = cat nState s.members ∧
      SumsOK (H (cat nMeta s.members)) (H (cat nState s.members)) (cat nSums s.members) := by
  unfold readStream
  cases hl : loop apply s.members s.ending ⟨m0, [], [], []⟩ with
  | error e =>
    simp only [reduceCtorEq, false_iff]
    intro ⟨he, hc, hf, hst, hs⟩
    have := (loop_ok_iff apply s.members s.ending ⟨m0, [], [], []⟩
      ⟨m, cat nMeta s.members, cat nState s.members, cat nSums s.members⟩).mpr
      ⟨he, hc, hf, by simp, by simp, by simp⟩
    rw [hl] at this; cases this
  | ok a =>
    obtain ⟨he, hc, hf, hm, hs, hu⟩ := (loop_ok_iff apply s.members s.ending _ a).mp hl
    simp only [List.nil_append] at hm hs hu
    cases hv : verify H a with
    | error e =>
      simp only [hv, reduceCtorEq, false_iff]
      intro ⟨_, _, _, _, hso⟩
      have := (verify_ok_iff H a).mpr (by rw [hm, hs, hu]; exact hso)
      rw [hv] at this; cases this
    | ok u =>
      have hso := (verify_ok_iff H a).mp (by rw [hv])
      rw [hm, hs, hu] at hso
      simp only [hv, Except.ok.injEq, Prod.mk.injEq]
      constructor
      · rintro ⟨rfl, rfl⟩
        exact ⟨he, hc, hf, hs, hso⟩
      · rintro ⟨_, _, hf', hst, _⟩
        rw [hf] at hf'
        exact ⟨Option.some.inj hf', by rw [hst, hs]⟩

/-! ### `hashList.Encode` output scans back (`Sscanf` ∘ `Fprintf`) -/

theorem hexVal_hexChar (n : Nat) (h : n < 16) : hexVal (hexChar n) = some n := by
  unfold hexVal hexChar
  split <;> split <;> first | (simp; omega) | (split <;> first | (simp; omega) | omega)

theorem hexChar_range (n : Nat) (h : n < 16) : 48 ≤ hexChar n ∧ hexChar n ≤ 102 := by
  unfold hexChar; split <;> omega

theorem spaceWidth_ascii (b : Nat) (rest : Bytes) (h1 : 33 ≤ b) (h2 : b < 128) :
    spaceWidth (b :: rest) = 0 := by
  unfold spaceWidth
  have : ¬ ((9 ≤ b ∧ b ≤ 13) ∨ b = 32) := by omega
  have a1 : b ≠ 0xC2 := by omega
  have a2 : b ≠ 0xE1 := by omega
  have a3 : b ≠ 0xE2 := by omega
  have a4 : b ≠ 0xE3 := by omega
  simp [this, a1, a2, a3, a4]

theorem skipSpaces_of_width0 (l : Bytes) (h : spaceWidth l = 0) : skipSpaces l = l := by
  cases l with
  | nil => simp [skipSpaces, skipAux]
  | cons b rest => simp [skipSpaces, skipAux, h]

theorem hexPairs_nonhex (c : Nat) (r : Bytes) (h : hexVal c = none) :
    hexPairs (c :: r) = some ([], c :: r) := by
  cases r with
  | nil => simp [hexPairs, h]
  | cons c2 r2 => simp [hexPairs, h]

theorem hexPairs_hexEnc (d : Bytes) (hd : ∀ b ∈ d, b < 256) (c : Nat) (r : Bytes)
    (h : hexVal c = none) : hexPairs (hexEnc d ++ c :: r) = some (d, c :: r) := by
  induction d with
  | nil => simpa [hexEnc] using hexPairs_nonhex c r h
  | cons b bs ih =>
    have hb : b < 256 := hd b (List.mem_cons_self ..)
    have ih' := ih (fun x hx => hd x (List.mem_cons_of_mem _ hx))
    have e1 := hexVal_hexChar (b / 16) (by omega)
    have e2 := hexVal_hexChar (b % 16) (by omega)
    simp only [hexEnc, List.cons_append, hexPairs, e1, e2, ih']
    have : b / 16 * 16 + b % 16 = b := by omega
    simp [this]

theorem hexEnc_length (d : Bytes) : (hexEnc d).length = 2 * d.length := by
  induction d with
  | nil => rfl
  | cons b bs ih => simp [hexEnc, ih]; omega

theorem hexEnc_no_nl (d : Bytes) (hd : ∀ b ∈ d, b < 256) : (10 : Nat) ∉ hexEnc d := by
  induction d with
  | nil => simp [hexEnc]
  | cons b bs ih =>
    have hb : b < 256 := hd b (List.mem_cons_self ..)
    have r1 := hexChar_range (b / 16) (by omega)
    have r2 := hexChar_range (b % 16) (by omega)
    have ih' := ih (fun x hx => hd x (List.mem_cons_of_mem _ hx))
    simp only [hexEnc, List.mem_cons, not_or]
    exact ⟨by omega, by omega, ih'⟩

/-- one encoded line, without its newline, scans back to the digest and the name -/
theorem scanLine_encoded (d nm : Bytes) (hd : DigestOK d) (hn : nm = nMeta ∨ nm = nState) :
    scanLine (hexEnc d ++ ([32, 32] ++ nm)) = some (d, nm) := by
  obtain ⟨hlen, hb⟩ := hd
  have hp := hexPairs_hexEnc d hb 32 (32 :: nm) (by decide)
  have hne : d ≠ [] := by intro h; rw [h] at hlen; simp at hlen
  -- the line starts with a hex digit, so nothing is skipped
  have hskip : skipSpaces (hexEnc d ++ ([32, 32] ++ nm)) = hexEnc d ++ ([32, 32] ++ nm) := by
    apply skipSpaces_of_width0
    cases d with
    | nil => exact absurd rfl hne
    | cons b bs =>
      have hb' : b < 256 := hb b (List.mem_cons_self ..)
      have r1 := hexChar_range (b / 16) (by omega)
      simp only [hexEnc, List.cons_append]
      exact spaceWidth_ascii _ _ (by omega) (by omega)
  have hne2 : hexEnc d ++ ([32, 32] ++ nm) ≠ [] := by simp
  unfold scanLine
  simp only [hskip, hne2, if_false]
  simp only [List.cons_append, List.nil_append] at hp ⊢
  rw [hp]
  simp only [hne, if_false]
  rcases hn with rfl | rfl <;> decide

theorem dropCR_encoded (x nm : Bytes) (hn : nm = nMeta ∨ nm = nState) :
    dropCR (x ++ ([32, 32] ++ nm)) = x ++ ([32, 32] ++ nm) := by
  unfold dropCR
  rcases hn with rfl | rfl <;> simp [nMeta, nState, List.getLast?_append]

theorem splitAux_line (l rest cur : Bytes) (h : (10 : Nat) ∉ l) :
    splitAux (l ++ 10 :: rest) cur = (cur.reverse ++ l) :: splitAux rest [] := by
  induction l generalizing cur with
  | nil => simp [splitAux]
  | cons b bs ih =>
    have hb : b ≠ 10 := by intro e; apply h; simp [e]
    have hbs : (10 : Nat) ∉ bs := by intro e; apply h; simp [e]
    simp [splitAux, hb, ih _ hbs]

theorem name_no_nl (nm : Bytes) (hn : nm = nMeta ∨ nm = nState) : (10 : Nat) ∉ ([32, 32] ++ nm) := by
  rcases hn with rfl | rfl <;> decide

theorem parseSums_line (d nm : Bytes) (hd : DigestOK d) (hn : nm = nMeta ∨ nm = nState) (rest : Bytes) :
    parseSums (sumsLine d nm ++ rest) = (parseSums rest).map ((d, nm) :: ·) := by
  have hnl : (10 : Nat) ∉ hexEnc d ++ ([32, 32] ++ nm) := by
    intro h
    rcases List.mem_append.mp h with h | h
    · exact hexEnc_no_nl d hd.2 h
    · exact name_no_nl nm hn h
  have hsplit : splitLines (sumsLine d nm ++ rest) = (hexEnc d ++ ([32, 32] ++ nm)) :: splitLines rest := by
    have := splitAux_line (hexEnc d ++ ([32, 32] ++ nm)) rest [] hnl
    simp only [List.reverse_nil, List.nil_append] at this
    simp only [splitLines, sumsLine]
    rw [← this]
    simp
  have hlen : ¬ 65536 ≤ (hexEnc d ++ ([32, 32] ++ nm)).length := by
    have := hexEnc_length d
    rcases hn with rfl | rfl <;> simp [this, hd.1, nMeta, nState]
  unfold parseSums
  rw [hsplit]
  simp only [parseLines, hlen, if_false, dropCR_encoded _ _ hn, scanLine_encoded d nm hd hn]
  cases parseLines (splitLines rest) <;> simp

theorem parseSums_nil : parseSums [] = some [] := by
  simp [parseSums, splitLines, splitAux, parseLines]

/-- what `write` puts into SHA256SUMS parses to exactly the two entries, in either map order -/
theorem parseSums_encodeSums (swap : Bool) (hm hs : Bytes) (h1 : DigestOK hm) (h2 : DigestOK hs) :
    parseSums (encodeSums swap hm hs) =
      some (if swap then [(hs, nState), (hm, nMeta)] else [(hm, nMeta), (hs, nState)]) := by
  have e : ∀ (d nm : Bytes), sumsLine d nm = sumsLine d nm ++ [] := by simp
  cases swap
  · simp only [encodeSums, Bool.false_eq_true, if_false]
    rw [parseSums_line hm nMeta h1 (Or.inl rfl), e hs nState, parseSums_line hs nState h2 (Or.inr rfl),
      parseSums_nil]
    rfl
  · simp only [encodeSums, if_true]
    rw [parseSums_line hs nState h2 (Or.inr rfl), e hm nMeta, parseSums_line hm nMeta h1 (Or.inl rfl),
      parseSums_nil]
    rfl

theorem sumsOK_encodeSums (swap : Bool) (hm hs : Bytes) (h1 : DigestOK hm) (h2 : DigestOK hs) :
    SumsOK hm hs (encodeSums swap hm hs) := by
  refine ⟨_, parseSums_encodeSums swap hm hs h1 h2, ?_, ?_, ?_⟩ <;> cases swap <;> simp

end CV.Tar
