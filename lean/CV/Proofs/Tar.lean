/-
Helper lemmas for C20 (CV.Tar): characterisations of the `read` loop and of
`DecodeAndVerify`, the SHA256SUMS encode/scan round trip, and the ustar layout facts.
-/
import CV.Tar
set_option linter.unusedSectionVars false
set_option linter.unusedVariables false
namespace CV.Tar
open CV

variable {M : Type}

theorem nMeta_ne_nState : nMeta ≠ nState := by decide
theorem nMeta_ne_nSums : nMeta ≠ nSums := by decide
theorem nState_ne_nSums : nState ≠ nSums := by decide

/-! ### the loop of `read` -/

theorem loop_ok_iff (apply : M → Bytes → Option M) (ms : List Member) (e : Ending) (a a' : Acc M) :
    loop apply ms e a = .ok a' ↔
      e = .eof ∧ Clean ms ∧ foldApply apply a.md (metas ms) = some a'.md ∧
      a'.metaB = a.metaB ++ cat nMeta ms ∧ a'.stateB = a.stateB ++ cat nState ms ∧
      a'.sumsB = a.sumsB ++ cat nSums ms := by
  fun_induction loop apply ms e a generalizing a'
  case case1 a =>
    cases a; cases a'
    simp [Clean, cat, metas, foldApply]
    grind
  case case2 => simp
  all_goals
    have h1 := nMeta_ne_nState
    have h2 := nMeta_ne_nSums
    have h3 := nState_ne_nSums
    simp_all [Clean, cat, metas, foldApply, List.filter_cons]
    try grind

end CV.Tar
