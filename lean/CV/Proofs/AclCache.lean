/-
Helper lemmas for C08, part 4: the parsed-policy cache and the authorizer cache never change what
`Compile` / `ResolveToken` return, and stay consistent.
-/
import CV.Acl
namespace CV.Acl

/-- Raft guarantee assumed of the universe `U` of policy versions that ever existed: a policy id
    with a given ModifyIndex has one content (synthetic policies: the id is a hash of the rules). -/
def Versioned (U : Doc → Prop) : Prop :=
  ∀ d e, U d → U e → d.id = e.id → d.modIdx = e.modIdx → d.rules = e.rules

/-- every cached parsed policy is the parse of the content it is keyed by; every cached authorizer
    is what compiling some documents of the universe with that key gives without caches -/
structure CacheInv (U : Doc → Prop) (c : Caches) : Prop where
  parsed : ∀ k p, (k, p) ∈ c.parsed → parse k.rules = some p
  authz : ∀ k z, (k, z) ∈ c.authz → ∃ ds, (∀ d ∈ ds, U d) ∧ hashKey ds = k ∧ compileFresh ds = some z

theorem CacheInv.empty (U : Doc → Prop) : CacheInv U Caches.empty :=
  ⟨fun _ _ h => (by cases h), fun _ _ h => (by cases h)⟩

/-- eviction (any loss of entries) keeps the invariant -/
theorem CacheInv.subset {U : Doc → Prop} {c c' : Caches} (h : CacheInv U c)
    (hp : ∀ e ∈ c'.parsed, e ∈ c.parsed) (ha : ∀ e ∈ c'.authz, e ∈ c.authz) : CacheInv U c' :=
  ⟨fun k p hm => h.parsed k p (hp _ hm), fun k z hm => h.authz k z (ha _ hm)⟩

theorem getParsed_mem {c : Caches} {k : CKey} {p : Policy} (h : c.getParsed k = some p) : (k, p) ∈ c.parsed := by
  unfold Caches.getParsed at h
  cases hf : c.parsed.find? (fun e => e.1 = k) with
  | none => rw [hf] at h; cases h
  | some e =>
    rw [hf] at h
    have h1 := List.mem_of_find?_eq_some hf
    have h2 := List.find?_some hf
    simp only [decide_eq_true_eq] at h2
    simp only [Option.map_some, Option.some.injEq] at h
    cases e; simp only at h h2; subst h h2; exact h1

theorem getAuthz_mem {c : Caches} {k : AKey} {z : Authz} (h : c.getAuthz k = some z) : (k, z) ∈ c.authz := by
  unfold Caches.getAuthz at h
  cases hf : c.authz.find? (fun e => e.1 = k) with
  | none => rw [hf] at h; cases h
  | some e =>
    rw [hf] at h
    have h1 := List.mem_of_find?_eq_some hf
    have h2 := List.find?_some hf
    simp only [decide_eq_true_eq] at h2
    simp only [Option.map_some, Option.some.injEq] at h
    cases e; simp only at h h2; subst h h2; exact h1

theorem CacheInv.putParsed {U : Doc → Prop} {c : Caches} (h : CacheInv U c) (k : CKey) (p : Policy)
    (hp : parse k.rules = some p) : CacheInv U (c.putParsed k p) := by
  refine ⟨?_, h.authz⟩
  intro k' p' hm
  simp only [Caches.putParsed, List.mem_cons, List.mem_filter] at hm
  rcases hm with hm | hm
  · cases hm; exact hp
  · exact h.parsed k' p' hm.1

theorem CacheInv.putAuthz {U : Doc → Prop} {c : Caches} (h : CacheInv U c) (ds : List Doc) (z : Authz)
    (hU : ∀ d ∈ ds, U d) (hz : compileFresh ds = some z) : CacheInv U (c.putAuthz (hashKey ds) z) := by
  refine ⟨h.parsed, ?_⟩
  intro k' z' hm
  simp only [Caches.putAuthz, List.mem_cons, List.mem_filter] at hm
  rcases hm with hm | hm
  · cases hm; exact ⟨ds, hU, rfl, hz⟩
  · exact h.authz k' z' hm.1

/-- `resolveWithCache` returns what parsing every document afresh returns, and keeps the caches consistent -/
theorem resolveWithCache_spec {U : Doc → Prop} (ds : List Doc) (c : Caches) (h : CacheInv U c) :
    (resolveWithCache c ds).2.1 = parseAll ds ∧ CacheInv U (resolveWithCache c ds).1 := by
  induction ds generalizing c with
  | nil => exact ⟨rfl, h⟩
  | cons d ds ih =>
    simp only [resolveWithCache, parseAll]
    cases hg : c.getParsed d.ckey with
    | some p =>
      have hp : parse d.rules = some p := h.parsed _ _ (getParsed_mem hg)
      have ⟨i1, i2⟩ := ih c h
      simp only [hp]
      exact ⟨by rw [← i1], i2⟩
    | none =>
      cases hp : parse d.rules with
      | none => exact ⟨rfl, h⟩
      | some p =>
        have ⟨i1, i2⟩ := ih (c.putParsed d.ckey p) (h.putParsed d.ckey p hp)
        exact ⟨by simp only [← i1], i2⟩

theorem parseAll_congr {ds ds' : List Doc} (h : ds.map (·.rules) = ds'.map (·.rules)) : parseAll ds = parseAll ds' := by
  induction ds generalizing ds' with
  | nil => cases ds' with
    | nil => rfl
    | cons => simp at h
  | cons d ds ih =>
    cases ds' with
    | nil => simp at h
    | cons d' ds' =>
      simp only [List.map_cons, List.cons.injEq] at h
      simp only [parseAll, h.1, ih h.2]

theorem rules_of_hashKey {U : Doc → Prop} (hV : Versioned U) {ds ds' : List Doc}
    (hU : ∀ d ∈ ds, U d) (hU' : ∀ d ∈ ds', U d) (h : hashKey ds = hashKey ds') :
    ds.map (·.rules) = ds'.map (·.rules) := by
  induction ds generalizing ds' with
  | nil => cases ds' with
    | nil => rfl
    | cons => simp [hashKey] at h
  | cons d ds ih =>
    cases ds' with
    | nil => simp [hashKey] at h
    | cons d' ds' =>
      simp only [hashKey, List.map_cons, List.cons.injEq, Prod.mk.injEq] at h
      simp only [List.map_cons, List.cons.injEq]
      exact ⟨hV d d' (hU d List.mem_cons_self) (hU' d' List.mem_cons_self) h.1.1 h.1.2,
        ih (fun x hx => hU x (List.mem_cons_of_mem _ hx)) (fun x hx => hU' x (List.mem_cons_of_mem _ hx)) h.2⟩

/-- `Compile` through consistent caches returns exactly what compiling without caches returns,
    and leaves consistent caches -/
theorem compile_spec {U : Doc → Prop} (hV : Versioned U) (c : Caches) (h : CacheInv U c) (ds : List Doc)
    (hU : ∀ d ∈ ds, U d) : (compile c ds).authz = compileFresh ds ∧ CacheInv U (compile c ds).caches := by
  unfold compile
  cases hg : c.getAuthz (hashKey ds) with
  | some z =>
    obtain ⟨ds', hU', hk, hz⟩ := h.authz _ _ (getAuthz_mem hg)
    refine ⟨?_, h⟩
    simp only
    rw [← hz]
    unfold compileFresh
    rw [parseAll_congr (rules_of_hashKey hV hU' hU hk)]
  | none =>
    have ⟨r1, r2⟩ := resolveWithCache_spec ds c h
    simp only
    generalize resolveWithCache c ds = out at r1 r2
    obtain ⟨c', ps, hh⟩ := out
    simp only at r1 r2 ⊢
    cases ps with
    | none => exact ⟨by simp [compileFresh, ← r1], r2⟩
    | some ps =>
      simp only
      cases hz : newPolicyAuthorizer ps with
      | none => exact ⟨by simp [compileFresh, ← r1, hz], r2⟩
      | some z =>
        have hf : compileFresh ds = some z := by simp [compileFresh, ← r1, hz]
        exact ⟨by simp [hf], r2.putAuthz ds z hU hf⟩

theorem mem_filterByScope {dc : Bytes} {ds : List Doc} {d : Doc} (h : d ∈ filterByScope dc ds) : d ∈ ds := by
  simp only [filterByScope, List.mem_flatMap] at h
  obtain ⟨x, hx, hd⟩ := h
  split at hd
  · simp only [List.mem_singleton] at hd; rw [hd]; exact hx
  · simp only [List.mem_map] at hd
    obtain ⟨_, _, e⟩ := hd; rw [← e]; exact hx

/-- every synthetic policy is the rendering of a service identity, a node identity or a templated policy -/
theorem mem_synthDocs (U : Doc → Prop) (hsvc : ∀ x, U (svcDoc x)) (hnode : ∀ x, U (nodeDoc x))
    (htp : ∀ x, U (tpDoc x)) (t : Token) (roles : List Role) : ∀ d ∈ synthDocs t roles, U d := by
  intro d hd
  simp only [synthDocs, List.mem_append, List.mem_map] at hd
  rcases hd with (⟨x, _, rfl⟩ | ⟨x, _, rfl⟩) | ⟨x, _, rfl⟩
  · exact hsvc x
  · exact hnode x
  · exact htp x

theorem policiesFor_sub (U : Doc → Prop) (hsvc : ∀ x, U (svcDoc x)) (hnode : ∀ x, U (nodeDoc x))
    (htp : ∀ x, U (tpDoc x))
    (s : Store) (hs : ∀ d ∈ s.docs, U d) (dc : Bytes) (t : Token) : ∀ d ∈ policiesFor s dc t, U d := by
  intro d hd
  unfold policiesFor policiesForV at hd
  split at hd
  · cases hd
  · have := mem_filterByScope hd
    simp only [List.mem_append, List.mem_filterMap] at this
    rcases this with ⟨id, _, h⟩ | h
    · exact hs d (List.mem_of_find?_eq_some h)
    · exact mem_synthDocs U hsvc hnode htp _ _ d h

theorem filterMap_congr' {α β : Type} {f g : α → Option β} {l : List α} (h : ∀ x ∈ l, f x = g x) :
    l.filterMap f = l.filterMap g := by
  induction l with
  | nil => rfl
  | cons a as ih =>
    simp only [List.filterMap_cons, h a List.mem_cons_self, ih fun x hx => h x (List.mem_cons_of_mem _ hx)]

theorem mem_insertSorted {x y : Bytes} {l : List Bytes} (h : y ∈ insertSorted x l) : y = x ∨ y ∈ l := by
  induction l with
  | nil => simp only [insertSorted, List.mem_singleton] at h; exact .inl h
  | cons z zs ih =>
    simp only [insertSorted] at h
    split at h
    · exact .inr h
    · split at h
      · rcases List.mem_cons.mp h with h | h
        · exact .inl h
        · exact .inr h
      · rcases List.mem_cons.mp h with h | h
        · exact .inr (h ▸ List.mem_cons_self)
        · rcases ih h with h | h
          · exact .inl h
          · exact .inr (List.mem_cons_of_mem _ h)

theorem mem_dedupeSorted {y : Bytes} {l : List Bytes} (h : y ∈ dedupeSorted l) : y ∈ l := by
  induction l with
  | nil => simp [dedupeSorted] at h
  | cons x xs ih =>
    simp only [dedupeSorted, List.foldr_cons] at h
    rcases mem_insertSorted h with h | h
    · exact h ▸ List.mem_cons_self
    · exact List.mem_cons_of_mem _ (ih h)

/-- the policy documents of a token depend on the store only through the roles the token links and
    the policies the token and those roles link -/
theorem policiesFor_congr (s s' : Store) (dc : Bytes) (t : Token)
    (hr : ∀ rid ∈ t.roles, s.role rid = s'.role rid)
    (hd : ∀ pid ∈ t.policies ++ (t.roles.filterMap s.role).flatMap (·.policies), s.doc pid = s'.doc pid) :
    policiesFor s dc t = policiesFor s' dc t := by
  have e : t.roles.filterMap s.role = t.roles.filterMap s'.role := filterMap_congr' hr
  unfold policiesFor policiesForV
  rw [← e]
  have e2 : (dedupeSorted (t.policies ++ (t.roles.filterMap s.role).flatMap (·.policies))).filterMap s.doc =
      (dedupeSorted (t.policies ++ (t.roles.filterMap s.role).flatMap (·.policies))).filterMap s'.doc :=
    filterMap_congr' fun pid hp => hd pid (mem_dedupeSorted hp)
  simp only [e2]

end CV.Acl
