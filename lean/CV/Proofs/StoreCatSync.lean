/-
The attribute side table `ext` of every catalog stays in step with its service table: same primary keys in
the same order (so the joined view `Cat.rows` drops no row and the model-internal error `desync` is never
raised on a reachable state).
-/
import CV.Proofs.StoreCatVip
namespace CV.Store
open CV

def Sync (c : Cat) : Prop := c.ext.map SvcX.pk = c.st.svcs.map Svc.pk

theorem Sync.empty : Sync {} := rfl

section Tbl
variable {α β : Type}

theorem map_key_tupsert {k1 : α → String} {k2 : β → String} (r1 : α) (r2 : β) (hk : k1 r1 = k2 r2) :
    ∀ (l1 : List α) (l2 : List β), l1.map k1 = l2.map k2 →
      (tupsert k1 strLt r1 l1).map k1 = (tupsert k2 strLt r2 l2).map k2 := by
  intro l1
  induction l1 with
  | nil =>
    intro l2 h
    cases l2 with
    | nil => simp [tupsert, hk]
    | cons y ys => simp at h
  | cons x xs ih =>
    intro l2 h
    cases l2 with
    | nil => simp at h
    | cons y ys =>
      simp only [List.map_cons, List.cons.injEq] at h
      obtain ⟨hxy, hrest⟩ := h
      simp only [tupsert]
      rw [hxy, hk]
      by_cases h1 : k2 y = k2 r2
      · simp only [h1, if_true, List.map_cons, hk, hrest]
      · simp only [h1, if_false]
        split
        · simp only [List.map_cons, hk, hxy, hrest]
        · simp only [List.map_cons, hxy, ih ys hrest]

theorem map_key_terase {k1 : α → String} {k2 : β → String} (k : String) :
    ∀ (l1 : List α) (l2 : List β), l1.map k1 = l2.map k2 → (terase k1 k l1).map k1 = (terase k2 k l2).map k2 := by
  intro l1
  induction l1 with
  | nil =>
    intro l2 h
    cases l2 with
    | nil => rfl
    | cons y ys => simp at h
  | cons x xs ih =>
    intro l2 h
    cases l2 with
    | nil => simp at h
    | cons y ys =>
      simp only [List.map_cons, List.cons.injEq] at h
      obtain ⟨hxy, hrest⟩ := h
      unfold terase at ih ⊢
      simp only [List.filter_cons, hxy]
      split
      · simp only [List.map_cons, hxy, ih ys hrest]
      · exact ih ys hrest

end Tbl

/-- every catalog is in step -/
def SyncAll (s : XState) : Prop := ∀ q, Sync (s.cat q)

theorem SyncAll.empty : SyncAll XState.empty := by
  intro q
  have : (XState.empty.cat q) = {} := by
    unfold XState.cat XState.empty
    split
    · rfl
    · simp [tfind]
  rw [this]; exact Sync.empty

theorem SyncAll.of_frame {s s' : XState} (h : XFrame s s') (hs : SyncAll s) : SyncAll s' :=
  fun q => by rw [h.cat q]; exact hs q

theorem SyncAll.setCat {s : XState} (p : String) {c : Cat} (hc : Sync c) (hs : SyncAll s) : SyncAll (s.setCat p c) := by
  intro q
  rw [cat_setCat]
  split
  · exact hc
  · exact hs q

/-- replacing the base state of catalog `p` by one with the same service table -/
theorem SyncAll.setSt {s : XState} (p : String) {st' : State} (h : st'.svcs = (s.cat p).st.svcs) (hs : SyncAll s) :
    SyncAll (s.setCat p { s.cat p with st := st' }) :=
  SyncAll.setCat p (by unfold Sync; rw [h]; exact hs p) hs

theorem svcs_svcInsert (st : State) (v : Svc) : (svcInsert st v).svcs = tupsert Svc.pk strLt v st.svcs := by
  have := catView_svcInsert st v
  simp only [catView, Prod.mk.injEq] at this
  exact this.2.1

theorem syncAll_ensureServiceX {s s' : XState} {p node : String} {idx : Nat} {q : SvcReq}
    (h : ensureServiceX s p idx node q = .ok s') (hs : SyncAll s) : SyncAll s' := by
  unfold ensureServiceX at h
  extract_lets c s1 sn s2 r2 v at h
  have hs1 : XFrame s s1 := by unfold s1; split <;> exact ⟨rfl, rfl, rfl⟩
  have hs2 : XFrame s1 s2 := by unfold s2; split <;> exact ⟨rfl, rfl, rfl⟩
  have hr2 : ∀ s3 vip, r2 = Except.ok (s3, vip) → XFrame s s3 := by
    intro s3 vip hr
    unfold r2 at hr
    split at hr
    · split at hr
      · split at hr
        · next s3' ip ha => simp at hr; obtain ⟨rfl, -⟩ := hr; exact hs1.trans (hs2.trans (xframe_assignVip ha))
        · simp at hr
      · simp at hr; obtain ⟨rfl, -⟩ := hr; exact hs1.trans hs2
    · simp at hr; obtain ⟨rfl, -⟩ := hr; exact hs1
  clear_value r2
  split at h
  · simp at h
  · next _ s3 vip =>
    have hf := hr2 s3 vip rfl
    have h3 : SyncAll s3 := SyncAll.of_frame hf hs
    have put : ∀ (w : Svc) (e : SvcX), SvcX.pk e = Svc.pk w → SyncAll (s3.putSvc p w e) := by
      intro w e hk
      rw [putSvc_eq]
      refine SyncAll.setCat p ?_ h3
      unfold Sync
      simp only
      rw [svcs_svcInsert]
      exact map_key_tupsert e w hk _ _ (h3 p)
    split at h
    · simp at h
    · dsimp only at h
      split at h
      · split at h
        · simp at h; subst h; exact h3
        · simp at h; subst h; exact put _ _ rfl
      · simp at h
      · simp at h; subst h; exact put _ _ rfl

theorem syncAll_deleteServiceX {s s' : XState} {p node id : String} {idx : Nat}
    (h : deleteServiceX s p idx node id = .ok s') (hs : SyncAll s) : SyncAll s' := by
  unfold deleteServiceX at h
  extract_lets c at h
  split at h
  · simp at h; exact h ▸ hs
  · simp at h
  · next v e _ _ =>
    split at h
    · simp at h
    · next st' hd =>
      simp at h; subst h
      refine SyncAll.of_frame (xframe_afterServiceDelete _ p v e) (SyncAll.setCat p ?_ hs)
      unfold Sync
      simp only
      rw [(deleteService_spec hd).2.1]
      exact map_key_terase _ _ _ (hs p)

theorem syncAll_onSt {s s' : XState} {p : String} {f : State → Except Err State}
    (h : s.onSt p f = .ok s') (hf : ∀ st st', f st = .ok st' → st'.svcs = st.svcs) (hs : SyncAll s) : SyncAll s' := by
  unfold XState.onSt at h
  simp only at h
  split at h
  · next st' hst => simp at h; subst h; exact SyncAll.setSt p (hf _ _ hst) hs
  · simp at h

theorem svcs_foldE_deleteCheck {idx : Nat} {node : String} (l : List Chk) (s s' : State)
    (h : foldE (fun st (c : Chk) => deleteCheck st idx node c.id) l s = .ok s') : s'.svcs = s.svcs :=
  (foldE_deleteCheck_spec l s s' h).2.1

theorem svcs_foldE_deleteSession {idx : Nat} (l : List String) (s s' : State)
    (h : foldE (fun st sid => deleteSession st idx sid) l s = .ok s') : s'.svcs = s.svcs :=
  (foldE_deleteSession_rel l s s' h).svcs

theorem syncAll_deleteNodeX {s s' : XState} {p name : String} {idx : Nat}
    (h : deleteNodeX s p idx name = .ok s') (hs : SyncAll s) : SyncAll s' := by
  unfold deleteNodeX at h
  extract_lets c svcs st1 at h
  split at h
  · simp at h; exact h ▸ hs
  · split at h
    · simp at h
    · next s2 hf2 =>
      have hst1 : st1.svcs = (s.cat p).st.svcs := catView_svcs (foldl_bump_view idx _ _)
      have h1 : SyncAll (s.setCat p { c with st := st1 }) := SyncAll.setSt p hst1 hs
      have h2 : SyncAll s2 := foldX_ind SyncAll _ (fun st b st' hst hb => syncAll_deleteServiceX hb hst) _ _ _ h1 hf2
      extract_lets c2 cs s3 at h
      have h3 : SyncAll s3 := by
        unfold s3; split
        · exact SyncAll.of_frame ⟨rfl, rfl, rfl⟩ h2 |> fun x => by intro q; exact x q
        · exact h2
      split at h
      · simp at h
      · next st3 hf3 =>
        extract_lets st5 ids at h
        split at h
        · simp at h
        · next st6 hf6 =>
          simp at h; subst h
          have e3 : st3.svcs = c2.st.svcs := svcs_foldE_deleteCheck _ _ _ hf3
          have e5 : st5.svcs = st3.svcs := by
            have := catView_deleteNodePost st3 idx name
            simp only [catView, Prod.mk.injEq] at this
            exact this.2.1
          have e6 : st6.svcs = st5.svcs := svcs_foldE_deleteSession _ _ _ hf6
          have hc2 : s3.cat p = c2 := by
            unfold s3; split <;> rfl
          have : SyncAll (s3.setCat p { s3.cat p with st := st6 }) :=
            SyncAll.setSt p (by rw [hc2, e6, e5, e3]) h3
          rw [hc2] at this
          exact this

theorem syncAll_ensureNodeX {s s' : XState} {p : String} {idx : Nat} {node : Node}
    (h : ensureNodeX s p idx node = .ok s') (hs : SyncAll s) : SyncAll s' := by
  rw [ensureNodeX_eq] at h
  split at h
  · simp at h
  · next s1 byId hb =>
    simp at h; subst h
    have h1 : SyncAll s1 := by
      unfold ensureNodeByIdX at hb
      simp only at hb
      repeat' (split at hb)
      all_goals (try simp at hb)
      all_goals (obtain ⟨rfl, -⟩ := hb)
      all_goals (first | exact hs | (next hd => exact syncAll_deleteNodeX hd hs))
    have ins : ∀ n, SyncAll (s1.setCat p { s1.cat p with st := nodeInsert (s1.cat p).st n }) := by
      intro n
      refine SyncAll.setSt p ?_ h1
      have := catView_nodeInsert (s1.cat p).st n
      simp only [catView, Prod.mk.injEq] at this
      exact this.2.1
    unfold ensureNodeFinishX
    simp only
    split
    · split
      · exact h1
      · exact ins _
    · exact ins _

theorem svcs_foldE_checks {idx : Nat} {node : String} : ∀ (l : List Chk) (st st' : State),
    foldE (fun st c => ensureCheckIfNodeMatches st idx node c) l st = .ok st' → st'.svcs = st.svcs := by
  intro l
  induction l with
  | nil => intro st st' h; simp [foldE] at h; subst h; rfl
  | cons b bs ih =>
    intro st st' h
    simp only [foldE] at h
    split at h
    · next st1 h1 =>
      unfold ensureCheckIfNodeMatches at h1
      split at h1
      · simp at h1
      · exact (ih st1 st' h).trans (ensSpec_ensureCheck h1).svcs
    · simp at h

theorem syncAll_registerX {s s' : XState} {idx : Nat} {r : XRegReq}
    (h : registerX s idx r = .ok s') (hs : SyncAll s) : SyncAll s' := by
  unfold registerX at h
  extract_lets p r1 at h
  have h1 : ∀ s1, r1 = Except.ok s1 → SyncAll s1 := by
    intro s1 hr
    unfold r1 at hr
    split at hr
    · split at hr
      · simp at hr; exact hr ▸ hs
      · exact syncAll_ensureNodeX hr hs
    · exact syncAll_ensureNodeX hr hs
  clear_value r1
  split at h
  · simp at h
  · next _ s1 =>
    have hs1 := h1 s1 rfl
    extract_lets c1 r2 at h
    have h2 : ∀ s2, r2 = Except.ok s2 → SyncAll s2 := by
      intro s2 hr
      unfold r2 at hr
      split at hr
      · simp at hr; exact hr ▸ hs1
      · split at hr
        · split at hr
          · simp at hr; exact hr ▸ hs1
          · exact syncAll_ensureServiceX hr hs1
        · simp at hr
        · exact syncAll_ensureServiceX hr hs1
    clear_value r2
    split at h
    · simp at h
    · next _ s2 => exact syncAll_onSt h (fun st st' hst => svcs_foldE_checks _ _ _ hst) (h2 s2 rfl)

theorem syncAll_deregisterX {s s' : XState} {idx : Nat} {p node svcId chkId : String}
    (h : deregisterX s idx p node svcId chkId = .ok s') (hs : SyncAll s) : SyncAll s' := by
  unfold deregisterX at h
  split at h
  · exact syncAll_deleteServiceX h hs
  · split at h
    · exact syncAll_onSt h (fun st st' hst => (deleteCheck_spec hst).2.1) hs
    · exact syncAll_deleteNodeX h hs


theorem syncAll_coordUpdate (s : XState) (us : List CoordRow) (hs : SyncAll s) : SyncAll (coordUpdate s us) := by
  unfold coordUpdate
  induction us generalizing s with
  | nil => exact hs
  | cons u rest ih =>
    simp only [List.foldl_cons]
    apply ih
    split
    · intro q; exact hs q
    · exact hs

theorem syncAll_txnNodeX {s s' : XState} {idx : Nat} {v : CatVerb} {n : Node} {rs : List TxnRes}
    (h : txnNodeX s idx v n = .ok (s', rs)) (hs : SyncAll s) : SyncAll s' := by
  unfold txnNodeX at h
  cases v <;> simp only at h
  · split at h
    · simp [okResX] at h; exact h.1 ▸ hs
    · simp at h
  · split at h
    · next s1 h1 => simp [okResX] at h; exact h.1 ▸ syncAll_ensureNodeX h1 hs
    · simp at h
  · split at h
    · next s1 h1 =>
      simp [okResX] at h
      unfold ensureNodeCasX at h1
      split at h1
      · simp at h1
      · split at h1
        · next s2 h2 => simp at h1; exact h.1 ▸ h1 ▸ syncAll_ensureNodeX h2 hs
        · simp at h1
    · simp at h
    · simp at h
  · split at h
    · next s1 h1 => simp [okResX] at h; exact h.1 ▸ syncAll_deleteNodeX h1 hs
    · simp at h
  · split at h
    · next s1 h1 =>
      simp [okResX] at h
      unfold deleteNodeCasX at h1
      split at h1
      · simp at h1
      · split at h1
        · simp at h1
        · split at h1
          · next s2 h2 => simp at h1; exact h.1 ▸ h1 ▸ syncAll_deleteNodeX h2 hs
          · simp at h1
    · simp at h
    · simp at h

theorem syncAll_txnServiceX {s s' : XState} {idx : Nat} {v : CatVerb} {node : String} {q : SvcReq} {rs : List TxnRes}
    (h : txnServiceX s idx v node q = .ok (s', rs)) (hs : SyncAll s) : SyncAll s' := by
  unfold txnServiceX at h
  cases v <;> simp only at h
  · split at h
    · simp [okResX] at h; exact h.1 ▸ hs
    · simp at h
  · split at h
    · next s1 h1 => simp [okResX] at h; exact h.1 ▸ syncAll_ensureServiceX h1 hs
    · simp at h
  · split at h
    · next s1 h1 =>
      simp [okResX] at h
      unfold ensureServiceCasX at h1
      split at h1
      · simp at h1
      · split at h1
        · next s2 h2 => simp at h1; exact h.1 ▸ h1 ▸ syncAll_ensureServiceX h2 hs
        · simp at h1
    · simp at h
    · simp at h
  · split at h
    · next s1 h1 => simp [okResX] at h; exact h.1 ▸ syncAll_deleteServiceX h1 hs
    · simp at h
  · split at h
    · next s1 h1 =>
      simp [okResX] at h
      unfold deleteServiceCasX at h1
      split at h1
      · simp at h1
      · split at h1
        · simp at h1
        · split at h1
          · next s2 h2 => simp at h1; exact h.1 ▸ h1 ▸ syncAll_deleteServiceX h2 hs
          · simp at h1
    · simp at h
    · simp at h

theorem svcs_txnCheck {s s' : State} {idx : Nat} {v : CatVerb} {c : Chk} {rs : List TxnRes}
    (h : txnCheck s idx v c = .ok (s', rs)) : s'.svcs = s.svcs := by
  unfold txnCheck at h
  cases v <;> simp only [okRes] at h
  · split at h
    · simp at h; rw [← h.1]
    · simp at h
  · split at h
    · next s1 h1 => simp at h; rw [← h.1]; exact (ensSpec_ensureCheck h1).svcs
    · simp at h
  · split at h
    · next s1 h1 =>
      simp at h; rw [← h.1]
      unfold ensureCheckCas at h1
      split at h1
      · simp at h1
      · split at h1
        · next s2 h2 => simp at h1; rw [← h1]; exact (ensSpec_ensureCheck h2).svcs
        · simp at h1
    · simp at h
    · simp at h
  · split at h
    · next s1 h1 => simp at h; rw [← h.1]; exact (deleteCheck_spec h1).2.1
    · simp at h
  · split at h
    · next s1 h1 =>
      simp at h; rw [← h.1]
      unfold deleteCheckCas at h1
      split at h1
      · simp at h1
      · split at h1
        · simp at h1
        · split at h1
          · next s2 h2 => simp at h1; rw [← h1]; exact (deleteCheck_spec h2).2.1
          · simp at h1
    · simp at h
    · simp at h

theorem syncAll_setLocSt {s : XState} {st' : State} (h : st'.svcs = s.loc.st.svcs) (hs : SyncAll s) :
    SyncAll { s with loc := { s.loc with st := st' } } := by
  have heq : ({ s with loc := { s.loc with st := st' } } : XState) = s.setCat "" { s.cat "" with st := st' } := by
    unfold XState.setCat XState.cat; simp
  rw [heq]
  exact SyncAll.setSt "" (by rw [← loc_eq_cat]; exact h) hs

theorem syncAll_txnStepX {s s' : XState} {idx : Nat} {op : XTxnOp} {rs : List TxnRes}
    (h : txnStepX s idx op = .ok (s', rs)) (hs : SyncAll s) : SyncAll s' := by
  cases op with
  | service v node q => exact syncAll_txnServiceX h hs
  | base bop =>
    cases bop with
    | node v n => exact syncAll_txnNodeX h hs
    | service v x => exact syncAll_txnServiceX h hs
    | kv v e =>
      simp only [txnStepX] at h
      split at h
      · next st' rs' hst =>
        simp [okResX] at h; obtain ⟨rfl, -⟩ := h
        exact syncAll_setLocSt (catView_svcs (catView_txnKV hst)) hs
      · simp at h
    | check v c =>
      simp only [txnStepX] at h
      split at h
      · next st' rs' hst =>
        simp [okResX] at h; obtain ⟨rfl, -⟩ := h
        exact syncAll_setLocSt (svcs_txnCheck hst) hs
      · simp at h
    | sessionDelete id =>
      simp only [txnStepX] at h
      split at h
      · next st' rs' hst =>
        simp [okResX] at h; obtain ⟨rfl, -⟩ := h
        refine syncAll_setLocSt ?_ hs
        simp only [txnStep] at hst
        split at hst
        · next s1 h1 => simp [okRes] at hst; rw [← hst.1]; exact (casRel_deleteSession h1).svcs
        · simp at hst
      · simp at h

theorem syncAll_txnLoopX (idx : Nat) : ∀ (ops : List XTxnOp) (i : Nat) (s : XState) (rs : List TxnRes) (es : List (Nat × XErr)),
    SyncAll s → SyncAll (txnLoopX idx ops i s rs es).1 := by
  intro ops
  induction ops with
  | nil => intro i s rs es hs; exact hs
  | cons op rest ih =>
    intro i s rs es hs
    simp only [txnLoopX]
    split
    · next s' r hstep => exact ih _ _ _ _ (syncAll_txnStepX hstep hs)
    · exact ih _ _ _ _ hs

theorem syncAll_txnRWX {s : XState} (idx : Nat) (ops : List XTxnOp) (hs : SyncAll s) : SyncAll (txnRWX s idx ops).1 := by
  unfold txnRWX
  have := syncAll_txnLoopX idx ops 0 s [] [] hs
  generalize txnLoopX idx ops 0 s [] [] = r at this
  obtain ⟨s', rs, es⟩ := r
  simp only
  split
  · exact this
  · exact hs

theorem syncAll_store_plain {s : XState} (idx : Nat) (c : Cmd) (hc : c.isPlain = true) (hs : SyncAll s) :
    SyncAll (stepX s idx (.store c)).1 := by
  have hstep : (stepX s idx (.store c)).1 = { s with loc := { s.loc with st := (apply s.loc.st idx c).1 } } := by
    cases c <;> first | (simp [Cmd.isPlain] at hc; done) | rfl
  rw [hstep]
  exact syncAll_setLocSt (svcs_apply_plain idx c hc) hs

theorem syncAll_stepX {s : XState} (idx : Nat) (c : XCmd) (hs : SyncAll s) : SyncAll (stepX s idx c).1 := by
  cases c with
  | register r => exact vc_liftSX (P := SyncAll) hs (fun s' h => syncAll_registerX h hs)
  | deregister p node svcId chkId => exact vc_liftSX (P := SyncAll) hs (fun s' h => syncAll_deregisterX h hs)
  | coords us => exact syncAll_coordUpdate s us hs
  | sysmeta k v => exact SyncAll.of_frame (xframe_sysMetaSet s k v) hs
  | configSet kind name dest tok => exact vc_liftSX (P := SyncAll) hs (fun s' h => SyncAll.of_frame (xframe_configUpsert h) hs)
  | configDelete kind name => exact SyncAll.of_frame (xframe_configDelete s kind name) hs
  | txn ops => simp only [stepX]; exact syncAll_txnRWX idx ops hs
  | store c =>
    cases c with
    | register r => exact vc_liftSX (P := SyncAll) hs (fun s' h => syncAll_registerX h hs)
    | deregister node svcId chkId => exact vc_liftSX (P := SyncAll) hs (fun s' h => syncAll_deregisterX h hs)
    | txn ops => simp only [stepX]; exact syncAll_txnRWX idx _ hs
    | kvSet e => exact syncAll_store_plain idx _ rfl hs
    | kvCas e => exact syncAll_store_plain idx _ rfl hs
    | kvDelete k => exact syncAll_store_plain idx _ rfl hs
    | kvDeleteCas k ci => exact syncAll_store_plain idx _ rfl hs
    | kvDeleteTree p => exact syncAll_store_plain idx _ rfl hs
    | kvLock e => exact syncAll_store_plain idx _ rfl hs
    | kvUnlock e => exact syncAll_store_plain idx _ rfl hs
    | sessionCreate r => exact syncAll_store_plain idx _ rfl hs
    | sessionDestroy id => exact syncAll_store_plain idx _ rfl hs
    | reap u => exact syncAll_store_plain idx _ rfl hs
    | pqSet id sess => exact syncAll_store_plain idx _ rfl hs
    | pqDelete id => exact syncAll_store_plain idx _ rfl hs

theorem syncAll_applyX {s : XState} (idx : Nat) (c : XCmd) (hs : SyncAll s) : SyncAll (applyX s idx c).1 := by
  have h1 := syncAll_stepX idx c hs
  intro q
  exact h1 q

/-- in every reachable state every catalog's attribute table is in step with its service table -/
theorem syncAll_replayX : ∀ (log : XLog) (s : XState), SyncAll s → SyncAll (replayX s log) := by
  intro log
  induction log with
  | nil => intro s hs; exact hs
  | cons ic rest ih =>
    intro s hs
    unfold replayX
    simp only [List.foldl_cons]
    exact ih _ (syncAll_applyX ic.1 ic.2 hs)

/-- with the tables in step the joined view keeps every service row -/
theorem rows_length_of_sync {c : Cat} (h : Sync c) : c.rows.length = c.st.svcs.length := by
  unfold Cat.rows
  have key : ∀ (svcs : List Svc), (∀ v ∈ svcs, v.pk ∈ c.ext.map SvcX.pk) →
      (svcs.filterMap fun v => (tfind SvcX.pk v.pk c.ext).map fun e => (v, e)).length = svcs.length := by
    intro svcs
    induction svcs with
    | nil => intro _; rfl
    | cons v rest ih =>
      intro hall
      have hv := hall v List.mem_cons_self
      obtain ⟨e, he, hk⟩ := List.mem_map.mp hv
      have hsome : (tfind SvcX.pk v.pk c.ext).isSome = true := tfind_isSome_of_mem he hk
      cases hf : tfind SvcX.pk v.pk c.ext with
      | none => rw [hf] at hsome; simp at hsome
      | some e' =>
        simp only [List.filterMap_cons, hf, Option.map_some, List.length_cons]
        rw [ih (fun w hw => hall w (List.mem_cons_of_mem _ hw))]
  apply key
  intro v hv
  rw [h]
  exact List.mem_map.mpr ⟨v, hv, rfl⟩

end CV.Store
