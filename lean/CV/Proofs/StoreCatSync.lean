/-
The attribute side table `ext` of every catalog stays in step with its service table: same primary keys in
the same order (so the joined view `Cat.rows` drops no row and the model-internal error `desync` is never
raised on a reachable state).
-/
import CV.Proofs.StoreCatVip
namespace CV.Store
open CV

def Sync (c : Cat) : Prop := c.ext.map SvcX.pk = c.st.svcs.map Svc.pk

theorem Sync.empty : Sync {} := rfl

section Tbl
variable {α β : Type}

theorem map_key_tupsert {k1 : α → String} {k2 : β → String} (r1 : α) (r2 : β) (hk : k1 r1 = k2 r2) :
    ∀ (l1 : List α) (l2 : List β), l1.map k1 = l2.map k2 →
      (tupsert k1 strLt r1 l1).map k1 = (tupsert k2 strLt r2 l2).map k2 := by
  intro l1
  induction l1 with
  | nil =>
    intro l2 h
    cases l2 with
    | nil => simp [tupsert, hk]
    | cons y ys => simp at h
  | cons x xs ih =>
    intro l2 h
    cases l2 with
    | nil => simp at h
    | cons y ys =>
      simp only [List.map_cons, List.cons.injEq] at h
      obtain ⟨hxy, hrest⟩ := h
      simp only [tupsert]
      rw [hxy, hk]
      by_cases h1 : k2 y = k2 r2
      · simp only [h1, if_true, List.map_cons, hk, hrest]
      · simp only [h1, if_false]
        split
        · simp only [List.map_cons, hk, hxy, hrest]
        · simp only [List.map_cons, hxy, ih ys hrest]

theorem map_key_terase {k1 : α → String} {k2 : β → String} (k : String) :
    ∀ (l1 : List α) (l2 : List β), l1.map k1 = l2.map k2 → (terase k1 k l1).map k1 = (terase k2 k l2).map k2 := by
  intro l1
  induction l1 with
  | nil =>
    intro l2 h
    cases l2 with
    | nil => rfl
    | cons y ys => simp at h
  | cons x xs ih =>
    intro l2 h
    cases l2 with
    | nil => simp at h
    | cons y ys =>
      simp only [List.map_cons, List.cons.injEq] at h
      obtain ⟨hxy, hrest⟩ := h
      unfold terase at ih ⊢
      simp only [List.filter_cons, hxy]
      split
      · simp only [List.map_cons, hxy, ih ys hrest]
      · exact ih ys hrest

end Tbl

/-- every catalog is in step -/
def SyncAll (s : XState) : Prop := ∀ q, Sync (s.cat q)

theorem SyncAll.empty : SyncAll XState.empty := by
  intro q
  have : (XState.empty.cat q) = {} := by
    unfold XState.cat XState.empty
    split
    · rfl
    · simp [tfind]
  rw [this]; exact Sync.empty

theorem SyncAll.of_frame {s s' : XState} (h : XFrame s s') (hs : SyncAll s) : SyncAll s' :=
  fun q => by rw [h.cat q]; exact hs q

theorem SyncAll.setCat {s : XState} (p : String) {c : Cat} (hc : Sync c) (hs : SyncAll s) : SyncAll (s.setCat p c) := by
  intro q
  rw [cat_setCat]
  split
  · exact hc
  · exact hs q

/-- replacing the base state of catalog `p` by one with the same service table -/
theorem SyncAll.setSt {s : XState} (p : String) {st' : State} (h : st'.svcs = (s.cat p).st.svcs) (hs : SyncAll s) :
    SyncAll (s.setCat p { s.cat p with st := st' }) :=
  SyncAll.setCat p (by unfold Sync; rw [h]; exact hs p) hs

theorem svcs_svcInsert (st : State) (v : Svc) : (svcInsert st v).svcs = tupsert Svc.pk strLt v st.svcs := by
  have := catView_svcInsert st v
  simp only [catView, Prod.mk.injEq] at this
  exact this.2.1

theorem syncAll_ensureServiceX {s s' : XState} {p node : String} {idx : Nat} {q : SvcReq}
    (h : ensureServiceX s p idx node q = .ok s') (hs : SyncAll s) : SyncAll s' := by
  unfold ensureServiceX at h
  extract_lets c s1 sn s2 r2 v at h
  have hs1 : XFrame s s1 := by unfold s1; split <;> exact ⟨rfl, rfl, rfl⟩
  have hs2 : XFrame s1 s2 := by unfold s2; split <;> exact ⟨rfl, rfl, rfl⟩
  have hr2 : ∀ s3 vip, r2 = Except.ok (s3, vip) → XFrame s s3 := by
    intro s3 vip hr
    unfold r2 at hr
    split at hr
    · split at hr
      · split at hr
        · next s3' ip ha => simp at hr; obtain ⟨rfl, -⟩ := hr; exact hs1.trans (hs2.trans (xframe_assignVip ha))
        · simp at hr
      · simp at hr; obtain ⟨rfl, -⟩ := hr; exact hs1.trans hs2
    · simp at hr; obtain ⟨rfl, -⟩ := hr; exact hs1
  clear_value r2
  split at h
  · simp at h
  · next _ s3 vip =>
    have hf := hr2 s3 vip rfl
    have h3 : SyncAll s3 := SyncAll.of_frame hf hs
    have put : ∀ (w : Svc) (e : SvcX), SvcX.pk e = Svc.pk w → SyncAll (s3.putSvc p w e) := by
      intro w e hk
      rw [putSvc_eq]
      refine SyncAll.setCat p ?_ h3
      unfold Sync
      simp only
      rw [svcs_svcInsert]
      exact map_key_tupsert e w hk _ _ (h3 p)
    split at h
    · simp at h
    · dsimp only at h
      split at h
      · split at h
        · simp at h; subst h; exact h3
        · simp at h; subst h; exact put _ _ rfl
      · simp at h
      · simp at h; subst h; exact put _ _ rfl

theorem syncAll_deleteServiceX {s s' : XState} {p node id : String} {idx : Nat}
    (h : deleteServiceX s p idx node id = .ok s') (hs : SyncAll s) : SyncAll s' := by
  unfold deleteServiceX at h
  extract_lets c at h
  split at h
  · simp at h; exact h ▸ hs
  · simp at h
  · next v e _ _ =>
    split at h
    · simp at h
    · next st' hd =>
      simp at h; subst h
      refine SyncAll.of_frame (xframe_afterServiceDelete _ p v e) (SyncAll.setCat p ?_ hs)
      unfold Sync
      simp only
      rw [(deleteService_spec hd).2.1]
      exact map_key_terase _ _ _ (hs p)

theorem syncAll_onSt {s s' : XState} {p : String} {f : State → Except Err State}
    (h : s.onSt p f = .ok s') (hf : ∀ st st', f st = .ok st' → st'.svcs = st.svcs) (hs : SyncAll s) : SyncAll s' := by
  unfold XState.onSt at h
  simp only at h
  split at h
  · next st' hst => simp at h; subst h; exact SyncAll.setSt p (hf _ _ hst) hs
  · simp at h

theorem svcs_foldE_deleteCheck {idx : Nat} {node : String} (l : List Chk) (s s' : State)
    (h : foldE (fun st (c : Chk) => deleteCheck st idx node c.id) l s = .ok s') : s'.svcs = s.svcs :=
  (foldE_deleteCheck_spec l s s' h).2.1

theorem svcs_foldE_deleteSession {idx : Nat} (l : List String) (s s' : State)
    (h : foldE (fun st sid => deleteSession st idx sid) l s = .ok s') : s'.svcs = s.svcs :=
  (foldE_deleteSession_rel l s s' h).svcs

theorem syncAll_deleteNodeX {s s' : XState} {p name : String} {idx : Nat}
    (h : deleteNodeX s p idx name = .ok s') (hs : SyncAll s) : SyncAll s' := by
  unfold deleteNodeX at h
  extract_lets c svcs st1 at h
  split at h
  · simp at h; exact h ▸ hs
  · split at h
    · simp at h
    · next s2 hf2 =>
      have hst1 : st1.svcs = (s.cat p).st.svcs := catView_svcs (foldl_bump_view idx _ _)
      have h1 : SyncAll (s.setCat p { c with st := st1 }) := SyncAll.setSt p hst1 hs
      have h2 : SyncAll s2 := foldX_ind SyncAll _ (fun st b st' hst hb => syncAll_deleteServiceX hb hst) _ _ _ h1 hf2
      extract_lets c2 cs s3 at h
      have h3 : SyncAll s3 := by
        unfold s3; split
        · exact SyncAll.of_frame ⟨rfl, rfl, rfl⟩ h2 |> fun x => by intro q; exact x q
        · exact h2
      split at h
      · simp at h
      · next st3 hf3 =>
        extract_lets st5 ids at h
        split at h
        · simp at h
        · next st6 hf6 =>
          simp at h; subst h
          have e3 : st3.svcs = c2.st.svcs := svcs_foldE_deleteCheck _ _ _ hf3
          have e5 : st5.svcs = st3.svcs := by
            have := catView_deleteNodePost st3 idx name
            simp only [catView, Prod.mk.injEq] at this
            exact this.2.1
          have e6 : st6.svcs = st5.svcs := svcs_foldE_deleteSession _ _ _ hf6
          have hc2 : s3.cat p = c2 := by
            unfold s3; split <;> rfl
          have : SyncAll (s3.setCat p { s3.cat p with st := st6 }) :=
            SyncAll.setSt p (by rw [hc2, e6, e5, e3]) h3
          rw [hc2] at this
          exact this

theorem syncAll_ensureNodeX {s s' : XState} {p : String} {idx : Nat} {node : Node}
    (h : ensureNodeX s p idx node = .ok s') (hs : SyncAll s) : SyncAll s' := by
  rw [ensureNodeX_eq] at h
  split at h
  · simp at h
  · next s1 byId hb =>
    simp at h; subst h
    have h1 : SyncAll s1 := by
      unfold ensureNodeByIdX at hb
      simp only at hb
      repeat' (split at hb)
      all_goals (try simp at hb)
      all_goals (obtain ⟨rfl, -⟩ := hb)
      all_goals (first | exact hs | (next hd => exact syncAll_deleteNodeX hd hs))
    have ins : ∀ n, SyncAll (s1.setCat p { s1.cat p with st := nodeInsert (s1.cat p).st n }) := by
      intro n
      refine SyncAll.setSt p ?_ h1
      have := catView_nodeInsert (s1.cat p).st n
      simp only [catView, Prod.mk.injEq] at this
      exact this.2.1
    unfold ensureNodeFinishX
    simp only
    split
    · split
      · exact h1
      · exact ins _
    · exact ins _

theorem svcs_foldE_checks {idx : Nat} {node : String} : ∀ (l : List Chk) (st st' : State),
    foldE (fun st c => ensureCheckIfNodeMatches st idx node c) l st = .ok st' → st'.svcs = st.svcs := by
  intro l
  induction l with
  | nil => intro st st' h; simp [foldE] at h; subst h; rfl
  | cons b bs ih =>
    intro st st' h
    simp only [foldE] at h
    split at h
    · next st1 h1 =>
      unfold ensureCheckIfNodeMatches at h1
      split at h1
      · simp at h1
      · exact (ih st1 st' h).trans (ensSpec_ensureCheck h1).svcs
    · simp at h

theorem syncAll_registerX {s s' : XState} {idx : Nat} {r : XRegReq}
    (h : registerX s idx r = .ok s') (hs : SyncAll s) : SyncAll s' := by
  unfold registerX at h
  extract_lets p r1 at h
  have h1 : ∀ s1, r1 = Except.ok s1 → SyncAll s1 := by
    intro s1 hr
    unfold r1 at hr
    split at hr
    · split at hr
      · simp at hr; exact hr ▸ hs
      · exact syncAll_ensureNodeX hr hs
    · exact syncAll_ensureNodeX hr hs
  clear_value r1
  split at h
  · simp at h
  · next _ s1 =>
    have hs1 := h1 s1 rfl
    extract_lets c1 r2 at h
    have h2 : ∀ s2, r2 = Except.ok s2 → SyncAll s2 := by
      intro s2 hr
      unfold r2 at hr
      split at hr
      · simp at hr; exact hr ▸ hs1
      · split at hr
        · split at hr
          · simp at hr; exact hr ▸ hs1
          · exact syncAll_ensureServiceX hr hs1
        · simp at hr
        · exact syncAll_ensureServiceX hr hs1
    clear_value r2
    split at h
    · simp at h
    · next _ s2 => exact syncAll_onSt h (fun st st' hst => svcs_foldE_checks _ _ _ hst) (h2 s2 rfl)

theorem syncAll_deregisterX {s s' : XState} {idx : Nat} {p node svcId chkId : String}
    (h : deregisterX s idx p node svcId chkId = .ok s') (hs : SyncAll s) : SyncAll s' := by
  unfold deregisterX at h
  split at h
  · exact syncAll_deleteServiceX h hs
  · split at h
    · exact syncAll_onSt h (fun st st' hst => (deleteCheck_spec hst).2.1) hs
    · exact syncAll_deleteNodeX h hs

end CV.Store
