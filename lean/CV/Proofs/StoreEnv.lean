/-
Non-interference of the server-local lock-delay map (`State.loc`) in the store model: every
function of `CV/Store/{KV,Session,Catalog,Txn,Apply}.lean` maps stores with equal replicated parts
(`Sim`) to outputs that are equal up to `loc`. Used by `CV/Props/C01.lean` (`replicas_agree_store`).

Pattern. `Sim a b` is decomposed into `a = setLoc r l₁`, `b = setLoc r l₂`; unfolding a function
then shows the same control flow over `r` on both sides, because no model function reads `loc`
(the only writer is `invalidateKeys`). Calls to other model functions are bridged by their own
`_sim` lemma.
-/
import CV.Store.Env
import CV.Proofs.StoreBasic

namespace CV.Store
open CV

theorem sim_decomp {a b : State} (h : Sim a b) : ∃ r l₁ l₂, a = setLoc r l₁ ∧ b = setLoc r l₂ := by
  refine ⟨a.repl, a.loc, b.loc, ?_, ?_⟩
  · cases a; rfl
  · rw [h]; cases b; rfl

theorem Sim.rfl' (a : State) : Sim a a := rfl
theorem Sim.symm' {a b : State} (h : Sim a b) : Sim b a := Eq.symm h
theorem sim_setLoc (r : State) (l₁ l₂ : Local) : Sim (setLoc r l₁) (setLoc r l₂) := rfl
theorem sim_repl (a : State) : Sim a.repl a := by cases a; rfl

/-- erasure of `loc` in the outputs of model functions -/
def erS (x : Except Err State) : Except Err State := x.map State.repl
def erP {β : Type} (x : Except Err (State × β)) : Except Err (State × β) := x.map (fun p => (p.1.repl, p.2))

theorem erS_ok_ok {x y : State} : erS (.ok x) = erS (.ok y) ↔ Sim x y := by
  simp [erS, Except.map, Sim]
theorem erS_ok_err {x : State} {e : Err} : erS (.ok x) ≠ erS (.error e) := by simp [erS, Except.map]
theorem erS_err_ok {x : State} {e : Err} : erS (.error e) ≠ erS (.ok x) := by simp [erS, Except.map]
theorem erS_err_err {e e' : Err} : erS (.error e) = erS (.error e') ↔ e = e' := by simp [erS, Except.map]

/-- what `erS x = erS y` means, case by case -/
theorem erS_cases {x y : Except Err State} (h : erS x = erS y) :
    (∃ a b, x = .ok a ∧ y = .ok b ∧ Sim a b) ∨ (∃ e, x = .error e ∧ y = .error e) := by
  cases x <;> cases y <;> simp_all [erS, Except.map, Sim]

theorem erP_cases {β : Type} {x y : Except Err (State × β)} (h : erP x = erP y) :
    (∃ a b v, x = .ok (a, v) ∧ y = .ok (b, v) ∧ Sim a b) ∨ (∃ e, x = .error e ∧ y = .error e) := by
  cases x with
  | error e =>
    cases y with
    | error e' => right; simp_all [erP, Except.map]
    | ok q => simp [erP, Except.map] at h
  | ok p =>
    cases y with
    | error e' => simp [erP, Except.map] at h
    | ok q =>
      left
      obtain ⟨a, v⟩ := p
      obtain ⟨b, w⟩ := q
      simp only [erP, Except.map, Except.ok.injEq, Prod.mk.injEq] at h
      exact ⟨a, b, v, rfl, by rw [h.2], h.1⟩

theorem erP_ok {β : Type} {a b : State} (h : Sim a b) (v : β) :
    erP (.ok (a, v) : Except Err (State × β)) = erP (.ok (b, v)) := by
  simp only [erP, Except.map]; rw [show a.repl = b.repl from h]

theorem erS_ok {a b : State} (h : Sim a b) : erS (.ok a) = erS (.ok b) := erS_ok_ok.mpr h

theorem kvFind_sim {a b : State} (h : Sim a b) (k : Key) : kvFind a k = kvFind b k := by
  obtain ⟨r, l₁, l₂, rfl, rfl⟩ := sim_decomp h; rfl

/-! ### KV -/

theorem kvSetTxn_sim {a b : State} (h : Sim a b) (idx : Nat) (e : KV) (u : Bool) :
    erP (kvSetTxn a idx e u) = erP (kvSetTxn b idx e u) := by
  obtain ⟨r, l₁, l₂, rfl, rfl⟩ := sim_decomp h
  simp only [kvSetTxn, kvFind, setLoc, kvInsert, erP]
  repeat' split
  all_goals simp [Except.map, State.repl]

theorem kvDeleteTxn_sim {a b : State} (h : Sim a b) (idx : Nat) (k : Key) :
    erS (kvDeleteTxn a idx k) = erS (kvDeleteTxn b idx k) := by
  obtain ⟨r, l₁, l₂, rfl, rfl⟩ := sim_decomp h
  simp only [kvDeleteTxn, kvFind, setLoc, tombInsert, erS]
  repeat' split
  all_goals simp [Except.map, State.repl]

theorem kvDeleteCasTxn_sim {a b : State} (h : Sim a b) (idx c : Nat) (k : Key) :
    erP (kvDeleteCasTxn a idx c k) = erP (kvDeleteCasTxn b idx c k) := by
  have hd := kvDeleteTxn_sim h idx k
  obtain ⟨r, l₁, l₂, rfl, rfl⟩ := sim_decomp h
  simp only [kvDeleteCasTxn, kvFind, setLoc, erP] at *
  repeat' split
  all_goals simp_all [Except.map, State.repl, erS]

theorem kvSetCasTxn_sim {a b : State} (h : Sim a b) (idx : Nat) (e : KV) :
    erP (kvSetCasTxn a idx e) = erP (kvSetCasTxn b idx e) := by
  have hd := kvSetTxn_sim h idx e false
  simp only [kvSetCasTxn, kvFind_sim h e.key]
  rcases erP_cases hd with ⟨x, y, v, hx, hy, hs⟩ | ⟨er, hx, hy⟩
  · simp only [hx, hy]
    repeat' split
    all_goals first | rfl | exact erP_ok h _ | exact erP_ok hs _
  · simp only [hx, hy]
    repeat' split
    all_goals first | rfl | exact erP_ok h _

theorem kvDeleteTreeTxn_sim {a b : State} (h : Sim a b) (idx : Nat) (p : Key) :
    Sim (kvDeleteTreeTxn a idx p) (kvDeleteTreeTxn b idx p) := by
  obtain ⟨r, l₁, l₂, rfl, rfl⟩ := sim_decomp h
  by_cases hp : p = [] <;> simp only [kvDeleteTreeTxn, setLoc, tombInsert, Sim, hp] <;> split <;> simp [State.repl]

theorem sessionLive_sim {a b : State} (h : Sim a b) (id : String) : sessionLive a id = sessionLive b id := by
  obtain ⟨r, l₁, l₂, rfl, rfl⟩ := sim_decomp h
  rfl

theorem lockDecision_sim {a b : State} (h : Sim a b) (idx : Nat) (e : KV) :
    lockDecision a idx e = lockDecision b idx e := by
  obtain ⟨r, l₁, l₂, rfl, rfl⟩ := sim_decomp h
  rfl

theorem unlockDecision_sim {a b : State} (h : Sim a b) (idx : Nat) (e : KV) :
    unlockDecision a idx e = unlockDecision b idx e := by
  obtain ⟨r, l₁, l₂, rfl, rfl⟩ := sim_decomp h
  rfl

theorem kvLockTxn_sim {a b : State} (h : Sim a b) (idx : Nat) (e : KV) :
    erP (kvLockTxn a idx e) = erP (kvLockTxn b idx e) := by
  simp only [kvLockTxn, lockDecision_sim h idx e]
  split
  · rfl
  · exact erP_ok h _
  · next e' _ =>
    have hd := kvSetTxn_sim h idx e' true
    rcases erP_cases hd with ⟨x, y, v, hx, hy, hs⟩ | ⟨er, hx, hy⟩
    · obtain ⟨v1, v2⟩ := v
      simp only [hx, hy]; exact erP_ok hs _
    · simp [hx, hy]

theorem kvUnlockTxn_sim {a b : State} (h : Sim a b) (idx : Nat) (e : KV) :
    erP (kvUnlockTxn a idx e) = erP (kvUnlockTxn b idx e) := by
  simp only [kvUnlockTxn, unlockDecision_sim h idx e]
  split
  · rfl
  · exact erP_ok h _
  · next e' _ =>
    have hd := kvSetTxn_sim h idx e' true
    rcases erP_cases hd with ⟨x, y, v, hx, hy, hs⟩ | ⟨er, hx, hy⟩
    · obtain ⟨v1, v2⟩ := v
      simp only [hx, hy]; exact erP_ok hs _
    · simp [hx, hy]

theorem reapTxn_sim {a b : State} (h : Sim a b) (upto : Nat) : Sim (reapTxn a upto) (reapTxn b upto) := by
  obtain ⟨r, l₁, l₂, rfl, rfl⟩ := sim_decomp h
  rfl

theorem kvGet_sim {a b : State} (h : Sim a b) (k : Key) : kvGet a k = kvGet b k := by
  obtain ⟨r, l₁, l₂, rfl, rfl⟩ := sim_decomp h; rfl
theorem kvList_sim {a b : State} (h : Sim a b) (p : Key) : kvList a p = kvList b p := by
  obtain ⟨r, l₁, l₂, rfl, rfl⟩ := sim_decomp h; rfl
theorem kvCheckSession_sim {a b : State} (h : Sim a b) (k : Key) (x : String) : kvCheckSession a k x = kvCheckSession b k x := by
  obtain ⟨r, l₁, l₂, rfl, rfl⟩ := sim_decomp h; rfl
theorem kvCheckIndex_sim {a b : State} (h : Sim a b) (k : Key) (c : Nat) : kvCheckIndex a k c = kvCheckIndex b k c := by
  obtain ⟨r, l₁, l₂, rfl, rfl⟩ := sim_decomp h; rfl

/-! ### sessions, checks, prepared queries -/

/-- readers: a function that is definitionally a function of the replicated fields -/
macro "sim_reader" h:ident : tactic =>
  `(tactic| (obtain ⟨r, l₁, l₂, h1, h2⟩ := sim_decomp $h; subst h1 h2; rfl))

theorem maxIdx_sim {a b : State} (h : Sim a b) (k : String) (v : Nat) : Sim (a.maxIdx k v) (b.maxIdx k v) := by sim_reader h
theorem maxIdx2_sim {a b : State} (h : Sim a b) (k : String) (v : Nat) : Sim (a.maxIdx2 k v) (b.maxIdx2 k v) := by sim_reader h
theorem delIdx_sim {a b : State} (h : Sim a b) (k : String) : Sim (a.delIdx k) (b.delIdx k) := by sim_reader h
theorem bumpServiceIdx_sim {a b : State} (h : Sim a b) (idx : Nat) (n : String) :
    Sim (bumpServiceIdx a idx n) (bumpServiceIdx b idx n) := by sim_reader h

theorem foldl_sim {β : Type} (f : State → β → State) (hf : ∀ a b x, Sim a b → Sim (f a x) (f b x)) :
    ∀ (xs : List β) (a b : State), Sim a b → Sim (xs.foldl f a) (xs.foldl f b) := by
  intro xs
  induction xs with
  | nil => intro a b h; exact h
  | cons x xs ih => intro a b h; exact ih _ _ (hf a b x h)

theorem svcs_sim {a b : State} (h : Sim a b) : a.svcs = b.svcs := by sim_reader h
theorem chks_sim {a b : State} (h : Sim a b) : a.chks = b.chks := by sim_reader h
theorem sessions_sim {a b : State} (h : Sim a b) : a.sessions = b.sessions := by sim_reader h
theorem kvs_sim {a b : State} (h : Sim a b) : a.kvs = b.kvs := by sim_reader h

theorem updateAllServiceIndexesOfNode_sim {a b : State} (h : Sim a b) (idx : Nat) (node : String) :
    Sim (updateAllServiceIndexesOfNode a idx node) (updateAllServiceIndexesOfNode b idx node) := by
  simp only [updateAllServiceIndexesOfNode, svcs_sim h]
  exact foldl_sim _ (fun x y v hxy => bumpServiceIdx_sim hxy idx v.name) _ a b h

theorem chkInsert_sim {a b : State} (h : Sim a b) (c : Chk) (idx : Nat) : Sim (chkInsert a c idx) (chkInsert b c idx) := by
  sim_reader h

theorem invalidateKeys_sim {a b : State} (h : Sim a b) (idx : Nat) (x : Sess) :
    Sim (invalidateKeys a idx x) (invalidateKeys b idx x) := by
  obtain ⟨r, l₁, l₂, rfl, rfl⟩ := sim_decomp h
  unfold invalidateKeys
  simp only [setLoc]
  by_cases he : (List.filter (heldBy x.id) r.kvs).isEmpty = true
  · simp only [he, if_true]; rfl
  · simp only [he]
    cases x.behavior <;> rfl

theorem dropSessionRefs_sim {a b : State} (h : Sim a b) (idx : Nat) (id : String) :
    Sim (dropSessionRefs a idx id) (dropSessionRefs b idx id) := by
  obtain ⟨r, l₁, l₂, rfl, rfl⟩ := sim_decomp h
  unfold dropSessionRefs
  simp only [setLoc]
  by_cases he : (r.queries.any fun q => q.session != "" && lc q.session == lc id) = true
  · simp only [he, if_true]; rfl
  · simp only [he]; rfl

theorem sessionTypedChecks_sim {a b : State} (h : Sim a b) (x : Sess) : sessionTypedChecks a x = sessionTypedChecks b x := by sim_reader h
theorem checkSessions_sim {a b : State} (h : Sim a b) (n c : String) : checkSessions a n c = checkSessions b n c := by sim_reader h
theorem chkFind_sim {a b : State} (h : Sim a b) (n c : String) : chkFind a n c = chkFind b n c := by sim_reader h
theorem nodeFind_sim {a b : State} (h : Sim a b) (n : String) : nodeFind a n = nodeFind b n := by sim_reader h
theorem svcFind_sim {a b : State} (h : Sim a b) (n c : String) : svcFind a n c = svcFind b n c := by sim_reader h
theorem sessFind_sim {a b : State} (h : Sim a b) (id : String) : sessFind a id = sessFind b id := by sim_reader h
theorem sessionsToInvalidate_sim {a b : State} (h : Sim a b) (c : Chk) : sessionsToInvalidate a c = sessionsToInvalidate b c := by sim_reader h
theorem fuelFor_sim {a b : State} (h : Sim a b) : fuelFor a = fuelFor b := by sim_reader h
theorem pqFind_sim {a b : State} (h : Sim a b) (id : String) : pqFind a id = pqFind b id := by sim_reader h

theorem foldE_sim {β : Type} (f : State → β → Except Err State)
    (hf : ∀ a b x, Sim a b → erS (f a x) = erS (f b x)) :
    ∀ (xs : List β) (a b : State), Sim a b → erS (foldE f xs a) = erS (foldE f xs b) := by
  intro xs
  induction xs with
  | nil => intro a b h; simp only [foldE]; exact erS_ok h
  | cons x xs ih =>
    intro a b h
    simp only [foldE]
    rcases erS_cases (hf a b x h) with ⟨u, v, hu, hv, huv⟩ | ⟨e, hu, hv⟩
    · simp only [hu, hv]; exact ih u v huv
    · simp only [hu, hv]

theorem checkPrep_sim {a b : State} (h : Sim a b) (idx : Nat) (p : Bool) (hc : Chk) :
    erP (checkPrep a idx p hc) = erP (checkPrep b idx p hc) := by
  simp only [checkPrep, chkFind_sim h, nodeFind_sim h, svcFind_sim h]
  repeat' split
  all_goals first
    | rfl
    | exact erP_ok h _
    | exact erP_ok (bumpServiceIdx_sim h _ _) _
    | exact erP_ok (updateAllServiceIndexesOfNode_sim h _ _) _

theorem checkFinish_sim {a b : State} (h : Sim a b) (idx : Nat) (p : Bool) (hc : Chk) (m : Bool) :
    Sim (checkFinish a idx p hc m) (checkFinish b idx p hc m) := by
  simp only [checkFinish]
  split
  · exact h
  · exact chkInsert_sim h _ _

/-- the mutually recursive pair, by induction on the fuel -/
theorem cascade_sim (n : Nat) :
    (∀ (a b : State) (idx : Nat) (id : String), Sim a b →
        erS (deleteSessionF n a idx id) = erS (deleteSessionF n b idx id)) ∧
    (∀ (a b : State) (idx : Nat) (p : Bool) (hc : Chk), Sim a b →
        erS (ensureCheckF n a idx p hc) = erS (ensureCheckF n b idx p hc)) := by
  induction n with
  | zero =>
    constructor
    · intro a b idx id h
      rw [deleteSessionF, deleteSessionF, sessFind_sim h]
      split
      · exact erS_ok h
      · rfl
    · intro a b idx p hc h
      rw [ensureCheckF, ensureCheckF]
      rcases erP_cases (checkPrep_sim h idx p hc) with ⟨u, v, w, hu, hv, huv⟩ | ⟨e, hu, hv⟩
      · obtain ⟨hc1, m⟩ := w
        simp only [hu, hv, sessionsToInvalidate_sim huv]
        cases hl : sessionsToInvalidate v hc1 with
        | nil => exact erS_ok (checkFinish_sim huv _ _ _ _)
        | cons i is => rfl
      · simp only [hu, hv]
  | succ n ih =>
    constructor
    · intro a b idx id h
      rw [deleteSessionF, deleteSessionF, sessFind_sim h]
      split
      · exact erS_ok h
      · next sess _ =>
        simp only [sessions_sim h]
        have h1 : Sim ({ a with sessions := terase Sess.pk (lc id) b.sessions, index := idxSet a.index "sessions" idx })
                      ({ b with sessions := terase Sess.pk (lc id) b.sessions, index := idxSet b.index "sessions" idx }) := by
          obtain ⟨r, l₁, l₂, rfl, rfl⟩ := sim_decomp h; rfl
        have h3 := dropSessionRefs_sim (invalidateKeys_sim h1 idx sess) idx id
        rw [sessionTypedChecks_sim h3]
        exact foldE_sim
          (fun (st : State) (c : Chk) => ensureCheckF n st idx false { c with status := critical, output := sessionCheckOutput sess critical })
          (fun x y c hxy => ih.2 x y idx _ _ hxy) _ _ _ h3
    · intro a b idx p hc h
      rw [ensureCheckF, ensureCheckF]
      rcases erP_cases (checkPrep_sim h idx p hc) with ⟨u, v, w, hu, hv, huv⟩ | ⟨e, hu, hv⟩
      · obtain ⟨hc1, m⟩ := w
        simp only [hu, hv, sessionsToInvalidate_sim huv]
        cases hl : sessionsToInvalidate v hc1 with
        | nil => exact erS_ok (checkFinish_sim huv _ _ _ _)
        | cons i is =>
          have hf := foldE_sim (fun st sid => deleteSessionF n st idx sid)
            (fun x y sid hxy => ih.1 x y idx sid hxy) (i :: is) u v huv
          dsimp only
          rcases erS_cases hf with ⟨x, y, hx, hy, hxy⟩ | ⟨e, hx, hy⟩
          · rw [hx, hy]; exact erS_ok (checkFinish_sim hxy _ _ _ _)
          · rw [hx, hy]
      · simp only [hu, hv]

theorem deleteSession_sim {a b : State} (h : Sim a b) (idx : Nat) (id : String) :
    erS (deleteSession a idx id) = erS (deleteSession b idx id) := by
  simp only [deleteSession, fuelFor_sim h]
  exact (cascade_sim _).1 a b idx id h

theorem ensureCheck_sim {a b : State} (h : Sim a b) (idx : Nat) (p : Bool) (hc : Chk) :
    erS (ensureCheck a idx p hc) = erS (ensureCheck b idx p hc) := by
  simp only [ensureCheck, fuelFor_sim h]
  exact (cascade_sim _).2 a b idx p hc h

theorem updateSessionCheck_sim {a b : State} (h : Sim a b) (idx : Nat) (x : Sess) (st : String) :
    erS (updateSessionCheck a idx x st) = erS (updateSessionCheck b idx x st) := by
  simp only [updateSessionCheck, sessionTypedChecks_sim h]
  exact foldE_sim
    (fun (s : State) (c : Chk) => ensureCheck s idx false { c with status := st, output := sessionCheckOutput x st })
    (fun u v c huv => ensureCheck_sim huv idx _ _) _ a b h

theorem validateSessionChecks_sim {a b : State} (h : Sim a b) (node : String) (cs : List String) :
    validateSessionChecks a node cs = validateSessionChecks b node cs := by
  induction cs with
  | nil => rfl
  | cons c cs ih => simp only [validateSessionChecks, chkFind_sim h, ih]

theorem insertSession_sim {a b : State} (h : Sim a b) (x : Sess) (idx : Nat) :
    Sim (insertSession a x idx) (insertSession b x idx) := by sim_reader h

theorem sessionCreate_sim {a b : State} (h : Sim a b) (idx : Nat) (r : SessReq) :
    erS (sessionCreate a idx r) = erS (sessionCreate b idx r) := by
  simp only [sessionCreate, nodeFind_sim h, validateSessionChecks_sim h]
  repeat' split
  all_goals first
    | rfl
    | exact updateSessionCheck_sim (insertSession_sim h _ _) _ _ _

theorem pqSet_sim {a b : State} (h : Sim a b) (idx : Nat) (id session : String) :
    erS (pqSet a idx id session) = erS (pqSet b idx id session) := by
  simp only [pqSet, sessionLive_sim h, pqFind_sim h]
  split
  · rfl
  · split
    · rfl
    · apply erS_ok
      obtain ⟨r, l₁, l₂, rfl, rfl⟩ := sim_decomp h
      rfl

theorem pqDelete_sim {a b : State} (h : Sim a b) (idx : Nat) (id : String) :
    Sim (pqDelete a idx id) (pqDelete b idx id) := by
  simp only [pqDelete, pqFind_sim h]
  split
  · exact h
  · sim_reader h

/-! ### catalog -/

theorem nodeFindByID_sim {a b : State} (h : Sim a b) (id : String) : nodeFindByID a id = nodeFindByID b id := by sim_reader h
theorem nameClash_sim {a b : State} (h : Sim a b) (n : Node) (f : Bool) : nameClash a n f = nameClash b n f := by sim_reader h

theorem nodeInsert_sim {a b : State} (h : Sim a b) (n : Node) : Sim (nodeInsert a n) (nodeInsert b n) := by
  simp only [nodeInsert]
  apply updateAllServiceIndexesOfNode_sim
  sim_reader h

theorem deleteCheckPre_sim {a b : State} (h : Sim a b) (idx : Nat) (node id : String) (x : Chk) :
    Sim (deleteCheckPre a idx node id x) (deleteCheckPre b idx node id x) := by
  simp only [deleteCheckPre]
  have h1 : Sim (if x.svcId ≠ "" then (a.maxIdx ("peer.~:service." ++ x.svcName) idx).maxIdx2 "service_kind.typical" idx
                  else (updateAllServiceIndexesOfNode a idx x.node).maxIdx2 "services" idx)
                (if x.svcId ≠ "" then (b.maxIdx ("peer.~:service." ++ x.svcName) idx).maxIdx2 "service_kind.typical" idx
                  else (updateAllServiceIndexesOfNode b idx x.node).maxIdx2 "services" idx) := by
    split
    · exact maxIdx2_sim (maxIdx_sim h _ _) _ _
    · exact maxIdx2_sim (updateAllServiceIndexesOfNode_sim h _ _) _ _
  revert h1
  generalize (if x.svcId ≠ "" then _ else _ : State) = u
  generalize (if x.svcId ≠ "" then _ else _ : State) = v
  intro h1
  sim_reader h1

theorem deleteCheck_sim {a b : State} (h : Sim a b) (idx : Nat) (node id : String) :
    erS (deleteCheck a idx node id) = erS (deleteCheck b idx node id) := by
  simp only [deleteCheck, chkFind_sim h]
  split
  · exact erS_ok h
  · next x _ =>
    have h2 := deleteCheckPre_sim h idx node id x
    rw [checkSessions_sim h2]
    exact foldE_sim _ (fun u v sid huv => deleteSession_sim huv idx sid) _ _ _ h2

theorem deleteServicePost_sim {a b : State} (h : Sim a b) (idx : Nat) (node id : String) (v : Svc) :
    Sim (deleteServicePost a idx node id v) (deleteServicePost b idx node id v) := by
  have h2 := maxIdx2_sim h "checks" idx
  have h3 : Sim ({ a.maxIdx2 "checks" idx with svcs := terase Svc.pk (pk2 node id) (a.maxIdx2 "checks" idx).svcs })
                ({ b.maxIdx2 "checks" idx with svcs := terase Svc.pk (pk2 node id) (b.maxIdx2 "checks" idx).svcs }) := by
    revert h2
    generalize a.maxIdx2 "checks" idx = u
    generalize b.maxIdx2 "checks" idx = w
    intro h2
    sim_reader h2
  have h4 := maxIdx_sim (maxIdx2_sim (maxIdx2_sim (maxIdx2_sim h3 "services" idx) "service_kind.typical" idx) "nodes" idx)
    ("peer.~:node." ++ node) idx
  simp only [deleteServicePost, svcs_sim h4]
  split
  · exact maxIdx_sim h4 _ _
  · exact maxIdx_sim (delIdx_sim h4 _) _ _

theorem deleteService_sim {a b : State} (h : Sim a b) (idx : Nat) (node id : String) :
    erS (deleteService a idx node id) = erS (deleteService b idx node id) := by
  simp only [deleteService, svcFind_sim h, chks_sim h]
  split
  · exact erS_ok h
  · next v _ =>
    have hf := foldE_sim (fun st (c : Chk) => deleteCheck st idx node c.id)
      (fun u w c huw => deleteCheck_sim huw idx node c.id)
      (b.chks.filter (fun c => lc c.node == lc node && lc c.svcId == lc id)) a b h
    rcases erS_cases hf with ⟨x, y, hx, hy, hxy⟩ | ⟨e, hx, hy⟩
    · rw [hx, hy]; exact erS_ok (deleteServicePost_sim hxy _ _ _ _)
    · rw [hx, hy]

theorem deleteNodePost_sim {a b : State} (h : Sim a b) (idx : Nat) (name : String) :
    Sim (deleteNodePost a idx name) (deleteNodePost b idx name) := by sim_reader h

theorem deleteNode_sim {a b : State} (h : Sim a b) (idx : Nat) (name : String) :
    erS (deleteNode a idx name) = erS (deleteNode b idx name) := by
  simp only [deleteNode, nodeFind_sim h, svcs_sim h]
  split
  · exact erS_ok h
  · have h1 := foldl_sim (fun st (v : Svc) => bumpServiceIdx st idx v.name)
      (fun u w v huw => bumpServiceIdx_sim huw idx v.name) (b.svcs.filter (fun v => lc v.node == lc name)) a b h
    have hf := foldE_sim (fun st (v : Svc) => deleteService st idx name v.id)
      (fun u w v huw => deleteService_sim huw idx name v.id) (b.svcs.filter (fun v => lc v.node == lc name)) _ _ h1
    rcases erS_cases hf with ⟨x, y, hx, hy, hxy⟩ | ⟨e, hx, hy⟩
    · rw [hx, hy]
      dsimp only
      rw [chks_sim hxy]
      have hg := foldE_sim (fun st (c : Chk) => deleteCheck st idx name c.id)
        (fun u w c huw => deleteCheck_sim huw idx name c.id) (y.chks.filter (fun c => lc c.node == lc name)) x y hxy
      rcases erS_cases hg with ⟨x', y', hx', hy', hxy'⟩ | ⟨e, hx', hy'⟩
      · rw [hx', hy']
        dsimp only
        have h5 := deleteNodePost_sim hxy' idx name
        rw [sessions_sim h5]
        exact foldE_sim _ (fun u w sid huw => deleteSession_sim huw idx sid) _ _ _ h5
      · rw [hx', hy']
    · rw [hx, hy]

theorem ensureNode_sim {a b : State} (h : Sim a b) (idx : Nat) (node : Node) :
    erS (ensureNode a idx node) = erS (ensureNode b idx node) := by
  unfold ensureNode
  simp only [nodeFindByID_sim h, nameClash_sim h]
  generalize hra : (if node.id ≠ "" then _ else _ : Except Err (State × Option Node)) = ra
  generalize hrb : (if node.id ≠ "" then _ else _ : Except Err (State × Option Node)) = rb
  have hr : erP ra = erP rb := by
    rw [← hra, ← hrb]
    split
    · split
      · next n _ =>
        split
        · split
          · rfl
          · rcases erS_cases (deleteNode_sim h idx n.name) with ⟨x, y, hx, hy, hxy⟩ | ⟨e, hx, hy⟩
            · rw [hx, hy]; exact erP_ok hxy _
            · rw [hx, hy]
        · exact erP_ok h _
      · split
        · rfl
        · exact erP_ok h _
    · exact erP_ok h _
  rcases erP_cases hr with ⟨x, y, byId, hx, hy, hxy⟩ | ⟨e, hx, hy⟩
  · subst hx hy
    simp only [nodeFind_sim hxy]
    repeat' split
    all_goals first
      | exact erS_ok hxy
      | exact erS_ok (nodeInsert_sim hxy _)
  · subst hx hy; rfl

theorem ensureNodeCas_sim {a b : State} (h : Sim a b) (idx : Nat) (node : Node) :
    erP (ensureNodeCas a idx node) = erP (ensureNodeCas b idx node) := by
  simp only [ensureNodeCas, nodeFind_sim h]
  split
  · exact erP_ok h _
  · rcases erS_cases (ensureNode_sim h idx node) with ⟨x, y, hx, hy, hxy⟩ | ⟨e, hx, hy⟩
    · rw [hx, hy]; exact erP_ok hxy _
    · rw [hx, hy]

theorem deleteNodeCas_sim {a b : State} (h : Sim a b) (idx c : Nat) (name : String) :
    erP (deleteNodeCas a idx c name) = erP (deleteNodeCas b idx c name) := by
  simp only [deleteNodeCas, nodeFind_sim h]
  split
  · exact erP_ok h _
  · split
    · exact erP_ok h _
    · rcases erS_cases (deleteNode_sim h idx name) with ⟨x, y, hx, hy, hxy⟩ | ⟨e, hx, hy⟩
      · rw [hx, hy]; exact erP_ok hxy _
      · rw [hx, hy]

theorem svcInsert_sim {a b : State} (h : Sim a b) (v : Svc) : Sim (svcInsert a v) (svcInsert b v) := by sim_reader h

theorem ensureService_sim {a b : State} (h : Sim a b) (idx : Nat) (v : Svc) :
    erS (ensureService a idx v) = erS (ensureService b idx v) := by
  simp only [ensureService, nodeFind_sim h, svcFind_sim h]
  split
  · rfl
  · split
    · split
      · exact erS_ok h
      · exact erS_ok (svcInsert_sim h _)
    · exact erS_ok (svcInsert_sim h _)

theorem ensureServiceCas_sim {a b : State} (h : Sim a b) (idx : Nat) (v : Svc) :
    erP (ensureServiceCas a idx v) = erP (ensureServiceCas b idx v) := by
  simp only [ensureServiceCas, svcFind_sim h]
  split
  · exact erP_ok h _
  · rcases erS_cases (ensureService_sim h idx v) with ⟨x, y, hx, hy, hxy⟩ | ⟨e, hx, hy⟩
    · rw [hx, hy]; exact erP_ok hxy _
    · rw [hx, hy]

theorem deleteServiceCas_sim {a b : State} (h : Sim a b) (idx c : Nat) (node id : String) :
    erP (deleteServiceCas a idx c node id) = erP (deleteServiceCas b idx c node id) := by
  simp only [deleteServiceCas, svcFind_sim h]
  split
  · exact erP_ok h _
  · split
    · exact erP_ok h _
    · rcases erS_cases (deleteService_sim h idx node id) with ⟨x, y, hx, hy, hxy⟩ | ⟨e, hx, hy⟩
      · rw [hx, hy]; exact erP_ok hxy _
      · rw [hx, hy]

theorem ensureCheckCas_sim {a b : State} (h : Sim a b) (idx : Nat) (c : Chk) :
    erP (ensureCheckCas a idx c) = erP (ensureCheckCas b idx c) := by
  simp only [ensureCheckCas, chkFind_sim h]
  split
  · exact erP_ok h _
  · rcases erS_cases (ensureCheck_sim h idx false c) with ⟨x, y, hx, hy, hxy⟩ | ⟨e, hx, hy⟩
    · rw [hx, hy]; exact erP_ok hxy _
    · rw [hx, hy]

theorem deleteCheckCas_sim {a b : State} (h : Sim a b) (idx c : Nat) (node id : String) :
    erP (deleteCheckCas a idx c node id) = erP (deleteCheckCas b idx c node id) := by
  simp only [deleteCheckCas, chkFind_sim h]
  split
  · exact erP_ok h _
  · split
    · exact erP_ok h _
    · rcases erS_cases (deleteCheck_sim h idx node id) with ⟨x, y, hx, hy, hxy⟩ | ⟨e, hx, hy⟩
      · rw [hx, hy]; exact erP_ok hxy _
      · rw [hx, hy]

theorem ensureCheckIfNodeMatches_sim {a b : State} (h : Sim a b) (idx : Nat) (node : String) (c : Chk) :
    erS (ensureCheckIfNodeMatches a idx node c) = erS (ensureCheckIfNodeMatches b idx node c) := by
  simp only [ensureCheckIfNodeMatches]
  split
  · rfl
  · exact ensureCheck_sim h idx false c

/-- the node step of `ensureRegistrationTxn` -/
def regNodeStep (s : State) (idx : Nat) (r : RegReq) : Except Err State :=
  match nodeFind s r.node.name with
  | some x => if nodeSame r.node x then .ok s else ensureNode s idx r.node
  | none => ensureNode s idx r.node

/-- the service step of `ensureRegistrationTxn` -/
def regSvcStep (s1 : State) (idx : Nat) (r : RegReq) : Except Err State :=
  match r.svc with
  | none => .ok s1
  | some v =>
    match svcFind s1 r.node.name v.id with
    | some x => if x.id == v.id && x.name == v.name && x.port == v.port then .ok s1
                else ensureService s1 idx { v with node := r.node.name }
    | none => ensureService s1 idx { v with node := r.node.name }

theorem ensureRegistration_eq (s : State) (idx : Nat) (r : RegReq) :
    ensureRegistration s idx r =
      match regNodeStep s idx r with
      | .error e => .error e
      | .ok s1 =>
        match regSvcStep s1 idx r with
        | .error e => .error e
        | .ok s2 => foldE (fun st c => ensureCheckIfNodeMatches st idx r.node.name c) r.checks s2 := rfl

theorem regNodeStep_sim {a b : State} (h : Sim a b) (idx : Nat) (r : RegReq) :
    erS (regNodeStep a idx r) = erS (regNodeStep b idx r) := by
  simp only [regNodeStep, nodeFind_sim h]
  split
  · split
    · exact erS_ok h
    · exact ensureNode_sim h idx r.node
  · exact ensureNode_sim h idx r.node

theorem regSvcStep_sim {a b : State} (h : Sim a b) (idx : Nat) (r : RegReq) :
    erS (regSvcStep a idx r) = erS (regSvcStep b idx r) := by
  simp only [regSvcStep]
  split
  · exact erS_ok h
  · rw [svcFind_sim h]
    split
    · split
      · exact erS_ok h
      · exact ensureService_sim h idx _
    · exact ensureService_sim h idx _

theorem ensureRegistration_sim {a b : State} (h : Sim a b) (idx : Nat) (r : RegReq) :
    erS (ensureRegistration a idx r) = erS (ensureRegistration b idx r) := by
  rw [ensureRegistration_eq, ensureRegistration_eq]
  rcases erS_cases (regNodeStep_sim h idx r) with ⟨x, y, hx, hy, hxy⟩ | ⟨e, hx, hy⟩
  · rw [hx, hy]
    dsimp only
    rcases erS_cases (regSvcStep_sim hxy idx r) with ⟨x', y', hx', hy', hxy'⟩ | ⟨e, hx', hy'⟩
    · rw [hx', hy']
      exact foldE_sim (fun st (c : Chk) => ensureCheckIfNodeMatches st idx r.node.name c)
        (fun u w c huw => ensureCheckIfNodeMatches_sim huw idx r.node.name c) r.checks x' y' hxy'
    · rw [hx', hy']
  · rw [hx, hy]

/-! ### transactions -/

/-- bridge a call whose result is `Except Err (State × β)` and finish the (reduced) goal -/
macro "sim_callP" t:term : tactic => `(tactic|
  (rcases erP_cases $t with ⟨x, y, w, hx, hy, hxy⟩ | ⟨er, hx, hy⟩
   · rw [hx, hy]
     first
       | exact erP_ok hxy _
       | (rcases w with ⟨_ | _, _⟩ <;> first | rfl | exact erP_ok hxy _)
       | (cases w <;> first | rfl | exact erP_ok hxy _)
   · rw [hx, hy]))

macro "sim_callS" t:term : tactic => `(tactic|
  (rcases erS_cases $t with ⟨x, y, hx, hy, hxy⟩ | ⟨er, hx, hy⟩
   · rw [hx, hy]; exact erP_ok hxy _
   · rw [hx, hy]))

theorem txnKV_sim {a b : State} (h : Sim a b) (idx : Nat) (v : KvVerb) (e : KV) :
    erP (txnKV a idx v e) = erP (txnKV b idx v e) := by
  cases v <;> simp only [txnKV, okRes]
  · sim_callP (kvSetTxn_sim h idx e false)
  · sim_callS (kvDeleteTxn_sim h idx e.key)
  · sim_callP (kvDeleteCasTxn_sim h idx e.modify e.key)
  · exact erP_ok (kvDeleteTreeTxn_sim h idx e.key) _
  · sim_callP (kvSetCasTxn_sim h idx e)
  · sim_callP (kvLockTxn_sim h idx e)
  · sim_callP (kvUnlockTxn_sim h idx e)
  · rw [kvGet_sim h]; repeat' split
    all_goals first | rfl | exact erP_ok h _
  · rw [kvGet_sim h]; repeat' split
    all_goals first | rfl | exact erP_ok h _
  · rw [kvList_sim h]; exact erP_ok h _
  · rw [kvCheckSession_sim h]; repeat' split
    all_goals first | rfl | exact erP_ok h _
  · rw [kvCheckIndex_sim h]; repeat' split
    all_goals first | rfl | exact erP_ok h _
  · rw [kvGet_sim h]; repeat' split
    all_goals first | rfl | exact erP_ok h _

theorem txnGetNode_sim {a b : State} (h : Sim a b) (n : Node) : txnGetNode a n = txnGetNode b n := by sim_reader h
theorem nodeRes_sim {a b : State} (h : Sim a b) (n : Node) : nodeRes a n = nodeRes b n := by sim_reader h
theorem svcRes_sim {a b : State} (h : Sim a b) (x : Svc) : svcRes a x = svcRes b x := by sim_reader h
theorem chkRes_sim {a b : State} (h : Sim a b) (c : Chk) : chkRes a c = chkRes b c := by sim_reader h

theorem txnNode_sim {a b : State} (h : Sim a b) (idx : Nat) (v : CatVerb) (n : Node) :
    erP (txnNode a idx v n) = erP (txnNode b idx v n) := by
  cases v <;> simp only [txnNode, okRes]
  · rw [txnGetNode_sim h]; split
    · exact erP_ok h _
    · rfl
  · rcases erS_cases (ensureNode_sim h idx n) with ⟨x, y, hx, hy, hxy⟩ | ⟨er, hx, hy⟩
    · rw [hx, hy]; dsimp only; rw [nodeRes_sim hxy]; exact erP_ok hxy _
    · rw [hx, hy]
  · rcases erP_cases (ensureNodeCas_sim h idx n) with ⟨x, y, w, hx, hy, hxy⟩ | ⟨er, hx, hy⟩
    · rw [hx, hy]; cases w
      · rfl
      · dsimp only; rw [nodeRes_sim hxy]; exact erP_ok hxy _
    · rw [hx, hy]
  · sim_callS (deleteNode_sim h idx n.name)
  · sim_callP (deleteNodeCas_sim h idx n.modify n.name)

theorem txnService_sim {a b : State} (h : Sim a b) (idx : Nat) (v : CatVerb) (x : Svc) :
    erP (txnService a idx v x) = erP (txnService b idx v x) := by
  cases v <;> simp only [txnService, okRes]
  · rw [svcFind_sim h]; split
    · exact erP_ok h _
    · rfl
  · rcases erS_cases (ensureService_sim h idx x) with ⟨u, w, hx, hy, hxy⟩ | ⟨er, hx, hy⟩
    · rw [hx, hy]; dsimp only; rw [svcRes_sim hxy]; exact erP_ok hxy _
    · rw [hx, hy]
  · rcases erP_cases (ensureServiceCas_sim h idx x) with ⟨u, y, w, hx, hy, hxy⟩ | ⟨er, hx, hy⟩
    · rw [hx, hy]; cases w
      · rfl
      · dsimp only; rw [svcRes_sim hxy]; exact erP_ok hxy _
    · rw [hx, hy]
  · sim_callS (deleteService_sim h idx x.node x.id)
  · sim_callP (deleteServiceCas_sim h idx x.modify x.node x.id)

theorem txnCheck_sim {a b : State} (h : Sim a b) (idx : Nat) (v : CatVerb) (c : Chk) :
    erP (txnCheck a idx v c) = erP (txnCheck b idx v c) := by
  cases v <;> simp only [txnCheck, okRes]
  · rw [chkFind_sim h]; split
    · exact erP_ok h _
    · rfl
  · rcases erS_cases (ensureCheck_sim h idx false c) with ⟨u, w, hx, hy, hxy⟩ | ⟨er, hx, hy⟩
    · rw [hx, hy]; dsimp only; rw [chkRes_sim hxy]; exact erP_ok hxy _
    · rw [hx, hy]
  · rcases erP_cases (ensureCheckCas_sim h idx c) with ⟨u, y, w, hx, hy, hxy⟩ | ⟨er, hx, hy⟩
    · rw [hx, hy]; cases w
      · rfl
      · dsimp only; rw [chkRes_sim hxy]; exact erP_ok hxy _
    · rw [hx, hy]
  · sim_callS (deleteCheck_sim h idx c.node c.id)
  · sim_callP (deleteCheckCas_sim h idx c.modify c.node c.id)

theorem txnStep_sim {a b : State} (h : Sim a b) (idx : Nat) (op : TxnOp) :
    erP (txnStep a idx op) = erP (txnStep b idx op) := by
  cases op <;> simp only [txnStep, okRes]
  · exact txnKV_sim h idx _ _
  · exact txnNode_sim h idx _ _
  · exact txnService_sim h idx _ _
  · exact txnCheck_sim h idx _ _
  · sim_callS (deleteSession_sim h idx _)

/-- outputs of the transaction loop, up to `loc` -/
def erT (x : State × List TxnRes × List (Nat × Err)) : State × List TxnRes × List (Nat × Err) := (x.1.repl, x.2)

theorem txnLoop_sim (idx : Nat) (ops : List TxnOp) :
    ∀ (i : Nat) (a b : State) (rs : List TxnRes) (es : List (Nat × Err)), Sim a b →
      erT (txnLoop idx ops i a rs es) = erT (txnLoop idx ops i b rs es) := by
  induction ops with
  | nil => intro i a b rs es h; simp only [txnLoop, erT]; rw [show a.repl = b.repl from h]
  | cons op ops ih =>
    intro i a b rs es h
    simp only [txnLoop]
    rcases erP_cases (txnStep_sim h idx op) with ⟨x, y, w, hx, hy, hxy⟩ | ⟨er, hx, hy⟩
    · rw [hx, hy]; exact ih _ x y _ _ hxy
    · rw [hx, hy]; exact ih _ a b _ _ h

theorem txnRW_sim {a b : State} (h : Sim a b) (idx : Nat) (ops : List TxnOp) :
    erT (txnRW a idx ops) = erT (txnRW b idx ops) := by
  have hl := txnLoop_sim idx ops 0 a b [] [] h
  simp only [txnRW]
  revert hl
  generalize txnLoop idx ops 0 a [] [] = ta
  generalize txnLoop idx ops 0 b [] [] = tb
  intro hl
  obtain ⟨sa, ra, ea⟩ := ta
  obtain ⟨sb, rb, eb⟩ := tb
  simp only [erT, Prod.mk.injEq] at hl
  obtain ⟨h1, h2, h3⟩ := hl
  subst h2 h3
  dsimp only
  split
  · simp only [erT]; rw [h1]
  · simp only [erT]; rw [show a.repl = b.repl from h]

/-! ### one committed entry -/

theorem apply_sim {a b : State} (h : Sim a b) (idx : Nat) (c : Cmd) :
    Sim (apply a idx c).1 (apply b idx c).1 ∧ (apply a idx c).2 = (apply b idx c).2 := by
  have liftS_sim : ∀ (x y : Except Err State), erS x = erS y →
      Sim (liftS a x).1 (liftS b y).1 ∧ (liftS a x).2 = (liftS b y).2 := by
    intro x y hxy
    rcases erS_cases hxy with ⟨u, w, hx, hy, huw⟩ | ⟨er, hx, hy⟩
    · subst hx hy; exact ⟨huw, rfl⟩
    · subst hx hy; exact ⟨h, rfl⟩
  have liftB_sim : ∀ (x y : Except Err (State × Bool)), erP x = erP y →
      Sim (liftB a x).1 (liftB b y).1 ∧ (liftB a x).2 = (liftB b y).2 := by
    intro x y hxy
    rcases erP_cases hxy with ⟨u, w, v, hx, hy, huw⟩ | ⟨er, hx, hy⟩
    · subst hx hy
      cases v
      · exact ⟨h, rfl⟩
      · exact ⟨huw, rfl⟩
    · subst hx hy; exact ⟨h, rfl⟩
  have mapS : ∀ (x y : Except Err (State × KV)), erP x = erP y → erS (x.map (·.1)) = erS (y.map (·.1)) := by
    intro x y hxy
    rcases erP_cases hxy with ⟨u, w, v, hx, hy, huw⟩ | ⟨er, hx, hy⟩
    · subst hx hy; exact erS_ok huw
    · subst hx hy; rfl
  have mapB : ∀ (x y : Except Err (State × Bool × KV)), erP x = erP y →
      erP (x.map (fun r => (r.1, r.2.1))) = erP (y.map (fun r => (r.1, r.2.1))) := by
    intro x y hxy
    rcases erP_cases hxy with ⟨u, w, v, hx, hy, huw⟩ | ⟨er, hx, hy⟩
    · subst hx hy; exact erP_ok huw _
    · subst hx hy; rfl
  cases c <;> simp only [apply]
  · exact liftS_sim _ _ (mapS _ _ (kvSetTxn_sim h idx _ false))
  · exact liftB_sim _ _ (mapB _ _ (kvSetCasTxn_sim h idx _))
  · exact liftS_sim _ _ (kvDeleteTxn_sim h idx _)
  · exact liftB_sim _ _ (kvDeleteCasTxn_sim h idx _ _)
  · exact ⟨kvDeleteTreeTxn_sim h idx _, trivial⟩
  · exact liftB_sim _ _ (mapB _ _ (kvLockTxn_sim h idx _))
  · exact liftB_sim _ _ (mapB _ _ (kvUnlockTxn_sim h idx _))
  · exact liftS_sim _ _ (sessionCreate_sim h idx _)
  · exact liftS_sim _ _ (deleteSession_sim h idx _)
  · exact liftS_sim _ _ (ensureRegistration_sim h idx _)
  · split
    · exact liftS_sim _ _ (deleteService_sim h idx _ _)
    · split
      · exact liftS_sim _ _ (deleteCheck_sim h idx _ _)
      · exact liftS_sim _ _ (deleteNode_sim h idx _)
  · exact ⟨reapTxn_sim h _, trivial⟩
  · exact liftS_sim _ _ (pqSet_sim h idx _ _)
  · exact ⟨pqDelete_sim h idx _, trivial⟩
  · have ht := txnRW_sim h idx ‹List TxnOp›
    revert ht
    generalize txnRW a idx _ = ta
    generalize txnRW b idx _ = tb
    intro ht
    obtain ⟨sa, ra, ea⟩ := ta
    obtain ⟨sb, rb, eb⟩ := tb
    simp only [erT, Prod.mk.injEq] at ht
    obtain ⟨h1, h2, h3⟩ := ht
    subst h2 h3
    exact ⟨h1, rfl⟩

end CV.Store
