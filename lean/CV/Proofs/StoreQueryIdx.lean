/-
Helper lemmas for C06 (read paths): the index table as a finite map keyed by lower-cased row names.
  * `idxGet` after `idxSet` / `idxMax` / `idxDel`
  * row names: the literal rows and the two families `service.<name>` / `node.<name>` never collide
-/
import CV.Store.Query
import CV.Proofs.StoreBasic
namespace CV.Store
open CV

/-! ### row names -/

/-- the characters of a row name as memdb stores it -/
def ikey (k : String) : List Char := k.toList.map Char.toLower

theorem lc_toList (s : String) : (lc s).toList = ikey s := by
  unfold lc ikey; exact String.toList_map

theorem lc_eq_iff (a b : String) : lc a = lc b ↔ ikey a = ikey b := by
  constructor
  · intro h; rw [← lc_toList, ← lc_toList, h]
  · intro h; apply String.toList_injective; rw [lc_toList, lc_toList, h]

theorem ikey_append (a b : String) : ikey (a ++ b) = ikey a ++ ikey b := by
  simp [ikey, String.toList_append]

/-- two names with the same (lower-case) literal prefix are the same row iff their tails are -/
theorem lc_prefix_cancel (p a b : String) : lc (p ++ a) = lc (p ++ b) ↔ lc a = lc b := by
  simp only [lc_eq_iff, ikey_append]
  exact List.append_right_inj _

/-- a name `p ++ a` is not the row `q` when `q`'s first `|p|` characters are not `p` -/
theorem lc_prefix_ne (p a q : String) (h : (ikey q).take (ikey p).length ≠ ikey p) : lc (p ++ a) ≠ lc q := by
  intro e
  rw [lc_eq_iff, ikey_append] at e
  apply h
  rw [← e]; simp

/-- names `p ++ a` and `q ++ b` differ when `p` and `q` disagree on a common-length prefix -/
theorem lc_prefixes_ne (p a q b : String) (n : Nat) (hp : n ≤ (ikey p).length) (hq : n ≤ (ikey q).length)
    (h : (ikey p).take n ≠ (ikey q).take n) : lc (p ++ a) ≠ lc (q ++ b) := by
  intro e
  rw [lc_eq_iff, ikey_append, ikey_append] at e
  apply h
  have := congrArg (List.take n) e
  rwa [List.take_append_of_le_length hp, List.take_append_of_le_length hq] at this

/-! ### the index table as a map -/

theorem idxGet_idxSet (ix : List (String × Nat)) (k : String) (v : Nat) (k' : String) :
    idxGet (idxSet ix k v) k' = if lc k' = lc k then some v else idxGet ix k' := by
  unfold idxGet idxSet
  split
  · next h =>
    have := tfind_tupsert_self (key := fun (r : String × Nat) => r.1) (lt := strLt) (lc k, v) ix
    simp only at this
    rw [h, this]; rfl
  · next h =>
    rw [tfind_tupsert_ne (key := fun (r : String × Nat) => r.1) (lc k, v) ix (k := lc k') (by simpa using h)]

theorem idxVal_le_of_get {ix : List (String × Nat)} {k : String} {v : Nat} (h : idxGet ix k = some v) :
    idxVal ix k = v := by simp [idxVal, h]

theorem idxGet_idxMax (ix : List (String × Nat)) (k : String) (v : Nat) (k' : String) :
    idxGet (idxMax ix k v) k' = if lc k' = lc k then some (max (idxVal ix k) v) else idxGet ix k' := by
  have hk : ∀ k'', lc k'' = lc k → idxGet ix k'' = idxGet ix k := by
    intro k'' h; unfold idxGet; rw [h]
  unfold idxMax
  split
  · next cur hcur =>
    split
    · next hle =>
      split
      · next h => rw [hk _ h, hcur]; simp [idxVal, hcur]; omega
      · rfl
    · next hle =>
      rw [idxGet_idxSet]
      split
      · simp [idxVal, hcur]; omega
      · rfl
  · next hnone =>
    rw [idxGet_idxSet]
    split
    · simp [idxVal, hnone]
    · rfl

theorem idxGet_idxDel (ix : List (String × Nat)) (k : String) (k' : String) :
    idxGet (idxDel ix k) k' = if lc k' = lc k then none else idxGet ix k' := by
  unfold idxGet idxDel
  split
  · next h => rw [h, tfind_terase_self]; rfl
  · next h => rw [tfind_terase_ne _ _ _ h]

theorem idxVal_idxSet (ix : List (String × Nat)) (k : String) (v : Nat) (k' : String) :
    idxVal (idxSet ix k v) k' = if lc k' = lc k then v else idxVal ix k' := by
  unfold idxVal; rw [idxGet_idxSet]; by_cases h : lc k' = lc k <;> simp [h]

theorem idxVal_idxMax (ix : List (String × Nat)) (k : String) (v : Nat) (k' : String) :
    idxVal (idxMax ix k v) k' = if lc k' = lc k then max (idxVal ix k) v else idxVal ix k' := by
  have hg := idxGet_idxMax ix k v k'
  by_cases h : lc k' = lc k
  · rw [if_pos h] at hg; simp [idxVal, hg, h]
  · rw [if_neg h] at hg; simp [idxVal, hg, h]

theorem idxVal_congr (ix : List (String × Nat)) {k k' : String} (h : lc k = lc k') : idxVal ix k = idxVal ix k' := by
  unfold idxVal idxGet; rw [h]

/-! ### every value of the index table is at most `m` -/

def IdxLe (m : Nat) (ix : List (String × Nat)) : Prop := ∀ k v, idxGet ix k = some v → v ≤ m

theorem IdxLe.val {m : Nat} {ix : List (String × Nat)} (h : IdxLe m ix) (k : String) : idxVal ix k ≤ m := by
  unfold idxVal
  split
  · next v hv => exact h k v hv
  · omega

theorem IdxLe.mono {m n : Nat} {ix : List (String × Nat)} (h : IdxLe m ix) (hmn : m ≤ n) : IdxLe n ix :=
  fun k v hv => Nat.le_trans (h k v hv) hmn

theorem idxLe_nil (m : Nat) : IdxLe m [] := by
  intro k v h; simp [idxGet, tfind] at h

theorem idxLe_set {m : Nat} {ix : List (String × Nat)} (h : IdxLe m ix) (k : String) {v : Nat} (hv : v ≤ m) :
    IdxLe m (idxSet ix k v) := by
  intro k' w hw
  rw [idxGet_idxSet] at hw
  split at hw
  · simp at hw; omega
  · exact h k' w hw

theorem idxLe_max {m : Nat} {ix : List (String × Nat)} (h : IdxLe m ix) (k : String) {v : Nat} (hv : v ≤ m) :
    IdxLe m (idxMax ix k v) := by
  intro k' w hw
  rw [idxGet_idxMax] at hw
  split at hw
  · have := h.val k; simp at hw; omega
  · exact h k' w hw

theorem idxLe_del {m : Nat} {ix : List (String × Nat)} (h : IdxLe m ix) (k : String) : IdxLe m (idxDel ix k) := by
  intro k' w hw
  rw [idxGet_idxDel] at hw
  split at hw
  · simp at hw
  · exact h k' w hw

/-- `indexUpdateMaxTxn` with the index of the running command writes exactly that index -/
theorem idxVal_idxMax_self {m : Nat} {ix : List (String × Nat)} (h : IdxLe m ix) (k : String) :
    idxVal (idxMax ix k m) k = m := by
  rw [idxVal_idxMax]; simp; exact Nat.max_eq_right (h.val k)

end CV.Store
