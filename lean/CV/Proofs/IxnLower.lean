/-
Helper lemmas for C13: memdb lower-cases the config-entry primary key and the legacy index keys.
On lower-case names the lower-cased lookups are plain equality lookups (the `…X` forms below), which is
what the remaining proofs reason about.
-/
import CV.Proofs.IxnSort
namespace CV.Ixn

/-- the name is its own lower-case form -/
def Lower (n : Name) : Prop := lc n = n

theorem lower_star : Lower star := by unfold Lower; decide
theorem lower_nil : Lower ([] : Name) := rfl

theorem sameName_lower {a b : Name} (ha : Lower a) (hb : Lower b) : sameName a b = decide (a = b) := by
  unfold sameName Lower at *
  rw [ha, hb]

/-! exact-match forms -/

def getEntryX (es : List Entry) (n : Name) : Option Entry := es.find? (·.name = n)

def putEntryX (es : List Entry) (e : Entry) : List Entry :=
  if es.any (·.name = e.name) then es.map (fun x => if x.name = e.name then e else x) else es ++ [e]

def legacyRawX (rows : List Ixn) (side : Side) (n : Name) : List Ixn :=
  (legacyNames n).flatMap fun m => rows.filter fun r =>
    match side with
    | .source => m ≠ [] && r.src = m
    | .destination => m ≠ [] && r.dst = m

theorem getEntry_lower {es : List Entry} (hl : ∀ e ∈ es, Lower e.name) {n : Name} (hn : Lower n) :
    getEntry es n = getEntryX es n := by
  unfold getEntry getEntryX
  apply find?_congr_mem
  intro e he
  rw [sameName_lower (hl e he) hn]

theorem any_congr_mem {α : Type} {l : List α} {p q : α → Bool} (h : ∀ x ∈ l, p x = q x) : l.any p = l.any q := by
  induction l with
  | nil => rfl
  | cons a as ih =>
    simp [List.any_cons, h a List.mem_cons_self, ih (fun x hx => h x (List.mem_cons_of_mem _ hx))]

theorem putEntry_lower {es : List Entry} (hl : ∀ e ∈ es, Lower e.name) {e : Entry} (he : Lower e.name) :
    putEntry es e = putEntryX es e := by
  unfold putEntry putEntryX
  rw [any_congr_mem (q := (·.name = e.name)) (fun x hx => by rw [sameName_lower (hl x hx) he])]
  rw [List.map_congr_left (g := fun x => if x.name = e.name then e else x)
    (fun x hx => by rw [sameName_lower (hl x hx) he]; simp)]

theorem filter_sameName_lower {es : List Entry} (hl : ∀ e ∈ es, Lower e.name) {n : Name} (hn : Lower n) :
    es.filter (fun e => !sameName e.name n) = es.filter (·.name ≠ n) := by
  apply List.filter_congr
  intro x hx
  rw [sameName_lower (hl x hx) hn]; simp

theorem legacyNames_lower {n : Name} (hn : Lower n) : ∀ m ∈ legacyNames n, Lower m := by
  intro m hm
  unfold legacyNames at hm
  split at hm <;> simp at hm
  · subst hm; exact lower_star
  · rcases hm with rfl | rfl
    · exact lower_star
    · exact hn

theorem flatMap_congr_mem {α β : Type} {l : List α} {f g : α → List β} (h : ∀ x ∈ l, f x = g x) :
    l.flatMap f = l.flatMap g := by
  induction l with
  | nil => rfl
  | cons a as ih =>
    simp only [List.flatMap_cons]
    rw [h a List.mem_cons_self, ih (fun x hx => h x (List.mem_cons_of_mem _ hx))]

theorem legacyRaw_lower {rows : List Ixn} (hl : ∀ r ∈ rows, Lower r.src ∧ Lower r.dst) {n : Name} (hn : Lower n)
    (side : Side) : legacyRaw rows side n = legacyRawX rows side n := by
  unfold legacyRaw legacyRawX
  apply flatMap_congr_mem
  intro m hm
  have hlm := legacyNames_lower hn m hm
  apply List.filter_congr
  intro r hr
  cases side
  · simp only; rw [sameName_lower (hl r hr).1 hlm]
  · simp only; rw [sameName_lower (hl r hr).2 hlm]

end CV.Ixn
