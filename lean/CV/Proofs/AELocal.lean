/-
Side lemmas: what `absorb` may change in the tagged addresses; the agent's own local operations
keep `LocalWF`; ids in play.
-/
import CV.Proofs.AEFail
namespace CV.AE
open AMap

/-! ### tagged addresses: only `consul-` keys are taken from the catalog -/

def taGet : List (String × Nat) → String → Option Nat
  | [], _ => none
  | (k', v) :: m, k => if k' = k then some v else taGet m k

theorem taGet_taSet (m : List (String × Nat)) (k : String) (v : Nat) (k' : String) :
    taGet (taSet m k v) k' = if k = k' then some v else taGet m k' := by
  induction m with
  | nil => simp [taSet, taGet]
  | cons p m ih =>
    obtain ⟨a, b⟩ := p
    simp only [taSet]
    split
    · rename_i e; subst e; simp only [taGet]; split <;> rfl
    · split
      · simp only [taGet]
      · simp only [taGet, ih]; split <;> split <;> simp_all

theorem taGet_mergeTa (rem : List (String × Nat)) : ∀ (loc : List (String × Nat)) (k : String),
    reservedKey k = false → taGet (mergeTa loc rem) k = taGet loc k := by
  induction rem with
  | nil => intro loc k _; rfl
  | cons p rem ih =>
    intro loc k hk
    unfold mergeTa
    simp only [List.foldl_cons]
    have := ih (if reservedKey p.1 = true then taSet loc p.1 p.2 else loc) k hk
    unfold mergeTa at this
    rw [this]
    split
    · rename_i hr
      rw [taGet_taSet]
      split
      · rename_i e; subst e; rw [hr] at hk; cases hk
      · rfl
    · rfl

/-- the non-reserved tagged addresses of a registration are never changed by `updateSyncState` -/
theorem absorb_ta (d rs : SvcDef) (k : String) (hk : reservedKey k = false) :
    taGet (absorb d rs).ta k = taGet d.ta k := by
  have key : ∀ d1 : SvcDef, d1.ta = d.ta →
      taGet (if d1.ta = rs.ta then d1 else { d1 with ta := mergeTa d1.ta rs.ta }).ta k = taGet d.ta k := by
    intro d1 h1
    split
    · rw [h1]
    · show taGet (mergeTa d1.ta rs.ta) k = _
      rw [taGet_mergeTa rs.ta d1.ta k hk, h1]
  unfold absorb
  exact key (if d.eto = true then { d with tags := rs.tags } else d) (by split <;> rfl)

/-! ### the agent's local operations keep `LocalWF` -/

theorem liveSvc_set (l : Local) (id : Id) (e : Ent SvcDef) (i : Id) :
    liveSvc { l with svcs := l.svcs.set id e } i = if id = i then e.live? else liveSvc l i := by
  simp only [liveSvc, get?_set]; split <;> rfl

theorem liveChk_set (l : Local) (k : Id) (e : Ent ChkDef) (k' : Id) :
    liveChk { l with chks := l.chks.set k e } k' = if k = k' then e.live? else liveChk l k' := by
  simp only [liveChk, get?_set]; split <;> rfl

/-- registering (or re-registering) a service keeps the local state well-formed -/
theorem addSvc1_LocalWF (l l' : Local) (id : Id) (d : SvcDef) (tok : String) (loc : Bool)
    (h : addSvc1 l id d tok loc = (.ok, l')) (hw : LocalWF l) : LocalWF l' ∧ liveSvc l' id = some d := by
  have key : ∀ b, LocalWF { l with svcs := l.svcs.set id (.ent d tok loc b false) } ∧
      liveSvc { l with svcs := l.svcs.set id (.ent d tok loc b false) } id = some d := by
    intro b
    refine ⟨?_, by rw [liveSvc_set]; simp [Ent.live?]⟩
    intro k dk h1 h2
    have h1' : liveChk l k = some dk := h1
    rw [liveSvc_set]
    split
    · simp [Ent.live?]
    · exact hw k dk h1' h2
  unfold addSvc1 at h
  split at h
  · cases h; exact key false
  · cases h
  · cases h; exact key _

/-- `agent.AddCheck` / `addServiceInternal` only add a check for a service that is registered -/
theorem addChk1_LocalWF (l l' : Local) (k : Id) (d : ChkDef) (tok : String) (loc : Bool)
    (h : addChk1 l k d tok loc = (.ok, l')) (hs : d.sid ≠ "" → liveSvc l d.sid ≠ none) (hw : LocalWF l) :
    LocalWF l' ∧ (∀ i, liveSvc l' i = liveSvc l i) := by
  have key : ∀ b, LocalWF { l with chks := l.chks.set k (.ent d tok loc b false) } := by
    intro b k' dk h1 h2
    rw [liveChk_set] at h1
    show liveSvc l dk.sid ≠ none
    split at h1
    · simp only [Ent.live?, Option.some.injEq] at h1; subst h1; exact hs h2
    · exact hw k' dk h1 h2
  unfold addChk1 at h
  split at h
  · cases h
  · split at h
    · cases h; exact ⟨key false, fun _ => rfl⟩
    · cases h
    · cases h; exact ⟨key _, fun _ => rfl⟩

/-- removing a check keeps well-formedness -/
theorem rmChk_LocalWF (l l' : Local) (k : Id) (h : rmChk l k = (.ok, l')) (hw : LocalWF l) :
    LocalWF l' ∧ (∀ i, liveSvc l' i = liveSvc l i) ∧ liveChk l' k = none ∧ (∀ k', k' ≠ k → liveChk l' k' = liveChk l k') := by
  unfold rmChk at h
  split at h
  · cases h
    refine ⟨?_, fun _ => rfl, by rw [liveChk_set]; simp [Ent.live?], fun k' hk => by rw [liveChk_set]; simp [Ne.symm hk]⟩
    intro k' dk h1 h2
    rw [liveChk_set] at h1
    show liveSvc l dk.sid ≠ none
    split at h1
    · simp [Ent.live?] at h1
    · exact hw k' dk h1 h2
  · cases h

/-- rewriting the record of a registered check without touching its service binding keeps
    well-formedness -/
theorem LocalWF_rebind (l l' : Local) (k : Id) (d d' : ChkDef) (tok : String) (loc b b' : Bool)
    (he : l.chks.get? k = some (.ent d tok loc b false)) (hsid : d'.sid = d.sid)
    (h1 : l'.svcs = l.svcs) (h2 : l'.chks = l.chks.set k (.ent d' tok loc b' false)) (hw : LocalWF l) : LocalWF l' := by
  intro k' dk hk hs
  have hls : liveSvc l' dk.sid = liveSvc l dk.sid := by simp [liveSvc, h1]
  rw [hls]
  simp only [liveChk, h2, get?_set] at hk
  split at hk
  · simp only [Option.bind_some, Ent.live?, Option.some.injEq] at hk; subst hk
    rw [hsid] at hs ⊢
    exact hw k d (by simp [liveChk, he, Ent.live?]) hs
  · exact hw k' dk hk hs

theorem arm_frame (l : Local) (k : Id) : (l.arm k).svcs = l.svcs ∧ (l.arm k).chks = l.chks ∧ (l.arm k).nodeInSync = l.nodeInSync := by
  unfold Local.arm; split <;> exact ⟨rfl, rfl, rfl⟩

/-- a status / output update keeps well-formedness (the binding of the check does not change) -/
theorem updChk_LocalWF (cui : Bool) (l : Local) (k : Id) (st : Nat) (hw : LocalWF l) : LocalWF (updChk cui l k st) := by
  unfold updChk
  split
  · rename_i d tok loc b he
    split
    · exact hw
    · split
      · obtain ⟨a1, a2, _⟩ := arm_frame { l with chks := l.chks.set k (.ent { d with status := st } tok loc b false) } k
        exact LocalWF_rebind l _ k d { d with status := st } tok loc b b he rfl a1 a2 hw
      · exact LocalWF_rebind l _ k d { d with status := st } tok loc b false he rfl rfl rfl hw
  · exact hw

/-! ### defer timers -/

theorem armed_disarm (l : Local) (k k' : Id) : (l.disarm k).armed k' = (l.armed k' && k' != k) := by
  simp only [Local.armed, Local.disarm, List.contains_eq_mem, List.mem_filter]
  by_cases h1 : k' ∈ l.dfr <;> by_cases h2 : k' = k <;> simp [h1, h2]

theorem armed_arm (l : Local) (k k' : Id) : (l.arm k).armed k' = (l.armed k' || k' == k) := by
  unfold Local.arm
  split
  · rename_i h
    by_cases h2 : k' = k
    · subst h2; simp only [Local.armed, h, Bool.true_or]
    · simp [h2]
  · by_cases h2 : k' = k <;> simp [Local.armed, h2]

/-- firing a timer only clears that timer and (for a registered check) its in-sync mark -/
theorem fire_frame (l : Local) (k : Id) :
    (fire l k).svcs = l.svcs ∧ (∀ i, liveSvc (fire l k) i = liveSvc l i) ∧ (∀ k', liveChk (fire l k) k' = liveChk l k') ∧
    (∀ k', (fire l k).chks.get? k' ≠ none ↔ l.chks.get? k' ≠ none) ∧
    (∀ k' d tok loc b, (fire l k).chks.get? k' = some (.ent d tok loc b true) → l.chks.get? k' = some (.ent d tok loc b true)) := by
  unfold fire
  split
  · split
    · rename_i d tok loc b he
      refine ⟨rfl, fun _ => rfl, ?_, ?_, ?_⟩
      · intro k'; simp only [liveChk, get?_set]; split
        · rename_i e; subst e; simp [he, Ent.live?]
        · rfl
      · intro k'; simp only [get?_set]; split
        · rename_i e; subst e; simp [he]
        · exact Iff.rfl
      · intro k' d' tok' loc' b' h
        simp only [get?_set] at h; split at h
        · cases h
        · exact h
    · exact ⟨rfl, fun _ => rfl, fun _ => rfl, fun _ => Iff.rfl, fun _ _ _ _ _ h => h⟩
  · exact ⟨rfl, fun _ => rfl, fun _ => rfl, fun _ => Iff.rfl, fun _ _ _ _ _ h => h⟩

theorem fire_armed (l : Local) (k k' : Id) : (fire l k).armed k' = (l.armed k' && k' != k) := by
  unfold fire
  split
  · split
    · exact armed_disarm l k k'
    · exact armed_disarm l k k'
  · rename_i h
    by_cases h2 : k' = k
    · subst h2; simp at h; simp [h]
    · simp [h2]

/-! ### ids in play -/

/-- ASCII lower-casing, as the catalog applies to ids in its index keys -/
def lc (s : Id) : Id := String.ofList (s.toList.map Char.toLower)

def Mentions (l : Local) (c : Cat) (a : Id) : Prop :=
  l.svcs.get? a ≠ none ∨ l.chks.get? a ≠ none ∨ c.svcs.get? a ≠ none ∨ c.chks.get? a ≠ none

/-- no two ids in play differ only in case -/
def CaseDistinct (l : Local) (c : Cat) : Prop :=
  ∀ a b, Mentions l c a → Mentions l c b → lc a = lc b → a = b

theorem mentions_mem (l : Local) (c : Cat) (a : Id) (h : Mentions l c a) :
    a ∈ l.svcs.keys ++ l.chks.keys ++ c.svcs.keys ++ c.chks.keys := by
  simp only [List.mem_append]
  rcases h with h | h | h | h
  · exact Or.inl (Or.inl (Or.inl (mem_keys_of_get? _ _ h)))
  · exact Or.inl (Or.inl (Or.inr (mem_keys_of_get? _ _ h)))
  · exact Or.inl (Or.inr (mem_keys_of_get? _ _ h))
  · exact Or.inr (mem_keys_of_get? _ _ h)

end CV.AE

namespace CV.AE
open AMap

theorem rmChks_spec (ks : List Id) : ∀ (l l' : Local), rmChks l ks = (.ok, l') →
    (∀ i, liveSvc l' i = liveSvc l i) ∧ (∀ k ∈ ks, liveChk l' k = none) ∧
    (∀ k, liveChk l' k = liveChk l k ∨ liveChk l' k = none) := by
  induction ks with
  | nil => intro l l' h; simp [rmChks] at h; subst h; exact ⟨fun _ => rfl, fun _ h => by simp at h, fun _ => Or.inl rfl⟩
  | cons k ks ih =>
    intro l l' h
    simp only [rmChks] at h
    cases hr : rmChk l k with
    | mk r l1 =>
      rw [hr] at h
      cases r with
      | ok =>
        simp only at h
        obtain ⟨a1, a2, a3⟩ := ih l1 l' h
        -- facts about the single removal (they do not need LocalWF; reuse the lemma's frame parts)
        have frame : (∀ i, liveSvc l1 i = liveSvc l i) ∧ liveChk l1 k = none ∧ (∀ k', k' ≠ k → liveChk l1 k' = liveChk l k') := by
          unfold rmChk at hr
          split at hr
          · cases hr
            exact ⟨fun _ => rfl, by rw [liveChk_set]; simp [Ent.live?], fun k' hk => by rw [liveChk_set]; simp [Ne.symm hk]⟩
          · cases hr
        obtain ⟨f1, f2, f3⟩ := frame
        refine ⟨fun i => by rw [a1, f1], ?_, ?_⟩
        · intro k' hk'
          rw [List.mem_cons] at hk'
          rcases hk' with rfl | hk'
          · rcases a3 k' with e | e
            · rw [e, f2]
            · exact e
          · exact a2 k' hk'
        · intro k'
          rcases a3 k' with e | e
          · by_cases hk : k' = k
            · subst hk; right; rw [e, f2]
            · left; rw [e, f3 k' hk]
          · exact Or.inr e
      | err => simp at h
      | panic => simp at h

/-- `agent.removeServiceLocked`: the service goes together with all the checks bound to it -/
theorem rmSvc_LocalWF (l l' : Local) (id : Id) (ks : List Id) (h : rmSvc l id ks = (.ok, l'))
    (hall : ∀ k d, liveChk l k = some d → d.sid = id → k ∈ ks) (hw : LocalWF l) : LocalWF l' := by
  unfold rmSvc at h
  cases hr : rmSvc1 l id with
  | mk r l1 =>
    rw [hr] at h
    cases r with
    | ok =>
      simp only at h
      have frame : (∀ i, i ≠ id → liveSvc l1 i = liveSvc l i) ∧ (∀ k, liveChk l1 k = liveChk l k) := by
        unfold rmSvc1 at hr
        split at hr
        · cases hr
          exact ⟨fun i hi => by rw [liveSvc_set]; simp [Ne.symm hi], fun _ => rfl⟩
        · cases hr
      obtain ⟨f1, f2⟩ := frame
      obtain ⟨a1, a2, a3⟩ := rmChks_spec ks l1 l' h
      intro k d h1 h2
      rcases a3 k with e | e
      · rw [e, f2] at h1
        have hne : d.sid ≠ id := by
          intro e'
          have := a2 k (hall k d h1 e')
          rw [e, f2, h1] at this; cases this
        rw [a1, f1 _ hne]
        exact hw k d h1 h2
      · rw [e] at h1; cases h1
    | err => simp at h
    | panic => simp at h

end CV.AE

namespace CV.AE
open AMap

/-! ### syncing never arms a timer; pushing a check clears its timer -/

theorem armed_filter_sub (l : Local) (p : Id → Bool) (k : Id)
    (h : ({ l with dfr := l.dfr.filter p } : Local).armed k = true) : l.armed k = true := by
  simp only [Local.armed, List.contains_eq_mem, List.mem_filter, decide_eq_true_eq] at h ⊢
  exact h.1

theorem svcStep_armed (cfg : Cfg) (f : Faults) (s : St) (id k : Id)
    (h : (svcStep cfg f s id).l.armed k = true) : s.l.armed k = true := by
  have hdel : (deleteService f id s).l.armed k = true → s.l.armed k = true := by
    unfold deleteService
    split
    · exact fun h => h
    · cases f.svc id with
      | denied => exact fun h => h
      | fail => exact fun h => h
      | lost => exact fun h => h
      | ok =>
        intro h
        simp only [Local.armed, List.contains_eq_mem, List.mem_filter, decide_eq_true_eq] at h ⊢
        exact h.1
  unfold svcStep at h
  split at h
  · exact h
  · exact hdel h
  · exact hdel h
  · unfold syncService at h
    simp only at h
    cases ho : f.svc id <;> rw [ho] at h <;> simp only at h
    · split at h <;> exact h
    · exact h
    · exact h
    · split at h <;> exact h
  · exact h

theorem chkStep_armed (cfg : Cfg) (f : Faults) (s : St) (k k' : Id)
    (h : (chkStep cfg f s k).l.armed k' = true) : s.l.armed k' = true := by
  have hdis : (s.l.disarm k).armed k' = true → s.l.armed k' = true := by
    intro h; rw [armed_disarm] at h; simp at h; exact h.1
  have hdel : (deleteCheck f k s).l.armed k' = true → s.l.armed k' = true := by
    unfold deleteCheck
    split
    · exact fun h => h
    · cases f.chk k with
      | denied => exact fun h => h
      | fail => exact fun h => h
      | lost => exact fun h => h
      | ok => exact hdis
  unfold chkStep at h
  split at h
  · exact h
  · exact hdel h
  · exact hdel h
  · unfold syncCheck at h
    simp only at h
    cases ho : f.chk k <;> rw [ho] at h <;> simp only at h
    · split at h <;> exact hdis h
    · exact hdis h
    · exact hdis h
    · split at h <;> exact hdis h
  · exact h

/-- the push of an out-of-sync registered check stops AND clears its timer, whatever the RPC does -/
theorem chkStep_push_disarms (cfg : Cfg) (f : Faults) (s : St) (k : Id) (d : ChkDef) (tok : String) (loc : Bool)
    (he : s.l.chks.get? k = some (.ent d tok loc false false)) : (chkStep cfg f s k).l.armed k = false := by
  have hdis : (s.l.disarm k).armed k = false := by rw [armed_disarm]; simp
  unfold chkStep
  rw [he]
  simp only
  unfold syncCheck
  simp only
  cases f.chk k <;> simp only
  · split <;> exact hdis
  · exact hdis
  · exact hdis
  · split <;> exact hdis

theorem svcFold_armed (cfg : Cfg) (f : Faults) (k : Id) (ks : List Id) :
    ∀ s : St, (ks.foldl (svcStep cfg f) s).l.armed k = true → s.l.armed k = true := by
  induction ks with
  | nil => intro s h; exact h
  | cons i ks ih => intro s h; simp only [List.foldl_cons] at h; exact svcStep_armed cfg f s i k (ih _ h)

theorem chkFold_armed (cfg : Cfg) (f : Faults) (k : Id) (ks : List Id) :
    ∀ s : St, (ks.foldl (chkStep cfg f) s).l.armed k = true → s.l.armed k = true := by
  induction ks with
  | nil => intro s h; exact h
  | cons i ks ih => intro s h; simp only [List.foldl_cons] at h; exact chkStep_armed cfg f s i k (ih _ h)

theorem syncChanges_armed (cfg : Cfg) (ord : Order) (f : Faults) (l : Local) (c : Cat) (k : Id)
    (h : (syncChanges cfg ord f l c).l.armed k = true) : l.armed k = true := by
  have rest : ∀ s : St, (syncRest cfg ord f s).l.armed k = true → s.l.armed k = true := by
    intro s h; unfold syncRest chkLoop svcLoop at h
    exact svcFold_armed cfg f k _ s (chkFold_armed cfg f k _ _ h)
  have hnode : (syncNode cfg f ⟨l, c, true⟩).1.l.armed k = l.armed k := by
    unfold syncNode; cases f.node <;> rfl
  unfold syncChanges at h
  split at h
  · exact rest _ h
  · split at h
    · rw [← hnode]; exact rest _ h
    · rw [← hnode]; exact h

theorem syncFull_armed (cfg : Cfg) (ord : Order) (f : Faults) (l : Local) (c : Cat) (k : Id)
    (h : (syncFull cfg ord f l c).l.armed k = true) : l.armed k = true := by
  unfold syncFull at h
  split at h
  · have := syncChanges_armed cfg ord f _ c k h
    exact this
  · exact h

/-- all armed timers fire -/
def fireAll (l : Local) : Local := l.dfr.foldl fire l

theorem fireFold_spec (ks : List Id) : ∀ l : Local,
    (ks.foldl fire l).svcs = l.svcs ∧ (∀ i, liveSvc (ks.foldl fire l) i = liveSvc l i) ∧
    (∀ k, liveChk (ks.foldl fire l) k = liveChk l k) ∧
    (∀ k, (ks.foldl fire l).chks.get? k ≠ none ↔ l.chks.get? k ≠ none) ∧
    (∀ k d tok loc b, (ks.foldl fire l).chks.get? k = some (.ent d tok loc b true) → l.chks.get? k = some (.ent d tok loc b true)) ∧
    (∀ k, (ks.foldl fire l).armed k = (l.armed k && !ks.contains k)) := by
  induction ks with
  | nil => intro l; exact ⟨rfl, fun _ => rfl, fun _ => rfl, fun _ => Iff.rfl, fun _ _ _ _ _ h => h, fun k => by simp⟩
  | cons a ks ih =>
    intro l
    simp only [List.foldl_cons]
    obtain ⟨i1, i2, i3, i4, i5, i6⟩ := ih (fire l a)
    obtain ⟨f1, f2, f3, f4, f5⟩ := fire_frame l a
    refine ⟨by rw [i1, f1], fun i => by rw [i2, f2], fun k => by rw [i3, f3], fun k => (i4 k).trans (f4 k),
      fun k d tok loc b h => f5 k d tok loc b (i5 k d tok loc b h), ?_⟩
    intro k
    rw [i6, fire_armed]
    by_cases h1 : k = a
    · subst h1; simp
    · have h2 : (k != a) = true := by simp [h1]
      simp [h1, h2]

theorem fireAll_noArmed (l : Local) (k : Id) : (fireAll l).armed k = false := by
  unfold fireAll
  rw [(fireFold_spec l.dfr l).2.2.2.2.2 k]
  simp only [Local.armed]
  cases l.dfr.contains k <;> rfl

end CV.AE
