/-
Side lemmas: what `absorb` may change in the tagged addresses; the agent's own local operations
keep `LocalWF`; ids in play.
-/
import CV.Proofs.AEFail
namespace CV.AE
open AMap

/-! ### tagged addresses: only `consul-` keys are taken from the catalog -/

def taGet : List (String × Nat) → String → Option Nat
  | [], _ => none
  | (k', v) :: m, k => if k' = k then some v else taGet m k

theorem taGet_taSet (m : List (String × Nat)) (k : String) (v : Nat) (k' : String) :
    taGet (taSet m k v) k' = if k = k' then some v else taGet m k' := by
  induction m with
  | nil => simp [taSet, taGet]
  | cons p m ih =>
    obtain ⟨a, b⟩ := p
    simp only [taSet]
    split
    · rename_i e; subst e; simp only [taGet]; split <;> rfl
    · split
      · simp only [taGet]
      · simp only [taGet, ih]; split <;> split <;> simp_all

theorem taGet_mergeTa (rem : List (String × Nat)) : ∀ (loc : List (String × Nat)) (k : String),
    reservedKey k = false → taGet (mergeTa loc rem) k = taGet loc k := by
  induction rem with
  | nil => intro loc k _; rfl
  | cons p rem ih =>
    intro loc k hk
    unfold mergeTa
    simp only [List.foldl_cons]
    have := ih (if reservedKey p.1 = true then taSet loc p.1 p.2 else loc) k hk
    unfold mergeTa at this
    rw [this]
    split
    · rename_i hr
      rw [taGet_taSet]
      split
      · rename_i e; subst e; rw [hr] at hk; cases hk
      · rfl
    · rfl

/-- the non-reserved tagged addresses of a registration are never changed by `updateSyncState` -/
theorem absorb_ta (d rs : SvcDef) (k : String) (hk : reservedKey k = false) :
    taGet (absorb d rs).ta k = taGet d.ta k := by
  have key : ∀ d1 : SvcDef, d1.ta = d.ta →
      taGet (if d1.ta = rs.ta then d1 else { d1 with ta := mergeTa d1.ta rs.ta }).ta k = taGet d.ta k := by
    intro d1 h1
    split
    · rw [h1]
    · show taGet (mergeTa d1.ta rs.ta) k = _
      rw [taGet_mergeTa rs.ta d1.ta k hk, h1]
  unfold absorb
  exact key (if d.eto = true then { d with tags := rs.tags } else d) (by split <;> rfl)

/-! ### the agent's local operations keep `LocalWF` -/

theorem liveSvc_set (l : Local) (id : Id) (e : Ent SvcDef) (i : Id) :
    liveSvc { l with svcs := l.svcs.set id e } i = if id = i then e.live? else liveSvc l i := by
  simp only [liveSvc, get?_set]; split <;> rfl

theorem liveChk_set (l : Local) (k : Id) (e : Ent ChkDef) (k' : Id) :
    liveChk { l with chks := l.chks.set k e } k' = if k = k' then e.live? else liveChk l k' := by
  simp only [liveChk, get?_set]; split <;> rfl

/-- registering (or re-registering) a service keeps the local state well-formed -/
theorem addSvc1_LocalWF (l l' : Local) (id : Id) (d : SvcDef) (tok : String) (loc : Bool)
    (h : addSvc1 l id d tok loc = (.ok, l')) (hw : LocalWF l) : LocalWF l' ∧ liveSvc l' id = some d := by
  have key : ∀ b, LocalWF { l with svcs := l.svcs.set id (.ent d tok loc b false) } ∧
      liveSvc { l with svcs := l.svcs.set id (.ent d tok loc b false) } id = some d := by
    intro b
    refine ⟨?_, by rw [liveSvc_set]; simp [Ent.live?]⟩
    intro k dk h1 h2
    have h1' : liveChk l k = some dk := h1
    rw [liveSvc_set]
    split
    · simp [Ent.live?]
    · exact hw k dk h1' h2
  unfold addSvc1 at h
  split at h
  · cases h; exact key false
  · cases h
  · cases h; exact key _

/-- `agent.AddCheck` / `addServiceInternal` only add a check for a service that is registered -/
theorem addChk1_LocalWF (l l' : Local) (k : Id) (d : ChkDef) (tok : String) (loc : Bool)
    (h : addChk1 l k d tok loc = (.ok, l')) (hs : d.sid ≠ "" → liveSvc l d.sid ≠ none) (hw : LocalWF l) :
    LocalWF l' ∧ (∀ i, liveSvc l' i = liveSvc l i) := by
  have key : ∀ b, LocalWF { l with chks := l.chks.set k (.ent d tok loc b false) } := by
    intro b k' dk h1 h2
    rw [liveChk_set] at h1
    show liveSvc l dk.sid ≠ none
    split at h1
    · simp only [Ent.live?, Option.some.injEq] at h1; subst h1; exact hs h2
    · exact hw k' dk h1 h2
  unfold addChk1 at h
  split at h
  · cases h
  · split at h
    · cases h; exact ⟨key false, fun _ => rfl⟩
    · cases h
    · cases h; exact ⟨key _, fun _ => rfl⟩

/-- removing a check keeps well-formedness -/
theorem rmChk_LocalWF (l l' : Local) (k : Id) (h : rmChk l k = (.ok, l')) (hw : LocalWF l) :
    LocalWF l' ∧ (∀ i, liveSvc l' i = liveSvc l i) ∧ liveChk l' k = none ∧ (∀ k', k' ≠ k → liveChk l' k' = liveChk l k') := by
  unfold rmChk at h
  split at h
  · cases h
    refine ⟨?_, fun _ => rfl, by rw [liveChk_set]; simp [Ent.live?], fun k' hk => by rw [liveChk_set]; simp [Ne.symm hk]⟩
    intro k' dk h1 h2
    rw [liveChk_set] at h1
    show liveSvc l dk.sid ≠ none
    split at h1
    · simp [Ent.live?] at h1
    · exact hw k' dk h1 h2
  · cases h

/-- a status update keeps well-formedness (the binding of the check does not change) -/
theorem updChk_LocalWF (l : Local) (k : Id) (st : Nat) (hw : LocalWF l) : LocalWF (updChk l k st) := by
  unfold updChk
  split
  · rename_i d tok loc b he
    split
    · exact hw
    · intro k' dk h1 h2
      rw [liveChk_set] at h1
      show liveSvc l dk.sid ≠ none
      split at h1
      · simp only [Ent.live?, Option.some.injEq] at h1; subst h1
        exact hw k d (by simp [liveChk, he, Ent.live?]) h2
      · exact hw k' dk h1 h2
  · exact hw

/-! ### ids in play -/

/-- ASCII lower-casing, as the catalog applies to ids in its index keys -/
def lc (s : Id) : Id := String.ofList (s.toList.map Char.toLower)

def Mentions (l : Local) (c : Cat) (a : Id) : Prop :=
  l.svcs.get? a ≠ none ∨ l.chks.get? a ≠ none ∨ c.svcs.get? a ≠ none ∨ c.chks.get? a ≠ none

/-- no two ids in play differ only in case -/
def CaseDistinct (l : Local) (c : Cat) : Prop :=
  ∀ a b, Mentions l c a → Mentions l c b → lc a = lc b → a = b

theorem mentions_mem (l : Local) (c : Cat) (a : Id) (h : Mentions l c a) :
    a ∈ l.svcs.keys ++ l.chks.keys ++ c.svcs.keys ++ c.chks.keys := by
  simp only [List.mem_append]
  rcases h with h | h | h | h
  · exact Or.inl (Or.inl (Or.inl (mem_keys_of_get? _ _ h)))
  · exact Or.inl (Or.inl (Or.inr (mem_keys_of_get? _ _ h)))
  · exact Or.inl (Or.inr (mem_keys_of_get? _ _ h))
  · exact Or.inr (mem_keys_of_get? _ _ h)

end CV.AE

namespace CV.AE
open AMap

theorem rmChks_spec (ks : List Id) : ∀ (l l' : Local), rmChks l ks = (.ok, l') →
    (∀ i, liveSvc l' i = liveSvc l i) ∧ (∀ k ∈ ks, liveChk l' k = none) ∧
    (∀ k, liveChk l' k = liveChk l k ∨ liveChk l' k = none) := by
  induction ks with
  | nil => intro l l' h; simp [rmChks] at h; subst h; exact ⟨fun _ => rfl, fun _ h => by simp at h, fun _ => Or.inl rfl⟩
  | cons k ks ih =>
    intro l l' h
    simp only [rmChks] at h
    cases hr : rmChk l k with
    | mk r l1 =>
      rw [hr] at h
      cases r with
      | ok =>
        simp only at h
        obtain ⟨a1, a2, a3⟩ := ih l1 l' h
        -- facts about the single removal (they do not need LocalWF; reuse the lemma's frame parts)
        have frame : (∀ i, liveSvc l1 i = liveSvc l i) ∧ liveChk l1 k = none ∧ (∀ k', k' ≠ k → liveChk l1 k' = liveChk l k') := by
          unfold rmChk at hr
          split at hr
          · cases hr
            exact ⟨fun _ => rfl, by rw [liveChk_set]; simp [Ent.live?], fun k' hk => by rw [liveChk_set]; simp [Ne.symm hk]⟩
          · cases hr
        obtain ⟨f1, f2, f3⟩ := frame
        refine ⟨fun i => by rw [a1, f1], ?_, ?_⟩
        · intro k' hk'
          rw [List.mem_cons] at hk'
          rcases hk' with rfl | hk'
          · rcases a3 k' with e | e
            · rw [e, f2]
            · exact e
          · exact a2 k' hk'
        · intro k'
          rcases a3 k' with e | e
          · by_cases hk : k' = k
            · subst hk; right; rw [e, f2]
            · left; rw [e, f3 k' hk]
          · exact Or.inr e
      | err => simp at h
      | panic => simp at h

/-- `agent.removeServiceLocked`: the service goes together with all the checks bound to it -/
theorem rmSvc_LocalWF (l l' : Local) (id : Id) (ks : List Id) (h : rmSvc l id ks = (.ok, l'))
    (hall : ∀ k d, liveChk l k = some d → d.sid = id → k ∈ ks) (hw : LocalWF l) : LocalWF l' := by
  unfold rmSvc at h
  cases hr : rmSvc1 l id with
  | mk r l1 =>
    rw [hr] at h
    cases r with
    | ok =>
      simp only at h
      have frame : (∀ i, i ≠ id → liveSvc l1 i = liveSvc l i) ∧ (∀ k, liveChk l1 k = liveChk l k) := by
        unfold rmSvc1 at hr
        split at hr
        · cases hr
          exact ⟨fun i hi => by rw [liveSvc_set]; simp [Ne.symm hi], fun _ => rfl⟩
        · cases hr
      obtain ⟨f1, f2⟩ := frame
      obtain ⟨a1, a2, a3⟩ := rmChks_spec ks l1 l' h
      intro k d h1 h2
      rcases a3 k with e | e
      · rw [e, f2] at h1
        have hne : d.sid ≠ id := by
          intro e'
          have := a2 k (hall k d h1 e')
          rw [e, f2, h1] at this; cases this
        rw [a1, f1 _ hne]
        exact hw k d h1 h2
      · rw [e] at h1; cases h1
    | err => simp at h
    | panic => simp at h

end CV.AE
