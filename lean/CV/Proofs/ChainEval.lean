/-
Helper lemmas for C15: unfolding equations with *variable* arguments, so that concrete witnesses can be
checked by the kernel from decidable side conditions on the structural helper functions only (the
kernel cannot evaluate the well-founded recursions themselves).
-/
import CV.Proofs.ChainTotal
set_option linter.unusedVariables false
set_option linter.unusedSimpArgs false
namespace CV.Chain

/-- the loop stops at `t` when nothing is memoised, the protocol is fine and no redirect / default subset applies -/
theorem resolveLoop_stop (es : Entries) (cx : Ctx) (st0 : St) (t0 : Target) (st : St) (hist : List Target) (t : Target)
    (hst : LoadedIn (mkVals es cx st0 t0) st) (ht : InU (mkVals es cx st0 t0) t) (p : String) (st2 : St)
    (hm : alook t.id st.rmemo = none)
    (hp : (if t.peer = "" then recordServiceProtocol es st.proto t.svc else .ok st.proto) = .ok p)
    (hh : (hist.any fun x => x.id == t.id) = false)
    (h1 : redirectStep cx { st with proto := p } t (getResolver es t.svc) = (st2, none))
    (h2 : subsetStep cx st2 t (getResolver es t.svc) = none) :
    resolveLoop es cx st0 t0 st hist t hst ht = .ok (st2, .fresh t (getResolver es t.svc)) := by
  rw [resolveLoop]
  simp only [hm, hp]
  rw [dif_neg (by rw [hh]; exact Bool.false_ne_true)]
  split
  · rename_i a b h; rw [h1] at h; cases h
  · rename_i a h
    rw [h1] at h
    simp only [Prod.mk.injEq, and_true] at h
    subst h
    split
    · rename_i a b h'; rw [h2] at h'; cases h'
    · rfl

theorem resolveCore_fresh_eq (es : Entries) (cx : Ctx) (st st1 st2 : St) (t t' : Target) (r : Resolver) (node : Node)
    (hl : resolveLoop es cx st t st [] t (vals_loaded es cx st t) (vals_t es cx st t) = .ok (st1, .fresh t' r))
    (hf : finishResolve es cx st1 t' r = .ok (st2, node)) :
    resolveCore es cx st t = .ok (st2, ⟨t'.id, r.lb⟩, some (t', r, node)) := by
  rw [resolveCore, hl]
  simp only [hf]

theorem resolverNode_nofailover (es : Entries) (cx : Ctx) (st st1 : St) (t t' : Target) (rn : RNode) (r : Resolver) (node : Node)
    (hc : resolveCore es cx st t = .ok (st1, rn, some (t', r, node))) (ho : failoverOpts r t' = []) :
    resolverNode es cx st t =
      .ok ({ st1 with rmemo := (t'.id, r.lb) :: st1.rmemo, nodes := st1.nodes ++ [(rkey t'.id, node.withFailover [])] }, rn) := by
  rw [resolverNode, hc]
  simp only [ho, failoverTargets, failoverResolve]

theorem splitterNode_absent (es : Entries) (cx : Ctx) (st : St) (name : String) (h : alook name es.splitters = none) :
    splitterNode es cx [] st name = .ok ([], st, none) := by
  rw [splitterNode_eq]; simp [h]

theorem splitterOrResolver_resolver (es : Entries) (cx : Ctx) (marks : List String) (st st1 st2 : St) (t : Target)
    (dm : List String) (rn : RNode)
    (hs : splitterNode es cx marks st t.svc = .ok (dm, st1, none)) (hr : resolverNode es cx st1 t = .ok (st2, rn)) :
    splitterOrResolver es cx marks st t = .ok (dm, st2, rkey rn.id) := by
  rw [splitterOrResolver, hs]
  simp only [hr]

theorem assemble_norouter (es : Entries) (cx : Ctx) (dm : List String) (st : St) (key : String)
    (hrt : alook cx.svc es.routers = none)
    (h : splitterOrResolver es cx [] (newTarget cx {} { svc := cx.svc }).1 (newTarget cx {} { svc := cx.svc }).2 = .ok (dm, st, key)) :
    assemble es cx = .ok (st, key) := by
  rw [assemble]
  simp only [hrt, h]

/-- the detector on a start node that is a resolver -/
theorem dfs_resolver_start (nodes : List (String × Node)) (start : String) (d : Bool) (ct rt : Nat) (tgt : String)
    (fo : List String) (lb : Option String) (h : alook start nodes = some (.resolver d ct rt tgt fo lb)) :
    dfsNode nodes [] start = .ok () := by
  rw [dfsNode]
  simp only [List.not_mem_nil, dite_false]
  split
  · rename_i h'; rw [h] at h'; cases h'
  · rename_i n h'
    rw [h] at h'; cases h'
    simp only [Node.next, List.reverse_nil]
    rw [dfsList]

end CV.Chain
