/-
Helper lemmas for C11: the simulation predicate `Sim` — "feeding these steps to this
materializer keeps it exact after every update and ends in the given query result".
-/
import CV.Proofs.StreamView
namespace CV.Stream

/-- the view is the direct-query result that belongs to the last update -/
def Exact (m : Mat) : Prop := m.index ≠ 0 → ViewEq m.view m.expect

/-- handler / index bookkeeping that every reachable materializer satisfies -/
structure HOk (m : Mat) : Prop where
  notBad : m.h ≠ .bad
  empty  : m.index = 0 → m.view = []
  live   : (m.h = .stream ∨ m.h = .resume) → m.index ≠ 0
  snap   : ∀ acc, m.h = .snap acc → m.index = 0

def Sim (m : Mat) : List Step → View → Prop
  | [], fin => HOk m ∧ (m.index ≠ 0 → ViewEq m.view fin)
  | st :: r, fin => HOk m ∧ Exact (handle m st) ∧ Sim (handle m st) r fin

theorem Sim.hok {m : Mat} {l : List Step} {fin : View} (h : Sim m l fin) : HOk m := by
  cases l <;> exact h.1

theorem Sim.congr_fin {m : Mat} {l : List Step} {fin fin' : View} (e : ViewEq fin fin')
    (h : Sim m l fin) : Sim m l fin' := by
  induction l generalizing m with
  | nil => exact ⟨h.1, fun hi => (h.2 hi).trans e⟩
  | cons st r ih => exact ⟨h.1, h.2.1, ih h.2.2⟩

/-- a commit appends one item behind everything that is still pending -/
theorem Sim.append_item {m : Mat} {l : List Step} {fin : View} (it : Item)
    (h : Sim m l fin) (hidx : it.idx ≠ 0)
    (hf : ∀ v, ViewEq v fin → ViewEq (applyEvs v it.evs) it.post) :
    Sim m (l ++ [.item it]) it.post := by
  induction l generalizing m with
  | nil =>
    obtain ⟨hk, hv⟩ := h
    refine ⟨hk, ?_, ?_⟩
    · -- Exact after the step
      unfold handle
      cases hh : m.h with
      | snap acc => intro hi; exact absurd (hk.snap acc hh) hi
      | bad => exact absurd hh hk.notBad
      | stream =>
        intro _; simp only [updateView]
        exact hf _ (hv (hk.live (Or.inl hh)))
      | resume =>
        intro _; simp only [updateView]
        exact hf _ (hv (hk.live (Or.inr hh)))
    · unfold handle
      cases hh : m.h with
      | snap acc =>
        have h0 := hk.snap acc hh
        refine ⟨⟨by simp, fun _ => hk.empty h0, ?_, ?_⟩, ?_⟩
        · intro hx; simp at hx
        · intro _ _; exact h0
        · intro hi; exact absurd h0 hi
      | bad => exact absurd hh hk.notBad
      | stream =>
        refine ⟨⟨by simp, ?_, fun _ => hidx, ?_⟩, fun _ => ?_⟩
        · intro hx; exact absurd hx hidx
        · intro acc hx; simp at hx
        · simp only [updateView]; exact hf _ (hv (hk.live (Or.inl hh)))
      | resume =>
        refine ⟨⟨by simp, ?_, fun _ => hidx, ?_⟩, fun _ => ?_⟩
        · intro hx; exact absurd hx hidx
        · intro acc hx; simp at hx
        · simp only [updateView]; exact hf _ (hv (hk.live (Or.inr hh)))
  | cons st r ih => exact ⟨h.1, h.2.1, ih h.2.2⟩

/-- snapshot items followed by the end-of-snapshot marker bring a resetting materializer to
    the query result the snapshot was built from -/
theorem Sim.snapshot (acc : List Ev) (items : List Item) (si : Nat) (q e0 : View) (hsi : si ≠ 0)
    (hq : ViewEq (applyEvs [] (acc ++ items.flatMap (·.evs))) q) :
    Sim ⟨.snap acc, [], 0, e0⟩ (items.map .item ++ [.eos si q]) q := by
  induction items generalizing acc with
  | nil =>
    simp only [List.map_nil, List.nil_append]
    have hk0 : HOk ⟨.snap acc, [], 0, e0⟩ :=
      ⟨by simp, fun _ => rfl, by intro h; simp at h, fun _ _ => rfl⟩
    refine ⟨hk0, ?_, ?_, ?_⟩
    · intro _; simpa [handle, updateView] using hq
    · exact ⟨by simp [handle, updateView], by intro h; simp [handle, updateView] at h; exact absurd h hsi,
        by intro _; simpa [handle, updateView] using hsi, by intro a h; simp [handle, updateView] at h⟩
    · intro _; simpa [handle, updateView] using hq
  | cons it r ih =>
    have hk0 : HOk ⟨.snap acc, [], 0, e0⟩ :=
      ⟨by simp, fun _ => rfl, by intro h; simp at h, fun _ _ => rfl⟩
    refine ⟨hk0, ?_, ?_⟩
    · intro h; simp [handle] at h
    · simp only [handle]
      apply ih
      simpa [List.append_assoc] using hq

/-- `Sim` only looks at `expect` after it has been overwritten -/
theorem Sim.nstf {m : Mat} {l : List Step} {fin : View} (hk : HOk m) (hr : m.h = .resume)
    (h : Sim ⟨.snap [], [], 0, m.expect⟩ l fin) : Sim m (.nstf :: l) fin := by
  refine ⟨hk, ?_, ?_⟩
  · intro hi; simp [handle, hr, Mat.reset] at hi
  · simpa [handle, hr, Mat.reset] using h

theorem HOk.reset (m : Mat) : HOk m.reset :=
  ⟨by simp [Mat.reset], fun _ => rfl, by intro h; simp [Mat.reset] at h, fun _ _ => rfl⟩

/-! ### the unfiltered subscriber -/

theorem entryOk_all (t : Topic) (id : Id) (v : Val) : Authz.all.entryOk t id v = true := by
  cases t <;> rfl

theorem fview_all (t : Topic) (v : View) : fview .all t v = v := by
  unfold fview
  simp [entryOk_all]

theorem visible_all (t : Topic) (st : Step) : visible .all t st = some st := by
  cases st with
  | nstf => rfl
  | eos i post => rfl
  | item it =>
    have : it.evs.filter Authz.all.allowed = it.evs := by
      apply List.filter_eq_self.mpr
      intro e _
      exact entryOk_all _ _ _
    simp [visible, this]

end CV.Stream
