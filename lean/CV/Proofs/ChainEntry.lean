/-
Helper lemmas for C15: the splitter part of the assembled graph in terms of the entries, and the
entry-level "reference cycle ⇒ circular-reference error".
-/
import CV.Proofs.ChainTotal
set_option linter.unusedVariables false
set_option linter.unusedSimpArgs false
namespace CV.Chain

/-! ### entry-level splitter references -/

/-- splitter `a` has a leg that is followed into splitter `b` ("eligible for additional splitting") -/
def SEdge (es : Entries) (a b : String) : Prop :=
  ∃ splits s, alook a es.splitters = some splits ∧ s ∈ splits ∧ dflt s.svc a = b ∧ b ≠ a ∧ s.subset = "" ∧
    (alook b es.splitters).isSome = true

inductive SReach (es : Entries) : String → String → Prop
  | refl (a : String) : SReach es a a
  | step {a b c : String} : SReach es a b → SEdge es b c → SReach es a c

/-! ### which nodes the resolver side adds -/

theorem resolveCore_nodes (es : Entries) (cx : Ctx) (st st' : St) (t : Target) (rn : RNode)
    (x : Option (Target × Resolver × Node)) (h : resolveCore es cx st t = .ok (st', rn, x)) : st'.nodes = st.nodes := by
  unfold resolveCore at h
  split at h
  · cases h
  · rename_i st1 id lb hl
    cases h
    exact (resolveLoop_same es cx st t st [] t _ _ st' _ hl).1.nodes
  · rename_i st1 t' r hl
    have s := (resolveLoop_same es cx st t st [] t _ _ st1 _ hl).1
    split at h
    · cases h
    · rename_i st2 node hf
      cases h
      exact (finishResolve_spec es cx st1 st' t' r node hf).1.trans s.nodes

theorem failoverResolve_nodes (es : Entries) (cx : Ctx) (st st' : St) (fts : List Target) (ids : List String)
    (h : failoverResolve es cx st fts = .ok (st', ids)) : st'.nodes = st.nodes := by
  induction fts generalizing st ids with
  | nil => simp only [failoverResolve, Except.ok.injEq, Prod.mk.injEq] at h; rw [← h.1]
  | cons ft rest ih =>
    rw [failoverResolve] at h
    split at h
    · cases h
    · rename_i st1 rn x hc
      split at h
      · cases h
      · rename_i st2 ids' hr
        cases h
        exact (ih _ _ hr).trans (resolveCore_nodes es cx _ _ _ _ _ hc)

/-- `resolverNode` adds at most one node, stored under a resolver key -/
theorem resolverNode_nodes (es : Entries) (cx : Ctx) (st st' : St) (t : Target) (rn : RNode)
    (h : resolverNode es cx st t = .ok (st', rn)) :
    ∀ p ∈ st'.nodes, p ∈ st.nodes ∨ ∃ id, p.1 = rkey id := by
  unfold resolverNode at h
  split at h
  · cases h
  · rename_i st1 rn1 hc
    cases h
    intro p hp; rw [resolveCore_nodes es cx _ _ _ _ _ hc] at hp; exact Or.inl hp
  · rename_i st1 rn1 t' r node hc
    simp only at h
    split at h
    · cases h
    · rename_i st4 ids hf
      cases h
      intro p hp
      simp only [List.mem_append, List.mem_singleton] at hp
      rcases hp with hp | hp
      · rw [failoverResolve_nodes es cx _ _ _ _ hf, (failoverTargets_same cx _ t' _).nodes] at hp
        simp only at hp
        rw [resolveCore_nodes es cx _ _ _ _ _ hc] at hp
        exact Or.inl hp
      · exact Or.inr ⟨t'.id, by rw [hp]⟩

/-! ### built splitter nodes mirror their entries -/

/-- every node stored under a splitter key is a splitter node whose legs cover the entry's eligible legs -/
def EInv (es : Entries) (st : St) : Prop :=
  ∀ n node, (skey n, node) ∈ st.nodes → ∃ cs lb splits, node = .splitter cs lb ∧ alook n es.splitters = some splits ∧
    ∀ s ∈ splits, dflt s.svc n ≠ n → s.subset = "" → (alook (dflt s.svc n) es.splitters).isSome = true →
      skey (dflt s.svc n) ∈ cs.map (·.next)

theorem EInv.of_nodes {es : Entries} {st st' : St} (h : EInv es st)
    (hn : ∀ p ∈ st'.nodes, p ∈ st.nodes ∨ ∃ id, p.1 = rkey id) : EInv es st' := by
  intro n node hm
  rcases hn _ hm with h1 | ⟨id, h1⟩
  · exact h n node h1
  · exact absurd h1.symm (rkey_ne_skey id n)

theorem EInv.of_eq {es : Entries} {st st' : St} (h : EInv es st) (hn : st'.nodes = st.nodes) : EInv es st' := by
  intro n node hm; rw [hn] at hm; exact h n node hm

theorem splitter_entry (es : Entries) (cx : Ctx) (hadv : disableAdv cx = false) :
    (∀ (marks : List String) (st : St) (name : String), ∀ dm st' key, EInv es st →
        splitterNode es cx marks st name = .ok (dm, st', key) →
        EInv es st' ∧ ((alook name es.splitters).isSome = true → key = some (skey name))) ∧
    (∀ (marks : List String) (st : St) (name : String) (splits : List Split) (lb : Option String),
        ∀ dm st' cs lb', EInv es st → splitLoop es cx marks st name splits lb = .ok (dm, st', cs, lb') →
        EInv es st' ∧ ∀ s ∈ splits, dflt s.svc name ≠ name → s.subset = "" →
          (alook (dflt s.svc name) es.splitters).isSome = true → skey (dflt s.svc name) ∈ cs.map (·.next)) := by
  apply splitterNode.mutual_induct es cx
    (motive1 := fun marks st name => ∀ dm st' key, EInv es st →
        splitterNode es cx marks st name = .ok (dm, st', key) →
        EInv es st' ∧ ((alook name es.splitters).isSome = true → key = some (skey name)))
    (motive2 := fun marks st name splits lb => ∀ dm st' cs lb', EInv es st →
        splitLoop es cx marks st name splits lb = .ok (dm, st', cs, lb') →
        EInv es st' ∧ ∀ s ∈ splits, dflt s.svc name ≠ name → s.subset = "" →
          (alook (dflt s.svc name) es.splitters).isSome = true → skey (dflt s.svc name) ∈ cs.map (·.next))
  · intro marks st name hm dm st' key hi h
    rw [splitterNode_eq] at h
    simp only [hm, if_true, Except.ok.injEq, Prod.mk.injEq] at h
    obtain ⟨_, rfl, rfl⟩ := h
    exact ⟨hi, fun _ => rfl⟩
  · intro marks st name hm hs dm st' key hi h
    rw [splitterNode_eq] at h
    simp only [hm, if_false, hs, Except.ok.injEq, Prod.mk.injEq] at h
    obtain ⟨_, rfl, rfl⟩ := h
    exact ⟨hi, fun h' => by rw [hs] at h'; cases h'⟩
  · intro marks st name hm splits hs hd
    rw [hadv] at hd; cases hd
  · intro marks st name hm splits hs hd e he ih dm st' key hi h
    rw [splitterNode_eq] at h
    simp only [hm, if_false, hs, hd, he] at h
    cases h
  · intro marks st name hm splits hs hd dm1 st1 cs lb he ih dm st' key hi h
    rw [splitterNode_eq] at h
    simp only [hm, if_false, hs, hd, he, Except.ok.injEq, Prod.mk.injEq] at h
    obtain ⟨_, rfl, rfl⟩ := h
    obtain ⟨i1, hedges⟩ := ih dm1 st1 cs lb hi he
    refine ⟨?_, fun _ => rfl⟩
    intro n node hmem
    simp only [List.mem_append, List.mem_singleton] at hmem
    rcases hmem with hmem | hmem
    · exact i1 n node hmem
    · simp only [Prod.mk.injEq] at hmem
      obtain ⟨e1, rfl⟩ := hmem
      have := skey_inj e1
      subst this
      exact ⟨cs, lb, splits, rfl, hs, hedges⟩
  · intro marks st name lb dm st' cs lb' hi h
    rw [splitLoop] at h
    simp only [Except.ok.injEq, Prod.mk.injEq] at h
    obtain ⟨_, rfl, rfl, _⟩ := h
    exact ⟨hi, fun s hs => nomatch hs⟩
  all_goals
    intro marks st name lb s rest svc
  · intro e hc ih1 dm st' cs lb' hi h
    rw [splitLoop.eq_def] at h
    simp only [dite_eq_ite, svc] at hc
    simp only [hc] at h
    cases h
  · intro dm1 st1 key hc e hr ih1 ih2 dm st' cs lb' hi h
    rw [splitLoop.eq_def] at h
    simp only [dite_eq_ite, svc] at hc
    simp only [hc, hr] at h
    cases h
  · intro dm1 st1 key hc dm2 st2 cs2 lb2 hr ih1 ih2 dm st' cs lb' hi h
    rw [splitLoop.eq_def] at h
    simp only [dite_eq_ite, svc] at hc
    simp only [hc, hr, Except.ok.injEq, Prod.mk.injEq] at h
    obtain ⟨_, rfl, rfl, _⟩ := h
    have c1 : EInv es st1 ∧ ((alook (dflt s.svc name) es.splitters).isSome = true → some key = some (skey (dflt s.svc name))) := by
      split at hc
      · exact ih1 dm1 st1 (some key) hi hc
      · cases hc
    obtain ⟨i2, hedges⟩ := ih2 dm2 _ cs2 lb2 c1.1 hr
    refine ⟨i2, ?_⟩
    intro x hx hne hsub hsome
    rcases List.mem_cons.mp hx with rfl | hx
    · have := Option.some.inj (c1.2 hsome)
      simp only [List.map_cons, List.mem_cons]
      exact Or.inl this.symm
    · simp only [List.map_cons, List.mem_cons]
      exact Or.inr (hedges x hx hne hsub hsome)
  · intro dm1 st1 hc nt e hr ih1 dm st' cs lb' hi h
    rw [splitLoop.eq_def] at h
    simp only [dite_eq_ite, svc] at hc
    simp only [nt, svc] at hr
    simp only [hc, hr] at h
    cases h
  · intro dm1 st1 hc nt st2 rn hr lb1 e hr2 ih1 ih2 dm st' cs lb' hi h
    rw [splitLoop.eq_def] at h
    simp only [dite_eq_ite, svc] at hc
    simp only [nt, svc] at hr
    simp only [lb1, dite_eq_ite] at hr2
    simp only [hc, hr, hr2] at h
    cases h
  · intro dm1 st1 hc nt st2 rn hr lb1 dm2 st3 cs2 lb2 hr2 ih1 ih2 dm st' cs lb' hi h
    rw [splitLoop.eq_def] at h
    simp only [dite_eq_ite, svc] at hc
    simp only [nt, svc] at hr
    simp only [lb1, dite_eq_ite] at hr2
    simp only [hc, hr, hr2, Except.ok.injEq, Prod.mk.injEq] at h
    obtain ⟨_, rfl, rfl, _⟩ := h
    -- the head leg was not followed into a splitter: either it was not eligible or there is none
    have c1 : EInv es st1 ∧ (dflt s.svc name ≠ name → s.subset = "" → (alook (dflt s.svc name) es.splitters).isSome = true → False) := by
      split at hc
      · obtain ⟨i1, hk⟩ := ih1 dm1 st1 none hi hc
        exact ⟨i1, fun _ _ hsome => by cases hk hsome⟩
      · rename_i hnot
        simp only [Except.ok.injEq, Prod.mk.injEq] at hc
        obtain ⟨_, rfl, _⟩ := hc
        exact ⟨hi, fun h1 h2 _ => hnot ⟨h1, h2⟩⟩
    have sN := newTarget_same cx st1 { svc := dflt s.svc name, subset := s.subset, ns := "default", part := "default" }
    have iR : EInv es st2 := (c1.1.of_eq sN.nodes).of_nodes (resolverNode_nodes es cx _ _ _ rn hr)
    obtain ⟨i2, hedges⟩ := ih2 dm2 _ cs2 lb2 iR hr2
    refine ⟨i2, ?_⟩
    intro x hx hne hsub hsome
    rcases List.mem_cons.mp hx with rfl | hx
    · exact absurd hsome (fun h' => c1.2 hne hsub h')
    · simp only [List.map_cons, List.mem_cons]
      exact Or.inr (hedges x hx hne hsub hsome)

/-! ### from an entry-level cycle to a cycle of the assembled graph -/

theorem mem_of_key {α : Type} {k : String} {l : List (String × α)} (h : k ∈ akeys l) : ∃ v, (k, v) ∈ l := by
  simp only [akeys, List.mem_map] at h
  obtain ⟨⟨a, v⟩, hm, rfl⟩ := h
  exact ⟨v, hm⟩

theorem alook_of_mem_nodup {α : Type} {k : String} {v : α} {l : List (String × α)} (hn : (akeys l).Nodup)
    (hm : (k, v) ∈ l) : alook k l = some v := by
  induction l with
  | nil => cases hm
  | cons x xs ih =>
    obtain ⟨a, w⟩ := x
    simp only [akeys, List.map_cons, List.nodup_cons] at hn
    simp only [alook]
    rcases List.mem_cons.mp hm with e | hm
    · cases e; simp
    · have hne : a ≠ k := by
        intro e; subst e
        exact hn.1 (List.mem_map.mpr ⟨(a, v), hm, rfl⟩)
      simp only [hne, if_false]
      exact ih hn.2 hm

theorem entry_edge {es : Entries} {st : St} {start : String} (A : Assembled st start) (hE : EInv es st)
    (a b : String) (ha : skey a ∈ akeys st.nodes) (he : SEdge es a b) :
    Edge st.nodes (skey a) (skey b) ∧ skey b ∈ akeys st.nodes := by
  obtain ⟨node, hm⟩ := mem_of_key ha
  obtain ⟨cs, lb, splits, rfl, hs, hedges⟩ := hE a node hm
  obtain ⟨splits', s, hs', hsm, hd, hne, hsub, hsome⟩ := he
  rw [hs] at hs'; cases hs'
  have hk : skey b ∈ (Node.splitter cs lb).next := by
    have := hedges s hsm (by rw [hd]; exact hne) hsub (by rw [hd]; exact hsome)
    rw [hd] at this
    simpa [Node.next] using this
  exact ⟨⟨_, alook_of_mem_nodup A.nodup hm, hk⟩, A.closed _ _ hm _ hk⟩

theorem entry_walk {es : Entries} {st : St} {start : String} (A : Assembled st start) (hE : EInv es st)
    (x y : String) (hx : skey x ∈ akeys st.nodes) (hr : SReach es x y) :
    skey y ∈ akeys st.nodes ∧ Reach st.nodes (skey x) (skey y) := by
  induction hr with
  | refl => exact ⟨hx, Reach.refl _⟩
  | step _ he ih =>
    obtain ⟨e, hk⟩ := entry_edge A hE _ _ ih.1 he
    exact ⟨hk, Reach.step ih.2 e⟩

/-- the chain of a service without a router starts at its splitter, and the assembled state mirrors the entries -/
theorem assemble_entry (es : Entries) (cx : Ctx) (st : St) (start : String)
    (hadv : disableAdv cx = false) (hrt : alook cx.svc es.routers = none)
    (hsp : (alook cx.svc es.splitters).isSome = true) (h : assemble es cx = .ok (st, start)) :
    EInv es st ∧ start = skey cx.svc := by
  have hsvc : (newTarget cx {} { svc := cx.svc }).2.svc = cx.svc := by
    unfold newTarget; simp only [alook]; unfold mkTarget; split <;> rfl
  unfold assemble at h
  simp only [hrt] at h
  unfold splitterOrResolver at h
  have e0 : EInv es (newTarget cx {} { svc := cx.svc }).1 := by
    intro n node hm
    rw [(newTarget_same cx {} { svc := cx.svc }).nodes] at hm
    cases hm
  split at h
  · cases h
  · rename_i dm st1 key hs
    split at hs
    · cases hs
    · rename_i dm1 st2 key1 hsn
      simp only [Except.ok.injEq, Prod.mk.injEq] at hs h
      obtain ⟨_, rfl, rfl⟩ := hs
      obtain ⟨rfl, rfl⟩ := h
      obtain ⟨i1, hk⟩ := (splitter_entry es cx hadv).1 _ _ _ _ _ _ e0 hsn
      rw [hsvc] at hk
      exact ⟨i1, Option.some.inj (hk hsp)⟩
    · rename_i dm1 st2 hsn
      obtain ⟨_, hk⟩ := (splitter_entry es cx hadv).1 _ _ _ _ _ _ e0 hsn
      rw [hsvc] at hk
      cases hk hsp

/-- ENTRY LEVEL: a splitter reference cycle among the entries, reachable from the compiled service's own
    splitter, makes compilation fail — with the circular-reference error unless assembling the chain
    already failed with another graph error (protocol mismatch, missing subset, …), which is then the answer. -/
theorem entry_splitter_cycle (es : Entries) (cx : Ctx) (a b : String)
    (hreq : ¬ (cx.svc = "" ∨ cx.ns = "" ∨ cx.part = "" ∨ cx.dc = "" ∨ cx.td = ""))
    (hadv : disableAdv cx = false) (hrt : alook cx.svc es.routers = none)
    (hsp : (alook cx.svc es.splitters).isSome = true)
    (hr : SReach es cx.svc a) (he : SEdge es a b) (hback : SReach es b a) :
    compile es cx = .error .circularRef ∨ ∃ e, assemble es cx = .error e ∧ compile es cx = .error e := by
  cases ha : assemble es cx with
  | error e =>
    refine Or.inr ⟨e, rfl, ?_⟩
    unfold compile compileWith
    rw [if_neg hreq, ha]
  | ok v =>
    obtain ⟨st, start⟩ := v
    left
    have A := assemble_closed es cx st start ha
    obtain ⟨hE, rfl⟩ := assemble_entry es cx st start hadv hrt hsp ha
    obtain ⟨ka, ra⟩ := entry_walk A hE cx.svc a A.has hr
    obtain ⟨e1, kb⟩ := entry_edge A hE a b ka he
    obtain ⟨_, rb⟩ := entry_walk A hE b a kb hback
    exact compile_cycle_error es cx st (skey cx.svc) (skey a) hreq ha ra ⟨skey b, e1, rb⟩

end CV.Chain
