/-
Helper lemmas for C11: every index stored in the catalog — hence every index a query or a
snapshot reports — is bounded by the index of the last commit.
-/
import CV.Proofs.StreamCat
namespace CV.Stream

structure IdxBound (c : Cat) (n : Nat) : Prop where
  svc : ∀ p ∈ c.svcIdx, p.2 ≤ n
  ext : ∀ e, c.extinct = some e → e ≤ n
  cat : c.catIdx ≤ n
  cfg : c.cfgIdx ≤ n

theorem IdxBound.empty (n : Nat) : IdxBound Cat.empty n :=
  ⟨by simp [Cat.empty], by simp [Cat.empty], by simp [Cat.empty], by simp [Cat.empty]⟩

theorem IdxBound.mono {c : Cat} {n m : Nat} (h : IdxBound c n) (hm : n ≤ m) : IdxBound c m :=
  ⟨fun p hp => Nat.le_trans (h.svc p hp) hm, fun e he => Nat.le_trans (h.ext e he) hm,
   Nat.le_trans h.cat hm, Nat.le_trans h.cfg hm⟩

section
variable {α β : Type} [DecidableEq α]
theorem mem_of_lookup? {k : α} {v : β} {l : List (α × β)} (h : lookup? k l = some v) : (k, v) ∈ l := by
  induction l with
  | nil => simp at h
  | cons p r ih =>
    obtain ⟨a, b⟩ := p
    rw [lookup?_cons] at h
    by_cases e : a = k
    · simp only [e, ↓reduceIte, Option.some.injEq] at h
      subst h; subst e; exact List.mem_cons_self
    · simp only [e, ↓reduceIte] at h
      exact List.mem_cons_of_mem _ (ih h)

theorem mem_upsert {k : α} {v : β} {l : List (α × β)} {p : α × β} (h : p ∈ upsert k v l) :
    p = (k, v) ∨ p ∈ l := by
  unfold upsert at h
  rcases List.mem_cons.mp h with h | h
  · exact Or.inl h
  · exact Or.inr (List.mem_filter.mp h).1

theorem mem_erase {k : α} {l : List (α × β)} {p : α × β} (h : p ∈ erase k l) : p ∈ l :=
  (List.mem_filter.mp h).1
end

theorem bump_le {k : String} {idx n : Nat} {l : List (String × Nat)} (h : ∀ p ∈ l, p.2 ≤ n) (hi : idx ≤ n) :
    ∀ p ∈ bump k idx l, p.2 ≤ n := by
  intro p hp
  unfold bump at hp
  cases hl : lookup? k l with
  | none =>
    rw [hl] at hp
    rcases mem_upsert hp with rfl | hp
    · exact hi
    · exact h p hp
  | some old =>
    rw [hl] at hp
    rcases mem_upsert hp with rfl | hp
    · have := h _ (mem_of_lookup? hl)
      simp only at this ⊢
      omega
    · exact h p hp

theorem foldl_bump_le {idx n : Nat} (ss : List Svc) {l : List (String × Nat)} (h : ∀ p ∈ l, p.2 ≤ n) (hi : idx ≤ n) :
    ∀ p ∈ ss.foldl (fun m s => bump s.name idx m) l, p.2 ≤ n := by
  induction ss generalizing l with
  | nil => exact h
  | cons s r ih => exact ih (bump_le h hi)

theorem dropSvc_idxBound {idx : Nat} {c : Cat} (s : Svc) (h : IdxBound c idx) : IdxBound (dropSvc idx c s) idx := by
  simp only [dropSvc]
  split
  · exact ⟨bump_le h.svc (Nat.le_refl _), h.ext, Nat.le_refl _, h.cfg⟩
  · refine ⟨fun p hp => h.svc p (mem_erase hp), ?_, Nat.le_refl _, h.cfg⟩
    intro e he
    simp only [Option.some.injEq] at he
    subst he
    unfold maxOpt
    cases hx : c.extinct with
    | none => simp
    | some e' => have := h.ext e' hx; simp only; omega

theorem foldl_dropSvc_idxBound {idx : Nat} (ss : List Svc) {c : Cat} (h : IdxBound c idx) :
    IdxBound (ss.foldl (dropSvc idx) c) idx := by
  induction ss generalizing c with
  | nil => exact h
  | cons s r ih => exact ih (dropSvc_idxBound s h)

theorem applyWrite_idxBound {c : Cat} {n : Nat} (idx : Nat) (w : Write) (h0 : IdxBound c n) (hn : n ≤ idx) :
    IdxBound (applyWrite idx c w).1 idx := by
  have h := h0.mono hn
  cases w with
  | kv => exact h
  | tok t => exact h
  | cfgSet n v => exact ⟨h.svc, h.ext, h.cat, Nat.le_refl _⟩
  | cfgDel n =>
    simp only [applyWrite]
    cases lookup? n c.cfgs with
    | none => exact h
    | some v => exact ⟨h.svc, h.ext, h.cat, Nat.le_refl _⟩
  | dereg node sid =>
    cases sid with
    | some sid =>
      simp only [applyWrite]
      cases findSvc c node sid with
      | none => exact h
      | some s => exact dropSvc_idxBound s h
    | none =>
      simp only [applyWrite]
      cases lookup? node c.nodes with
      | none => exact h
      | some a =>
        have := foldl_dropSvc_idxBound (svcsOnNode c node) h
        exact ⟨this.svc, this.ext, Nat.le_refl _, this.cfg⟩
  | reg node addr svc =>
    simp only [applyWrite]
    cases svc with
    | none =>
      simp only
      split
      · exact ⟨foldl_bump_le _ h.svc (Nat.le_refl _), h.ext, Nat.le_refl _, h.cfg⟩
      · exact h
    | some s =>
      simp only
      split <;> split <;>
        first
          | exact h
          | exact ⟨foldl_bump_le _ h.svc (Nat.le_refl _), h.ext, Nat.le_refl _, h.cfg⟩
          | exact ⟨bump_le h.svc (Nat.le_refl _), h.ext, Nat.le_refl _, h.cfg⟩
          | exact ⟨bump_le (foldl_bump_le _ h.svc (Nat.le_refl _)) (Nat.le_refl _), h.ext, Nat.le_refl _, h.cfg⟩

theorem svcIndexOr_le {c : Cat} {n : Nat} (h : IdxBound c n) (name : String) : svcIndexOr c name ≤ n := by
  unfold svcIndexOr
  cases hl : lookup? name c.svcIdx with
  | none => exact h.cat
  | some i => exact h.svc _ (mem_of_lookup? hl)

theorem queryIdx_le {c : Cat} {n : Nat} (h : IdxBound c n) (k : Key) : queryIdx k c ≤ n := by
  obtain ⟨t, sj⟩ := k
  have hf : ∀ (l : List Svc) (a : Nat), a ≤ n → l.foldl (fun m s => max m (svcIndexOr c s.name)) a ≤ n := by
    intro l
    induction l with
    | nil => intro a ha; exact ha
    | cons s r ih =>
      intro a ha
      apply ih
      have := svcIndexOr_le h s.name
      show max a (svcIndexOr c s.name) ≤ n
      omega
  have hab : ∀ name, absentIdx c name ≤ n := by
    intro name
    unfold absentIdx
    cases hx : c.extinct with
    | none => exact svcIndexOr_le h name
    | some e => exact h.ext e hx
  cases t <;> cases sj <;> simp only [queryIdx] <;>
    first
      | exact h.cfg
      | exact Nat.zero_le _
      | (split
         · exact hab _
         · exact hf _ 0 (Nat.zero_le _))

theorem snapIdx_le {c : Cat} {n : Nat} (h : IdxBound c n) (hn : 1 ≤ n) (k : Key) : snapIdx k c ≤ n := by
  unfold snapIdx
  simp only
  split
  · exact hn
  · exact queryIdx_le h k

theorem queryIdx_le_snapIdx (k : Key) (c : Cat) : queryIdx k c ≤ snapIdx k c := by
  unfold snapIdx
  simp only
  split <;> omega

end CV.Stream
