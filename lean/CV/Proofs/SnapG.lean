/- Helper lemmas for CV.SnapG (property C02): the restore fold phase by phase, and the index-table algebra of a
   sequence of `indexUpdateMaxTxn` calls. -/
import CV.SnapG
import CV.Proofs.Snap
namespace CV.SnapG
open CV CV.Snap

/-! ### a sequence of max-merges -/

theorem applyWrites_sorted (ws : List (Bytes × Nat)) {i : List IdxRow} (h : Sorted idxKey i) :
    Sorted idxKey (applyWrites ws i) := by
  induction ws generalizing i with
  | nil => exact h
  | cons w ws ih => exact ih (maxMerge_sorted h)

theorem mem_applyWrites_imp (ws : List (Bytes × Nat)) {i : List IdxRow} {y : IdxRow}
    (h : y ∈ applyWrites ws i) : y ∈ i ∨ ∃ w ∈ ws, idxKey y = lc w.1 := by
  induction ws generalizing i with
  | nil => exact Or.inl h
  | cons w ws ih =>
    rcases ih (i := maxMerge w.1 w.2 i) h with h' | ⟨w', hw', e⟩
    · rcases mem_maxMerge_imp h' with h'' | e
      · exact Or.inl h''
      · exact Or.inr ⟨w, List.mem_cons_self, e⟩
    · exact Or.inr ⟨w', List.mem_cons_of_mem _ hw', e⟩

/-- every write is dominated by a stored row of the same key: the whole sequence is a no-op -/
theorem applyWrites_noop (ws : List (Bytes × Nat)) {i : List IdxRow} (h : Sorted idxKey i)
    (hb : ∀ w ∈ ws, ∃ x ∈ i, idxKey x = lc w.1 ∧ w.2 ≤ x.value) : applyWrites ws i = i := by
  induction ws with
  | nil => rfl
  | cons w ws ih =>
    obtain ⟨x, hx, hk, hv⟩ := hb w List.mem_cons_self
    show applyWrites ws (maxMerge w.1 w.2 i) = i
    rw [maxMerge_noop h hx hk hv]
    exact ih (fun w' hw' => hb w' (List.mem_cons_of_mem _ hw'))

theorem applyWrites_append (a b : List (Bytes × Nat)) (i : List IdxRow) :
    applyWrites (a ++ b) i = applyWrites b (applyWrites a i) := by
  simp [applyWrites, List.foldl_append]

/-- all index writes of a list of rows, in stream order -/
def allWrites (last : Nat) (l : List Row) : List (Bytes × Nat) := l.flatMap (writes last)

theorem foldl_writes (last : Nat) (l : List Row) (i : List IdxRow) :
    l.foldl (fun a r => applyWrites (writes last r) a) i = applyWrites (allWrites last l) i := by
  induction l generalizing i with
  | nil => rfl
  | cons r rs ih =>
    simp only [List.foldl_cons, allWrites, List.flatMap_cons, applyWrites_append]
    exact ih _

/-! ### the restore fold, phase by phase -/

theorem phase_rows (n : Nat) (l : List Row) (st : State) :
    (l.map Rec.row).foldl (restorer n) st =
      { st with rows := insertAll gKey st.rows l, index := applyWrites (allWrites n l) st.index } := by
  rw [← foldl_writes]
  induction l generalizing st with
  | nil => rfl
  | cons x xs ih => simp only [List.map_cons, List.foldl_cons, ih, restorer, insertAll]

theorem phase_index (n : Nat) (l : List IdxRow) (st : State) :
    (l.map Rec.index).foldl (restorer n) st = { st with index := insertAll idxKey st.index l } := by
  induction l generalizing st with
  | nil => rfl
  | cons x xs ih => simp only [List.map_cons, List.foldl_cons, ih, restorer, insertAll]

theorem phase_late (n : Nat) (l : List Row) (st : State) :
    (l.map Rec.late).foldl (restorer n) st =
      { st with late := insertAll gKey st.late l, index := applyWrites (allWrites n l) st.index } := by
  rw [← foldl_writes]
  induction l generalizing st with
  | nil => rfl
  | cons x xs ih => simp only [List.map_cons, List.foldl_cons, ih, restorer, insertAll]

/-- the whole restore, phase by phase -/
theorem restore_snapshot_eq (s : State) :
    restore (snapshot s) =
      let n := lastIndex s
      let i₁ := applyWrites (allWrites n s.rows) []
      let i₂ := insertAll idxKey i₁ s.index
      { index := applyWrites (allWrites n s.late) i₂
        rows := insertAll gKey [] s.rows
        late := insertAll gKey [] s.late } := by
  simp only [restore, snapshot, Format.restore, Format.snapshot, fmt, List.flatMap_cons, List.flatMap_nil,
    List.append_nil, List.foldl_append, phase_rows, phase_index, phase_late, State.empty]

end CV.SnapG
