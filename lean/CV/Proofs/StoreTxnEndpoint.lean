/-
Helper lemmas for the transaction endpoint layers (CV.Store.TxnEndpoint), property C05.
-/
import CV.Store.TxnEndpoint
import CV.Proofs.StoreTxn
namespace CV.Store
open CV

/-- what the HTTP layer counts as a write is exactly what the model calls "not a read verb" -/
theorem httpWrite_eq_not_isRead (op : TxnOp) : op.httpWrite = !op.isRead := by
  cases op with
  | kv v e => cases v <;> rfl
  | node v n => cases v <;> rfl
  | service v x => cases v <;> rfl
  | check v c => cases v <;> rfl
  | sessionDelete id => rfl

theorem isRead_normOp (op : TxnOp) : (normOp op).isRead = op.isRead := by
  cases op with
  | kv v e => rfl
  | node v n => rfl
  | service v x => cases v <;> rfl
  | check v c => rfl
  | sessionDelete id => rfl

theorem no_httpWrite_iff_reads (ops : List TxnOp) :
    (ops.filter TxnOp.httpWrite).length = 0 ↔ ∀ op ∈ ops, op.isRead = true := by
  rw [List.length_eq_zero_iff, List.filter_eq_nil_iff]
  constructor
  · intro h op hop
    have := h op hop
    rw [httpWrite_eq_not_isRead] at this
    simpa using this
  · intro h op hop
    rw [httpWrite_eq_not_isRead, h op hop]; simp

/-- a read-only dispatch that reports no error accepted every operation -/
theorem txnLoopRO_no_errors (s : State) (ops : List TxnOp) :
    ∀ (i : Nat) (rs : List TxnRes) (es : List (Nat × Err)), (txnLoopRO s ops i rs es).2 = [] →
      es = [] ∧ ∀ op ∈ ops, ∃ r, txnStepRO s op = .ok r := by
  induction ops with
  | nil => intro i rs es h; simpa [txnLoopRO] using h
  | cons op ops ih =>
    intro i rs es h
    unfold txnLoopRO at h
    cases hq : txnStepRO s op with
    | ok r =>
      rw [hq] at h
      obtain ⟨h1, h2⟩ := ih _ _ _ h
      refine ⟨h1, ?_⟩
      intro o ho
      rcases List.mem_cons.mp ho with rfl | ho
      · exact ⟨r, hq⟩
      · exact h2 o ho
    | error e =>
      rw [hq] at h
      obtain ⟨h1, -⟩ := ih _ _ _ h
      simp at h1

theorem txnRO_no_errors (s : State) (ops : List TxnOp) (h : (txnRO s ops).2 = []) :
    ∀ op ∈ ops, ∃ r, txnStepRO s op = .ok r := by
  unfold txnRO at h
  generalize hr : txnLoopRO s ops 0 [] [] = r at h
  obtain ⟨rs, es⟩ := r
  simp only at h
  by_cases he : es.isEmpty
  · have : (txnLoopRO s ops 0 [] []).2 = [] := by rw [hr]; simpa using he
    exact (txnLoopRO_no_errors s ops 0 [] [] this).2
  · simp only [he] at h
    simp only [Bool.false_eq_true, ↓reduceIte] at h
    rw [h] at he; simp at he

theorem preCheck_pre_errors_only (pes : List (Nat × PreErr)) :
    ∀ pe ∈ pes.map (fun (p : Nat × PreErr) => ((p.1, EpErr.pre p.2) : Nat × EpErr)), ∃ e, pe.2 = .pre e := by
  intro pe hpe
  obtain ⟨p, -, rfl⟩ := List.mem_map.mp hpe
  exact ⟨p.2, rfl⟩

end CV.Store
