/-
Helper lemmas for C08, part 2: the radix-tree model. A tree built by `loadKind` *represents* a pair
of partial functions (exact level of a name, prefix level of a name); every query of the
authorizer is a function of that pair.
-/
import CV.Proofs.AclMerge
namespace CV.Acl

/-! ### association-list facts -/

def KeysNodup (t : Tree) : Prop := t.Pairwise fun a b => a.1 ≠ b.1

def emptyLeaf : Leaf := ⟨none, none⟩

theorem Tree.get_cons (e : Bytes × Leaf) (es : Tree) (k : Bytes) :
    Tree.get (e :: es) k = if e.1 = k then some e.2 else Tree.get es k := by
  simp only [Tree.get, List.find?_cons]
  by_cases h : e.1 = k <;> simp [h]

theorem Tree.get_insert (k : Bytes) (pfx : Bool) (a : Access) (t : Tree) (k' : Bytes) :
    (Tree.insert k pfx a t).get k' =
      if k = k' then some (((t.get k).getD emptyLeaf).set pfx a) else t.get k' := by
  induction t with
  | nil =>
    simp only [Tree.insert, Tree.get_cons]
    by_cases h : k = k' <;> simp [h, Tree.get, emptyLeaf]
  | cons e es ih =>
    simp only [Tree.insert]
    by_cases he : e.1 = k
    · rw [if_pos he]
      simp only [Tree.get_cons, he]
      by_cases h : k = k' <;> simp [h]
    · rw [if_neg he]
      simp only [Tree.get_cons, ih]
      by_cases h : k = k'
      · subst h; simp [he]
      · simp only [h, if_false]

theorem Tree.insert_keys (k : Bytes) (pfx : Bool) (a : Access) (t : Tree) (x : Bytes × Leaf)
    (hx : x ∈ Tree.insert k pfx a t) : x.1 = k ∨ ∃ y ∈ t, y.1 = x.1 := by
  induction t with
  | nil => simp only [Tree.insert, List.mem_singleton] at hx; left; rw [hx]
  | cons e es ih =>
    simp only [Tree.insert] at hx
    split at hx
    · rcases List.mem_cons.mp hx with rfl | hx
      · right; exact ⟨e, List.mem_cons_self, rfl⟩
      · right; exact ⟨x, List.mem_cons_of_mem _ hx, rfl⟩
    · rcases List.mem_cons.mp hx with rfl | hx
      · right; exact ⟨x, List.mem_cons_self, rfl⟩
      · rcases ih hx with h | ⟨y, hy, h⟩
        · left; exact h
        · right; exact ⟨y, List.mem_cons_of_mem _ hy, h⟩

theorem Tree.insert_nodup (k : Bytes) (pfx : Bool) (a : Access) (t : Tree) (h : KeysNodup t) :
    KeysNodup (Tree.insert k pfx a t) := by
  induction t with
  | nil => simp [Tree.insert, KeysNodup]
  | cons e es ih =>
    have ⟨he, hes⟩ := List.pairwise_cons.mp h
    simp only [Tree.insert]
    split
    · exact List.pairwise_cons.mpr ⟨fun b hb => he b hb, hes⟩
    · rename_i hk
      apply List.pairwise_cons.mpr ⟨?_, ih hes⟩
      intro b hb
      rcases Tree.insert_keys k pfx a es b hb with h1 | ⟨y, hy, h1⟩
      · rw [h1]; exact hk
      · rw [← h1]; exact he y hy

/-- with distinct keys, membership and lookup say the same -/
theorem Tree.mem_iff_get {t : Tree} (h : KeysNodup t) (k : Bytes) (l : Leaf) :
    (k, l) ∈ t ↔ t.get k = some l := by
  induction t with
  | nil => simp [Tree.get]
  | cons e es ih =>
    have ⟨he, hes⟩ := List.pairwise_cons.mp h
    rw [Tree.get_cons, List.mem_cons]
    by_cases hk : e.1 = k
    · rw [if_pos hk]
      constructor
      · rintro (h1 | h1)
        · rw [← h1]
        · exact absurd hk (he _ h1)
      · intro h1; left
        cases e; simp only at hk h1 ⊢; cases h1; rw [hk]
    · rw [if_neg hk, ← ih hes]
      constructor
      · rintro (h1 | h1)
        · rw [← h1] at hk; exact absurd rfl hk
        · exact h1
      · intro h1; right; exact h1

theorem Tree.any_iff {t : Tree} (h : KeysNodup t) (p : Bytes × Leaf → Bool) :
    t.any p = true ↔ ∃ k l, t.get k = some l ∧ p (k, l) = true := by
  rw [List.any_eq_true]
  constructor
  · rintro ⟨⟨k, l⟩, hm, hp⟩; exact ⟨k, l, (Tree.mem_iff_get h k l).mp hm, hp⟩
  · rintro ⟨k, l, hg, hp⟩; exact ⟨(k, l), (Tree.mem_iff_get h k l).mpr hg, hp⟩

/-! ### trees as representations of (exact, prefix) level functions -/

/-- the leaf a tree holds for a name with exact level `e` and prefix level `p` (no entry if neither) -/
def mkLeaf : Option Access → Option Access → Option Leaf
  | none, none => none
  | e, p => some ⟨e, p⟩

/-- `t` holds exactly the leaves described by `ex` (exact rule level of a name) and `pr`
    (prefix rule level of a name) -/
structure TreeOf (t : Tree) (ex pr : Bytes → Option Access) : Prop where
  nodup : KeysNodup t
  get : ∀ n, t.get n = mkLeaf (ex n) (pr n)

/-- the two observations every query is made of -/
structure TreeEquiv (t t' : Tree) : Prop where
  get : ∀ k, t.get k = t'.get k
  any : ∀ p, t.any p = t'.any p

theorem TreeOf.equiv {t t' : Tree} {ex pr} (h : TreeOf t ex pr) (h' : TreeOf t' ex pr) : TreeEquiv t t' := by
  refine ⟨fun k => by rw [h.get, h'.get], fun p => ?_⟩
  have e : t.any p = true ↔ t'.any p = true := by
    rw [Tree.any_iff h.nodup, Tree.any_iff h'.nodup]
    constructor <;> rintro ⟨k, l, hg, hp⟩
    · exact ⟨k, l, by rw [h'.get, ← h.get]; exact hg, hp⟩
    · exact ⟨k, l, by rw [h.get, ← h'.get]; exact hg, hp⟩
  cases h1 : t.any p <;> cases h2 : t'.any p <;> simp_all

theorem TreeEquiv.path {t t' : Tree} (h : TreeEquiv t t') (seg : Bytes) : t.path seg = t'.path seg := by
  simp only [Tree.path, h.get]

/-! ### loading rules into a tree -/

/-- the level function `f` assigns to the rule of slot (k, pfx, n), if the context has one -/
def slotLevel (f : Rule → PStr) (m : List Rule) (k : Kind) (pfx : Bool) (n : Bytes) : Option Access :=
  (findSlot m k pfx n).bind fun r => (f r).level

theorem loadList_spec (f : Rule → PStr) (b : Bool) (rs : List Rule) (t t' : Tree)
    (hb : ∀ r ∈ rs, r.pfx = b) (hn : rs.Pairwise fun x y => x.name ≠ y.name)
    (h : loadList f t rs = some t') :
    (KeysNodup t → KeysNodup t') ∧
    (∀ r ∈ rs, ∃ a, (f r).level = some a) ∧
    ∀ n, (rs.find? (fun r => r.name = n) = none → t'.get n = t.get n) ∧
      (∀ r, rs.find? (fun r => r.name = n) = some r →
        t'.get n = (f r).level.map fun a => ((t.get n).getD emptyLeaf).set b a) := by
  induction rs generalizing t with
  | nil =>
    simp only [loadList, Option.some.injEq] at h
    subst h
    exact ⟨id, fun r hr => (by cases hr), fun n => ⟨fun _ => rfl, fun r hr => (by simp at hr)⟩⟩
  | cons r rs ih =>
    simp only [loadList] at h
    cases hl : (f r).level with
    | none => rw [hl] at h; cases h
    | some a =>
      rw [hl] at h
      have ⟨hr, hrs⟩ := List.pairwise_cons.mp hn
      have ⟨i1, i2, i3⟩ := ih (Tree.insert r.name r.pfx a t) (fun x hx => hb x (List.mem_cons_of_mem _ hx)) hrs h
      refine ⟨fun hk => i1 (Tree.insert_nodup _ _ _ _ hk), ?_, ?_⟩
      · intro x hx
        rcases List.mem_cons.mp hx with rfl | hx
        · exact ⟨a, hl⟩
        · exact i2 x hx
      · intro n
        rw [List.find?_cons]
        by_cases hrn : r.name = n
        · have hnone : rs.find? (fun x => x.name = n) = none := by
            apply List.find?_eq_none.mpr
            intro x hx hxn
            simp only [decide_eq_true_eq] at hxn
            exact hr x hx (hrn.trans hxn.symm)
          simp only [hrn, decide_true]
          refine ⟨fun hc => (by cases hc), ?_⟩
          intro r' hr'
          cases hr'
          rw [(i3 n).1 hnone, Tree.get_insert, ← hrn, if_pos rfl, hl, hb r List.mem_cons_self]
          rfl
        · simp only [hrn, decide_false]
          refine ⟨fun hc => ?_, fun r' hr' => ?_⟩
          · rw [(i3 n).1 hc, Tree.get_insert, if_neg hrn]
          · rw [(i3 n).2 r' hr', Tree.get_insert, if_neg hrn]

theorem slotRules_pairwise (m : List Rule) (hm : NodupSlots m) (k : Kind) (b : Bool) :
    (slotRules m k b).Pairwise fun x y => x.name ≠ y.name := by
  unfold slotRules
  have := List.Pairwise.filter (fun r : Rule => decide (r.kind = k) && decide (r.pfx = b)) hm
  refine List.Pairwise.imp_of_mem ?_ this
  intro x y hx hy hs hxy
  have h1 := (List.mem_filter.mp hx).2
  have h2 := (List.mem_filter.mp hy).2
  simp only [Bool.and_eq_true, decide_eq_true_eq] at h1 h2
  rw [sameSlot_iff.mpr ⟨h1.1.trans h2.1.symm, h1.2.trans h2.2.symm, hxy⟩] at hs
  cases hs

theorem find_slotRules (m : List Rule) (k : Kind) (b : Bool) (n : Bytes) :
    (slotRules m k b).find? (fun r => r.name = n) = findSlot m k b n := by
  unfold slotRules findSlot
  rw [List.find?_filter]
  congr 1
  funext r
  simp only [inSlot]
  cases decide (r.kind = k) <;> cases decide (r.pfx = b) <;> cases decide (r.name = n) <;> rfl

/-- the tree `loadKind` builds represents the slot levels of the rule list -/
theorem loadKind_treeOf (f : Rule → PStr) (m : List Rule) (hm : NodupSlots m) (k : Kind) (t : Tree)
    (h : loadKind f m k = some t) : TreeOf t (slotLevel f m k false) (slotLevel f m k true) := by
  unfold loadKind at h
  cases h1 : loadList f [] (slotRules m k false) with
  | none => rw [h1] at h; cases h
  | some t1 =>
    rw [h1] at h
    simp only [Option.bind_some] at h
    have pb : ∀ b, ∀ r ∈ slotRules m k b, r.pfx = b := by
      intro b r hr
      have := (List.mem_filter.mp hr).2
      simp only [Bool.and_eq_true, decide_eq_true_eq] at this
      exact this.2
    have ⟨a1, a2, a3⟩ := loadList_spec f false _ [] t1 (pb false) (slotRules_pairwise m hm k false) h1
    have ⟨b1, b2, b3⟩ := loadList_spec f true _ t1 t (pb true) (slotRules_pairwise m hm k true) h
    refine ⟨b1 (a1 List.Pairwise.nil), ?_⟩
    intro n
    have A := a3 n
    have B := b3 n
    rw [find_slotRules] at A B
    simp only [slotLevel]
    cases he : findSlot m k false n with
    | none =>
      have g1 : t1.get n = none := by rw [A.1 he]; rfl
      cases hp : findSlot m k true n with
      | none => rw [B.1 hp, g1]; simp [mkLeaf]
      | some rp =>
        have hrp : rp ∈ slotRules m k true := List.mem_of_find?_eq_some (find_slotRules m k true n ▸ hp)
        obtain ⟨ap, hap⟩ := b2 rp hrp
        rw [B.2 rp hp, g1]
        simp [hap, emptyLeaf, Leaf.set, mkLeaf]
    | some re =>
      have hre : re ∈ slotRules m k false := List.mem_of_find?_eq_some (find_slotRules m k false n ▸ he)
      obtain ⟨ae, hae⟩ := a2 re hre
      have g1 : t1.get n = some ⟨some ae, none⟩ := by
        rw [A.2 re he, hae]; simp [Tree.get, emptyLeaf, Leaf.set]
      cases hp : findSlot m k true n with
      | none => rw [B.1 hp, g1]; simp [hae, mkLeaf]
      | some rp =>
        have hrp : rp ∈ slotRules m k true := List.mem_of_find?_eq_some (find_slotRules m k true n ▸ hp)
        obtain ⟨ap, hap⟩ := b2 rp hrp
        rw [B.2 rp hp, g1]
        simp [hae, hap, Leaf.set, mkLeaf]

theorem loadList_some (f : Rule → PStr) (rs : List Rule) (t : Tree) (h : ∀ r ∈ rs, ∃ a, (f r).level = some a) :
    ∃ t', loadList f t rs = some t' := by
  induction rs generalizing t with
  | nil => exact ⟨t, rfl⟩
  | cons r rs ih =>
    obtain ⟨a, ha⟩ := h r List.mem_cons_self
    simp only [loadList, ha]
    exact ih _ fun x hx => h x (List.mem_cons_of_mem _ hx)

theorem loadKind_some (f : Rule → PStr) (m : List Rule) (k : Kind)
    (h : ∀ r ∈ m, r.kind = k → ∃ a, (f r).level = some a) : ∃ t, loadKind f m k = some t := by
  have hs : ∀ b, ∀ r ∈ slotRules m k b, ∃ a, (f r).level = some a := by
    intro b r hr
    have hm := List.mem_filter.mp hr
    have := hm.2
    simp only [Bool.and_eq_true, decide_eq_true_eq] at this
    exact h r hm.1 this.1
  obtain ⟨t1, h1⟩ := loadList_some f (slotRules m k false) [] (hs false)
  obtain ⟨t2, h2⟩ := loadList_some f (slotRules m k true) t1 (hs true)
  exact ⟨t2, by simp [loadKind, h1, h2]⟩

/-! ### the path walk -/

/-- keep the last prefix rule seen on the way down -/
def stepPr (pr : Bytes → Option Access) (cur : Option Access) (k : Bytes) : Option Access :=
  match pr k with
  | some a => some a
  | none => cur

/-- specification of `getPolicy`: the exact rule of the name, else the last (= longest) prefix rule
    among the prefixes of the name -/
def lookupSpec (ex pr : Bytes → Option Access) (seg : Bytes) : Option Access :=
  match ex seg with
  | some a => some a
  | none => (pathKeys seg).foldl (stepPr pr) none

theorem pathKeys_snoc (seg : Bytes) :
    ∃ init, pathKeys seg = init ++ [seg] ∧ ∀ k ∈ init, k ≠ seg := by
  induction seg with
  | nil => exact ⟨[], rfl, fun k hk => by cases hk⟩
  | cons a l ih =>
    obtain ⟨init, h1, h2⟩ := ih
    refine ⟨[] :: init.map (a :: ·), ?_, ?_⟩
    · simp [pathKeys, h1]
    · intro k hk
      rcases List.mem_cons.mp hk with rfl | hk
      · simp
      · obtain ⟨x, hx, rfl⟩ := List.mem_map.mp hk
        intro h; exact h2 x hx (List.cons.inj h).2

def entryOf (ex pr : Bytes → Option Access) (k : Bytes) : Option (Bytes × Leaf) :=
  (mkLeaf (ex k) (pr k)).map fun l => (k, l)

theorem TreeOf.path_eq {t : Tree} {ex pr} (h : TreeOf t ex pr) (seg : Bytes) :
    t.path seg = (pathKeys seg).filterMap (entryOf ex pr) := by
  unfold Tree.path
  congr 1
  funext k
  rw [h.get k]
  rfl

theorem getPolicyGo_init (ex pr : Bytes → Option Access) (seg : Bytes) (ks : List Bytes)
    (hks : ∀ k ∈ ks, k ≠ seg) (cur : Option Access) :
    getPolicyGo seg ((ks ++ [seg]).filterMap (entryOf ex pr)) cur =
      match ex seg with
      | some a => some a
      | none => stepPr pr (ks.foldl (stepPr pr) cur) seg := by
  induction ks generalizing cur with
  | nil =>
    simp only [List.nil_append, List.filterMap_cons, List.filterMap_nil, List.foldl_nil]
    unfold entryOf
    cases he : ex seg with
    | none =>
      cases hp : pr seg with
      | none => simp [mkLeaf, getPolicyGo, stepPr, hp]
      | some a => simp [mkLeaf, getPolicyGo, stepPr, hp]
    | some a => cases hp : pr seg <;> simp [mkLeaf, getPolicyGo]
  | cons k ks ih =>
    have hk : k ≠ seg := hks k List.mem_cons_self
    simp only [List.cons_append, List.filterMap_cons, List.foldl_cons]
    rw [← ih (fun x hx => hks x (List.mem_cons_of_mem _ hx))]
    unfold entryOf
    cases he : ex k with
    | none =>
      cases hp : pr k with
      | none => simp [mkLeaf, stepPr, hp]
      | some a => simp [mkLeaf, getPolicyGo, stepPr, hp, hk]
    | some e =>
      cases hp : pr k with
      | none => simp [mkLeaf, getPolicyGo, stepPr, hp, hk]
      | some a => simp [mkLeaf, getPolicyGo, stepPr, hp, hk]

/-- `getPolicy` on a tree equals the specification on the functions the tree represents -/
theorem TreeOf.getPolicy_eq {t : Tree} {ex pr} (h : TreeOf t ex pr) (seg : Bytes) :
    getPolicy t seg = lookupSpec ex pr seg := by
  obtain ⟨init, h1, h2⟩ := pathKeys_snoc seg
  unfold getPolicy lookupSpec
  rw [h.path_eq, h1, getPolicyGo_init ex pr seg init h2 none, List.foldl_append]
  rfl

theorem foldl_stepPr_none (pr : Bytes → Option Access) (ks : List Bytes) (cur : Option Access)
    (h : ∀ k ∈ ks, pr k = none) : ks.foldl (stepPr pr) cur = cur := by
  induction ks generalizing cur with
  | nil => rfl
  | cons k ks ih =>
    simp only [List.foldl_cons]
    rw [ih _ fun x hx => h x (List.mem_cons_of_mem _ hx)]
    simp [stepPr, h k List.mem_cons_self]

/-- the prefixes of `seg`, split at the prefix `p`: everything after `p` is a longer prefix of `seg` -/
theorem pathKeys_split (seg p : Bytes) (hp : p <+: seg) :
    ∃ l1 l2, pathKeys seg = l1 ++ p :: l2 ∧ ∀ q ∈ l2, q <+: seg ∧ p.length < q.length := by
  induction seg generalizing p with
  | nil =>
    have : p = [] := List.prefix_nil.mp hp
    subst this
    exact ⟨[], [], rfl, fun q hq => by cases hq⟩
  | cons a l ih =>
    cases p with
    | nil =>
      refine ⟨[], (pathKeys l).map (a :: ·), rfl, ?_⟩
      intro q hq
      obtain ⟨x, hx, rfl⟩ := List.mem_map.mp hq
      refine ⟨?_, by simp⟩
      obtain ⟨i, hi, _⟩ := pathKeys_snoc l
      -- every key of `pathKeys l` is a prefix of `l`
      have hpre : ∀ (s : Bytes) (y : Bytes), y ∈ pathKeys s → y <+: s := by
        intro s
        induction s with
        | nil => intro y hy; simp [pathKeys] at hy; subst hy; exact List.prefix_refl _
        | cons b s ihs =>
          intro y hy
          rcases List.mem_cons.mp hy with rfl | hy
          · exact List.nil_prefix
          · obtain ⟨z, hz, rfl⟩ := List.mem_map.mp hy
            exact (List.cons_prefix_cons).mpr ⟨rfl, ihs z hz⟩
      exact (List.cons_prefix_cons).mpr ⟨rfl, hpre l x hx⟩
    | cons b p' =>
      have ⟨hab, hp'⟩ := List.cons_prefix_cons.mp hp
      subst hab
      obtain ⟨l1, l2, h1, h2⟩ := ih p' hp'
      refine ⟨[] :: l1.map (b :: ·), l2.map (b :: ·), by simp [pathKeys, h1], ?_⟩
      intro q hq
      obtain ⟨x, hx, rfl⟩ := List.mem_map.mp hq
      have := h2 x hx
      exact ⟨List.cons_prefix_cons.mpr ⟨rfl, this.1⟩, by simp; omega⟩

theorem mem_pathKeys_prefix (s y : Bytes) (hy : y ∈ pathKeys s) : y <+: s := by
  induction s generalizing y with
  | nil => simp [pathKeys] at hy; subst hy; exact List.prefix_refl _
  | cons b s ihs =>
    rcases List.mem_cons.mp hy with rfl | hy
    · exact List.nil_prefix
    · obtain ⟨z, hz, rfl⟩ := List.mem_map.mp hy
      exact (List.cons_prefix_cons).mpr ⟨rfl, ihs z hz⟩

/-- longest matching prefix: the foldl over the path returns the level of the longest prefix that
    carries a prefix rule -/
theorem foldl_stepPr_longest (pr : Bytes → Option Access) (seg p : Bytes) (a : Access)
    (hp : p <+: seg) (ha : pr p = some a)
    (hmax : ∀ q, q <+: seg → pr q ≠ none → q.length ≤ p.length) :
    (pathKeys seg).foldl (stepPr pr) none = some a := by
  obtain ⟨l1, l2, h1, h2⟩ := pathKeys_split seg p hp
  rw [h1, List.foldl_append, List.foldl_cons]
  rw [foldl_stepPr_none pr l2]
  · simp [stepPr, ha]
  · intro q hq
    have := h2 q hq
    cases hq' : pr q with
    | none => rfl
    | some b =>
      have := hmax q this.1 (by rw [hq']; simp)
      omega

theorem foldl_stepPr_noMatch (pr : Bytes → Option Access) (seg : Bytes)
    (h : ∀ q, q <+: seg → pr q = none) : (pathKeys seg).foldl (stepPr pr) none = none :=
  foldl_stepPr_none pr _ none fun k hk => h k (mem_pathKeys_prefix seg k hk)

end CV.Acl
