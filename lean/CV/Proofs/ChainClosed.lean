/-
Helper lemmas for C15: the graph `assembleChain` builds is closed (every NextNode exists), has unique
keys, and every node is reachable from the start node. Consequences: the "Go would panic here"
branches of the model (`Err.internal`) are unreachable, and the flatten pass bound is sufficient.
-/
import CV.Proofs.ChainAsm
set_option linter.unusedVariables false
set_option linter.unusedSimpArgs false
namespace CV.Chain

/-! ### node keys -/

theorem rkey_inj {a b : String} (h : rkey a = rkey b) : a = b := by
  unfold rkey at h
  have := congrArg String.toList h
  simp only [String.toList_append, List.append_cancel_left_eq] at this
  exact String.toList_inj.mp this

theorem skey_inj {a b : String} (h : skey a = skey b) : a = b := by
  unfold skey at h
  have := congrArg String.toList h
  simp only [String.toList_append, List.append_cancel_left_eq, List.append_cancel_right_eq] at this
  exact String.toList_inj.mp this

theorem rkey_ne_skey (a b : String) : rkey a ≠ skey b := by
  unfold rkey skey
  intro h
  have := congrArg String.toList h
  simp [String.toList_append] at this

theorem rtkey_ne_skey (a b : String) : rtkey a ≠ skey b := by
  unfold rtkey skey
  intro h
  have := congrArg String.toList h
  simp [String.toList_append] at this

theorem rtkey_ne_rkey (a b : String) : rtkey a ≠ rkey b := by
  unfold rtkey rkey
  intro h
  have := congrArg String.toList h
  simp [String.toList_append] at this

/-! ### invariants -/

/-- `k` exists already or is a node still under construction -/
def Known (st : St) (pend : List String) (k : String) : Prop := k ∈ akeys st.nodes ∨ k ∈ pend

/-- keys are unique; resolver keys belong to memoised targets; only splitter / resolver keys so far -/
structure KInv (st : St) : Prop where
  nodup : (akeys st.nodes).Nodup
  rkeys : ∀ id, rkey id ∈ akeys st.nodes → id ∈ akeys st.rmemo
  shape : ∀ k ∈ akeys st.nodes, (∃ name, k = skey name) ∨ (∃ id, k = rkey id)

/-- closedness up to pending keys, and memoised resolver targets have their node -/
structure CInv (st : St) (pend : List String) : Prop where
  closed : ∀ k n, (k, n) ∈ st.nodes → ∀ m ∈ n.next, Known st pend m
  memo   : ∀ id, id ∈ akeys st.rmemo → rkey id ∈ akeys st.nodes

/-- `st'.nodes` extends `st.nodes` -/
def Prefix (st st' : St) : Prop := ∃ ext, st'.nodes = st.nodes ++ ext

theorem Prefix.refl (st : St) : Prefix st st := ⟨[], by simp⟩
theorem Prefix.trans {a b c : St} (h1 : Prefix a b) (h2 : Prefix b c) : Prefix a c := by
  obtain ⟨e1, h1⟩ := h1; obtain ⟨e2, h2⟩ := h2
  exact ⟨e1 ++ e2, by rw [h2, h1, List.append_assoc]⟩
theorem Prefix.keys {a b : St} (h : Prefix a b) : ∀ k ∈ akeys a.nodes, k ∈ akeys b.nodes := by
  obtain ⟨e, h⟩ := h
  intro k hk; rw [h]; simp only [akeys, List.map_append, List.mem_append]; exact Or.inl hk
theorem Prefix.of_eq {a b : St} (h : b.nodes = a.nodes) : Prefix a b := ⟨[], by simp [h]⟩

theorem alook_append_left {α : Type} {k : String} {v : α} {l l' : List (String × α)} (h : alook k l = some v) :
    alook k (l ++ l') = some v := by
  induction l with
  | nil => simp [alook] at h
  | cons x xs ih =>
    obtain ⟨a, w⟩ := x
    simp only [List.cons_append, alook] at h ⊢
    split
    · rename_i e; simpa [e] using h
    · rename_i e; simp only [e, if_false] at h; exact ih h

theorem alook_append_fresh {α : Type} {k : String} {v : α} {l : List (String × α)} (h : k ∉ akeys l) :
    alook k (l ++ [(k, v)]) = some v := by
  induction l with
  | nil => simp [alook]
  | cons x xs ih =>
    obtain ⟨a, w⟩ := x
    simp only [akeys, List.map_cons, List.mem_cons, not_or] at h
    simp only [List.cons_append, alook]
    have : ¬ a = k := fun e => h.1 e.symm
    simp only [this, if_false]
    exact ih h.2

theorem Prefix.edge {a b : St} (h : Prefix a b) {x y : String} (he : Edge a.nodes x y) : Edge b.nodes x y := by
  obtain ⟨e, h⟩ := h
  obtain ⟨n, hn, hy⟩ := he
  exact ⟨n, by rw [h]; exact alook_append_left hn, hy⟩

theorem Prefix.reach {a b : St} (h : Prefix a b) {x y : String} (hr : Reach a.nodes x y) : Reach b.nodes x y := by
  induction hr with
  | refl => exact Reach.refl _
  | step _ he ih => exact Reach.step ih (h.edge he)

theorem Reach.trans {nodes : List (String × Node)} {a b c : String} (h1 : Reach nodes a b) (h2 : Reach nodes b c) :
    Reach nodes a c := by
  induction h2 with
  | refl => exact h1
  | step _ he ih => exact Reach.step ih he

/-! ### the resolver side adds at most its own (resolver) node -/

theorem resolveLoop_fresh (es : Entries) (cx : Ctx) (st0 : St) (t0 : Target) (st : St) (hist : List Target) (t : Target)
    (hst : LoadedIn (mkVals es cx st0 t0) st) (ht : InU (mkVals es cx st0 t0) t) (st' : St) (t' : Target) (r : Resolver)
    (h : resolveLoop es cx st0 t0 st hist t hst ht = .ok (st', .fresh t' r)) : alook t'.id st'.rmemo = none := by
  fun_induction resolveLoop es cx st0 t0 st hist t hst ht generalizing st' with
  | case1 st hist t hst ht lb hm => cases h
  | case2 st hist t hst ht hm e he => cases h
  | case3 st hist t hst ht hm p hp hh => cases h
  | case4 st hist t hst ht hm p hp hh st2 t2 h1 hi ih => exact ih st' h
  | case5 st hist t hst ht hm p hp hh st2 h1 hi st3 t3 h2 hj ih => exact ih st' h
  | case6 st hist t hst ht hm p hp hh st2 h1 hi h2 =>
    simp only [Except.ok.injEq, Prod.mk.injEq, LoopOut.fresh.injEq] at h
    obtain ⟨rfl, rfl, _⟩ := h
    have s2 := redirectStep_same cx { st with proto := p } t (getResolver es t.svc)
    rw [h1] at s2
    rw [s2.rmemo]; exact hm

theorem resolveCore_memo (es : Entries) (cx : Ctx) (st st' : St) (t : Target) (rn : RNode)
    (h : resolveCore es cx st t = .ok (st', rn, none)) : rn.id ∈ akeys st.rmemo := by
  unfold resolveCore at h
  split at h
  · cases h
  · rename_i st1 id lb hl
    cases h
    obtain ⟨_, hm⟩ := resolveLoop_same es cx st t st [] t _ _ st' _ hl
    exact List.mem_map.mpr ⟨(id, lb), hm id lb rfl, rfl⟩
  · split at h <;> cases h

theorem resolveCore_fresh (es : Entries) (cx : Ctx) (st st' : St) (t t' : Target) (rn : RNode) (r : Resolver) (node : Node)
    (h : resolveCore es cx st t = .ok (st', rn, some (t', r, node))) : t'.id ∉ akeys st.rmemo := by
  unfold resolveCore at h
  split at h
  · cases h
  · cases h
  · rename_i st1 t1 r1 hl
    split at h
    · cases h
    · rename_i st2 node2 hf
      simp only [Except.ok.injEq, Prod.mk.injEq, Option.some.injEq] at h
      obtain ⟨rfl, _, rfl, rfl, rfl⟩ := h
      have hfresh := resolveLoop_fresh es cx st t st [] t _ _ st1 _ _ hl
      obtain ⟨s, _⟩ := resolveLoop_same es cx st t st [] t _ _ st1 _ hl
      rw [s.rmemo] at hfresh
      intro hmem
      obtain ⟨v, hv⟩ := alook_some_of_mem_keys hmem
      rw [hv] at hfresh; cases hfresh

/-- what a call that returns a node key establishes -/
structure ROut (st st' : St) (pend : List String) (key : String) : Prop where
  kinv : KInv st'
  cinv : CInv st' pend
  pre  : Prefix st st'
  has  : key ∈ akeys st'.nodes
  newk : ∀ k ∈ akeys st'.nodes, k ∈ akeys st.nodes ∨ k = key
  rm   : ∀ id ∈ akeys st.rmemo, id ∈ akeys st'.rmemo

theorem KInv.of_eq {st st' : St} (h : KInv st) (hn : st'.nodes = st.nodes) (hm : st'.rmemo = st.rmemo) : KInv st' :=
  ⟨by rw [hn]; exact h.nodup, by rw [hn, hm]; exact h.rkeys, by rw [hn]; exact h.shape⟩

theorem CInv.of_eq {st st' : St} {pend : List String} (h : CInv st pend) (hn : st'.nodes = st.nodes)
    (hm : st'.rmemo = st.rmemo) : CInv st' pend :=
  ⟨by intro k n hkn m hm'; rw [hn] at hkn; have := h.closed k n hkn m hm'; unfold Known at this ⊢; rw [hn]; exact this,
   by rw [hn, hm]; exact h.memo⟩

theorem resolverNode_closed {es : Entries} (cx : Ctx) {st st' : St} {pend : List String} (t : Target) (rn : RNode)
    (hi : AInv es st) (hk : KInv st) (hc : CInv st pend) (h : resolverNode es cx st t = .ok (st', rn)) :
    ROut st st' pend (rkey rn.id) := by
  unfold resolverNode at h
  split at h
  · cases h
  · rename_i st1 rn1 hcore
    cases h
    have c := resolveCore_spec es cx st st' t rn _ hi hcore
    have hmem := resolveCore_memo es cx st st' t rn hcore
    refine ⟨hk.of_eq c.nodes c.rmemo, hc.of_eq c.nodes c.rmemo, Prefix.of_eq c.nodes, ?_, ?_, ?_⟩
    · rw [c.nodes]; exact hc.memo _ hmem
    · intro k hk'; rw [c.nodes] at hk'; exact Or.inl hk'
    · intro id hid; rw [c.rmemo]; exact hid
  · rename_i st1 rn1 t' r node hcore
    have c := resolveCore_spec es cx st st1 t rn1 _ hi hcore
    have hfresh := resolveCore_fresh es cx st st1 t t' rn1 r node hcore
    obtain ⟨hid, d, ct, rt, lb, hnode⟩ := c.fresh t' r node rfl
    simp only at h
    have hi2 : AInv es { st1 with rmemo := (t'.id, r.lb) :: st1.rmemo } := by
      refine ⟨?_, c.inv.ret_loaded, c.inv.node_tgt, c.inv.node_ne, c.inv.node_rt⟩
      intro id lb' hmem
      rcases List.mem_cons.mp hmem with e | hmem
      · cases e; rw [← hid]; exact c.ret
      · exact c.inv.memo_ret id lb' hmem
    have s3 := failoverTargets_same cx { st1 with rmemo := (t'.id, r.lb) :: st1.rmemo } t' (failoverOpts r t')
    have hi3 := hi2.of_same s3
    split at h
    · cases h
    · rename_i st4 ids hf
      cases h
      obtain ⟨_, _, n4, r4, _⟩ := failoverResolve_spec es cx _ st4 _ ids hi3 hf
      have hn4 : st4.nodes = st.nodes := by rw [n4, s3.nodes]; exact c.nodes
      have hr4 : st4.rmemo = (t'.id, r.lb) :: st.rmemo := by rw [r4, s3.rmemo]; simp only; rw [c.rmemo]
      have hnotin : rkey t'.id ∉ akeys st.nodes := fun hin => hfresh (hk.rkeys _ hin)
      have hkeys : akeys (st4.nodes ++ [(rkey t'.id, node.withFailover ids)]) = akeys st.nodes ++ [rkey t'.id] := by
        rw [hn4]; simp [akeys]
      refine ⟨⟨?_, ?_, ?_⟩, ⟨?_, ?_⟩, ⟨[(rkey t'.id, node.withFailover ids)], by simp only; rw [hn4]⟩, ?_, ?_, ?_⟩
      · simp only; rw [hkeys]
        exact List.nodup_append.mpr ⟨hk.nodup, by simp, by
          intro a ha b hb; simp only [List.mem_singleton] at hb; subst hb; intro e; subst e; exact hnotin ha⟩
      · intro id hin
        simp only at hin ⊢
        rw [hkeys] at hin; rw [hr4]
        simp only [akeys, List.map_cons, List.mem_cons]
        rcases List.mem_append.mp hin with hin | hin
        · exact Or.inr (hk.rkeys id hin)
        · simp only [List.mem_singleton] at hin; exact Or.inl (rkey_inj hin)
      · intro k hin
        simp only at hin
        rw [hkeys] at hin
        rcases List.mem_append.mp hin with hin | hin
        · exact hk.shape k hin
        · simp only [List.mem_singleton] at hin; exact Or.inr ⟨_, hin⟩
      · intro k n hkn m hm
        simp only at hkn
        unfold Known; simp only; rw [hkeys]
        rcases List.mem_append.mp hkn with hkn | hkn
        · rw [hn4] at hkn
          rcases hc.closed k n hkn m hm with h1 | h1
          · exact Or.inl (List.mem_append_left _ h1)
          · exact Or.inr h1
        · simp only [List.mem_singleton, Prod.mk.injEq] at hkn
          obtain ⟨_, rfl⟩ := hkn
          subst hnode
          simp [Node.withFailover, Node.next] at hm
      · intro id hin
        simp only at hin ⊢
        rw [hkeys]; rw [hr4] at hin
        simp only [akeys, List.map_cons, List.mem_cons] at hin
        rcases hin with rfl | hin
        · exact List.mem_append_right _ (by simp)
        · exact List.mem_append_left _ (hc.memo id hin)
      · simp only; rw [hkeys, hid]; exact List.mem_append_right _ (by simp)
      · intro k hin
        simp only at hin
        rw [hkeys] at hin
        rcases List.mem_append.mp hin with hin | hin
        · exact Or.inl hin
        · simp only [List.mem_singleton] at hin; rw [hid]; exact Or.inr hin
      · intro id hin
        simp only; rw [hr4]
        simp only [akeys, List.map_cons, List.mem_cons]; exact Or.inr hin

/-! ### the splitter walk -/

/-- every splitter key present belongs to a marked name -/
def SInv (marks : List String) (st : St) : Prop := ∀ name, skey name ∈ akeys st.nodes → name ∈ marks

/-- every marked name has its node, or is still under construction (on the recursion stack) -/
def MInv (marks : List String) (st : St) (stack : List String) : Prop :=
  ∀ name ∈ marks, skey name ∈ akeys st.nodes ∨ name ∈ stack

/-- what a call of the splitter walk establishes; `roots` are the keys it hands back -/
structure SOut (marks stack : List String) (st st' : St) (dm roots : List String) : Prop where
  kinv  : KInv st'
  cinv  : CInv st' (stack.map skey)
  pre   : Prefix st st'
  snew  : ∀ n, skey n ∈ akeys st'.nodes → skey n ∈ akeys st.nodes ∨ n ∈ dm
  minv  : MInv (dm ++ marks) st' stack
  fresh : ∀ n ∈ dm, n ∉ marks
  rm    : ∀ id ∈ akeys st.rmemo, id ∈ akeys st'.rmemo
  known : ∀ r ∈ roots, Known st' (stack.map skey) r
  reach : ∀ k ∈ akeys st'.nodes, k ∈ akeys st.nodes ∨ ∃ r ∈ roots, Reach st'.nodes r k

theorem SOut.sinv {marks stack : List String} {st st' : St} {dm roots : List String}
    (o : SOut marks stack st st' dm roots) (hs : SInv marks st) : SInv (dm ++ marks) st' := by
  intro n hn
  rcases o.snew n hn with h | h
  · exact List.mem_append_right _ (hs n h)
  · exact List.mem_append_left _ h

theorem Known.mono {st st' : St} {pend : List String} {k : String} (hp : Prefix st st') (h : Known st pend k) :
    Known st' pend k := by
  rcases h with h | h
  · exact Or.inl (hp.keys k h)
  · exact Or.inr h

/-- nothing happened -/
theorem SOut.refl {marks stack : List String} {st : St} (hk : KInv st) (hc : CInv st (stack.map skey))
    (hm : MInv marks st stack) : SOut marks stack st st [] [] :=
  ⟨hk, hc, Prefix.refl st, fun n h => Or.inl h, (by simpa using hm), fun n h => (nomatch h), fun id h => h,
   fun r h => (nomatch h), fun k h => Or.inl h⟩

/-- a state change that leaves nodes and memo alone -/
theorem SOut.of_eq {marks stack : List String} {st st' : St} (hk : KInv st) (hc : CInv st (stack.map skey))
    (hm : MInv marks st stack) (hn : st'.nodes = st.nodes) (hr : st'.rmemo = st.rmemo) :
    SOut marks stack st st' [] [] :=
  ⟨hk.of_eq hn hr, hc.of_eq hn hr, Prefix.of_eq hn, fun n h => Or.inl (by rw [hn] at h; exact h),
   (by intro n h; simp only [List.nil_append] at h; rw [hn]; exact hm n h),
   fun n h => (nomatch h), fun id h => (by rw [hr]; exact h), fun r h => (nomatch h),
   fun k h => Or.inl (by rw [hn] at h; exact h)⟩

/-- sequential composition -/
theorem SOut.comp {marks stack : List String} {st st1 st2 : St} {dm1 dm2 r1 r2 : List String}
    (o1 : SOut marks stack st st1 dm1 r1) (o2 : SOut (dm1 ++ marks) stack st1 st2 dm2 r2) :
    SOut marks stack st st2 (dm2 ++ dm1) (r1 ++ r2) := by
  refine ⟨o2.kinv, o2.cinv, o1.pre.trans o2.pre, ?_, ?_, ?_, fun id h => o2.rm id (o1.rm id h), ?_, ?_⟩
  · intro n hn
    rcases o2.snew n hn with h | h
    · rcases o1.snew n h with h | h
      · exact Or.inl h
      · exact Or.inr (List.mem_append_right _ h)
    · exact Or.inr (List.mem_append_left _ h)
  · have := o2.minv
    rw [← List.append_assoc] at this; exact this
  · intro n hn
    rcases List.mem_append.mp hn with h | h
    · exact fun hm => o2.fresh n h (List.mem_append_right _ hm)
    · exact o1.fresh n h
  · intro r hr
    rcases List.mem_append.mp hr with h | h
    · exact (o1.known r h).mono o2.pre
    · exact o2.known r h
  · intro k hk
    rcases o2.reach k hk with h | ⟨r, hr, hreach⟩
    · rcases o1.reach k h with h | ⟨r, hr, hreach⟩
      · exact Or.inl h
      · exact Or.inr ⟨r, List.mem_append_left _ hr, o2.pre.reach hreach⟩
    · exact Or.inr ⟨r, List.mem_append_right _ hr, hreach⟩

/-- a resolver leg -/
theorem SOut.of_rout {marks stack : List String} {st st' : St} {id : String}
    (o : ROut st st' (stack.map skey) (rkey id)) (hm : MInv marks st stack) :
    SOut marks stack st st' [] [rkey id] := by
  refine ⟨o.kinv, o.cinv, o.pre, ?_, ?_, fun n h => (nomatch h), o.rm, ?_, ?_⟩
  · intro n hn
    rcases o.newk _ hn with h | h
    · exact Or.inl h
    · exact absurd h.symm (rkey_ne_skey id n)
  · intro n hn
    simp only [List.nil_append] at hn
    rcases hm n hn with h | h
    · exact Or.inl (o.pre.keys _ h)
    · exact Or.inr h
  · intro r hr
    simp only [List.mem_singleton] at hr; subst hr
    exact Or.inl o.has
  · intro k hk
    rcases o.newk k hk with h | h
    · exact Or.inl h
    · subst h; exact Or.inr ⟨_, List.mem_singleton.mpr rfl, Reach.refl _⟩

/-- recording the splitter node once its legs are done -/
theorem SOut.build {marks stack : List String} {st st1 : St} {dm : List String} {cs : List CSplit}
    {lb : Option String} {name : String} (hm : name ∉ marks) (hs : SInv marks st)
    (o : SOut (name :: marks) (name :: stack) st st1 dm (cs.map (·.next))) :
    SOut marks stack st { st1 with nodes := st1.nodes ++ [(skey name, .splitter cs lb)], adv := true }
      (dm ++ [name]) [skey name] := by
  have hnotin : skey name ∉ akeys st1.nodes := by
    intro hin
    rcases o.snew name hin with h | h
    · exact hm (hs name h)
    · exact o.fresh name h List.mem_cons_self
  have hkeys : akeys (st1.nodes ++ [(skey name, Node.splitter cs lb)]) = akeys st1.nodes ++ [skey name] := by
    simp [akeys]
  have hpre : Prefix st1 { st1 with nodes := st1.nodes ++ [(skey name, .splitter cs lb)], adv := true } := ⟨_, rfl⟩
  have hnew : alook (skey name) (st1.nodes ++ [(skey name, Node.splitter cs lb)]) = some (.splitter cs lb) :=
    alook_append_fresh hnotin
  refine ⟨⟨?_, ?_, ?_⟩, ⟨?_, ?_⟩, o.pre.trans hpre, ?_, ?_, ?_, o.rm, ?_, ?_⟩
  · simp only; rw [hkeys]
    exact List.nodup_append.mpr ⟨o.kinv.nodup, by simp, by
      intro a ha b hb; simp only [List.mem_singleton] at hb; subst hb; intro e; subst e; exact hnotin ha⟩
  · intro id hin
    simp only at hin ⊢
    rw [hkeys] at hin
    rcases List.mem_append.mp hin with hin | hin
    · exact o.kinv.rkeys id hin
    · simp only [List.mem_singleton] at hin; exact absurd hin (rkey_ne_skey id name)
  · intro k hin
    simp only at hin
    rw [hkeys] at hin
    rcases List.mem_append.mp hin with hin | hin
    · exact o.kinv.shape k hin
    · simp only [List.mem_singleton] at hin; exact Or.inl ⟨_, hin⟩
  · -- closed w.r.t. the shorter stack: the only key that left the pending set now exists
    intro k n hkn m hmn
    have conv : Known st1 ((name :: stack).map skey) m →
        Known { st1 with nodes := st1.nodes ++ [(skey name, .splitter cs lb)], adv := true } (stack.map skey) m := by
      intro h
      unfold Known at h ⊢
      simp only; rw [hkeys]
      rcases h with h | h
      · exact Or.inl (List.mem_append_left _ h)
      · simp only [List.map_cons, List.mem_cons] at h
        rcases h with h | h
        · exact Or.inl (List.mem_append_right _ (by simp [h]))
        · exact Or.inr h
    simp only at hkn
    rcases List.mem_append.mp hkn with hkn | hkn
    · exact conv (o.cinv.closed k n hkn m hmn)
    · simp only [List.mem_singleton, Prod.mk.injEq] at hkn
      obtain ⟨_, rfl⟩ := hkn
      simp only [Node.next, List.mem_map] at hmn
      obtain ⟨c, hc, rfl⟩ := hmn
      exact conv (o.known c.next (List.mem_map.mpr ⟨c, hc, rfl⟩))
  · intro id hin
    simp only at hin ⊢
    rw [hkeys]; exact List.mem_append_left _ (o.cinv.memo id hin)
  · intro n hn
    simp only at hn
    rw [hkeys] at hn
    rcases List.mem_append.mp hn with h | h
    · rcases o.snew n h with h | h
      · exact Or.inl h
      · exact Or.inr (List.mem_append_left _ h)
    · simp only [List.mem_singleton] at h
      exact Or.inr (List.mem_append_right _ (by simp [skey_inj h]))
  · intro n hn
    simp only; rw [hkeys]
    have hn' : n ∈ dm ++ name :: marks := by
      simp only [List.mem_append, List.mem_cons, List.mem_singleton, List.not_mem_nil, or_false] at hn ⊢
      rcases hn with (h | h) | h
      · exact Or.inl h
      · exact Or.inr (Or.inl h)
      · exact Or.inr (Or.inr h)
    rcases o.minv n hn' with h | h
    · exact Or.inl (List.mem_append_left _ h)
    · rcases List.mem_cons.mp h with rfl | h
      · exact Or.inl (List.mem_append_right _ (by simp))
      · exact Or.inr h
  · intro n hn
    rcases List.mem_append.mp hn with h | h
    · exact fun hmm => o.fresh n h (List.mem_cons_of_mem _ hmm)
    · simp only [List.mem_singleton] at h; subst h; exact hm
  · intro r hr
    simp only [List.mem_singleton] at hr; subst hr
    unfold Known; simp only; rw [hkeys]
    exact Or.inl (List.mem_append_right _ (by simp))
  · intro k hk
    simp only at hk
    rw [hkeys] at hk
    refine Or.elim (List.mem_append.mp hk) (fun h => ?_) (fun h => ?_)
    · rcases o.reach k h with h | ⟨r, hr, hreach⟩
      · exact Or.inl h
      · refine Or.inr ⟨skey name, List.mem_singleton.mpr rfl, ?_⟩
        obtain ⟨c, hc, rfl⟩ := List.mem_map.mp hr
        have e : Edge (st1.nodes ++ [(skey name, Node.splitter cs lb)]) (skey name) c.next :=
          ⟨_, hnew, by simp only [Node.next, List.mem_map]; exact ⟨c, hc, rfl⟩⟩
        exact (Reach.step (Reach.refl _) e).trans (hpre.reach hreach)
    · simp only [List.mem_singleton] at h; subst h
      exact Or.inr ⟨skey name, List.mem_singleton.mpr rfl, Reach.refl _⟩

theorem CInv.weaken {st : St} {pend pend' : List String} (h : CInv st pend) (hp : ∀ k ∈ pend, k ∈ pend') : CInv st pend' :=
  ⟨fun k n hkn m hm => (h.closed k n hkn m hm).elim Or.inl (fun x => Or.inr (hp m x)), h.memo⟩

theorem splitter_closed (es : Entries) (cx : Ctx) :
    (∀ (marks : List String) (st : St) (name : String), ∀ (stack dm : List String) (st' : St) (key : Option String),
        AInv es st → KInv st → CInv st (stack.map skey) → SInv marks st → MInv marks st stack →
        splitterNode es cx marks st name = .ok (dm, st', key) → SOut marks stack st st' dm key.toList) ∧
    (∀ (marks : List String) (st : St) (name : String) (splits : List Split) (lb : Option String),
        ∀ (stack dm : List String) (st' : St) (cs : List CSplit) (lb' : Option String),
        AInv es st → KInv st → CInv st (stack.map skey) → SInv marks st → MInv marks st stack →
        splitLoop es cx marks st name splits lb = .ok (dm, st', cs, lb') →
        SOut marks stack st st' dm (cs.map (·.next))) := by
  apply splitterNode.mutual_induct es cx
    (motive1 := fun marks st name => ∀ (stack dm : List String) (st' : St) (key : Option String),
        AInv es st → KInv st → CInv st (stack.map skey) → SInv marks st → MInv marks st stack →
        splitterNode es cx marks st name = .ok (dm, st', key) → SOut marks stack st st' dm key.toList)
    (motive2 := fun marks st name splits lb => ∀ (stack dm : List String) (st' : St) (cs : List CSplit) (lb' : Option String),
        AInv es st → KInv st → CInv st (stack.map skey) → SInv marks st → MInv marks st stack →
        splitLoop es cx marks st name splits lb = .ok (dm, st', cs, lb') →
        SOut marks stack st st' dm (cs.map (·.next)))
  · intro marks st name hm stack dm st' key hi hk hc hs hmi h
    rw [splitterNode] at h
    simp only [hm, dite_true, Except.ok.injEq, Prod.mk.injEq] at h
    obtain ⟨rfl, rfl, rfl⟩ := h
    have o := SOut.refl (marks := marks) hk hc hmi
    refine { o with known := ?_, reach := fun k h => Or.inl h }
    intro r hr
    simp only [Option.toList, List.mem_singleton] at hr; subst hr
    exact hmi name hm |>.elim Or.inl (fun x => Or.inr (List.mem_map.mpr ⟨name, x, rfl⟩))
  · intro marks st name hm hsn stack dm st' key hi hk hc hs hmi h
    rw [splitterNode] at h
    simp only [hm, dite_false] at h
    split at h
    · simp only [Except.ok.injEq, Prod.mk.injEq] at h
      obtain ⟨rfl, rfl, rfl⟩ := h
      exact SOut.refl hk hc hmi
    · rename_i splits hs'; rw [hsn] at hs'; cases hs'
  · intro marks st name hm splits hsn hd stack dm st' key hi hk hc hs hmi h
    rw [splitterNode] at h
    simp only [hm, dite_false] at h
    split at h
    · rename_i hs'; rw [hsn] at hs'; cases hs'
    · rename_i splits' hs'
      simp only [hd, if_true, Except.ok.injEq, Prod.mk.injEq] at h
      obtain ⟨rfl, rfl, rfl⟩ := h
      exact SOut.of_eq hk hc hmi rfl rfl
  · intro marks st name hm splits hsn hd e he ih stack dm st' key hi hk hc hs hmi h
    rw [splitterNode] at h
    simp only [hm, dite_false] at h
    split at h
    · rename_i hs'; rw [hsn] at hs'; cases hs'
    · rename_i splits' hs'
      rw [hsn] at hs'; cases hs'
      simp only [hd, he] at h
      cases h
  · intro marks st name hm splits hsn hd dm1 st1 cs lb he ih stack dm st' key hi hk hc hs hmi h
    rw [splitterNode] at h
    simp only [hm, dite_false] at h
    split at h
    · rename_i hs'; rw [hsn] at hs'; cases hs'
    · rename_i splits' hs'
      rw [hsn] at hs'; cases hs'
      simp only [hd, he, Except.ok.injEq, Prod.mk.injEq] at h
      obtain ⟨rfl, rfl, rfl⟩ := h
      have o := ih (name :: stack) dm1 st1 cs lb hi hk
        (hc.weaken (fun k hk' => by simp only [List.map_cons, List.mem_cons]; exact Or.inr hk'))
        (fun n hn => List.mem_cons_of_mem _ (hs n hn))
        (by
          intro n hn
          rcases List.mem_cons.mp hn with rfl | hn
          · exact Or.inr List.mem_cons_self
          · exact (hmi n hn).elim Or.inl (fun x => Or.inr (List.mem_cons_of_mem _ x)))
        he
      exact SOut.build hm hs o
  · intro marks st name lb stack dm st' cs lb' hi hk hc hs hmi h
    rw [splitLoop] at h
    simp only [Except.ok.injEq, Prod.mk.injEq] at h
    obtain ⟨rfl, rfl, rfl, _⟩ := h
    exact SOut.refl hk hc hmi
  all_goals
    intro marks st name lb s rest svc
  · intro e hcall ih1 stack dm st' cs lb' hi hk hc hs hmi h
    rw [splitLoop.eq_def] at h
    simp only [dite_eq_ite, svc] at hcall
    simp only [hcall] at h
    cases h
  · intro dm1 st1 key hcall e hr ih1 ih2 stack dm st' cs lb' hi hk hc hs hmi h
    rw [splitLoop.eq_def] at h
    simp only [dite_eq_ite, svc] at hcall
    simp only [hcall, hr] at h
    cases h
  · intro dm1 st1 key hcall dm2 st2 cs2 lb2 hr ih1 ih2 stack dm st' cs lb' hi hk hc hs hmi h
    rw [splitLoop.eq_def] at h
    simp only [dite_eq_ite, svc] at hcall
    simp only [hcall, hr, Except.ok.injEq, Prod.mk.injEq] at h
    obtain ⟨rfl, rfl, rfl, _⟩ := h
    have o1 : SOut marks stack st st1 dm1 [key] ∧ AInv es st1 := by
      split at hcall
      · exact ⟨ih1 stack dm1 st1 (some key) hi hk hc hs hmi hcall, ((splitter_spec es cx).1 _ _ _ _ _ _ hi hcall).1⟩
      · cases hcall
    have o2 := ih2 stack dm2 _ cs2 lb2 o1.2 o1.1.kinv o1.1.cinv (o1.1.sinv hs) o1.1.minv hr
    have := o1.1.comp o2
    simpa using this
  · intro dm1 st1 hcall nt e hr ih1 stack dm st' cs lb' hi hk hc hs hmi h
    rw [splitLoop.eq_def] at h
    simp only [dite_eq_ite, svc] at hcall
    simp only [nt, svc] at hr
    simp only [hcall, hr] at h
    cases h
  · intro dm1 st1 hcall nt st2 rn hr lb1 e hr2 ih1 ih2 stack dm st' cs lb' hi hk hc hs hmi h
    rw [splitLoop.eq_def] at h
    simp only [dite_eq_ite, svc] at hcall
    simp only [nt, svc] at hr
    simp only [lb1, dite_eq_ite] at hr2
    simp only [hcall, hr, hr2] at h
    cases h
  · intro dm1 st1 hcall nt st2 rn hr lb1 dm2 st3 cs2 lb2 hr2 ih1 ih2 stack dm st' cs lb' hi hk hc hs hmi h
    rw [splitLoop.eq_def] at h
    simp only [dite_eq_ite, svc] at hcall
    simp only [nt, svc] at hr
    simp only [lb1, dite_eq_ite] at hr2
    simp only [hcall, hr, hr2, Except.ok.injEq, Prod.mk.injEq] at h
    obtain ⟨rfl, rfl, rfl, _⟩ := h
    have o1 : SOut marks stack st st1 dm1 [] ∧ AInv es st1 := by
      split at hcall
      · exact ⟨ih1 stack dm1 st1 none hi hk hc hs hmi hcall, ((splitter_spec es cx).1 _ _ _ _ _ _ hi hcall).1⟩
      · simp only [Except.ok.injEq, Prod.mk.injEq] at hcall
        obtain ⟨rfl, rfl, _⟩ := hcall
        exact ⟨SOut.refl hk hc hmi, hi⟩
    have sN := newTarget_same cx st1 { svc := dflt s.svc name, subset := s.subset, ns := "default", part := "default" }
    have oN : SOut (dm1 ++ marks) stack st1 _ [] [] := SOut.of_eq o1.1.kinv o1.1.cinv o1.1.minv sN.nodes sN.rmemo
    have iN := o1.2.of_same sN
    have oR := SOut.of_rout (marks := dm1 ++ marks) (resolverNode_closed cx _ rn iN oN.kinv oN.cinv hr) oN.minv
    have iR := (resolverNode_spec es cx _ st2 _ rn iN hr).1
    have o2 := ih2 stack dm2 _ cs2 lb2 iR oR.kinv oR.cinv (oR.sinv (oN.sinv (o1.1.sinv hs))) oR.minv hr2
    have := o1.1.comp (oN.comp (oR.comp o2))
    simpa using this

theorem splitterOrResolver_closed (es : Entries) (cx : Ctx) (marks stack : List String) (st st' : St) (t : Target)
    (dm : List String) (key : String) (hi : AInv es st) (hk : KInv st) (hc : CInv st (stack.map skey))
    (hs : SInv marks st) (hmi : MInv marks st stack)
    (h : splitterOrResolver es cx marks st t = .ok (dm, st', key)) : SOut marks stack st st' dm [key] := by
  unfold splitterOrResolver at h
  split at h
  · cases h
  · rename_i dm1 st1 k hsn
    cases h
    exact (splitter_closed es cx).1 marks st t.svc stack _ _ _ hi hk hc hs hmi hsn
  · rename_i dm1 st1 hsn
    have o1 := (splitter_closed es cx).1 marks st t.svc stack _ _ _ hi hk hc hs hmi hsn
    have i1 := ((splitter_spec es cx).1 marks st t.svc _ _ _ hi hsn).1
    split at h
    · cases h
    · rename_i st2 rn hr
      cases h
      have oR := SOut.of_rout (resolverNode_closed cx _ rn i1 o1.kinv o1.cinv hr) o1.minv
      have := o1.comp oR
      simpa using this

theorem routeLoop_closed (es : Entries) (cx : Ctx) (marks : List String) (st st' : St) (routes : List Route)
    (dm : List String) (rs : List (String × String)) (hi : AInv es st) (hk : KInv st) (hc : CInv st ([].map skey))
    (hs : SInv marks st) (hmi : MInv marks st [])
    (h : routeLoop es cx marks st routes = .ok (dm, st', rs)) : SOut marks [] st st' dm (rs.map (·.2)) := by
  induction routes generalizing marks st dm rs with
  | nil =>
    simp only [routeLoop, Except.ok.injEq, Prod.mk.injEq] at h
    obtain ⟨rfl, rfl, rfl⟩ := h
    exact SOut.refl hk hc hmi
  | cons rt rest ih =>
    rw [routeLoop] at h
    have sN := newTarget_same cx st ⟨dflt rt.dest.svc cx.svc, rt.dest.subset, dflt rt.dest.ns "default", dflt rt.dest.part "default", "", ""⟩
    have iN := hi.of_same sN
    have oN : SOut marks [] st _ [] [] := SOut.of_eq hk hc hmi sN.nodes sN.rmemo
    split at h
    · cases h
    · rename_i dm1 st1 key hr
      have o1 : SOut marks [] (newTarget cx st ⟨dflt rt.dest.svc cx.svc, rt.dest.subset, dflt rt.dest.ns "default", dflt rt.dest.part "default", "", ""⟩).1 st1 dm1 [key] ∧ AInv es st1 := by
        split at hr
        · exact ⟨splitterOrResolver_closed es cx marks [] _ _ _ _ _ iN oN.kinv oN.cinv (oN.sinv hs) oN.minv hr,
            splitterOrResolver_spec es cx _ _ _ _ _ _ iN hr⟩
        · split at hr
          · cases hr
          · rename_i st2 rn hrn
            have oR := SOut.of_rout (resolverNode_closed cx _ rn iN oN.kinv oN.cinv hrn) oN.minv
            have iR := (resolverNode_spec es cx _ _ _ rn iN hrn).1
            simp only [Except.ok.injEq, Prod.mk.injEq] at hr
            obtain ⟨rfl, rfl, rfl⟩ := hr
            exact ⟨oR, iR⟩
      split at h
      · cases h
      · rename_i dm2 st2 rs2 hl
        cases h
        have o2 := ih (dm1 ++ marks) st1 dm2 rs2 o1.2 o1.1.kinv o1.1.cinv (o1.1.sinv (oN.sinv hs)) o1.1.minv hl
        have := oN.comp (o1.1.comp o2)
        simpa using this

/-- the assembled graph: unique keys, start node present, closed, everything reachable from the start -/
structure Assembled (st : St) (start : String) : Prop where
  nodup  : (akeys st.nodes).Nodup
  has    : start ∈ akeys st.nodes
  closed : ∀ k n, (k, n) ∈ st.nodes → ∀ m ∈ n.next, m ∈ akeys st.nodes
  reach  : ∀ k ∈ akeys st.nodes, Reach st.nodes start k

theorem SOut.assembled {marks : List String} {st st' : St} {dm : List String} {key : String}
    (o : SOut marks [] st st' dm [key]) (h0 : st.nodes = []) : Assembled st' key := by
  have hkn : ∀ m, Known st' ([].map skey) m → m ∈ akeys st'.nodes := by
    intro m h; rcases h with h | h
    · exact h
    · cases h
  refine ⟨o.kinv.nodup, hkn _ (o.known key (List.mem_singleton.mpr rfl)), fun k n hkn' m hm => hkn m (o.cinv.closed k n hkn' m hm), ?_⟩
  intro k hk
  rcases o.reach k hk with h | ⟨r, hr, hreach⟩
  · rw [h0] at h; cases h
  · simp only [List.mem_singleton] at hr; subst hr; exact hreach

theorem KInv.empty (st : St) (hn : st.nodes = []) : KInv st :=
  ⟨(by rw [hn]; exact List.nodup_nil), fun id h => (by rw [hn] at h; cases h), fun k h => (by rw [hn] at h; cases h)⟩

theorem CInv.empty (st : St) (pend : List String) (hn : st.nodes = []) (hm : st.rmemo = []) : CInv st pend :=
  ⟨fun k n h => (by rw [hn] at h; cases h), fun id h => (by rw [hm] at h; cases h)⟩

theorem assemble_closed (es : Entries) (cx : Ctx) (st : St) (start : String)
    (h : assemble es cx = .ok (st, start)) : Assembled st start := by
  unfold assemble at h
  have noRouter : ∀ (st0 : St), st0.nodes = [] → st0.rmemo = [] → st0.retained = [] →
      ∀ dm st1 key, splitterOrResolver es cx [] (newTarget cx st0 { svc := cx.svc }).1 (newTarget cx st0 { svc := cx.svc }).2 = .ok (dm, st1, key) →
      Assembled st1 key := by
    intro st0 hn hm hr dm st1 key hs
    have sN := newTarget_same cx st0 { svc := cx.svc }
    have i0 : AInv es st0 := AInv.empty st0 hn hm hr
    have hnN : (newTarget cx st0 { svc := cx.svc }).1.nodes = [] := by rw [sN.nodes]; exact hn
    have hmN : (newTarget cx st0 { svc := cx.svc }).1.rmemo = [] := by rw [sN.rmemo]; exact hm
    have o := splitterOrResolver_closed es cx [] [] _ st1 _ dm key (i0.of_same sN) (KInv.empty _ hnN)
      (CInv.empty _ _ hnN hmN) (fun n hn' => by rw [hnN] at hn'; cases hn') (fun n hn' => nomatch hn') hs
    exact o.assembled hnN
  split at h
  · rename_i routes hrt
    split at h
    · simp only at h
      split at h
      · cases h
      · rename_i dm st1 key hs
        cases h
        exact noRouter _ rfl rfl rfl dm _ _ hs
    · split at h
      · cases h
      · rename_i p hp
        split at h
        · cases h
        · rename_i dm st1 rs hl
          have i0 : AInv es { adv := true, proto := p } := AInv.empty _ rfl rfl rfl
          have o1 := routeLoop_closed es cx [] _ st1 routes dm rs i0 (KInv.empty _ rfl) (CInv.empty _ _ rfl rfl)
            (fun n hn' => nomatch hn') (fun n hn' => nomatch hn') hl
          have i1 := routeLoop_spec es cx [] _ st1 routes dm rs i0 hl
          simp only at h
          split at h
          · cases h
          · rename_i dm2 st2 key hs
            cases h
            have sN := newTarget_same cx st1 { svc := cx.svc, ns := "default", part := "default" }
            have oN : SOut (dm ++ []) [] st1 _ [] [] := SOut.of_eq o1.kinv o1.cinv o1.minv sN.nodes sN.rmemo
            have o2 := splitterOrResolver_closed es cx dm [] _ st2 _ dm2 key (i1.of_same sN) oN.kinv oN.cinv
              (by have := oN.sinv (o1.sinv (fun n hn' => nomatch hn')); simpa using this)
              (by have := oN.minv; simpa using this) hs
            have o : SOut [] [] _ st2 _ (rs.map (·.2) ++ ([] ++ [key])) := o1.comp (oN.comp (by simpa using o2))
            -- add the router node
            have hkn : ∀ m, Known st2 ([].map skey) m → m ∈ akeys st2.nodes := by
              intro m h; rcases h with h | h
              · exact h
              · cases h
            have hnotin : rtkey cx.svc ∉ akeys st2.nodes := by
              intro hin
              rcases o.kinv.shape _ hin with ⟨n, e⟩ | ⟨n, e⟩
              · exact rtkey_ne_skey _ _ e
              · exact rtkey_ne_rkey _ _ e
            have hkeys : akeys (st2.nodes ++ [(rtkey cx.svc, Node.router (rs ++ [("/", key)]))]) = akeys st2.nodes ++ [rtkey cx.svc] := by
              simp [akeys]
            have hnew := alook_append_fresh (v := Node.router (rs ++ [("/", key)])) hnotin
            have hpre : Prefix st2 { st2 with nodes := st2.nodes ++ [(rtkey cx.svc, Node.router (rs ++ [("/", key)]))] } := ⟨_, rfl⟩
            have hroots : ∀ r ∈ rs.map (·.2) ++ ([] ++ [key]), r ∈ (Node.router (rs ++ [("/", key)])).next := by
              intro r hr; simpa [Node.next] using hr
            refine ⟨?_, ?_, ?_, ?_⟩
            · simp only; rw [hkeys]
              exact List.nodup_append.mpr ⟨o.kinv.nodup, by simp, by
                intro a ha b hb; simp only [List.mem_singleton] at hb; subst hb; intro e; subst e; exact hnotin ha⟩
            · simp only; rw [hkeys]; exact List.mem_append_right _ (by simp)
            · intro k n hkn' m hm
              simp only at hkn' ⊢
              rw [hkeys]
              rcases List.mem_append.mp hkn' with hkn' | hkn'
              · exact List.mem_append_left _ (hkn m (o.cinv.closed k n hkn' m hm))
              · simp only [List.mem_singleton, Prod.mk.injEq] at hkn'
                obtain ⟨_, rfl⟩ := hkn'
                have : m ∈ rs.map (·.2) ++ ([] ++ [key]) := by simpa [Node.next] using hm
                exact List.mem_append_left _ (hkn m (o.known m this))
            · intro k hk'
              simp only at hk' ⊢
              rw [hkeys] at hk'
              rcases List.mem_append.mp hk' with hk' | hk'
              · rcases o.reach k hk' with h0 | ⟨r, hr, hreach⟩
                · cases h0
                · have e : Edge (st2.nodes ++ [(rtkey cx.svc, Node.router (rs ++ [("/", key)]))]) (rtkey cx.svc) r :=
                    ⟨_, hnew, hroots r hr⟩
                  exact (Reach.step (Reach.refl _) e).trans (hpre.reach hreach)
              · simp only [List.mem_singleton] at hk'; subst hk'; exact Reach.refl _
  · simp only at h
    split at h
    · cases h
    · rename_i dm st1 key hs
      cases h
      exact noRouter _ rfl rfl rfl dm _ _ hs

end CV.Chain
