/-
Helper lemmas for C11, catalog side: pointwise characterisation of service queries and of
`applyEvs`, used to show that service registrations / deregistrations are `Faithful`.
-/
import CV.Proofs.StreamFaithful
namespace CV.Stream

/-- the last event of a list that concerns id `i` -/
def lastFor (i : Id) : List Ev → Option Ev
  | [] => none
  | e :: r =>
    match lastFor i r with
    | some x => some x
    | none => if e.id = i then some e else none

def effect (o : Option Ev) (dflt : Option Val) : Option Val :=
  match o with
  | some e => if e.del then none else some e.val
  | none => dflt

theorem lookup?_applyEvs (i : Id) (v : View) (es : List Ev) :
    lookup? i (applyEvs v es) = effect (lastFor i es) (lookup? i v) := by
  induction es generalizing v with
  | nil => rfl
  | cons e r ih =>
    rw [applyEvs_cons, ih, lastFor]
    cases hl : lastFor i r with
    | some x => rfl
    | none =>
      simp only [effect, lookup?_applyEv]
      by_cases h : e.id = i
      · simp [h]
      · have : ¬ i = e.id := fun e' => h e'.symm
        simp [h, this]

theorem lastFor_append (i : Id) (a b : List Ev) :
    lastFor i (a ++ b) = match lastFor i b with
      | some x => some x
      | none => lastFor i a := by
  induction a with
  | nil => simp [lastFor]; cases lastFor i b <;> rfl
  | cons e r ih =>
    rw [List.cons_append, lastFor, ih]
    cases hb : lastFor i b with
    | some x => rfl
    | none => simp [lastFor]

theorem lastFor_none_of_forall {i : Id} {l : List Ev} (h : ∀ e ∈ l, e.id ≠ i) : lastFor i l = none := by
  induction l with
  | nil => rfl
  | cons e r ih =>
    rw [lastFor, ih (fun x hx => h x (List.mem_cons_of_mem _ hx))]
    simp [h e List.mem_cons_self]

theorem evsFor_append (k : Key) (a b : List Ev) : evsFor k (a ++ b) = evsFor k a ++ evsFor k b := by
  simp [evsFor]

/-- service queries, pointwise: the instance with that id, if it belongs to the query -/
theorem lookup?_svc_list (c : Cat) (p : Svc → Bool) (i : Id) (l : List Svc) (hn : (l.map Svc.key).Nodup) :
    lookup? i ((l.filter p).map (render c)) =
      ((l.find? (fun s => s.node = i.1 ∧ s.sid = i.2)).filter p).map (fun s => (render c s).2) := by
  induction l with
  | nil => rfl
  | cons a r ih =>
    rw [List.map_cons, List.nodup_cons] at hn
    by_cases hk : a.node = i.1 ∧ a.sid = i.2
    · have hki : a.key = i := by obtain ⟨i1, i2⟩ := i; simp only [Svc.key]; rw [hk.1, hk.2]
      simp only [List.find?_cons, hk, and_self, decide_true]
      by_cases hp : p a = true
      · simp [List.filter_cons, hp, render, hki, Option.filter]
      · have hp' : p a = false := by simpa using hp
        simp only [List.filter_cons, hp', Bool.false_eq_true, ↓reduceIte, Option.filter]
        have : i ∉ ((r.filter p).map (render c)).map (·.1) := by
          intro hm
          rw [List.map_map] at hm
          obtain ⟨s, hs, hsk⟩ := List.mem_map.mp hm
          apply hn.1
          rw [hki]
          exact List.mem_map.mpr ⟨s, (List.mem_filter.mp hs).1, hsk⟩
        rw [lookup?_none_of_not_mem this]
        rfl
    · have hki : ¬ a.key = i := by
        intro e; apply hk; rw [← e]; exact ⟨rfl, rfl⟩
      have hd : decide (a.node = i.1 ∧ a.sid = i.2) = false := by simpa using hk
      simp only [List.find?_cons, hd]
      by_cases hp : p a = true
      · simp only [List.filter_cons, hp, ↓reduceIte, List.map_cons, render, lookup?_cons, hki]
        exact ih hn.2
      · have hp' : p a = false := by simpa using hp
        simp only [List.filter_cons, hp', Bool.false_eq_true, ↓reduceIte]
        exact ih hn.2

theorem query_svc (k : Key) (hk : k.topic ≠ .cfg) (c : Cat) :
    query k c = (c.svcs.filter (belongs k)).map (render c) := by
  obtain ⟨t, sj⟩ := k
  cases t <;> cases sj <;> simp_all [query]

theorem lookup?_query_svc (k : Key) (hk : k.topic ≠ .cfg) {c : Cat} (h : WF c) (i : Id) :
    lookup? i (query k c) =
      ((findSvc c i.1 i.2).filter (belongs k)).map (fun s => (render c s).2) := by
  rw [query_svc k hk, lookup?_svc_list c _ i _ h.svcs]
  rfl

/-! ### reduction of `Faithful` to a pointwise statement for writes that only touch services -/

def val (c : Cat) (s : Svc) : Val := (render c s).2

/-- expected entry of id `i` in query `k` -/
def cell (k : Key) (c : Cat) (i : Id) : Option Val :=
  ((findSvc c i.1 i.2).filter (belongs k)).map (val c)

theorem evsFor_svc (k : Key) (evs : List Ev) (h : ∀ e ∈ evs, e.key.topic ≠ .cfg) :
    evsFor k evs = evs.filter (fun e => e.key = k) := by
  unfold evsFor
  apply List.filter_congr
  intro e he
  have : wildOf e.key = none := by
    have := h e he
    unfold wildOf
    cases ht : e.key.topic <;> simp_all
  simp [this]

theorem faithful_of_cells {c : Cat} {idx : Nat} {w : Write} (h : WF c)
    (hcfg : (applyWrite idx c w).1.cfgs = c.cfgs)
    (hkeys : ∀ e ∈ (applyWrite idx c w).2.1, e.key.topic ≠ .cfg)
    (hcell : ∀ k, k.topic ≠ .cfg → ∀ i,
      cell k (applyWrite idx c w).1 i =
        effect (lastFor i ((applyWrite idx c w).2.1.filter (fun e => e.key = k))) (cell k c i)) :
    Faithful c idx w := by
  intro k i
  by_cases hk : k.topic = .cfg
  · -- config queries are untouched and receive no events
    have he : evsFor k (applyWrite idx c w).2.1 = [] := by
      rw [evsFor_svc k _ hkeys, List.filter_eq_nil_iff]
      intro e he hek
      simp only [decide_eq_true_eq] at hek
      exact hkeys e he (hek ▸ hk)
    rw [he, applyEvs_nil]
    obtain ⟨t, sj⟩ := k
    simp only at hk
    subst hk
    cases sj <;> simp [query, hcfg]
  · rw [lookup?_applyEvs, evsFor_svc k _ hkeys, lookup?_query_svc k hk (applyWrite_wf idx w h),
      lookup?_query_svc k hk h]
    exact hcell k hk i

/-- the Connect subject an instance is listed under -/
def connSubj (s : Svc) : Option String :=
  match s.kind with
  | .native => some s.name
  | .proxy d => some d
  | .typical => none

theorem belongs_iff (k : Key) (hk : k.topic ≠ .cfg) (s : Svc) :
    belongs k s = true ↔ (k = hkey s.name ∨ ∃ n, connSubj s = some n ∧ k = ckey n) := by
  obtain ⟨t, sj⟩ := k
  cases t with
  | cfg => exact absurd rfl hk
  | health =>
    cases sj with
    | wild => simp [belongs, hkey, ckey]
    | named n =>
      simp only [belongs, decide_eq_true_eq, hkey, ckey, Key.mk.injEq, Subj.named.injEq, true_and, reduceCtorEq, false_and,
        and_false, exists_false, or_false]
      exact ⟨fun h => h.symm, fun h => h.symm⟩
  | connect =>
    cases sj with
    | wild => simp [belongs, hkey, ckey]
    | named n =>
      simp only [belongs, hkey, ckey, Key.mk.injEq, reduceCtorEq, false_and, Subj.named.injEq, true_and, false_or, connSubj]
      cases s.kind <;> simp [eq_comm]

/-- the events published for one health event `e` of instance `s`: itself plus its Connect copy -/
theorem connectCopy_of (c : Cat) (s : Svc) (del : Bool) :
    connectCopy ⟨hkey s.name, del, s.key, val c s⟩ =
      match connSubj s with
      | some n => [⟨ckey n, del, s.key, val c s⟩]
      | none => [] := by
  unfold connectCopy connSubj
  simp only [hkey, val, render]
  cases s.kind <;> rfl

/-! ### deregistration of one instance -/

theorem findSvc_some {c : Cat} {node sid : String} {s : Svc} (h : findSvc c node sid = some s) :
    s ∈ c.svcs ∧ s.node = node ∧ s.sid = sid := by
  unfold findSvc at h
  have := List.find?_some h
  simp only [decide_eq_true_eq] at this
  exact ⟨List.mem_of_find?_eq_some h, this.1, this.2⟩

theorem find?_filter_ne (l : List Svc) (s : Svc) (i : Id) :
    (l.filter (fun t => ¬ (t.node = s.node ∧ t.sid = s.sid))).find? (fun t => t.node = i.1 ∧ t.sid = i.2) =
      if i = s.key then none else l.find? (fun t => t.node = i.1 ∧ t.sid = i.2) := by
  induction l with
  | nil => simp
  | cons a r ih =>
    by_cases ha : a.node = s.node ∧ a.sid = s.sid
    · have hf : (List.filter (fun t => decide ¬(t.node = s.node ∧ t.sid = s.sid)) (a :: r)) =
          List.filter (fun t => decide ¬(t.node = s.node ∧ t.sid = s.sid)) r := by
        simp [List.filter_cons, ha]
      rw [hf, ih]
      by_cases hi : i = s.key
      · simp [hi]
      · have hd : decide (a.node = i.1 ∧ a.sid = i.2) = false := by
          rw [decide_eq_false_iff_not]
          intro e; apply hi
          obtain ⟨i1, i2⟩ := i
          simp only [Svc.key, Prod.mk.injEq]
          exact ⟨e.1.symm.trans ha.1, e.2.symm.trans ha.2⟩
        rw [List.find?_cons, hd]
    · have hf : (List.filter (fun t => decide ¬(t.node = s.node ∧ t.sid = s.sid)) (a :: r)) =
          a :: List.filter (fun t => decide ¬(t.node = s.node ∧ t.sid = s.sid)) r := by
        simp [List.filter_cons, ha]
      rw [hf, List.find?_cons, List.find?_cons, ih]
      by_cases hai : a.node = i.1 ∧ a.sid = i.2
      · have : ¬ i = s.key := by
          intro e; apply ha
          rw [e] at hai
          exact hai
        simp [hai, this]
      · have hd : decide (a.node = i.1 ∧ a.sid = i.2) = false := by
          rw [decide_eq_false_iff_not]; exact hai
        rw [hd]

theorem findSvc_dropSvc (idx : Nat) (c : Cat) (s : Svc) (i : Id) :
    findSvc (dropSvc idx c s) i.1 i.2 = if i = s.key then none else findSvc c i.1 i.2 := by
  unfold findSvc
  rw [dropSvc_svcs]
  exact find?_filter_ne c.svcs s i

theorem dropSvc_nodes (idx : Nat) (c : Cat) (s : Svc) : (dropSvc idx c s).nodes = c.nodes := by
  simp only [dropSvc]; split <;> rfl

theorem val_congr {c c' : Cat} (h : c'.nodes = c.nodes) (s : Svc) : val c' s = val c s := by
  simp [val, render, nodeAddr, h]

theorem cell_dropSvc (k : Key) (idx : Nat) (c : Cat) (s : Svc) (i : Id) :
    cell k (dropSvc idx c s) i = if i = s.key then none else cell k c i := by
  unfold cell
  rw [findSvc_dropSvc]
  by_cases hi : i = s.key
  · simp [hi]
  · simp only [hi, ↓reduceIte]
    congr 1
    funext t
    exact val_congr (dropSvc_nodes idx c s) t

theorem cell_self_of_find {k : Key} {c : Cat} {s : Svc} (h : findSvc c s.node s.sid = some s) :
    cell k c s.key = if belongs k s then some (val c s) else none := by
  unfold cell
  simp only [Svc.key, h, Option.filter]
  split <;> rfl

theorem faithful_dereg_svc {c : Cat} (h : WF c) (idx : Nat) (node sid : String) :
    Faithful c idx (.dereg node (some sid)) := by
  cases hf : findSvc c node sid with
  | none =>
    intro k
    simp only [applyWrite, hf]
    exact ViewEq.refl _
  | some s =>
    obtain ⟨hs, hn, hsid⟩ := findSvc_some hf
    have hf' : findSvc c s.node s.sid = some s := by rw [hn, hsid]; exact hf
    have hev : (applyWrite idx c (.dereg node (some sid))).2.1 =
        (⟨hkey s.name, true, s.key, val c s⟩ : Ev) :: connectCopy ⟨hkey s.name, true, s.key, val c s⟩ := by
      simp [applyWrite, hf, deregEv, val]
    have hc' : (applyWrite idx c (.dereg node (some sid))).1 = dropSvc idx c s := by
      simp [applyWrite, hf]
    apply faithful_of_cells h
    · rw [hc', dropSvc_cfgs]
    · rw [hev, connectCopy_of]
      intro e he
      cases hcs : connSubj s with
      | none => simp [hcs] at he; subst he; simp [hkey]
      | some n =>
        simp only [hcs, List.mem_cons, List.not_mem_nil, or_false] at he
        rcases he with rfl | rfl <;> simp [hkey, ckey]
    · intro k hk i
      rw [hc', hev, connectCopy_of, cell_dropSvc]
      by_cases hi : i = s.key
      · subst hi
        simp only [↓reduceIte]
        rw [cell_self_of_find (k := k) hf']
        have hb := belongs_iff k hk s
        cases hcs : connSubj s with
        | none =>
          rw [hcs] at hb
          by_cases hkk : k = hkey s.name
          · simp [hkk, lastFor, effect]
          · have : ¬ hkey s.name = k := fun e => hkk e.symm
            have hbf : belongs k s = false := by
              cases hbb : belongs k s
              · rfl
              · rcases hb.mp hbb with e | ⟨n, hn, -⟩
                · exact absurd e hkk
                · cases hn
            simp [this, lastFor, effect, hbf]
        | some n =>
          rw [hcs] at hb
          by_cases hk1 : k = hkey s.name
          · simp [hk1, lastFor, effect, hkey, ckey]
          · by_cases hk2 : k = ckey n
            · simp [hk2, lastFor, effect, hkey, ckey]
            · have a1 : ¬ hkey s.name = k := fun e => hk1 e.symm
              have a2 : ¬ ckey n = k := fun e => hk2 e.symm
              have hbf : belongs k s = false := by
                cases hbb : belongs k s
                · rfl
                · rcases hb.mp hbb with e | ⟨n', hn', e⟩
                  · exact absurd e hk1
                  · cases hn'; exact absurd e hk2
              simp [a1, a2, lastFor, effect, hbf]
      · simp only [hi, ↓reduceIte]
        have hnone : lastFor i (List.filter (fun e => decide (e.key = k))
            ((⟨hkey s.name, true, s.key, val c s⟩ : Ev) ::
              match connSubj s with
              | some n => [⟨ckey n, true, s.key, val c s⟩]
              | none => [])) = none := by
          apply lastFor_none_of_forall
          intro e he
          have he' := (List.mem_filter.mp he).1
          cases hcs : connSubj s with
          | none => simp [hcs] at he'; subst he'; exact fun e => hi e.symm
          | some n =>
            simp only [hcs, List.mem_cons, List.not_mem_nil, or_false] at he'
            rcases he' with rfl | rfl <;> exact fun e => hi e.symm
        rw [hnone]
        rfl

/-! ### three ways to evaluate the effect of an event list on one cell -/

def effK (k : Key) (i : Id) (l : List Ev) (d : Option Val) : Option Val :=
  effect (lastFor i (l.filter (fun e => e.key = k))) d

/-- no event for this cell: the entry is unchanged -/
theorem effK_none {k : Key} {i : Id} {l : List Ev} {d : Option Val}
    (h : ∀ x ∈ l, ¬ (x.key = k ∧ x.id = i)) : effK k i l d = d := by
  unfold effK
  rw [lastFor_none_of_forall]
  · rfl
  · intro e he hid
    have := List.mem_filter.mp he
    exact h e this.1 ⟨by simpa using this.2, hid⟩

/-- the last event for this cell decides -/
theorem effK_last {k : Key} {i : Id} {a b : List Ev} {e : Ev} {d : Option Val}
    (hk : e.key = k) (hi : e.id = i) (hb : ∀ x ∈ b, ¬ (x.key = k ∧ x.id = i)) :
    effK k i (a ++ e :: b) d = if e.del then none else some e.val := by
  unfold effK
  rw [List.filter_append, lastFor_append, List.filter_cons]
  simp only [hk, decide_true, ↓reduceIte]
  have : lastFor i (List.filter (fun e => decide (e.key = k)) b) = none := by
    apply lastFor_none_of_forall
    intro x hx hid
    have := List.mem_filter.mp hx
    exact hb x this.1 ⟨by simpa using this.2, hid⟩
  simp [lastFor, this, hi, effect]

/-- only deletions for this cell, and either one exists or the entry was absent: absent -/
theorem effK_deleted {k : Key} {i : Id} {l : List Ev} {d : Option Val}
    (hdel : ∀ x ∈ l, x.key = k → x.id = i → x.del = true)
    (hex : d = none ∨ ∃ x ∈ l, x.key = k ∧ x.id = i) : effK k i l d = none := by
  unfold effK
  cases hl : lastFor i (l.filter fun e => e.key = k) with
  | some e =>
    -- the found event is one of the list with that key and id
    have hmem : ∀ (l' : List Ev) (e : Ev), lastFor i l' = some e → e ∈ l' ∧ e.id = i := by
      intro l'
      induction l' with
      | nil => intro e h; simp [lastFor] at h
      | cons a r ih =>
        intro e h
        rw [lastFor] at h
        cases hr : lastFor i r with
        | some x =>
          rw [hr] at h
          simp only [Option.some.injEq] at h
          subst h
          exact ⟨List.mem_cons_of_mem _ (ih x hr).1, (ih x hr).2⟩
        | none =>
          rw [hr] at h
          by_cases ha : a.id = i
          · simp only [ha, ↓reduceIte, Option.some.injEq] at h
            subst h
            exact ⟨List.mem_cons_self, ha⟩
          · simp [ha] at h
    obtain ⟨hm, hid⟩ := hmem _ e hl
    have hm' := List.mem_filter.mp hm
    have := hdel e hm'.1 (by simpa using hm'.2) hid
    simp [effect, this]
  | none =>
    simp only [effect]
    rcases hex with h | ⟨x, hx, hxk, hxi⟩
    · exact h
    · -- impossible: an event for the cell exists but none was found
      exfalso
      have hall : ∀ (l' : List Ev), lastFor i l' = none → ∀ x ∈ l', x.id ≠ i := by
        intro l'
        induction l' with
        | nil => intro _ x hx; cases hx
        | cons a r ih =>
          intro h x hx
          rw [lastFor] at h
          cases hr : lastFor i r with
          | some y => rw [hr] at h; cases h
          | none =>
            rw [hr] at h
            rcases List.mem_cons.mp hx with rfl | hx
            · intro e; simp [e] at h
            · exact ih hr x hx
      exact hall _ hl x (List.mem_filter.mpr ⟨hx, by simpa using hxk⟩) hxi

end CV.Stream
