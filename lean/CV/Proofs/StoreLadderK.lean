/-
C02 round 4: the ladder of CV.Proofs.StoreLadder with three context facts added to its primitive obligations
(everything else is the same walk over the same model functions; `Guard`, `SvcKeep`, `Cmd.ok` are reused):

* `kvInsert` additionally knows `e.key ≠ []` (kvsSetTxn refuses the empty key before it writes);
* `nodeInsert` additionally knows that the written row has a non-zero CreateIndex and that every *other* stored
  node with the same (non-empty) node ID has the same lower-cased name, i.e. is the row being replaced
  (ensureNodeTxn renames by ID by deleting the old row first); in exchange the predicate has to imply
  "CreateIndex ≠ 0" and "node IDs are unique" for the stored rows (`nodeCreate`, `nodeIds`);
* `insertSession` additionally knows a fact `F s id` about the state the *command* started in (sessionCreate
  inserts exactly once, into the start state) — used for "the session ID is not live";
* the three writes of `sessionDeleteWithSession` (row delete, lock invalidation, link / query delete) are one
  primitive (`sessionDrop`), because "session_checks = the links of the live sessions" does not hold between them.

`PrimClosed.toK` turns an instance of the old ladder into one of this ladder, `PrimClosedK.and` conjoins.
-/
import CV.Proofs.StoreLadder
namespace CV.Store
open CV

/-- `P` is closed under every primitive write of a command running at index `idx` (with the extra context) -/
structure PrimClosedK (idx : Nat) (G : Guard) (F : State → String → Prop) (P : State → Prop) : Prop where
  idxPos : idx ≠ 0
  kvInsert : ∀ (s : State) (e : KV), e.modify = idx → e.key ≠ [] → P s → P (kvInsert s e)
  kvDelete : ∀ (s s' : State) (k : Key), kvDeleteTxn s idx k = .ok s' → P s → P s'
  kvDeleteTree : ∀ (s : State) (p : Key), G.T p → P s → P (kvDeleteTreeTxn s idx p)
  sessionDrop : ∀ (s : State) (id : String) (sess : Sess), sessFind s id = some sess → P s →
    P (dropSessionRefs (invalidateKeys { s with sessions := terase Sess.pk (lc id) s.sessions, index := idxSet s.index "sessions" idx } idx sess) idx id)
  checkPrep : ∀ (s s1 : State) (p : Bool) (hc hc1 : Chk) (md : Bool),
    checkPrep s idx p hc = .ok (s1, hc1, md) → G.Cp hc.node hc.id hc.svcId → P s → P s1
  checkFinish : ∀ (sA s1 s : State) (p : Bool) (hc hc1 : Chk) (md : Bool),
    Store.checkPrep sA idx p hc = .ok (s1, hc1, md) → G.Cp hc.node hc.id hc.svcId → CasRel s1 s → SvcKeep idx s1 s →
    P sA → P s → P (checkFinish s idx p hc1 md)
  chkRows : ∀ (s : State), P s → ∀ c ∈ s.chks, G.Cp c.node c.id c.svcId
  insertSession : ∀ (s : State) (x : Sess), F s x.id → P s → P (insertSession s x idx)
  pqSet : ∀ (s s' : State) (id sess : String), pqSet s idx id sess = .ok s' → P s → P s'
  pqDelete : ∀ (s : State) (id : String), P s → P (pqDelete s idx id)
  nodeInsert : ∀ (s : State) (n : Node), n.modify = idx → G.Np n.name → n.create ≠ 0 →
    (∀ m ∈ s.nodes, m.id ≠ "" → n.id ≠ "" → lc m.id = lc n.id → lc m.name = lc n.name) → P s → P (nodeInsert s n)
  nodeNames : ∀ (s : State), P s → ∀ nd ∈ s.nodes, G.Np nd.name
  nodeCreate : ∀ (s : State), P s → ∀ nd ∈ s.nodes, nd.create ≠ 0
  nodeIds : ∀ (s : State), P s → ∀ a ∈ s.nodes, ∀ b ∈ s.nodes, a.id ≠ "" → b.id ≠ "" → lc a.id = lc b.id → a = b
  deleteCheckPre : ∀ (s : State) (node id : String) (x : Chk), chkFind s node id = some x →
    P s → P (deleteCheckPre s idx node id x)
  deleteServicePost : ∀ (s : State) (node id : String) (v : Svc), G.Np node → svcFind s node id = some v →
    (∀ c ∈ s.chks, ¬ (lc c.node = lc node ∧ lc c.svcId = lc id)) → P s → P (deleteServicePost s idx node id v)
  deleteNodePost : ∀ (s : State) (name : String), G.Np name → (∀ v ∈ s.svcs, lc v.node ≠ lc name) →
    (∀ c ∈ s.chks, lc c.node ≠ lc name) → P s → P (deleteNodePost s idx name)
  bumpServiceIdx : ∀ (s : State) (name : String), (∃ v ∈ s.svcs, lc v.name = lc name) → P s →
    P (bumpServiceIdx s idx name)
  svcInsert : ∀ (s : State) (v : Svc), v.modify = idx → G.Sp v.node v.id v.name → G.Np v.node →
    (nodeFind s v.node).isSome = true → P s → P (svcInsert s v)

variable {idx : Nat} {G : Guard} {F : State → String → Prop} {P : State → Prop}

/-! ### KV verbs -/

theorem pk_kvSet (hP : PrimClosedK idx G F P) {s s' : State} {e w : KV} {upd : Bool}
    (hr : kvSetTxn s idx e upd = .ok (s', w)) (h : P s) : P s' := by
  simp only [kvSetTxn] at hr
  repeat' (split at hr)
  all_goals (try simp at hr)
  all_goals (obtain ⟨rfl, -⟩ := hr)
  all_goals (first | exact h | exact hP.kvInsert _ _ rfl (by assumption) h)

theorem pk_kvDeleteCas (hP : PrimClosedK idx G F P) {s s' : State} {c : Nat} {k : Key} {b : Bool}
    (hr : kvDeleteCasTxn s idx c k = .ok (s', b)) (h : P s) : P s' := by
  simp only [kvDeleteCasTxn] at hr
  repeat' (split at hr)
  all_goals (try simp at hr)
  all_goals (obtain ⟨rfl, -⟩ := hr)
  all_goals (first | exact h | exact hP.kvDelete _ _ _ (by assumption) h)

theorem pk_kvSetCas (hP : PrimClosedK idx G F P) {s s' : State} {e w : KV} {b : Bool}
    (hr : kvSetCasTxn s idx e = .ok (s', b, w)) (h : P s) : P s' := by
  simp only [kvSetCasTxn] at hr
  repeat' (split at hr)
  all_goals (try simp at hr)
  all_goals (obtain ⟨rfl, -, -⟩ := hr)
  all_goals (first | exact h | exact pk_kvSet hP (by assumption) h)

theorem pk_kvLock (hP : PrimClosedK idx G F P) {s s' : State} {e w : KV} {b : Bool}
    (hr : kvLockTxn s idx e = .ok (s', b, w)) (h : P s) : P s' := by
  simp only [kvLockTxn] at hr
  repeat' (split at hr)
  all_goals (try simp at hr)
  all_goals (obtain ⟨rfl, -, -⟩ := hr)
  all_goals (first | exact h | exact pk_kvSet hP (by assumption) h)

theorem pk_kvUnlock (hP : PrimClosedK idx G F P) {s s' : State} {e w : KV} {b : Bool}
    (hr : kvUnlockTxn s idx e = .ok (s', b, w)) (h : P s) : P s' := by
  simp only [kvUnlockTxn] at hr
  repeat' (split at hr)
  all_goals (try simp at hr)
  all_goals (obtain ⟨rfl, -, -⟩ := hr)
  all_goals (first | exact h | exact pk_kvSet hP (by assumption) h)

/-! ### the session / check cascade -/

def PkDel (idx : Nat) (P : State → Prop) (n : Nat) : Prop :=
  ∀ s id s', deleteSessionF n s idx id = .ok s' → P s → P s'
def PkChk (idx : Nat) (G : Guard) (P : State → Prop) (n : Nat) : Prop :=
  ∀ s p hc s', ensureCheckF n s idx p hc = .ok s' → G.Cp hc.node hc.id hc.svcId → P s → P s'

theorem pkDel_zero : PkDel idx P 0 := by
  intro s id s' hr h
  rw [deleteSessionF] at hr
  split at hr
  · simp at hr; exact hr ▸ h
  · simp at hr

theorem pkDel_succ (hP : PrimClosedK idx G F P) {n : Nat} (hq : PkChk idx G P n) : PkDel idx P (n + 1) := by
  intro s id s' hr h
  rw [deleteSessionF] at hr
  split at hr
  · simp at hr; exact hr ▸ h
  · next sess hf =>
    simp only at hr
    have h3 := hP.sessionDrop s id sess hf h
    refine foldE_ind_mem P _ _ _ _ (fun st c st' hc hst hcc => ?_) h3 hr
    have hrow : G.Cp c.node c.id c.svcId := hP.chkRows _ h3 c (mem_sessionTypedChecks hc)
    exact hq st false { c with status := critical, output := sessionCheckOutput sess critical } st' hcc hrow hst

theorem pkChk_of (hP : PrimClosedK idx G F P) {n : Nat} (hp : ∀ m, n = m + 1 → PkDel idx P m) : PkChk idx G P n := by
  intro s p hc s' hr hC h
  rw [ensureCheckF] at hr
  split at hr
  · simp at hr
  · next s1 hc1 md hprep =>
    have h1 : P s1 := hP.checkPrep _ _ _ _ _ _ hprep hC h
    split at hr
    · simp at hr; rw [← hr]
      exact hP.checkFinish s s1 s1 p hc hc1 md hprep hC (CasRel.refl _) (svcKeep_refl _) h h1
    · simp at hr
    · next m _ =>
      split at hr
      · simp at hr
      · next s2 hfold =>
        simp at hr; rw [← hr]
        have hrel : CasRel s1 s2 :=
          foldE_rel CasRel CasRel.refl (fun a b c => CasRel.trans) _ (fun st sid st' h => (fr_cascade m).1 st idx sid st' h) _ _ _ hfold
        have hkeep : SvcKeep idx s1 s2 := foldE_keep _ (fun st sid st' h => (keep_cascade m).1 st sid st' h) _ _ _ hfold
        refine hP.checkFinish s s1 s2 p hc hc1 md hprep hC hrel hkeep h ?_
        exact foldE_ind P _ (fun st sid st' hst hc => hp m rfl st sid st' hc hst) _ _ _ h1 hfold

theorem pk_cascade (hP : PrimClosedK idx G F P) (n : Nat) : PkDel idx P n ∧ PkChk idx G P n := by
  induction n with
  | zero => exact ⟨pkDel_zero, pkChk_of hP (by intro m hm; omega)⟩
  | succ n ih =>
    exact ⟨pkDel_succ hP ih.2, pkChk_of hP (by intro m hm; have : m = n := by omega
                                               subst this; exact ih.1)⟩

theorem pk_deleteSession (hP : PrimClosedK idx G F P) {s s' : State} {id : String}
    (hr : deleteSession s idx id = .ok s') (h : P s) : P s' :=
  (pk_cascade hP _).1 s id s' hr h

theorem pk_ensureCheck (hP : PrimClosedK idx G F P) {s s' : State} {p : Bool} {hc : Chk} (hC : G.Cp hc.node hc.id hc.svcId)
    (hr : ensureCheck s idx p hc = .ok s') (h : P s) : P s' :=
  (pk_cascade hP _).2 s p hc s' hr hC h

theorem pk_updateSessionCheck (hP : PrimClosedK idx G F P) {s s' : State} {x : Sess} {st : String}
    (hr : updateSessionCheck s idx x st = .ok s') (h : P s) : P s' := by
  unfold updateSessionCheck at hr
  refine foldE_ind_mem P _ _ _ _ (fun a c a' hc ha hcc => ?_) h hr
  have hrow : G.Cp c.node c.id c.svcId := hP.chkRows s h c (mem_sessionTypedChecks hc)
  exact pk_ensureCheck hP (hc := { c with status := st, output := sessionCheckOutput x st }) hrow hcc ha

theorem pk_sessionCreate (hP : PrimClosedK idx G F P) {s s' : State} {r : SessReq} (hF : F s r.id)
    (hr : sessionCreate s idx r = .ok s') (h : P s) : P s' := by
  simp only [sessionCreate] at hr
  repeat' (split at hr)
  all_goals (try simp at hr)
  all_goals (exact pk_updateSessionCheck hP hr (hP.insertSession _ _ hF h))

/-! ### the catalog -/

theorem pk_deleteCheck (hP : PrimClosedK idx G F P) {s s' : State} {node id : String}
    (hr : deleteCheck s idx node id = .ok s') (h : P s) : P s' := by
  simp only [deleteCheck] at hr
  split at hr
  · simp at hr; exact hr ▸ h
  · next x hx =>
    exact foldE_ind P _ (fun a c a' ha hc => pk_deleteSession hP hc ha) _ _ _
      (hP.deleteCheckPre _ _ _ _ hx h) hr

theorem pk_deleteService (hP : PrimClosedK idx G F P) {s s' : State} {node id : String} (hN : G.Np node)
    (hr : deleteService s idx node id = .ok s') (h : P s) : P s' := by
  simp only [deleteService] at hr
  split at hr
  · simp at hr; exact hr ▸ h
  · next v hv =>
    split at hr
    · simp at hr
    · next s1 hfold =>
      simp at hr; rw [← hr]
      have h1 : P s1 := foldE_ind P _ (fun a c a' ha hc => pk_deleteCheck hP hc ha) _ _ _ h hfold
      obtain ⟨-, a2, -, a4⟩ := foldE_deleteCheck_spec _ _ _ hfold
      have hv1 : svcFind s1 node id = some v := by rw [svcFind_congr a2]; exact hv
      have hno : ∀ c ∈ s1.chks, ¬ (lc c.node = lc node ∧ lc c.svcId = lc id) := by
        intro c' hc' hb
        obtain ⟨c, hc, hsame, hne⟩ := a4 c' hc'
        have hb' : lc c.node = lc node ∧ lc c.svcId = lc id := by rw [← hsame.1, ← hsame.2.2]; exact hb
        have hmem : c ∈ s.chks.filter (fun c => lc c.node == lc node && lc c.svcId == lc id) := by
          simp [List.mem_filter, hc, hb'.1, hb'.2]
        exact hne c hmem (pk2_congr hb'.1 rfl)
      exact hP.deleteServicePost _ _ _ _ hN hv1 hno h1

theorem pk_foldl_bump (hP : PrimClosedK idx G F P) (l : List Svc) (s : State) (hl : ∀ v ∈ l, v ∈ s.svcs) (h : P s) :
    P (l.foldl (fun st (v : Svc) => bumpServiceIdx st idx v.name) s) := by
  induction l generalizing s with
  | nil => exact h
  | cons v vs ih =>
    exact ih _ (fun w hw => hl w (List.mem_cons_of_mem _ hw))
      (hP.bumpServiceIdx _ _ ⟨v, hl v List.mem_cons_self, rfl⟩ h)

theorem pk_deleteNode (hP : PrimClosedK idx G F P) {s s' : State} {name : String} (hN : G.Np name)
    (hr : deleteNode s idx name = .ok s') (h : P s) : P s' := by
  simp only [deleteNode] at hr
  split at hr
  · simp at hr; exact hr ▸ h
  · split at hr
    · simp at hr
    · next s2 hf2 =>
      split at hr
      · simp at hr
      · next s3 hf3 =>
        have h1 := pk_foldl_bump hP (List.filter (fun v => lc v.node == lc name) s.svcs) s
          (fun v hv => (List.mem_filter.mp hv).1) h
        have hv1 := foldl_bump_view idx (List.filter (fun v => lc v.node == lc name) s.svcs) s
        generalize List.foldl (fun st (v : Svc) => bumpServiceIdx st idx v.name) s
            (List.filter (fun v => lc v.node == lc name) s.svcs) = s1 at hf2 hv1 h1
        have v2 := catView_svcs hv1
        have h2 : P s2 := foldE_ind P _ (fun a c a' ha hc => pk_deleteService hP hN hc ha) _ _ _ h1 hf2
        have h3 : P s3 := foldE_ind P _ (fun a c a' ha hc => pk_deleteCheck hP hc ha) _ _ _ h2 hf3
        obtain ⟨-, -, a3, -, -, -⟩ := foldE_deleteService_spec _ _ _ hf2
        obtain ⟨-, b2, -, b4⟩ := foldE_deleteCheck_spec _ _ _ hf3
        have nosvc : ∀ v ∈ s3.svcs, lc v.node ≠ lc name := by
          intro v' hv' hnode
          rw [b2] at hv'
          obtain ⟨m1, m2⟩ := a3 v' hv'
          rw [v2] at m1
          have hmem : v' ∈ List.filter (fun v => lc v.node == lc name) s.svcs := by
            simp [List.mem_filter, m1, hnode]
          exact m2 v' hmem (pk2_congr hnode rfl)
        have nochk : ∀ c ∈ s3.chks, lc c.node ≠ lc name := by
          intro c' hc' hnode
          obtain ⟨c2, h2', hs2, hn2⟩ := b4 c' hc'
          have hnode2 : lc c2.node = lc name := by rw [← hs2.1]; exact hnode
          have hmem : c2 ∈ List.filter (fun ch => lc ch.node == lc name) s2.chks := by
            simp [List.mem_filter, h2', hnode2]
          exact hn2 c2 hmem (pk2_congr hnode2 rfl)
        exact foldE_ind P _ (fun a c a' ha hc => pk_deleteSession hP hc ha) _ _ _
          (hP.deleteNodePost _ _ hN nosvc nochk h3) hr

theorem nodeFindByID_prop {s : State} {id : String} {n : Node} (h : nodeFindByID s id = some n) :
    n.id ≠ "" ∧ lc n.id = lc id := by
  unfold nodeFindByID at h
  have := List.find?_some h
  simpa using this

theorem nodeFindByID_none {s : State} {id : String} (h : nodeFindByID s id = none) :
    ∀ m ∈ s.nodes, m.id ≠ "" → lc m.id ≠ lc id := by
  unfold nodeFindByID at h
  rw [List.find?_eq_none] at h
  intro m hm h1 h2
  exact h m hm (by simp [h1, h2])

theorem pk_ensureNode (hP : PrimClosedK idx G F P) {s s' : State} {n : Node} (hN : G.Np n.name)
    (hr : ensureNode s idx n = .ok s') (h : P s) : P s' := by
  simp only [ensureNode] at hr
  split at hr
  · simp at hr
  · next s1 byId hr1 =>
    have key : P s1 ∧ (∀ m ∈ s1.nodes, m.id ≠ "" → n.id ≠ "" → lc m.id = lc n.id → lc m.name = lc n.name) ∧
        (∀ n0, byId = some n0 → n0.create ≠ 0) := by
      split at hr1
      · next hid =>
        split at hr1
        · next n0 hf =>
          have hn0 : n0 ∈ s.nodes := nodeFindByID_mem hf
          obtain ⟨hp1, hp2⟩ := nodeFindByID_prop hf
          split at hr1
          · next hne =>
            split at hr1
            · simp at hr1
            · split at hr1
              · next s2 hdel =>
                simp only [Except.ok.injEq, Prod.mk.injEq] at hr1
                obtain ⟨rfl, rfl⟩ := hr1
                refine ⟨pk_deleteNode hP (hP.nodeNames s h _ hn0) hdel h, ?_, ?_⟩
                · intro m hm hmid _ hlc
                  rcases deleteNode_spec hdel with ⟨hnone, _⟩ | hspec
                  · exact absurd rfl (tfind_none hnone n0 hn0)
                  · rw [hspec.nodes] at hm
                    obtain ⟨hm1, hm2⟩ := mem_terase.mp hm
                    have : n0 = m := hP.nodeIds s h n0 hn0 m hm1 hp1 hmid (hp2.trans hlc.symm)
                    subst this; exact absurd rfl hm2
                · intro n1 h1; cases h1; exact hP.nodeCreate s h _ hn0
              · simp at hr1
          · next heq =>
            have heq' : lc n0.name = lc n.name := Classical.not_not.mp heq
            simp only [Except.ok.injEq, Prod.mk.injEq] at hr1
            obtain ⟨rfl, rfl⟩ := hr1
            refine ⟨h, ?_, ?_⟩
            · intro m hm hmid _ hlc
              have : n0 = m := hP.nodeIds s h n0 hn0 m hm hp1 hmid (hp2.trans hlc.symm)
              subst this; exact heq'
            · intro n1 h1; cases h1; exact hP.nodeCreate s h _ hn0
        · next hnone =>
          split at hr1
          · simp at hr1
          · simp only [Except.ok.injEq, Prod.mk.injEq] at hr1
            obtain ⟨rfl, rfl⟩ := hr1
            refine ⟨h, ?_, ?_⟩
            · intro m hm hmid _ hlc
              exact absurd hlc (nodeFindByID_none hnone m hm hmid)
            · intro n1 h1; cases h1
      · next hid =>
        simp only [Except.ok.injEq, Prod.mk.injEq] at hr1
        obtain ⟨rfl, rfl⟩ := hr1
        refine ⟨h, ?_, ?_⟩
        · intro m hm _ hnid _
          exact absurd hnid hid
        · intro n1 h1; cases h1
    obtain ⟨h1, hctx, hcr⟩ := key
    cases byId with
    | some n0 =>
      simp only at hr
      split at hr
      · simp at hr; exact hr ▸ h1
      · simp at hr; rw [← hr]
        exact hP.nodeInsert _ _ rfl hN (hcr n0 rfl) hctx h1
    | none =>
      simp only at hr
      split at hr
      · next n1 hn1 =>
        have hmem : n1 ∈ s1.nodes := (tfind_some hn1).1
        split at hr
        · simp at hr; exact hr ▸ h1
        · simp at hr; rw [← hr]
          exact hP.nodeInsert _ _ rfl hN (hP.nodeCreate s1 h1 n1 hmem) hctx h1
      · simp at hr; rw [← hr]
        exact hP.nodeInsert _ _ rfl hN hP.idxPos hctx h1

theorem pk_ensureService (hP : PrimClosedK idx G F P) {s s' : State} {v : Svc} (hS : G.Sp v.node v.id v.name) (hN : G.Np v.node)
    (hr : ensureService s idx v = .ok s') (h : P s) : P s' := by
  unfold ensureService at hr
  split at hr
  · simp at hr
  · next nd hnd =>
    have hsome : (nodeFind s v.node).isSome = true := by rw [hnd]; rfl
    split at hr
    · simp only at hr
      split at hr
      · simp at hr; exact hr ▸ h
      · simp at hr; rw [← hr]; exact hP.svcInsert _ _ rfl hS hN hsome h
    · simp at hr; rw [← hr]; exact hP.svcInsert _ _ rfl hS hN hsome h

theorem pk_ensureRegistration (hP : PrimClosedK idx G F P) {s s' : State} {r : RegReq}
    (hS : ∀ v, r.svc = some v → G.Sp r.node.name v.id v.name) (hN : G.Np r.node.name)
    (hC : ∀ c ∈ r.checks, G.Cp c.node c.id c.svcId)
    (hr : ensureRegistration s idx r = .ok s') (h : P s) : P s' := by
  simp only [ensureRegistration] at hr
  split at hr
  · simp at hr
  · next s1 hr1 =>
    have h1 : P s1 := by
      repeat' (split at hr1)
      all_goals (try simp at hr1)
      all_goals (first | exact hr1 ▸ h | exact pk_ensureNode hP hN hr1 h)
    split at hr
    · simp at hr
    · next s2 hr2 =>
      have h2 : P s2 := by
        repeat' (split at hr2)
        all_goals (try simp at hr2)
        all_goals (first | exact hr2 ▸ h1 | (have hsp := hS _ ‹r.svc = some _›; exact pk_ensureService hP hsp hN hr2 h1))
      refine foldE_ind_mem P _ _ _ _ ?_ h2 hr
      intro a c a' hcm ha hc
      unfold ensureCheckIfNodeMatches at hc
      split at hc
      · simp at hc
      · exact pk_ensureCheck hP (hC c hcm) hc ha

section cas
variable (hP : PrimClosedK idx G F P)
include hP

theorem pk_ensureNodeCas {s s' : State} {n : Node} {b : Bool} (hN : G.Np n.name)
    (hr : ensureNodeCas s idx n = .ok (s', b)) (h : P s) : P s' := by
  unfold ensureNodeCas at hr
  repeat' (split at hr)
  all_goals (try simp at hr)
  all_goals (obtain ⟨rfl, -⟩ := hr)
  all_goals (first | exact h | exact pk_ensureNode hP hN (by assumption) h)

theorem pk_deleteNodeCas {s s' : State} {c : Nat} {n : String} {b : Bool} (hN : G.Np n)
    (hr : deleteNodeCas s idx c n = .ok (s', b)) (h : P s) : P s' := by
  unfold deleteNodeCas at hr
  repeat' (split at hr)
  all_goals (try simp at hr)
  all_goals (obtain ⟨rfl, -⟩ := hr)
  all_goals (first | exact h | exact pk_deleteNode hP hN (by assumption) h)

theorem pk_ensureServiceCas {s s' : State} {v : Svc} {b : Bool} (hS : G.Sp v.node v.id v.name) (hN : G.Np v.node)
    (hr : ensureServiceCas s idx v = .ok (s', b)) (h : P s) : P s' := by
  unfold ensureServiceCas at hr
  repeat' (split at hr)
  all_goals (try simp at hr)
  all_goals (obtain ⟨rfl, -⟩ := hr)
  all_goals (first | exact h | exact pk_ensureService hP hS hN (by assumption) h)

theorem pk_deleteServiceCas {s s' : State} {c : Nat} {n i : String} {b : Bool} (hN : G.Np n)
    (hr : deleteServiceCas s idx c n i = .ok (s', b)) (h : P s) : P s' := by
  unfold deleteServiceCas at hr
  repeat' (split at hr)
  all_goals (try simp at hr)
  all_goals (obtain ⟨rfl, -⟩ := hr)
  all_goals (first | exact h | exact pk_deleteService hP hN (by assumption) h)

theorem pk_ensureCheckCas {s s' : State} {c : Chk} {b : Bool} (hC : G.Cp c.node c.id c.svcId)
    (hr : ensureCheckCas s idx c = .ok (s', b)) (h : P s) : P s' := by
  unfold ensureCheckCas at hr
  repeat' (split at hr)
  all_goals (try simp at hr)
  all_goals (obtain ⟨rfl, -⟩ := hr)
  all_goals (first | exact h | exact pk_ensureCheck hP hC (by assumption) h)

theorem pk_deleteCheckCas {s s' : State} {c : Nat} {n i : String} {b : Bool}
    (hr : deleteCheckCas s idx c n i = .ok (s', b)) (h : P s) : P s' := by
  unfold deleteCheckCas at hr
  repeat' (split at hr)
  all_goals (try simp at hr)
  all_goals (obtain ⟨rfl, -⟩ := hr)
  all_goals (first | exact h | exact pk_deleteCheck hP (by assumption) h)

end cas
/-! ### transactions -/

section txn
variable (hP : PrimClosedK idx G F P)
include hP

theorem pk_txnKV {s s' : State} {v : KvVerb} {e : KV} {rs : List TxnRes}
    (hT : v = .deleteTree → G.T e.key)
    (hr : txnKV s idx v e = .ok (s', rs)) (h : P s) : P s' := by
  cases v <;> simp only [txnKV, okRes] at hr <;> repeat' (split at hr)
  all_goals (try simp at hr)
  all_goals (try (obtain ⟨rfl, -⟩ := hr))
  all_goals (first
    | exact h
    | exact pk_kvSet hP (by assumption) h
    | exact hP.kvDelete _ _ _ (by assumption) h
    | exact pk_kvDeleteCas hP (by assumption) h
    | exact hP.kvDeleteTree _ _ (hT rfl) h
    | exact pk_kvSetCas hP (by assumption) h
    | exact pk_kvLock hP (by assumption) h
    | exact pk_kvUnlock hP (by assumption) h)

theorem pk_txnStep {s s' : State} {op : TxnOp} {rs : List TxnRes} (hG : op.ok G)
    (hr : txnStep s idx op = .ok (s', rs)) (h : P s) : P s' := by
  cases op with
  | kv v e => exact pk_txnKV hP (fun hv => hG.trees _ (by subst hv; simp [TxnOp.trees])) hr h
  | node v n =>
    have hN : G.Np n.name := hG.nodes _ (by simp [TxnOp.nodes])
    simp only [txnStep, txnNode] at hr
    cases v <;> simp only [okRes] at hr <;> repeat' (split at hr)
    all_goals (try simp at hr)
    all_goals (try (obtain ⟨rfl, -⟩ := hr))
    all_goals (first
      | exact h
      | exact pk_ensureNode hP hN (by assumption) h
      | exact pk_ensureNodeCas hP hN (by assumption) h
      | exact pk_deleteNode hP hN (by assumption) h
      | exact pk_deleteNodeCas hP hN (by assumption) h)
  | service v x =>
    have hN : G.Np x.node := hG.nodes _ (by simp [TxnOp.nodes])
    simp only [txnStep, txnService] at hr
    cases v <;> simp only [okRes] at hr <;> repeat' (split at hr)
    all_goals (try simp at hr)
    all_goals (try (obtain ⟨rfl, -⟩ := hr))
    all_goals (first
      | exact h
      | exact pk_ensureService hP (hG.svcs (x.node, x.id, x.name) (by simp [TxnOp.svcs])) hN (by assumption) h
      | exact pk_ensureServiceCas hP (hG.svcs (x.node, x.id, x.name) (by simp [TxnOp.svcs])) hN (by assumption) h
      | exact pk_deleteService hP hN (by assumption) h
      | exact pk_deleteServiceCas hP hN (by assumption) h)
  | check v c =>
    simp only [txnStep, txnCheck] at hr
    cases v <;> simp only [okRes] at hr <;> repeat' (split at hr)
    all_goals (try simp at hr)
    all_goals (try (obtain ⟨rfl, -⟩ := hr))
    all_goals (first
      | exact h
      | exact pk_ensureCheck hP (hG.chks (c.node, c.id, c.svcId) (by simp [TxnOp.chks])) (by assumption) h
      | exact pk_ensureCheckCas hP (hG.chks (c.node, c.id, c.svcId) (by simp [TxnOp.chks])) (by assumption) h
      | exact pk_deleteCheck hP (by assumption) h
      | exact pk_deleteCheckCas hP (by assumption) h)
  | sessionDelete id =>
    simp only [txnStep, okRes] at hr
    split at hr
    · simp at hr; exact hr.1 ▸ pk_deleteSession hP (by assumption) h
    · simp at hr

theorem pk_txnLoop (ops : List TxnOp) (hG : ∀ op ∈ ops, op.ok G) (i : Nat) (s : State)
    (rs : List TxnRes) (es : List (Nat × Err)) (h : P s) : P (txnLoop idx ops i s rs es).1 := by
  induction ops generalizing i s rs es with
  | nil => exact h
  | cons op ops ih =>
    have hG2 : ∀ o ∈ ops, o.ok G := fun o ho => hG o (List.mem_cons_of_mem _ ho)
    simp only [txnLoop]
    split
    · next s' r hstep => exact ih hG2 _ _ _ _ (pk_txnStep hP (hG op List.mem_cons_self) hstep h)
    · exact ih hG2 _ _ _ _ h

end txn
theorem pk_liftS {s : State} {r : Except Err State} (h : P s) (hr : ∀ s', r = .ok s' → P s') :
    P (liftS s r).1 := by
  cases r with
  | ok s' => exact hr s' rfl
  | error e => exact h

theorem pk_liftB {s : State} {r : Except Err (State × Bool)} (h : P s) (hr : ∀ s' b, r = .ok (s', b) → P s') :
    P (liftB s r).1 := by
  cases r with
  | ok sb =>
    obtain ⟨s', b⟩ := sb
    simp only [liftB]
    split
    · exact hr s' b rfl
    · exact h
  | error e => exact h

/-- every command except tombstone reaping preserves a predicate closed under the primitives -/
theorem pk_apply (hP : PrimClosedK idx G F P) {s : State} (c : Cmd) (hc : ∀ u, c ≠ .reap u)
    (hG : c.ok G) (hF : ∀ r, c = .sessionCreate r → F s r.id) (h : P s) : P (apply s idx c).1 := by
  cases c with
  | kvSet e =>
    refine pk_liftS h (fun s' hr => ?_)
    cases hk : kvSetTxn s idx e false with
    | error er => simp [hk, Except.map] at hr
    | ok sw => obtain ⟨s1, w⟩ := sw; simp [hk, Except.map] at hr; exact hr ▸ pk_kvSet hP hk h
  | kvCas e =>
    refine pk_liftB h (fun s' b hr => ?_)
    cases hk : kvSetCasTxn s idx e with
    | error er => simp [hk, Except.map] at hr
    | ok sw => obtain ⟨s1, b1, w⟩ := sw; simp [hk, Except.map] at hr; exact hr.1 ▸ pk_kvSetCas hP hk h
  | kvDelete k => exact pk_liftS h (fun s' hr => hP.kvDelete _ _ _ hr h)
  | kvDeleteCas k c => exact pk_liftB h (fun s' b hr => pk_kvDeleteCas hP hr h)
  | kvDeleteTree p => exact hP.kvDeleteTree _ _ (hG.trees p (by simp [Cmd.trees])) h
  | kvLock e =>
    refine pk_liftB h (fun s' b hr => ?_)
    cases hk : kvLockTxn s idx e with
    | error er => simp [hk, Except.map] at hr
    | ok sw => obtain ⟨s1, b1, w⟩ := sw; simp [hk, Except.map] at hr; exact hr.1 ▸ pk_kvLock hP hk h
  | kvUnlock e =>
    refine pk_liftB h (fun s' b hr => ?_)
    cases hk : kvUnlockTxn s idx e with
    | error er => simp [hk, Except.map] at hr
    | ok sw => obtain ⟨s1, b1, w⟩ := sw; simp [hk, Except.map] at hr; exact hr.1 ▸ pk_kvUnlock hP hk h
  | sessionCreate r => exact pk_liftS h (fun s' hr => pk_sessionCreate hP (hF r rfl) hr h)
  | sessionDestroy id => exact pk_liftS h (fun s' hr => pk_deleteSession hP hr h)
  | register r =>
    refine pk_liftS h (fun s' hr => pk_ensureRegistration hP (fun v hv => hG.svcs (r.node.name, v.id, v.name) (by simp [Cmd.svcs, hv]))
      (hG.nodes r.node.name (by simp [Cmd.nodes])) (fun c hc => hG.chks (c.node, c.id, c.svcId) ?_) hr h)
    simp only [Cmd.chks, List.mem_map]; exact ⟨c, hc, rfl⟩
  | deregister node svcId chkId =>
    have hN : G.Np node := hG.nodes node (by simp [Cmd.nodes])
    simp only [apply]
    split
    · exact pk_liftS h (fun s' hr => pk_deleteService hP hN hr h)
    · split
      · exact pk_liftS h (fun s' hr => pk_deleteCheck hP hr h)
      · exact pk_liftS h (fun s' hr => pk_deleteNode hP hN hr h)
  | reap u => exact absurd rfl (hc u)
  | pqSet id session => exact pk_liftS h (fun s' hr => hP.pqSet _ _ _ _ hr h)
  | pqDelete id => exact hP.pqDelete _ _ h
  | txn ops =>
    simp only [apply, txnRW]
    have := pk_txnLoop hP ops (cmd_ok_txn hG) 0 s [] [] h
    generalize txnLoop idx ops 0 s [] [] = r at this
    obtain ⟨s', rs, es⟩ := r
    simp only
    split
    · exact this
    · exact h

end CV.Store

