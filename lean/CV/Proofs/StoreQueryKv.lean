/-
C06, KVSList / KVS.ListKeys (`kvList`): the index is the largest ModifyIndex among the listed entries and
the tombstones under the (NUL-trimmed) prefix, or the table index when both are absent.

For a list prefix `p` that is not empty and does not start with a NUL byte, and a command whose
delete-tree verbs all leave their tombstone under `p` (`TreeOk p`: the tree prefix is not above the list
prefix), every primitive either leaves the listed entries and the tombstones under `p` alone or leaves
an entry / a tombstone under `p` stamped with the command's index (`Fresh`).
-/
import CV.Proofs.StoreQueryTbl
namespace CV.Store
open CV

/-! ### byte strings -/

theorem trimNulL_suffix (l : Key) : ∃ z, l = z ++ trimNulL l := by
  induction l with
  | nil => exact ⟨[], rfl⟩
  | cons x xs ih =>
    by_cases hx : x = 0
    · subst hx
      obtain ⟨z, hz⟩ := ih
      refine ⟨0 :: z, ?_⟩
      simp only [trimNulL, List.cons_append]
      rw [← hz]
    · refine ⟨[], ?_⟩
      cases x with
      | zero => exact absurd rfl hx
      | succ n => simp [trimNulL]

theorem trimNulL_of_head (l : Key) (h : l.head? ≠ some 0) : trimNulL l = l := by
  cases l with
  | nil => rfl
  | cons x xs =>
    cases x with
    | zero => simp at h
    | succ n => simp [trimNulL]

/-- without a leading NUL, trimming only drops trailing NULs: the trimmed prefix is a prefix of the prefix -/
theorem trimNul_prefix (p : Key) (h : p.head? ≠ some 0) : trimNul p <+: p := by
  unfold trimNul
  rw [trimNulL_of_head p h]
  obtain ⟨z, hz⟩ := trimNulL_suffix p.reverse
  refine ⟨z.reverse, ?_⟩
  have := congrArg List.reverse hz
  simp only [List.reverse_reverse, List.reverse_append] at this
  exact this.symm

/-- what the kvs prefix scan matches, the tombstone scan matches too -/
theorem prefixMatch_trim {p k : Key} (h : p.head? ≠ some 0) (hm : prefixMatch p k = true) :
    prefixMatch (trimNul p) k = true := by
  unfold prefixMatch at *
  rw [List.isPrefixOf_iff_prefix] at *
  exact (trimNul_prefix p h).trans hm

theorem le_listMax_aux (l : List Nat) (a : Nat) : a ≤ l.foldl max a ∧ ∀ x ∈ l, x ≤ l.foldl max a := by
  induction l generalizing a with
  | nil => simp
  | cons y ys ih =>
    simp only [List.foldl_cons]
    have := ih (max a y)
    refine ⟨by omega, ?_⟩
    intro x hx
    rcases List.mem_cons.mp hx with rfl | hx
    · omega
    · exact this.2 x hx

theorem le_listMax {l : List Nat} {x : Nat} (h : x ∈ l) : x ≤ listMax l := (le_listMax_aux l 0).2 x h

theorem listMax_le_aux (l : List Nat) (a b : Nat) (ha : a ≤ b) (h : ∀ x ∈ l, x ≤ b) : l.foldl max a ≤ b := by
  induction l generalizing a with
  | nil => simpa
  | cons y ys ih =>
    simp only [List.foldl_cons]
    exact ih (max a y) (by have := h y (by simp); omega) (fun x hx => h x (by simp [hx]))

theorem listMax_le {l : List Nat} {b : Nat} (h : ∀ x ∈ l, x ≤ b) : listMax l ≤ b :=
  listMax_le_aux l 0 b (Nat.zero_le _) h

/-! ### the view of a list query -/

def entsP (p : Key) (s : State) : List KV := s.kvs.filter (fun e => prefixMatch p e.key)
def tombsP (p : Key) (s : State) : List Tomb := s.tombs.filter (fun t => prefixMatch (trimNul p) t.key)

/-- every stored index (index table, entries, tombstones) is at most `i` -/
structure KvBound (i : Nat) (s : State) : Prop where
  idx : IdxLe i s.index
  kvs : ∀ e ∈ s.kvs, e.modify ≤ i
  tombs : ∀ t ∈ s.tombs, t.idx ≤ i

theorem KvBound.mono {m i : Nat} {s : State} (h : KvBound m s) (hmi : m ≤ i) : KvBound i s :=
  ⟨h.idx.mono hmi, fun e he => Nat.le_trans (h.kvs e he) hmi, fun t ht => Nat.le_trans (h.tombs t ht) hmi⟩

/-- an entry or a tombstone under the prefix carries the index of the running command -/
def Fresh (p : Key) (i : Nat) (s : State) : Prop :=
  (∃ e ∈ entsP p s, e.modify = i) ∨ (∃ t ∈ tombsP p s, t.idx = i)

theorem kvList_eq (s : State) (p : Key) (hp : p ≠ []) :
    kvList s p =
      (if max (listMax ((entsP p s).map (·.modify))) (listMax ((tombsP p s).map (·.idx))) ≠ 0
        then max (listMax ((entsP p s).map (·.modify))) (listMax ((tombsP p s).map (·.idx)))
        else kvMaxIndex s, entsP p s) := by
  simp [kvList, hp, entsP, tombsP, tombMaxIndex]

theorem kvList_fresh {p : Key} {i : Nat} {s : State} (hp : p ≠ []) (hb : KvBound i s) (hi : 0 < i)
    (hf : Fresh p i s) : (kvList s p).1 = i := by
  rw [kvList_eq s p hp]
  have h1 : listMax ((entsP p s).map (·.modify)) ≤ i := listMax_le (by
    intro x hx; simp only [List.mem_map] at hx; obtain ⟨e, he, rfl⟩ := hx
    exact hb.kvs e (List.mem_filter.mp he).1)
  have h2 : listMax ((tombsP p s).map (·.idx)) ≤ i := listMax_le (by
    intro x hx; simp only [List.mem_map] at hx; obtain ⟨t, ht, rfl⟩ := hx
    exact hb.tombs t (List.mem_filter.mp ht).1)
  have h3 : i ≤ max (listMax ((entsP p s).map (·.modify))) (listMax ((tombsP p s).map (·.idx))) := by
    rcases hf with ⟨e, he, hm⟩ | ⟨t, ht, hm⟩
    · have := le_listMax (l := (entsP p s).map (·.modify)) (x := e.modify) (List.mem_map.mpr ⟨e, he, rfl⟩)
      omega
    · have := le_listMax (l := (tombsP p s).map (·.idx)) (x := t.idx) (List.mem_map.mpr ⟨t, ht, rfl⟩)
      omega
  simp only
  split <;> omega

theorem kvList_le {p : Key} {m : Nat} {s : State} (hb : KvBound m s) : (kvList s p).1 ≤ m := by
  have h1 : listMax ((s.kvs.filter (fun e => prefixMatch p e.key)).map (·.modify)) ≤ m := listMax_le (by
    intro x hx; simp only [List.mem_map] at hx; obtain ⟨e, he, rfl⟩ := hx
    exact hb.kvs e (List.mem_filter.mp he).1)
  have h2 : tombMaxIndex s p ≤ m := listMax_le (by
    intro x hx; simp only [List.mem_map] at hx; obtain ⟨t, ht, rfl⟩ := hx
    exact hb.tombs t (List.mem_filter.mp ht).1)
  have h3 : kvMaxIndex s ≤ m := by
    unfold kvMaxIndex; have := hb.idx.val "kvs"; have := hb.idx.val "tombstones"; omega
  unfold kvList
  simp only
  split <;> split <;> omega

/-- the view is unchanged, or something under the prefix is fresh -/
structure ListStep (p : Key) (i : Nat) (s0 s : State) : Prop where
  bound : KvBound i s
  view : (entsP p s = entsP p s0 ∧ tombsP p s = tombsP p s0) ∨ Fresh p i s

/-! ### table helpers -/

section
variable {α κ : Type} [DecidableEq κ]

theorem filter_tupsert_of_not {key : α → κ} {lt : κ → κ → Bool} (f : α → Bool) (r : α) (l : List α)
    (hr : f r = false) (hk : ∀ x, key x = key r → f x = false) :
    (tupsert key lt r l).filter f = l.filter f := by
  induction l with
  | nil => simp [tupsert, hr]
  | cons x xs ih =>
    simp only [tupsert]
    split
    · next he => simp [List.filter_cons, hr, hk x he]
    · split
      · simp [List.filter_cons, hr]
      · simp [List.filter_cons, ih]

theorem filter_terase_of_not {key : α → κ} (f : α → Bool) (k : κ) (l : List α)
    (hk : ∀ x, key x = k → f x = false) : (terase key k l).filter f = l.filter f := by
  unfold terase
  rw [List.filter_filter]
  apply List.filter_congr
  intro x _
  by_cases h : key x = k
  · simp [h, hk x h]
  · simp [h]

/-- a row that survives an upsert, or the upserted row with the same key -/
theorem mem_tupsert_or {key : α → κ} {lt : κ → κ → Bool} (r y : α) (l : List α) (hy : y ∈ l) :
    y ∈ tupsert key lt r l ∨ key y = key r := mem_tupsert_of_mem hy

end

theorem tomb_fresh_tupsert {p : Key} {i : Nat} {k : Key} {l : List Tomb}
    (h : ∃ t ∈ l.filter (fun t => prefixMatch (trimNul p) t.key), t.idx = i) :
    ∃ t ∈ (tupsert Tomb.pk keyLt ⟨k, i⟩ l).filter (fun t => prefixMatch (trimNul p) t.key), t.idx = i := by
  obtain ⟨t, ht, hi⟩ := h
  simp only [List.mem_filter] at ht ⊢
  rcases mem_tupsert_or (key := Tomb.pk) (lt := keyLt) ⟨k, i⟩ t l ht.1 with h1 | h1
  · exact ⟨t, ⟨h1, ht.2⟩, hi⟩
  · refine ⟨⟨k, i⟩, ⟨self_mem_tupsert _ _, ?_⟩, rfl⟩
    have : t.key = k := h1
    rw [← this]; exact ht.2

theorem tomb_fresh_foldl {p : Key} {i : Nat} (held : List KV) (l : List Tomb)
    (h : ∃ t ∈ l.filter (fun t => prefixMatch (trimNul p) t.key), t.idx = i) :
    ∃ t ∈ (held.foldl (fun t e => tupsert Tomb.pk keyLt ⟨e.key, i⟩ t) l).filter
      (fun t => prefixMatch (trimNul p) t.key), t.idx = i := by
  induction held generalizing l with
  | nil => exact h
  | cons e es ih => exact ih _ (tomb_fresh_tupsert h)

theorem tomb_mem_foldl {i : Nat} (held : List KV) (l : List Tomb) (e : KV) (he : e ∈ held) :
    ∃ t ∈ held.foldl (fun t e => tupsert Tomb.pk keyLt ⟨e.key, i⟩ t) l, t.key = e.key ∧ t.idx = i := by
  induction held generalizing l with
  | nil => simp at he
  | cons x xs ih =>
    simp only [List.foldl_cons]
    rcases List.mem_cons.mp he with rfl | h
    · -- inserted now; later upserts either keep it or replace it by a same-key tombstone with index i
      have : ∀ (ys : List KV) (l' : List Tomb), (∃ t ∈ l', t.key = e.key ∧ t.idx = i) →
          ∃ t ∈ ys.foldl (fun t e => tupsert Tomb.pk keyLt ⟨e.key, i⟩ t) l', t.key = e.key ∧ t.idx = i := by
        intro ys
        induction ys with
        | nil => intro l' h; exact h
        | cons y ys ih2 =>
          intro l' ⟨t, ht, hk, hi⟩
          apply ih2
          rcases mem_tupsert_or (key := Tomb.pk) (lt := keyLt) ⟨y.key, i⟩ t l' ht with h1 | h1
          · exact ⟨t, h1, hk, hi⟩
          · refine ⟨⟨y.key, i⟩, self_mem_tupsert _ _, ?_, rfl⟩
            have : t.key = y.key := h1
            rw [← this]; exact hk
      exact this xs _ ⟨⟨e.key, i⟩, self_mem_tupsert _ _, rfl, rfl⟩
    · exact ih _ h

theorem tombs_bound_foldl {i : Nat} (held : List KV) (l : List Tomb) (h : ∀ t ∈ l, t.idx ≤ i) :
    ∀ t ∈ held.foldl (fun t e => tupsert Tomb.pk keyLt ⟨e.key, i⟩ t) l, t.idx ≤ i := by
  induction held generalizing l with
  | nil => exact h
  | cons e es ih =>
    apply ih
    intro t ht
    rcases mem_tupsert ht with rfl | h1
    · exact Nat.le_refl _
    · exact h t h1

/-- the tombstones under the prefix are untouched by upserts of tombstones outside it -/
theorem tombsP_foldl_of_not {p : Key} {i : Nat} (held : List KV) (l : List Tomb)
    (h : ∀ e ∈ held, prefixMatch (trimNul p) e.key = false) :
    (held.foldl (fun t e => tupsert Tomb.pk keyLt ⟨e.key, i⟩ t) l).filter (fun t => prefixMatch (trimNul p) t.key) =
      l.filter (fun t => prefixMatch (trimNul p) t.key) := by
  induction held generalizing l with
  | nil => rfl
  | cons e es ih =>
    simp only [List.foldl_cons]
    rw [ih _ (fun x hx => h x (by simp [hx]))]
    apply filter_tupsert_of_not
    · exact h e (by simp)
    · intro x hx
      have : x.key = e.key := hx
      rw [this]; exact h e (by simp)


/-! ### the step lemmas -/

variable {p : Key} {i : Nat} {s0 : State}

/-- a primitive that leaves entries and tombstones alone -/
theorem ListStep.frame {s s' : State} (h : ListStep p i s0 s) (hk : s'.kvs = s.kvs) (ht : s'.tombs = s.tombs)
    (hi : IdxLe i s'.index) : ListStep p i s0 s' := by
  refine ⟨⟨hi, by rw [hk]; exact h.bound.kvs, by rw [ht]; exact h.bound.tombs⟩, ?_⟩
  have e1 : entsP p s' = entsP p s := by simp [entsP, hk]
  have e2 : tombsP p s' = tombsP p s := by simp [tombsP, ht]
  rcases h.view with hv | hf
  · exact Or.inl ⟨by rw [e1]; exact hv.1, by rw [e2]; exact hv.2⟩
  · right; unfold Fresh; rw [e1, e2]; exact hf

/-- the step lemma of a primitive known through its table-level lemma -/
theorem ListStep.ofTbl {s s' : State} (h : ListStep p i s0 s) (t : Tbl1 i s s') (hk : s'.kvs = s.kvs)
    (ht : s'.tombs = s.tombs) : ListStep p i s0 s' :=
  h.frame hk ht (t.ops.le h.bound.idx)

/-- build the step from what the primitive did to the two lists -/
theorem ListStep.next {s s' : State} (h : ListStep p i s0 s) (hi : IdxLe i s'.index)
    (hkb : ∀ e ∈ s'.kvs, e.modify ≤ i) (htb : ∀ t ∈ s'.tombs, t.idx ≤ i)
    (hview : (entsP p s' = entsP p s ∧ tombsP p s' = tombsP p s) ∨ Fresh p i s')
    (hpers : Fresh p i s → Fresh p i s') : ListStep p i s0 s' := by
  refine ⟨⟨hi, hkb, htb⟩, ?_⟩
  rcases h.view with hv | hf
  · rcases hview with hw | hw
    · exact Or.inl ⟨hw.1.trans hv.1, hw.2.trans hv.2⟩
    · exact Or.inr hw
  · exact Or.inr (hpers hf)

theorem list_insert_shape {s s' : State} {e : KV} (he : e.modify = i) (h : ListStep p i s0 s)
    (hi : IdxLe i s'.index) (hk : s'.kvs = tupsert KV.pk keyLt e s.kvs) (ht : s'.tombs = s.tombs) :
    ListStep p i s0 s' := by
  have hkb : ∀ x ∈ s'.kvs, x.modify ≤ i := by
    intro x hx; rw [hk] at hx
    rcases mem_tupsert hx with rfl | h1
    · omega
    · exact h.bound.kvs x h1
  have e2 : tombsP p s' = tombsP p s := by simp [tombsP, ht]
  by_cases hm : prefixMatch p e.key = true
  · have hf : Fresh p i s' := Or.inl ⟨e, by simp [entsP, hk, hm, self_mem_tupsert], he⟩
    exact h.next hi hkb (by rw [ht]; exact h.bound.tombs) (Or.inr hf) (fun _ => hf)
  · have hm' : prefixMatch p e.key = false := by simpa using hm
    have e1 : entsP p s' = entsP p s := by
      unfold entsP; rw [hk]
      exact filter_tupsert_of_not _ e s.kvs hm' (fun x hx => by
        have : x.key = e.key := hx
        rw [this]; exact hm')
    refine h.next hi hkb (by rw [ht]; exact h.bound.tombs) (Or.inl ⟨e1, e2⟩) ?_
    unfold Fresh; rw [e1, e2]; exact id

theorem list_delete_shape (hp : p.head? ≠ some 0) {s s' : State} {k : Key} (h : ListStep p i s0 s)
    (hi : IdxLe i s'.index) (hk : s'.kvs = terase KV.pk k s.kvs)
    (ht : s'.tombs = tupsert Tomb.pk keyLt ⟨k, i⟩ s.tombs) : ListStep p i s0 s' := by
  have hkb : ∀ x ∈ s'.kvs, x.modify ≤ i := by
    intro x hx; rw [hk] at hx; exact h.bound.kvs x (mem_terase.mp hx).1
  have htb : ∀ t ∈ s'.tombs, t.idx ≤ i := by
    intro t ht'; rw [ht] at ht'
    rcases mem_tupsert ht' with rfl | h1
    · exact Nat.le_refl _
    · exact h.bound.tombs t h1
  have tombIn : prefixMatch (trimNul p) k = true → Fresh p i s' := by
    intro hm
    refine Or.inr ⟨⟨k, i⟩, ?_, rfl⟩
    simp only [tombsP, ht, List.mem_filter]
    exact ⟨self_mem_tupsert _ _, hm⟩
  by_cases hm2 : prefixMatch (trimNul p) k = true
  · exact h.next hi hkb htb (Or.inr (tombIn hm2)) (fun _ => tombIn hm2)
  · have hm2' : prefixMatch (trimNul p) k = false := by simpa using hm2
    have hm' : prefixMatch p k = false := by
      cases hm : prefixMatch p k with
      | false => rfl
      | true => exact absurd (prefixMatch_trim hp hm) hm2
    have e1 : entsP p s' = entsP p s := by
      unfold entsP; rw [hk]
      exact filter_terase_of_not _ k s.kvs (fun x hx => by
        have : x.key = k := hx
        rw [this]; exact hm')
    have e2 : tombsP p s' = tombsP p s := by
      unfold tombsP; rw [ht]
      exact filter_tupsert_of_not (fun t : Tomb => prefixMatch (trimNul p) t.key) ⟨k, i⟩ s.tombs hm2' (fun x hx => by
        have : x.key = k := hx
        show prefixMatch (trimNul p) x.key = false
        rw [this]; exact hm2')
    refine h.next hi hkb htb (Or.inl ⟨e1, e2⟩) ?_
    unfold Fresh; rw [e1, e2]; exact id

/-- the tombstone a tree delete leaves is under the list prefix -/
def TreeOk (p : Key) (d : Key) : Prop := d ≠ [] ∧ prefixMatch (trimNul p) d = true

theorem list_tree_shape {s s' : State} {d : Key} (hd : prefixMatch (trimNul p) d = true) (h : ListStep p i s0 s)
    (hi : IdxLe i s'.index) (hk : s'.kvs = s.kvs.filter (fun e => !prefixMatch d e.key))
    (ht : s'.tombs = tupsert Tomb.pk keyLt ⟨d, i⟩ s.tombs) : ListStep p i s0 s' := by
  have hkb : ∀ x ∈ s'.kvs, x.modify ≤ i := by
    intro x hx; rw [hk] at hx; exact h.bound.kvs x (List.mem_filter.mp hx).1
  have htb : ∀ t ∈ s'.tombs, t.idx ≤ i := by
    intro t ht'; rw [ht] at ht'
    rcases mem_tupsert ht' with rfl | h1
    · exact Nat.le_refl _
    · exact h.bound.tombs t h1
  have hf : Fresh p i s' := by
    refine Or.inr ⟨⟨d, i⟩, ?_, rfl⟩
    simp only [tombsP, ht, List.mem_filter]
    exact ⟨self_mem_tupsert _ _, hd⟩
  exact h.next hi hkb htb (Or.inr hf) (fun _ => hf)

theorem list_release_shape {s s' : State} {id : String} (h : ListStep p i s0 s) (hi : IdxLe i s'.index)
    (hk : s'.kvs = s.kvs.map (fun e => if heldBy id e then { e with session := "", modify := i } else e))
    (ht : s'.tombs = s.tombs) : ListStep p i s0 s' := by
  have hkb : ∀ x ∈ s'.kvs, x.modify ≤ i := by
    intro x hx; rw [hk] at hx
    simp only [List.mem_map] at hx
    obtain ⟨y, hy, rfl⟩ := hx
    split
    · exact Nat.le_refl _
    · exact h.bound.kvs y hy
  have e2 : tombsP p s' = tombsP p s := by simp [tombsP, ht]
  have ents' : entsP p s' = (entsP p s).map (fun e => if heldBy id e then { e with session := "", modify := i } else e) := by
    simp only [entsP, hk]
    rw [List.filter_map]
    congr 1
    apply List.filter_congr
    intro e _
    simp only [Function.comp]; split <;> rfl
  by_cases hex : ∃ y ∈ entsP p s, heldBy id y = true
  · obtain ⟨y, hy, hh⟩ := hex
    have hf : Fresh p i s' := by
      refine Or.inl ⟨{ y with session := "", modify := i }, ?_, rfl⟩
      rw [ents']; exact List.mem_map.mpr ⟨y, hy, by simp [hh]⟩
    exact h.next hi hkb (by rw [ht]; exact h.bound.tombs) (Or.inr hf) (fun _ => hf)
  · have e1 : entsP p s' = entsP p s := by
      rw [ents']
      conv => rhs; rw [← List.map_id (entsP p s)]
      apply List.map_congr_left
      intro y hy
      cases hh : heldBy id y with
      | false => simp
      | true => exact absurd ⟨y, hy, hh⟩ hex
    refine h.next hi hkb (by rw [ht]; exact h.bound.tombs) (Or.inl ⟨e1, e2⟩) ?_
    unfold Fresh; rw [e1, e2]; exact fun x => x

theorem list_sessdelete_shape (hp : p.head? ≠ some 0) {s s' : State} {id : String} (h : ListStep p i s0 s)
    (hi : IdxLe i s'.index) (hk : s'.kvs = s.kvs.filter (fun e => !heldBy id e))
    (ht : s'.tombs = (s.kvs.filter (heldBy id)).foldl (fun t e => tupsert Tomb.pk keyLt ⟨e.key, i⟩ t) s.tombs) :
    ListStep p i s0 s' := by
  have hkb : ∀ x ∈ s'.kvs, x.modify ≤ i := by
    intro x hx; rw [hk] at hx; exact h.bound.kvs x (List.mem_filter.mp hx).1
  have htb : ∀ t ∈ s'.tombs, t.idx ≤ i := by rw [ht]; exact tombs_bound_foldl _ _ h.bound.tombs
  by_cases hex2 : ∃ y ∈ s.kvs.filter (heldBy id), prefixMatch (trimNul p) y.key = true
  · obtain ⟨y, hy, hm⟩ := hex2
    have hf : Fresh p i s' := by
      obtain ⟨t, ht', hk', hi'⟩ := tomb_mem_foldl (i := i) (s.kvs.filter (heldBy id)) s.tombs y hy
      refine Or.inr ⟨t, ?_, hi'⟩
      simp only [tombsP, ht, List.mem_filter]
      exact ⟨ht', by rw [hk']; exact hm⟩
    exact h.next hi hkb htb (Or.inr hf) (fun _ => hf)
  · have none2 : ∀ e ∈ s.kvs.filter (heldBy id), prefixMatch (trimNul p) e.key = false := by
      intro e he
      cases hm : prefixMatch (trimNul p) e.key with
      | false => rfl
      | true => exact absurd ⟨e, he, hm⟩ hex2
    have e2 : tombsP p s' = tombsP p s := by
      unfold tombsP; rw [ht]; exact tombsP_foldl_of_not _ _ none2
    have e1 : entsP p s' = entsP p s := by
      unfold entsP; rw [hk, List.filter_filter]
      apply List.filter_congr
      intro y hy
      by_cases hm : prefixMatch p y.key = true
      · cases hh : heldBy id y with
        | false => simp [hm]
        | true =>
          have := none2 y (List.mem_filter.mpr ⟨hy, hh⟩)
          rw [prefixMatch_trim hp hm] at this; cases this
      · simp [hm]
    refine h.next hi hkb htb (Or.inl ⟨e1, e2⟩) ?_
    unfold Fresh; rw [e1, e2]; exact fun x => x

/-! ### the primitives -/

theorem list_kvInsert {s : State} (e : KV) (he : e.modify = i) (h : ListStep p i s0 s) :
    ListStep p i s0 (kvInsert s e) :=
  list_insert_shape he h ((tbl_kvInsert s e he).ops.le h.bound.idx) rfl rfl

theorem list_kvDelete (hp : p.head? ≠ some 0) {s s' : State} {k : Key} (hr : kvDeleteTxn s i k = .ok s')
    (h : ListStep p i s0 s) : ListStep p i s0 s' := by
  have T := tbl_kvDelete hr
  simp only [kvDeleteTxn] at hr
  repeat' (split at hr)
  all_goals (try simp at hr)
  all_goals (subst hr)
  · exact h
  · exact list_delete_shape hp h (T.ops.le h.bound.idx) rfl rfl

theorem list_kvDeleteTree {s : State} (d : Key) (hd : TreeOk p d) (h : ListStep p i s0 s) :
    ListStep p i s0 (kvDeleteTreeTxn s i d) := by
  have T := tbl_kvDeleteTree (i := i) s d
  unfold kvDeleteTreeTxn at T ⊢
  split
  · next hany =>
    simp only [hany, if_true] at T
    have hi := T.ops.le h.bound.idx
    simp only [hd.1, ne_eq, not_false_eq_true, if_true] at hi ⊢
    exact list_tree_shape hd.2 h hi rfl rfl
  · exact h

theorem list_invalidateKeys (hp : p.head? ≠ some 0) {s : State} (sess : Sess) (h : ListStep p i s0 s) :
    ListStep p i s0 (invalidateKeys s i sess) := by
  have hi := (tbl_invalidateKeys (i := i) s sess).ops.le h.bound.idx
  unfold invalidateKeys at hi ⊢
  simp only at hi ⊢
  split
  · exact h
  · next hne =>
    simp only [hne] at hi
    split
    · next hb => simp only [hb] at hi; exact list_release_shape h hi rfl rfl
    · next hb => simp only [hb] at hi; exact list_sessdelete_shape hp h hi rfl rfl


/-! ### everything else leaves entries and tombstones alone -/

/-- the two tables a list query reads -/
def kvt (s : State) : List KV × List Tomb := (s.kvs, s.tombs)

theorem kvt_bump (s : State) (n : String) : kvt (bumpServiceIdx s i n) = kvt s := rfl

theorem kvt_foldl_bump (l : List Svc) (s : State) :
    kvt (l.foldl (fun st (v : Svc) => bumpServiceIdx st i v.name) s) = kvt s := by
  induction l generalizing s with
  | nil => rfl
  | cons v vs ih => rw [List.foldl_cons, ih, kvt_bump]

theorem kvt_updateAll (s : State) (n : String) : kvt (updateAllServiceIndexesOfNode s i n) = kvt s := by
  unfold updateAllServiceIndexesOfNode; exact kvt_foldl_bump _ s

theorem kvt_checkPrep {s s1 : State} {pr : Bool} {hc hc1 : Chk} {md : Bool}
    (hr : checkPrep s i pr hc = .ok (s1, hc1, md)) : kvt s1 = kvt s := by
  simp only [checkPrep] at hr
  repeat' (split at hr)
  all_goals (try simp at hr)
  all_goals (obtain ⟨rfl, -⟩ := hr)
  all_goals (first | rfl | exact kvt_updateAll _ _)

theorem kvt_dropSessionRefs (s : State) (id : String) : kvt (dropSessionRefs s i id) = kvt s := by
  unfold dropSessionRefs; simp only; split <;> rfl

theorem kvt_checkFinish (s : State) (pr : Bool) (hc : Chk) (md : Bool) : kvt (checkFinish s i pr hc md) = kvt s := by
  unfold checkFinish; split <;> rfl

theorem kvt_pqSet {s s' : State} {id sess : String} (hr : pqSet s i id sess = .ok s') : kvt s' = kvt s := by
  simp only [pqSet] at hr
  repeat' (split at hr)
  all_goals (try simp at hr)
  all_goals (subst hr; rfl)

theorem kvt_pqDelete (s : State) (id : String) : kvt (pqDelete s i id) = kvt s := by
  unfold pqDelete; split <;> rfl

theorem kvt_nodeInsert (s : State) (n : Node) : kvt (nodeInsert s n) = kvt s := by
  unfold nodeInsert; simp only; rw [kvt_updateAll]; rfl

theorem kvt_deleteCheckPre (s : State) (node id : String) (x : Chk) : kvt (deleteCheckPre s i node id x) = kvt s := by
  unfold deleteCheckPre
  simp only
  split
  · rfl
  · show kvt (updateAllServiceIndexesOfNode s i x.node) = kvt s
    exact kvt_updateAll _ _

theorem kvt_deleteServicePost (s : State) (node id : String) (v : Svc) : kvt (deleteServicePost s i node id v) = kvt s := by
  rw [deleteServicePost_eq]
  split <;> simp [kvt, dspMid]

theorem list_closed (hp : p.head? ≠ some 0) (s0 : State) : PrimClosed i { T := TreeOk p } (ListStep p i s0) where
  kvInsert s e he h := list_kvInsert e he h
  kvDelete s s' k hr h := list_kvDelete hp hr h
  kvDeleteTree s d hd h := list_kvDeleteTree d hd h
  removeSessionRow s id h := h.ofTbl (tbl_removeSessionRow s id) rfl rfl
  invalidateKeys s sess h := list_invalidateKeys hp sess h
  dropSessionRefs s id h :=
    h.ofTbl (tbl_dropSessionRefs s id) (congrArg Prod.fst (kvt_dropSessionRefs s id)) (congrArg Prod.snd (kvt_dropSessionRefs s id))
  checkPrep s s1 pr hc hc1 md hr _ h :=
    h.ofTbl (tbl_checkPrep hr) (congrArg Prod.fst (kvt_checkPrep hr)) (congrArg Prod.snd (kvt_checkPrep hr))
  checkFinish _ _ s pr _ hc md _ _ _ _ _ h :=
    h.ofTbl (tbl_checkFinish s pr hc md) (congrArg Prod.fst (kvt_checkFinish s pr hc md)) (congrArg Prod.snd (kvt_checkFinish s pr hc md))
  chkRows _ _ _ _ := trivial
  insertSession s x h := h.ofTbl (tbl_insertSession s x) rfl rfl
  pqSet s s' id sess hr h := h.ofTbl (tbl_pqSet hr) (congrArg Prod.fst (kvt_pqSet hr)) (congrArg Prod.snd (kvt_pqSet hr))
  pqDelete s id h := h.ofTbl (tbl_pqDelete s id) (congrArg Prod.fst (kvt_pqDelete s id)) (congrArg Prod.snd (kvt_pqDelete s id))
  nodeInsert s n hn _ h :=
    h.ofTbl (tbl_nodeInsert s n hn) (congrArg Prod.fst (kvt_nodeInsert s n)) (congrArg Prod.snd (kvt_nodeInsert s n))
  nodeNames _ _ _ _ := trivial
  deleteCheckPre s node id x _ h :=
    h.ofTbl (tbl_deleteCheckPre s node id x) (congrArg Prod.fst (kvt_deleteCheckPre s node id x))
      (congrArg Prod.snd (kvt_deleteCheckPre s node id x))
  deleteServicePost s node id v _ _ _ h :=
    h.ofTbl (tbl_deleteServicePost s node id v) (congrArg Prod.fst (kvt_deleteServicePost s node id v))
      (congrArg Prod.snd (kvt_deleteServicePost s node id v))
  deleteNodePost s name _ _ _ h := h.ofTbl (tbl_deleteNodePost s name) rfl rfl
  bumpServiceIdx s name _ h := h.ofTbl (tbl_bump s name) rfl rfl
  svcInsert s v hv _ _ _ h := h.ofTbl (tbl_svcInsert s v hv) (by simp [svcInsert]) (by simp [svcInsert])

/-! ### the bound alone is closed under everything -/

theorem KvBound.frame {s s' : State} (h : KvBound i s) (hk : s'.kvs = s.kvs) (ht : s'.tombs = s.tombs)
    (hi : IdxLe i s'.index) : KvBound i s' :=
  ⟨hi, by rw [hk]; exact h.kvs, by rw [ht]; exact h.tombs⟩

theorem KvBound.ofTbl {s s' : State} (h : KvBound i s) (t : Tbl1 i s s') (hk : kvt s' = kvt s) : KvBound i s' :=
  h.frame (congrArg Prod.fst hk) (congrArg Prod.snd hk) (t.ops.le h.idx)

theorem bound_closed (i : Nat) : PrimClosed i Guard.any (KvBound i) where
  kvInsert s e he h := by
    refine ⟨(tbl_kvInsert s e he).ops.le h.idx, ?_, h.tombs⟩
    intro x hx
    rcases mem_tupsert hx with rfl | h1
    · omega
    · exact h.kvs x h1
  kvDelete s s' k hr h := by
    have T := tbl_kvDelete hr
    simp only [kvDeleteTxn] at hr
    repeat' (split at hr)
    all_goals (try simp at hr)
    all_goals (subst hr)
    · exact h
    · refine ⟨T.ops.le h.idx, ?_, ?_⟩
      · intro x hx; exact h.kvs x (mem_terase.mp hx).1
      · intro t ht
        rcases mem_tupsert ht with rfl | h1
        · exact Nat.le_refl _
        · exact h.tombs t h1
  kvDeleteTree s d _ h := by
    have T := tbl_kvDeleteTree (i := i) s d
    unfold kvDeleteTreeTxn at T ⊢
    split
    · next hany =>
      simp only [hany, if_true] at T
      have hi := T.ops.le h.idx
      refine ⟨hi, ?_, ?_⟩
      · intro x hx
        have : x ∈ s.kvs.filter (fun e => !prefixMatch d e.key) := by
          split at hx <;> exact hx
        exact h.kvs x (List.mem_filter.mp this).1
      · intro t ht
        split at ht
        · rcases mem_tupsert ht with rfl | h1
          · exact Nat.le_refl _
          · exact h.tombs t h1
        · exact h.tombs t ht
    · exact h
  removeSessionRow s id h := h.ofTbl (tbl_removeSessionRow s id) rfl
  invalidateKeys s sess h := by
    have hi := (tbl_invalidateKeys (i := i) s sess).ops.le h.idx
    unfold invalidateKeys at hi ⊢
    simp only at hi ⊢
    split
    · exact h
    · next hne =>
      simp only [hne] at hi
      split
      · next hb =>
        simp only [hb] at hi
        refine ⟨hi, ?_, h.tombs⟩
        intro x hx
        simp only [List.mem_map] at hx
        obtain ⟨y, hy, rfl⟩ := hx
        split
        · exact Nat.le_refl _
        · exact h.kvs y hy
      · next hb =>
        simp only [hb] at hi
        exact ⟨hi, fun x hx => h.kvs x (List.mem_filter.mp hx).1, tombs_bound_foldl _ _ h.tombs⟩
  dropSessionRefs s id h := h.ofTbl (tbl_dropSessionRefs s id) (kvt_dropSessionRefs s id)
  checkPrep s s1 pr hc hc1 md hr _ h := h.ofTbl (tbl_checkPrep hr) (kvt_checkPrep hr)
  checkFinish _ _ s pr _ hc md _ _ _ _ _ h := h.ofTbl (tbl_checkFinish s pr hc md) (kvt_checkFinish s pr hc md)
  chkRows _ _ _ _ := trivial
  insertSession s x h := h.ofTbl (tbl_insertSession s x) rfl
  pqSet s s' id sess hr h := h.ofTbl (tbl_pqSet hr) (kvt_pqSet hr)
  pqDelete s id h := h.ofTbl (tbl_pqDelete s id) (kvt_pqDelete s id)
  nodeInsert s n hn _ h := h.ofTbl (tbl_nodeInsert s n hn) (kvt_nodeInsert s n)
  nodeNames _ _ _ _ := trivial
  deleteCheckPre s node id x _ h := h.ofTbl (tbl_deleteCheckPre s node id x) (kvt_deleteCheckPre s node id x)
  deleteServicePost s node id v _ _ _ h := h.ofTbl (tbl_deleteServicePost s node id v) (kvt_deleteServicePost s node id v)
  deleteNodePost s name _ _ _ h := h.ofTbl (tbl_deleteNodePost s name) rfl
  bumpServiceIdx s name _ h := h.ofTbl (tbl_bump s name) rfl
  svcInsert s v hv _ _ _ h := h.ofTbl (tbl_svcInsert s v hv) (by simp [kvt, svcInsert])

/-- every stored index is bounded by the index of the last applied command -/
theorem kvBound_step {m : Nat} {s : State} (c : Cmd) (h : KvBound m s) (hmi : m ≤ i) : KvBound i (apply s i c).1 := by
  by_cases hc : ∀ u, c ≠ .reap u
  · exact pc_apply (bound_closed i) c hc (Cmd.ok_any c) (h.mono hmi)
  · have : ∃ u, c = .reap u := by
      cases c <;> simp at hc ⊢
    obtain ⟨u, rfl⟩ := this
    have hb := h.mono hmi
    exact ⟨hb.idx, hb.kvs, fun t ht => hb.tombs t (List.mem_filter.mp ht).1⟩

/-- the list query across one command (not a reap) whose tree deletes are not above the prefix -/
theorem list_apply (hp : p.head? ≠ some 0) {m : Nat} {s : State} (c : Cmd) (hc : ∀ u, c ≠ .reap u)
    (hT : ∀ d ∈ c.trees, TreeOk p d) (h : KvBound m s) (hmi : m ≤ i) : ListStep p i s (apply s i c).1 :=
  pc_apply (list_closed hp s) c hc ⟨hT, fun _ _ => trivial, fun _ _ => trivial, fun _ _ => trivial⟩ ⟨h.mono hmi, Or.inl ⟨rfl, rfl⟩⟩

end CV.Store
