/-
C14 helper lemmas, part 4: `IntentionPrecedenceSorter.Less` is a strict total order on
intentions with distinct (source peer, source name, destination) keys, so the sorted list — and
with it the whole translation — does not depend on the order of the input.
-/
import CV.Proofs.RbacSem
namespace CV.Rbac

/-- the uniqueness key of an intention (config entry validation: one source per entry, one entry
    per destination) -/
def Ixn.fkey (i : Ixn) : Name × Name × Name := (i.peer, i.name, i.dst)

/-- the tie-break: lexicographic on (peer, name, destination), bytewise -/
def lex3 (x y : Name × Name × Name) : Prop :=
  x.1 < y.1 ∨ (x.1 = y.1 ∧ (x.2.1 < y.2.1 ∨ (x.2.1 = y.2.1 ∧ x.2.2 < y.2.2)))

theorem blt_trans {a b c : Name} (h1 : a < b) (h2 : b < c) : a < c := List.lt_trans h1 h2
theorem blt_irrefl (a : Name) : ¬ a < a := List.lt_irrefl a
theorem blt_tri (a b : Name) : a < b ∨ a = b ∨ b < a := Std.lt_trichotomy a b

theorem lex3_trans {x y z : Name × Name × Name} (h1 : lex3 x y) (h2 : lex3 y z) : lex3 x z := by
  unfold lex3 at *
  rcases h1 with h1 | ⟨e1, h1 | ⟨f1, h1⟩⟩ <;> rcases h2 with h2 | ⟨e2, h2 | ⟨f2, h2⟩⟩
  · exact Or.inl (blt_trans h1 h2)
  · exact Or.inl (e2 ▸ h1)
  · exact Or.inl (e2 ▸ h1)
  · exact Or.inl (e1 ▸ h2)
  · exact Or.inr ⟨e1.trans e2, Or.inl (blt_trans h1 h2)⟩
  · exact Or.inr ⟨e1.trans e2, Or.inl (f2 ▸ h1)⟩
  · exact Or.inl (e1 ▸ h2)
  · exact Or.inr ⟨e1.trans e2, Or.inl (f1 ▸ h2)⟩
  · exact Or.inr ⟨e1.trans e2, Or.inr ⟨f1.trans f2, blt_trans h1 h2⟩⟩

theorem lex3_irrefl (x : Name × Name × Name) : ¬ lex3 x x := by
  unfold lex3
  rintro (h | ⟨_, h | ⟨_, h⟩⟩) <;> exact blt_irrefl _ h

theorem lex3_tri (x y : Name × Name × Name) : lex3 x y ∨ x = y ∨ lex3 y x := by
  unfold lex3
  obtain ⟨x1, x2, x3⟩ := x
  obtain ⟨y1, y2, y3⟩ := y
  simp only
  rcases blt_tri x1 y1 with h | h | h
  · exact Or.inl (Or.inl h)
  · rcases blt_tri x2 y2 with g | g | g
    · exact Or.inl (Or.inr ⟨h, Or.inl g⟩)
    · rcases blt_tri x3 y3 with k | k | k
      · exact Or.inl (Or.inr ⟨h, Or.inr ⟨g, k⟩⟩)
      · exact Or.inr (Or.inl (by rw [h, g, k]))
      · exact Or.inr (Or.inr (Or.inr ⟨h.symm, Or.inr ⟨g.symm, k⟩⟩))
    · exact Or.inr (Or.inr (Or.inr ⟨h.symm, Or.inl g⟩))
  · exact Or.inr (Or.inr (Or.inl h))

theorem less_iff (a b : Ixn) :
    less a b = true ↔ (b.prec < a.prec ∨ (a.prec = b.prec ∧ lex3 a.fkey b.fkey)) := by
  unfold less bLt lex3 Ixn.fkey
  by_cases hp : a.prec = b.prec
  · by_cases h1 : a.peer = b.peer
    · by_cases h2 : a.name = b.name
      · simp [hp, h1, h2, blt_irrefl]
      · simp [hp, h1, h2, blt_irrefl]
    · simp [hp, h1]
  · simp only [ne_eq, hp, not_false_eq_true, if_true, gt_iff_lt, decide_eq_true_eq, false_and, or_false]

theorem less_trans (a b c : Ixn) (h1 : less a b = true) (h2 : less b c = true) : less a c = true := by
  rw [less_iff] at *
  rcases h1 with h1 | ⟨e1, h1⟩ <;> rcases h2 with h2 | ⟨e2, h2⟩
  · exact Or.inl (by omega)
  · exact Or.inl (by omega)
  · exact Or.inl (by omega)
  · exact Or.inr ⟨by omega, lex3_trans h1 h2⟩

theorem less_asymm (a b : Ixn) (h1 : less a b = true) (h2 : less b a = true) : False := by
  rw [less_iff] at *
  rcases h1 with h1 | ⟨e1, h1⟩ <;> rcases h2 with h2 | ⟨e2, h2⟩
  · omega
  · omega
  · omega
  · exact lex3_irrefl _ (lex3_trans h1 h2)

/-- totality on distinct keys: the tie-break always decides -/
theorem less_total (a b : Ixn) (h : a.fkey ≠ b.fkey) : less a b = true ∨ less b a = true := by
  rw [less_iff, less_iff]
  rcases Nat.lt_trichotomy a.prec b.prec with hp | hp | hp
  · exact Or.inr (Or.inl hp)
  · rcases lex3_tri a.fkey b.fkey with k | k | k
    · exact Or.inl (Or.inr ⟨hp, k⟩)
    · exact absurd k h
    · exact Or.inr (Or.inr ⟨hp.symm, k⟩)
  · exact Or.inl (Or.inl hp)

theorem ins_perm {α : Type} (lt : α → α → Bool) (x : α) (l : List α) : (ins lt x l).Perm (x :: l) := by
  induction l with
  | nil => exact List.Perm.refl _
  | cons y ys ih =>
    simp only [ins]
    split
    · exact (List.Perm.cons y ih).trans (List.Perm.swap x y ys)
    · exact List.Perm.refl _

theorem isort_perm {α : Type} (lt : α → α → Bool) (l : List α) : (isort lt l).Perm l := by
  induction l with
  | nil => exact List.Perm.refl _
  | cons x xs ih => exact (ins_perm lt x _).trans (List.Perm.cons x ih)

theorem ins_strict (x : Ixn) (l : List Ixn) (hs : l.Pairwise (fun a b => less a b = true))
    (hk : ∀ y ∈ l, y.fkey ≠ x.fkey) : (ins less x l).Pairwise (fun a b => less a b = true) := by
  induction l with
  | nil => simp [ins]
  | cons y ys ih =>
    have hp := List.pairwise_cons.mp hs
    simp only [ins]
    split
    · next hl =>
      apply List.pairwise_cons.mpr
      refine ⟨?_, ih hp.2 (fun z hz => hk z (List.mem_cons_of_mem _ hz))⟩
      intro z hz
      cases (mem_ins less x z ys).mp hz with
      | inl e => rw [e]; exact hl
      | inr e => exact hp.1 z e
    · next hl =>
      have hxy : less x y = true := by
        cases less_total y x (hk y List.mem_cons_self) with
        | inl h => exact absurd h hl
        | inr h => exact h
      apply List.pairwise_cons.mpr
      refine ⟨?_, hs⟩
      intro z hz
      cases List.mem_cons.mp hz with
      | inl e => rw [e]; exact hxy
      | inr e => exact less_trans x y z hxy (hp.1 z e)

theorem sortIxns_strict (l : List Ixn) (h : l.Pairwise (fun a b => a.fkey ≠ b.fkey)) :
    (sortIxns l).Pairwise (fun a b => less a b = true) := by
  induction l with
  | nil => simp [sortIxns, isort]
  | cons x xs ih =>
    have hp := List.pairwise_cons.mp h
    apply ins_strict x _ (ih hp.2)
    intro y hy
    have : y ∈ xs := (mem_isort less y xs).mp hy
    exact fun e => hp.1 y this e.symm

/-- the sorted list is a function of the SET of intentions when their keys are distinct -/
theorem sortIxns_perm_invariant (xs ys : List Ixn) (h : xs.Pairwise (fun a b => a.fkey ≠ b.fkey))
    (hp : xs.Perm ys) : sortIxns xs = sortIxns ys := by
  have hy : ys.Pairwise (fun a b => a.fkey ≠ b.fkey) :=
    (List.Perm.pairwise_iff (fun {x y} (h : x.fkey ≠ y.fkey) => fun e => h e.symm) hp).mp h
  apply List.Perm.eq_of_pairwise (le := fun a b => less a b = true)
  · intro a b _ _ h1 h2; exact absurd h2 (fun h2 => less_asymm a b h1 h2)
  · exact sortIxns_strict xs h
  · exact sortIxns_strict ys hy
  · exact (isort_perm less xs).trans (hp.trans (isort_perm less ys).symm)

/-! ### `simplifyNotSourceSlice` with the covering test the other way round -/

/-- the mutant: drops the GENERAL element when a more specific one follows -/
def keepNotCoveredSwapped : List Src → List Src
  | [] => []
  | s :: rest =>
    if rest.any (fun sj => ixnSourceMatches sj s) then keepNotCoveredSwapped rest else s :: keepNotCoveredSwapped rest

def simplifyNotSourcesSwapped (l : List Src) : List Src :=
  if l.length ≤ 1 then l else keepNotCoveredSwapped (stableSortBy countWild l)

theorem exact_no_match (a b : Src) (ha : a.name ≠ star) (hb : b.name ≠ star) : ixnSourceMatches a b = false := by
  cases h : ixnSourceMatches a b with
  | false => rfl
  | true => exact absurd ((ixnSourceMatches_iff a b).mp h).2.1 hb

theorem keep_exact (l : List Src) (h : ∀ n ∈ l, n.name ≠ star) :
    keepNotCovered l = l ∧ keepNotCoveredSwapped l = l := by
  induction l with
  | nil => exact ⟨rfl, rfl⟩
  | cons s rest ih =>
    have ih' := ih (fun n hn => h n (List.mem_cons_of_mem _ hn))
    have h1 : rest.any (ixnSourceMatches s) = false := by
      simp only [List.any_eq_false]
      intro b hb; simp [exact_no_match s b (h s List.mem_cons_self) (h b (List.mem_cons_of_mem _ hb))]
    have h2 : rest.any (fun sj => ixnSourceMatches sj s) = false := by
      simp only [List.any_eq_false]
      intro b hb; simp [exact_no_match b s (h b (List.mem_cons_of_mem _ hb)) (h s List.mem_cons_self)]
    simp [keepNotCovered, keepNotCoveredSwapped, h1, h2, ih'.1, ih'.2]

/-- on lists of exact sources both variants keep everything -/
theorem simplify_direction_irrelevant_on_exact (l : List Src) (h : ∀ n ∈ l, n.name ≠ star) :
    simplifyNotSourcesSwapped l = simplifyNotSources l := by
  unfold simplifyNotSourcesSwapped simplifyNotSources
  split
  · rfl
  · have hs : ∀ n ∈ stableSortBy countWild l, n.name ≠ star :=
      fun n hn => h n ((mem_stableSortBy _ _ _).mp hn)
    rw [(keep_exact _ hs).1, (keep_exact _ hs).2]

/-- in CE every NOT-source that `removeSourcePrecedence` attaches is an exact source (only an exact
    source is covered by another one) -/
theorem rspGo_nots_exact (env : Env) (xf dflt : Bool) (rp rest : List RIxn) :
    ∀ z ∈ rspGo env xf dflt rp rest, ∀ n ∈ z.nots, n.name ≠ star := by
  induction rest generalizing rp with
  | nil => simp [rspGo]
  | cons x rest ih =>
    intro z hz
    simp only [rspGo] at hz
    split at hz
    · exact ih _ z hz
    · cases List.mem_cons.mp hz with
      | inr h => exact ih _ z h
      | inl h =>
        subst h
        intro n hn
        simp only [List.mem_map, List.mem_filter] at hn
        obtain ⟨i, ⟨_, hm⟩, rfl⟩ := hn
        exact ((ixnSourceMatches_iff _ _).mp hm).1

end CV.Rbac
