/-
Helper lemmas for C08, part 6: the TTL caches of RPC-mode resolution. With reachable servers and a
waiting down policy, a resolution returns the cache-free resolution on a *view* in which every object
consulted has a value the servers held at a moment within its TTL window.
-/
import CV.AclRpc
import CV.Proofs.AclCache
namespace CV.Acl

/-! ### timed caches -/

theorem TCache.get_mem {β : Type} {c : TCache β} {k : Bytes} {e : Entry β} (h : c.get k = some e) : (k, e) ∈ c := by
  unfold TCache.get at h
  cases hf : c.find? (fun x => x.1 = k) with
  | none => rw [hf] at h; cases h
  | some x =>
    rw [hf] at h
    have h1 := List.mem_of_find?_eq_some hf
    have h2 := List.find?_some hf
    simp only [decide_eq_true_eq] at h2
    simp only [Option.map_some, Option.some.injEq] at h
    cases x; simp only at h h2; subst h h2; exact h1

theorem TCache.mem_put {β : Type} {c : TCache β} {k k' : Bytes} {v : β} {now : Nat} {e : Entry β}
    (h : (k', e) ∈ c.put k v now) : (k' = k ∧ e.val = v ∧ e.time = now) ∨ (k', e) ∈ c := by
  simp only [TCache.put, List.mem_cons, List.mem_filter] at h
  rcases h with h | h
  · left; cases h; exact ⟨rfl, rfl, rfl⟩
  · right; exact h.1

theorem TCache.mem_remove {β : Type} {c : TCache β} {k k' : Bytes} {e : Entry β}
    (h : (k', e) ∈ c.remove k) : (k', e) ∈ c := by
  simp only [TCache.remove, List.mem_filter] at h; exact h.1

theorem mem_foldl_put {β : Type} (w : Bytes → β) (now : Nat) (ids : List Bytes) (c : TCache β)
    (k : Bytes) (e : Entry β) (h : (k, e) ∈ ids.foldl (fun c id => c.put id (w id) now) c) :
    (e.val = w k ∧ e.time = now) ∨ (k, e) ∈ c := by
  induction ids generalizing c with
  | nil => exact .inr h
  | cons id ids ih =>
    rcases ih _ h with h | h
    · exact .inl h
    · rcases TCache.mem_put h with ⟨rfl, h2, h3⟩ | h
      · exact .inl ⟨h2, h3⟩
      · exact .inr h

/-! ### views -/

/-- what a resolution at `now` takes a role / policy id to be: the fresh cache entry (positive or
    negative) if there is one, else what the servers answer -/
def viewOf {α : Type} (cache : TCache (Option α)) (now ttl : Nat) (lookup : Bytes → Option α) (k : Bytes) : Option α :=
  match classify (cache.get k) now ttl with
  | .hit v => v
  | _ => lookup k

/-- the same for the identity -/
def viewTok (cache : TCache Token) (now ttl : Nat) (lookup : Bytes → Option Token) (k : Bytes) : Option Token :=
  match cache.get k with
  | some x => if now - x.time ≤ ttl then some x.val else lookup k
  | none => lookup k

theorem filterSome_map {α β : Type} (f : α → Option β) (l : List α) : filterSome (l.map f) = l.filterMap f := by
  induction l with
  | nil => rfl
  | cons a l ih =>
    simp only [filterSome, List.map_cons, List.filterMap_cons] at ih ⊢
    cases f a <;> simp [ih]

/-- with reachable servers and a waiting down policy, `collect` lists the view of every id and only
    adds entries that hold the servers' current answer -/
theorem collect_up {α : Type} (extend : Bool) (lookup : Bytes → Option α) (cache : TCache (Option α))
    (ids : List Bytes) (now ttl : Nat) :
    (collect extend false true lookup cache ids now ttl).vals = some (ids.map (viewOf cache now ttl lookup)) ∧
    ∀ k e, (k, e) ∈ (collect extend false true lookup cache ids now ttl).cache →
      (e.val = lookup k ∧ e.time = now) ∨ (k, e) ∈ cache := by
  unfold collect
  simp only
  by_cases hemp : (ids.filter fun id => !(classify (cache.get id) now ttl).isHit).isEmpty = true
  · rw [if_pos hemp]
    refine ⟨?_, fun k e h => .inr h⟩
    simp only [Option.some.injEq]
    apply List.map_congr_left
    intro id hid
    have : (classify (cache.get id) now ttl).isHit = true := by
      have h0 := List.isEmpty_iff.mp hemp
      have := List.filter_eq_nil_iff.mp h0 id hid
      simpa using this
    unfold viewOf
    cases hc : classify (cache.get id) now ttl <;> simp [hc, Class.isHit] at this ⊢
  · rw [if_neg hemp]
    simp only [Bool.not_false, Bool.or_true, if_true, Option.isSome_some, List.all_eq_true, implies_true]
    refine ⟨?_, fun k e h => mem_foldl_put _ now _ cache k e h⟩
    simp only [Option.some.injEq]
    apply List.map_congr_left
    intro id _
    unfold viewOf
    cases classify (cache.get id) now ttl <;> rfl

/-- the identity, with reachable servers and a waiting down policy -/
theorem resolveIdent_up (cfg : RpcCfg) (hna : cfg.isAsync = false) (lookup : Bytes → Option Token)
    (cache : TCache Token) (k : Bytes) (now : Nat) :
    (resolveIdent cfg true lookup cache k now).2 =
      (match viewTok cache now cfg.tokenTTL lookup k with | some t => .ok t | none => .error .notFound) ∧
    ∀ k' e, (k', e) ∈ (resolveIdent cfg true lookup cache k now).1 →
      (k' = k ∧ some e.val = lookup k ∧ e.time = now) ∨ (k', e) ∈ cache := by
  have fetchSpec : ∀ (c' : TCache Token) (r : Except IdErr Token),
      (c', r) = (match lookup k with
        | none => (cache.remove k, Except.error IdErr.notFound)
        | some t => (cache.put k t now, Except.ok t)) →
      r = (match lookup k with | some t => .ok t | none => .error .notFound) ∧
      ∀ k' e, (k', e) ∈ c' → (k' = k ∧ some e.val = lookup k ∧ e.time = now) ∨ (k', e) ∈ cache := by
    intro c' r h
    cases hl : lookup k with
    | none =>
      rw [hl] at h; cases h
      exact ⟨rfl, fun k' e h => .inr (TCache.mem_remove h)⟩
    | some t =>
      rw [hl] at h; cases h
      refine ⟨rfl, fun k' e h => ?_⟩
      rcases TCache.mem_put h with ⟨h1, h2, h3⟩ | h
      · exact .inl ⟨h1, by rw [h2], h3⟩
      · exact .inr h
  unfold resolveIdent viewTok
  cases hg : cache.get k with
  | none =>
    simp only [if_true]
    exact fetchSpec _ _ rfl
  | some x =>
    by_cases hf : now - x.time ≤ cfg.tokenTTL
    · simp only [hf, decide_true, if_true]
      exact ⟨trivial, fun k' e h => .inr h⟩
    · simp only [hf, decide_false, if_true, hna, Bool.false_eq_true, if_false]
      exact fetchSpec _ _ rfl

/-! ### the invariant: every cache entry is a value the servers held when it was written -/

abbrev Snap := Nat × Store

/-- `trace` lists (clock, server state) for every moment of the history so far -/
structure RpcInv (U : Doc → Prop) (trace : List Snap) (now : Nat) (st : RpcState) : Prop where
  times : ∀ p ∈ trace, p.1 ≤ now
  docsU : ∀ p ∈ trace, ∀ d ∈ p.2.docs, U d
  idents : ∀ k e, (k, e) ∈ st.idents → ∃ p ∈ trace, p.1 = e.time ∧ p.2.token k = some e.val
  roles : ∀ k e, (k, e) ∈ st.roles → ∃ p ∈ trace, p.1 = e.time ∧ p.2.role k = e.val
  pols : ∀ k e, (k, e) ∈ st.pols → ∃ p ∈ trace, p.1 = e.time ∧ p.2.doc k = e.val
  caches : CacheInv U st.caches

/-- the value comes from a moment of the history whose clock lies in `[now - ttl, now]` -/
def InWindow {β : Type} (trace : List Snap) (now ttl : Nat) (get : Store → β) (v : β) : Prop :=
  ∃ p ∈ trace, p.1 ≤ now ∧ now ≤ p.1 + ttl ∧ v = get p.2

theorem viewOf_window {α : Type} (trace : List Snap) (now ttl : Nat) (s : Store) (hcur : (now, s) ∈ trace)
    (htimes : ∀ p ∈ trace, p.1 ≤ now) (get : Store → Bytes → Option α) (cache : TCache (Option α))
    (hc : ∀ k e, (k, e) ∈ cache → ∃ p ∈ trace, p.1 = e.time ∧ get p.2 k = e.val) (k : Bytes) :
    InWindow trace now ttl (fun st => get st k) (viewOf cache now ttl (get s) k) := by
  have cur : InWindow trace now ttl (fun st => get st k) (get s k) :=
    ⟨(now, s), hcur, Nat.le_refl _, Nat.le_add_right _ _, rfl⟩
  unfold viewOf
  cases hg : cache.get k with
  | none => exact cur
  | some e =>
    obtain ⟨p, hp, ht, hv⟩ := hc k e (TCache.get_mem hg)
    obtain ⟨v, t⟩ := e
    simp only at ht hv
    by_cases hage : now - t ≥ ttl
    · cases v <;> simp only [classify, hage, if_true] <;> exact cur
    · have hw : InWindow trace now ttl (fun st => get st k) v :=
        ⟨p, hp, htimes p hp, by omega, hv.symm⟩
      cases v <;> simp only [classify, hage, if_false] <;> exact hw

theorem viewTok_window (trace : List Snap) (now ttl : Nat) (s : Store) (hcur : (now, s) ∈ trace)
    (htimes : ∀ p ∈ trace, p.1 ≤ now) (cache : TCache Token)
    (hc : ∀ k e, (k, e) ∈ cache → ∃ p ∈ trace, p.1 = e.time ∧ p.2.token k = some e.val) (k : Bytes) :
    InWindow trace now ttl (fun st => st.token k) (viewTok cache now ttl s.token k) := by
  have cur : InWindow trace now ttl (fun st => st.token k) (s.token k) :=
    ⟨(now, s), hcur, Nat.le_refl _, Nat.le_add_right _ _, rfl⟩
  unfold viewTok
  cases hg : cache.get k with
  | none => exact cur
  | some e =>
    obtain ⟨p, hp, ht, hv⟩ := hc k e (TCache.get_mem hg)
    by_cases hle : now - e.time ≤ ttl
    · simp only [hle, if_true]
      exact ⟨p, hp, htimes p hp, by omega, hv.symm⟩
    · simp only [hle, if_false]
      exact cur

/-! ### the cache-free resolution on a view -/

/-- `ResolveToken` without any cache, on given resolutions of secrets, role ids and policy ids -/
def resolveFreshV (tok : Bytes → Option Token) (role : Bytes → Option Role) (doc : Bytes → Option Doc)
    (dc : Bytes) (secret : Bytes) : Except ResolveErr Authz :=
  if secret ∈ rootNames then .error .root
  else
    match tok (if secret = [] then anonymousToken else secret) with
    | none => .error .notFound
    | some t =>
      match compileFresh (policiesForV role doc dc t) with
      | none => .error .compile
      | some z => .ok z

def RpcResult.ofExcept : Except ResolveErr Authz → RpcResult
  | .error e => .err e
  | .ok z => .ok z

theorem mem_policiesForV (U : Doc → Prop) (hsvc : ∀ x, U (svcDoc x)) (hnode : ∀ x, U (nodeDoc x))
    (htp : ∀ x, U (tpDoc x))
    (role : Bytes → Option Role) (doc : Bytes → Option Doc) (hdoc : ∀ k d, doc k = some d → U d)
    (dc : Bytes) (t : Token) : ∀ d ∈ policiesForV role doc dc t, U d := by
  intro d hd
  unfold policiesForV at hd
  split at hd
  · cases hd
  · have := mem_filterByScope hd
    simp only [List.mem_append, List.mem_filterMap] at this
    rcases this with ⟨id, _, h⟩ | h
    · exact hdoc id d h
    · exact mem_synthDocs U hsvc hnode htp _ _ d h

theorem compileRpc_spec {U : Doc → Prop} (hV : Versioned U) (st : RpcState) (hc : CacheInv U st.caches)
    (ds : List Doc) (hU : ∀ d ∈ ds, U d) :
    (compileRpc st ds).2 = (match compileFresh ds with | none => .err .compile | some z => .ok z) ∧
    CacheInv U (compileRpc st ds).1.caches ∧ (compileRpc st ds).1.idents = st.idents ∧
    (compileRpc st ds).1.roles = st.roles ∧ (compileRpc st ds).1.pols = st.pols := by
  have ⟨h1, h2⟩ := compile_spec hV st.caches hc ds hU
  cases hz : (compile st.caches ds).authz with
  | none =>
    have e : compileRpc st ds = ({ st with caches := (compile st.caches ds).caches }, .err .compile) := by
      simp [compileRpc, hz]
    rw [hz] at h1
    rw [e, ← h1]; exact ⟨rfl, h2, rfl, rfl, rfl⟩
  | some z =>
    have e : compileRpc st ds = ({ st with caches := (compile st.caches ds).caches }, .ok z) := by
      simp [compileRpc, hz]
    rw [hz] at h1
    rw [e, ← h1]; exact ⟨rfl, h2, rfl, rfl, rfl⟩

theorem doc_of_window {U : Doc → Prop} {trace : List Snap} (hU : ∀ p ∈ trace, ∀ d ∈ p.2.docs, U d)
    {now ttl : Nat} {k : Bytes} {v : Option Doc} (h : InWindow trace now ttl (fun st => st.doc k) v)
    (d : Doc) (hd : v = some d) : U d := by
  obtain ⟨p, hp, _, _, hv⟩ := h
  rw [hd] at hv
  exact hU p hp d (List.mem_of_find?_eq_some hv.symm)

/-- the part after the identity: roles, policies, compile -/
theorem resolveLinks_up_spec (U : Doc → Prop) (hV : Versioned U) (hsvc : ∀ x, U (svcDoc x)) (hnode : ∀ x, U (nodeDoc x))
    (htp : ∀ x, U (tpDoc x))
    (cfg : RpcCfg) (hna : cfg.isAsync = false) (trace : List Snap) (now : Nat) (s : Store) (st : RpcState)
    (inv : RpcInv U trace now st) (hcur : (now, s) ∈ trace) (t : Token) :
    (resolveLinks cfg true s now st t).2 =
      (match compileFresh (policiesForV (viewOf st.roles now cfg.roleTTL s.role)
          (viewOf st.pols now cfg.policyTTL s.doc) cfg.dc t) with
        | none => .err .compile | some z => .ok z) ∧
    RpcInv U trace now (resolveLinks cfg true s now st t).1 := by
  have hdocU : ∀ k d, viewOf st.pols now cfg.policyTTL s.doc k = some d → U d := fun k d h =>
    doc_of_window inv.docsU (viewOf_window trace now cfg.policyTTL s hcur inv.times (fun st k => st.doc k) st.pols inv.pols k) d h
  have hall := mem_policiesForV U hsvc hnode htp (viewOf st.roles now cfg.roleTTL s.role)
    (viewOf st.pols now cfg.policyTTL s.doc) hdocU cfg.dc t
  unfold resolveLinks
  by_cases hemp : t.noLinks = true
  · have hp : policiesForV (viewOf st.roles now cfg.roleTTL s.role) (viewOf st.pols now cfg.policyTTL s.doc) cfg.dc t = [] := by
      unfold policiesForV; rw [if_pos hemp]
    rw [if_pos hemp, hp]
    have ⟨c1, c2, c3, c4, c5⟩ := compileRpc_spec hV st inv.caches [] (fun d hd => by cases hd)
    refine ⟨c1, inv.times, inv.docsU, ?_, ?_, ?_, c2⟩
    · rw [c3]; exact inv.idents
    · rw [c4]; exact inv.roles
    · rw [c5]; exact inv.pols
  · rw [if_neg hemp, hna]
    have ⟨r1, r2⟩ := collect_up cfg.extendCache s.role st.roles t.roles now cfg.roleTTL
    simp only [r1, filterSome_map]
    have ⟨p1, p2⟩ := collect_up cfg.extendCache s.doc st.pols
      (dedupeSorted (t.policies ++ (t.roles.filterMap (viewOf st.roles now cfg.roleTTL s.role)).flatMap (·.policies)))
      now cfg.policyTTL
    simp only [p1, filterSome_map]
    have hp : policiesForV (viewOf st.roles now cfg.roleTTL s.role) (viewOf st.pols now cfg.policyTTL s.doc) cfg.dc t =
        filterByScope cfg.dc
          ((dedupeSorted (t.policies ++ (t.roles.filterMap (viewOf st.roles now cfg.roleTTL s.role)).flatMap (·.policies))).filterMap
              (viewOf st.pols now cfg.policyTTL s.doc) ++
            synthDocs t (t.roles.filterMap (viewOf st.roles now cfg.roleTTL s.role))) := by
      unfold policiesForV; rw [if_neg hemp]
    rw [hp] at hall ⊢
    have ⟨c1, c2, c3, c4, c5⟩ := compileRpc_spec hV
      { st with
        roles := (collect cfg.extendCache false true s.role st.roles t.roles now cfg.roleTTL).cache,
        pols := (collect cfg.extendCache false true s.doc st.pols
          (dedupeSorted (t.policies ++ (t.roles.filterMap (viewOf st.roles now cfg.roleTTL s.role)).flatMap (·.policies)))
          now cfg.policyTTL).cache }
      inv.caches _ hall
    refine ⟨c1, inv.times, inv.docsU, ?_, ?_, ?_, c2⟩
    · rw [c3]; exact inv.idents
    · rw [c4]
      intro k e h
      rcases r2 k e h with ⟨h1, h2⟩ | h
      · exact ⟨(now, s), hcur, h2.symm, h1.symm⟩
      · exact inv.roles k e h
    · rw [c5]
      intro k e h
      rcases p2 k e h with ⟨h1, h2⟩ | h
      · exact ⟨(now, s), hcur, h2.symm, h1.symm⟩
      · exact inv.pols k e h

/-- one resolution with reachable servers and a waiting down policy: the answer is the cache-free
    resolution on the view, and the invariant is kept -/
theorem resolveRpc_up_spec (U : Doc → Prop) (hV : Versioned U) (hsvc : ∀ x, U (svcDoc x)) (hnode : ∀ x, U (nodeDoc x))
    (htp : ∀ x, U (tpDoc x))
    (cfg : RpcCfg) (hna : cfg.isAsync = false) (trace : List Snap) (now : Nat) (s : Store) (st : RpcState)
    (inv : RpcInv U trace now st) (hcur : (now, s) ∈ trace) (secret : Bytes) :
    (resolveRpc cfg true s now st secret).2 =
      RpcResult.ofExcept (resolveFreshV (viewTok st.idents now cfg.tokenTTL s.token)
        (viewOf st.roles now cfg.roleTTL s.role) (viewOf st.pols now cfg.policyTTL s.doc) cfg.dc secret) ∧
    RpcInv U trace now (resolveRpc cfg true s now st secret).1 := by
  unfold resolveRpc resolveFreshV
  by_cases hr : secret ∈ rootNames
  · simp only [hr, if_true]; exact ⟨rfl, inv⟩
  · simp only [hr, if_false]
    generalize (if secret = [] then anonymousToken else secret) = sec
    have ⟨i1, i2⟩ := resolveIdent_up cfg hna s.token st.idents sec now
    have invI : RpcInv U trace now { st with idents := (resolveIdent cfg true s.token st.idents sec now).1 } := by
      refine ⟨inv.times, inv.docsU, ?_, inv.roles, inv.pols, inv.caches⟩
      intro k e h
      rcases i2 k e h with ⟨rfl, h2, h3⟩ | h
      · exact ⟨(now, s), hcur, h3.symm, h2.symm⟩
      · exact inv.idents k e h
    rw [i1]
    cases hvt : viewTok st.idents now cfg.tokenTTL s.token sec with
    | none => exact ⟨rfl, invI⟩
    | some t =>
      simp only
      have ⟨l1, l2⟩ := resolveLinks_up_spec U hV hsvc hnode htp cfg hna trace now s _ invI hcur t
      refine ⟨?_, l2⟩
      rw [l1]
      cases compileFresh (policiesForV (viewOf st.roles now cfg.roleTTL s.role)
        (viewOf st.pols now cfg.policyTTL s.doc) cfg.dc t) <;> rfl

/-- the invariant survives any extension of the history and any advance of the clock -/
theorem RpcInv.mono {U : Doc → Prop} {trace trace' : List Snap} {now now' : Nat} {st : RpcState}
    (h : RpcInv U trace now st) (hsub : ∀ p ∈ trace, p ∈ trace') (_hnow : now ≤ now')
    (htimes : ∀ p ∈ trace', p.1 ≤ now') (hdocs : ∀ p ∈ trace', ∀ d ∈ p.2.docs, U d) : RpcInv U trace' now' st :=
  ⟨htimes, hdocs,
    fun k e hm => let ⟨p, hp, h1, h2⟩ := h.idents k e hm; ⟨p, hsub p hp, h1, h2⟩,
    fun k e hm => let ⟨p, hp, h1, h2⟩ := h.roles k e hm; ⟨p, hsub p hp, h1, h2⟩,
    fun k e hm => let ⟨p, hp, h1, h2⟩ := h.pols k e hm; ⟨p, hsub p hp, h1, h2⟩,
    h.caches⟩

theorem RpcInv.init (U : Doc → Prop) : RpcInv U [(0, Store.empty)] 0 RpcState.empty := by
  refine ⟨?_, ?_, ?_, ?_, ?_, CacheInv.empty U⟩
  · intro p hp
    rw [List.mem_singleton.mp hp]
    exact Nat.le_refl _
  · intro p hp d hd
    rw [List.mem_singleton.mp hp] at hd
    cases hd
  · intro _ _ h; cases h
  · intro _ _ h; cases h
  · intro _ _ h; cases h

/-- a value in a zero-length window was read at the current clock -/
theorem InWindow.zero {β : Type} {trace : List Snap} {now : Nat} {get : Store → β} {v : β} {s : Store}
    (h : InWindow trace now 0 get v) (hfresh : ∀ p ∈ trace, p.1 = now → p.2 = s) : v = get s := by
  obtain ⟨p, hp, h1, h2, hv⟩ := h
  rw [hv, hfresh p hp (by omega)]

end CV.Acl
