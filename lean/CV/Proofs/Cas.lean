/-
Helper lemmas for CV.Cas (property C10): table lookups after put/delete, the characterisation of
the shared three-`if` comparison, and the content of a replaced CA root set.
-/
import CV.Cas
namespace CV.Cas

section tab
variable {κ α : Type} [DecidableEq κ]

theorem tget_filter_ne (t : Tab κ α) (k : κ) : tget (t.filter (fun p => p.1 ≠ k)) k = none := by
  induction t with
  | nil => rfl
  | cons p r ih =>
    simp only [ne_eq, decide_not] at ih ⊢
    by_cases h : p.1 = k
    · simp [h, ih]
    · simp [h, tget, ih]

theorem tget_filter_other (t : Tab κ α) (k k' : κ) (h : k' ≠ k) :
    tget (t.filter (fun p => p.1 ≠ k)) k' = tget t k' := by
  induction t with
  | nil => rfl
  | cons p r ih =>
    simp only [ne_eq, decide_not] at ih ⊢
    obtain ⟨pk, pv⟩ := p
    by_cases hp : pk = k
    · subst hp
      have h2 : ¬ pk = k' := fun e => h e.symm
      simp [tget, h2, ih]
    · by_cases hk : pk = k'
      · subst hk; simp [tget, hp]
      · simp [tget, hp, hk, ih]

@[simp] theorem tget_tdel_self (t : Tab κ α) (k : κ) : tget (tdel t k) k = none := tget_filter_ne t k

theorem tget_tdel_ne (t : Tab κ α) (k k' : κ) (h : k' ≠ k) : tget (tdel t k) k' = tget t k' :=
  tget_filter_other t k k' h

@[simp] theorem tget_tput_self (t : Tab κ α) (k : κ) (v : Ver α) : tget (tput t k v) k = some v := by
  simp [tput, tget]

theorem tget_tput_ne (t : Tab κ α) (k k' : κ) (v : Ver α) (h : k' ≠ k) :
    tget (tput t k v) k' = tget t k' := by
  have : k ≠ k' := fun e => h e.symm
  simp [tput, tget, this, tget_tdel_ne t k k' h]

/-- The caller's index matches under the set-CAS rule: `0` means "create only", any other value
    must be the stored ModifyIndex of an existing row. -/
def SetMatch (c : Cell α) (cidx : Nat) : Prop :=
  match c with
  | none => cidx = 0
  | some e => cidx ≠ 0 ∧ cidx = e.modify

instance (c : Cell α) (cidx : Nat) : Decidable (SetMatch c cidx) := by
  unfold SetMatch; split <;> infer_instance

/-- The caller's index matches under the strict delete rule: the row exists with that ModifyIndex. -/
def DelMatch (c : Cell α) (cidx : Nat) : Prop :=
  match c with
  | none => False
  | some e => e.modify = cidx

instance (c : Cell α) (cidx : Nat) : Decidable (DelMatch c cidx) := by
  unfold DelMatch; split <;> infer_instance

/-- the three early returns of the code are exactly the negation of `SetMatch` -/
theorem setCasFails_eq_false_iff (c : Cell α) (cidx : Nat) : setCasFails c cidx = false ↔ SetMatch c cidx := by
  cases c with
  | none => by_cases h : cidx = 0 <;> simp [setCasFails, SetMatch, h]
  | some e => by_cases h : cidx = 0 <;> simp [setCasFails, SetMatch, h]

theorem setCasFails_eq_true_iff (c : Cell α) (cidx : Nat) : setCasFails c cidx = true ↔ ¬ SetMatch c cidx := by
  rw [← setCasFails_eq_false_iff]; cases setCasFails c cidx <;> simp

end tab

/-! ### index table -/

theorem iget_iset_self (t : Idx) (k : String) (v : Nat) : iget (iset t k v) k = some v := by
  simp [iset, iget]

theorem imaxIndex_iset_self (t : Idx) (k : String) (v : Nat) : imaxIndex (iset t k v) k = v := by
  simp [imaxIndex, iget_iset_self]

/-! ### CA roots -/

/-- a request is admissible when the table it describes (last entry per ID) has exactly one
    active root and no ID is empty -/
def RootsAdm (rs : List RootReq) : Prop :=
  activeCount rs = 1 ∧ rs.any (fun r => r.1 = "") = false

instance (rs : List RootReq) : Decidable (RootsAdm rs) := by unfold RootsAdm; infer_instance

/-- lookup in the table built by `rootsInsert`: the last listed root of that ID, stamped -/
theorem tget_rootsInsert (old : Tab String RootVal) (i : Nat) (rs : List RootReq) (acc : Tab String RootVal)
    (id : String) :
    tget (rootsInsert old i rs acc) id =
      match lastLookup rs id with
      | some v => some (stamp (tget old id) i v)
      | none => tget acc id := by
  induction rs generalizing acc with
  | nil => simp [rootsInsert, lastLookup]
  | cons r rs ih =>
    obtain ⟨rid, rv⟩ := r
    simp only [rootsInsert, lastLookup]
    rw [ih]
    cases hl : lastLookup rs id with
    | some v => rfl
    | none =>
      by_cases h : rid = id
      · subst h; simp
      · have h' : id ≠ rid := fun e => h e.symm
        simp [h, tget_tput_ne _ _ _ _ h']

/-! ### transactions with one operation, and when the catalog writes are refused -/

theorem txn_single (s : State) (i : Nat) (op : TOp) :
    txn s i [op] = match tapply s i op with
      | .ok (w, rs) => ⟨w, .txnOk rs⟩
      | .error e => ⟨s, .txnErr [(0, e)]⟩ := by
  cases h : tapply s i op with
  | ok x => obtain ⟨w, rs⟩ := x; simp [txn, txnLoop, h]
  | error e => simp [txn, txnLoop, h]

/-! ### the delete cascades only ever remove rows of the tables they are meant to touch -/

theorem tdel_absent {κ α : Type} [DecidableEq κ] (t : Tab κ α) (k : κ) (h : tget t k = none) : tdel t k = t := by
  induction t with
  | nil => rfl
  | cons p r ih =>
    obtain ⟨pk, pv⟩ := p
    by_cases hp : pk = k
    · simp [tget, hp] at h
    · simp only [tget, hp, if_false] at h
      have := ih h
      simp only [tdel] at this ⊢
      rw [List.filter_cons]
      simp only [ne_eq, hp, not_false_eq_true, decide_true, if_true]
      rw [this]

theorem mem_foldl_tdel {κ α β : Type} [DecidableEq κ] (f : β → κ) (l : List β) (t : Tab κ α) (p : κ × Ver α)
    (h : p ∈ l.foldl (fun t x => tdel t (f x)) t) : p ∈ t ∧ ∀ x ∈ l, p.1 ≠ f x := by
  induction l generalizing t with
  | nil => exact ⟨h, by simp⟩
  | cons k ks ih =>
    have := ih (tdel t (f k)) h
    simp only [tdel, List.mem_filter, ne_eq, decide_not, Bool.not_eq_eq_eq_not, Bool.not_true,
      decide_eq_false_iff_not] at this
    refine ⟨this.1.1, ?_⟩
    intro x hx
    cases hx with
    | head => exact this.1.2
    | tail _ hx => exact this.2 x hx

theorem chkDelete_nodes (s : State) (i : Nat) (n c : String) : (chkDelete s i n c).nodes = s.nodes := by
  cases h : tget s.chks (lc n, c) <;> simp [chkDelete, h]
theorem chkDelete_svcs (s : State) (i : Nat) (n c : String) : (chkDelete s i n c).svcs = s.svcs := by
  cases h : tget s.chks (lc n, c) <;> simp [chkDelete, h]
theorem chkDelete_chks (s : State) (i : Nat) (n c : String) : (chkDelete s i n c).chks = tdel s.chks (lc n, c) := by
  cases h : tget s.chks (lc n, c) with
  | none => simp [chkDelete, h, tdel_absent _ _ h]
  | some e => simp [chkDelete, h]

theorem foldl_chkDelete {β : Type} (f : β → String) (l : List β) (s : State) (i : Nat) (n : String) :
    (l.foldl (fun w x => chkDelete w i n (f x)) s).nodes = s.nodes ∧
    (l.foldl (fun w x => chkDelete w i n (f x)) s).svcs = s.svcs ∧
    (l.foldl (fun w x => chkDelete w i n (f x)) s).chks = l.foldl (fun t x => tdel t (lc n, f x)) s.chks := by
  induction l generalizing s with
  | nil => simp
  | cons c l ih =>
    have := ih (chkDelete s i n (f c))
    simp only [List.foldl_cons, chkDelete_nodes, chkDelete_svcs, chkDelete_chks] at this ⊢
    exact this

theorem svcDelete_nodes (s : State) (i : Nat) (n id : String) : (svcDelete s i n id).nodes = s.nodes := by
  cases h : tget s.svcs (lc n, id) with
  | none => simp [svcDelete, h]
  | some e =>
    simp only [svcDelete, h]
    split <;> simp [List.foldl_map, (foldl_chkDelete _ _ s i n).1]

theorem svcDelete_svcs (s : State) (i : Nat) (n id : String) : (svcDelete s i n id).svcs = tdel s.svcs (lc n, id) := by
  cases h : tget s.svcs (lc n, id) with
  | none => simp [svcDelete, h, tdel_absent _ _ h]
  | some e =>
    simp only [svcDelete, h]
    split <;> simp [List.foldl_map, (foldl_chkDelete _ _ s i n).2.1]

theorem foldl_svcDelete {β : Type} (f : β → String) (l : List β) (s : State) (i : Nat) (n : String) :
    (l.foldl (fun w x => svcDelete w i n (f x)) s).nodes = s.nodes ∧
    (l.foldl (fun w x => svcDelete w i n (f x)) s).svcs = l.foldl (fun t x => tdel t (lc n, f x)) s.svcs := by
  induction l generalizing s with
  | nil => simp
  | cons c l ih =>
    have := ih (svcDelete s i n (f c))
    simp only [List.foldl_cons, svcDelete_nodes, svcDelete_svcs] at this ⊢
    exact this

/-! ### session invalidation only touches the KV tables, the session table and the index table -/

/-- the catalog tables of two states agree -/
def CatEq (a b : State) : Prop := a.nodes = b.nodes ∧ a.svcs = b.svcs ∧ a.chks = b.chks

theorem CatEq.rfl' (a : State) : CatEq a a := ⟨rfl, rfl, rfl⟩
theorem CatEq.trans' {a b c : State} (h1 : CatEq a b) (h2 : CatEq b c) : CatEq a c :=
  ⟨h1.1.trans h2.1, h1.2.1.trans h2.2.1, h1.2.2.trans h2.2.2⟩

theorem foldl_CatEq {β : Type} (f : State → β → State) (hf : ∀ w x, CatEq (f w x) w) (l : List β) (s : State) :
    CatEq (l.foldl f s) s := by
  induction l generalizing s with
  | nil => exact CatEq.rfl' s
  | cons x l ih => exact CatEq.trans' (ih (f s x)) (hf s x)

theorem kvSetCore_CatEq (s : State) (i : Nat) (k : String) (v : KVal) (u : Bool) : CatEq (kvSetCore s i k v u) s := by
  unfold CatEq
  cases h : tget s.kvs k with
  | none => simp [kvSetCore, h]
  | some e => simp only [kvSetCore, h]; split <;> (refine ⟨?_, ?_, ?_⟩ <;> split <;> rfl)

theorem kvDelete_CatEq (s : State) (i : Nat) (k : String) : CatEq (kvDelete s i k) s := by
  unfold kvDelete
  split <;> exact ⟨rfl, rfl, rfl⟩

theorem kvRelease_CatEq (s : State) (i : Nat) (k : String) : CatEq (kvRelease s i k) s := by
  unfold kvRelease
  split
  · exact kvSetCore_CatEq _ _ _ _ _
  · exact CatEq.rfl' s

theorem sessDelete_CatEq (s : State) (i : Nat) (id : String) : CatEq (sessDelete s i id) s := by
  unfold sessDelete
  split
  · exact CatEq.rfl' s
  · split
    · exact CatEq.trans' (foldl_CatEq _ (fun w k => kvDelete_CatEq w i k) _ _) ⟨rfl, rfl, rfl⟩
    · exact CatEq.trans' (foldl_CatEq _ (fun w k => kvRelease_CatEq w i k) _ _) ⟨rfl, rfl, rfl⟩

theorem foldl_sessDelete_CatEq {β : Type} (f : β → String) (l : List β) (s : State) (i : Nat) :
    CatEq (l.foldl (fun w x => sessDelete w i (f x)) s) s :=
  foldl_CatEq _ (fun w x => sessDelete_CatEq w i (f x)) l s

/-- `ensureNodeTxn` refuses the write: the request carries a node ID and the name it asks for is
    defended by another registration (a rename never disputes a name with `allowClashWithoutID`,
    a new ID may take over the name of an ID-less or unhealthy registration) -/
def nodeRefused (s : State) (v : NodeVal) : Bool :=
  decide (v.id ≠ "") &&
    match nodeById s.nodes v.id with
    | some (oldKey, _) => decide (oldKey ≠ lc v.name) && nameConflict s.nodes s.chks (lc v.name) v.id false
    | none => nameConflict s.nodes s.chks (lc v.name) v.id true

theorem nodeSet_refused (s : State) (i : Nat) (v : NodeVal) (h : nodeRefused s v = true) :
    nodeSet s i v = .error .nodeNameConflict := by
  unfold nodeRefused at h
  unfold nodeSet
  by_cases hid : v.id = ""
  · simp [hid] at h
  · cases hb : nodeById s.nodes v.id with
    | none => simp [hid, hb] at h; simp [hid, h]
    | some x =>
      obtain ⟨oldKey, e⟩ := x
      simp [hid, hb] at h
      simp [hid, h.1, h.2]

theorem nodeSet_ok (s : State) (i : Nat) (v : NodeVal) (h : nodeRefused s v = false) :
    ∃ s', nodeSet s i v = .ok s' := by
  unfold nodeRefused at h
  unfold nodeSet
  by_cases hid : v.id = ""
  · exact ⟨_, by simp [hid]; rfl⟩
  · cases hb : nodeById s.nodes v.id with
    | none =>
      simp [hid, hb] at h
      exact ⟨_, by simp [hid, h]; rfl⟩
    | some x =>
      obtain ⟨oldKey, e⟩ := x
      simp only [hid, hb, ne_eq, not_false_eq_true, decide_true, Bool.true_and, Bool.and_eq_false_imp,
        decide_eq_true_eq] at h
      by_cases hn : oldKey = lc v.name
      · by_cases hv : sameNode e.val v = true
        · exact ⟨s, by simp [hid, hn, hv]⟩
        · exact ⟨_, by simp [hid, hn, hv]; rfl⟩
      · have := h hn
        exact ⟨_, by simp [hid, hn, this]; rfl⟩

theorem svcSet_missing (s : State) (i : Nat) (n id : String) (p : Nat) (h : tget s.nodes (lc n) = none) :
    svcSet s i n id p = .error .missingNode := by simp [svcSet, h]

theorem svcSet_ok (s : State) (i : Nat) (n id : String) (p : Nat) (h : (tget s.nodes (lc n)).isSome) :
    ∃ s', svcSet s i n id p = .ok s' := by
  obtain ⟨e, he⟩ := Option.isSome_iff_exists.mp h
  cases hs : tget s.svcs (lc n, id) with
  | none => exact ⟨_, by simp [svcSet, he, hs]; rfl⟩
  | some x => by_cases hv : x.val = p
              · exact ⟨_, by simp [svcSet, he, hs, hv]; rfl⟩
              · exact ⟨_, by simp [svcSet, he, hs, hv]; rfl⟩

/-- the prerequisites `ensureCheckTxn` insists on: the node, and the service a check is bound to -/
def ChkAdm (s : State) (n : String) (v : ChkVal) : Prop :=
  (tget s.nodes (lc n)).isSome ∧ (v.svcId = "" ∨ (tget s.svcs (lc n, v.svcId)).isSome)

instance (s : State) (n : String) (v : ChkVal) : Decidable (ChkAdm s n v) := by unfold ChkAdm; infer_instance

theorem chkSet_ok (s : State) (i : Nat) (n id : String) (v : ChkVal) (h : ChkAdm s n v) :
    ∃ s', chkSet s i n id v = .ok s' := by
  obtain ⟨hn, hs⟩ := h
  obtain ⟨e, he⟩ := Option.isSome_iff_exists.mp hn
  have hc : ¬ (v.svcId ≠ "" ∧ tget s.svcs (lc n, v.svcId) = none) := by
    intro ⟨h1, h2⟩
    cases hs with
    | inl h => exact h1 h
    | inr h => simp [h2] at h
  cases hx : tget s.chks (lc n, id) with
  | none => exact ⟨_, by simp only [chkSet, he, hc, if_false, hx]; rfl⟩
  | some x => by_cases hv : x.val = v
              · exact ⟨s, by simp only [chkSet, he, hc, if_false, hx, hv, if_true]⟩
              · exact ⟨_, by simp only [chkSet, he, hc, if_false, hx, hv]; rfl⟩

theorem chkSet_refused (s : State) (i : Nat) (n id : String) (v : ChkVal) (h : ¬ ChkAdm s n v) :
    ∃ e, chkSet s i n id v = .error e := by
  unfold ChkAdm at h
  cases hn : tget s.nodes (lc n) with
  | none => exact ⟨.missingNode, by simp [chkSet, hn]⟩
  | some e =>
    have : v.svcId ≠ "" ∧ tget s.svcs (lc n, v.svcId) = none := by
      simp [hn] at h
      exact ⟨h.1, by simpa using h.2⟩
    exact ⟨.missingService, by simp only [chkSet, hn, this, and_self, if_true, ne_eq, not_false_eq_true]⟩

end CV.Cas
