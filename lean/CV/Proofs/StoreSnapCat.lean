/-
Helper lemmas for CV.Store.Snap, part 2: the catalog phase of the restore fold
(`Restore.Registration` over the records of `persistNodes`), one record at a time.
-/
import CV.Proofs.StoreSnap
import CV.Proofs.StoreCatInv
set_option linter.unusedSectionVars false
set_option linter.unusedSimpArgs false
namespace CV.Store
open CV

/-! ### what the catalog writers leave alone -/

/-- everything but the three catalog tables and the index table -/
def otherView (s : State) : List KV × List Tomb × List Sess × List SessCheck × List PQ × Local :=
  (s.kvs, s.tombs, s.sessions, s.sessChecks, s.queries, s.loc)

theorem otherView_foldl {β : Type} (f : State → β → State) (hf : ∀ st b, otherView (f st b) = otherView st)
    (l : List β) (s : State) : otherView (l.foldl f s) = otherView s := by
  induction l generalizing s with
  | nil => rfl
  | cons b bs ih =>
    show otherView (bs.foldl f (f s b)) = otherView s
    rw [ih, hf]

theorem otherView_updateAll (s : State) (i n) : otherView (updateAllServiceIndexesOfNode s i n) = otherView s := by
  unfold updateAllServiceIndexesOfNode
  exact otherView_foldl (fun st (v : Svc) => bumpServiceIdx st i v.name) (fun st b => rfl) _ s

theorem otherView_nodeInsert (s : State) (n : Node) : otherView (nodeInsert s n) = otherView s := by
  unfold nodeInsert
  simp only
  rw [otherView_updateAll]; rfl

theorem otherView_svcInsert (s : State) (v : Svc) : otherView (svcInsert s v) = otherView s := by
  unfold svcInsert
  simp [otherView, State.maxIdx2, State.maxIdx]
theorem otherView_chkInsert (s : State) (c : Chk) (i : Nat) : otherView (chkInsert s c i) = otherView s := by
  unfold chkInsert
  simp [otherView, State.maxIdx2, State.maxIdx]

theorem catView_nodes_eq {s' : State} {a : List Node} {b : List Svc} {c : List Chk} {d : List Sess}
    (h : catView s' = (a, b, c, d)) : s'.nodes = a := congrArg (·.1) h
theorem catView_svcs_eq {s' : State} {a : List Node} {b : List Svc} {c : List Chk} {d : List Sess}
    (h : catView s' = (a, b, c, d)) : s'.svcs = b := congrArg (·.2.1) h
theorem catView_chks_eq {s' : State} {a : List Node} {b : List Svc} {c : List Chk} {d : List Sess}
    (h : catView s' = (a, b, c, d)) : s'.chks = c := congrArg (·.2.2.1) h

/-! ### the index table stays in key order -/

theorem ixs_maxIdx {s : State} (h : IdxSorted s.index) (k : String) (v : Nat) : IdxSorted (s.maxIdx k v).index :=
  idxSorted_max h k v
theorem ixs_maxIdx2 {s : State} (h : IdxSorted s.index) (k : String) (v : Nat) : IdxSorted (s.maxIdx2 k v).index :=
  idxSorted_max (idxSorted_max h k v) _ v
theorem ixs_bump {s : State} (h : IdxSorted s.index) (i : Nat) (n : String) : IdxSorted (bumpServiceIdx s i n).index :=
  ixs_maxIdx2 (ixs_maxIdx h _ i) _ i

theorem ixs_foldl {β : Type} (f : State → β → State) (hf : ∀ st b, IdxSorted st.index → IdxSorted (f st b).index)
    (l : List β) (s : State) (h : IdxSorted s.index) : IdxSorted (l.foldl f s).index := by
  induction l generalizing s with
  | nil => exact h
  | cons b bs ih => exact ih _ (hf s b h)

theorem ixs_updateAll {s : State} (h : IdxSorted s.index) (i : Nat) (n : String) :
    IdxSorted (updateAllServiceIndexesOfNode s i n).index := by
  unfold updateAllServiceIndexesOfNode
  exact ixs_foldl _ (fun st b hst => ixs_bump hst i b.name) _ s h

theorem ixs_nodeInsert {s : State} (h : IdxSorted s.index) (n : Node) : IdxSorted (nodeInsert s n).index := by
  unfold nodeInsert
  simp only
  apply ixs_updateAll
  apply ixs_maxIdx
  exact ixs_maxIdx2 (s := { s with nodes := tupsert Node.pk strLt n s.nodes }) h _ _

theorem ixs_svcInsert {s : State} (h : IdxSorted s.index) (v : Svc) : IdxSorted (svcInsert s v).index := by
  unfold svcInsert
  simp only
  apply ixs_maxIdx
  apply ixs_maxIdx2
  apply ixs_maxIdx2
  apply ixs_maxIdx
  exact ixs_maxIdx2 (s := { s with svcs := tupsert Svc.pk strLt v s.svcs }) h _ _

theorem ixs_chkInsert {s : State} (h : IdxSorted s.index) (c : Chk) (i : Nat) : IdxSorted (chkInsert s c i).index := by
  unfold chkInsert
  exact ixs_maxIdx2 (s := { s with chks := tupsert Chk.pk strLt c s.chks }) h _ _

/-! ### the keys of the index rows the catalog writers compute -/

section Keys
variable {K : String → Prop}

theorem kin_maxIdx {s : State} (h : KeysIn K s.index) {k : String} (hk : K (lc k)) (v : Nat) : KeysIn K (s.maxIdx k v).index :=
  keysIn_max h hk v
theorem kin_maxIdx2 {s : State} (h : KeysIn K s.index) {k : String} (hk : K (lc k)) (hk2 : K (lc ("peer.~:" ++ k))) (v : Nat) :
    KeysIn K (s.maxIdx2 k v).index := keysIn_max (keysIn_max h hk v) hk2 v

/-- the three rows `bumpServiceIdx` touches for a service name -/
def SvcKeyOK (K : String → Prop) (name : String) : Prop :=
  K (lc ("peer.~:service." ++ name)) ∧ K (lc "service_kind.typical") ∧ K (lc ("peer.~:" ++ "service_kind.typical"))

theorem kin_bump {s : State} (h : KeysIn K s.index) (i : Nat) {n : String} (hk : SvcKeyOK K n) :
    KeysIn K (bumpServiceIdx s i n).index :=
  kin_maxIdx2 (kin_maxIdx h hk.1 i) hk.2.1 hk.2.2 i

theorem kin_foldl_bump (i : Nat) (l : List Svc) (hl : ∀ v ∈ l, SvcKeyOK K v.name) (s : State) (h : KeysIn K s.index) :
    KeysIn K (l.foldl (fun st v => bumpServiceIdx st i v.name) s).index := by
  induction l generalizing s with
  | nil => exact h
  | cons v vs ih =>
    exact ih (fun w hw => hl w (List.mem_cons_of_mem _ hw)) _ (kin_bump h i (hl v List.mem_cons_self))

theorem kin_updateAll {s : State} (h : KeysIn K s.index) (i : Nat) (n : String) (hs : ∀ v ∈ s.svcs, SvcKeyOK K v.name) :
    KeysIn K (updateAllServiceIndexesOfNode s i n).index := by
  unfold updateAllServiceIndexesOfNode
  exact kin_foldl_bump i _ (fun v hv => hs v (List.mem_filter.mp hv).1) s h

theorem kin_nodeInsert {s : State} (h : KeysIn K s.index) (n : Node) (h1 : K (lc "nodes")) (h2 : K (lc ("peer.~:" ++ "nodes")))
    (h3 : K (lc ("peer.~:node." ++ n.name))) (hs : ∀ v ∈ s.svcs, SvcKeyOK K v.name) : KeysIn K (nodeInsert s n).index := by
  unfold nodeInsert
  simp only
  exact kin_updateAll
    (kin_maxIdx (kin_maxIdx2 (s := { s with nodes := tupsert Node.pk strLt n s.nodes }) h h1 h2 _) h3 _) _ _
    (by simpa [State.maxIdx2, State.maxIdx] using hs)

theorem kin_svcInsert {s : State} (h : KeysIn K s.index) (v : Svc) (h1 : K (lc "services")) (h2 : K (lc ("peer.~:" ++ "services")))
    (h3 : SvcKeyOK K v.name) (h4 : K (lc "nodes")) (h5 : K (lc ("peer.~:" ++ "nodes"))) (h6 : K (lc ("peer.~:node." ++ v.node))) :
    KeysIn K (svcInsert s v).index := by
  unfold svcInsert
  simp only
  exact kin_maxIdx (kin_maxIdx2 (kin_maxIdx2 (kin_maxIdx
    (kin_maxIdx2 (s := { s with svcs := tupsert Svc.pk strLt v s.svcs }) h h1 h2 _) h3.1 _) h3.2.1 h3.2.2 _) h4 h5 _) h6 _

theorem kin_chkInsert {s : State} (h : KeysIn K s.index) (c : Chk) (i : Nat) (h1 : K (lc "checks")) (h2 : K (lc ("peer.~:" ++ "checks"))) :
    KeysIn K (chkInsert s c i).index := by
  unfold chkInsert
  exact kin_maxIdx2 (s := { s with chks := tupsert Chk.pk strLt c s.chks }) h h1 h2 _

end Keys

/-- the keys the catalog restorers may write, given which rows they restore -/
structure CatKeys (K : String → Prop) (PN : Node → Prop) (PV : Svc → Prop) (PC : Chk → Prop) : Prop where
  nodes : (∃ n, PN n) → K (lc "nodes") ∧ K (lc ("peer.~:" ++ "nodes"))
  node : ∀ n, PN n → K (lc ("peer.~:node." ++ n.name))
  svcs : (∃ v, PV v) → K (lc "services") ∧ K (lc ("peer.~:" ++ "services")) ∧ K (lc "nodes") ∧ K (lc ("peer.~:" ++ "nodes"))
  svc : ∀ v, PV v → SvcKeyOK K v.name ∧ K (lc ("peer.~:node." ++ v.node))
  chks : (∃ c, PC c) → K (lc "checks") ∧ K (lc ("peer.~:" ++ "checks"))

theorem CatKeys.mono {K : String → Prop} {PN PN' : Node → Prop} {PV PV' : Svc → Prop} {PC PC' : Chk → Prop}
    (h : CatKeys K PN' PV' PC') (hn : ∀ x, PN x → PN' x) (hv : ∀ x, PV x → PV' x) (hc : ∀ x, PC x → PC' x) :
    CatKeys K PN PV PC where
  nodes := fun ⟨n, hx⟩ => h.nodes ⟨n, hn n hx⟩
  node := fun n hx => h.node n (hn n hx)
  svcs := fun ⟨v, hx⟩ => h.svcs ⟨v, hv v hx⟩
  svc := fun v hx => h.svc v (hv v hx)
  chks := fun ⟨c, hx⟩ => h.chks ⟨c, hc c hx⟩

/-! ### the invariant of the catalog phase -/

/-- `st` holds exactly the nodes / services / checks described by the three predicates, nothing else -/
structure CInv (K : String → Prop) (st : State) (PN : Node → Prop) (PV : Svc → Prop) (PC : Chk → Prop) : Prop where
  other : otherView st = otherView State.empty
  ks : KeysIn K st.index
  ns : TSorted Node.pk strLt st.nodes
  vs : TSorted Svc.pk strLt st.svcs
  cs : TSorted Chk.pk strLt st.chks
  ix : IdxSorted st.index
  mn : ∀ x, x ∈ st.nodes ↔ PN x
  mv : ∀ x, x ∈ st.svcs ↔ PV x
  mc : ∀ x, x ∈ st.chks ↔ PC x

theorem cinv_empty (K : String → Prop) : CInv K State.empty (fun _ => False) (fun _ => False) (fun _ => False) where
  other := rfl
  ks := keysIn_nil K
  ns := tsorted_nil _ _
  vs := tsorted_nil _ _
  cs := tsorted_nil _ _
  ix := idxSorted_nil
  mn := by simp [State.empty]
  mv := by simp [State.empty]
  mc := by simp [State.empty]

theorem CInv.congr {K : String → Prop} {st : State} {PN PN' : Node → Prop} {PV PV' : Svc → Prop} {PC PC' : Chk → Prop}
    (h : CInv K st PN PV PC) (hn : ∀ x, PN x ↔ PN' x) (hv : ∀ x, PV x ↔ PV' x) (hc : ∀ x, PC x ↔ PC' x) :
    CInv K st PN' PV' PC' :=
  { h with mn := fun x => (h.mn x).trans (hn x), mv := fun x => (h.mv x).trans (hv x), mc := fun x => (h.mc x).trans (hc x) }

theorem nodeSame_self (n : Node) : nodeSame n n = true := by simp [nodeSame]

/-- the node record of `persistNodes` on a store that has no node of that name or id yet -/
theorem step_node {K : String → Prop} {st : State} {PN : Node → Prop} {PV : Svc → Prop} {PC : Chk → Prop} (h : CInv K st PN PV PC)
    (last : Nat) (n : Node) (hname : ∀ x, PN x → lc x.name ≠ lc n.name)
    (hid : ∀ x, PN x → ¬ (x.id ≠ "" ∧ lc x.id = lc n.id)) (hcreate : n.create ≠ 0)
    (hK : CatKeys K (fun x => x = n ∨ PN x) PV PC) :
    restoreRec last st (.reg ⟨n, none, []⟩) = .ok (nodeInsert st n) ∧
      CInv K (nodeInsert st n) (fun x => x = n ∨ PN x) PV PC := by
  have h1 : nodeFind st n.name = none := by
    unfold nodeFind
    apply tfind_none_of_keys
    intro x hx
    exact hname x ((h.mn x).mp hx)
  have h2 : nodeFindByID st n.id = none := by
    unfold nodeFindByID
    rw [List.find?_eq_none]
    intro x hx
    have := hid x ((h.mn x).mp hx)
    simp only [bne_iff_ne, ne_eq, Bool.and_eq_true, beq_iff_eq, not_and] at this ⊢
    exact this
  have h3 : ∀ b, nameClash st n b = false := by
    intro b
    unfold nameClash
    rw [List.any_eq_false]
    intro x hx
    have := hname x ((h.mn x).mp hx)
    simp [this]
  refine ⟨?_, ?_⟩
  · by_cases hidn : n.id = ""
    · simp [restoreRec, ensureRegistrationR, ensureNodeR, h1, hidn, hcreate, foldE]
    · simp [restoreRec, ensureRegistrationR, ensureNodeR, h1, h2, h3, hidn, hcreate, foldE]
  · have hc := catView_nodeInsert st n
    refine
      { other := (otherView_nodeInsert st n).trans h.other
        ks := kin_nodeInsert h.ks n (hK.nodes ⟨n, Or.inl rfl⟩).1 (hK.nodes ⟨n, Or.inl rfl⟩).2 (hK.node n (Or.inl rfl))
          (fun v hv => (hK.svc v ((h.mv v).mp hv)).1)
        ns := ?_, vs := ?_, cs := ?_
        ix := ixs_nodeInsert h.ix n
        mn := ?_, mv := ?_, mc := ?_ }
    · rw [catView_nodes_eq hc]; exact tsorted_tupsert strLt_ord n _ h.ns
    · rw [catView_svcs_eq hc]; exact h.vs
    · rw [catView_chks_eq hc]; exact h.cs
    · intro x
      rw [catView_nodes_eq hc, mem_tupsert_iff strLt_ord h.ns]
      constructor
      · rintro (hx | ⟨hx, _⟩)
        · exact Or.inl hx
        · exact Or.inr ((h.mn x).mp hx)
      · rintro (hx | hx)
        · exact Or.inl hx
        · exact Or.inr ⟨(h.mn x).mpr hx, hname x hx⟩
    · intro x; rw [catView_svcs_eq hc]; exact h.mv x
    · intro x; rw [catView_chks_eq hc]; exact h.mc x

theorem nodeFind_of_mem {st : State} (hs : TSorted Node.pk strLt st.nodes) {n : Node} (hn : n ∈ st.nodes) {name : String}
    (he : lc name = lc n.name) : nodeFind st name = some n := by
  unfold nodeFind
  rw [he]
  exact tfind_of_mem strLt_ord hs hn

/-- a service record of `persistNodes`: node already there and unchanged, service not yet there -/
theorem step_svc {K : String → Prop} {st : State} {PN : Node → Prop} {PV : Svc → Prop} {PC : Chk → Prop} (h : CInv K st PN PV PC)
    (last : Nat) (n : Node) (v : Svc) (hn : PN n) (hvn : v.node = n.name) (hfresh : ∀ x, PV x → Svc.pk x ≠ Svc.pk v)
    (hK : CatKeys K PN (fun x => x = v ∨ PV x) PC) :
    restoreRec last st (.reg ⟨n, some v, []⟩) = .ok (svcInsert st v) ∧
      CInv K (svcInsert st v) PN (fun x => x = v ∨ PV x) PC := by
  have hnm : n ∈ st.nodes := (h.mn n).mpr hn
  have h1 : nodeFind st n.name = some n := nodeFind_of_mem h.ns hnm rfl
  have h2 : svcFind st n.name v.id = none := by
    unfold svcFind
    apply tfind_none_of_keys
    intro x hx
    have := hfresh x ((h.mv x).mp hx)
    have e : Svc.pk v = pk2 n.name v.id := by rw [Svc.pk, hvn]
    rw [e] at this
    exact this
  have hv : { v with node := n.name } = v := by cases v; simp_all
  refine ⟨?_, ?_⟩
  · simp [restoreRec, ensureRegistrationR, h1, nodeSame_self, h2, hv, ensureServiceR, hvn, foldE]
  · have hc := catView_svcInsert st v
    refine
      { other := (otherView_svcInsert st v).trans h.other
        ks := kin_svcInsert h.ks v (hK.svcs ⟨v, Or.inl rfl⟩).1 (hK.svcs ⟨v, Or.inl rfl⟩).2.1 (hK.svc v (Or.inl rfl)).1
          (hK.svcs ⟨v, Or.inl rfl⟩).2.2.1 (hK.svcs ⟨v, Or.inl rfl⟩).2.2.2 (hK.svc v (Or.inl rfl)).2
        ns := ?_, vs := ?_, cs := ?_
        ix := ixs_svcInsert h.ix v
        mn := ?_, mv := ?_, mc := ?_ }
    · rw [catView_nodes_eq hc]; exact h.ns
    · rw [catView_svcs_eq hc]; exact tsorted_tupsert strLt_ord v _ h.vs
    · rw [catView_chks_eq hc]; exact h.cs
    · intro x; rw [catView_nodes_eq hc]; exact h.mn x
    · intro x
      rw [catView_svcs_eq hc, mem_tupsert_iff strLt_ord h.vs]
      constructor
      · rintro (hx | ⟨hx, _⟩)
        · exact Or.inl hx
        · exact Or.inr ((h.mv x).mp hx)
      · rintro (hx | hx)
        · exact Or.inl hx
        · exact Or.inr ⟨(h.mv x).mpr hx, hfresh x hx⟩
    · intro x; rw [catView_chks_eq hc]; exact h.mc x

theorem foldE_append {β : Type} (f : State → β → Except Err State) (a b : List β) (s : State) :
    foldE f (a ++ b) s = match foldE f a s with
      | .ok s' => foldE f b s'
      | .error e => .error e := by
  induction a generalizing s with
  | nil => simp [foldE]
  | cons x xs ih =>
    simp only [List.cons_append, foldE]
    cases f s x with
    | ok s' => exact ih s'
    | error e => rfl

theorem foldE_map {β γ : Type} (g : γ → β) (f : State → β → Except Err State) (l : List γ) (s : State) :
    foldE f (l.map g) s = foldE (fun st x => f st (g x)) l s := by
  induction l generalizing s with
  | nil => rfl
  | cons x xs ih =>
    simp only [List.map_cons, foldE]
    cases f s (g x) with
    | ok s' => exact ih s'
    | error e => rfl

/-- all service records of one node -/
theorem loop_svc {K : String → Prop} {PN : Node → Prop} {PC : Chk → Prop} (last : Nat) (n : Node) (hn : PN n) :
    ∀ (vs : List Svc) (st : State) (PV : Svc → Prop), CInv K st PN PV PC → (∀ v ∈ vs, v.node = n.name) →
      vs.Pairwise (fun a b => Svc.pk a ≠ Svc.pk b) → (∀ v ∈ vs, ∀ x, PV x → Svc.pk x ≠ Svc.pk v) →
      CatKeys K PN (fun x => x ∈ vs ∨ PV x) PC →
      ∃ st', foldE (restoreRec last) (vs.map (fun v => SRec.reg ⟨n, some v, []⟩)) st = .ok st' ∧
        CInv K st' PN (fun x => x ∈ vs ∨ PV x) PC := by
  intro vs
  induction vs with
  | nil =>
    intro st PV h _ _ _ _
    exact ⟨st, rfl, h.congr (fun _ => Iff.rfl) (fun x => by simp) (fun _ => Iff.rfl)⟩
  | cons v vs ih =>
    intro st PV h hnode hpw hfresh hK
    obtain ⟨hv, hvs⟩ := List.pairwise_cons.mp hpw
    obtain ⟨e1, h1⟩ := step_svc h last n v hn (hnode v List.mem_cons_self) (hfresh v List.mem_cons_self)
      (hK.mono (fun _ hx => hx) (fun x hx => by
        rcases hx with rfl | hx
        · exact Or.inl List.mem_cons_self
        · exact Or.inr hx) (fun _ hx => hx))
    obtain ⟨st', e2, h2⟩ := ih (svcInsert st v) (fun x => x = v ∨ PV x) h1
      (fun w hw => hnode w (List.mem_cons_of_mem _ hw)) hvs
      (fun w hw x hx => by
        rcases hx with rfl | hx
        · exact hv w hw
        · exact hfresh w (List.mem_cons_of_mem _ hw) x hx)
      (hK.mono (fun _ hx => hx) (fun x hx => by
        rcases hx with hx | rfl | hx
        · exact Or.inl (List.mem_cons_of_mem _ hx)
        · exact Or.inl List.mem_cons_self
        · exact Or.inr hx) (fun _ hx => hx))
    refine ⟨st', ?_, h2.congr (fun _ => Iff.rfl) (fun x => ?_) (fun _ => Iff.rfl)⟩
    · simp only [List.map_cons, foldE, e1]; exact e2
    · simp only [List.mem_cons]
      constructor
      · rintro (hx | hx | hx)
        · exact Or.inl (Or.inr hx)
        · exact Or.inl (Or.inl hx)
        · exact Or.inr hx
      · rintro ((hx | hx) | hx)
        · exact Or.inr (Or.inl hx)
        · exact Or.inl hx
        · exact Or.inr (Or.inr hx)

theorem catView_chkInsert (s : State) (c : Chk) (i : Nat) :
    catView (chkInsert s c i) = (s.nodes, s.svcs, tupsert Chk.pk strLt c s.chks, s.sessions) := by
  unfold chkInsert
  simp [catView, State.maxIdx2, State.maxIdx]

/-- `checkPrep` of a check record on a store that has the node (and the service) but not the check -/
theorem checkPrep_restore {K : String → Prop} {st : State} {PN : Node → Prop} {PV : Svc → Prop} {PC : Chk → Prop} (h : CInv K st PN PV PC)
    (last : Nat) (n : Node) (c : Chk) (hn : PN n) (hcn : lc c.node = lc n.name)
    (hfresh : ∀ x, PC x → Chk.pk x ≠ Chk.pk c) (hst : c.status ≠ "")
    (hsvc : c.svcId ≠ "" → ∃ v, PV v ∧ lc v.node = lc c.node ∧ lc v.id = lc c.svcId ∧ c.svcName = v.name)
    (hK : CatKeys K PN PV (fun x => x = c ∨ PC x)) :
    ∃ s1, checkPrep st last true c = .ok (s1, c, true) ∧ catView s1 = catView st ∧ otherView s1 = otherView st ∧
      IdxSorted s1.index ∧ KeysIn K s1.index := by
  have hnode : nodeFind st c.node = some n := nodeFind_of_mem h.ns ((h.mn n).mpr hn) hcn
  have hchk : chkFind st c.node c.id = none := by
    unfold chkFind
    apply tfind_none_of_keys
    intro x hx
    exact hfresh x ((h.mc x).mp hx)
  by_cases hs : c.svcId = ""
  · refine ⟨updateAllServiceIndexesOfNode st last c.node, ?_, catView_updateAll _ _ _, otherView_updateAll _ _ _,
      ixs_updateAll h.ix _ _, kin_updateAll h.ks _ _ (fun v hv => (hK.svc v ((h.mv v).mp hv)).1)⟩
    simp [checkPrep, hchk, hst, hnode, hs]
  · obtain ⟨v, hv, hvn, hvi, hname⟩ := hsvc hs
    have hfind : svcFind st c.node c.svcId = some v := by
      unfold svcFind
      have hk : pk2 c.node c.svcId = Svc.pk v := by simp [pk2, Svc.pk, hvn, hvi]
      rw [hk]
      exact tfind_of_mem strLt_ord h.vs ((h.mv v).mpr hv)
    refine ⟨bumpServiceIdx st last v.name, ?_, rfl, rfl, ixs_bump h.ix _ _, kin_bump h.ks _ (hK.svc v hv).1⟩
    have hc : { c with svcName := v.name } = c := by cases c; simp_all
    simp [checkPrep, hchk, hst, hnode, hs, hfind, hc]

/-- a check record of `persistNodes` -/
theorem step_chk {K : String → Prop} {st : State} {PN : Node → Prop} {PV : Svc → Prop} {PC : Chk → Prop} (h : CInv K st PN PV PC)
    (last : Nat) (n : Node) (c : Chk) (hn : PN n) (hcn : lc c.node = lc n.name)
    (hfresh : ∀ x, PC x → Chk.pk x ≠ Chk.pk c) (hst : c.status ≠ "")
    (hsvc : c.svcId ≠ "" → ∃ v, PV v ∧ lc v.node = lc c.node ∧ lc v.id = lc c.svcId ∧ c.svcName = v.name)
    (hK : CatKeys K PN PV (fun x => x = c ∨ PC x)) :
    ∃ st', restoreRec last st (.reg ⟨n, none, [c]⟩) = .ok st' ∧ CInv K st' PN PV (fun x => x = c ∨ PC x) := by
  obtain ⟨s1, hp, hcat, hoth, hix, hks⟩ := checkPrep_restore h last n c hn hcn hfresh hst hsvc hK
  have h1 : nodeFind st n.name = some n := nodeFind_of_mem h.ns ((h.mn n).mpr hn) rfl
  have hsc : sessionsToInvalidate s1 c = [] := by
    have e : s1.sessChecks = [] := by
      have := congrArg (·.2.2.2.1) (hoth.trans h.other)
      simpa [otherView, State.empty] using this
    unfold sessionsToInvalidate checkSessions
    simp [e]
  refine ⟨chkInsert s1 c last, ?_, ?_⟩
  · have hne : ¬ lc c.node ≠ lc n.name := by simp [hcn]
    simp only [restoreRec, ensureRegistrationR, h1, nodeSame_self, if_true, foldE, ensureCheckIfNodeMatchesR, hne, if_false,
      ensureCheck]
    rw [ensureCheckF]
    simp only [hp, hsc, checkFinish]
    simp
  · have hc := catView_chkInsert s1 c last
    have en : s1.nodes = st.nodes := catView_nodes hcat
    have ev : s1.svcs = st.svcs := catView_svcs hcat
    have ec : s1.chks = st.chks := catView_chks hcat
    refine
      { other := ((otherView_chkInsert s1 c last).trans hoth).trans h.other
        ks := kin_chkInsert hks c last (hK.chks ⟨c, Or.inl rfl⟩).1 (hK.chks ⟨c, Or.inl rfl⟩).2
        ns := ?_, vs := ?_, cs := ?_
        ix := ixs_chkInsert hix c last
        mn := ?_, mv := ?_, mc := ?_ }
    · rw [catView_nodes_eq hc, en]; exact h.ns
    · rw [catView_svcs_eq hc, ev]; exact h.vs
    · rw [catView_chks_eq hc, ec]; exact tsorted_tupsert strLt_ord c _ h.cs
    · intro x; rw [catView_nodes_eq hc, en]; exact h.mn x
    · intro x; rw [catView_svcs_eq hc, ev]; exact h.mv x
    · intro x
      rw [catView_chks_eq hc, ec, mem_tupsert_iff strLt_ord h.cs]
      constructor
      · rintro (hx | ⟨hx, _⟩)
        · exact Or.inl hx
        · exact Or.inr ((h.mc x).mp hx)
      · rintro (hx | hx)
        · exact Or.inl hx
        · exact Or.inr ⟨(h.mc x).mpr hx, hfresh x hx⟩

/-- a service-level check record whose stored `svcName` is NOT the service's current name: `ensureCheckTxn`
    overwrites it (`hc.ServiceName = svc.ServiceName`) — restore recomputes the stale copy -/
theorem step_chk_recompute {K : String → Prop} {st : State} {PN : Node → Prop} {PV : Svc → Prop} {PC : Chk → Prop}
    (h : CInv K st PN PV PC) (last : Nat) (n : Node) (c : Chk) (v : Svc) (hn : PN n) (hcn : lc c.node = lc n.name)
    (hfresh : ∀ x, PC x → Chk.pk x ≠ Chk.pk c) (hst : c.status ≠ "") (hs : c.svcId ≠ "")
    (hv : PV v) (hvn : lc v.node = lc c.node) (hvi : lc v.id = lc c.svcId) :
    restoreRec last st (.reg ⟨n, none, [c]⟩) =
      .ok (chkInsert (bumpServiceIdx st last v.name) { c with svcName := v.name } last) := by
  have hnode : nodeFind st c.node = some n := nodeFind_of_mem h.ns ((h.mn n).mpr hn) hcn
  have h1 : nodeFind st n.name = some n := nodeFind_of_mem h.ns ((h.mn n).mpr hn) rfl
  have hchk : chkFind st c.node c.id = none := by
    unfold chkFind
    apply tfind_none_of_keys
    intro x hx
    exact hfresh x ((h.mc x).mp hx)
  have hfind : svcFind st c.node c.svcId = some v := by
    unfold svcFind
    have hk : pk2 c.node c.svcId = Svc.pk v := by simp [pk2, Svc.pk, hvn, hvi]
    rw [hk]
    exact tfind_of_mem strLt_ord h.vs ((h.mv v).mpr hv)
  have hp : checkPrep st last true c = .ok (bumpServiceIdx st last v.name, { c with svcName := v.name }, true) := by
    simp [checkPrep, hchk, hst, hnode, hs, hfind]
  have hsc : sessionsToInvalidate (bumpServiceIdx st last v.name) { c with svcName := v.name } = [] := by
    have e : (bumpServiceIdx st last v.name).sessChecks = [] := by
      have := congrArg (·.2.2.2.1) h.other
      show st.sessChecks = []
      simpa [otherView, State.empty] using this
    unfold sessionsToInvalidate checkSessions
    simp [e]
  have hne : ¬ lc c.node ≠ lc n.name := by simp [hcn]
  simp only [restoreRec, ensureRegistrationR, h1, nodeSame_self, if_true, foldE, ensureCheckIfNodeMatchesR, hne, if_false,
    ensureCheck]
  rw [ensureCheckF]
  simp only [hp, hsc, checkFinish]
  simp

/-- all check records of one node -/
theorem loop_chk {K : String → Prop} {PN : Node → Prop} {PV : Svc → Prop} (last : Nat) (n : Node) (hn : PN n) :
    ∀ (cs : List Chk) (st : State) (PC : Chk → Prop), CInv K st PN PV PC → (∀ c ∈ cs, lc c.node = lc n.name) →
      cs.Pairwise (fun a b => Chk.pk a ≠ Chk.pk b) → (∀ c ∈ cs, ∀ x, PC x → Chk.pk x ≠ Chk.pk c) →
      (∀ c ∈ cs, c.status ≠ "") →
      (∀ c ∈ cs, c.svcId ≠ "" → ∃ v, PV v ∧ lc v.node = lc c.node ∧ lc v.id = lc c.svcId ∧ c.svcName = v.name) →
      CatKeys K PN PV (fun x => x ∈ cs ∨ PC x) →
      ∃ st', foldE (restoreRec last) (cs.map (fun c => SRec.reg ⟨n, none, [c]⟩)) st = .ok st' ∧
        CInv K st' PN PV (fun x => x ∈ cs ∨ PC x) := by
  intro cs
  induction cs with
  | nil =>
    intro st PC h _ _ _ _ _ _
    exact ⟨st, rfl, h.congr (fun _ => Iff.rfl) (fun _ => Iff.rfl) (fun x => by simp)⟩
  | cons c cs ih =>
    intro st PC h hnode hpw hfresh hst hsvc hK
    obtain ⟨hc, hcs⟩ := List.pairwise_cons.mp hpw
    obtain ⟨s1, e1, h1⟩ := step_chk h last n c hn (hnode c List.mem_cons_self) (hfresh c List.mem_cons_self)
      (hst c List.mem_cons_self) (hsvc c List.mem_cons_self)
      (hK.mono (fun _ hx => hx) (fun _ hx => hx) (fun x hx => by
        rcases hx with rfl | hx
        · exact Or.inl List.mem_cons_self
        · exact Or.inr hx))
    obtain ⟨st', e2, h2⟩ := ih s1 (fun x => x = c ∨ PC x) h1
      (fun w hw => hnode w (List.mem_cons_of_mem _ hw)) hcs
      (fun w hw x hx => by
        rcases hx with rfl | hx
        · exact hc w hw
        · exact hfresh w (List.mem_cons_of_mem _ hw) x hx)
      (fun w hw => hst w (List.mem_cons_of_mem _ hw)) (fun w hw => hsvc w (List.mem_cons_of_mem _ hw))
      (hK.mono (fun _ hx => hx) (fun _ hx => hx) (fun x hx => by
        rcases hx with hx | rfl | hx
        · exact Or.inl (List.mem_cons_of_mem _ hx)
        · exact Or.inl List.mem_cons_self
        · exact Or.inr hx))
    refine ⟨st', ?_, h2.congr (fun _ => Iff.rfl) (fun _ => Iff.rfl) (fun x => ?_)⟩
    · simp only [List.map_cons, foldE, e1]; exact e2
    · simp only [List.mem_cons]
      constructor
      · rintro (hx | hx | hx)
        · exact Or.inl (Or.inr hx)
        · exact Or.inl (Or.inl hx)
        · exact Or.inr hx
      · rintro ((hx | hx) | hx)
        · exact Or.inr (Or.inl hx)
        · exact Or.inl hx
        · exact Or.inr (Or.inr hx)

end CV.Store
