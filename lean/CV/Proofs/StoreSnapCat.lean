/-
Helper lemmas for CV.Store.Snap, part 2: the catalog phase of the restore fold
(`Restore.Registration` over the records of `persistNodes`), one record at a time.
-/
import CV.Proofs.StoreSnap
import CV.Proofs.StoreCatInv
set_option linter.unusedSectionVars false
set_option linter.unusedSimpArgs false
namespace CV.Store
open CV

/-! ### what the catalog writers leave alone -/

/-- everything but the three catalog tables and the index table -/
def otherView (s : State) : List KV × List Tomb × List Sess × List SessCheck × List PQ × Local :=
  (s.kvs, s.tombs, s.sessions, s.sessChecks, s.queries, s.loc)

theorem otherView_foldl {β : Type} (f : State → β → State) (hf : ∀ st b, otherView (f st b) = otherView st)
    (l : List β) (s : State) : otherView (l.foldl f s) = otherView s := by
  induction l generalizing s with
  | nil => rfl
  | cons b bs ih =>
    show otherView (bs.foldl f (f s b)) = otherView s
    rw [ih, hf]

theorem otherView_updateAll (s : State) (i n) : otherView (updateAllServiceIndexesOfNode s i n) = otherView s := by
  unfold updateAllServiceIndexesOfNode
  exact otherView_foldl (fun st (v : Svc) => bumpServiceIdx st i v.name) (fun st b => rfl) _ s

theorem otherView_nodeInsert (s : State) (n : Node) : otherView (nodeInsert s n) = otherView s := by
  unfold nodeInsert
  simp only
  rw [otherView_updateAll]; rfl

theorem otherView_svcInsert (s : State) (v : Svc) : otherView (svcInsert s v) = otherView s := by
  unfold svcInsert
  simp [otherView, State.maxIdx2, State.maxIdx]
theorem otherView_chkInsert (s : State) (c : Chk) (i : Nat) : otherView (chkInsert s c i) = otherView s := by
  unfold chkInsert
  simp [otherView, State.maxIdx2, State.maxIdx]

theorem catView_nodes_eq {s' : State} {a : List Node} {b : List Svc} {c : List Chk} {d : List Sess}
    (h : catView s' = (a, b, c, d)) : s'.nodes = a := congrArg (·.1) h
theorem catView_svcs_eq {s' : State} {a : List Node} {b : List Svc} {c : List Chk} {d : List Sess}
    (h : catView s' = (a, b, c, d)) : s'.svcs = b := congrArg (·.2.1) h
theorem catView_chks_eq {s' : State} {a : List Node} {b : List Svc} {c : List Chk} {d : List Sess}
    (h : catView s' = (a, b, c, d)) : s'.chks = c := congrArg (·.2.2.1) h

/-! ### the index table stays in key order -/

theorem ixs_maxIdx {s : State} (h : IdxSorted s.index) (k : String) (v : Nat) : IdxSorted (s.maxIdx k v).index :=
  idxSorted_max h k v
theorem ixs_maxIdx2 {s : State} (h : IdxSorted s.index) (k : String) (v : Nat) : IdxSorted (s.maxIdx2 k v).index :=
  idxSorted_max (idxSorted_max h k v) _ v
theorem ixs_bump {s : State} (h : IdxSorted s.index) (i : Nat) (n : String) : IdxSorted (bumpServiceIdx s i n).index :=
  ixs_maxIdx2 (ixs_maxIdx h _ i) _ i

theorem ixs_foldl {β : Type} (f : State → β → State) (hf : ∀ st b, IdxSorted st.index → IdxSorted (f st b).index)
    (l : List β) (s : State) (h : IdxSorted s.index) : IdxSorted (l.foldl f s).index := by
  induction l generalizing s with
  | nil => exact h
  | cons b bs ih => exact ih _ (hf s b h)

theorem ixs_updateAll {s : State} (h : IdxSorted s.index) (i : Nat) (n : String) :
    IdxSorted (updateAllServiceIndexesOfNode s i n).index := by
  unfold updateAllServiceIndexesOfNode
  exact ixs_foldl _ (fun st b hst => ixs_bump hst i b.name) _ s h

theorem ixs_nodeInsert {s : State} (h : IdxSorted s.index) (n : Node) : IdxSorted (nodeInsert s n).index := by
  unfold nodeInsert
  simp only
  apply ixs_updateAll
  apply ixs_maxIdx
  exact ixs_maxIdx2 (s := { s with nodes := tupsert Node.pk strLt n s.nodes }) h _ _

theorem ixs_svcInsert {s : State} (h : IdxSorted s.index) (v : Svc) : IdxSorted (svcInsert s v).index := by
  unfold svcInsert
  simp only
  apply ixs_maxIdx
  apply ixs_maxIdx2
  apply ixs_maxIdx2
  apply ixs_maxIdx
  exact ixs_maxIdx2 (s := { s with svcs := tupsert Svc.pk strLt v s.svcs }) h _ _

theorem ixs_chkInsert {s : State} (h : IdxSorted s.index) (c : Chk) (i : Nat) : IdxSorted (chkInsert s c i).index := by
  unfold chkInsert
  exact ixs_maxIdx2 (s := { s with chks := tupsert Chk.pk strLt c s.chks }) h _ _

/-! ### the invariant of the catalog phase -/

/-- `st` holds exactly the nodes / services / checks described by the three predicates, nothing else -/
structure CInv (st : State) (PN : Node → Prop) (PV : Svc → Prop) (PC : Chk → Prop) : Prop where
  other : otherView st = otherView State.empty
  ns : TSorted Node.pk strLt st.nodes
  vs : TSorted Svc.pk strLt st.svcs
  cs : TSorted Chk.pk strLt st.chks
  ix : IdxSorted st.index
  mn : ∀ x, x ∈ st.nodes ↔ PN x
  mv : ∀ x, x ∈ st.svcs ↔ PV x
  mc : ∀ x, x ∈ st.chks ↔ PC x

theorem cinv_empty : CInv State.empty (fun _ => False) (fun _ => False) (fun _ => False) where
  other := rfl
  ns := tsorted_nil _ _
  vs := tsorted_nil _ _
  cs := tsorted_nil _ _
  ix := idxSorted_nil
  mn := by simp [State.empty]
  mv := by simp [State.empty]
  mc := by simp [State.empty]

theorem CInv.congr {st : State} {PN PN' : Node → Prop} {PV PV' : Svc → Prop} {PC PC' : Chk → Prop}
    (h : CInv st PN PV PC) (hn : ∀ x, PN x ↔ PN' x) (hv : ∀ x, PV x ↔ PV' x) (hc : ∀ x, PC x ↔ PC' x) :
    CInv st PN' PV' PC' :=
  { h with mn := fun x => (h.mn x).trans (hn x), mv := fun x => (h.mv x).trans (hv x), mc := fun x => (h.mc x).trans (hc x) }

theorem nodeSame_self (n : Node) : nodeSame n n = true := by simp [nodeSame]

/-- the node record of `persistNodes` on a store that has no node of that name or id yet -/
theorem step_node {st : State} {PN : Node → Prop} {PV : Svc → Prop} {PC : Chk → Prop} (h : CInv st PN PV PC)
    (last : Nat) (n : Node) (hname : ∀ x, PN x → lc x.name ≠ lc n.name)
    (hid : ∀ x, PN x → ¬ (x.id ≠ "" ∧ lc x.id = lc n.id)) (hcreate : n.create ≠ 0) :
    restoreRec last st (.reg ⟨n, none, []⟩) = .ok (nodeInsert st n) ∧
      CInv (nodeInsert st n) (fun x => x = n ∨ PN x) PV PC := by
  have h1 : nodeFind st n.name = none := by
    unfold nodeFind
    apply tfind_none_of_keys
    intro x hx
    exact hname x ((h.mn x).mp hx)
  have h2 : nodeFindByID st n.id = none := by
    unfold nodeFindByID
    rw [List.find?_eq_none]
    intro x hx
    have := hid x ((h.mn x).mp hx)
    simp only [bne_iff_ne, ne_eq, Bool.and_eq_true, beq_iff_eq, not_and] at this ⊢
    exact this
  have h3 : ∀ b, nameClash st n b = false := by
    intro b
    unfold nameClash
    rw [List.any_eq_false]
    intro x hx
    have := hname x ((h.mn x).mp hx)
    simp [this]
  refine ⟨?_, ?_⟩
  · by_cases hidn : n.id = ""
    · simp [restoreRec, ensureRegistrationR, ensureNodeR, h1, hidn, hcreate, foldE]
    · simp [restoreRec, ensureRegistrationR, ensureNodeR, h1, h2, h3, hidn, hcreate, foldE]
  · have hc := catView_nodeInsert st n
    refine
      { other := (otherView_nodeInsert st n).trans h.other
        ns := ?_, vs := ?_, cs := ?_
        ix := ixs_nodeInsert h.ix n
        mn := ?_, mv := ?_, mc := ?_ }
    · rw [catView_nodes_eq hc]; exact tsorted_tupsert strLt_ord n _ h.ns
    · rw [catView_svcs_eq hc]; exact h.vs
    · rw [catView_chks_eq hc]; exact h.cs
    · intro x
      rw [catView_nodes_eq hc, mem_tupsert_iff strLt_ord h.ns]
      constructor
      · rintro (hx | ⟨hx, _⟩)
        · exact Or.inl hx
        · exact Or.inr ((h.mn x).mp hx)
      · rintro (hx | hx)
        · exact Or.inl hx
        · exact Or.inr ⟨(h.mn x).mpr hx, hname x hx⟩
    · intro x; rw [catView_svcs_eq hc]; exact h.mv x
    · intro x; rw [catView_chks_eq hc]; exact h.mc x

theorem nodeFind_of_mem {st : State} (hs : TSorted Node.pk strLt st.nodes) {n : Node} (hn : n ∈ st.nodes) {name : String}
    (he : lc name = lc n.name) : nodeFind st name = some n := by
  unfold nodeFind
  rw [he]
  exact tfind_of_mem strLt_ord hs hn

/-- a service record of `persistNodes`: node already there and unchanged, service not yet there -/
theorem step_svc {st : State} {PN : Node → Prop} {PV : Svc → Prop} {PC : Chk → Prop} (h : CInv st PN PV PC)
    (last : Nat) (n : Node) (v : Svc) (hn : PN n) (hvn : v.node = n.name) (hfresh : ∀ x, PV x → Svc.pk x ≠ Svc.pk v) :
    restoreRec last st (.reg ⟨n, some v, []⟩) = .ok (svcInsert st v) ∧
      CInv (svcInsert st v) PN (fun x => x = v ∨ PV x) PC := by
  have hnm : n ∈ st.nodes := (h.mn n).mpr hn
  have h1 : nodeFind st n.name = some n := nodeFind_of_mem h.ns hnm rfl
  have h2 : svcFind st n.name v.id = none := by
    unfold svcFind
    apply tfind_none_of_keys
    intro x hx
    have := hfresh x ((h.mv x).mp hx)
    have e : Svc.pk v = pk2 n.name v.id := by rw [Svc.pk, hvn]
    rw [e] at this
    exact this
  have hv : { v with node := n.name } = v := by cases v; simp_all
  refine ⟨?_, ?_⟩
  · simp [restoreRec, ensureRegistrationR, h1, nodeSame_self, h2, hv, ensureServiceR, hvn, foldE]
  · have hc := catView_svcInsert st v
    refine
      { other := (otherView_svcInsert st v).trans h.other
        ns := ?_, vs := ?_, cs := ?_
        ix := ixs_svcInsert h.ix v
        mn := ?_, mv := ?_, mc := ?_ }
    · rw [catView_nodes_eq hc]; exact h.ns
    · rw [catView_svcs_eq hc]; exact tsorted_tupsert strLt_ord v _ h.vs
    · rw [catView_chks_eq hc]; exact h.cs
    · intro x; rw [catView_nodes_eq hc]; exact h.mn x
    · intro x
      rw [catView_svcs_eq hc, mem_tupsert_iff strLt_ord h.vs]
      constructor
      · rintro (hx | ⟨hx, _⟩)
        · exact Or.inl hx
        · exact Or.inr ((h.mv x).mp hx)
      · rintro (hx | hx)
        · exact Or.inl hx
        · exact Or.inr ⟨(h.mv x).mpr hx, hfresh x hx⟩
    · intro x; rw [catView_chks_eq hc]; exact h.mc x

theorem foldE_append {β : Type} (f : State → β → Except Err State) (a b : List β) (s : State) :
    foldE f (a ++ b) s = match foldE f a s with
      | .ok s' => foldE f b s'
      | .error e => .error e := by
  induction a generalizing s with
  | nil => simp [foldE]
  | cons x xs ih =>
    simp only [List.cons_append, foldE]
    cases f s x with
    | ok s' => exact ih s'
    | error e => rfl

theorem foldE_map {β γ : Type} (g : γ → β) (f : State → β → Except Err State) (l : List γ) (s : State) :
    foldE f (l.map g) s = foldE (fun st x => f st (g x)) l s := by
  induction l generalizing s with
  | nil => rfl
  | cons x xs ih =>
    simp only [List.map_cons, foldE]
    cases f s (g x) with
    | ok s' => exact ih s'
    | error e => rfl

/-- all service records of one node -/
theorem loop_svc {PN : Node → Prop} {PC : Chk → Prop} (last : Nat) (n : Node) (hn : PN n) :
    ∀ (vs : List Svc) (st : State) (PV : Svc → Prop), CInv st PN PV PC → (∀ v ∈ vs, v.node = n.name) →
      vs.Pairwise (fun a b => Svc.pk a ≠ Svc.pk b) → (∀ v ∈ vs, ∀ x, PV x → Svc.pk x ≠ Svc.pk v) →
      ∃ st', foldE (restoreRec last) (vs.map (fun v => SRec.reg ⟨n, some v, []⟩)) st = .ok st' ∧
        CInv st' PN (fun x => x ∈ vs ∨ PV x) PC := by
  intro vs
  induction vs with
  | nil =>
    intro st PV h _ _ _
    exact ⟨st, rfl, h.congr (fun _ => Iff.rfl) (fun x => by simp) (fun _ => Iff.rfl)⟩
  | cons v vs ih =>
    intro st PV h hnode hpw hfresh
    obtain ⟨hv, hvs⟩ := List.pairwise_cons.mp hpw
    obtain ⟨e1, h1⟩ := step_svc h last n v hn (hnode v List.mem_cons_self) (hfresh v List.mem_cons_self)
    obtain ⟨st', e2, h2⟩ := ih (svcInsert st v) (fun x => x = v ∨ PV x) h1
      (fun w hw => hnode w (List.mem_cons_of_mem _ hw)) hvs
      (fun w hw x hx => by
        rcases hx with rfl | hx
        · exact hv w hw
        · exact hfresh w (List.mem_cons_of_mem _ hw) x hx)
    refine ⟨st', ?_, h2.congr (fun _ => Iff.rfl) (fun x => ?_) (fun _ => Iff.rfl)⟩
    · simp only [List.map_cons, foldE, e1]; exact e2
    · simp only [List.mem_cons]
      constructor
      · rintro (hx | hx | hx)
        · exact Or.inl (Or.inr hx)
        · exact Or.inl (Or.inl hx)
        · exact Or.inr hx
      · rintro ((hx | hx) | hx)
        · exact Or.inr (Or.inl hx)
        · exact Or.inl hx
        · exact Or.inr (Or.inr hx)

theorem catView_chkInsert (s : State) (c : Chk) (i : Nat) :
    catView (chkInsert s c i) = (s.nodes, s.svcs, tupsert Chk.pk strLt c s.chks, s.sessions) := by
  unfold chkInsert
  simp [catView, State.maxIdx2, State.maxIdx]

/-- `checkPrep` of a check record on a store that has the node (and the service) but not the check -/
theorem checkPrep_restore {st : State} {PN : Node → Prop} {PV : Svc → Prop} {PC : Chk → Prop} (h : CInv st PN PV PC)
    (last : Nat) (n : Node) (c : Chk) (hn : PN n) (hcn : lc c.node = lc n.name)
    (hfresh : ∀ x, PC x → Chk.pk x ≠ Chk.pk c) (hst : c.status ≠ "")
    (hsvc : c.svcId ≠ "" → ∃ v, PV v ∧ lc v.node = lc c.node ∧ lc v.id = lc c.svcId ∧ c.svcName = v.name) :
    ∃ s1, checkPrep st last true c = .ok (s1, c, true) ∧ catView s1 = catView st ∧ otherView s1 = otherView st ∧
      IdxSorted s1.index := by
  have hnode : nodeFind st c.node = some n := nodeFind_of_mem h.ns ((h.mn n).mpr hn) hcn
  have hchk : chkFind st c.node c.id = none := by
    unfold chkFind
    apply tfind_none_of_keys
    intro x hx
    exact hfresh x ((h.mc x).mp hx)
  by_cases hs : c.svcId = ""
  · refine ⟨updateAllServiceIndexesOfNode st last c.node, ?_, catView_updateAll _ _ _, otherView_updateAll _ _ _,
      ixs_updateAll h.ix _ _⟩
    simp [checkPrep, hchk, hst, hnode, hs]
  · obtain ⟨v, hv, hvn, hvi, hname⟩ := hsvc hs
    have hfind : svcFind st c.node c.svcId = some v := by
      unfold svcFind
      have hk : pk2 c.node c.svcId = Svc.pk v := by simp [pk2, Svc.pk, hvn, hvi]
      rw [hk]
      exact tfind_of_mem strLt_ord h.vs ((h.mv v).mpr hv)
    refine ⟨bumpServiceIdx st last v.name, ?_, rfl, rfl, ixs_bump h.ix _ _⟩
    have hc : { c with svcName := v.name } = c := by cases c; simp_all
    simp [checkPrep, hchk, hst, hnode, hs, hfind, hc]

/-- a check record of `persistNodes` -/
theorem step_chk {st : State} {PN : Node → Prop} {PV : Svc → Prop} {PC : Chk → Prop} (h : CInv st PN PV PC)
    (last : Nat) (n : Node) (c : Chk) (hn : PN n) (hcn : lc c.node = lc n.name)
    (hfresh : ∀ x, PC x → Chk.pk x ≠ Chk.pk c) (hst : c.status ≠ "")
    (hsvc : c.svcId ≠ "" → ∃ v, PV v ∧ lc v.node = lc c.node ∧ lc v.id = lc c.svcId ∧ c.svcName = v.name) :
    ∃ st', restoreRec last st (.reg ⟨n, none, [c]⟩) = .ok st' ∧ CInv st' PN PV (fun x => x = c ∨ PC x) := by
  obtain ⟨s1, hp, hcat, hoth, hix⟩ := checkPrep_restore h last n c hn hcn hfresh hst hsvc
  have h1 : nodeFind st n.name = some n := nodeFind_of_mem h.ns ((h.mn n).mpr hn) rfl
  have hsc : sessionsToInvalidate s1 c = [] := by
    have e : s1.sessChecks = [] := by
      have := congrArg (·.2.2.2.1) (hoth.trans h.other)
      simpa [otherView, State.empty] using this
    unfold sessionsToInvalidate checkSessions
    simp [e]
  refine ⟨chkInsert s1 c last, ?_, ?_⟩
  · have hne : ¬ lc c.node ≠ lc n.name := by simp [hcn]
    simp only [restoreRec, ensureRegistrationR, h1, nodeSame_self, if_true, foldE, ensureCheckIfNodeMatchesR, hne, if_false,
      ensureCheck]
    rw [ensureCheckF]
    simp only [hp, hsc, checkFinish]
    simp
  · have hc := catView_chkInsert s1 c last
    have en : s1.nodes = st.nodes := catView_nodes hcat
    have ev : s1.svcs = st.svcs := catView_svcs hcat
    have ec : s1.chks = st.chks := catView_chks hcat
    refine
      { other := ((otherView_chkInsert s1 c last).trans hoth).trans h.other
        ns := ?_, vs := ?_, cs := ?_
        ix := ixs_chkInsert hix c last
        mn := ?_, mv := ?_, mc := ?_ }
    · rw [catView_nodes_eq hc, en]; exact h.ns
    · rw [catView_svcs_eq hc, ev]; exact h.vs
    · rw [catView_chks_eq hc, ec]; exact tsorted_tupsert strLt_ord c _ h.cs
    · intro x; rw [catView_nodes_eq hc, en]; exact h.mn x
    · intro x; rw [catView_svcs_eq hc, ev]; exact h.mv x
    · intro x
      rw [catView_chks_eq hc, ec, mem_tupsert_iff strLt_ord h.cs]
      constructor
      · rintro (hx | ⟨hx, _⟩)
        · exact Or.inl hx
        · exact Or.inr ((h.mc x).mp hx)
      · rintro (hx | hx)
        · exact Or.inl hx
        · exact Or.inr ⟨(h.mc x).mpr hx, hfresh x hx⟩

/-- all check records of one node -/
theorem loop_chk {PN : Node → Prop} {PV : Svc → Prop} (last : Nat) (n : Node) (hn : PN n) :
    ∀ (cs : List Chk) (st : State) (PC : Chk → Prop), CInv st PN PV PC → (∀ c ∈ cs, lc c.node = lc n.name) →
      cs.Pairwise (fun a b => Chk.pk a ≠ Chk.pk b) → (∀ c ∈ cs, ∀ x, PC x → Chk.pk x ≠ Chk.pk c) →
      (∀ c ∈ cs, c.status ≠ "") →
      (∀ c ∈ cs, c.svcId ≠ "" → ∃ v, PV v ∧ lc v.node = lc c.node ∧ lc v.id = lc c.svcId ∧ c.svcName = v.name) →
      ∃ st', foldE (restoreRec last) (cs.map (fun c => SRec.reg ⟨n, none, [c]⟩)) st = .ok st' ∧
        CInv st' PN PV (fun x => x ∈ cs ∨ PC x) := by
  intro cs
  induction cs with
  | nil =>
    intro st PC h _ _ _ _ _
    exact ⟨st, rfl, h.congr (fun _ => Iff.rfl) (fun _ => Iff.rfl) (fun x => by simp)⟩
  | cons c cs ih =>
    intro st PC h hnode hpw hfresh hst hsvc
    obtain ⟨hc, hcs⟩ := List.pairwise_cons.mp hpw
    obtain ⟨s1, e1, h1⟩ := step_chk h last n c hn (hnode c List.mem_cons_self) (hfresh c List.mem_cons_self)
      (hst c List.mem_cons_self) (hsvc c List.mem_cons_self)
    obtain ⟨st', e2, h2⟩ := ih s1 (fun x => x = c ∨ PC x) h1
      (fun w hw => hnode w (List.mem_cons_of_mem _ hw)) hcs
      (fun w hw x hx => by
        rcases hx with rfl | hx
        · exact hc w hw
        · exact hfresh w (List.mem_cons_of_mem _ hw) x hx)
      (fun w hw => hst w (List.mem_cons_of_mem _ hw)) (fun w hw => hsvc w (List.mem_cons_of_mem _ hw))
    refine ⟨st', ?_, h2.congr (fun _ => Iff.rfl) (fun _ => Iff.rfl) (fun x => ?_)⟩
    · simp only [List.map_cons, foldE, e1]; exact e2
    · simp only [List.mem_cons]
      constructor
      · rintro (hx | hx | hx)
        · exact Or.inl (Or.inr hx)
        · exact Or.inl (Or.inl hx)
        · exact Or.inr hx
      · rintro ((hx | hx) | hx)
        · exact Or.inr (Or.inl hx)
        · exact Or.inl hx
        · exact Or.inr (Or.inr hx)

end CV.Store
