/-
Helper lemmas for C05: the transaction loop is a fold of its operations; results and error positions
are functions of that fold; read verbs are pure; TxnRO = TxnRW on read verbs.
-/
import CV.Proofs.StoreSorted
namespace CV.Store
open CV

/-- the working copy after one operation (an operation that fails leaves it as it was) -/
def stepState (idx : Nat) (s : State) (op : TxnOp) : State :=
  match txnStep s idx op with
  | .ok (s', _) => s'
  | .error _ => s

def stepRes (idx : Nat) (s : State) (op : TxnOp) : List TxnRes :=
  match txnStep s idx op with
  | .ok (_, r) => r
  | .error _ => []

/-- the working copy after a list of operations: the left fold -/
def workState (idx : Nat) (s : State) (ops : List TxnOp) : State := ops.foldl (stepState idx) s

def resultsFrom (idx : Nat) : State → List TxnOp → List TxnRes
  | _, [] => []
  | s, op :: ops => stepRes idx s op ++ resultsFrom idx (stepState idx s op) ops

def errorsFrom (idx : Nat) : State → List TxnOp → Nat → List (Nat × Err)
  | _, [], _ => []
  | s, op :: ops, i =>
    (match txnStep s idx op with
     | .ok _ => []
     | .error e => [(i, e)]) ++ errorsFrom idx (stepState idx s op) ops (i + 1)

theorem txnLoop_spec (idx : Nat) (ops : List TxnOp) (i : Nat) (s : State) (rs : List TxnRes) (es : List (Nat × Err)) :
    txnLoop idx ops i s rs es = (workState idx s ops, rs ++ resultsFrom idx s ops, es ++ errorsFrom idx s ops i) := by
  induction ops generalizing i s rs es with
  | nil => simp [txnLoop, workState, resultsFrom, errorsFrom]
  | cons op ops ih =>
    simp only [txnLoop, workState, List.foldl_cons, resultsFrom, errorsFrom, stepState, stepRes]
    cases h : txnStep s idx op with
    | ok p =>
      obtain ⟨s', r⟩ := p
      simp only [h] at ih ⊢
      rw [ih]
      simp [workState, stepState, List.append_assoc]
    | error e =>
      simp only [h] at ih ⊢
      rw [ih]
      simp [workState, stepState, List.append_assoc]

theorem txnRW_spec (s : State) (idx : Nat) (ops : List TxnOp) :
    txnRW s idx ops =
      if (errorsFrom idx s ops 0).isEmpty then (workState idx s ops, resultsFrom idx s ops, [])
      else (s, [], errorsFrom idx s ops 0) := by
  unfold txnRW
  rw [txnLoop_spec]
  simp

theorem workState_append (idx : Nat) (s : State) (a b : List TxnOp) :
    workState idx s (a ++ b) = workState idx (workState idx s a) b := by
  simp [workState, List.foldl_append]

theorem mem_errorsFrom (idx : Nat) (ops : List TxnOp) (s : State) (i p : Nat) (e : Err) :
    (p, e) ∈ errorsFrom idx s ops i ↔
      ∃ j op, p = i + j ∧ ops[j]? = some op ∧ txnStep (workState idx s (ops.take j)) idx op = .error e := by
  induction ops generalizing s i with
  | nil => simp [errorsFrom]
  | cons op ops ih =>
    simp only [errorsFrom, List.mem_append]
    rw [ih]
    constructor
    · rintro (h | ⟨j, op', hp, hj, hs⟩)
      · refine ⟨0, op, ?_, by simp, ?_⟩
        · cases hq : txnStep s idx op with
          | ok x => simp [hq] at h
          | error e' => simp [hq] at h; omega
        · cases hq : txnStep s idx op with
          | ok x => simp [hq] at h
          | error e' => simp [hq] at h; simp [workState, hq, h.2]
      · refine ⟨j + 1, op', by omega, by simpa using hj, ?_⟩
        simpa [workState, List.take_succ_cons, List.foldl_cons] using hs
    · rintro ⟨j, op', hp, hj, hs⟩
      cases j with
      | zero =>
        left
        simp at hj; subst hj
        simp [workState] at hs
        simp [hs, hp]
      | succ j =>
        right
        refine ⟨j, op', by omega, by simpa using hj, ?_⟩
        simpa [workState, List.take_succ_cons, List.foldl_cons] using hs

/-! ### read verbs -/

theorem txnStep_read_pure {s s' : State} {idx : Nat} {op : TxnOp} {rs : List TxnRes}
    (hread : op.isRead = true) (hr : txnStep s idx op = .ok (s', rs)) : s' = s := by
  cases op with
  | kv v e =>
    have hn : cmdOfVerb v e = none := by cases v <;> simp [TxnOp.isRead] at hread <;> rfl
    exact txnKV_reads_pure s s' idx v e rs hn hr
  | node v n =>
    cases v <;> simp [TxnOp.isRead] at hread
    simp only [txnStep, txnNode, okRes] at hr
    split at hr <;> simp at hr
    exact hr.1.symm
  | service v x =>
    cases v <;> simp [TxnOp.isRead] at hread
    simp only [txnStep, txnService, okRes] at hr
    split at hr <;> simp at hr
    exact hr.1.symm
  | check v c =>
    cases v <;> simp [TxnOp.isRead] at hread
    simp only [txnStep, txnCheck, okRes] at hr
    split at hr <;> simp at hr
    exact hr.1.symm
  | sessionDelete id => simp [TxnOp.isRead] at hread

theorem stepState_read (idx : Nat) (s : State) (op : TxnOp) (h : op.isRead = true) : stepState idx s op = s := by
  unfold stepState
  cases hq : txnStep s idx op with
  | ok p => obtain ⟨s', rs⟩ := p; exact txnStep_read_pure h hq
  | error e => rfl

theorem workState_reads (idx : Nat) (s : State) (ops : List TxnOp) (h : ∀ op ∈ ops, op.isRead = true) :
    workState idx s ops = s := by
  induction ops with
  | nil => rfl
  | cons op ops ih =>
    simp only [workState, List.foldl_cons]
    rw [stepState_read idx s op (h op (by simp))]
    exact ih (fun o ho => h o (by simp [ho]))

theorem txnStepRO_read (s : State) (op : TxnOp) (h : op.isRead = true) :
    txnStepRO s op = (txnStep s 0 op).map (·.2) := by
  have hdt : op.isDeleteTree = false := by
    cases op with
    | kv v e => cases v <;> simp [TxnOp.isRead] at h <;> rfl
    | _ => rfl
  have hearly : roEarlyWrite s op = false := by
    cases op with
    | service v x => cases v <;> simp [TxnOp.isRead] at h <;> rfl
    | _ => rfl
  unfold txnStepRO
  simp only [hearly, Bool.false_eq_true, if_false]
  cases hq : txnStep s 0 op with
  | ok p =>
    obtain ⟨s', rs⟩ := p
    have := txnStep_read_pure h hq
    simp [this, hdt, Except.map]
  | error e => simp [Except.map]

theorem txnLoopRO_reads (s : State) (ops : List TxnOp) (h : ∀ op ∈ ops, op.isRead = true)
    (i : Nat) (rs : List TxnRes) (es : List (Nat × Err)) :
    txnLoop 0 ops i s rs es = (s, (txnLoopRO s ops i rs es).1, (txnLoopRO s ops i rs es).2) := by
  induction ops generalizing i rs es with
  | nil => simp [txnLoop, txnLoopRO]
  | cons op ops ih =>
    have hop := h op (by simp)
    have hrest : ∀ o ∈ ops, o.isRead = true := fun o ho => h o (by simp [ho])
    simp only [txnLoop, txnLoopRO, txnStepRO_read s op hop]
    cases hq : txnStep s 0 op with
    | ok p =>
      obtain ⟨s', r⟩ := p
      have := txnStep_read_pure hop hq
      subst this
      simp only [Except.map]
      exact ih hrest _ _ _
    | error e =>
      simp only [Except.map]
      exact ih hrest _ _ _

/-! ### committed KV rows carry the transaction's index -/

/-- every row is a row of `s0` or carries modify index `idx` -/
def KvStamp (idx : Nat) (s0 s' : State) : Prop := ∀ e' ∈ s'.kvs, e' ∈ s0.kvs ∨ e'.modify = idx

theorem kvStamp_closed (idx : Nat) (s0 : State) : KvClosed idx (KvStamp idx s0) where
  kvs_only := by intro s s' h hp e' he'; rw [h] at he'; exact hp e' he'
  invalidate := by
    intro s sess hp e' he'
    obtain ⟨e, he, hf, -⟩ := mem_invalidateKeys_from he'
    rcases hf with rfl | ⟨-, rfl⟩
    · exact hp _ he
    · exact Or.inr rfl

theorem kvStamp_trans {idx : Nat} {a b c : State} (h1 : KvStamp idx a b) (h2 : KvStamp idx b c) : KvStamp idx a c := by
  intro e he
  rcases h2 e he with h | h
  · exact h1 e h
  · exact Or.inr h

theorem kvStamp_refl (idx : Nat) (s : State) : KvStamp idx s s := fun _ he => Or.inl he

theorem kvStamp_set {s s' : State} {idx : Nat} {e w : KV} {upd : Bool}
    (hr : kvSetTxn s idx e upd = .ok (s', w)) : KvStamp idx s s' := by
  cases upd <;> simp only [kvSetTxn] at hr <;> repeat' (split at hr)
  all_goals (try simp at hr)
  all_goals (obtain ⟨rfl, -⟩ := hr)
  all_goals (first
    | exact kvStamp_refl idx s
    | (intro e' he'
       rcases mem_tupsert he' with rfl | h
       · exact Or.inr rfl
       · exact Or.inl h))

theorem kvStamp_del {s s' : State} {idx : Nat} {k : Key}
    (hr : kvDeleteTxn s idx k = .ok s') : KvStamp idx s s' := by
  simp only [kvDeleteTxn] at hr
  repeat' (split at hr)
  all_goals (try simp at hr)
  all_goals (subst hr)
  · exact kvStamp_refl idx s
  · intro e' he'; exact Or.inl (mem_terase.mp he').1

theorem kvStamp_tree (s : State) (idx : Nat) (p : Key) : KvStamp idx s (kvDeleteTreeTxn s idx p) := by
  unfold kvDeleteTreeTxn
  split
  · intro e' he'
    have : e' ∈ s.kvs.filter (fun e => !prefixMatch p e.key) := by split at he' <;> exact he'
    exact Or.inl (List.mem_filter.mp this).1
  · exact kvStamp_refl idx s

theorem kvStamp_txnStep {s s' : State} {idx : Nat} {op : TxnOp} {rs : List TxnRes}
    (hr : txnStep s idx op = .ok (s', rs)) : KvStamp idx s s' := by
  cases op with
  | kv v e =>
    by_cases hc : ∃ c, cmdOfVerb v e = some c
    · obtain ⟨c, hc⟩ := hc
      obtain ⟨hs, -⟩ := (txnKV_same_as_direct s idx v e c hc).1 s' rs hr
      have hop : ∃ op, kvOpOf c = some op := by
        cases v <;> simp only [cmdOfVerb] at hc <;> try (cases hc)
        all_goals exact ⟨_, rfl⟩
      obtain ⟨op, hop⟩ := hop
      rw [hs]
      exact kv_cmd_relI KvStamp kvStamp_refl (fun _ _ _ _ _ _ hr => kvStamp_set hr)
        (fun _ _ _ _ hr => kvStamp_del hr) kvStamp_tree s idx c op hop
    · have hn : cmdOfVerb v e = none := by
        cases hcm : cmdOfVerb v e with
        | none => rfl
        | some c => exact absurd ⟨c, hcm⟩ hc
      rw [txnKV_reads_pure s s' idx v e rs hn hr]; exact kvStamp_refl idx s
  | node v n => exact kc_txnStep (kvStamp_closed idx s) (by intro v e hh; cases hh) hr (kvStamp_refl idx s)
  | service v x => exact kc_txnStep (kvStamp_closed idx s) (by intro v e hh; cases hh) hr (kvStamp_refl idx s)
  | check v c => exact kc_txnStep (kvStamp_closed idx s) (by intro v e hh; cases hh) hr (kvStamp_refl idx s)
  | sessionDelete id => exact kc_txnStep (kvStamp_closed idx s) (by intro v e hh; cases hh) hr (kvStamp_refl idx s)

end CV.Store
