/-
`updateSyncState` establishes the invariant; a sync whose RPCs all succeed leaves every record
registered and in sync.
-/
import CV.Proofs.AELoop
namespace CV.AE
open AMap

variable {T : Prop} {Rs Rc Ps Pc : Id → Prop}

/-! ### updateSyncState through lookups -/

theorem uss_svcs (cfg : Cfg) (l : Local) (c : Cat) (id : Id) :
    (updateSyncState cfg l c).svcs.get? id =
      match l.svcs.get? id with
      | some e => some (usSvc c id e)
      | none => if c.svcs.get? id ≠ none ∧ specialSvc id = false then some (.ghost false) else none := by
  simp only [updateSyncState, get?_append, get?_mapVals, ghostsFor]
  cases h : l.svcs.get? id with
  | some e => rfl
  | none =>
    simp only [Option.map_none]
    rw [get?_filterMap_key (fun k => l.svcs.get? k = none ∧ specialSvc k = false)]
    simp only [h, true_and]
    split <;> split <;> simp_all

theorem uss_chks (cfg : Cfg) (l : Local) (c : Cat) (k : Id) :
    (updateSyncState cfg l c).chks.get? k =
      match l.chks.get? k with
      | some e => some (usChk c l.armed k e)
      | none => if c.chks.get? k ≠ none ∧ specialChk k = false then some (.ghost false) else none := by
  simp only [updateSyncState, get?_append, get?_mapVals, ghostsFor]
  cases h : l.chks.get? k with
  | some e => rfl
  | none =>
    simp only [Option.map_none]
    rw [get?_filterMap_key (fun k => l.chks.get? k = none ∧ specialChk k = false)]
    simp only [h, true_and]
    split <;> split <;> simp_all

/-- the server-owned fields of a registered service follow the catalog -/
def absorbFrom (c : Cat) (id : Id) (d : SvcDef) : SvcDef :=
  match c.svcs.get? id with
  | some rs => absorb d rs
  | none => d

theorem usSvc_live (c : Cat) (id : Id) (e : Ent SvcDef) :
    (usSvc c id e).live? = e.live?.map (absorbFrom c id) := by
  unfold usSvc absorbFrom
  cases h : c.svcs.get? id with
  | none => simp
  | some rs =>
    cases e with
    | ghost b => rfl
    | ent d t lo b del => cases del <;> rfl

theorem usSvc_deleted (c : Cat) (id : Id) (e : Ent SvcDef) : (usSvc c id e).deleted = e.deleted := by
  unfold usSvc
  cases c.svcs.get? id with
  | none => simp
  | some rs =>
    cases e with
    | ghost b => rfl
    | ent d t lo b del => cases del <;> rfl

theorem usChk_live (c : Cat) (a : Id → Bool) (k : Id) (e : Ent ChkDef) : (usChk c a k e).live? = e.live? := by
  unfold usChk
  cases c.chks.get? k with
  | none => simp
  | some rc =>
    cases e with
    | ghost b => rfl
    | ent d t lo b del => cases del <;> rfl

theorem uss_liveSvc (cfg : Cfg) (l : Local) (c : Cat) (id : Id) :
    liveSvc (updateSyncState cfg l c) id = (liveSvc l id).map (absorbFrom c id) := by
  unfold liveSvc
  rw [uss_svcs]
  cases h : l.svcs.get? id with
  | some e => simp [usSvc_live]
  | none => simp only; split <;> rfl

theorem uss_liveChk (cfg : Cfg) (l : Local) (c : Cat) (k : Id) :
    liveChk (updateSyncState cfg l c) k = liveChk l k := by
  unfold liveChk
  rw [uss_chks]
  cases h : l.chks.get? k with
  | some e => simp [usChk_live]
  | none => simp only; split <;> rfl

/-- after the read phase an in-sync mark means that the catalog holds exactly this definition -/
theorem uss_sound_svc (cfg : Cfg) (l : Local) (c : Cat) (id : Id) (d : SvcDef) (tok : String) (loc : Bool)
    (h : (updateSyncState cfg l c).svcs.get? id = some (.ent d tok loc true false)) : c.svcs.get? id = some d := by
  rw [uss_svcs] at h
  cases hl : l.svcs.get? id with
  | none => rw [hl] at h; simp only at h; split at h <;> cases h
  | some e =>
    rw [hl] at h; simp only [Option.some.injEq] at h
    unfold usSvc at h
    cases hc : c.svcs.get? id with
    | none => rw [hc] at h; simp only at h; cases e <;> simp [Ent.setInSync] at h
    | some rs =>
      rw [hc] at h; simp only at h
      cases e with
      | ghost b => cases h
      | ent d0 t lo b del =>
        cases del with
        | true => simp at h
        | false =>
          simp only [Ent.ent.injEq] at h
          obtain ⟨h1, _, _, h2, _⟩ := h
          have : absorb d0 rs = rs := by simpa using h2
          rw [← h1, this]

theorem uss_sound_chk (cfg : Cfg) (l : Local) (c : Cat) (k : Id) (d : ChkDef) (tok : String) (loc : Bool)
    (hna : l.armed k = false)
    (h : (updateSyncState cfg l c).chks.get? k = some (.ent d tok loc true false)) : c.chks.get? k = some d := by
  rw [uss_chks] at h
  cases hl : l.chks.get? k with
  | none => rw [hl] at h; simp only at h; split at h <;> cases h
  | some e =>
    rw [hl] at h; simp only [Option.some.injEq] at h
    unfold usChk at h
    cases hc : c.chks.get? k with
    | none => rw [hc] at h; simp only at h; cases e <;> simp [Ent.setInSync] at h
    | some rc =>
      rw [hc] at h; simp only at h
      cases e with
      | ghost b => cases h
      | ent d0 t lo b del =>
        cases del with
        | true => simp at h
        | false =>
          simp only [Ent.ent.injEq, hna] at h
          obtain ⟨h1, _, _, h2, _⟩ := h
          have : d0 = rc := by simpa using h2
          rw [← h1, this]

/-- the catalog entries that `updateSyncState` deliberately leaves alone -/
def KeptSvc (l : Local) (id : Id) : Prop := specialSvc id = true ∧ l.svcs.get? id = none
def KeptChk (l : Local) (k : Id) : Prop := specialChk k = true ∧ l.chks.get? k = none

theorem uss_GInv (cfg : Cfg) (l : Local) (c : Cat)
    (hl : LocalWF l) (hc : CatWF c) (hn : NoEmptyKey l c) (hr : T → NoRebound l c)
    (ha : ∀ k, l.armed k = true → Rc k) :
    GInv T Rs Rc (KeptSvc l) (KeptChk l) (updateSyncState cfg l c) c := by
  obtain ⟨n1, n2, n3, n4⟩ := hn
  refine ⟨?_, hc, ⟨?_, ?_, n3, n4⟩, ?_, ⟨?_, ?_⟩, ⟨?_, ?_⟩⟩
  · intro k d h1 h2
    rw [uss_liveChk] at h1
    rw [uss_liveSvc]
    have := hl k d h1 h2
    cases hh : liveSvc l d.sid with
    | none => exact absurd hh this
    | some x => simp
  · rw [uss_svcs, n1]; simp [n3]
  · rw [uss_chks, n2]; simp [n4]
  · intro ht k d tok loc b rc h1 h2 h3
    rw [uss_chks] at h1
    cases hk : l.chks.get? k with
    | none => rw [hk] at h1; simp only at h1; split at h1 <;> cases h1
    | some e =>
      rw [hk] at h1; simp only [Option.some.injEq] at h1
      unfold usChk at h1
      rw [h3] at h1; simp only at h1
      cases e with
      | ghost x => cases h1
      | ent d0 t lo x del =>
        cases del with
        | false => simp at h1
        | true =>
          simp only [Ent.ent.injEq] at h1
          obtain ⟨rfl, rfl, rfl, rfl, _⟩ := h1
          exact hr ht k d0 t lo x rc hk h2 h3
  · intro id d tok loc h; exact Or.inr (uss_sound_svc cfg l c id d tok loc h)
  · intro k d tok loc h
    cases hk : l.armed k with
    | true => exact Or.inl (ha k hk)
    | false => exact Or.inr ⟨d, uss_sound_chk cfg l c k d tok loc hk h, rfl⟩
  · intro id h
    rw [uss_svcs] at h
    cases hk : l.svcs.get? id with
    | some e => rw [hk] at h; cases h
    | none =>
      rw [hk] at h; simp only at h
      split at h
      · cases h
      · rename_i hneg
        by_cases hcn : c.svcs.get? id = none
        · exact Or.inl hcn
        · right; refine ⟨?_, hk⟩
          cases hs : specialSvc id with
          | true => rfl
          | false => exact absurd ⟨hcn, hs⟩ hneg
  · intro _ k h
    rw [uss_chks] at h
    cases hk : l.chks.get? k with
    | some e => rw [hk] at h; cases h
    | none =>
      rw [hk] at h; simp only at h
      split at h
      · cases h
      · rename_i hneg
        by_cases hcn : c.chks.get? k = none
        · exact Or.inl hcn
        · right; refine ⟨?_, hk⟩
          cases hs : specialChk k with
          | true => rfl
          | false => exact absurd ⟨hcn, hs⟩ hneg

end CV.AE
