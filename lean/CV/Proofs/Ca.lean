/- Helper lemmas for CV.Ca (property C12). -/
import CV.Ca
namespace CV.Ca
open CV

/-! ### splitting and joining paths -/

theorem splitSlash_ne_nil (p : Bytes) : splitSlash p ≠ [] := by
  induction p with
  | nil => simp [splitSlash]
  | cons c cs ih =>
    unfold splitSlash
    split
    · simp
    · split <;> simp

/-- a slash-free prefix stays in the first segment -/
theorem splitSlash_append (s rest : Bytes) (hs : 47 ∉ s) (h : Bytes) (t : List Bytes)
    (hr : splitSlash rest = h :: t) : splitSlash (s ++ rest) = (s ++ h) :: t := by
  induction s with
  | nil => simpa using hr
  | cons c cs ih =>
    have hc : c ≠ 47 := by intro e; apply hs; simp [e]
    have hcs : 47 ∉ cs := by intro e; apply hs; simp [e]
    have := ih hcs
    simp only [List.cons_append]
    unfold splitSlash
    rw [this]
    simp [hc]

theorem splitSlash_joinSegs (segs : List Bytes) (h : ∀ s ∈ segs, 47 ∉ s) :
    splitSlash (joinSegs segs) = [] :: segs := by
  induction segs with
  | nil => simp [joinSegs, splitSlash]
  | cons s ss ih =>
    have hs : 47 ∉ s := h s (by simp)
    have hss := ih (fun x hx => h x (by simp [hx]))
    have h2 := splitSlash_append s (joinSegs ss) hs [] ss hss
    simp only [joinSegs]
    unfold splitSlash
    rw [h2]
    simp

theorem joinSegs_append (a b : List Bytes) : joinSegs (a ++ b) = joinSegs a ++ joinSegs b := by
  induction a with
  | nil => simp [joinSegs]
  | cons s ss ih => simp [joinSegs, ih]

/-! ### percent decoding -/

theorem pathUnescape_ne_nil (s t : Bytes) (h : pathUnescape s = some t) (hs : s ≠ []) : t ≠ [] := by
  cases s with
  | nil => exact absurd rfl hs
  | cons c rest =>
    unfold pathUnescape at h
    split at h
    · split at h
      · split at h
        · simp only [Option.map_eq_some_iff] at h
          obtain ⟨a, _, rfl⟩ := h
          simp
        · simp at h
      · simp at h
    · simp only [Option.map_eq_some_iff] at h
      obtain ⟨a, _, rfl⟩ := h
      simp

theorem decSeg_ne_nil (raw : Bool) (s t : Bytes) (h : decSeg raw s = some t) (hs : s ≠ []) : t ≠ [] := by
  unfold decSeg at h
  split at h
  · exact pathUnescape_ne_nil s t h hs
  · simp at h; subst h; exact hs

/-! ### lower-casing -/

theorem lcByte_idem (c : Nat) : lcByte (lcByte c) = lcByte c := by
  unfold lcByte
  split
  · split <;> omega
  · rfl

theorem lc_idem (s : Bytes) : lc (lc s) = lc s := by
  simp [lc, lcByte_idem]

theorem trustDomainOf_lc (c : Bytes) : lc (trustDomainOf c) = trustDomainOf c := by
  simp [trustDomainOf, lc_idem]


theorem lc_append (a b : Bytes) : lc (a ++ b) = lc a ++ lc b := by simp [lc]

/-! ### the four patterns are mutually exclusive -/

theorem excl_service_agent (segs : List Bytes) (a) (b) (h1 : matchService segs = some a)
    (h2 : matchAgent segs = some b) : False := by
  unfold matchService at h1
  unfold matchAgent at h2
  split at h1 <;> split at h2 <;> simp_all [bNs, bAgent, bAp]

theorem excl_service_gateway (segs : List Bytes) (a) (b) (h1 : matchService segs = some a)
    (h2 : matchGateway segs = some b) : False := by
  unfold matchService at h1
  unfold matchGateway at h2
  split at h1 <;> split at h2 <;> simp_all [bNs, bGateway, bAp]

theorem excl_service_server (segs : List Bytes) (a) (b) (h1 : matchService segs = some a)
    (h2 : matchServer segs = some b) : False := by
  unfold matchService at h1
  unfold matchServer at h2
  split at h1 <;> split at h2 <;> simp_all

theorem excl_agent_gateway (segs : List Bytes) (a) (b) (h1 : matchAgent segs = some a)
    (h2 : matchGateway segs = some b) : False := by
  unfold matchAgent at h1
  unfold matchGateway at h2
  split at h1 <;> split at h2 <;> simp_all [bAgent, bGateway, bAp]

theorem excl_agent_server (segs : List Bytes) (a) (b) (h1 : matchAgent segs = some a)
    (h2 : matchServer segs = some b) : False := by
  unfold matchAgent at h1
  unfold matchServer at h2
  split at h1 <;> split at h2 <;> simp_all

theorem excl_gateway_server (segs : List Bytes) (a) (b) (h1 : matchGateway segs = some a)
    (h2 : matchServer segs = some b) : False := by
  unfold matchGateway at h1
  unfold matchServer at h2
  split at h1 <;> split at h2 <;> simp_all [bAgent, bGateway, bAp]

/-! ### parsing what `URI()` renders -/

/-- a path segment: non-empty and free of '/' -/
def Seg (s : Bytes) : Prop := s ≠ [] ∧ 47 ∉ s

theorem noSlash_consts : 47 ∉ bAp ∧ 47 ∉ bNs ∧ 47 ∉ bDc ∧ 47 ∉ bSvc ∧ 47 ∉ bAgent ∧ 47 ∉ bClient ∧
    47 ∉ bId ∧ 47 ∉ bServer ∧ 47 ∉ bGateway ∧ 47 ∉ bMesh ∧ 47 ∉ bDefault := by
  simp [bAp, bNs, bDc, bSvc, bAgent, bClient, bId, bServer, bGateway, bMesh, bDefault]

theorem parse_agent_canon (h ap dc node : Bytes) (hd : Seg dc) (hn : Seg node) :
    parseId (uriOf (.agent h ap dc node)) = .ok (.agent h bDefault dc node) := by
  have hc := noSlash_consts
  have hs : splitSlash (joinSegs [bAgent, bClient, bDc, dc, bId, node])
      = [] :: [bAgent, bClient, bDc, dc, bId, node] := by
    apply splitSlash_joinSegs
    intro s hs
    simp at hs
    rcases hs with rfl | rfl | rfl | rfl | rfl | rfl <;> simp_all [Seg]
  simp [parseId, uriOf, pathOf, hostOf, hs, matchService, matchAgent, decSeg, apOrDefault, bSpiffe,
    hd.1, hn.1, (by decide : bAgent ≠ bNs)]

theorem parse_gateway_canon (h ap dc : Bytes) (hd : Seg dc) :
    parseId (uriOf (.gateway h ap dc)) = .ok (.gateway h bDefault dc) := by
  have hc := noSlash_consts
  have hs : splitSlash (joinSegs [bGateway, bMesh, bDc, dc]) = [] :: [bGateway, bMesh, bDc, dc] := by
    apply splitSlash_joinSegs
    intro s hs
    simp at hs
    rcases hs with rfl | rfl | rfl | rfl <;> simp_all [Seg]
  simp [parseId, uriOf, pathOf, hostOf, hs, matchService, matchAgent, matchGateway, decSeg, apOrDefault,
    bSpiffe, hd.1]

theorem parse_server_canon (h dc : Bytes) (hd : Seg dc) :
    parseId (uriOf (.server h dc)) = .ok (.server h dc) := by
  have hc := noSlash_consts
  have hs : splitSlash (joinSegs [bAgent, bServer, bDc, dc]) = [] :: [bAgent, bServer, bDc, dc] := by
    apply splitSlash_joinSegs
    intro s hs
    simp at hs
    rcases hs with rfl | rfl | rfl | rfl <;> simp_all [Seg]
  simp [parseId, uriOf, pathOf, hostOf, hs, matchService, matchAgent, matchGateway, matchServer, decSeg,
    bSpiffe, hd.1, (by decide : bAgent ≠ bGateway)]

theorem parse_service_canon (h ap dc svc : Bytes) (ha : Seg ap) (hal : lc ap = ap) (hd : Seg dc) (hv : Seg svc) :
    parseId (uriOf (.service h ap bDefault dc svc)) = .ok (.service h ap bDefault dc svc) := by
  have hc := noSlash_consts
  by_cases hdef : ap = bDefault
  · subst hdef
    have hs : splitSlash (joinSegs [bNs, bDefault, bDc, dc, bSvc, svc])
        = [] :: [bNs, bDefault, bDc, dc, bSvc, svc] := by
      apply splitSlash_joinSegs
      intro s hs
      simp at hs
      rcases hs with rfl | rfl | rfl | rfl | rfl | rfl <;> simp_all [Seg]
    simp [parseId, uriOf, pathOf, hostOf, hs, matchService, decSeg, apOrDefault, bSpiffe, hd.1, hv.1,
      (by decide : bDefault ≠ []), (by decide : lc bDefault = bDefault)]
  · have hs : splitSlash (joinSegs [bAp, ap] ++ joinSegs [bNs, bDefault, bDc, dc, bSvc, svc])
        = [] :: [bAp, ap, bNs, bDefault, bDc, dc, bSvc, svc] := by
      rw [← joinSegs_append]
      apply splitSlash_joinSegs
      intro s hs
      simp at hs
      rcases hs with rfl | rfl | rfl | rfl | rfl | rfl | rfl | rfl <;> simp_all [Seg]
    simp [parseId, uriOf, pathOf, hostOf, hs, matchService, decSeg, apOrDefault, bSpiffe, hd.1, hv.1, ha.1,
      hal, hdef, (by decide : bDefault ≠ [])]

theorem dotIndex_append (c d : Bytes) (hc : 46 ∉ c) : dotIndex (c ++ 46 :: d) = some c.length := by
  induction c with
  | nil => simp [dotIndex]
  | cons x xs ih =>
    have hx : x ≠ 46 := by intro e; apply hc; simp [e]
    have hxs : 46 ∉ xs := by intro e; apply hc; simp [e]
    simp [dotIndex, hx, ih hxs]

theorem parse_signing_canon (c d : Bytes) (hc0 : c ≠ []) (hc : 46 ∉ c) (hcl : lc c = c) (hdl : lc d = d) :
    parseId (uriOf (.signing c d)) = .ok (.signing c d) := by
  have h46 : lc [46] = [46] := by decide
  have hh : lc (c ++ 46 :: d) = c ++ 46 :: d := by
    have : c ++ 46 :: d = c ++ ([46] ++ d) := by simp
    rw [this, lc_append, lc_append, hcl, hdl, h46]
  have hlen : 0 < c.length := by
    cases c with
    | nil => exact absurd rfl hc0
    | cons _ _ => simp
  simp only [parseId, uriOf, pathOf, hostOf, List.append_assoc, List.singleton_append, hh]
  simp [splitSlash, matchService, matchAgent, matchGateway, matchServer,
    bSpiffe, dotIndex_append c d hc, hlen]

/-! ### the root table -/

theorem upsert_map (g : ReqRoot → Root) (hg : ∀ r, (g r).id = r.id) (acc : List ReqRoot) (x : ReqRoot) :
    upsert (·.id) (acc.map g) (g x) = (upsert (·.id) acc x).map g := by
  unfold upsert
  have hany : (acc.map g).any (fun y => decide (y.id = (g x).id)) = acc.any (fun y => decide (y.id = x.id)) := by
    simp [List.any_map, hg, Function.comp_def]
  rw [hany]
  split
  · simp only [List.map_map]
    apply List.map_congr_left
    intro y _
    simp only [Function.comp, hg]
    split <;> rfl
  · simp

theorem foldl_upsert_map (g : ReqRoot → Root) (hg : ∀ r, (g r).id = r.id) (rs : List ReqRoot) :
    ∀ acc : List ReqRoot, rs.foldl (fun acc r => upsert (·.id) acc (g r)) (acc.map g)
      = (rs.foldl (upsert (·.id)) acc).map g := by
  induction rs with
  | nil => intro acc; rfl
  | cons r rs ih =>
    intro acc
    simp only [List.foldl_cons]
    rw [upsert_map g hg acc r, ih]

/-- the table written is the last-by-id list of the request, row by row -/
theorem buildRoots_eq (idx : Nat) (old : List Root) (rs : List ReqRoot) :
    buildRoots idx old rs = (lastById rs).map (rowOf idx old) := by
  unfold buildRoots lastById
  have := foldl_upsert_map (rowOf idx old) (fun _ => rfl) rs []
  simpa using this

theorem active_buildRoots (idx : Nat) (old : List Root) (rs : List ReqRoot) :
    ((buildRoots idx old rs).filter (·.active)).length = activeCount rs := by
  rw [buildRoots_eq]
  unfold activeCount
  generalize lastById rs = l
  induction l with
  | nil => simp
  | cons r l ih =>
    simp only [List.map_cons, List.filter_cons, rowOf]
    cases hr : r.active <;> simp [ih]

theorem rootsCas_some (s : CaState) (idx cidx : Nat) (rs : List ReqRoot) (rs' : List Root)
    (h : rootsCas s idx cidx rs = .ok (some rs')) :
    activeCount rs = 1 ∧ s.rootsIdx = cidx ∧ rs' = buildRoots idx s.roots rs := by
  unfold rootsCas at h
  split at h
  · simp at h
  · split at h
    · simp at h
    · split at h
      · simp at h
      · simp only [Except.ok.injEq, Option.some.injEq] at h
        refine ⟨by omega, by omega, h.symm⟩

/-! ### inversion of the signing path -/

theorem authorizeAndSign_ok (cfg : Cfg) (az : Authz) (csr : Csr) (n : Nat) (c : Cert)
    (h : authorizeAndSign cfg az csr n = .ok c) :
    ∃ u id uris, csr.uris = [u] ∧ csr.emails = 0 ∧ parseId u = .ok id ∧ validateScopes id = .ok () ∧
      authorize cfg az id = .ok () ∧ signUris cfg u id = .ok uris ∧
      c = { uris := uris, dns := csr.dns, ips := csr.ips, emails := 0, isCA := false, serial := n, issuer := cfg.root } := by
  unfold authorizeAndSign at h
  split at h
  next u hu =>
    split at h
    · simp at h
    · rename_i hem
      split at h
      · simp at h
      · rename_i id hid
        split at h
        · simp at h
        · rename_i hval
          split at h
          · simp at h
          · rename_i haz
            split at h
            · simp at h
            · rename_i uris hsu
              simp only [Except.ok.injEq] at h
              exact ⟨u, id, uris, hu, by omega, hid, hval, haz, hsu, h.symm⟩
  · simp at h

theorem validateScopes_ok (id : Id) (h : validateScopes id = .ok ()) : supported id = true := by
  cases id with
  | service host ap ns dc svc =>
    simp only [validateScopes] at h
    by_cases hc : ns ≠ bDefault ∨ ap ≠ bDefault
    · simp [hc] at h
    · simp only [not_or, ne_eq, Decidable.not_not] at hc
      simp [supported, hc.1, hc.2]
  | gateway host ap dc =>
    simp only [validateScopes] at h
    by_cases hc : ap ≠ bDefault
    · simp [hc] at h
    · simp only [ne_eq, Decidable.not_not] at hc
      simp [supported, hc]
  | agent host ap dc node => rfl
  | server host dc => rfl
  | signing a b => simp [validateScopes] at h

theorem authorize_ok (cfg : Cfg) (az : Authz) (id : Id) (h : authorize cfg az id = .ok ()) :
    (∃ sc, scopeOf id = some sc ∧ aclWrite az sc = true) ∧ dcOf id = some cfg.dc := by
  cases id with
  | service host ap ns dc svc =>
    simp only [authorize] at h
    cases ha : az.serviceWrite svc <;> simp [ha] at h
    by_cases hd : dc = cfg.dc <;> simp [hd] at h
    exact ⟨⟨_, rfl, ha⟩, by simp [dcOf, hd]⟩
  | agent host ap dc node =>
    simp only [authorize] at h
    cases ha : az.nodeWrite node <;> simp [ha] at h
    by_cases hd : dc = cfg.dc <;> simp [hd] at h
    exact ⟨⟨_, rfl, ha⟩, by simp [dcOf, hd]⟩
  | gateway host ap dc =>
    simp only [authorize] at h
    cases ha : az.meshWrite <;> simp [ha] at h
    by_cases hd : dc = cfg.dc <;> simp [hd] at h
    exact ⟨⟨_, rfl, ha⟩, by simp [dcOf, hd]⟩
  | server host dc =>
    simp only [authorize] at h
    cases ha : az.aclWrite <;> simp [ha] at h
    by_cases hd : dc = cfg.dc <;> simp [hd] at h
    exact ⟨⟨_, rfl, ha⟩, by simp [dcOf, hd]⟩
  | signing a b => simp [authorize] at h

theorem signUris_ok (cfg : Cfg) (u : Url) (id : Id) (uris : List Url) (h : signUris cfg u id = .ok uris) :
    match id with
    | .agent host ap dc node =>
      (host = cfg.trustDomain ∧ uris = [u]) ∨
      (host ≠ cfg.trustDomain ∧ sameAgentUri u (uriOf (.agent host ap dc node)).str = true ∧
        uris = [uriOf (.agent cfg.trustDomain ap dc node)]) ∨
      (host ≠ cfg.trustDomain ∧ sameAgentUri u (uriOf (.agent host ap dc node)).str = false ∧ uris = [u])
    | .signing .. => False
    | id => lc (hostOf id) = cfg.trustDomain ∧ uris = [u] := by
  cases id with
  | service host ap ns dc svc =>
    simp only [signUris, hostOf] at h ⊢
    by_cases hh : lc host = cfg.trustDomain <;> simp [hh] at h
    exact ⟨hh, h.symm⟩
  | gateway host ap dc =>
    simp only [signUris, hostOf] at h ⊢
    by_cases hh : lc host = cfg.trustDomain <;> simp [hh] at h
    exact ⟨hh, h.symm⟩
  | server host dc =>
    simp only [signUris, hostOf] at h ⊢
    by_cases hh : lc host = cfg.trustDomain <;> simp [hh] at h
    exact ⟨hh, h.symm⟩
  | signing a b => simp [signUris] at h
  | agent host ap dc node =>
    simp only [signUris] at h ⊢
    by_cases hh : host = cfg.trustDomain
    · simp [hh] at h
      left; exact ⟨hh, h.symm⟩
    · cases hs : sameAgentUri u (uriOf (.agent host ap dc node)).str
      · simp [hh, hs] at h
        right; right; exact ⟨hh, rfl, h.symm⟩
      · simp [hh, hs] at h
        right; left; exact ⟨hh, rfl, h.symm⟩

/-- the CSR's own URI always names the agent it parses to -/
theorem sameAgentUri_self (u : Url) (host ap dc node : Bytes) (h : parseId u = .ok (.agent host ap dc node)) :
    sameAgentUri u (uriOf (.agent host ap dc node)).str = true := by
  simp [sameAgentUri, h]

theorem matchAgent_ne_nil (segs : List Bytes) (ap dc node : Bytes) (h : matchAgent segs = some (ap, dc, node)) :
    dc ≠ [] ∧ node ≠ [] := by
  unfold matchAgent at h
  split at h
  · split at h
    next hc =>
      simp only [Option.some.injEq, Prod.mk.injEq] at h
      obtain ⟨_, rfl, rfl⟩ := h
      exact ⟨hc.2.2.2.2.2.1, hc.2.2.2.2.2.2⟩
    next => simp at h
  · split at h
    next hc =>
      simp only [Option.some.injEq, Prod.mk.injEq] at h
      obtain ⟨_, rfl, rfl⟩ := h
      exact ⟨hc.2.2.2.2.2.2.2.1, hc.2.2.2.2.2.2.2.2⟩
    next => simp at h
  · simp at h

/-- segments captured by the agent pattern and decoded are non-empty -/
theorem parseId_agent_ne_nil (u : Url) (host ap dc node : Bytes) (h : parseId u = .ok (.agent host ap dc node)) :
    dc ≠ [] ∧ node ≠ [] := by
  unfold parseId at h
  split at h
  · simp at h
  · simp only at h
    split at h
    · split at h <;> simp at h
    · split at h
      · rename_i ap' dc' node' hm
        have hne := matchAgent_ne_nil _ _ _ _ hm
        split at h
        · rename_i a1 d1 n1 ha hd hn
          simp only [Except.ok.injEq, Id.agent.injEq] at h
          obtain ⟨_, _, rfl, rfl⟩ := h
          exact ⟨decSeg_ne_nil _ _ _ hd hne.1, decSeg_ne_nil _ _ _ hn hne.2⟩
        · simp at h
      · split at h
        · split at h <;> simp at h
        · split at h
          · split at h <;> simp at h
          · split at h
            · split at h
              · split at h <;> simp at h
              · simp at h
            · simp at h

/-- every identity except a signing id carries the URL's host verbatim -/
theorem parseId_host (u : Url) (id : Id) (h : parseId u = .ok id) :
    hostOf id = u.host ∨ ∃ a b, id = .signing a b := by
  unfold parseId at h
  split at h
  · simp at h
  · simp only at h
    split at h
    · split at h
      · simp only [Except.ok.injEq] at h; subst h; left; rfl
      · simp at h
    · split at h
      · split at h
        · simp only [Except.ok.injEq] at h; subst h; left; rfl
        · simp at h
      · split at h
        · split at h
          · simp only [Except.ok.injEq] at h; subst h; left; rfl
          · simp at h
        · split at h
          · split at h
            · simp only [Except.ok.injEq] at h; subst h; left; rfl
            · simp at h
          · split at h
            · split at h
              · split at h
                · simp only [Except.ok.injEq] at h; subst h; right; exact ⟨_, _, rfl⟩
                · simp at h
              · simp at h
            · simp at h

/-! ### serial numbers -/

theorem caStep_serial (s : CaState) (idx : Nat) (cmd : CaCmd) :
    ((caStep s idx cmd).1.serial = s.serial ∧ ∀ n, (caStep s idx cmd).2 ≠ .num n) ∨
    (cmd = .incSerial ∧ (caStep s idx cmd).2 = .num (nextSerial s) ∧
      (caStep s idx cmd).1.serial = some (nextSerial s)) := by
  cases cmd with
  | setConfig c => left; simp only [caStep]; split <;> (try split) <;> simp
  | setRoots cidx rs => left; simp only [caStep]; split <;> simp
  | setProv id => left; simp [caStep]
  | delProv id => left; simp only [caStep]; split <;> simp
  | setBoth cidx rs c => left; simp only [caStep]; split <;> (try split) <;> simp
  | incSerial => right; simp [caStep]
  | invalid => left; simp [caStep]

theorem nextSerial_gt (s : CaState) (k : Nat) (h : s.serial = some k) : k < nextSerial s := by
  simp [nextSerial, h]

/-! ### re-rendered agent identities -/

theorem splitSlash_slash (x y : Bytes) : splitSlash (x ++ 47 :: y) = splitSlash x ++ splitSlash y := by
  induction x with
  | nil =>
    simp only [List.nil_append]
    cases hy : splitSlash y with
    | nil => exact absurd hy (splitSlash_ne_nil y)
    | cons seg rest =>
      show splitSlash (47 :: y) = splitSlash [] ++ (seg :: rest)
      unfold splitSlash
      simp [hy]
  | cons c cs ih =>
    simp only [List.cons_append]
    cases hcs : splitSlash cs with
    | nil => exact absurd hcs (splitSlash_ne_nil cs)
    | cons seg rest =>
      rw [splitSlash.eq_def (c :: cs)]
      rw [splitSlash.eq_def (c :: (cs ++ 47 :: y))]
      simp only [ih, hcs, List.cons_append]
      split <;> rfl

theorem splitSlash_singleton (x y : Bytes) (h : splitSlash x = [y]) : x = y := by
  induction x generalizing y with
  | nil => simpa [splitSlash] using h
  | cons c cs ih =>
    cases hcs : splitSlash cs with
    | nil => exact absurd hcs (splitSlash_ne_nil cs)
    | cons seg rest =>
      rw [splitSlash.eq_def] at h
      simp only [hcs] at h
      split at h
      · simp at h
      · simp only [List.cons.injEq] at h
        obtain ⟨rfl, rfl⟩ := h
        rw [ih seg hcs]

theorem matchService_agent_none (rest : List Bytes) (e : Bytes) : matchService (e :: bAgent :: rest) = none := by
  unfold matchService
  split
  · rename_i heq; simp only [List.cons.injEq] at heq; obtain ⟨_, rfl, _⟩ := heq; simp [bAgent, bNs]
  · rename_i heq; simp only [List.cons.injEq] at heq; obtain ⟨_, rfl, _⟩ := heq; simp [bAgent, bAp]
  · rfl

theorem matchGateway_agent_none (rest : List Bytes) (e : Bytes) : matchGateway (e :: bAgent :: rest) = none := by
  unfold matchGateway
  split
  · rename_i heq; simp only [List.cons.injEq] at heq; obtain ⟨_, rfl, _⟩ := heq; simp [bAgent, bGateway]
  · rename_i heq; simp only [List.cons.injEq] at heq; obtain ⟨_, rfl, _⟩ := heq; simp [bAgent, bAp]
  · rfl

theorem matchServer_client_none (rest : List Bytes) (e : Bytes) : matchServer (e :: bAgent :: bClient :: rest) = none := by
  unfold matchServer
  split
  · rename_i heq; simp only [List.cons.injEq] at heq; obtain ⟨_, _, rfl, _⟩ := heq; simp [bClient, bServer]
  · rfl

theorem matchAgent_inv (rest : List Bytes) (e ap dc node : Bytes)
    (h : matchAgent (e :: bAgent :: bClient :: bDc :: rest) = some (ap, dc, node)) :
    rest = [dc, bId, node] ∧ ap = [] := by
  unfold matchAgent at h
  split at h
  · rename_i e' a c d dc' i node' heq
    simp only [List.cons.injEq] at heq
    obtain ⟨_, _, _, _, hrest⟩ := heq
    split at h
    · rename_i hc
      simp only [Option.some.injEq, Prod.mk.injEq] at h
      obtain ⟨rfl, rfl, rfl⟩ := h
      simp [hrest, hc.2.2.2.2.1]
    · simp at h
  · rename_i heq
    simp only [List.cons.injEq] at heq
    split at h
    · rename_i hc
      have : bAgent = bAp := by rw [← hc.2.1]; exact heq.2.1
      exact absurd this (by decide)
    · simp at h
  · simp at h


theorem splitSlash_agent_path (dc node : Bytes) :
    splitSlash (joinSegs [bAgent, bClient, bDc, dc, bId, node])
      = [] :: bAgent :: bClient :: bDc :: (splitSlash dc ++ bId :: splitSlash node) := by
  have e : joinSegs [bAgent, bClient, bDc, dc, bId, node]
      = [] ++ 47 :: (bAgent ++ 47 :: (bClient ++ 47 :: (bDc ++ 47 :: (dc ++ 47 :: (bId ++ 47 :: node))))) := by
    simp [joinSegs]
  rw [e]
  simp only [splitSlash_slash]
  have h1 : splitSlash bAgent = [bAgent] := by decide
  have h2 : splitSlash bClient = [bClient] := by decide
  have h3 : splitSlash bDc = [bDc] := by decide
  have h4 : splitSlash bId = [bId] := by decide
  simp [h1, h2, h3, h4, splitSlash]

/-- Re-rendering an agent identity from its decoded fields (what the trust-domain fix-up of
    `SignCertificate` does) can never produce a URI that parses to anything but that very agent:
    for ALL byte strings, '/' inside the fields included, parsing the rendered URI either fails or
    gives back the same datacenter and node. -/
theorem agent_render_parse (td ap dc node : Bytes) (id : Id)
    (h : parseId (uriOf (.agent td ap dc node)) = .ok id) : id = .agent td bDefault dc node := by
  unfold parseId at h
  simp only [uriOf, pathOf, hostOf] at h
  simp only [ne_eq, not_true_eq_false, decide_false, if_false] at h
  rw [splitSlash_agent_path, matchService_agent_none] at h
  simp only at h
  split at h
  · rename_i ap' dc' node' hm
    obtain ⟨hrest, rfl⟩ := matchAgent_inv _ _ _ _ _ hm
    have hd : splitSlash dc = [dc'] ∧ splitSlash node = [node'] := by
      cases hx : splitSlash dc with
      | nil => exact absurd hx (splitSlash_ne_nil dc)
      | cons x1 xs =>
        rw [hx] at hrest
        cases xs with
        | nil =>
          simp only [List.cons_append, List.nil_append, List.cons.injEq] at hrest
          exact ⟨by rw [hrest.1], hrest.2.2⟩
        | cons x2 xs' =>
          simp only [List.cons_append, List.cons.injEq] at hrest
          obtain ⟨_, _, h3⟩ := hrest
          cases xs' with
          | nil =>
            simp only [List.nil_append, List.cons.injEq] at h3
            exact absurd h3.2 (splitSlash_ne_nil node)
          | cons x3 xs'' => simp at h3
    have e1 := splitSlash_singleton dc dc' hd.1
    have e2 := splitSlash_singleton node node' hd.2
    subst e1 e2
    simp [decSeg, apOrDefault] at h
    exact h.symm
  · rw [matchGateway_agent_none, matchServer_client_none] at h
    simp [joinSegs] at h

/-! ### request lists: last-by-id table of an all-inactive list plus one active root -/

theorem upsert_mem {α : Type} (key : α → Bytes) (acc : List α) (x y : α) (h : y ∈ upsert key acc x) :
    y ∈ acc ∨ y = x := by
  unfold upsert at h
  split at h
  · simp only [List.mem_map] at h
    obtain ⟨z, hz, rfl⟩ := h
    split
    · right; rfl
    · left; exact hz
  · simp at h; exact h

theorem upsert_ids_nodup (acc : List ReqRoot) (x : ReqRoot) (h : (acc.map (·.id)).Nodup) :
    ((upsert (·.id) acc x).map (·.id)).Nodup := by
  unfold upsert
  split
  · have : (acc.map (fun y => if y.id = x.id then x else y)).map (·.id) = acc.map (·.id) := by
      simp only [List.map_map]
      apply List.map_congr_left
      intro y _
      simp only [Function.comp]
      split <;> simp_all
    rw [this]; exact h
  · rename_i hany
    simp only [List.map_append, List.map_cons, List.map_nil]
    rw [List.nodup_append]
    refine ⟨h, by simp, ?_⟩
    intro a ha b hb
    simp at hb
    subst hb
    intro hab
    subst hab
    apply hany
    simp only [List.mem_map] at ha
    obtain ⟨z, hz, hzz⟩ := ha
    simp only [List.any_eq_true, decide_eq_true_eq]
    exact ⟨z, hz, hzz⟩

theorem lastById_from (l acc : List ReqRoot) (h : (acc.map (·.id)).Nodup) :
    ((l.foldl (upsert (·.id)) acc).map (·.id)).Nodup := by
  induction l generalizing acc with
  | nil => simpa using h
  | cons x xs ih => simp only [List.foldl_cons]; exact ih _ (upsert_ids_nodup acc x h)

theorem foldl_upsert_inactive (l acc : List ReqRoot) (ha : ∀ y ∈ acc, y.active = false) (hl : ∀ y ∈ l, y.active = false) :
    ∀ y ∈ l.foldl (upsert (·.id)) acc, y.active = false := by
  induction l generalizing acc with
  | nil => simpa using ha
  | cons x xs ih =>
    simp only [List.foldl_cons]
    apply ih
    · intro y hy
      rcases upsert_mem _ acc x y hy with h | h
      · exact ha y h
      · subst h; exact hl _ (by simp)
    · intro y hy; exact hl y (by simp [hy])

theorem replace_count (acc : List ReqRoot) (x : ReqRoot) (ha : ∀ y ∈ acc, y.active = false)
    (hn : (acc.map (·.id)).Nodup) (hx : x.active = true) :
    ((acc.map (fun y => if y.id = x.id then x else y)).filter (·.active)).length =
      if acc.any (·.id = x.id) then 1 else 0 := by
  induction acc with
  | nil => simp
  | cons y ys ih =>
    simp only [List.map_cons, List.nodup_cons] at hn
    have ih' := ih (fun z hz => ha z (by simp [hz])) hn.2
    by_cases hy : y.id = x.id
    · have hnone : ys.any (·.id = x.id) = false := by
        simp only [List.any_eq_false, decide_eq_true_eq]
        intro z hz hzx
        apply hn.1
        simp only [List.mem_map]
        exact ⟨z, hz, by rw [hzx, hy]⟩
      rw [hnone] at ih'
      simp [hy, hx, ih']
    · have hyf : y.active = false := ha y (by simp)
      simp [hy, hyf, ih']


end CV.Ca
