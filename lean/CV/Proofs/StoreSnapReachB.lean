/-
C02 round 4, part B: the state invariant `W N C L s` behind `SnapWF`, and its closure under every primitive
write of the store model (an instance of the ladder of CV.Proofs.StoreLadderK).

`N : Names` fixes the discipline the commands follow: one service name per instance key (`nm`), one spelling per
lower-cased node name (`sp`). `C` lists the (lower-cased) session IDs created so far.
-/
import CV.Proofs.StoreSnapReachA
import CV.Proofs.StoreQueryDisc
set_option linter.unusedSectionVars false
set_option linter.unusedSimpArgs false
set_option linter.unusedVariables false
namespace CV.Store
open CV

/-! ### the naming discipline -/

structure Names where
  /-- instance key ↦ the service name it is registered under -/
  nm : String → String
  /-- lower-cased node name ↦ its spelling -/
  sp : String → String

def Names.guard (N : Names) : Guard where
  Sp node id name := name = N.nm (pk2 node id)
  Np a := NF a ∧ a = N.sp (lc a)
  Cp node _ _ := NF node

/-! ### the invariant -/

structure WKv (s : State) : Prop where
  kvKey : ∀ e ∈ s.kvs, e.key ≠ []
  tombS : TSorted Tomb.pk keyLt s.tombs
  tombKey : ∀ t ∈ s.tombs, t.key ≠ []

/-- `L` relates session_checks to the sessions table (the invariant proper, or `True` between the writes of a session delete) -/
structure WSess (C : List String) (L : List SessCheck → List Sess → Prop) (s : State) : Prop where
  sessS : TSorted Sess.pk strLt s.sessions
  sessNF : ∀ x ∈ s.sessions, NF x.id
  sessIn : ∀ x ∈ s.sessions, lc x.id ∈ C
  sc : L s.sessChecks s.sessions

structure WCat (N : Names) (s : State) : Prop where
  ns : TSorted Node.pk strLt s.nodes
  vs : TSorted Svc.pk strLt s.svcs
  cs : TSorted Chk.pk strLt s.chks
  nodeN : ∀ n ∈ s.nodes, NF n.name ∧ n.name = N.sp (lc n.name)
  nodeCreate : ∀ n ∈ s.nodes, n.create ≠ 0
  nodeIds : ∀ a ∈ s.nodes, ∀ b ∈ s.nodes, a.id ≠ "" → b.id ≠ "" → lc a.id = lc b.id → a = b
  svcN : ∀ v ∈ s.svcs, NF v.node ∧ v.node = N.sp (lc v.node)
  svcNm : ∀ v ∈ s.svcs, v.name = N.nm (Svc.pk v)
  svcNode : ∀ v ∈ s.svcs, (nodeFind s v.node).isSome = true
  chkN : ∀ c ∈ s.chks, NF c.node
  chkNode : ∀ c ∈ s.chks, (nodeFind s c.node).isSome = true
  chkStatus : ∀ c ∈ s.chks, c.status ≠ ""
  chkSvc : ∀ c ∈ s.chks, c.svcId ≠ "" → ∃ v, svcFind s c.node c.svcId = some v ∧ c.svcName = v.name

/-- the index rows a node / a service instance / the checks table need -/
def NeedN (n : Node) (j : String) : Prop :=
  j = lc "nodes" ∨ j = lc ("peer.~:" ++ "nodes") ∨ j = lc ("peer.~:node." ++ n.name)
def NeedV (v : Svc) (j : String) : Prop :=
  j = lc "services" ∨ j = lc ("peer.~:" ++ "services") ∨ j = lc "nodes" ∨ j = lc ("peer.~:" ++ "nodes") ∨
  j = lc ("peer.~:service." ++ v.name) ∨ j = lc "service_kind.typical" ∨ j = lc ("peer.~:" ++ "service_kind.typical") ∨
  j = lc ("peer.~:node." ++ v.node)
def NeedC (j : String) : Prop := j = lc "checks" ∨ j = lc ("peer.~:" ++ "checks")

/-- `IdxCovers`, row by row -/
structure Cov (s : State) : Prop where
  node : ∀ n ∈ s.nodes, ∀ j, NeedN n j → Rows s.index j
  svc : ∀ v ∈ s.svcs, ∀ j, NeedV v j → Rows s.index j
  chk : ∀ c ∈ s.chks, ∀ j, NeedC j → Rows s.index j
  sess : ∀ x ∈ s.sessions, Rows s.index (lc "sessions")
  kv : ∀ e ∈ s.kvs, Rows s.index (lc "kvs")
  tomb : ∀ t ∈ s.tombs, Rows s.index (lc "tombstones")
  pq : ∀ q ∈ s.queries, Rows s.index (lc "prepared-queries")

structure W (N : Names) (C : List String) (L : List SessCheck → List Sess → Prop) (s : State) : Prop where
  kv : WKv s
  sess : WSess C L s
  cat : WCat N s
  pqS : TSorted PQ.pk strLt s.queries
  idx : IdxNF s.index
  cov : Cov s

/-! ### frames -/

theorem WKv.congr {s s' : State} (h : WKv s) (h1 : s'.kvs = s.kvs) (h2 : s'.tombs = s.tombs) : WKv s' :=
  ⟨by rw [h1]; exact h.kvKey, by rw [h2]; exact h.tombS, by rw [h2]; exact h.tombKey⟩

theorem WSess.congr {C : List String} {L : List SessCheck → List Sess → Prop} {s s' : State} (h : WSess C L s) (h1 : s'.sessions = s.sessions)
    (h2 : s'.sessChecks = s.sessChecks) : WSess C L s' :=
  ⟨by rw [h1]; exact h.sessS, by rw [h1]; exact h.sessNF, by rw [h1]; exact h.sessIn, by rw [h1, h2]; exact h.sc⟩

theorem WCat.congr {N : Names} {s s' : State} (h : WCat N s) (h1 : s'.nodes = s.nodes) (h2 : s'.svcs = s.svcs)
    (h3 : s'.chks = s.chks) : WCat N s' := by
  refine ⟨by rw [h1]; exact h.ns, by rw [h2]; exact h.vs, by rw [h3]; exact h.cs, by rw [h1]; exact h.nodeN,
    by rw [h1]; exact h.nodeCreate, by rw [h1]; exact h.nodeIds, by rw [h2]; exact h.svcN, by rw [h2]; exact h.svcNm,
    ?_, by rw [h3]; exact h.chkN, ?_, by rw [h3]; exact h.chkStatus, ?_⟩
  · intro v hv; rw [nodeFind_congr h1]; exact h.svcNode v (h2 ▸ hv)
  · intro c hc; rw [nodeFind_congr h1]; exact h.chkNode c (h3 ▸ hc)
  · intro c hc hne; rw [svcFind_congr h2]; exact h.chkSvc c (h3 ▸ hc) hne

theorem WCat.ofView {N : Names} {s s' : State} (h : WCat N s) (hv : catView s' = catView s) : WCat N s' :=
  h.congr (catView_nodes hv) (catView_svcs hv) (catView_chks hv)

/-- the general step of `Cov`: rows outside `D` survive; every row of the new tables is an old one whose needs avoid
    `D`, or has its needs met directly -/
theorem Cov.step {s s' : State} (h : Cov s) (D : String → Prop)
    (hm : ∀ j, ¬ D j → Rows s.index j → Rows s'.index j)
    (hn : ∀ n ∈ s'.nodes, (n ∈ s.nodes ∧ ∀ j, NeedN n j → ¬ D j) ∨ ∀ j, NeedN n j → Rows s'.index j)
    (hv : ∀ v ∈ s'.svcs, (v ∈ s.svcs ∧ ∀ j, NeedV v j → ¬ D j) ∨ ∀ j, NeedV v j → Rows s'.index j)
    (hc : ∀ c ∈ s'.chks, ((∃ c0, c0 ∈ s.chks) ∧ ∀ j, NeedC j → ¬ D j) ∨ ∀ j, NeedC j → Rows s'.index j)
    (hs : ∀ x ∈ s'.sessions, ((∃ x0, x0 ∈ s.sessions) ∧ ¬ D (lc "sessions")) ∨ Rows s'.index (lc "sessions"))
    (hk : ∀ e ∈ s'.kvs, ((∃ e0, e0 ∈ s.kvs) ∧ ¬ D (lc "kvs")) ∨ Rows s'.index (lc "kvs"))
    (ht : ∀ t ∈ s'.tombs, ((∃ t0, t0 ∈ s.tombs) ∧ ¬ D (lc "tombstones")) ∨ Rows s'.index (lc "tombstones"))
    (hq : ∀ q ∈ s'.queries, ((∃ q0, q0 ∈ s.queries) ∧ ¬ D (lc "prepared-queries")) ∨ Rows s'.index (lc "prepared-queries")) :
    Cov s' where
  node n hn' j hj := by
    rcases hn n hn' with ⟨h1, h2⟩ | h1
    · exact hm j (h2 j hj) (h.node n h1 j hj)
    · exact h1 j hj
  svc v hv' j hj := by
    rcases hv v hv' with ⟨h1, h2⟩ | h1
    · exact hm j (h2 j hj) (h.svc v h1 j hj)
    · exact h1 j hj
  chk c hc' j hj := by
    rcases hc c hc' with ⟨⟨c0, h1⟩, h2⟩ | h1
    · exact hm j (h2 j hj) (h.chk c0 h1 j hj)
    · exact h1 j hj
  sess x hx := by
    rcases hs x hx with ⟨⟨x0, h1⟩, h2⟩ | h1
    · exact hm _ h2 (h.sess x0 h1)
    · exact h1
  kv x hx := by
    rcases hk x hx with ⟨⟨x0, h1⟩, h2⟩ | h1
    · exact hm _ h2 (h.kv x0 h1)
    · exact h1
  tomb x hx := by
    rcases ht x hx with ⟨⟨x0, h1⟩, h2⟩ | h1
    · exact hm _ h2 (h.tomb x0 h1)
    · exact h1
  pq x hx := by
    rcases hq x hx with ⟨⟨x0, h1⟩, h2⟩ | h1
    · exact hm _ h2 (h.pq x0 h1)
    · exact h1

/-- nothing is deleted from the index table -/
theorem Cov.grow {s s' : State} (h : Cov s)
    (hm : ∀ j, Rows s.index j → Rows s'.index j)
    (hn : ∀ n ∈ s'.nodes, n ∈ s.nodes ∨ ∀ j, NeedN n j → Rows s'.index j)
    (hv : ∀ v ∈ s'.svcs, v ∈ s.svcs ∨ ∀ j, NeedV v j → Rows s'.index j)
    (hc : ∀ c ∈ s'.chks, (∃ c0, c0 ∈ s.chks) ∨ ∀ j, NeedC j → Rows s'.index j)
    (hs : ∀ x ∈ s'.sessions, (∃ x0, x0 ∈ s.sessions) ∨ Rows s'.index (lc "sessions"))
    (hk : ∀ e ∈ s'.kvs, (∃ e0, e0 ∈ s.kvs) ∨ Rows s'.index (lc "kvs"))
    (ht : ∀ t ∈ s'.tombs, (∃ t0, t0 ∈ s.tombs) ∨ Rows s'.index (lc "tombstones"))
    (hq : ∀ q ∈ s'.queries, (∃ q0, q0 ∈ s.queries) ∨ Rows s'.index (lc "prepared-queries")) : Cov s' :=
  h.step (fun _ => False) (fun j _ => hm j)
    (fun n hn' => (hn n hn').imp (fun a => ⟨a, fun _ _ => id⟩) id)
    (fun n hn' => (hv n hn').imp (fun a => ⟨a, fun _ _ => id⟩) id)
    (fun n hn' => (hc n hn').imp (fun a => ⟨a, fun _ _ => id⟩) id)
    (fun n hn' => (hs n hn').imp (fun a => ⟨a, id⟩) id)
    (fun n hn' => (hk n hn').imp (fun a => ⟨a, id⟩) id)
    (fun n hn' => (ht n hn').imp (fun a => ⟨a, id⟩) id)
    (fun n hn' => (hq n hn').imp (fun a => ⟨a, id⟩) id)

/-- all eight data tables -/
def tabs (s : State) : List KV × List Tomb × List Sess × List SessCheck × List Node × List Svc × List Chk × List PQ :=
  (s.kvs, s.tombs, s.sessions, s.sessChecks, s.nodes, s.svcs, s.chks, s.queries)

theorem tabs_foldl {β : Type} (f : State → β → State) (hf : ∀ st b, tabs (f st b) = tabs st)
    (l : List β) (s : State) : tabs (l.foldl f s) = tabs s := by
  induction l generalizing s with
  | nil => rfl
  | cons b bs ih =>
    show tabs (bs.foldl f (f s b)) = tabs s
    rw [ih, hf]

theorem tabs_bump (s : State) (i : Nat) (n : String) : tabs (bumpServiceIdx s i n) = tabs s := rfl

theorem tabs_updateAll (s : State) (i : Nat) (n : String) : tabs (updateAllServiceIndexesOfNode s i n) = tabs s := by
  unfold updateAllServiceIndexesOfNode
  exact tabs_foldl (fun st (v : Svc) => bumpServiceIdx st i v.name) (fun st b => rfl) _ s

/-- a write that only touches the index table, without deleting rows -/
theorem W.indexOnly {N : Names} {C : List String} {L : List SessCheck → List Sess → Prop} {s s' : State} (h : W N C L s) (ht : tabs s' = tabs s)
    (hi : IdxNF s'.index) (hm : ∀ j, Rows s.index j → Rows s'.index j) : W N C L s' := by
  simp only [tabs, Prod.mk.injEq] at ht
  obtain ⟨t1, t2, t3, t4, t5, t6, t7, t8⟩ := ht
  refine ⟨h.kv.congr t1 t2, h.sess.congr t3 t4, h.cat.congr t5 t6 t7, by rw [t8]; exact h.pqS, hi, ?_⟩
  refine h.cov.grow hm ?_ ?_ ?_ ?_ ?_ ?_ ?_
  · intro n hn; exact Or.inl (t5 ▸ hn)
  · intro n hn; exact Or.inl (t6 ▸ hn)
  · intro n hn; exact Or.inl ⟨n, t7 ▸ hn⟩
  · intro n hn; exact Or.inl ⟨n, t3 ▸ hn⟩
  · intro n hn; exact Or.inl ⟨n, t1 ▸ hn⟩
  · intro n hn; exact Or.inl ⟨n, t2 ▸ hn⟩
  · intro n hn; exact Or.inl ⟨n, t8 ▸ hn⟩

theorem W.bump {N : Names} {C : List String} {L : List SessCheck → List Sess → Prop} {s : State} (h : W N C L s) (i : Nat) (n : String) :
    W N C L (bumpServiceIdx s i n) :=
  h.indexOnly (tabs_bump s i n) (idxNF_bump h.idx i n) (fun j hj => (rows_bump s i n j).mpr (Or.inr (Or.inr (Or.inr hj))))

theorem W.updateAll {N : Names} {C : List String} {L : List SessCheck → List Sess → Prop} {s : State} (h : W N C L s) (i : Nat) (n : String) :
    W N C L (updateAllServiceIndexesOfNode s i n) :=
  h.indexOnly (tabs_updateAll s i n) (idxNF_updateAll h.idx i n) (fun j hj => rows_updateAll_mono s i n j hj)

/-! ### KV writes -/

variable {N : Names} {C : List String} {L : List SessCheck → List Sess → Prop}

theorem W.kvInsert {s : State} (h : W N C L s) (e : KV) (he : e.key ≠ []) : W N C L (Store.kvInsert s e) := by
  refine ⟨⟨?_, h.kv.tombS, h.kv.tombKey⟩, h.sess.congr rfl rfl, h.cat.congr rfl rfl rfl, h.pqS, idxNF_set h.idx _ _, ?_⟩
  · intro x hx
    rcases mem_tupsert (show x ∈ tupsert KV.pk keyLt e s.kvs from hx) with rfl | h1
    · exact he
    · exact h.kv.kvKey x h1
  · have hm : ∀ j, Rows s.index j → Rows (Store.kvInsert s e).index j := fun j hj => (rows_set _ _ _ _).mpr (Or.inr hj)
    refine h.cov.grow hm (fun n hn => Or.inl hn) (fun n hn => Or.inl hn) (fun n hn => Or.inl ⟨n, hn⟩)
      (fun n hn => Or.inl ⟨n, hn⟩) (fun n hn => Or.inr ((rows_set _ _ _ _).mpr (Or.inl rfl))) (fun n hn => Or.inl ⟨n, hn⟩)
      (fun n hn => Or.inl ⟨n, hn⟩)

theorem W.tombInsert {s : State} (h : W N C L s) (k : Key) (hk : k ≠ []) (i : Nat) : W N C L (Store.tombInsert s k i) := by
  refine ⟨⟨h.kv.kvKey, tsorted_tupsert keyLt_ord _ _ h.kv.tombS, ?_⟩, h.sess.congr rfl rfl, h.cat.congr rfl rfl rfl, h.pqS,
    idxNF_set h.idx _ _, ?_⟩
  · intro x hx
    rcases mem_tupsert (show x ∈ tupsert Tomb.pk keyLt ⟨k, i⟩ s.tombs from hx) with rfl | h1
    · exact hk
    · exact h.kv.tombKey x h1
  · have hm : ∀ j, Rows s.index j → Rows (Store.tombInsert s k i).index j := fun j hj => (rows_set _ _ _ _).mpr (Or.inr hj)
    refine h.cov.grow hm (fun n hn => Or.inl hn) (fun n hn => Or.inl hn) (fun n hn => Or.inl ⟨n, hn⟩)
      (fun n hn => Or.inl ⟨n, hn⟩) (fun n hn => Or.inl ⟨n, hn⟩) (fun n hn => Or.inr ((rows_set _ _ _ _).mpr (Or.inl rfl)))
      (fun n hn => Or.inl ⟨n, hn⟩)

/-- the kvs table shrinks (or is rewritten in place) and the `kvs` row is written -/
theorem W.kvShrink {s : State} (h : W N C L s) (l : List KV) (hl : ∀ e ∈ l, e.key ≠ []) (i : Nat) :
    W N C L { s with kvs := l, index := idxSet s.index "kvs" i } := by
  refine ⟨⟨hl, h.kv.tombS, h.kv.tombKey⟩, h.sess.congr rfl rfl, h.cat.congr rfl rfl rfl, h.pqS, idxNF_set h.idx _ _, ?_⟩
  have hm : ∀ j, Rows s.index j → Rows (idxSet s.index "kvs" i) j := fun j hj => (rows_set _ _ _ _).mpr (Or.inr hj)
  refine h.cov.grow hm (fun n hn => Or.inl hn) (fun n hn => Or.inl hn) (fun n hn => Or.inl ⟨n, hn⟩)
    (fun n hn => Or.inl ⟨n, hn⟩) (fun n hn => Or.inr ((rows_set _ _ _ _).mpr (Or.inl rfl))) (fun n hn => Or.inl ⟨n, hn⟩)
    (fun n hn => Or.inl ⟨n, hn⟩)

theorem W.kvDelete {s s' : State} {i : Nat} {k : Key} (hr : kvDeleteTxn s i k = .ok s') (h : W N C L s) : W N C L s' := by
  unfold kvDeleteTxn at hr
  split at hr
  · simp at hr
  · next hk =>
    split at hr
    · simp at hr; exact hr ▸ h
    · simp only [Except.ok.injEq] at hr
      rw [← hr]
      have h1 := h.tombInsert k hk i
      exact h1.kvShrink (terase KV.pk k (Store.tombInsert s k i).kvs)
        (fun e he => h.kv.kvKey e (mem_terase.mp he).1) i

theorem W.kvDeleteTree {s : State} (h : W N C L s) (i : Nat) (p : Key) : W N C L (kvDeleteTreeTxn s i p) := by
  unfold kvDeleteTreeTxn
  split
  · simp only
    have h0 : W N C L { s with kvs := s.kvs.filter (fun e => !prefixMatch p e.key) } := by
      refine ⟨⟨fun e he => h.kv.kvKey e (List.mem_filter.mp he).1, h.kv.tombS, h.kv.tombKey⟩, h.sess.congr rfl rfl,
        h.cat.congr rfl rfl rfl, h.pqS, h.idx, ?_⟩
      exact h.cov.grow (fun j hj => hj) (fun n hn => Or.inl hn) (fun n hn => Or.inl hn) (fun n hn => Or.inl ⟨n, hn⟩)
        (fun n hn => Or.inl ⟨n, hn⟩) (fun n hn => Or.inl ⟨n, (List.mem_filter.mp hn).1⟩) (fun n hn => Or.inl ⟨n, hn⟩)
        (fun n hn => Or.inl ⟨n, hn⟩)
    split
    · next hp =>
      have h1 := h0.tombInsert p hp i
      exact h1.kvShrink _ (fun e he => h1.kv.kvKey e he) i
    · exact h0.kvShrink _ (fun e he => h0.kv.kvKey e he) i
  · exact h

theorem W.reap {s : State} (h : W N C L s) (u : Nat) : W N C L (reapTxn s u) := by
  refine ⟨⟨h.kv.kvKey, tsorted_filter h.kv.tombS _, fun t ht => h.kv.tombKey t (List.mem_filter.mp ht).1⟩,
    h.sess.congr rfl rfl, h.cat.congr rfl rfl rfl, h.pqS, h.idx, ?_⟩
  exact h.cov.grow (fun j hj => hj) (fun n hn => Or.inl hn) (fun n hn => Or.inl hn) (fun n hn => Or.inl ⟨n, hn⟩)
    (fun n hn => Or.inl ⟨n, hn⟩) (fun n hn => Or.inl ⟨n, hn⟩) (fun n hn => Or.inl ⟨n, (List.mem_filter.mp hn).1⟩)
    (fun n hn => Or.inl ⟨n, hn⟩)

/-! ### prepared queries -/

theorem W.pqWrite {s : State} (h : W N C L s) (l : List PQ) (hl : TSorted PQ.pk strLt l) (i : Nat) :
    W N C L { s with queries := l, index := idxSet s.index "prepared-queries" i } := by
  refine ⟨h.kv.congr rfl rfl, h.sess.congr rfl rfl, h.cat.congr rfl rfl rfl, hl, idxNF_set h.idx _ _, ?_⟩
  have hm : ∀ j, Rows s.index j → Rows (idxSet s.index "prepared-queries" i) j := fun j hj => (rows_set _ _ _ _).mpr (Or.inr hj)
  refine h.cov.grow hm (fun n hn => Or.inl hn) (fun n hn => Or.inl hn) (fun n hn => Or.inl ⟨n, hn⟩)
    (fun n hn => Or.inl ⟨n, hn⟩) (fun n hn => Or.inl ⟨n, hn⟩) (fun n hn => Or.inl ⟨n, hn⟩)
    (fun n hn => Or.inr ((rows_set _ _ _ _).mpr (Or.inl rfl)))

theorem W.pqSet {s s' : State} {i : Nat} {id sess : String} (hr : pqSet s i id sess = .ok s') (h : W N C L s) : W N C L s' := by
  simp only [Store.pqSet] at hr
  repeat' (split at hr)
  all_goals (try simp at hr)
  all_goals (subst hr)
  all_goals (exact h.pqWrite _ (tsorted_tupsert strLt_ord _ _ h.pqS) i)

theorem W.pqDelete {s : State} (h : W N C L s) (i : Nat) (id : String) : W N C L (pqDelete s i id) := by
  unfold Store.pqDelete
  split
  · exact h
  · exact h.pqWrite _ (tsorted_terase h.pqS _) i

end CV.Store
